(** The canonical form (and hence the fingerprint) of a schema graph is invariant under
    unfolding: if [g'] covers [g] along [h] (label preserving, child-order preserving, named
    nodes mapped injectively, root to root) then the canonical-form writer produces the same
    text on [g'] as on [g], with the same fuel.  Also: coverings have the same finite unfoldings. *)
From Coq Require Import NArith ZArith List Lia Bool Arith String ZifyN ZifyBool ZifyNat Relations.
Import ListNotations.
Require Import Base Schema Text Json Parse SchemaJson CanonicalForm Rabin.
Require Import PcfSpec SchemaTextProofs.
Open Scope N_scope.
Notation length := List.length (only parsing).

Arguments N.eqb : simpl never.
Arguments N.leb : simpl never.
Arguments N.ltb : simpl never.
Arguments N.add : simpl never.
Require Import SchemaJsonDefs.

(** * Generic helpers *)

Lemma rbind_ok_inv {A B} (r : result A) (k : A -> result B) (b : B) :
  rbind r k = Ok b -> exists a, r = Ok a /\ k a = Ok b.
Proof. destruct r; cbn [rbind]; intros H; try discriminate. exists a. split; [reflexivity|exact H]. Qed.

Lemma nth_error_set_nth_same {A} : forall (l : list A) i v,
  (i < length l)%nat -> nth_error (set_nth l i v) i = Some v.
Proof.
  induction l as [|x t IH]; intros [|i] v Hi; cbn [List.length] in Hi; try lia;
    cbn [set_nth nth_error]; [reflexivity|]. apply IH. lia.
Qed.

Lemma nth_error_set_nth_other {A} : forall (l : list A) i j v,
  i <> j -> nth_error (set_nth l i v) j = nth_error l j.
Proof.
  induction l as [|x t IH]; intros [|i] [|j] v Hij; cbn [set_nth nth_error]; try reflexivity;
    try congruence. apply IH. congruence.
Qed.

Lemma nth_set_nth_same {A} : forall (l : list A) i v d,
  (i < length l)%nat -> nth i (set_nth l i v) d = v.
Proof.
  induction l as [|x t IH]; intros [|i] v d Hi; cbn [List.length] in Hi; try lia;
    cbn [set_nth nth]; [reflexivity|]. apply IH. lia.
Qed.

Lemma nth_set_nth_other {A} : forall (l : list A) i j v d,
  i <> j -> nth j (set_nth l i v) d = nth j l d.
Proof.
  induction l as [|x t IH]; intros [|i] [|j] v d Hij; cbn [set_nth nth]; try reflexivity;
    try congruence. apply IH. congruence.
Qed.

Lemma rbind_ok_intro {A B} (r : result A) (k : A -> result B) (a : A) (b : B) :
  r = Ok a -> k a = Ok b -> rbind r k = Ok b.
Proof. intros -> H. exact H. Qed.

(** * Frame: a successful traversal restores [cf_being] *)

Lemma sep_by_frame {A} (f : A -> cfstate -> result cfstate) :
  (forall x s r, f x s = Ok r -> cf_being r = cf_being s) ->
  forall l first s r, sep_by f l first s = Ok r -> cf_being r = cf_being s.
Proof.
  intros Hf. induction l as [|x t IH]; intros first s r H; cbn [sep_by] in H.
  - inversion H. reflexivity.
  - apply rbind_ok_inv in H. destruct H as [s2 [H1 H2]].
    apply IH in H2. apply Hf in H1. rewrite H2, H1. destruct first; reflexivity.
Qed.

Lemma first_time_being : forall key nm st,
  cf_being (snd (cf_first_time key nm st)) = cf_being st.
Proof.
  intros key nm st. unfold cf_first_time.
  destruct (nth_error (cf_written st) key) as [[|]|]; reflexivity.
Qed.

Lemma unnamed_frame : forall key st (body : cfstate -> result cfstate) s,
  (forall s0 s1, body s0 = Ok s1 -> cf_being s1 = cf_being s0) ->
  (if Nat.ltb (cf_nnamed st) (nth key (cf_being st) O) then Err EData else
     let* st' := body (mkCF (cf_out st) (cf_written st)
                            (set_nth (cf_being st) key (S (cf_nnamed st))) (cf_nnamed st)) in
     Ok (mkCF (cf_out st') (cf_written st')
              (set_nth (cf_being st') key (nth key (cf_being st) O)) (cf_nnamed st'))) = Ok s ->
  cf_being s = cf_being st.
Proof.
  intros key st body s Hb H.
  destruct (Nat.ltb (cf_nnamed st) (nth key (cf_being st) O)); [discriminate|].
  apply rbind_ok_inv in H. destruct H as [s1 [H1 H2]]. inversion H2. subst s. clear H2.
  cbn [cf_being]. apply Hb in H1. rewrite H1. cbn [cf_being].
  apply set_nth_set_nth_restore.
Qed.

Lemma write_cf_frame : forall fuel g key st s,
  write_cf fuel g key st = Ok s -> cf_being s = cf_being st.
Proof.
  induction fuel as [|f IH]; intros g key st s H; [discriminate|].
  cbn [write_cf] in H.
  destruct (nth_error g key) as [node|] eqn:En; [|discriminate].
  destruct (m_type node) eqn:Et; cbn [andb rbind] in H.
  all: try (inversion H; reflexivity).
  - (* array *)
    apply (unnamed_frame key st (fun s0 =>
             let* s1 := write_cf f g items (cf_emit (lit "{""type"":""array"",""items"":") s0) in
             Ok (cf_emit (lit "}") s1))); [|exact H].
    intros s0 s1 Hb. apply rbind_ok_inv in Hb. destruct Hb as [s2 [H1 H2]].
    inversion H2. apply IH in H1. exact H1.
  - (* map *)
    apply (unnamed_frame key st (fun s0 =>
             let* s1 := write_cf f g values (cf_emit (lit "{""type"":""map"",""values"":") s0) in
             Ok (cf_emit (lit "}") s1))); [|exact H].
    intros s0 s1 Hb. apply rbind_ok_inv in Hb. destruct Hb as [s2 [H1 H2]].
    inversion H2. apply IH in H1. exact H1.
  - (* union *)
    apply (unnamed_frame key st (fun s0 =>
             let* s1 := sep_by (fun k s => write_cf f g k s) variants true (cf_emit (lit "[") s0) in
             Ok (cf_emit (lit "]") s1))); [|exact H].
    intros s0 s1 Hb. apply rbind_ok_inv in Hb. destruct Hb as [s2 [H1 H2]].
    inversion H2. apply sep_by_frame in H1; [exact H1|].
    intros x sa sb Hx. apply IH in Hx. exact Hx.
  - (* record *)
    pose proof (first_time_being key n st) as Hft.
    destruct (cf_first_time key n st) as [full s1]. cbn [snd] in Hft. destruct full.
    + apply rbind_ok_inv in H. destruct H as [s2 [H1 H2]]. inversion H2. subst s. clear H2.
      apply rbind_ok_inv in H1. destruct H1 as [s3 [H1 H2]]. inversion H2. subst s2. clear H2.
      apply sep_by_frame in H1; [cbn [cf_emit cf_being] in *; congruence|].
      intros fld sa sb Hx. apply rbind_ok_inv in Hx. destruct Hx as [sc [Hx1 Hx2]].
      inversion Hx2. apply IH in Hx1. exact Hx1.
    + inversion H. subst s. exact Hft.
  - (* enum *)
    pose proof (first_time_being key n st) as Hft.
    destruct (cf_first_time key n st) as [full s1]. cbn [snd] in Hft. destruct full.
    + apply rbind_ok_inv in H. destruct H as [s2 [H1 H2]]. inversion H2. subst s. clear H2.
      apply rbind_ok_inv in H1. destruct H1 as [s3 [H1 H2]]. inversion H2. subst s2. clear H2.
      apply sep_by_frame in H1; [cbn [cf_emit cf_being] in *; congruence|].
      intros sym sa sb Hx. inversion Hx. reflexivity.
    + inversion H. subst s. exact Hft.
  - (* fixed *)
    pose proof (first_time_being key n st) as Hft.
    destruct (cf_first_time key n st) as [full s1]. cbn [snd] in Hft. destruct full.
    + inversion H. subst s. exact Hft.
    + inversion H. subst s. exact Hft.
Qed.

(** * The simulation relation between a state of the traversal of [g'] and one of [g] *)

Section Sim.
Variable h : nat -> nat.
Variables g' g : schema_mut.
Hypothesis Hcov : cover h g' g.

Record rel (st' st : cfstate) : Prop := {
  rel_out : cf_out st' = cf_out st;
  rel_nnamed : cf_nnamed st' = cf_nnamed st;
  rel_len' : length (cf_being st') = length g';
  rel_len : length (cf_being st) = length g;
  rel_written : forall k n, nth_error g' k = Some n -> is_named_node n = true ->
      nth_error (cf_written st') k = nth_error (cf_written st) (h k);
  rel_being : forall k, (k < length g')%nat ->
      (nth k (cf_being st') O <= nth (h k) (cf_being st) O)%nat
}.

Lemma h_lt : forall k, (k < length g')%nat -> (h k < length g)%nat.
Proof.
  intros k Hk. destruct (nth_error g' k) as [n'|] eqn:E.
  - destruct (cv_node _ _ _ Hcov k n' E) as [n [Hn _]]. apply nth_error_Some. congruence.
  - apply nth_error_None in E. lia.
Qed.

Lemma rel_emit : forall st' st b, rel st' st -> rel (cf_emit b st') (cf_emit b st).
Proof.
  intros st' st b [H1 H2 H3 H4 H5 H6]. constructor; cbn [cf_emit cf_out cf_nnamed cf_being cf_written];
    try assumption. rewrite H1. reflexivity.
Qed.

Lemma sep_by_sim {A B} (f' : A -> cfstate -> result cfstate) (f : B -> cfstate -> result cfstate)
      (m : A -> B) (P : A -> Prop) :
  (forall x s' s r, P x -> rel s' s -> f (m x) s = Ok r -> exists r', f' x s' = Ok r' /\ rel r' r) ->
  forall l first s' s r, Forall P l -> rel s' s -> sep_by f (map m l) first s = Ok r ->
    exists r', sep_by f' l first s' = Ok r' /\ rel r' r.
Proof.
  intros Hf. induction l as [|x t IH]; intros first s' s r HP Hr H; cbn [map sep_by] in *.
  - inversion H. subst r. exists s'. split; [reflexivity|exact Hr].
  - inversion HP as [|x0 t0 Px Pt]. subst x0 t0.
    apply rbind_ok_inv in H. destruct H as [s2 [H1 H2]].
    assert (Hr1 : rel (if first then s' else cf_emit (lit ",") s') (if first then s else cf_emit (lit ",") s)).
    { destruct first; [exact Hr|apply rel_emit; exact Hr]. }
    destruct (Hf x _ _ _ Px Hr1 H1) as [s2' [H1' Hr2]].
    destruct (IH false s2' s2 r Pt Hr2 H2) as [r' [H2' Hr3]].
    exists r'. split; [|exact Hr3]. rewrite H1'. cbn [rbind]. exact H2'.
Qed.

(* entering / leaving an array, map or union node *)
Lemma unnamed_sim : forall k' st' st (body' body : cfstate -> result cfstate) s,
  (k' < length g')%nat -> rel st' st ->
  (forall s0 s1, body s0 = Ok s1 -> cf_being s1 = cf_being s0) ->
  (forall s0 s1, body' s0 = Ok s1 -> cf_being s1 = cf_being s0) ->
  (forall s0' s0 s1, rel s0' s0 -> body s0 = Ok s1 -> exists s1', body' s0' = Ok s1' /\ rel s1' s1) ->
  (if Nat.ltb (cf_nnamed st) (nth (h k') (cf_being st) O) then Err EData else
     let* x := body (mkCF (cf_out st) (cf_written st)
                            (set_nth (cf_being st) (h k') (S (cf_nnamed st))) (cf_nnamed st)) in
     Ok (mkCF (cf_out x) (cf_written x)
              (set_nth (cf_being x) (h k') (nth (h k') (cf_being st) O)) (cf_nnamed x))) = Ok s ->
  exists s',
  (if Nat.ltb (cf_nnamed st') (nth k' (cf_being st') O) then Err EData else
     let* x := body' (mkCF (cf_out st') (cf_written st')
                            (set_nth (cf_being st') k' (S (cf_nnamed st'))) (cf_nnamed st')) in
     Ok (mkCF (cf_out x) (cf_written x)
              (set_nth (cf_being x) k' (nth k' (cf_being st') O)) (cf_nnamed x))) = Ok s' /\ rel s' s.
Proof.
  intros k' st' st body' body s Hk Hr Hfr Hfr' Hsim H.
  destruct (Nat.ltb (cf_nnamed st) (nth (h k') (cf_being st) O)) eqn:E; [discriminate|].
  apply Nat.ltb_ge in E.
  pose proof (rel_being _ _ Hr k' Hk) as Hle.
  pose proof (rel_nnamed _ _ Hr) as Hnn.
  destruct (Nat.ltb (cf_nnamed st') (nth k' (cf_being st') O)) eqn:E'; [apply Nat.ltb_lt in E'; lia|].
  apply rbind_ok_inv in H. destruct H as [s1 [H1 H2]]. inversion H2. subst s. clear H2.
  pose proof (h_lt k' Hk) as Hhk.
  assert (Hr0 : rel (mkCF (cf_out st') (cf_written st')
                          (set_nth (cf_being st') k' (S (cf_nnamed st'))) (cf_nnamed st'))
                    (mkCF (cf_out st) (cf_written st)
                          (set_nth (cf_being st) (h k') (S (cf_nnamed st))) (cf_nnamed st))).
  { destruct Hr as [R1 R2 R3 R4 R5 R6].
    constructor; cbn [cf_out cf_nnamed cf_being cf_written]; try assumption.
    - rewrite set_nth_length. exact R3.
    - rewrite set_nth_length. exact R4.
    - intros k Hklt. destruct (Nat.eq_dec k k') as [->|Hne].
      + rewrite !nth_set_nth_same by lia. lia.
      + rewrite (nth_set_nth_other (cf_being st') k' k) by congruence.
        destruct (Nat.eq_dec (h k) (h k')) as [He|Hne2].
        * rewrite He. rewrite nth_set_nth_same by lia.
          specialize (R6 k Hklt). rewrite He in R6. lia.
        * rewrite nth_set_nth_other by congruence. apply R6. exact Hklt. }
  destruct (Hsim _ _ _ Hr0 H1) as [s1' [H1' Hr1]].
  rewrite H1'. cbn [rbind]. eexists. split; [reflexivity|].
  apply Hfr in H1. apply Hfr' in H1'. cbn [cf_being] in H1, H1'.
  destruct Hr as [R1 R2 R3 R4 R5 R6]. destruct Hr1 as [Q1 Q2 Q3 Q4 Q5 Q6].
  constructor; cbn [cf_out cf_nnamed cf_being cf_written]; try assumption.
  - rewrite set_nth_length. exact Q3.
  - rewrite set_nth_length. exact Q4.
  - rewrite H1, H1'. rewrite !set_nth_set_nth_restore. exact R6.
Qed.

(* the first-time test on a named node *)
Lemma first_time_sim : forall k' n' nm st' st,
  nth_error g' k' = Some n' -> is_named_node n' = true -> rel st' st ->
  fst (cf_first_time k' nm st') = fst (cf_first_time (h k') nm st) /\
  rel (snd (cf_first_time k' nm st')) (snd (cf_first_time (h k') nm st)).
Proof.
  intros k' n' nm st' st En Hn Hr. unfold cf_first_time.
  pose proof (rel_written _ _ Hr k' n' En Hn) as Hw. rewrite Hw.
  destruct (nth_error (cf_written st) (h k')) as [[|]|] eqn:E; cbn [fst snd];
    (split; [reflexivity|]); try (apply rel_emit; exact Hr).
  destruct Hr as [R1 R2 R3 R4 R5 R6].
  constructor; cbn [cf_out cf_nnamed cf_being cf_written]; try assumption.
  - congruence.
  - intros k n Ek Hnk. destruct (Nat.eq_dec k k') as [->|Hne].
    + rewrite !nth_error_set_nth_same; [reflexivity| |];
        apply nth_error_Some; congruence.
    + assert (h k <> h k').
      { intro He. apply Hne. exact (cv_inj _ _ _ Hcov k k' n n' Ek En Hnk He). }
      rewrite !nth_error_set_nth_other by congruence. exact (R5 k n Ek Hnk).
Qed.

End Sim.

(** * The simulation *)

Lemma write_cf_sim : forall h g' g, cover h g' g -> forall fuel k' st' st s,
  (k' < length g')%nat -> rel h g' g st' st -> write_cf fuel g (h k') st = Ok s ->
  exists s', write_cf fuel g' k' st' = Ok s' /\ rel h g' g s' s.
Proof.
  intros h g' g Hcov. induction fuel as [|f IH]; intros k' st' st s Hk Hr H; [discriminate|].
  cbn [write_cf] in H |- *.
  destruct (nth_error g' k') as [n'|] eqn:En'; [|apply nth_error_None in En'; lia].
  destruct (cv_node _ _ _ Hcov k' n' En') as [n [En [Ht _]]].
  pose proof (cv_keys _ _ _ Hcov k' n' En') as Hkeys. unfold node_children in Hkeys.
  assert (Hnamed : is_named_node n' = match m_type n' with RRecord _ _ | REnum _ _ | RFixed _ _ => true | _ => false end)
    by reflexivity.
  rewrite En in H.
  destruct (m_type n') eqn:Et'; cbn [relabel] in Ht; rewrite Ht in H; cbn [andb rbind] in H |- *.
  all: try (inversion H; subst s; eexists; split; [reflexivity|apply rel_emit; exact Hr]).
  - (* array *)
    apply (unnamed_sim h g' g Hcov k' st' st
            (fun s0 => let* s1 := write_cf f g' items (cf_emit (lit "{""type"":""array"",""items"":") s0) in
                       Ok (cf_emit (lit "}") s1))
            (fun s0 => let* s1 := write_cf f g (h items) (cf_emit (lit "{""type"":""array"",""items"":") s0) in
                       Ok (cf_emit (lit "}") s1))); try assumption.
    + intros s0 s1 Hb. apply rbind_ok_inv in Hb. destruct Hb as [s2 [H1 H2]].
      inversion H2. apply write_cf_frame in H1. exact H1.
    + intros s0 s1 Hb. apply rbind_ok_inv in Hb. destruct Hb as [s2 [H1 H2]].
      inversion H2. apply write_cf_frame in H1. exact H1.
    + intros s0' s0 s1 Hr0 Hb. apply rbind_ok_inv in Hb. destruct Hb as [s2 [H1 H2]].
      inversion H2. subst s1. clear H2.
      inversion Hkeys as [|c l Hc Hl]. subst c l.
      destruct (IH items _ _ s2 Hc (rel_emit h g' g _ _ (lit "{""type"":""array"",""items"":") Hr0) H1)
        as [s2' [H1' Hr2]].
      rewrite H1'. cbn [rbind]. eexists. split; [reflexivity|]. apply rel_emit. exact Hr2.
  - (* map *)
    apply (unnamed_sim h g' g Hcov k' st' st
            (fun s0 => let* s1 := write_cf f g' values (cf_emit (lit "{""type"":""map"",""values"":") s0) in
                       Ok (cf_emit (lit "}") s1))
            (fun s0 => let* s1 := write_cf f g (h values) (cf_emit (lit "{""type"":""map"",""values"":") s0) in
                       Ok (cf_emit (lit "}") s1))); try assumption.
    + intros s0 s1 Hb. apply rbind_ok_inv in Hb. destruct Hb as [s2 [H1 H2]].
      inversion H2. apply write_cf_frame in H1. exact H1.
    + intros s0 s1 Hb. apply rbind_ok_inv in Hb. destruct Hb as [s2 [H1 H2]].
      inversion H2. apply write_cf_frame in H1. exact H1.
    + intros s0' s0 s1 Hr0 Hb. apply rbind_ok_inv in Hb. destruct Hb as [s2 [H1 H2]].
      inversion H2. subst s1. clear H2.
      inversion Hkeys as [|c l Hc Hl]. subst c l.
      destruct (IH values _ _ s2 Hc (rel_emit h g' g _ _ (lit "{""type"":""map"",""values"":") Hr0) H1)
        as [s2' [H1' Hr2]].
      rewrite H1'. cbn [rbind]. eexists. split; [reflexivity|]. apply rel_emit. exact Hr2.
  - (* union *)
    apply (unnamed_sim h g' g Hcov k' st' st
            (fun s0 => let* s1 := sep_by (fun k s => write_cf f g' k s) variants true (cf_emit (lit "[") s0) in
                       Ok (cf_emit (lit "]") s1))
            (fun s0 => let* s1 := sep_by (fun k s => write_cf f g k s) (map h variants) true (cf_emit (lit "[") s0) in
                       Ok (cf_emit (lit "]") s1))); try assumption.
    + intros s0 s1 Hb. apply rbind_ok_inv in Hb. destruct Hb as [s2 [H1 H2]].
      inversion H2. apply sep_by_frame in H1; [exact H1|].
      intros x sa sb Hx. apply write_cf_frame in Hx. exact Hx.
    + intros s0 s1 Hb. apply rbind_ok_inv in Hb. destruct Hb as [s2 [H1 H2]].
      inversion H2. apply sep_by_frame in H1; [exact H1|].
      intros x sa sb Hx. apply write_cf_frame in Hx. exact Hx.
    + intros s0' s0 s1 Hr0 Hb. apply rbind_ok_inv in Hb. destruct Hb as [s2 [H1 H2]].
      inversion H2. subst s1. clear H2.
      destruct (sep_by_sim h g' g (fun k s => write_cf f g' k s) (fun k s => write_cf f g k s) h
                  (fun c => (c < length g')%nat)
                  (fun x sa' sa r Px Hra Hx => IH x sa' sa r Px Hra Hx)
                  variants true _ _ s2 Hkeys (rel_emit h g' g _ _ (lit "[") Hr0) H1)
        as [s2' [H1' Hr2]].
      rewrite H1'. cbn [rbind]. eexists. split; [reflexivity|]. apply rel_emit. exact Hr2.
  - (* record *)
    cbn beta iota in Hnamed.
    destruct (first_time_sim h g' g Hcov k' n' n0 st' st En' Hnamed Hr) as [Hf Hr1].
    destruct (cf_first_time k' n0 st') as [full' s1'].
    destruct (cf_first_time (h k') n0 st) as [full s1]. cbn [fst snd] in Hf, Hr1. subst full'.
    destruct full.
    + apply rbind_ok_inv in H. destruct H as [s2 [H1 H2]]. inversion H2. subst s2. clear H2.
      apply rbind_ok_inv in H1. destruct H1 as [s3 [H1 H2]]. inversion H2. subst s. clear H2.
      assert (HP : Forall (fun fld : bytes * nat => (snd fld < length g')%nat) fields).
      { apply Forall_map in Hkeys. exact Hkeys. }
      destruct (sep_by_sim h g' g
                  (fun fld s => let* s' := write_cf f g' (snd fld)
                                             (cf_emit (lit "{""name"":""" ++ fst fld ++ lit """,""type"":") s) in
                                Ok (cf_emit (lit "}") s'))
                  (fun fld s => let* s' := write_cf f g (snd fld)
                                             (cf_emit (lit "{""name"":""" ++ fst fld ++ lit """,""type"":") s) in
                                Ok (cf_emit (lit "}") s'))
                  (fun fld : bytes * nat => (fst fld, h (snd fld)))
                  (fun fld => (snd fld < length g')%nat)) with
          (l := fields) (first := true)
          (s' := cf_emit (lit "{""name"":""" ++ nm_full n0 ++ lit """,""type"":""record"",""fields"":[") s1')
          (s := cf_emit (lit "{""name"":""" ++ nm_full n0 ++ lit """,""type"":""record"",""fields"":[") s1)
          (r := s3) as [s3' [H1' Hr3]].
      * intros x sa' sa r Px Hra Hx. cbn [fst snd] in Hx.
        apply rbind_ok_inv in Hx. destruct Hx as [sb [Hx1 Hx2]]. inversion Hx2. subst r. clear Hx2.
        destruct (IH (snd x) _ _ sb Px (rel_emit h g' g _ _ _ Hra) Hx1) as [sb' [Hx1' Hrb]].
        exists (cf_emit (lit "}") sb'). split; [|apply rel_emit; exact Hrb].
        eapply rbind_ok_intro; [exact Hx1'|reflexivity].
      * exact HP.
      * apply rel_emit. exact Hr1.
      * exact H1.
      * exists (cf_emit (lit "]}") s3'). split; [|apply rel_emit; exact Hr3].
        eapply rbind_ok_intro; [|reflexivity]. eapply rbind_ok_intro; [exact H1'|reflexivity].
    + inversion H. subst s. eexists. split; [reflexivity|exact Hr1].
  - (* enum *)
    cbn beta iota in Hnamed.
    destruct (first_time_sim h g' g Hcov k' n' n0 st' st En' Hnamed Hr) as [Hf Hr1].
    destruct (cf_first_time k' n0 st') as [full' s1'].
    destruct (cf_first_time (h k') n0 st) as [full s1]. cbn [fst snd] in Hf, Hr1. subst full'.
    destruct full.
    + apply rbind_ok_inv in H. destruct H as [s2 [H1 H2]]. inversion H2. subst s2. clear H2.
      apply rbind_ok_inv in H1. destruct H1 as [s3 [H1 H2]]. inversion H2. subst s. clear H2.
      rewrite <- (map_id symbols) in H1.
      destruct (sep_by_sim h g' g
                  (fun (sym : bytes) s => Ok (cf_emit (lit """" ++ sym ++ lit """") s))
                  (fun (sym : bytes) s => Ok (cf_emit (lit """" ++ sym ++ lit """") s))
                  (fun x : bytes => x) (fun _ => True)) with
          (l := symbols) (first := true)
          (s' := cf_emit (lit "{""name"":""" ++ nm_full n0 ++ lit """,""type"":""enum"",""symbols"":[") s1')
          (s := cf_emit (lit "{""name"":""" ++ nm_full n0 ++ lit """,""type"":""enum"",""symbols"":[") s1)
          (r := s3) as [s3' [H1' Hr3]].
      * intros x sa' sa r _ Hra Hx. inversion Hx. subst r. eexists. split; [reflexivity|].
        apply rel_emit. exact Hra.
      * apply Forall_forall. intros; exact I.
      * apply rel_emit. exact Hr1.
      * exact H1.
      * exists (cf_emit (lit "]}") s3'). split; [|apply rel_emit; exact Hr3].
        eapply rbind_ok_intro; [|reflexivity]. eapply rbind_ok_intro; [exact H1'|reflexivity].
    + inversion H. subst s. eexists. split; [reflexivity|exact Hr1].
  - (* fixed *)
    cbn beta iota in Hnamed.
    destruct (first_time_sim h g' g Hcov k' n' n0 st' st En' Hnamed Hr) as [Hf Hr1].
    destruct (cf_first_time k' n0 st') as [full' s1'].
    destruct (cf_first_time (h k') n0 st) as [full s1]. cbn [fst snd] in Hf, Hr1. subst full'.
    destruct full.
    + inversion H. subst s. eexists. split; [reflexivity|]. apply rel_emit. exact Hr1.
    + inversion H. subst s. eexists. split; [reflexivity|exact Hr1].
Qed.

(** * The canonical form and the fingerprint are invariant under unfolding *)

Lemma nth_error_repeat {A} : forall (a : A) n k, (k < n)%nat -> nth_error (repeat a n) k = Some a.
Proof.
  intros a. induction n as [|n IH]; intros [|k] Hk; try lia; cbn [repeat nth_error]; [reflexivity|].
  apply IH. lia.
Qed.

Lemma nth_repeat_O : forall n k, nth k (repeat O n) O = O.
Proof. induction n as [|n IH]; intros [|k]; cbn [repeat nth]; auto. Qed.

Lemma rel_init : forall h g' g, cover h g' g -> rel h g' g (cf_init g') (cf_init g).
Proof.
  intros h g' g Hcov. unfold cf_init.
  constructor; cbn [cf_out cf_nnamed cf_being cf_written]; try reflexivity.
  - apply repeat_length.
  - apply repeat_length.
  - intros k n Ek _.
    assert (Hk : (k < length g')%nat) by (apply nth_error_Some; congruence).
    rewrite !nth_error_repeat; [reflexivity| |exact Hk].
    apply (h_lt h g' g Hcov). exact Hk.
  - intros k _. rewrite !nth_repeat_O. lia.
Qed.

Theorem cf_cover : forall h g' g fuel t,
  cover h g' g -> (0 < length g')%nat ->
  canonical_form fuel g = Ok t -> canonical_form fuel g' = Ok t.
Proof.
  intros h g' g fuel t Hcov Hne H. unfold canonical_form in *.
  apply rbind_ok_inv in H. destruct H as [s [H1 H2]]. inversion H2. subst t. clear H2.
  rewrite <- (cv_root _ _ _ Hcov) in H1.
  destruct (write_cf_sim h g' g Hcov fuel O _ _ s Hne (rel_init h g' g Hcov) H1) as [s' [H1' Hr]].
  rewrite H1'. cbn [rbind]. rewrite (rel_out _ _ _ _ _ Hr). reflexivity.
Qed.

Corollary fingerprint_cover : forall h g' g fuel t,
  cover h g' g -> (0 < length g')%nat ->
  fingerprint fuel g = Ok t -> fingerprint fuel g' = Ok t.
Proof.
  intros h g' g fuel t Hcov Hne H. unfold fingerprint in *.
  apply rbind_ok_inv in H. destruct H as [c [H1 H2]].
  rewrite (cf_cover h g' g fuel c Hcov Hne H1). exact H2.
Qed.

(** * Coverings have the same finite unfoldings *)

Lemma relabel_const : forall h r, relabel (fun _ => O) (relabel h r) = relabel (fun _ => O) r.
Proof.
  intros h r. destruct r; cbn [relabel]; try reflexivity.
  - rewrite map_map. reflexivity.
  - rewrite map_map. reflexivity.
Qed.

Lemma node_children_relabel : forall h n n',
  m_type n = relabel h (m_type n') -> node_children n = map h (node_children n').
Proof.
  intros h n n' Ht. unfold node_children. rewrite Ht.
  destruct (m_type n'); cbn [relabel map]; try reflexivity.
  rewrite !map_map. reflexivity.
Qed.

Theorem unfold_cover : forall h g' g, cover h g' g ->
  forall n k', (k' < length g')%nat -> unfold n g' k' = unfold n g (h k').
Proof.
  intros h g' g Hcov. induction n as [|n IH]; intros k' Hk; cbn [unfold]; [reflexivity|].
  destruct (nth_error g' k') as [n'|] eqn:En'; [|apply nth_error_None in En'; lia].
  destruct (cv_node _ _ _ Hcov k' n' En') as [nd [En [Ht Hl]]].
  pose proof (cv_keys _ _ _ Hcov k' n' En') as Hkeys.
  rewrite En. rewrite Ht, relabel_const, Hl.
  rewrite (node_children_relabel h nd n' Ht). rewrite map_map.
  f_equal. apply map_ext_in. intros c Hc.
  apply IH. rewrite Forall_forall in Hkeys. apply Hkeys. exact Hc.
Qed.

Print Assumptions cf_cover.
Print Assumptions fingerprint_cover.
Print Assumptions unfold_cover.
