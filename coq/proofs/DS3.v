(** Decoder completeness beyond deserialize_any (slice mode):
    - [de_ignored_complete]        skipping a value (serde::de::IgnoredAny) consumes exactly its encoding
    - [ignored_consumes_as_any]    ... which is what reading it with deserialize_any consumes
    - [struct_missing_field_skips] a struct target that lacks fields skips exactly those fields
    - [de_typed_complete]          round trip for ordinary Rust data types (typed_target) *)
From Coq Require Import NArith ZArith List Lia Bool.
From Coq Require Import ZifyN ZifyBool ZifyNat.
Require Import Base Kinds Schema Varint Utf8 Sval Target Reader Text De.
Require Import AvroValue Encoding Denote Wf VarintProofs.
Require Import DeProofs.
Import ListNotations.
Open Scope N_scope.

Ltac Zify.zify_post_hook ::= Z.to_euclidean_division_equations.

Arguments N.add : simpl never.
Arguments N.sub : simpl never.
Arguments N.mul : simpl never.
Arguments N.div : simpl never.
Arguments N.modulo : simpl never.
Arguments N.pow : simpl never.
Arguments N.shiftl : simpl never.
Arguments N.shiftr : simpl never.
Arguments N.land : simpl never.
Arguments N.lor : simpl never.
Arguments N.ltb : simpl never.
Arguments N.leb : simpl never.
Arguments N.eqb : simpl never.
Arguments N.of_nat : simpl never.
Arguments N.to_nat : simpl never.
Arguments N.min : simpl never.
Arguments Z.of_nat : simpl never.
Arguments Z.of_N : simpl never.
Arguments Z.to_N : simpl never.
Arguments Z.add : simpl never.
Arguments Z.sub : simpl never.
Arguments Z.mul : simpl never.
Arguments Z.pow : simpl never.
Arguments Z.ltb : simpl never.
Arguments Z.leb : simpl never.
Arguments Z.eqb : simpl never.
Arguments Z.opp : simpl never.
Arguments Z.abs : simpl never.
Arguments Z.modulo : simpl never.

(* ------------------------------------------------------------------ *)
Require Import DS1 DS2.
(* ------------------------------------------------------------------ *)
(** * 5. What the preconditions of a composite value give for its children *)

Fixpoint fields_P (P : bytes -> nat -> evalue -> Prop) (fields : list (bytes * nat)) (fs : list evalue)
  : Prop :=
  match fields, fs with
  | [], [] => True
  | (nm, k) :: fr, v :: vr => P nm k v /\ fields_P P fr vr
  | _, _ => False
  end.

Lemma fields_P_impl (P Q : bytes -> nat -> evalue -> Prop) : forall fields fs,
  (forall nm k v, In v fs -> P nm k v -> Q nm k v) -> fields_P P fields fs -> fields_P Q fields fs.
Proof.
  induction fields as [|[nm k] fr IH]; intros [|v vr] H HP; try exact HP.
  cbn [fields_P] in *. destruct HP as [H1 H2]. split.
  - apply H; [left; reflexivity|exact H1].
  - apply IH; [|exact H2]. intros. apply H; [right; assumption|assumption].
Qed.

Lemma fields_P_length P : forall fields fs, fields_P P fields fs -> length fields = length fs.
Proof.
  induction fields as [|[nm k] fr IH]; intros [|v vr] H; try reflexivity; try destruct H.
  cbn [length]. f_equal. apply IH. assumption.
Qed.

Section Children.
Variable Sc : fschema.
Variable cfg : dcfg.

Lemma fields_pre_intro : forall fs fields d',
  conf_fields Sc fields (map erase fs) = true ->
  forallb layout_ok fs = true ->
  within_fields Sc cfg fields fs = true ->
  (list_max (map depth_cost fs) <= d')%nat ->
  forallb counts_fit fs = true ->
  fits_long (length (enc_fields Sc fields fs)) ->
  fields_P (fun _ k v => pre_at Sc cfg k d' v) fields fs.
Proof.
  induction fs as [|v vr IH]; intros fields d' Hc Hl Hw Hd Hf He.
  - destruct fields as [|[nm k] fr]; [exact I|discriminate Hc].
  - destruct fields as [|[nm k] fr]; [discriminate Hc|].
    cbn [map conf_fields forallb within_fields enc_fields fields_P] in *.
    unfold list_max in Hd. cbn [fold_right] in Hd. fold (list_max (map depth_cost vr)) in Hd.
    apply andb_prop in Hc, Hl, Hw, Hf.
    destruct Hc as [Hc1 Hc2], Hl as [Hl1 Hl2], Hw as [Hw1 Hw2], Hf as [Hf1 Hf2].
    rewrite app_length in He.
    split.
    + unfold conf_at, within_at, enc_at in *.
      destruct (fnode_at Sc k) as [n'|] eqn:Hn; [|discriminate Hc1].
      exists n'. split; [exact Hn|].
      repeat split; try assumption; [lia|]. revert He. apply fits_long_le. lia.
    + apply IH; try assumption; [lia|]. revert He. apply fits_long_le. lia.
Qed.

Lemma record_pre : forall nm fields fs depth f,
  pre Sc cfg (FRecord nm fields) depth (ERecord fs) -> (de_fuel (ERecord fs) <= S f)%nat ->
  exists d' f1 M, depth = S d' /\ f = S f1 /\ (length fs + 2 + M <= f1)%nat /\
    fields_P (fun _ k v => pre_at Sc cfg k d' v) fields fs /\
    Forall (fun e => (de_fuel e <= M)%nat) fs.
Proof.
  intros nm fields fs depth f (Hc & Hl & Hw & Hd & Hf & He) Hfuel. cbn [erase] in Hc.
  rewrite conforms_record_eq in Hc. rewrite within_record_eq in Hw.
  rewrite encode_record_eq in *.
  apply andb_prop in Hc. destruct Hc as [Hlen Hc].
  cbn [layout_ok counts_fit depth_cost] in *.
  destruct depth as [|d']; [lia|].
  destruct f as [|f1]; [unfold de_fuel in Hfuel; lia|].
  exists d', f1, (f1 - 2 - length fs)%nat. split; [reflexivity|]. split; [reflexivity|].
  split; [|split].
  - destruct fs as [|x fs']; [unfold de_fuel in Hfuel; cbn [esize length] in *; lia|].
    pose proof (sum_ge esize (x :: fs') x esize_pos (or_introl eq_refl)) as Hs.
    unfold de_fuel in *. cbn [esize] in Hfuel. lia.
  - apply fields_pre_intro; try assumption. clear -Hd. lia.
  - apply Forall_forall. intros x Hx.
    pose proof (sum_ge esize fs x esize_pos Hx) as Hs.
    assert (1 <= length fs)%nat by (destruct fs; [destruct Hx|cbn [length]; lia]).
    unfold de_fuel in *. cbn [esize] in Hfuel. lia.
Qed.

Definition blk_pre (k d' M : nat) (blk : bool * list evalue) : Prop :=
  snd blk <> [] /\ fits_long (length (snd blk)) /\
  fits_long (length (flat_map (enc_at Sc k) (snd blk))) /\
  Forall (fun it => pre_at Sc cfg k d' it /\ (de_fuel it <= M)%nat) (snd blk).

Lemma array_pre : forall k blocks depth f,
  pre Sc cfg (FArray k) depth (EArray blocks) -> (de_fuel (EArray blocks) <= S f)%nat ->
  exists d' f2 M, depth = S d' /\ f = S (S f2) /\
    N.of_nat (length (flat_map snd blocks)) <= c_max_seq cfg /\
    (length blocks + 1 <= f2)%nat /\
    (length blocks + length (flat_map snd blocks) + 2 + M <= f2)%nat /\
    Forall (blk_pre k d' M) blocks.
Proof.
  intros k blocks depth f (Hc & Hl & Hw & Hd & Hf & He) Hfuel. cbn [erase] in Hc.
  rewrite conforms_array_eq in Hc. rewrite within_array_eq in Hw.
  rewrite encode_array_eq in *.
  cbn [layout_ok depth_cost counts_fit] in *.
  apply andb_prop in Hw. destruct Hw as [Hmax Hw]. apply N.leb_le in Hmax.
  rewrite flat_map_map_snd in Hc. rewrite flat_map_map_snd in Hd.
  change (flat_map (fun blk : bool * list evalue => snd blk) blocks)
    with (flat_map (@snd bool (list evalue)) blocks) in Hmax.
  unfold de_fuel in Hfuel. cbn [esize] in Hfuel. rewrite flat_map_map_snd in Hfuel.
  pose proof (sum_ge_len esize (flat_map snd blocks) esize_pos) as Hsum.
  destruct depth as [|d']; [lia|].
  destruct f as [|f1]; [lia|]. destruct f1 as [|f2]; [lia|].
  set (all := flat_map snd blocks) in *.
  set (M := (f2 - 2 - length all - length blocks)%nat).
  exists d', f2, M. split; [reflexivity|]. split; [reflexivity|]. split; [exact Hmax|].
  split; [lia|]. split; [unfold M; lia|].
  apply Forall_forall. intros blk Hblk.
  rewrite forallb_forall in Hl, Hw, Hf.
  specialize (Hl blk Hblk). specialize (Hw blk Hblk). specialize (Hf blk Hblk).
  apply andb_prop in Hl, Hf. destruct Hl as [Hne Hl], Hf as [Hcnt Hf].
  apply fits_longb_true in Hcnt.
  assert (Hblen : (length (flat_map (enc_at Sc k) (snd blk))
                   <= length (flat_map (enc_block (enc_at Sc k)) blocks ++ spec_long 0))%nat).
  { pose proof (enc_block_len_ge (enc_at Sc k) blk).
    pose proof (flat_map_length_in (enc_block (enc_at Sc k)) blocks blk Hblk).
    rewrite app_length. lia. }
  split; [|split; [exact Hcnt|split]].
  - intro E. rewrite E in Hne. discriminate Hne.
  - revert He. apply fits_long_le. exact Hblen.
  - apply Forall_forall. intros it Hit.
    assert (Hin : In it all) by (apply in_flat_map; exists blk; split; assumption).
    rewrite forallb_forall in Hc, Hl, Hw, Hf.
    specialize (Hc (erase it) (in_map erase _ _ Hin)).
    specialize (Hl it Hit). specialize (Hw it Hit). specialize (Hf it Hit).
    split.
    + unfold conf_at, within_at in *.
      destruct (fnode_at Sc k) as [n'|] eqn:Hn; [|discriminate Hc].
      exists n'. split; [exact Hn|].
      repeat split; try assumption.
      * pose proof (list_max_in _ _ (in_map depth_cost _ _ Hin)). lia.
      * revert He. apply fits_long_le.
        pose proof (flat_map_length_in (enc_at Sc k) (snd blk) it Hit) as L.
        unfold enc_at in L at 1. rewrite Hn in L. lia.
    + pose proof (sum_ge esize all it esize_pos Hin).
      assert (1 <= length all)%nat by (destruct all; [destruct Hin|cbn [length]; lia]).
      unfold de_fuel, M. lia.
Qed.

Definition kv_pre (k d' M : nat) (kv : bytes * evalue) : Prop :=
  fits_long (length (fst kv)) /\ utf8_valid (fst kv) = true /\
  pre_at Sc cfg k d' (snd kv) /\ (de_fuel (snd kv) <= M)%nat.

Definition mblk_pre (k d' M : nat) (blk : bool * list (bytes * evalue)) : Prop :=
  snd blk <> [] /\ fits_long (length (snd blk)) /\
  fits_long (length (flat_map (enc_kv Sc k) (snd blk))) /\
  Forall (kv_pre k d' M) (snd blk).

Lemma map_pre : forall k blocks depth f,
  pre Sc cfg (FMap k) depth (EMap blocks) -> (de_fuel (EMap blocks) <= S f)%nat ->
  exists d' f2 M, depth = S d' /\ f = S (S (S f2)) /\
    N.of_nat (length (flat_map snd blocks)) <= c_max_seq cfg /\
    (length blocks + 1 <= f2)%nat /\
    (length blocks + length (flat_map snd blocks) + 2 + M <= f2)%nat /\
    Forall (mblk_pre k d' M) blocks.
Proof.
  intros k blocks depth f (Hc & Hl & Hw & Hd & Hf & He) Hfuel. cbn [erase] in Hc.
  rewrite conforms_map_eq in Hc. rewrite within_map_eq in Hw.
  rewrite encode_map_eq' in *.
  cbn [layout_ok depth_cost counts_fit] in *.
  apply andb_prop in Hw. destruct Hw as [Hmax Hw]. apply N.leb_le in Hmax.
  rewrite flat_map_map_snd in Hc. rewrite flat_map_map_snd in Hd.
  change (flat_map (fun blk : bool * list (bytes * evalue) => snd blk) blocks)
    with (flat_map (@snd bool (list (bytes * evalue))) blocks) in Hmax.
  unfold de_fuel in Hfuel. cbn [esize] in Hfuel. rewrite flat_map_map_snd in Hfuel.
  pose proof (sum_ge_len (fun kv : bytes * evalue => S (esize (snd kv))) (flat_map snd blocks)
                ltac:(intro; cbv beta; lia)) as Hsum.
  destruct depth as [|d']; [lia|].
  destruct f as [|f0]; [lia|]. destruct f0 as [|f1]; [lia|]. destruct f1 as [|f2]; [lia|].
  set (all := flat_map snd blocks) in *.
  set (M := (f2 - 2 - length all - length blocks)%nat).
  exists d', f2, M. split; [reflexivity|]. split; [reflexivity|]. split; [exact Hmax|].
  split; [lia|]. split; [unfold M; lia|].
  apply Forall_forall. intros blk Hblk.
  rewrite forallb_forall in Hl, Hw, Hf.
  specialize (Hl blk Hblk). specialize (Hw blk Hblk). specialize (Hf blk Hblk).
  apply andb_prop in Hl, Hf. destruct Hl as [Hne Hl], Hf as [Hcnt Hf].
  apply fits_longb_true in Hcnt.
  assert (Hblen : (length (flat_map (enc_kv Sc k) (snd blk))
                   <= length (flat_map (enc_block (enc_kv Sc k)) blocks ++ spec_long 0))%nat).
  { pose proof (enc_block_len_ge (enc_kv Sc k) blk).
    pose proof (flat_map_length_in (enc_block (enc_kv Sc k)) blocks blk Hblk).
    rewrite app_length. lia. }
  split; [|split; [exact Hcnt|split]].
  - intro E. rewrite E in Hne. discriminate Hne.
  - revert He. apply fits_long_le. exact Hblen.
  - apply Forall_forall. intros it Hit.
    assert (Hin : In it all) by (apply in_flat_map; exists blk; split; assumption).
    rewrite forallb_forall in Hc, Hl, Hw, Hf.
    specialize (Hc _ (in_map (fun kv : bytes * evalue => (fst kv, erase (snd kv))) _ _ Hin)).
    cbn [fst snd] in Hc.
    specialize (Hl it Hit). specialize (Hw it Hit). specialize (Hf it Hit).
    apply andb_prop in Hc. destruct Hc as [Hc Hcv]. apply andb_prop in Hc. destruct Hc as [_ Hku].
    pose proof (flat_map_length_in (enc_kv Sc k) (snd blk) it Hit) as L.
    unfold enc_kv in L at 1. rewrite app_length in L.
    split; [|split; [exact Hku|split]].
    + apply ld_fits. revert He. apply fits_long_le. lia.
    + unfold conf_at, within_at in *.
      destruct (fnode_at Sc k) as [n'|] eqn:Hn; [|discriminate Hcv].
      exists n'. split; [exact Hn|].
      repeat split; try assumption.
      * pose proof (list_max_in _ _ (in_map (fun kv : bytes * evalue => depth_cost (snd kv)) _ _ Hin)).
        cbv beta in *. lia.
      * revert He. apply fits_long_le.
        unfold enc_at in L. rewrite Hn in L. lia.
    + pose proof (sum_ge (fun kv : bytes * evalue => S (esize (snd kv))) all it
                    ltac:(intro; cbv beta; lia) Hin).
      assert (1 <= length all)%nat by (destruct all; [destruct Hin|cbn [length]; lia]).
      cbv beta in *. unfold de_fuel, M. lia.
Qed.

Lemma union_pre : forall ks i v depth f,
  pre Sc cfg (FUnion ks) depth (EUnion i v) -> (de_fuel (EUnion i v) <= S f)%nat ->
  exists k n' d', nth_error ks i = Some k /\ fnode_at Sc k = Some n' /\ depth = S d' /\
    fits_long i /\ (i < length ks)%nat /\ pre Sc cfg n' d' v /\ (de_fuel v + 10 <= S f)%nat /\
    encode_e Sc (FUnion ks) (EUnion i v) = spec_long (Z.of_nat i) ++ encode_e Sc n' v.
Proof.
  intros ks i v depth f (Hc & Hl & Hw & Hd & Hf & He) Hfuel. cbn [erase] in Hc.
  rewrite conforms_union_eq in Hc. rewrite within_union_eq in Hw.
  rewrite encode_union_eq in *.
  destruct (nth_error ks i) as [k|] eqn:Hk; [|discriminate Hc].
  unfold conf_at, within_at, enc_at in *.
  destruct (fnode_at Sc k) as [n'|] eqn:Hn; [|discriminate Hc].
  cbn [layout_ok] in Hl. cbn [depth_cost] in Hd. cbn [counts_fit] in Hf.
  apply andb_prop in Hf. destruct Hf as [Hfi Hf]. apply fits_longb_true in Hfi.
  assert (Hi : (i < length ks)%nat) by (apply nth_error_Some; congruence).
  destruct depth as [|d']; [lia|].
  exists k, n', d'. repeat split; try assumption; try reflexivity; try lia.
  - revert He. apply fits_long_le. rewrite app_length. lia.
  - unfold de_fuel in *. cbn [esize] in Hfuel. lia.
Qed.

End Children.

(* ------------------------------------------------------------------ *)
(** * 6. Leaves through the [any] arms of another target *)

Definition leafnode (n : fnode) : bool :=
  match n with
  | FArray _ | FMap _ | FUnion _ | FRecord _ _ | FDuration => false
  | _ => true
  end.

Definition is_leaf_e (e : evalue) : bool :=
  match e with
  | EArray _ | EMap _ | EUnion _ _ | ERecord _ | EDuration _ _ _ => false
  | _ => true
  end.

Lemma conforms_leafnode Sc e n :
  is_leaf_e e = true -> conforms Sc n (erase e) = true -> leafnode n = true.
Proof.
  intros Hl Hc. destruct e; try discriminate Hl; destruct n; try reflexivity;
    cbn [erase conforms] in Hc; discriminate Hc.
Qed.

Section LeafAny.
Variable Sc : fschema.
Variable cfg : dcfg.

Lemma any_g_of_any_step t f n depth st d st' :
  leafnode n = true ->
  any_step Sc cfg f n depth st = (Ok d, st') ->
  any_g Sc cfg t f n depth st = (Ok (leaf t d), st').
Proof.
  intros Hl H.
  destruct n; try discriminate Hl; cbn [any_step any_g] in *; unfold sbind, sret in *;
    try (inversion H; subst; reflexivity);
    try (match type of H with
         | context [match ?m st with _ => _ end] => destruct (m st) as [[a|?|?| |] s']
         end; try discriminate H;
         try (inversion H; subst; reflexivity)).
  (* enum *)
  destruct (nth_N symbols a); unfold rfail in *; [|discriminate H]. inversion H; subst. reflexivity.
Qed.

End LeafAny.
