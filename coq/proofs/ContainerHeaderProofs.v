(** Container files: the header (C05, C06).

    Part A  the reader's metadata map (cr_open's [de META_SCHEMA ... (TMap (THint HIdentifier) TAny)]) on ANY
            block layout of the map (several blocks, negative counts with byte sizes): [meta_read]
    Part B  [cr_open] on every file of the grammar of spec/FileSpec.v: [cr_open_grammar], [cr_open_ref_write]
    Part C  what the writer's [header_bytes] is, exactly: [header_bytes_eq] (Ok iff every key / value length is
            an Avro long; one map block per entry)
    Part D  [header_bytes_inv], [header_is_ref_write], [header_bytes_outcomes]; the header round trip
            [header_read_back]; interpreting the metadata in any order: [header_meta_ok],
            [header_meta_inserted], [header_meta_inserted_nocodec], [header_meta_written]
    Part E  the whole file: [file_read_back_full], [file_read_back_slice] (wbuild + history + close, then
            cr_open + header_meta + cr_run on the WHOLE sink)
    Part F  C06: [reader_accepts_grammar], [reader_accepts_grammar_interpreted], [reader_accepts_grammar_nocodec]
            (independent conforming writer = reference writer of FileSpec.v: any metadata layout and order,
            extra keys, codec absent, any partition into blocks of count >= 1), [grammar_files_are_wf],
            [cr_open_agrees_with_ref_parse], [layout_ok_intro]
    Part G  examples (vm_compute) and refutations of the statements without their hypotheses
    No hypothesis on the byte VALUES (< 256) is needed anywhere: the reader only copies them. *)
From Coq Require Import NArith ZArith List Lia Bool Arith.
From Coq Require Import ZifyN ZifyBool ZifyNat.
Import ListNotations.
Require Import Base Kinds Schema Varint Utf8 Sval Ser Target Reader Text De VectoredWrite Container.
Require Import AvroValue Encoding Denote Wf FileSpec.
Require Import VarintProofs.
Require SerProofs DeProofs RoundTripProofs ContainerProofs DS5 ReaderProofs.
Require Import ContainerReadProofs.
Open Scope N_scope.
Notation length := List.length (only parsing).

Ltac Zify.zify_post_hook ::= Z.to_euclidean_division_equations.

Arguments N.add : simpl never.
Arguments N.sub : simpl never.
Arguments N.mul : simpl never.
Arguments N.div : simpl never.
Arguments N.modulo : simpl never.
Arguments N.pow : simpl never.
Arguments N.shiftl : simpl never.
Arguments N.shiftr : simpl never.
Arguments N.land : simpl never.
Arguments N.lor : simpl never.
Arguments N.ltb : simpl never.
Arguments N.leb : simpl never.
Arguments N.eqb : simpl never.
Arguments N.of_nat : simpl never.
Arguments N.to_nat : simpl never.
Arguments N.min : simpl never.
Arguments Z.of_nat : simpl never.
Arguments Z.of_N : simpl never.
Arguments Z.to_N : simpl never.
Arguments Z.ltb : simpl never.
Arguments Z.leb : simpl never.

Opaque FUEL_SINK.

Import DeProofs.

(* ------------------------------------------------------------------------------------------ *)
(** * Part A. The metadata map, any block layout *)

(* what cr_open keeps of a (key event, value event) pair *)
Definition kv_bytes (kv : dval * dval) : bytes * bytes :=
  (match dval_bytes (fst kv) with Some k => k | None => [] end,
   match dval_bytes (snd kv) with Some v => v | None => [] end).

(* an entry the crate's reader accepts: the key is a string (valid UTF-8), both lengths are Avro longs *)
Definition mentry_ok (kv : bytes * bytes) : Prop :=
  utf8_valid (fst kv) = true /\ fits_long (length (fst kv)) /\ fits_long (length (snd kv)).

Notation TK := (THint HIdentifier).

Lemma wr_ld_ld : forall bs, wr_ld bs = ld bs.
Proof. reflexivity. Qed.

Section Meta.
Variable cfg : dcfg.
Notation MS := META_SCHEMA.

Lemma meta_step : forall f d' b b1 acc st tail pos1 ma kv,
  has_more (S f) cfg false b st = (Ok (true, b1), mkRd (wr_entry kv ++ tail) pos1 None ma) ->
  mentry_ok kv ->
  exists dk dv,
    map_loop MS cfg (S (S (S f))) (MSMap 1 d' false b) TK TAny acc st
    = map_loop MS cfg (S (S f)) (MSMap 1 d' false b1) TK TAny ((dk, dv) :: acc)
        (mkRd tail (pos1 + N.of_nat (length (wr_entry kv))) None ma)
    /\ kv_bytes (dk, dv) = kv.
Proof.
  intros f d' b b1 acc st tail pos1 ma [key v] Hhm (Hu & Hk & Hv). cbn [fst snd] in *.
  unfold wr_entry in *. cbn [fst snd] in *. rewrite !wr_ld_ld in *.
  rewrite ReaderProofs.map_loop_unfold, ReaderProofs.map_next_key_unfold.
  rewrite sbind_assoc. rewrite (sbind_ok _ _ _ _ _ Hhm). cbn [fst snd].
  rewrite <- app_assoc.
  rewrite sbind_assoc. rewrite (sbind_ok _ _ _ _ _ (read_ld_str_app key _ pos1 ma Hk Hu)).
  rewrite sbind_sret. cbv beta iota.
  rewrite ReaderProofs.map_next_value_unfold.
  change (node_at MS 1) with (@sret rstate fnode FBytes). rewrite sbind_sret.
  rewrite de_any_eq. cbn [any_step].
  rewrite !sbind_assoc.
  rewrite (sbind_ok _ _ _ _ _ (read_ld_bytes_app v tail _ ma Hv)).
  rewrite !sbind_sret. cbn [fst snd].
  eexists. eexists. split.
  - rewrite app_length, Nat2N.inj_add, N.add_assoc. reflexivity.
  - reflexivity.
Qed.

Lemma meta_items : forall its d' fuel acc nread fin tail pos ma,
  Forall mentry_ok its ->
  exists kvs,
    map_loop MS cfg (length its + S (S fuel)) (MSMap 1 d' false (mkBlk (N.of_nat (length its)) nread fin))
      TK TAny acc (mkRd (flat_map wr_entry its ++ tail) pos None ma)
    = map_loop MS cfg (S (S fuel)) (MSMap 1 d' false (mkBlk 0 nread fin)) TK TAny (rev kvs ++ acc)
        (mkRd tail (pos + N.of_nat (length (flat_map wr_entry its))) None ma)
    /\ map kv_bytes kvs = its.
Proof.
  induction its as [|it its IH]; intros d' fuel acc nread fin tail pos ma HF.
  - exists []. split; [|reflexivity]. cbn [length flat_map app rev Nat.add].
    change (N.of_nat 0) with 0. rewrite N.add_0_r. reflexivity.
  - inversion HF as [|? ? Hit HF']; subst.
    cbn [length flat_map Nat.add]. rewrite <- app_assoc.
    replace (length its + S (S fuel))%nat with (S (S (length its + fuel))) by lia.
    pose proof (has_more_in_block cfg (S (length its + fuel)) (length its) nread fin
                  (mkRd (wr_entry it ++ flat_map wr_entry its ++ tail) pos None ma)) as Hhm.
    destruct (meta_step (length its + fuel) d' _ _ acc _ _ pos ma it Hhm Hit) as (dk & dv & Hs & Hd).
    rewrite Hs.
    replace (S (S (length its + fuel))) with (length its + S (S fuel))%nat by lia.
    destruct (IH d' fuel ((dk, dv) :: acc) nread fin tail (pos + N.of_nat (length (wr_entry it))) ma HF')
      as (kvs & Hl & Hkvs).
    exists ((dk, dv) :: kvs). split.
    + rewrite Hl. cbn [rev]. rewrite <- app_assoc. cbn [app].
      rewrite app_length, Nat2N.inj_add, N.add_assoc. reflexivity.
    + cbn [map]. rewrite Hd, Hkvs. reflexivity.
Qed.

(* a block of the metadata map as the reader needs it: not empty (a count of 0 ends the map), entries
   as above, and the byte size announced by the negative-count form is an Avro long *)
Definition mblock_ok (blk : bool * list (bytes * bytes)) : Prop :=
  snd blk <> [] /\ Forall mentry_ok (snd blk) /\
  (fst blk = true -> fits_long (length (flat_map wr_entry (snd blk)))).

Lemma blk_hdr_size_irrelevant : forall neg cnt bsz,
  blk_hdr neg cnt bsz = blk_hdr neg cnt (if neg then bsz else O).
Proof. intros [|] cnt bsz; reflexivity. Qed.

Lemma wr_meta_block_hdr : forall blk,
  wr_meta_block blk
  = blk_hdr (fst blk) (length (snd blk)) (length (flat_map wr_entry (snd blk))) ++ flat_map wr_entry (snd blk).
Proof.
  intros blk. unfold wr_meta_block, blk_hdr. destruct (fst blk); [rewrite <- app_assoc|]; reflexivity.
Qed.

Lemma meta_blocks : forall layout d' fuel acc nread fin rest pos ma,
  Forall mblock_ok layout ->
  nread + N.of_nat (length (flat_map snd layout)) <= c_max_seq cfg ->
  c_max_seq cfg <= 4611686018427387904 ->
  (length (flat_map snd layout) + 3 <= fuel)%nat ->
  exists kvs,
    map_loop MS cfg fuel (MSMap 1 d' false (mkBlk 0 nread fin)) TK TAny acc
      (mkRd (wr_meta layout ++ rest) pos None ma)
    = (Ok (rev acc ++ kvs), mkRd rest (pos + N.of_nat (length (wr_meta layout))) None ma)
    /\ map kv_bytes kvs = flat_map snd layout.
Proof.
  unfold wr_meta.
  induction layout as [|blk layout IH]; intros d' fuel acc nread fin rest pos ma HF Hmax Hcap Hfuel.
  - cbn [flat_map app length] in *.
    destruct fuel as [|f]; [lia|]. destruct f as [|f1]; [lia|]. destruct f1 as [|f2]; [lia|].
    rewrite ReaderProofs.map_loop_unfold, ReaderProofs.map_next_key_unfold. rewrite sbind_assoc.
    rewrite (sbind_ok _ _ _ _ _ (has_more_end cfg f2 nread fin rest pos ma)). cbn [fst snd].
    rewrite sbind_sret.
    exists []. split; [|reflexivity]. rewrite app_nil_r. reflexivity.
  - inversion HF as [|? ? (Hne & Hits & Hbsz) HF']; subst.
    destruct blk as [neg its]. cbn [fst snd] in *.
    destruct its as [|it its]; [congruence|].
    inversion Hits as [|? ? Hit Hits']; subst.
    cbn [flat_map]. rewrite wr_meta_block_hdr, blk_hdr_size_irrelevant. cbn [fst snd flat_map length].
    set (bsz := if neg then length (wr_entry it ++ flat_map wr_entry its) else O).
    assert (Hbsz' : fits_long bsz).
    { unfold bsz. destruct neg; [exact (Hbsz eq_refl)|]. unfold fits_long, I64_MAX. lia. }
    cbn [flat_map fst snd] in Hmax, Hfuel.
    rewrite app_length in Hmax, Hfuel. cbn [length] in Hmax, Hfuel.
    rewrite <- !app_assoc.
    assert (Hcnt : fits_long (S (length its))) by (unfold fits_long, I64_MAX; lia).
    destruct fuel as [|f]; [lia|]. destruct f as [|f1]; [lia|]. destruct f1 as [|f2]; [lia|].
    rename f2 into f3.
    destruct (has_more_hdr cfg f3 neg (length its) bsz
                nread fin
                (wr_entry it ++ flat_map wr_entry its ++
                   flat_map wr_meta_block layout ++ spec_long 0 ++ rest)
                pos ma Hcnt Hbsz' ltac:(lia)) as (nread' & Hhm & Hnr).
    set (hdr := blk_hdr neg (S (length its)) bsz) in *.
    destruct (meta_step f3 d' _ _ acc _ _ _ ma it Hhm Hit) as (dk & dv & Hs & Hd).
    rewrite Hs. clear Hs Hhm.
    replace (S (S f3)) with (length its + S (S (f3 - length its)))%nat by lia.
    destruct (meta_items its d' (f3 - length its)%nat ((dk, dv) :: acc) nread' false
                (flat_map wr_meta_block layout ++ spec_long 0 ++ rest)
                (pos + N.of_nat (length hdr) + N.of_nat (length (wr_entry it))) ma Hits')
      as (kvs1 & Hl1 & Hkvs1).
    rewrite Hl1. clear Hl1.
    rewrite (app_assoc _ (spec_long 0) rest).
    destruct (IH d' (S (S (f3 - length its)))%nat (rev kvs1 ++ (dk, dv) :: acc) nread' false rest
                (pos + N.of_nat (length hdr) + N.of_nat (length (wr_entry it)) +
                 N.of_nat (length (flat_map wr_entry its))) ma HF' ltac:(lia) Hcap ltac:(lia))
      as (kvs2 & Hl2 & Hkvs2).
    rewrite Hl2. clear Hl2.
    exists ((dk, dv) :: kvs1 ++ kvs2). split.
    + replace (rev (rev kvs1 ++ (dk, dv) :: acc) ++ kvs2) with (rev acc ++ (dk, dv) :: kvs1 ++ kvs2)
        by (rewrite rev_app_distr, rev_involutive; cbn [rev]; rewrite <- !app_assoc; reflexivity).
      f_equal. f_equal. rewrite !app_length. lia.
    + cbn [map app]. rewrite !map_app, Hd, Hkvs1, Hkvs2. reflexivity.
Qed.

End Meta.

(* the metadata map of a file the crate's reader opens: blocks as above, at most 1000 entries in all
   (cr_open deserializes the map with max_seq_size 1000) *)
Definition layout_ok (layout : list (bool * list (bytes * bytes))) : Prop :=
  Forall mblock_ok layout /\ (length (flat_map snd layout) <= 1000)%nat.

Theorem meta_read : forall layout rest pos ma, layout_ok layout ->
  exists kvs,
    de META_SCHEMA (mkCfg 1000 64) (N.to_nat 100000) (FMap 1) 64 false false (TMap TK TAny)
       (mkRd (wr_meta layout ++ rest) pos None ma)
    = (Ok (DMap kvs), mkRd rest (pos + N.of_nat (length (wr_meta layout))) None ma)
    /\ map kv_bytes kvs = flat_map snd layout.
Proof.
  intros layout rest pos ma [HF Hn].
  destruct (N.to_nat 100000) as [|f] eqn:Ef; [lia|]. destruct f as [|f1]; [lia|].
  rewrite ReaderProofs.de_unfold. cbv iota. cbn [ReaderProofs.de_any dec_depth].
  rewrite sbind_sret. rewrite ReaderProofs.map_visit_unfold. cbn [map_policy]. unfold blk0.
  destruct (meta_blocks (mkCfg 1000 64) layout 63%nat f1 [] 0 false rest pos ma HF) as (kvs & Hl & Hk).
  - cbn [c_max_seq]. lia.
  - cbn [c_max_seq]. lia.
  - lia.
  - rewrite (sbind_ok _ _ _ _ _ Hl). cbn [rev app]. exists kvs. split; [reflexivity|exact Hk].
Qed.

(* ------------------------------------------------------------------------------------------ *)
(** * Part B. cr_open on the files of the grammar *)

Lemma MAGIC_is_HEADER_CONST : MAGIC = HEADER_CONST.
Proof. reflexivity. Qed.

(* magic, metadata map in any accepted layout, 16-byte marker, then anything: cr_open returns the
   entries in file order, the marker, and the reader positioned behind the marker *)
Theorem cr_open_grammar : forall layout sync tail pos ma,
  layout_ok layout -> length sync = 16%nat ->
  cr_open (mkRd (MAGIC ++ wr_meta layout ++ sync ++ tail) pos None ma)
  = Ok (flat_map snd layout, sync,
        mkRd tail (pos + N.of_nat (length (MAGIC ++ wr_meta layout ++ sync))) None ma).
Proof.
  intros layout sync tail pos ma HL Hs. unfold cr_open.
  change 4 with (N.of_nat (length MAGIC)). rewrite read_exact_app.
  rewrite MAGIC_is_HEADER_CONST, ContainerProofs.bytes_eqb_refl. cbn [negb].
  destruct (meta_read layout (sync ++ tail) (pos + N.of_nat (length HEADER_CONST)) ma HL) as (kvs & Hd & Hk).
  rewrite Hd.
  replace 16 with (N.of_nat (length sync)) by (rewrite Hs; reflexivity).
  rewrite read_exact_app. fold kv_bytes. change (map (fun kv => kv_bytes kv) kvs) with (map kv_bytes kvs).
  rewrite Hk. f_equal. f_equal. rewrite !app_length. f_equal. lia.
Qed.

(* the same for a whole file of the reference writer *)
Corollary cr_open_ref_write : forall layout sync blocks pos ma,
  layout_ok layout -> length sync = 16%nat ->
  cr_open (mkRd (ref_write layout sync blocks) pos None ma)
  = Ok (flat_map snd layout, sync,
        mkRd (flat_map (wr_block sync) blocks) (pos + N.of_nat (length (MAGIC ++ wr_meta layout ++ sync))) None ma).
Proof. intros. unfold ref_write. apply cr_open_grammar; assumption. Qed.

(* ------------------------------------------------------------------------------------------ *)
(** * Part C. What the writer's header is *)

Definition lenb (bs : bytes) : bool := (Z.of_nat (length bs) <=? I64_MAX)%Z.
Notation S0 out := (mkS out None [] [] false).

Lemma write_ld_eq : forall data out,
  write_ld data (S0 out) =
  if lenb data then (Ok tt, S0 (out ++ ld data)) else (Err EData, S0 out).
Proof.
  intros data out. unfold write_ld, usize_to_i64, lenb.
  replace (Z.of_N (N.of_nat (length data))) with (Z.of_nat (length data)) by lia.
  destruct (Z.leb_spec (Z.of_nat (length data)) I64_MAX) as [H|H].
  - unfold sbind, sret, write_varint, write, st_with_out. cbn [s_budget s_out s_bufs s_sbufs s_slow].
    unfold ld. rewrite spec_long_is_encode_long by (unfold I64_MIN; lia).
    rewrite <- !app_assoc. reflexivity.
  - reflexivity.
Qed.

Inductive is_meta_val : sval -> bytes -> Prop :=
  | mv_str : forall b, is_meta_val (SStr b) b
  | mv_variant : forall e i b, is_meta_val (SUnitVariant e i b) b
  | mv_bytes : forall b, is_meta_val (SBytes b) b.

Lemma ser_meta_val : forall v b, is_meta_val v b -> ser META_SCHEMA FBytes v = write_ld b.
Proof. intros v b H. destruct H; reflexivity. Qed.

Lemma ser_meta_key : forall k, ser META_SCHEMA FString (SStr k) = write_ld k.
Proof. reflexivity. Qed.

Definition one_block (e : bytes * bytes) : bool * list (bytes * bytes) := (false, [e]).
Definition entry_lenb (e : bytes * bytes) : bool := lenb (fst e) && lenb (snd e).

Lemma meta_call : forall k v b out, is_meta_val v b ->
  exists st',
  (do* blk' <- (do* b0 <- block_next 0; do* _ <- ser META_SCHEMA FString (SStr k); sret b0);
   do* _ <- SerProofs.ser_at META_SCHEMA 1 v;
   sret blk') (S0 out)
  = (if entry_lenb (k, b) then Ok 0 else Err EData, st')
  /\ (entry_lenb (k, b) = true -> st' = S0 (out ++ wr_meta_block (one_block (k, b)))).
Proof.
  intros k v b out Hv. unfold SerProofs.ser_at. cbn [fnode_at META_SCHEMA nth_error].
  rewrite (ser_meta_val v b Hv), ser_meta_key.
  unfold block_next. change (0 =? 0) with true. cbv iota.
  unfold entry_lenb. cbn [fst snd].
  unfold write_varint.
  assert (W : forall bs o, write bs (S0 o) = (Ok tt, S0 (o ++ bs))) by reflexivity.
  rewrite !sbind_assoc. rewrite (sbind_ok _ _ _ _ _ (W _ _)). rewrite sbind_sret.
  rewrite sbind_assoc.
  unfold sbind at 1. rewrite write_ld_eq.
  destruct (lenb k) eqn:Ek; cbn [andb].
  - rewrite sbind_sret. unfold sbind at 1. rewrite write_ld_eq.
    destruct (lenb b) eqn:Eb.
    + eexists. split; [reflexivity|]. intros _. unfold wr_meta_block, one_block. cbn [fst snd length flat_map].
      unfold wr_entry. cbn [fst snd]. unfold wr_ld, ld. rewrite app_nil_r.
      change (spec_long (Z.of_nat 1)) with (encode_long 1).
      rewrite <- !app_assoc. reflexivity.
    + eexists. split; [reflexivity|discriminate].
  - eexists. split; [reflexivity|discriminate].
Qed.

Definition meta_call_rel (call : option sval * option sval) (e : bytes * bytes) : Prop :=
  exists v, call = (Some (SStr (fst e)), Some v) /\ is_meta_val v (snd e).

Lemma meta_calls : forall calls entries, Forall2 meta_call_rel calls entries ->
  forall rs dur hint out, exists st',
  map_calls (SerProofs.ser_at META_SCHEMA) (ser META_SCHEMA FString) (RKMap 1) rs 0 dur hint calls (S0 out)
  = (if forallb entry_lenb entries then Ok (rs, 0, dur) else Err EData, rs, st')
  /\ (forallb entry_lenb entries = true -> st' = S0 (out ++ flat_map wr_meta_block (map one_block entries))).
Proof.
  induction 1 as [|call [k b] calls entries (v & -> & Hv) HF IH]; intros rs dur hint out.
  - eexists. split; [reflexivity|]. intros _. cbn [map flat_map]. rewrite app_nil_r. reflexivity.
  - cbn [fst snd] in *. rewrite SerProofs.map_calls_map_cons.
    destruct (meta_call k v b out Hv) as (st1 & E & Est). rewrite E.
    cbn [forallb]. destruct (entry_lenb (k, b)); cbn [andb].
    + rewrite (Est eq_refl).
      destruct (IH rs dur hint (out ++ wr_meta_block (one_block (k, b)))) as (st' & E' & Est').
      exists st'. split; [exact E'|]. intro Hall. rewrite (Est' Hall). cbn [map flat_map].
      rewrite <- app_assoc. reflexivity.
    + eexists. split; [reflexivity|discriminate].
Qed.

Definition header_entries (json codec : bytes) (user : list (bytes * bytes)) : list (bytes * bytes) :=
  (AVRO_SCHEMA_KEY, json) :: (AVRO_CODEC_KEY, codec) :: user.

Theorem header_bytes_eq : forall sync json codec user,
  header_bytes sync json codec user
  = if forallb entry_lenb (header_entries json codec user)
    then Ok (MAGIC ++ wr_meta (map one_block (header_entries json codec user)) ++ sync)
    else Err EData.
Proof.
  intros sync json codec user. unfold header_bytes.
  rewrite SerProofs.ser_SMap. rewrite SerProofs.via_union_leaf by reflexivity.
  rewrite SerProofs.start_kind_map. unfold block_new. change (0 <? 0) with false. cbv iota.
  rewrite sbind_sret.
  match goal with |- context [map_calls _ _ _ _ _ _ _ ?calls _] => set (cs := calls) end.
  assert (HF : Forall2 meta_call_rel cs (header_entries json codec user)).
  { unfold cs, header_entries. constructor; [eexists; split; [reflexivity|constructor]|].
    constructor; [eexists; split; [reflexivity|constructor]|].
    induction user as [|[k b] user IH]; cbn [map]; constructor; [|exact IH].
    eexists. split; [reflexivity|constructor]. }
  destruct (meta_calls cs _ HF (mkR O [] false) [None; None; None] None HEADER_CONST) as (st' & E & Est).
  rewrite E. destruct (forallb entry_lenb (header_entries json codec user)).
  - rewrite (Est eq_refl). cbn [finish]. unfold block_end. change (0 =? 0) with true. cbv iota.
    unfold write_varint, write, st_with_out. cbn [s_budget s_out].
    change (encode_long 0) with (spec_long 0). unfold wr_meta. rewrite <- !app_assoc. reflexivity.
  - reflexivity.
Qed.


(* ------------------------------------------------------------------------------------------ *)
(** * Part D. The header round trip *)

Lemma lenb_fits : forall bs, lenb bs = true <-> fits_long (length bs).
Proof. intros bs. unfold lenb, fits_long. apply Z.leb_le. Qed.

Lemma flat_map_snd_one_block : forall es, flat_map snd (map one_block es) = es.
Proof. induction es as [|e es IH]; [reflexivity|]. cbn [map flat_map one_block snd app]. rewrite IH. reflexivity. Qed.

Lemma one_block_layout_ok : forall es,
  Forall mentry_ok es -> (length es <= 1000)%nat -> layout_ok (map one_block es).
Proof.
  intros es HF Hn. split; [|rewrite flat_map_snd_one_block; exact Hn].
  induction HF as [|e es He HF IH]; cbn [map]; constructor.
  - unfold mblock_ok, one_block. cbn [fst snd]. split; [discriminate|]. split; [|discriminate].
    constructor; [exact He|constructor].
  - apply IH. cbn [length] in Hn. lia.
Qed.

(* header_bytes succeeds exactly when every key and value length is an Avro long, and then the header is
   magic, the metadata map with ONE BLOCK PER ENTRY (serialize_map without a length hint), the marker *)
Theorem header_bytes_inv : forall sync json codec user h,
  header_bytes sync json codec user = Ok h ->
  forallb entry_lenb (header_entries json codec user) = true /\
  h = MAGIC ++ wr_meta (map one_block (header_entries json codec user)) ++ sync.
Proof.
  intros sync json codec user h H. rewrite header_bytes_eq in H.
  destruct (forallb entry_lenb (header_entries json codec user)); [|discriminate].
  inversion H. auto.
Qed.

(* it is a file of the grammar of spec/FileSpec.v with no data block *)
Theorem header_is_ref_write : forall sync json codec user h,
  header_bytes sync json codec user = Ok h ->
  h = ref_write (map one_block (header_entries json codec user)) sync [].
Proof.
  intros sync json codec user h H. destruct (header_bytes_inv _ _ _ _ _ H) as [_ ->].
  unfold ref_write. cbn [flat_map]. rewrite app_nil_r. reflexivity.
Qed.

(* the outcomes of header_bytes: never a panic *)
Theorem header_bytes_outcomes : forall sync json codec user,
  (exists h, header_bytes sync json codec user = Ok h) \/ header_bytes sync json codec user = Err EData.
Proof.
  intros. rewrite header_bytes_eq. destruct (forallb entry_lenb _); eauto.
Qed.

Definition keys_utf8 (user : list (bytes * bytes)) : Prop := Forall (fun kv => utf8_valid (fst kv) = true) user.

Lemma header_entries_ok : forall json codec user,
  forallb entry_lenb (header_entries json codec user) = true -> keys_utf8 user ->
  Forall mentry_ok (header_entries json codec user).
Proof.
  intros json codec user Hl Hu.
  assert (G : forall es, forallb entry_lenb es = true -> Forall (fun kv => utf8_valid (fst kv) = true) es ->
                         Forall mentry_ok es).
  { induction es as [|e es IH]; intros Hb HF; constructor.
    - cbn [forallb] in Hb. apply andb_prop in Hb. destruct Hb as [He _].
      unfold entry_lenb in He. apply andb_prop in He. destruct He as [H1 H2].
      apply lenb_fits in H1. apply lenb_fits in H2. inversion HF; subst. split; [assumption|]. auto.
    - cbn [forallb] in Hb. apply andb_prop in Hb. inversion HF; subst. apply IH; tauto. }
  apply G; [exact Hl|]. unfold header_entries. constructor; [reflexivity|]. constructor; [reflexivity|exact Hu].
Qed.

(** ** 1. cr_open reads back the header the writer produced, whatever follows it *)
Theorem header_read_back : forall sync json codec user h tail pos ma,
  header_bytes sync json codec user = Ok h ->
  length sync = 16%nat -> keys_utf8 user -> (length user <= 998)%nat ->
  cr_open (mkRd (h ++ tail) pos None ma)
  = Ok (header_entries json codec user, sync, mkRd tail (pos + N.of_nat (length h)) None ma).
Proof.
  intros sync json codec user h tail pos ma H Hs Hu Hn.
  destruct (header_bytes_inv _ _ _ _ _ H) as [Hl ->].
  pose proof (one_block_layout_ok _ (header_entries_ok _ _ _ Hl Hu)
                ltac:(unfold header_entries; cbn [length]; lia)) as HL.
  rewrite <- !app_assoc.
  rewrite (cr_open_grammar _ sync tail pos ma HL Hs). rewrite flat_map_snd_one_block. reflexivity.
Qed.

(** ** interpreting the metadata: avro.schema exactly once, avro.codec at most once, any order *)
Definition is_schema_key (kv : bytes * bytes) : bool := bytes_eqb (fst kv) AVRO_SCHEMA_KEY.
Definition is_codec_key (kv : bytes * bytes) : bool := bytes_eqb (fst kv) AVRO_CODEC_KEY.
Definition is_user_key (kv : bytes * bytes) : bool := negb (is_schema_key kv) && negb (is_codec_key kv).
Definition NULL_CODEC : bytes := [110; 117; 108; 108].      (* "null" = the first of codec_names *)
Lemma NULL_CODEC_in : In NULL_CODEC codec_names.
Proof. left. reflexivity. Qed.
Definition unreserved (kv : bytes * bytes) : Prop := fst kv <> AVRO_SCHEMA_KEY /\ fst kv <> AVRO_CODEC_KEY.

Theorem header_meta_ok : forall entries ks json,
  filter is_schema_key entries = [(ks, json)] -> utf8_valid json = true ->
  header_meta entries =
  match filter is_codec_key entries with
  | [] => Ok (json, NULL_CODEC, filter is_user_key entries)
  | [(_, c)] => if existsb (bytes_eqb c) codec_names then Ok (json, c, filter is_user_key entries) else Err EData
  | _ => Err EData
  end.
Proof.
  intros entries ks json Hs Hu. unfold header_meta.
  change (filter (fun kv => bytes_eqb (fst kv) AVRO_SCHEMA_KEY) entries) with (filter is_schema_key entries).
  change (filter (fun kv => bytes_eqb (fst kv) AVRO_CODEC_KEY) entries) with (filter is_codec_key entries).
  change (filter (fun kv => negb (bytes_eqb (fst kv) AVRO_SCHEMA_KEY) && negb (bytes_eqb (fst kv) AVRO_CODEC_KEY)) entries)
    with (filter is_user_key entries).
  rewrite Hs, Hu. reflexivity.
Qed.

Lemma bytes_eqb_neq : forall a b, a <> b -> bytes_eqb a b = false.
Proof.
  intros a b H. destruct (bytes_eqb a b) eqn:E; [|reflexivity]. apply DS5.bytes_eqb_eq in E. contradiction.
Qed.

Lemma user_filters : forall user, Forall unreserved user ->
  filter is_schema_key user = [] /\ filter is_codec_key user = [] /\ filter is_user_key user = user.
Proof.
  induction 1 as [|kv user [H1 H2] HF (IH1 & IH2 & IH3)]; [auto|].
  cbn [filter]. unfold is_user_key, is_schema_key, is_codec_key in *.
  rewrite (bytes_eqb_neq _ _ H1), (bytes_eqb_neq _ _ H2). cbn [negb andb].
  rewrite IH1, IH2, IH3. auto.
Qed.

(* x inserted at position i *)
Definition ins_at {A} (i : nat) (x : A) (l : list A) : list A := firstn i l ++ x :: skipn i l.

Lemma filter_ins_at_false : forall {A} (f : A -> bool) i x l, f x = false -> filter f (ins_at i x l) = filter f l.
Proof.
  intros A f i x l H. unfold ins_at. rewrite filter_app. cbn [filter]. rewrite H.
  rewrite <- filter_app, firstn_skipn. reflexivity.
Qed.

Lemma filter_ins_at_only : forall {A} (f : A -> bool) i x l, f x = true -> filter f l = [] ->
  filter f (ins_at i x l) = [x].
Proof.
  intros A f i x l H Hl. unfold ins_at. rewrite filter_app. cbn [filter]. rewrite H.
  rewrite <- (firstn_skipn i l), filter_app in Hl. apply app_eq_nil in Hl. destruct Hl as [-> ->]. reflexivity.
Qed.

Lemma codec_name_known : forall c, In c codec_names -> existsb (bytes_eqb c) codec_names = true.
Proof.
  intros c H. apply existsb_exists. exists c. split; [exact H|apply ContainerProofs.bytes_eqb_refl].
Qed.

(* user metadata with avro.schema and avro.codec inserted ANYWHERE *)
Theorem header_meta_inserted : forall user i j json codec,
  Forall unreserved user -> utf8_valid json = true -> In codec codec_names ->
  header_meta (ins_at i (AVRO_SCHEMA_KEY, json) (ins_at j (AVRO_CODEC_KEY, codec) user))
  = Ok (json, codec, user).
Proof.
  intros user i j json codec HU Hj Hc. destruct (user_filters user HU) as (F1 & F2 & F3).
  rewrite (header_meta_ok _ AVRO_SCHEMA_KEY json).
  - rewrite filter_ins_at_false by reflexivity. rewrite (filter_ins_at_only is_codec_key j (AVRO_CODEC_KEY, codec) user eq_refl F2).
    rewrite (codec_name_known _ Hc). rewrite !filter_ins_at_false by reflexivity. rewrite F3. reflexivity.
  - apply filter_ins_at_only; [reflexivity|]. rewrite filter_ins_at_false by reflexivity. exact F1.
  - exact Hj.
Qed.

(* no avro.codec entry: the null codec *)
Theorem header_meta_inserted_nocodec : forall user i json,
  Forall unreserved user -> utf8_valid json = true ->
  header_meta (ins_at i (AVRO_SCHEMA_KEY, json) user) = Ok (json, NULL_CODEC, user).
Proof.
  intros user i json HU Hj. destruct (user_filters user HU) as (F1 & F2 & F3).
  rewrite (header_meta_ok _ AVRO_SCHEMA_KEY json).
  - rewrite filter_ins_at_false by reflexivity. rewrite F2.
    rewrite filter_ins_at_false by reflexivity. rewrite F3. reflexivity.
  - apply filter_ins_at_only; [reflexivity|exact F1].
  - exact Hj.
Qed.

(* what the writer wrote *)
Corollary header_meta_written : forall json codec user,
  Forall unreserved user -> utf8_valid json = true -> In codec codec_names ->
  header_meta (header_entries json codec user) = Ok (json, codec, user).
Proof. intros json codec user. exact (header_meta_inserted user 0 0 json codec). Qed.

(* ------------------------------------------------------------------------------------------ *)
(** * Part E. The whole file: build, session, close; then open and read the WHOLE sink *)

Theorem file_read_back_full : forall Sc cfg root approx sync vectored json codec user sched st0 hs close outs st',
  schema_wf Sc = true -> fnode_at Sc 0 = Some root -> length sync = 16%nat ->
  keys_utf8 user -> (length user <= 998)%nat ->
  wbuild sync json codec user sched = (WROk, st0) ->
  Forall (value_ok Sc cfg root) (vals_of hs) ->
  fits (length (vals_of hs)) -> fits (length (encs Sc root (vals_of hs))) ->
  close = WFinish \/ close = WIntoInner \/ close = WDrop ->
  wrun (fun b => b) Sc approx sync vectored st0 (map (op_of Sc root) hs ++ [close]) = (outs, st') ->
  Forall (fun r => fst r = WROk) outs ->
  forall pos ma k, exists r ds,
    cr_open (mkRd (w_sink st') pos None ma) = Ok (header_entries json codec user, sync, r) /\
    cr_run Sc cfg sync TAny (length (vals_of hs) + k) (mkCR (RNotInBlock r) false)
      = map IValue ds ++ repeat IEof k /\
    map erase_borrow ds = map (dval_any Sc root) (vals_of hs).
Proof.
  intros Sc cfg root approx sync vectored json codec user sched st0 hs close outs st'
         Hwf Hroot Hsync Hu Hn Hb Hv Hc Hd Hclose Hrun Hall pos ma k.
  destruct (wbuild_good Sc root sync json codec user sched st0 Hb) as [Hg Hh].
  destruct (session_read_back Sc cfg root approx sync vectored Hwf Hroot Hsync hs close (w_sink st0) st0 outs st'
              Hg Hv Hc Hd Hclose Hrun Hall) as (tail & Hs & Hread).
  rewrite Hs. rewrite (header_read_back _ _ _ _ _ tail pos ma Hh Hsync Hu Hn).
  destruct (Hread (pos + N.of_nat (length (w_sink st0))) ma k) as (ds & R & O).
  eexists. exists ds. split; [reflexivity|]. split; [exact R|exact O].
Qed.

(* through the public entry points: the slice reader over the sink, metadata interpreted *)
Corollary file_read_back_slice : forall Sc cfg root approx sync vectored json codec user sched st0 hs close outs st',
  schema_wf Sc = true -> fnode_at Sc 0 = Some root -> length sync = 16%nat ->
  keys_utf8 user -> (length user <= 998)%nat -> Forall unreserved user ->
  utf8_valid json = true -> In codec codec_names ->
  wbuild sync json codec user sched = (WROk, st0) ->
  Forall (value_ok Sc cfg root) (vals_of hs) ->
  fits (length (vals_of hs)) -> fits (length (encs Sc root (vals_of hs))) ->
  close = WFinish \/ close = WIntoInner \/ close = WDrop ->
  wrun (fun b => b) Sc approx sync vectored st0 (map (op_of Sc root) hs ++ [close]) = (outs, st') ->
  Forall (fun r => fst r = WROk) outs ->
  forall k, exists entries r ds,
    cr_open (slice_reader (w_sink st')) = Ok (entries, sync, r) /\
    header_meta entries = Ok (json, codec, user) /\
    cr_run Sc cfg sync TAny (length (vals_of hs) + k) (mkCR (RNotInBlock r) false)
      = map IValue ds ++ repeat IEof k /\
    map erase_borrow ds = map (dval_any Sc root) (vals_of hs).
Proof.
  intros Sc cfg root approx sync vectored json codec user sched st0 hs close outs st'
         Hwf Hroot Hsync Hu Hn Hres Hj Hcn Hb Hv Hc Hd Hclose Hrun Hall k.
  destruct (file_read_back_full Sc cfg root approx sync vectored json codec user sched st0 hs close outs st'
              Hwf Hroot Hsync Hu Hn Hb Hv Hc Hd Hclose Hrun Hall 0 0 k) as (r & ds & Ho & R & O).
  exists (header_entries json codec user), r, ds. split; [exact Ho|]. split; [|split; [exact R|exact O]].
  apply header_meta_written; assumption.
Qed.

(* ------------------------------------------------------------------------------------------ *)
(** * Part F. C06: every file of an independent conforming writer is accepted *)

Section Grammar.
Variable Sc : fschema.
Variable cfg : dcfg.
Variable root : fnode.
Hypothesis Hwf : schema_wf Sc = true.
Hypothesis Hroot : fnode_at Sc 0 = Some root.

(* a data block of the grammar holding the encodings of [vs] *)
Definition to_rblock_vals (vs : list avalue) : rblock := mkBlock (Z.of_nat (length vs)) (encs Sc root vs).

Lemma wr_block_blk : forall sync vs, block_ok Sc cfg root vs ->
  wr_block sync (to_rblock_vals vs) = blk Sc sync root vs.
Proof.
  intros sync vs (_ & _ & Hc & Hd). unfold wr_block, to_rblock_vals, blk. cbn [rb_count rb_data].
  rewrite !spec_long_is_encode_long by (apply fits_range; assumption). reflexivity.
Qed.

Lemma wr_blocks_blks : forall sync vblocks, Forall (block_ok Sc cfg root) vblocks ->
  flat_map (wr_block sync) (map to_rblock_vals vblocks) = flat_map (blk Sc sync root) vblocks.
Proof.
  induction 1 as [|vs vblocks H HF IH]; [reflexivity|]. cbn [map flat_map].
  rewrite (wr_block_blk sync vs H), IH. reflexivity.
Qed.

(** ** 2. the reference writer of spec/FileSpec.v, ANY metadata block layout and order (incl. negative
       counts), extra keys, ANY partition of the values into blocks of count >= 1: the crate's reader
       returns the metadata entries in file order, the marker, every value, then IEof for ever *)
Theorem reader_accepts_grammar : forall layout sync vblocks,
  layout_ok layout -> length sync = 16%nat -> Forall (block_ok Sc cfg root) vblocks ->
  forall pos ma k, exists r ds,
    cr_open (mkRd (ref_write layout sync (map to_rblock_vals vblocks)) pos None ma)
      = Ok (flat_map snd layout, sync, r) /\
    cr_run Sc cfg sync TAny (length (concat vblocks) + k) (mkCR (RNotInBlock r) false)
      = map IValue ds ++ repeat IEof k /\
    map erase_borrow ds = map (dval_any Sc root) (concat vblocks).
Proof.
  intros layout sync vblocks HL Hs HB pos ma k.
  rewrite (cr_open_ref_write layout sync _ pos ma HL Hs). rewrite (wr_blocks_blks sync vblocks HB).
  destruct (blocks_read_back Sc cfg sync root Hwf Hroot Hs vblocks
              (pos + N.of_nat (length (MAGIC ++ wr_meta layout ++ sync))) ma k HB) as (ds & R & O).
  eexists. exists ds. split; [reflexivity|]. split; [|exact O].
  unfold stB, tail_of in R. rewrite app_nil_r in R. exact R.
Qed.

(* these files are in the grammar of FileSpec.v *)
Theorem grammar_files_are_wf : forall layout sync vblocks,
  layout_ok layout -> length sync = 16%nat -> Forall (block_ok Sc cfg root) vblocks ->
  file_wf layout sync (map to_rblock_vals vblocks).
Proof.
  intros layout sync vblocks [HF Hn] Hs HB. split; [exact Hs|split].
  - apply Forall_forall. intros blk0 Hin. rewrite Forall_forall in HF. destruct (HF _ Hin) as (Hne & _).
    split; [exact Hne|].
    assert (length (snd blk0) <= length (flat_map snd layout))%nat.
    { clear - Hin. induction layout as [|b l IH]; [destruct Hin|]. cbn [flat_map]. rewrite app_length.
      destruct Hin as [->|Hin]; [lia|]. specialize (IH Hin). lia. }
    lia.
  - apply Forall_forall. intros b Hin. apply in_map_iff in Hin. destruct Hin as (vs & <- & Hin).
    rewrite Forall_forall in HB. destruct (HB _ Hin) as (_ & _ & Hc & _). cbn [to_rblock_vals rb_count].
    unfold fits in Hc. lia.
Qed.

(* and, within the size conditions of the reference parser, the independent parser of FileSpec.v and the
   crate's cr_open return the same metadata entries and marker *)
Theorem cr_open_agrees_with_ref_parse : forall layout sync vblocks pos ma,
  layout_ok layout -> length sync = 16%nat -> Forall (block_ok Sc cfg root) vblocks ->
  ContainerProofs.file_small layout (map to_rblock_vals vblocks) ->
  exists r,
    ref_parse (ref_write layout sync (map to_rblock_vals vblocks))
      = Some (mkFile (flat_map snd layout) sync (map to_rblock_vals vblocks)) /\
    cr_open (mkRd (ref_write layout sync (map to_rblock_vals vblocks)) pos None ma)
      = Ok (flat_map snd layout, sync, r).
Proof.
  intros layout sync vblocks pos ma HL Hs HB Hsm. eexists. split.
  - apply ContainerProofs.ref_parse_ref_write; [apply grammar_files_are_wf; assumption|exact Hsm].
  - apply cr_open_ref_write; assumption.
Qed.

(* the public reading of such a file: slice reader, metadata interpreted. The reserved keys may sit
   anywhere among the user's entries (positions i, j), in any block *)
Corollary reader_accepts_grammar_interpreted : forall layout sync vblocks user i j json codec,
  layout_ok layout -> length sync = 16%nat -> Forall (block_ok Sc cfg root) vblocks ->
  flat_map snd layout = ins_at i (AVRO_SCHEMA_KEY, json) (ins_at j (AVRO_CODEC_KEY, codec) user) ->
  Forall unreserved user -> utf8_valid json = true -> In codec codec_names ->
  forall k, exists entries r ds,
    cr_open (slice_reader (ref_write layout sync (map to_rblock_vals vblocks))) = Ok (entries, sync, r) /\
    header_meta entries = Ok (json, codec, user) /\
    cr_run Sc cfg sync TAny (length (concat vblocks) + k) (mkCR (RNotInBlock r) false)
      = map IValue ds ++ repeat IEof k /\
    map erase_borrow ds = map (dval_any Sc root) (concat vblocks).
Proof.
  intros layout sync vblocks user i j json codec HL Hs HB Hm HU Hj Hc k.
  destruct (reader_accepts_grammar layout sync vblocks HL Hs HB 0 0 k) as (r & ds & Ho & R & O).
  exists (flat_map snd layout), r, ds. split; [exact Ho|]. split; [|split; [exact R|exact O]].
  rewrite Hm. apply header_meta_inserted; assumption.
Qed.

(* the same without an avro.codec entry: the null codec *)
Corollary reader_accepts_grammar_nocodec : forall layout sync vblocks user i json,
  layout_ok layout -> length sync = 16%nat -> Forall (block_ok Sc cfg root) vblocks ->
  flat_map snd layout = ins_at i (AVRO_SCHEMA_KEY, json) user ->
  Forall unreserved user -> utf8_valid json = true ->
  forall k, exists entries r ds,
    cr_open (slice_reader (ref_write layout sync (map to_rblock_vals vblocks))) = Ok (entries, sync, r) /\
    header_meta entries = Ok (json, NULL_CODEC, user) /\
    cr_run Sc cfg sync TAny (length (concat vblocks) + k) (mkCR (RNotInBlock r) false)
      = map IValue ds ++ repeat IEof k /\
    map erase_borrow ds = map (dval_any Sc root) (concat vblocks).
Proof.
  intros layout sync vblocks user i json HL Hs HB Hm HU Hj k.
  destruct (reader_accepts_grammar layout sync vblocks HL Hs HB 0 0 k) as (r & ds & Ho & R & O).
  exists (flat_map snd layout), r, ds. split; [exact Ho|]. split; [|split; [exact R|exact O]].
  rewrite Hm. apply header_meta_inserted_nocodec; assumption.
Qed.

End Grammar.

(* a layout within the size conditions of the reference parser (ContainerProofs.file_small), with string
   keys and at most 1000 entries, is one the crate's reader accepts *)
Lemma layout_ok_intro : forall layout,
  Forall (fun blk => snd blk <> []) layout ->
  Forall (fun blk => ContainerProofs.len_ok (flat_map wr_entry (snd blk)) /\
                     Forall ContainerProofs.entry_ok (snd blk)) layout ->
  Forall (fun blk => keys_utf8 (snd blk)) layout ->
  (length (flat_map snd layout) <= 1000)%nat ->
  layout_ok layout.
Proof.
  intros layout Hne Hsm Hu Hn. split; [|exact Hn].
  rewrite Forall_forall in *. intros blk0 Hin.
  destruct (Hsm _ Hin) as [Hz He]. split; [exact (Hne _ Hin)|]. split; [|intros _; exact Hz].
  specialize (Hu _ Hin). unfold keys_utf8 in Hu. rewrite Forall_forall in *.
  intros kv Hkv. destruct (He _ Hkv) as [H1 H2]. split; [exact (Hu _ Hkv)|]. split; [exact H1|exact H2].
Qed.

(* ------------------------------------------------------------------------------------------ *)
(** * Part G. Examples and refutations *)

Module HeaderExamples.
Import String.

Definition exSync : bytes := [1;2;3;4;5;6;7;8;9;10;11;12;13;14;15;16].
Definition exJson : bytes := lit "{""type"":""long""}"%string.
(* the metadata map written in two blocks, the first with a NEGATIVE count and a byte size; the reserved
   keys in the "wrong" order and in different blocks; an extra key before them and one after them *)
Definition exLayout : list (bool * list (bytes * bytes)) :=
  [(true, [(lit "zz.extra"%string, [1;2]); (AVRO_CODEC_KEY, lit "null"%string)]);
   (false, [(AVRO_SCHEMA_KEY, exJson); (lit "k"%string, [7;8])])].
Definition exSc : fschema := [FLong].
Definition exBlocks : list (list avalue) := [[ALong 1; ALong (-2)]; [ALong 300]].
Definition exFile : bytes := ref_write exLayout exSync (map (to_rblock_vals exSc FLong) exBlocks).

Definition read_file (file : bytes) (n : nat) :=
  match cr_open (slice_reader file) with
  | Ok (m, sy, r) => Some (m, header_meta m, sy, cr_run exSc cfg_default sy TAny n (mkCR (RNotInBlock r) false))
  | _ => None
  end.

(* the negative count -2 is the byte 3, followed by the byte size 28 (byte 56) *)
Example shuffled_two_block_metadata_file :
  firstn 7 exFile = [79; 98; 106; 1; 3; 56; 16] /\
  read_file exFile 5
  = Some (flat_map snd exLayout,
          Ok (exJson, lit "null"%string, [(lit "zz.extra"%string, [1;2]); (lit "k"%string, [7;8])]),
          exSync,
          [IValue (DInt true W64 1); IValue (DInt true W64 (-2)); IValue (DInt true W64 300); IEof; IEof]) /\
  ref_parse exFile = Some (mkFile (flat_map snd exLayout) exSync (map (to_rblock_vals exSc FLong) exBlocks)).
Proof. vm_compute. repeat split; reflexivity. Qed.

(* the example satisfies the hypotheses of [reader_accepts_grammar] *)
Example example_hypotheses :
  layout_ok exLayout /\ Forall (block_ok exSc cfg_default FLong) exBlocks.
Proof.
  split.
  - split; [|vm_compute; lia].
    assert (F : forall n, (Z.of_nat n <=? I64_MAX)%Z = true -> DeProofs.fits_long n).
    { intros n H. apply Z.leb_le. exact H. }
    repeat constructor; try discriminate; try (apply F; vm_compute; reflexivity).
  - assert (V : forall v, (conforms exSc FLong v && SerProofs.value_limits exSc FLong v && SerProofs.sizes_ok v &&
                            RoundTripProofs.rt_limits exSc cfg_default FLong v &&
                            Nat.leb (DeProofs.de_fuel (canon v)) FUEL_SINK)%bool = true ->
                          value_ok exSc cfg_default FLong v).
    { intros v Hv. repeat (apply andb_prop in Hv; destruct Hv as [Hv ?]). apply Nat.leb_le in H.
      unfold value_ok. auto. }
    assert (F : forall n, (Z.of_nat n <=? I64_MAX)%Z = true -> fits n).
    { intros n H. apply Z.leb_le. exact H. }
    repeat constructor; try discriminate; try (apply V; vm_compute; reflexivity);
      try (apply F; vm_compute; reflexivity).
Qed.

(* no avro.codec entry: the null codec *)
Example codec_absent_is_null :
  read_file (ref_write [(false, [(lit "a"%string, []); (AVRO_SCHEMA_KEY, exJson)])] exSync []) 1
  = Some ([(lit "a"%string, []); (AVRO_SCHEMA_KEY, exJson)], Ok (exJson, lit "null"%string, [(lit "a"%string, [])]),
          exSync, [IEof]).
Proof. vm_compute. reflexivity. Qed.

(** ** why the hypotheses are there *)

(* [keys_utf8] / [mentry_ok]: the crate reads the keys of the metadata map as strings *)
Example key_not_utf8_refuted :
  cr_open (slice_reader (ref_write [(false, [([255], [])])] exSync [])) = Err EData /\
  match header_bytes exSync exJson (lit "null"%string) [([255], [])] with
  | Ok h => cr_open (slice_reader h) = Err EData
  | _ => False
  end.
Proof. vm_compute. split; reflexivity. Qed.

(* at most 1000 entries (max_seq_size of the metadata deserializer): 1000 are read, 1001 are not; for the
   writer's header that is 998 user entries *)
Example entries_1000_1001 :
  is_ok (cr_open (slice_reader (ref_write [(false, repeat ([97], []) 1000)] exSync []))) = true /\
  cr_open (slice_reader (ref_write [(false, repeat ([97], []) 1001)] exSync [])) = Err EData.
Proof. vm_compute. split; reflexivity. Qed.

Example user_999_refuted :
  match header_bytes exSync exJson (lit "null"%string) (repeat ([97], []) 999) with
  | Ok h => cr_open (slice_reader h) = Err EData
  | _ => False
  end /\
  match header_bytes exSync exJson (lit "null"%string) (repeat ([97], []) 998) with
  | Ok h => is_ok (cr_open (slice_reader h)) = true
  | _ => False
  end.
Proof. vm_compute. split; reflexivity. Qed.

(* [mblock_ok]: a block with count 0 is not a block, it ends the map: what follows is taken for the marker *)
Example empty_meta_block_refuted :
  match cr_open (slice_reader (ref_write [(false, []); (false, [([97], [])])] exSync [])) with
  | Ok (m, sy, _) => m = [] /\ sy <> exSync
  | _ => False
  end.
Proof. vm_compute. split; [reflexivity|discriminate]. Qed.

(* [unreserved] / codec names / UTF-8 schema: what header_meta rejects *)
Example header_meta_refutations :
  header_meta (header_entries exJson (lit "null"%string) [(AVRO_CODEC_KEY, lit "null"%string)]) = Err EData /\
  header_meta (header_entries exJson (lit "null"%string) [(AVRO_SCHEMA_KEY, exJson)]) = Err EData /\
  header_meta (header_entries exJson (lit "nul"%string) []) = Err EData /\
  header_meta (header_entries [255] (lit "null"%string) []) = Err EData.
Proof. vm_compute. repeat split; reflexivity. Qed.

End HeaderExamples.

(* ------------------------------------------------------------------------------------------ *)
Print Assumptions meta_read.
Print Assumptions cr_open_grammar.
Print Assumptions header_bytes_eq.
Print Assumptions header_bytes_inv.
Print Assumptions header_is_ref_write.
Print Assumptions header_read_back.
Print Assumptions header_meta_ok.
Print Assumptions header_meta_inserted.
Print Assumptions header_meta_inserted_nocodec.
Print Assumptions header_meta_written.
Print Assumptions file_read_back_full.
Print Assumptions file_read_back_slice.
Print Assumptions reader_accepts_grammar.
Print Assumptions reader_accepts_grammar_interpreted.
Print Assumptions reader_accepts_grammar_nocodec.
Print Assumptions grammar_files_are_wf.
Print Assumptions cr_open_agrees_with_ref_parse.
Print Assumptions layout_ok_intro.
Print Assumptions HeaderExamples.shuffled_two_block_metadata_file.
Print Assumptions HeaderExamples.example_hypotheses.
Print Assumptions HeaderExamples.entries_1000_1001.
