(** The replay decoder of model/ContainerReplay.v: what a replayed read can and cannot change. *)
Require Import Base Reader CodecLoop DecodeLoop ContainerCodec ContainerReplay.
From Coq Require Import Arith Lia.
Local Open Scope nat_scope.

(* ------------------------------------------------------------------------------------------ *)
(** * What a replayed read can and cannot change *)

(* the decompressed bytes a trace still holds before its first Err *)
Fixpoint rp_stream (t : list rp_answer) : bytes :=
  match t with
  | [] => []
  | None :: _ => []
  | Some (o, _) :: rest => o ++ rp_stream rest
  end.

(* the compressed bytes a trace still consumes before its first Err *)
Fixpoint rp_consumed (t : list rp_answer) : nat :=
  match t with
  | [] => 0
  | None :: _ => 0
  | Some (_, c) :: rest => c + rp_consumed rest
  end.

(* never more than was asked for *)
Lemma rp_step_window : forall t want o c t', rp_step t want = (DOut o c, t') -> length o <= want.
Proof.
  intros t want o c t' H. destruct t as [|[[o1 c1]|] rest]; simpl in H; try discriminate.
  destruct (length o1 <=? want) eqn:E; inversion H; subst.
  - apply Nat.leb_le; exact E.
  - rewrite firstn_length. apply Nat.le_min_l.
Qed.

(* whatever the requests, the stream and the total consumption are those recorded *)
Lemma rp_step_stream : forall t want o c t', rp_step t want = (DOut o c, t') ->
  rp_stream t = o ++ rp_stream t' /\ rp_consumed t = c + rp_consumed t'.
Proof.
  intros t want o c t' H. destruct t as [|[[o1 c1]|] rest]; simpl in H; try discriminate.
  destruct (length o1 <=? want) eqn:E; inversion H; subst; simpl.
  - split; reflexivity.
  - rewrite app_assoc, firstn_skipn. split; reflexivity.
Qed.

(* a request the recorded read fits in is answered exactly as recorded *)
Lemma rp_step_exact : forall o c rest want, length o <= want ->
  rp_step (Some (o, c) :: rest) want = (DOut o c, rest).
Proof.
  intros o c rest want H. simpl. apply Nat.leb_le in H. rewrite H. reflexivity.
Qed.
