(** Stage C: the canonical form written from the node vector [lay] is the specification's
    Parsing Canonical Form of the tree. *)
From Coq Require Import NArith ZArith List Lia Bool Arith String ZifyN ZifyBool ZifyNat.
Import ListNotations.
Require Import Base Schema Text Json Parse CanonicalForm.
Require Import PcfSpec SchemaTextProofs ParseResolveDefs.
Open Scope N_scope.
Notation length := List.length (only parsing).

Arguments N.eqb : simpl never.
Arguments N.leb : simpl never.
Arguments N.ltb : simpl never.
Arguments N.add : simpl never.

Ltac lits :=
  repeat match goal with
         | |- context [lit ?s] => let v := eval vm_compute in (lit s) in change (lit s) with v
         end.
Ltac text_eq := unfold q; rewrite <- ?app_assoc; lits; cbn [app]; rewrite <- ?app_assoc; cbn [app]; reflexivity.

(* ------------------------------------------------------------------ *)
(** * slices of the final node vector *)

Definition slice (g : list mnode) (n0 : nat) (ns : list mnode) : Prop :=
  forall i x, nth_error ns i = Some x -> nth_error g (n0 + i) = Some (fix_node [] x).

Lemma slice_hd : forall g n0 x ns, slice g n0 (x :: ns) -> nth_error g n0 = Some (fix_node [] x).
Proof. intros g n0 x ns H. specialize (H O x eq_refl). rewrite Nat.add_0_r in H. exact H. Qed.

Lemma slice_tl : forall g n0 x ns, slice g n0 (x :: ns) -> slice g (S n0) ns.
Proof. intros g n0 x ns H i y Hy. specialize (H (S i) y Hy). replace (S n0 + i)%nat with (n0 + S i)%nat by lia. exact H. Qed.

Lemma slice_app_l : forall g n0 a b, slice g n0 (a ++ b) -> slice g n0 a.
Proof.
  intros g n0 a b H i y Hy. apply H. rewrite nth_error_app1; [exact Hy|].
  apply nth_error_Some. congruence.
Qed.

Lemma slice_app_r : forall g n0 a b, slice g n0 (a ++ b) -> slice g (n0 + length a) b.
Proof.
  intros g n0 a b H i y Hy. replace (n0 + length a + i)%nat with (n0 + (length a + i))%nat by lia.
  apply H. rewrite nth_error_app2 by lia. replace (length a + i - length a)%nat with i by lia. exact Hy.
Qed.

(* ------------------------------------------------------------------ *)
(** * the writer's bookkeeping *)

Definition node_nm (n : mnode) : option name :=
  match m_type n with RRecord nm _ | REnum nm _ | RFixed nm _ => Some nm | _ => None end.
Definition named_b (g : list mnode) (i : nat) : bool :=
  match nth_error g i with Some n => is_named_node n | None => false end.

Definition written_ok (g : list mnode) (n : nat) (w : list bool) : Prop :=
  length w = length g /\ forall i, (i < length g)%nat -> nth i w false = Nat.ltb i n && named_b g i.
Definition being_ok (n : nat) (b : list nat) : Prop := forall k, (n <= k)%nat -> nth k b O = O.

Definition entry_ok (g : list mnode) (n : nat) (e : bytes * bool) (p : namekey * nat) : Prop :=
  (snd p < n)%nat /\
  (snd e = true -> exists node nm, nth_error g (snd p) = Some node /\ node_nm node = Some nm /\ nm_full nm = fst e).

Lemma entry_ok_mono : forall g n n' E nm, (n <= n')%nat ->
  agreeP (entry_ok g n) E nm -> agreeP (entry_ok g n') E nm.
Proof.
  intros g n n' E nm Hle. apply agreeP_weaken. intros e p [H1 H2]. split; [lia|exact H2].
Qed.

Lemma nth_set_nth {A} : forall (l : list A) i v k d,
  (i < length l)%nat -> nth k (set_nth l i v) d = if Nat.eqb k i then v else nth k l d.
Proof.
  induction l as [|h t IH]; intros [|i] v [|k] d Hi; cbn [List.length] in Hi; try lia;
    cbn [set_nth nth Nat.eqb]; try reflexivity.
  apply IH. lia.
Qed.

Lemma nth_set_nth_neq {A} : forall (l : list A) i v k d,
  k <> i -> nth k (set_nth l i v) d = nth k l d.
Proof.
  induction l as [|h t IH]; intros [|i] v [|k] d Hne; cbn [set_nth nth]; try reflexivity; try lia.
  apply IH. lia.
Qed.

Lemma written_skip : forall g n w, written_ok g n w -> named_b g n = false -> written_ok g (S n) w.
Proof.
  intros g n w [Hl Hw] Hn. split; [exact Hl|]. intros i Hi. rewrite (Hw i Hi).
  destruct (Nat.eq_dec i n) as [->|Hne].
  - rewrite Hn, !andb_false_r. reflexivity.
  - f_equal. destruct (Nat.ltb i n) eqn:E1, (Nat.ltb i (S n)) eqn:E2; try reflexivity;
      [apply Nat.ltb_lt in E1; apply Nat.ltb_ge in E2|apply Nat.ltb_ge in E1; apply Nat.ltb_lt in E2]; lia.
Qed.

Lemma written_mark : forall g n w, written_ok g n w -> named_b g n = true -> (n < length g)%nat ->
  written_ok g (S n) (set_nth w n true).
Proof.
  intros g n w [Hl Hw] Hn Hlt. split; [rewrite set_nth_length; exact Hl|]. intros i Hi.
  rewrite nth_set_nth by lia. destruct (Nat.eqb i n) eqn:E.
  - apply Nat.eqb_eq in E. subst i. rewrite Hn. assert (Nat.ltb n (S n) = true) as -> by (apply Nat.ltb_lt; lia). reflexivity.
  - apply Nat.eqb_neq in E. rewrite (Hw i Hi). f_equal.
    destruct (Nat.ltb i n) eqn:E1, (Nat.ltb i (S n)) eqn:E2; try reflexivity;
      [apply Nat.ltb_lt in E1; apply Nat.ltb_ge in E2|apply Nat.ltb_ge in E1; apply Nat.ltb_lt in E2]; lia.
Qed.

Lemma written_get_false : forall g n w, written_ok g n w -> (n < length g)%nat -> nth_error w n = Some false.
Proof.
  intros g n w [Hl Hw] Hlt. rewrite (nth_error_nth' w false) by lia. f_equal.
  rewrite (Hw n Hlt). rewrite Nat.ltb_irrefl. reflexivity.
Qed.

Lemma written_get_true : forall g n w idx, written_ok g n w -> (idx < n)%nat -> named_b g idx = true ->
  nth_error w idx = Some true.
Proof.
  intros g n w idx [Hl Hw] Hlt Hn.
  assert (Hidx : (idx < length g)%nat).
  { unfold named_b in Hn. destruct (nth_error g idx) eqn:E; [|discriminate]. apply nth_error_Some. congruence. }
  rewrite (nth_error_nth' w false) by lia. f_equal.
  rewrite (Hw idx Hidx), Hn. assert (Nat.ltb idx n = true) as -> by (apply Nat.ltb_lt; lia). reflexivity.
Qed.

Lemma being_ok_mono : forall n n' b, (n <= n')%nat -> being_ok n b -> being_ok n' b.
Proof. intros n n' b Hle H k Hk. apply H. lia. Qed.

Lemma being_ok_set : forall n b v, being_ok n b -> being_ok (S n) (set_nth b n v).
Proof. intros n b v H k Hk. rewrite nth_set_nth_neq by lia. apply H. lia. Qed.

(* ------------------------------------------------------------------ *)
(** * one-step equations of write_cf *)

Definition prim_text (t : regular) : option bytes :=
  match t with
  | RNull => Some (lit """null""") | RBoolean => Some (lit """boolean""") | RInt => Some (lit """int""")
  | RLong => Some (lit """long""") | RFloat => Some (lit """float""") | RDouble => Some (lit """double""")
  | RBytes => Some (lit """bytes""") | RString => Some (lit """string""")
  | _ => None
  end.

Lemma write_cf_prim : forall f g key st node s,
  nth_error g key = Some node -> prim_text (m_type node) = Some s ->
  write_cf (S f) g key st = Ok (cf_emit s st).
Proof.
  intros f g key st [ty lt] s Hn Hp. cbn [write_cf]. rewrite Hn. cbn [m_type] in *.
  destruct ty; cbn [prim_text] in Hp; inversion Hp; reflexivity.
Qed.

Definition enter (key : nat) (st : cfstate) : cfstate :=
  mkCF (cf_out st) (cf_written st) (set_nth (cf_being st) key (S (cf_nnamed st))) (cf_nnamed st).
Definition leave (key : nat) (st' : cfstate) : cfstate :=
  mkCF (cf_out st') (cf_written st') (set_nth (cf_being st') key O) (cf_nnamed st').

Lemma write_cf_array : forall f g key st lt items,
  nth_error g key = Some (mkNode (RArray items) lt) -> nth key (cf_being st) O = O ->
  write_cf (S f) g key st =
  let* st' := (let* s1 := write_cf f g items (cf_emit (lit "{""type"":""array"",""items"":") (enter key st)) in
               Ok (cf_emit (lit "}") s1)) in
  Ok (leave key st').
Proof. intros f g key st lt items Hn Hb. cbn [write_cf]. rewrite Hn. cbn [m_type andb]. rewrite Hb. reflexivity. Qed.

Lemma write_cf_map : forall f g key st lt items,
  nth_error g key = Some (mkNode (RMap items) lt) -> nth key (cf_being st) O = O ->
  write_cf (S f) g key st =
  let* st' := (let* s1 := write_cf f g items (cf_emit (lit "{""type"":""map"",""values"":") (enter key st)) in
               Ok (cf_emit (lit "}") s1)) in
  Ok (leave key st').
Proof. intros f g key st lt items Hn Hb. cbn [write_cf]. rewrite Hn. cbn [m_type andb]. rewrite Hb. reflexivity. Qed.

Lemma write_cf_union : forall f g key st lt ks,
  nth_error g key = Some (mkNode (RUnion ks) lt) -> nth key (cf_being st) O = O ->
  write_cf (S f) g key st =
  let* st' := (let* s1 := sep_by (fun k s => write_cf f g k s) ks true (cf_emit (lit "[") (enter key st)) in
               Ok (cf_emit (lit "]") s1)) in
  Ok (leave key st').
Proof. intros f g key st lt ks Hn Hb. cbn [write_cf]. rewrite Hn. cbn [m_type andb]. rewrite Hb. reflexivity. Qed.

Lemma write_cf_again : forall f g key st node nm,
  nth_error g key = Some node -> node_nm node = Some nm -> nth_error (cf_written st) key = Some true ->
  write_cf (S f) g key st = Ok (cf_emit (q (nm_full nm)) st).
Proof.
  intros f g key st [ty lt] nm Hn Hnm Hw. cbn [write_cf]. rewrite Hn. unfold node_nm in Hnm. cbn [m_type] in *.
  destruct ty; try discriminate; inversion Hnm; subst; cbn [andb]; unfold cf_first_time; rewrite Hw; reflexivity.
Qed.

Definition mark (key : nat) (st : cfstate) : cfstate :=
  mkCF (cf_out st) (set_nth (cf_written st) key true) (cf_being st) (S (cf_nnamed st)).

Lemma write_cf_record : forall f g key st lt nm fields,
  nth_error g key = Some (mkNode (RRecord nm fields) lt) -> nth_error (cf_written st) key = Some false ->
  write_cf (S f) g key st =
  let* s3 := sep_by (fun fld s =>
                       let* s' := write_cf f g (snd fld) (cf_emit (lit "{""name"":""" ++ fst fld ++ lit """,""type"":") s) in
                       Ok (cf_emit (lit "}") s'))
               fields true
               (cf_emit (lit "{""name"":""" ++ nm_full nm ++ lit """,""type"":""record"",""fields"":[") (mark key st)) in
  Ok (cf_emit (lit "]}") s3).
Proof.
  intros f g key st lt nm fields Hn Hw. cbn [write_cf]. rewrite Hn. cbn [m_type andb].
  unfold cf_first_time. rewrite Hw. cbn [rbind]. unfold mark.
  match goal with |- context [sep_by ?F fields true ?s] => destruct (sep_by F fields true s) end; reflexivity.
Qed.

Fixpoint joined (first : bool) (l : list bytes) : bytes :=
  match l with
  | [] => []
  | x :: t => (if first then x else lit "," ++ x) ++ joined false t
  end.

Lemma sep_concat_joined : forall l, sep_concat (lit ",") l = joined true l.
Proof.
  induction l as [|x t IH]; [reflexivity|]. cbn [sep_concat joined].
  destruct t as [|y t']; [cbn [joined]; rewrite app_nil_r; reflexivity|].
  rewrite IH. cbn [joined]. reflexivity.
Qed.

Lemma sep_by_syms : forall syms first st,
  sep_by (fun sym s => Ok (cf_emit (lit """" ++ sym ++ lit """") s)) syms first st =
  Ok (mkCF (cf_out st ++ joined first (map q syms)) (cf_written st) (cf_being st) (cf_nnamed st)).
Proof.
  induction syms as [|x t IH]; intros first st; cbn [sep_by map joined].
  - rewrite app_nil_r. destruct st; reflexivity.
  - cbn [rbind]. rewrite IH. generalize (joined false (map q t)). intro J.
    destruct first; unfold cf_emit; cbn [cf_out cf_written cf_being cf_nnamed]; f_equal; f_equal; text_eq.
Qed.

Lemma write_cf_enum : forall f g key st lt nm syms,
  nth_error g key = Some (mkNode (REnum nm syms) lt) -> nth_error (cf_written st) key = Some false ->
  write_cf (S f) g key st =
  Ok (mkCF (cf_out st ++ lit "{""name"":" ++ q (nm_full nm) ++ lit ",""type"":""enum"",""symbols"":[" ++
            sep_concat (lit ",") (map q syms) ++ lit "]}")
           (set_nth (cf_written st) key true) (cf_being st) (S (cf_nnamed st))).
Proof.
  intros f g key st lt nm syms Hn Hw. cbn [write_cf]. rewrite Hn. cbn [m_type andb].
  unfold cf_first_time. rewrite Hw. rewrite sep_by_syms. cbn [rbind]. rewrite sep_concat_joined.
  unfold cf_emit. cbn [cf_out cf_written cf_being cf_nnamed]. f_equal. f_equal.
  generalize (joined true (map q syms)). intro J. text_eq.
Qed.

Lemma write_cf_fixed : forall f g key st lt nm sz,
  nth_error g key = Some (mkNode (RFixed nm sz) lt) -> nth_error (cf_written st) key = Some false ->
  write_cf (S f) g key st =
  Ok (mkCF (cf_out st ++ lit "{""name"":" ++ q (nm_full nm) ++ lit ",""type"":""fixed"",""size"":" ++
            dec_digits sz ++ lit "}")
           (set_nth (cf_written st) key true) (cf_being st) (S (cf_nnamed st))).
Proof.
  intros f g key st lt nm sz Hn Hw. cbn [write_cf]. rewrite Hn. cbn [m_type andb].
  unfold cf_first_time. rewrite Hw. cbn [rbind].
  unfold cf_emit. cbn [cf_out cf_written cf_being cf_nnamed]. f_equal. f_equal.
  generalize (dec_digits sz). intro J. text_eq.
Qed.

(* ------------------------------------------------------------------ *)
(** * the induction *)

Definition CfP (r : raw) : Prop :=
  forall enc nm n0 E E' fuel k ns nm' g st,
    rv r enc E = Some E' -> (rdepth r <= fuel)%nat -> lay r enc nm n0 = (k, ns, nm') ->
    slice g n0 ns -> agreeP (entry_ok g n0) E nm -> ns_ok enc ->
    written_ok g n0 (cf_written st) -> being_ok n0 (cf_being st) ->
    exists st', write_cf fuel g (fix_key [] k) st = Ok st' /\ cf_out st' = cf_out st ++ rpcf enc r /\
      written_ok g (n0 + length ns) (cf_written st') /\ cf_being st' = cf_being st /\
      agreeP (entry_ok g (n0 + length ns)) E' nm'.

Lemma list_max_cons : forall x l, list_max (x :: l) = Nat.max x (list_max l).
Proof. reflexivity. Qed.

Lemma restore_zero : forall (l : list nat) i v, nth i l O = O -> set_nth (set_nth l i v) i O = l.
Proof. intros l i v H. pose proof (set_nth_set_nth_restore l i v O) as R. rewrite H in R. exact R. Qed.

Lemma cf_lay_list : forall l, Forall CfP l ->
  forall enc nm n0 E E' fuel ks ns nm' g st first,
    rv_list (fun x => rv x enc) l E = Some E' -> (list_max (map rdepth l) <= fuel)%nat ->
    lay_list (fun x => lay x enc) l nm n0 = (ks, ns, nm') ->
    slice g n0 ns -> agreeP (entry_ok g n0) E nm -> ns_ok enc ->
    written_ok g n0 (cf_written st) -> being_ok n0 (cf_being st) ->
    exists st', sep_by (fun k s => write_cf fuel g k s) (map (fix_key []) ks) first st = Ok st' /\
      cf_out st' = cf_out st ++ joined first (map (rpcf enc) l) /\
      written_ok g (n0 + length ns) (cf_written st') /\ cf_being st' = cf_being st /\
      agreeP (entry_ok g (n0 + length ns)) E' nm'.
Proof.
  induction l as [|x t IH]; intros HF enc nm n0 E E' fuel ks ns nm' g st first Hrv Hfuel Hlay Hsl Hag Henc Hw Hb;
    cbn [rv_list] in Hrv; cbn [lay_list] in Hlay.
  - inversion Hrv. inversion Hlay. subst. exists st. cbn [map sep_by joined List.length].
    rewrite app_nil_r, Nat.add_0_r. auto.
  - inversion HF as [|? ? Hx Ht]. subst.
    destruct (rv x enc E) as [E1|] eqn:Ex; [|discriminate].
    destruct (lay x enc nm n0) as [[k1 ns1] nm1] eqn:EL1. cbn [fst snd] in Hlay.
    destruct (lay_list (fun x0 => lay x0 enc) t nm1 (n0 + length ns1)) as [[ks2 ns2] nm2] eqn:EL2.
    cbn [fst snd] in Hlay. inversion Hlay. subst ks ns nm'. clear Hlay.
    cbn [map] in Hfuel. rewrite list_max_cons in Hfuel.
    cbn [map sep_by joined].
    set (st1 := if first then st else cf_emit (lit ",") st).
    assert (Hw1 : written_ok g n0 (cf_written st1)) by (unfold st1; destruct first; exact Hw).
    assert (Hb1 : being_ok n0 (cf_being st1)) by (unfold st1; destruct first; exact Hb).
    destruct (Hx enc nm n0 E E1 fuel k1 ns1 nm1 g st1 Ex ltac:(lia) EL1 (slice_app_l _ _ _ _ Hsl) Hag Henc Hw1 Hb1)
      as (st2 & R2 & O2 & W2 & B2 & A2).
    rewrite R2. cbn [rbind].
    destruct (IH Ht enc nm1 (n0 + length ns1)%nat E1 E' fuel ks2 ns2 nm2 g st2 false Hrv ltac:(lia) EL2
                (slice_app_r _ _ _ _ Hsl) A2 Henc W2) as (st3 & R3 & O3 & W3 & B3 & A3).
    { rewrite B2. eapply being_ok_mono; [|exact Hb1]. lia. }
    exists st3. rewrite app_length, Nat.add_assoc. split; [exact R3|]. split.
    + rewrite O3, O2. unfold st1. destruct first; unfold cf_emit; cbn [cf_out]; rewrite <- ?app_assoc; reflexivity.
    + split; [exact W3|]. split; [|exact A3]. rewrite B3, B2. unfold st1. destruct first; reflexivity.
Qed.

Definition field_text (enc : option bytes) (f : bytes * raw) : bytes :=
  lit "{""name"":" ++ q (fst f) ++ lit ",""type"":" ++ rpcf enc (snd f) ++ lit "}".

Lemma cf_lay_fields : forall l, Forall (fun f : bytes * raw => CfP (snd f)) l ->
  forall enc nm n0 E E' fuel ks ns nm' g st first,
    rv_fields (fun x => rv x enc) l E = Some E' -> (list_max (map (fun f => rdepth (snd f)) l) <= fuel)%nat ->
    lay_fields (fun x => lay x enc) l nm n0 = (ks, ns, nm') ->
    slice g n0 ns -> agreeP (entry_ok g n0) E nm -> ns_ok enc ->
    written_ok g n0 (cf_written st) -> being_ok n0 (cf_being st) ->
    exists st',
      sep_by (fun fld s =>
                let* s' := write_cf fuel g (snd fld) (cf_emit (lit "{""name"":""" ++ fst fld ++ lit """,""type"":") s) in
                Ok (cf_emit (lit "}") s'))
        (map (fun f => (fst f, fix_key [] (snd f))) ks) first st = Ok st' /\
      cf_out st' = cf_out st ++ joined first (map (field_text enc) l) /\
      written_ok g (n0 + length ns) (cf_written st') /\ cf_being st' = cf_being st /\
      agreeP (entry_ok g (n0 + length ns)) E' nm'.
Proof.
  induction l as [|[fname x] t IH]; intros HF enc nm n0 E E' fuel ks ns nm' g st first Hrv Hfuel Hlay Hsl Hag Henc Hw Hb;
    cbn [rv_fields] in Hrv; cbn [lay_fields] in Hlay.
  - inversion Hrv. inversion Hlay. subst. exists st. cbn [map sep_by joined List.length].
    rewrite app_nil_r, Nat.add_0_r. auto.
  - inversion HF as [|? ? Hx Ht]. subst. cbn [snd fst] in *.
    destruct (rv x enc E) as [E1|] eqn:Ex; [|discriminate].
    destruct (lay x enc nm n0) as [[k1 ns1] nm1] eqn:EL1. cbn [fst snd] in Hlay.
    destruct (lay_fields (fun x0 => lay x0 enc) t nm1 (n0 + length ns1)) as [[ks2 ns2] nm2] eqn:EL2.
    cbn [fst snd] in Hlay. inversion Hlay. subst ks ns nm'. clear Hlay.
    cbn [map] in Hfuel. rewrite list_max_cons in Hfuel. cbn [snd] in Hfuel.
    cbn [map sep_by joined fst snd].
    set (st1 := cf_emit (lit "{""name"":""" ++ fname ++ lit """,""type"":") (if first then st else cf_emit (lit ",") st)).
    assert (Hw1 : written_ok g n0 (cf_written st1)) by (unfold st1; destruct first; exact Hw).
    assert (Hb1 : being_ok n0 (cf_being st1)) by (unfold st1; destruct first; exact Hb).
    destruct (Hx enc nm n0 E E1 fuel k1 ns1 nm1 g st1 Ex ltac:(lia) EL1 (slice_app_l _ _ _ _ Hsl) Hag Henc Hw1 Hb1)
      as (st2 & R2 & O2 & W2 & B2 & A2).
    rewrite R2. cbn [rbind].
    destruct (IH Ht enc nm1 (n0 + length ns1)%nat E1 E' fuel ks2 ns2 nm2 g (cf_emit (lit "}") st2) false Hrv ltac:(lia) EL2
                (slice_app_r _ _ _ _ Hsl) A2 Henc W2) as (st3 & R3 & O3 & W3 & B3 & A3).
    { cbn [cf_emit cf_being]. rewrite B2. eapply being_ok_mono; [|exact Hb1]. lia. }
    exists st3. rewrite app_length, Nat.add_assoc. split; [exact R3|]. split.
    + rewrite O3. cbn [cf_emit cf_out]. rewrite O2. unfold st1, field_text. cbn [fst snd].
      generalize (rpcf enc x). intro T. generalize (joined false (map (field_text enc) t)). intro J.
      destruct first; unfold cf_emit; cbn [cf_out]; text_eq.
    + split; [exact W3|]. split; [|exact A3]. rewrite B3. cbn [cf_emit cf_being]. rewrite B2.
      unfold st1. destruct first; reflexivity.
Qed.

Lemma node_nm_named : forall node nm, node_nm node = Some nm -> is_named_node node = true.
Proof. intros [ty lt] nm H. unfold node_nm, is_named_node in *. cbn [m_type] in *. destruct ty; try discriminate; reflexivity. Qed.

(* the name part of an object *)
Lemma named_entry : forall g n0 enc ty nm ns E nmm has nsp E1,
  rv_named enc ty nm ns E = Some (has, nsp, E1) ->
  agreeP (entry_ok g n0) E nmm -> ns_ok enc ->
  let k := match nm with Some n => key_of_def enc n ns | None => dummy_key end in
  let nm1 := match nm with Some _ => (k, n0) :: nmm | None => nmm end in
  (is_named_ty ty = true -> has = true ->
   exists node, nth_error g n0 = Some node /\ node_nm node = Some (name_of_key k)) ->
  agreeP (entry_ok g (S n0)) E1 nm1 /\
  (has = true -> nsp = fst k /\ ns_ok nsp /\
     spec_fullname enc (match nm with Some n => n | None => [] end) ns = (fst k, full k)).
Proof.
  intros g n0 enc ty nm ns E nmm has nsp E1 Hrn Hag Henc k nm1 Hnode.
  assert (Hag' : agreeP (entry_ok g (S n0)) E nmm) by (eapply entry_ok_mono; [|exact Hag]; lia).
  unfold rv_named in Hrn. destruct nm as [n|].
  - destruct (elook (snd (spec_fullname enc n ns)) E); [discriminate|]. inversion Hrn. subst has nsp E1. clear Hrn.
    split.
    + constructor; [|exact Hag']. cbn [fst snd]. split; [symmetry; apply full_def_spec|].
      split; [apply key_of_def_good; exact Henc|]. split; cbn [fst snd]; [lia|].
      intro Hty. destruct (Hnode Hty eq_refl) as (node & Hn & Hnm). exists node, (name_of_key k).
      split; [exact Hn|]. split; [exact Hnm|]. apply full_def_spec.
    + intros _. split; [symmetry; apply ns_def_spec|]. split.
      * rewrite <- ns_def_spec. apply key_of_def_ns_ok. exact Henc.
      * unfold k. rewrite (surjective_pairing (spec_fullname enc n ns)). f_equal;
          [symmetry; apply ns_def_spec|symmetry; apply full_def_spec].
  - inversion Hrn. subst has nsp E1. split; [exact Hag'|discriminate].
Qed.

Theorem cf_lay : forall r, CfP r.
Proof.
  induction r using raw_ind'; unfold CfP;
    intros enc nmm n0 E E' fuel k nds nm' g st Hrv Hfuel Hlay Hsl Hag Henc Hw Hb.
  - (* RwType *)
    cbn [rv] in Hrv. destruct (is_prim_ty t) eqn:Et; [|discriminate]. inversion Hrv. subst E'.
    cbn [lay] in Hlay. inversion Hlay. subst k nds nm'. clear Hlay.
    cbn [rdepth] in Hfuel. destruct fuel as [|f]; [lia|].
    rewrite fix_key_node. pose proof (slice_hd _ _ _ _ Hsl) as Hn.
    rewrite (write_cf_prim f g n0 st _ (q (rtype_name t)) Hn) by (destruct t; try discriminate; reflexivity).
    eexists. split; [reflexivity|]. split; [reflexivity|]. cbn [cf_emit cf_written cf_being List.length].
    rewrite Nat.add_1_r. split; [|split; [reflexivity|eapply entry_ok_mono; [|exact Hag]; lia]].
    apply written_skip; [exact Hw|]. unfold named_b. rewrite Hn. destruct t; reflexivity.
  - (* RwRef *)
    cbn [rv] in Hrv.
    destruct (elook (snd (spec_fullname enc s None)) E) as [[|]|] eqn:El; try discriminate.
    inversion Hrv. subst E'. rewrite <- full_ref_spec in El.
    destruct (agreeP_some _ _ _ _ _ Hag (key_of_ref_good enc s Henc) El) as (idx & Hidx & Hlt & Hnode).
    cbn [fst snd] in Hlt, Hnode. destruct (Hnode eq_refl) as (node & nm0 & Hn & Hnm & Hfull).
    cbn [lay] in Hlay. rewrite Hidx in Hlay. inversion Hlay. subst k nds nm'. clear Hlay.
    cbn [rdepth] in Hfuel. destruct fuel as [|f]; [lia|].
    rewrite fix_key_node.
    assert (Hnb : named_b g idx = true) by (unfold named_b; rewrite Hn; eapply node_nm_named; exact Hnm).
    rewrite (write_cf_again f g idx st node nm0 Hn Hnm (written_get_true _ _ _ _ Hw Hlt Hnb)).
    eexists. split; [reflexivity|]. cbn [cf_emit cf_out cf_written cf_being List.length rpcf].
    rewrite Nat.add_0_r, Hfull, full_ref_spec. auto.
  - (* RwUnion *)
    cbn [rv] in Hrv. cbn [lay] in Hlay.
    destruct (lay_list (fun x => lay x enc) l nmm (S n0)) as [[ks ns1] nm1] eqn:EL. cbn [fst snd] in Hlay.
    inversion Hlay. subst k nds nm'. clear Hlay.
    cbn [rdepth] in Hfuel. destruct fuel as [|f]; [lia|].
    rewrite fix_key_node. pose proof (slice_hd _ _ _ _ Hsl) as Hn. cbn [fix_node m_type m_logical] in Hn.
    assert (Hb0 : nth n0 (cf_being st) O = O) by (apply Hb; lia).
    rewrite (write_cf_union f g n0 st _ _ Hn Hb0).
    assert (Hnb : named_b g n0 = false) by (unfold named_b; rewrite Hn; reflexivity).
    destruct (cf_lay_list l H enc nmm (S n0) E E' f ks ns1 nm1 g (cf_emit (lit "[") (enter n0 st)) true
                Hrv ltac:(lia) EL (slice_tl _ _ _ _ Hsl)) as (st2 & R2 & O2 & W2 & B2 & A2).
    { eapply entry_ok_mono; [|exact Hag]. lia. }
    { exact Henc. }
    { cbn [cf_emit enter cf_written]. apply written_skip; assumption. }
    { cbn [cf_emit enter cf_being]. apply being_ok_set. exact Hb. }
    rewrite R2. cbn [rbind]. eexists. split; [reflexivity|].
    cbn [leave cf_emit cf_out cf_written cf_being List.length].
    replace (n0 + S (length ns1))%nat with (S n0 + length ns1)%nat by lia.
    split; [|split; [exact W2|split; [|exact A2]]].
    + rewrite O2. cbn [cf_emit enter cf_out rpcf]. rewrite sep_concat_joined, <- !app_assoc. reflexivity.
    + rewrite B2. cbn [cf_emit enter cf_being]. apply restore_zero. exact Hb0.
  - (* RwObject *)
    cbn [rv] in Hrv. destruct (logical_ok lg pr) eqn:Elg; [|discriminate].
    destruct (rv_named enc ty nm ns E) as [[[has nsp] E1]|] eqn:Ern; [|discriminate].
    pose proof (named_entry g n0 enc ty nm ns E nmm has nsp E1 Ern Hag Henc) as Hne. cbv zeta in Hne.
    cbn [lay] in Hlay.
    set (k0 := match nm with Some n => key_of_def enc n ns | None => dummy_key end) in *.
    set (nm1 := match nm with Some _ => (k0, n0) :: nmm | None => nmm end) in *.
    cbn [rdepth] in Hfuel. destruct fuel as [|f]; [lia|].
    assert (Hb0 : nth n0 (cf_being st) O = O) by (apply Hb; lia).
    assert (Hprim : forall ty0, is_prim_ty ty0 = true -> is_named_ty ty = false ->
              (pk_node n0, [mkNode (prim_of ty0) (the_logical lg pr sc)], nm1) = (k, nds, nm') ->
              Some E1 = Some E' ->
              exists st', write_cf (S f) g (fix_key [] k) st = Ok st' /\
                cf_out st' = cf_out st ++ q (rtype_name ty0) /\
                written_ok g (n0 + length nds) (cf_written st') /\ cf_being st' = cf_being st /\
                agreeP (entry_ok g (n0 + length nds)) E' nm').
    { intros ty0 Hp Hnn HL HE. inversion HL. subst k nds nm'. inversion HE. subst E'.
      rewrite fix_key_node. pose proof (slice_hd _ _ _ _ Hsl) as Hn.
      rewrite (write_cf_prim f g n0 st _ (q (rtype_name ty0)) Hn) by (destruct ty0; try discriminate; reflexivity).
      eexists. split; [reflexivity|]. split; [reflexivity|]. cbn [cf_emit cf_written cf_being List.length].
      rewrite Nat.add_1_r. split; [|split; [reflexivity|]].
      - apply written_skip; [exact Hw|]. unfold named_b. rewrite Hn. destruct ty0; try discriminate; reflexivity.
      - apply Hne. intros Hc. rewrite Hc in Hnn. discriminate. }
    destruct ty.
    1: exact (Hprim TyNull eq_refl eq_refl Hlay Hrv).
    1: exact (Hprim TyBoolean eq_refl eq_refl Hlay Hrv).
    1: exact (Hprim TyInt eq_refl eq_refl Hlay Hrv).
    1: exact (Hprim TyLong eq_refl eq_refl Hlay Hrv).
    1: exact (Hprim TyFloat eq_refl eq_refl Hlay Hrv).
    1: exact (Hprim TyDouble eq_refl eq_refl Hlay Hrv).
    1: exact (Hprim TyBytes eq_refl eq_refl Hlay Hrv).
    1: exact (Hprim TyString eq_refl eq_refl Hlay Hrv).
    + (* array *)
      destruct items as [it|]; [|discriminate]. cbn [opt_all] in H0.
      destruct (lay it enc nm1 (S n0)) as [[k1 ns1] nm2] eqn:EL. cbn [fst snd] in Hlay.
      inversion Hlay. subst k nds nm'. clear Hlay.
      rewrite fix_key_node. pose proof (slice_hd _ _ _ _ Hsl) as Hn. cbn [fix_node m_type m_logical] in Hn.
      rewrite (write_cf_array f g n0 st _ _ Hn Hb0).
      assert (Hnb : named_b g n0 = false) by (unfold named_b; rewrite Hn; reflexivity).
      destruct Hne as [Hag1 _]; [discriminate|].
      destruct (H0 enc nm1 (S n0) E1 E' f k1 ns1 nm2 g
                  (cf_emit (lit "{""type"":""array"",""items"":") (enter n0 st))
                  Hrv ltac:(lia) EL (slice_tl _ _ _ _ Hsl) Hag1 Henc) as (st2 & R2 & O2 & W2 & B2 & A2).
      { cbn [cf_emit enter cf_written]. apply written_skip; assumption. }
      { cbn [cf_emit enter cf_being]. apply being_ok_set. exact Hb. }
      rewrite R2. cbn [rbind]. eexists. split; [reflexivity|].
      cbn [leave cf_emit cf_out cf_written cf_being List.length].
      replace (n0 + S (length ns1))%nat with (S n0 + length ns1)%nat by lia.
      split; [|split; [exact W2|split; [|exact A2]]].
      * rewrite O2. cbn [cf_emit enter cf_out rpcf]. rewrite <- !app_assoc. reflexivity.
      * rewrite B2. cbn [cf_emit enter cf_being]. apply restore_zero. exact Hb0.
    + (* map *)
      destruct values as [it|]; [|discriminate]. cbn [opt_all] in H1.
      destruct (lay it enc nm1 (S n0)) as [[k1 ns1] nm2] eqn:EL. cbn [fst snd] in Hlay.
      inversion Hlay. subst k nds nm'. clear Hlay.
      rewrite fix_key_node. pose proof (slice_hd _ _ _ _ Hsl) as Hn. cbn [fix_node m_type m_logical] in Hn.
      rewrite (write_cf_map f g n0 st _ _ Hn Hb0).
      assert (Hnb : named_b g n0 = false) by (unfold named_b; rewrite Hn; reflexivity).
      destruct Hne as [Hag1 _]; [discriminate|].
      destruct (H1 enc nm1 (S n0) E1 E' f k1 ns1 nm2 g
                  (cf_emit (lit "{""type"":""map"",""values"":") (enter n0 st))
                  Hrv ltac:(lia) EL (slice_tl _ _ _ _ Hsl) Hag1 Henc) as (st2 & R2 & O2 & W2 & B2 & A2).
      { cbn [cf_emit enter cf_written]. apply written_skip; assumption. }
      { cbn [cf_emit enter cf_being]. apply being_ok_set. exact Hb. }
      rewrite R2. cbn [rbind]. eexists. split; [reflexivity|].
      cbn [leave cf_emit cf_out cf_written cf_being List.length].
      replace (n0 + S (length ns1))%nat with (S n0 + length ns1)%nat by lia.
      split; [|split; [exact W2|split; [|exact A2]]].
      * rewrite O2. cbn [cf_emit enter cf_out rpcf]. rewrite <- !app_assoc. reflexivity.
      * rewrite B2. cbn [cf_emit enter cf_being]. apply restore_zero. exact Hb0.
    + (* record *)
      destruct has; [|discriminate]. destruct fields as [fl|]; [|discriminate]. cbn [opt_all] in H.
      destruct (lay_fields (fun x => lay x (fst k0)) fl nm1 (S n0)) as [[ks ns1] nm2] eqn:EL. cbn [fst snd] in Hlay.
      inversion Hlay. subst k nds nm'. clear Hlay.
      rewrite fix_key_node. pose proof (slice_hd _ _ _ _ Hsl) as Hn. cbn [fix_node m_type m_logical] in Hn.
      assert (Hlt : (n0 < length g)%nat) by (apply nth_error_Some; congruence).
      rewrite (write_cf_record f g n0 st _ _ _ Hn (written_get_false _ _ _ Hw Hlt)).
      assert (Hnb : named_b g n0 = true) by (unfold named_b; rewrite Hn; reflexivity).
      destruct Hne as [Hag1 Hk]; [intros _ _; eexists; split; [exact Hn|reflexivity]|].
      destruct (Hk eq_refl) as (-> & Hnsok & Hsf).
      match goal with |- context [sep_by ?F _ true ?s0] =>
        destruct (cf_lay_fields fl H (fst k0) nm1 (S n0) E1 E' f ks ns1 nm2 g s0 true
                    Hrv ltac:(lia) EL (slice_tl _ _ _ _ Hsl) Hag1 Hnsok) as (st2 & R2 & O2 & W2 & B2 & A2)
      end.
      { cbn [cf_emit mark cf_written]. apply written_mark; assumption. }
      { cbn [cf_emit mark cf_being]. eapply being_ok_mono; [|exact Hb]. lia. }
      rewrite R2. cbn [rbind]. eexists. split; [reflexivity|].
      cbn [cf_emit cf_out cf_written cf_being List.length].
      replace (n0 + S (length ns1))%nat with (S n0 + length ns1)%nat by lia.
      split; [|split; [exact W2|split; [exact B2|exact A2]]].
      rewrite O2. cbn [cf_emit mark cf_out rpcf]. rewrite Hsf. cbn [fst snd]. rewrite sep_concat_joined.
      change (map (fun f0 : bytes * raw => lit "{""name"":" ++ q (fst f0) ++ lit ",""type"":" ++ rpcf (fst k0) (snd f0) ++ lit "}") fl)
        with (map (field_text (fst k0)) fl).
      generalize (joined true (map (field_text (fst k0)) fl)). intro J. unfold full. text_eq.
    + (* enum *)
      destruct has; [|discriminate]. destruct syms as [sl|]; [|discriminate].
      inversion Hlay. subst k nds nm'. clear Hlay. inversion Hrv. subst E'.
      rewrite fix_key_node. pose proof (slice_hd _ _ _ _ Hsl) as Hn. cbn [fix_node m_type m_logical] in Hn.
      assert (Hlt : (n0 < length g)%nat) by (apply nth_error_Some; congruence).
      rewrite (write_cf_enum f g n0 st _ _ _ Hn (written_get_false _ _ _ Hw Hlt)).
      assert (Hnb : named_b g n0 = true) by (unfold named_b; rewrite Hn; reflexivity).
      destruct Hne as [Hag1 Hk]; [intros _ _; eexists; split; [exact Hn|reflexivity]|].
      destruct (Hk eq_refl) as (-> & Hnsok & Hsf).
      eexists. split; [reflexivity|]. cbn [cf_out cf_written cf_being List.length rpcf].
      rewrite Nat.add_1_r, Hsf. cbn [snd]. split; [reflexivity|].
      split; [apply written_mark; assumption|]. split; [reflexivity|exact Hag1].
    + (* fixed *)
      destruct has; [|discriminate]. destruct sz as [n|]; [|discriminate].
      inversion Hlay. subst k nds nm'. clear Hlay. inversion Hrv. subst E'.
      rewrite fix_key_node. pose proof (slice_hd _ _ _ _ Hsl) as Hn. cbn [fix_node m_type m_logical] in Hn.
      assert (Hlt : (n0 < length g)%nat) by (apply nth_error_Some; congruence).
      rewrite (write_cf_fixed f g n0 st _ _ _ Hn (written_get_false _ _ _ Hw Hlt)).
      assert (Hnb : named_b g n0 = true) by (unfold named_b; rewrite Hn; reflexivity).
      destruct Hne as [Hag1 Hk]; [intros _ _; eexists; split; [exact Hn|reflexivity]|].
      destruct (Hk eq_refl) as (-> & Hnsok & Hsf).
      eexists. split; [reflexivity|]. cbn [cf_out cf_written cf_being List.length rpcf].
      rewrite Nat.add_1_r, Hsf. cbn [snd]. split; [reflexivity|].
      split; [apply written_mark; assumption|]. split; [reflexivity|exact Hag1].
Qed.

Print Assumptions cf_lay.
