(** Soundness of the decimal leaves of the serializer (model/Ser.v: parse_decimal, rescale,
    ser_decimal, ser_int_decimal) against the specification (spec/AvroValue.v conforms,
    spec/Encoding.v encode_e): whenever the model answers Ok, the bytes appended to the sink are
    an encoding (with some sign-extension padding) of a conforming decimal value.

    Main results (all closed under the global context):
    - [parse_decimal_bound];
    - [ser_decimal_regular_sound], [ser_decimal_big_sound], [ser_int_decimal_sound]. *)
From Coq Require Import NArith ZArith List Lia Bool ZifyN ZifyBool ZifyNat.
Import ListNotations.
Require Import Base Kinds GenUnionTable Schema Varint Utf8 Sval Ser Text De.
Require Import AvroValue Encoding Denote Wf.
Require Import VarintProofs.
Require Import SerProofs.
Open Scope N_scope.

Ltac Zify.zify_post_hook ::= Z.to_euclidean_division_equations.

Arguments N.add : simpl never.
Arguments N.sub : simpl never.
Arguments N.mul : simpl never.
Arguments N.div : simpl never.
Arguments N.modulo : simpl never.
Arguments N.pow : simpl never.
Arguments N.shiftl : simpl never.
Arguments N.shiftr : simpl never.
Arguments N.land : simpl never.
Arguments N.lor : simpl never.
Arguments N.ltb : simpl never.
Arguments N.leb : simpl never.
Arguments N.eqb : simpl never.
Arguments N.of_nat : simpl never.
Arguments N.to_nat : simpl never.
Arguments Z.of_nat : simpl never.
Arguments Z.of_N : simpl never.
Arguments Z.leb : simpl never.
Arguments Z.ltb : simpl never.

(* ------------------------------------------------------------------ *)
(** * The decimal string grammar only yields 96-bit mantissas and scales up to 28 *)

Lemma parse_body_bound neg body m sc :
  parse_body neg body = Some (m, sc) -> (Z.abs m < 2 ^ 96)%Z /\ sc <= 28.
Proof.
  unfold parse_body. destruct (split_dot body []) as [ip fp].
  set (fpd := match fp with Some f => f | None => [] end).
  destruct (negb (forallb is_digit ip) || negb (forallb is_digit fpd)); [discriminate|].
  destruct (Nat.eqb (length ip) 0); [discriminate|].
  destruct (match fp with Some [] => true | _ => false end); [discriminate|].
  destruct (Nat.ltb 28 (length fpd) || Nat.ltb 40 (length ip + length fpd)) eqn:E; [discriminate|].
  apply orb_false_elim in E. destruct E as [E _]. apply Nat.ltb_ge in E.
  set (v := digits_val (ip ++ fpd) 0).
  destruct (Z.of_N v <? 2 ^ 96)%Z eqn:Ev; [|discriminate].
  apply Z.ltb_lt in Ev. intros H. inversion H; subst m sc. clear H.
  split; [|lia].
  assert (0 <= Z.of_N v)%Z by lia.
  destruct neg; lia.
Qed.

Lemma parse_decimal_bound s m sc :
  parse_decimal s = Some (m, sc) -> (Z.abs m < 2 ^ 96)%Z /\ sc <= 28.
Proof.
  rewrite parse_decimal_eq. destruct (strip_neg s) as [neg body]. apply parse_body_bound.
Qed.

(* ------------------------------------------------------------------ *)
(** * Runs of writes on an unbounded sink (no assumption on the buffer pools) *)

Definition wr (m : M unit) (out : bytes) : Prop :=
  forall st, s_budget st = None ->
    exists st', m st = (Ok tt, st') /\ s_out st' = s_out st ++ out /\ s_budget st' = None.

Lemma wr_write bs : wr (write bs) bs.
Proof.
  intros st Hb. unfold write. rewrite Hb. eexists. split; [reflexivity|].
  unfold st_with_out. cbn [s_out s_budget]. split; reflexivity.
Qed.

Lemma wr_write_varint z : wr (write_varint z) (encode_long z).
Proof. apply wr_write. Qed.

Lemma wr_bind (m : M unit) (k : unit -> M unit) o1 o2 :
  wr m o1 -> wr (k tt) o2 -> wr (sbind m k) (o1 ++ o2).
Proof.
  intros Hm Hk st Hb. destruct (Hm st Hb) as (st1 & E1 & O1 & B1).
  destruct (Hk st1 B1) as (st2 & E2 & O2 & B2).
  exists st2. unfold sbind. rewrite E1. split; [exact E2|]. split; [|exact B2].
  rewrite O2, O1, app_assoc. reflexivity.
Qed.

Lemma wr_out m o o' : wr m o' -> o = o' -> wr m o.
Proof. intros H ->. exact H. Qed.

(* an Ok outcome of a run of writes is the one [wr] predicts *)
Lemma wr_sound m out st st' :
  wr m out -> s_budget st = None -> m st = (Ok tt, st') -> s_out st' = s_out st ++ out.
Proof.
  intros H Hb E. destruct (H st Hb) as (st1 & E1 & O1 & _).
  rewrite E in E1. inversion E1; subst st1. exact O1.
Qed.

Lemma fail_not_ok {A} (r : result A) st a st' : fail r st = (Ok a, st') -> r = Ok a.
Proof. unfold fail. intros H. inversion H. reflexivity. Qed.

(* ------------------------------------------------------------------ *)
(** * Ranges *)

Lemma P8_15 : P8 15 = (2 ^ 120)%Z.
Proof. reflexivity. Qed.

Lemma Fj15_of_i128 z : (- 2 ^ 127 <= z <= 2 ^ 127 - 1)%Z -> Fj 15 z.
Proof.
  intros H. unfold Fj. rewrite P8_15.
  change (-128 * 2 ^ 120)%Z with (- 2 ^ 127)%Z. change (128 * 2 ^ 120)%Z with (2 ^ 127)%Z. lia.
Qed.

Lemma Fj15_of_96 z : (Z.abs z <= 2 ^ 96)%Z -> Fj 15 z.
Proof.
  intros H. apply Fj15_of_i128.
  assert (2 ^ 96 < 2 ^ 127 - 1)%Z by (vm_compute; reflexivity). lia.
Qed.

Lemma Fj_mono a b z : (a <= b)%nat -> Fj a z -> Fj b z.
Proof.
  intros Hab [H1 H2]. pose proof (P8_mono a b Hab). pose proof (P8_pos a). unfold Fj. lia.
Qed.

Lemma Fj_dec j z : {Fj j z} + {~ Fj j z}.
Proof.
  unfold Fj. destruct (Z_le_gt_dec (-128 * P8 j) z); [|right; lia].
  destruct (Z_lt_le_dec z (128 * P8 j)); [left; lia|right; lia].
Qed.

(* the minimal length exists *)
Lemma Fj_minimal n z : Fj n z ->
  exists L', (L' <= n)%nat /\ Fj L' z /\ (L' = O \/ ~ Fj (L' - 1) z).
Proof.
  induction n as [|n IH]; intros H.
  - exists O. split; [lia|]. split; [exact H|left; reflexivity].
  - destruct (Fj_dec n z) as [Hn|Hn].
    + destruct (IH Hn) as (L' & HL & HF & Hm). exists L'. split; [lia|]. split; assumption.
    + exists (S n). split; [lia|]. split; [exact H|]. right.
      replace (S n - 1)%nat with n by lia. exact Hn.
Qed.

(* the minimal length is below any length that fits *)
Lemma minimal_le L' j z : Fj j z -> (L' = O \/ ~ Fj (L' - 1) z) -> (L' <= j)%nat.
Proof.
  intros Hj [->|Hm]; [lia|].
  destruct (le_lt_dec L' j) as [H|H]; [exact H|].
  exfalso. apply Hm. apply (Fj_mono j); [lia|exact Hj].
Qed.

(* dividing by 256^a drops a bytes *)
Lemma Fj_div a j z : Fj (a + j) z <-> Fj j (z / P8 a).
Proof.
  unfold Fj. rewrite P8_add. pose proof (P8_pos a) as Ha. pose proof (P8_pos j) as Hj.
  set (A := P8 a) in *. set (J := P8 j) in *.
  pose proof (Z.mul_div_le z A Ha) as H1.
  pose proof (Z.mul_succ_div_gt z A Ha) as H2.
  set (w := (z / A)%Z) in *. split; intros [L U]; split.
  - apply Z.div_le_lower_bound; [exact Ha|]. lia.
  - apply Z.div_lt_upper_bound; [exact Ha|]. lia.
  - assert (A * (-128 * J) <= A * w)%Z by (apply Z.mul_le_mono_nonneg_l; lia). lia.
  - assert (A * Z.succ w <= A * (128 * J))%Z by (apply Z.mul_le_mono_nonneg_l; lia). lia.
Qed.

Lemma zb_div a j z : zb (z / P8 a) j = zb z (a + j).
Proof.
  unfold zb. rewrite P8_add. pose proof (P8_pos a). pose proof (P8_pos j).
  rewrite Z.div_div by lia. reflexivity.
Qed.

Lemma firstn_T k a z : firstn k (spec_twos_be (k + a) z) = spec_twos_be k (z / P8 a).
Proof.
  induction k as [|k IH]; [reflexivity|].
  cbn [plus]. rewrite !T_S. cbn [firstn]. rewrite IH, zb_div. f_equal. f_equal. lia.
Qed.

(* ------------------------------------------------------------------ *)
(** * Converse of [can_truncate_fixed]: the fit check of the fixed representation is exact *)

Theorem can_truncate_fixed_conv start s' z :
  Fj (start + s') z ->
  Nat.ltb (can_truncate (firstn (S start) (spec_twos_be (start + S s') z))) start = false ->
  Fj s' z.
Proof.
  intros H15 Hc. apply Nat.ltb_ge in Hc.
  replace (start + S s')%nat with (S start + s')%nat in Hc by lia.
  rewrite firstn_T in Hc.
  replace (start + s')%nat with (s' + start)%nat in H15 by lia.
  apply Fj_div in H15. set (w := (z / P8 s')%Z) in *.
  destruct (Fj_minimal start w H15) as (L' & HL & HF & Hm).
  assert (Ec : can_truncate (spec_twos_be (S start) w) = (start - L')%nat).
  { replace (S start) with ((start - L') + S L')%nat by lia. apply can_truncate_minimal; assumption. }
  rewrite Ec in Hc. assert (L' = O) by lia. subst L'.
  replace s' with (s' + 0)%nat by lia. apply Fj_div. exact HF.
Qed.

(* ------------------------------------------------------------------ *)
(** * rescale keeps the mantissa within 2^96 *)

Lemma rescale_bound m s t m' :
  (Z.abs m < 2 ^ 96)%Z -> rescale m s t = Some m' -> (Z.abs m' <= 2 ^ 96)%Z.
Proof.
  intros Hm. unfold rescale.
  destruct (s =? t); [intros E; inversion E; subst; lia|].
  destruct (m =? 0)%Z.
  { destruct (t <=? 28); [|discriminate]. intros E; inversion E; subst. cbn. lia. }
  destruct (t <? s).
  - set (T := (10 ^ Z.of_N (s - t - 1))%Z).
    assert (HT : (0 < T)%Z) by (apply Z.pow_pos_nonneg; lia).
    pose proof (Z.mul_div_le (Z.abs m) T HT) as H1.
    assert (H0 : (0 <= Z.abs m / T)%Z) by (apply Z.div_pos; lia).
    set (q := (Z.abs m / T)%Z) in *.
    assert (Hq : (q <= Z.abs m)%Z) by nia.
    cbv zeta. intros E. inversion E; subst m'. clear E.
    destruct (5 <=? q mod 10)%Z; destruct (m <? 0)%Z; lia.
  - destruct (Z.abs (m * 10 ^ Z.of_N (t - s)) <? TWO96)%Z eqn:Eb; [|discriminate].
    intros E. inversion E; subst m'. unfold TWO96 in Eb. lia.
Qed.

(* ------------------------------------------------------------------ *)
(** * ser_decimal, regular decimals *)

Theorem ser_decimal_regular_sound Sc p scale repr m s st st' :
  (Z.abs m < 2 ^ 96)%Z -> s_budget st = None ->
  match repr with Some (_, size) => size <=? 16 = true | None => True end ->
  ser_decimal (DRegular scale repr) m s st = (Ok tt, st') ->
  exists m' pad, conforms Sc (FDecimal p scale repr) (ADecimal m') = true /\
     s_out st' = s_out st ++ encode_e Sc (FDecimal p scale repr) (EDecimal m' pad).
Proof.
  intros Hm Hb Hr E. unfold ser_decimal in E.
  destruct (rescale m s scale) as [m'|] eqn:R; [|apply fail_not_ok in E; discriminate].
  pose proof (Fj15_of_96 m' (rescale_bound _ _ _ _ Hm R)) as H15.
  assert (Hf16 : fits_twos m' 16 = true) by (apply fits_twos_S; exact H15).
  exists m'. cbv beta iota zeta in E.
  destruct repr as [[nm size]|].
  - rewrite Hr in E. cbn [conforms encode_e]. rewrite Hr. cbn [andb].
    destruct (N.to_nat size) as [|s'] eqn:Es.
    + change (Nat.ltb (16 - 0) 16) with false in E. cbv iota in E.
      destruct (m' =? 0)%Z eqn:E0; [|apply fail_not_ok in E; discriminate].
      exists O. split; [unfold fits_twos; cbn [Nat.eqb]; exact E0|].
      rewrite T_0. exact (wr_sound _ _ _ _ (wr_write []) Hb E).
    + assert (Hs' : (s' <= 15)%nat) by lia.
      assert (El : Nat.ltb (16 - S s') 16 = true) by (apply Nat.ltb_lt; lia).
      rewrite El in E.
      destruct (Nat.ltb (can_truncate (firstn (S (16 - S s')) (be16 m'))) (16 - S s')) eqn:C;
        [apply fail_not_ok in E; discriminate|].
      rewrite be16_T in C, E.
      assert (Hfit : Fj s' m').
      { apply (can_truncate_fixed_conv (16 - S s')).
        - replace (16 - S s' + s')%nat with 15%nat by lia. exact H15.
        - replace (16 - S s' + S s')%nat with 16%nat by lia. exact C. }
      assert (Esk : skipn (16 - S s') (spec_twos_be 16 m') = spec_twos_be (S s') m').
      { replace 16%nat with ((16 - S s') + S s')%nat at 2 by lia. apply skipn_T. }
      rewrite Esk in E.
      exists O. split; [apply fits_twos_S; exact Hfit|].
      exact (wr_sound _ _ _ _ (wr_write _) Hb E).
  - exists O. cbn [conforms encode_e]. split; [exact Hf16|].
    destruct (decimal_bytes_model m' Hf16) as (E1 & E2 & E3).
    eapply wr_sound; [|exact Hb|exact E].
    eapply wr_out; [eapply wr_bind; [apply wr_write_varint|apply wr_write]|].
    rewrite E1, E2. unfold ld. rewrite spec_long_nat; [reflexivity|].
    unfold len_ok, I64_MAX. lia.
Qed.

(* ------------------------------------------------------------------ *)
(** * ser_decimal, big-decimal *)

Lemma wr_ser_decimal_big m s : fits_twos m 16 = true -> (Z.of_N s <= I64_MAX)%Z ->
  wr (ser_decimal DBig m s) (ld (ld (decimal_bytes m 0) ++ spec_long (Z.of_N s))).
Proof.
  intros H Hs. destruct (decimal_bytes_model m H) as (E1 & E2 & E3).
  unfold ser_decimal. cbv beta iota zeta.
  eapply wr_out.
  - eapply wr_bind; [apply wr_write_varint|].
    eapply wr_bind; [apply wr_write|].
    eapply wr_bind; [apply wr_write|apply wr_write].
  - rewrite E1, E2.
    assert (Es : spec_long (Z.of_N s) = encode_long (Z.of_N s))
      by (apply spec_long_is_encode_long; unfold I64_MIN; lia).
    assert (El : spec_long (Z.of_nat (length (decimal_bytes m 0))) =
                 encode_long (Z.of_nat (length (decimal_bytes m 0))))
      by (apply spec_long_nat; unfold len_ok, I64_MAX; lia).
    unfold ld at 1. rewrite !app_length. unfold ld. rewrite app_length, Es, El.
    pose proof (encode_long_length (Z.of_N s)).
    pose proof (encode_long_length (Z.of_nat (length (decimal_bytes m 0)))).
    rewrite spec_long_nat by (unfold len_ok, I64_MAX; lia).
    rewrite <- !app_assoc. f_equal. f_equal. lia.
Qed.

Theorem ser_decimal_big_sound Sc m s st st' :
  (Z.abs m < 2 ^ 96)%Z -> s <= 28 -> s_budget st = None ->
  ser_decimal DBig m s st = (Ok tt, st') ->
  exists pad, conforms Sc FBigDecimal (ABigDecimal m s) = true /\
     s_out st' = s_out st ++ encode_e Sc FBigDecimal (EBigDecimal m s pad).
Proof.
  intros Hm Hs Hb E.
  assert (Hf16 : fits_twos m 16 = true) by (apply fits_twos_S, Fj15_of_96; lia).
  exists O. cbn [conforms encode_e]. split; [exact Hf16|].
  eapply wr_sound; [|exact Hb|exact E].
  apply wr_ser_decimal_big; [exact Hf16|]. unfold I64_MAX. lia.
Qed.

(* ------------------------------------------------------------------ *)
(** * The integer path: sign_ext_len only drops pure sign-extension bytes *)

Lemma land128_ltb v : v < 256 -> (N.land v 128 =? 0) = (v <? 128).
Proof.
  intros H. destruct (N.ltb_spec v 128) as [L|L].
  - rewrite land128_zero by exact L. reflexivity.
  - apply N.eqb_neq. apply land128_big; [exact L|exact H].
Qed.

(* dropping one sign-extension byte keeps the value representable *)
Lemma sign_step n' z :
  Fj (S n') z ->
  ((zb z (S n') =? 0) && (N.land (zb z n') 128 =? 0)) ||
  ((zb z (S n') =? 255) && negb (N.land (zb z n') 128 =? 0)) = true ->
  Fj n' z.
Proof.
  intros HF C. rewrite land128_ltb in C by apply zb_lt256.
  replace (S n') with (n' + 1)%nat in HF by lia. apply Fj_div in HF.
  replace n' with (n' + 0)%nat at 1 by lia. apply Fj_div.
  unfold zb in C. rewrite P8_S, (Z.mul_comm 256) in C.
  pose proof (P8_pos n') as HP.
  rewrite <- Z.div_div in C by lia.
  set (w := (z / P8 n')%Z) in *. unfold Fj in *.
  change (P8 1) with 256%Z in HF. change (P8 0) with 1%Z.
  lia.
Qed.

Lemma sel_fits f : forall n z, Fj n z ->
  (sign_ext_len f (spec_twos_be (S n) z) <= n)%nat /\
  Fj (n - sign_ext_len f (spec_twos_be (S n) z)) z.
Proof.
  induction f as [|f IH]; intros n z HF.
  - cbn [sign_ext_len]. split; [lia|]. replace (n - 0)%nat with n by lia. exact HF.
  - destruct n as [|n'].
    + rewrite T_S, T_0. cbn [sign_ext_len]. split; [lia|exact HF].
    + rewrite T_S, (T_S n'). cbn [sign_ext_len].
      destruct (((zb z (S n') =? 0) && (N.land (zb z n') 128 =? 0)) ||
                ((zb z (S n') =? 255) && negb (N.land (zb z n') 128 =? 0))) eqn:C.
      * pose proof (sign_step n' z HF C) as HF'.
        rewrite <- T_S. destruct (IH n' z HF') as [I1 I2].
        split; [lia|]. cbn [Nat.sub]. exact I2.
      * split; [lia|]. exact HF.
Qed.

Lemma Zin_i128 z : negb (Zin I128_MIN I128_MAX z) = false -> (- 2 ^ 127 <= z <= 2 ^ 127 - 1)%Z.
Proof. unfold Zin, I128_MIN, I128_MAX. lia. Qed.

Theorem ser_int_decimal_sound Sc p scale repr z st st' :
  s_budget st = None ->
  ser_int_decimal scale repr z st = (Ok tt, st') ->
  exists m' pad, conforms Sc (FDecimal p scale repr) (ADecimal m') = true /\
     s_out st' = s_out st ++ encode_e Sc (FDecimal p scale repr) (EDecimal m' pad).
Proof.
  intros Hb E. unfold ser_int_decimal in E.
  destruct (negb (Zin I128_MIN I128_MAX z)); [apply fail_not_ok in E; discriminate|].
  destruct (negb (Zin I128_MIN I128_MAX (10 ^ Z.of_N scale))); [apply fail_not_ok in E; discriminate|].
  cbv zeta in E.
  destruct (negb (Zin I128_MIN I128_MAX (z * 10 ^ Z.of_N scale))) eqn:En;
    [apply fail_not_ok in E; discriminate|].
  apply Zin_i128 in En. set (n := (z * 10 ^ Z.of_N scale)%Z) in *.
  pose proof (Fj15_of_i128 n En) as H15.
  rewrite be16_T in E.
  destruct (sel_fits 15 15 n H15) as [Hsel Hfit].
  set (sel := sign_ext_len 15 (spec_twos_be 16 n)) in *.
  exists n. destruct repr as [[nm size]|].
  - destruct (16 <? size) eqn:Hsz; [apply fail_not_ok in E; discriminate|].
    destruct (Nat.ltb sel (16 - N.to_nat size)) eqn:Hst; [apply fail_not_ok in E; discriminate|].
    apply Nat.ltb_ge in Hst.
    destruct (N.to_nat size) as [|s'] eqn:Es; [lia|].
    assert (Hs' : (s' <= 15)%nat) by lia.
    assert (Esk : skipn (16 - S s') (spec_twos_be 16 n) = spec_twos_be (S s') n).
    { replace 16%nat with ((16 - S s') + S s')%nat at 2 by lia. apply skipn_T. }
    rewrite Esk in E.
    exists O. cbn [conforms encode_e]. rewrite Es. split.
    + apply andb_true_intro. split; [lia|]. apply fits_twos_S.
      apply (Fj_mono (15 - sel)); [lia|exact Hfit].
    + exact (wr_sound _ _ _ _ (wr_write _) Hb E).
  - destruct (mtl_props n H15 40 0) as (L' & EL & HL & Hf & Hmin); [lia|lia|left; reflexivity|].
    pose proof (minimal_le L' (15 - sel) n Hfit Hmin) as HLs.
    assert (Esk : skipn sel (spec_twos_be 16 n) = spec_twos_be (16 - sel) n).
    { replace 16%nat with (sel + (16 - sel))%nat at 1 by lia. apply skipn_T. }
    rewrite Esk, T_length in E.
    exists (15 - sel - L')%nat. cbn [conforms encode_e].
    split; [apply fits_twos_S; exact H15|].
    eapply wr_sound; [|exact Hb|exact E].
    eapply wr_out; [eapply wr_bind; [apply wr_write_varint|apply wr_write]|].
    unfold decimal_bytes. rewrite EL.
    replace (S L' + (15 - sel - L'))%nat with (16 - sel)%nat by lia.
    unfold ld. rewrite T_length. rewrite spec_long_nat; [reflexivity|].
    unfold len_ok, I64_MAX. lia.
Qed.

Print Assumptions parse_decimal_bound.
Print Assumptions ser_decimal_regular_sound.
Print Assumptions ser_decimal_big_sound.
Print Assumptions ser_int_decimal_sound.
