(** C06 for ANY block codec: files with compressed blocks written by the writer model (Container.wbuild /
    wrun enc) have the layout of the specification and are read by the reference parser of spec/FileSpec.v,
    completed by the codec layer of spec/FileSpecCodec.v (decompressor per block, snappy framing, the
    avro.schema / avro.codec metadata).

    Part A  the reference parser on a header with one metadata block per entry followed by any blocks of the
            grammar: [read_meta_one_blocks], [ref_parse_one_block_file] (no size condition on the metadata
            beyond what [header_bytes] itself checks); the metadata as the specification reads it
            [parsed_metadata], [spec_keys_are_crate]; blocks of values before the codec [oblock_of], their
            serialized objects are the specification's encodings of the values and decode uniquely:
            [block_objects_valid], [block_objects_unique], [objects_concat]
    Part B  a block of the writer is a block of the reference writer: [cblk_wr_block], [sink_tail_wr_blocks]
    Part C  the whole file, ANY [enc]: [writer_file_is_ref_write], [writer_file_parses]; counts
            [counts_partition], [counts_positive]
    Part D  the codec layer: [decode_blocks_cblocks], [writer_file_ref_read] (for any decompressor that
            inverts [enc] on the blocks of the session)
    Part E  all of it in one statement: [C06_codec_layout], [C06_codec_layout_all], [C06_codec_values]
    Part F  snappy: [snappy_decoder_frame], [snappy_decoder_checks], [snappy_decoder_sound_for_model],
            [writer_file_ref_read_snappy], [writer_file_ref_read_snappy_crc32]; the null codec
            [writer_file_ref_read_null]
    Part G  computed examples (the two-block files of ContainerCodecProofs.ToyExample, one with the real
            CRC-32) and what the hypotheses exclude *)
From Coq Require Import NArith ZArith List Lia Bool Arith.
From Coq Require Import ZifyN ZifyBool ZifyNat.
Import ListNotations.
Require Import Base Kinds Schema Varint Utf8 Sval Ser Target Reader Text De VectoredWrite Container.
Require Import AvroValue Encoding Denote Wf FileSpec FileSpecCodec.
Require Import CodecLoop DecodeLoop ContainerCodec.
Require SerProofs DeProofs RoundTripProofs ContainerProofs DS5.
Require Import ContainerReadProofs ContainerHeaderProofs ContainerCodecProofs.
Require CodecLoopProofs DecodeLoopToy.
Local Open Scope nat_scope.
Notation length := List.length (only parsing).

Ltac Zify.zify_post_hook ::= Z.to_euclidean_division_equations.

Arguments N.add : simpl never.
Arguments N.sub : simpl never.
Arguments N.mul : simpl never.
Arguments N.div : simpl never.
Arguments N.modulo : simpl never.
Arguments N.pow : simpl never.
Arguments N.shiftl : simpl never.
Arguments N.shiftr : simpl never.
Arguments N.land : simpl never.
Arguments N.lor : simpl never.
Arguments N.ltb : simpl never.
Arguments N.leb : simpl never.
Arguments N.eqb : simpl never.
Arguments N.of_nat : simpl never.
Arguments N.to_nat : simpl never.
Arguments N.min : simpl never.
Arguments Z.of_nat : simpl never.
Arguments Z.of_N : simpl never.
Arguments Z.to_N : simpl never.
Arguments Z.to_nat : simpl never.
Arguments Z.ltb : simpl never.
Arguments Z.leb : simpl never.
Arguments Nat.min : simpl never.
Arguments Nat.mul : simpl never.

Opaque FUEL_SINK.

(* ------------------------------------------------------------------------------------------ *)
(** * Part A. The reference parser on a one-block-per-entry header and blocks of the grammar *)

(* [ContainerProofs.read_meta_wr] asks that the byte size of every metadata block fits a long, which only
   the negative-count form writes. The writer's header never uses that form: no such condition here. *)
Lemma read_meta_one_blocks : forall es fuel acc rest,
  length es < fuel -> Forall ContainerProofs.entry_ok es ->
  read_meta fuel (flat_map wr_meta_block (map one_block es) ++ spec_long 0 ++ rest) acc
  = Some (acc ++ es, rest).
Proof.
  induction es as [|e es IH]; intros fuel acc rest Hf HF;
    (destruct fuel as [|fuel]; [cbn [length] in Hf; lia|]); rewrite ContainerProofs.read_meta_S.
  - cbn [map flat_map app].
    rewrite ContainerProofs.spec_read_long_spec_long by (unfold I64_MIN, I64_MAX; lia).
    cbn [Z.eqb]. rewrite app_nil_r. reflexivity.
  - apply Forall_cons_iff in HF. destruct HF as [He HF]. cbn [length] in Hf.
    cbn [map flat_map].
    change (wr_meta_block (one_block e)) with (spec_long 1 ++ flat_map wr_entry [e]).
    rewrite <- !app_assoc.
    rewrite ContainerProofs.spec_read_long_spec_long by (unfold I64_MIN, I64_MAX; lia).
    change (1 =? 0)%Z with false. change (Z.abs 1) with 1%Z. change (1 <? 100000)%Z with true.
    change (1 <? 0)%Z with false. cbv iota zeta. change (Z.to_nat 1) with (length [e]).
    rewrite ContainerProofs.read_entries_wr by (constructor; [exact He|constructor]).
    rewrite IH by (try assumption; lia). rewrite <- app_assoc. reflexivity.
Qed.

Theorem ref_parse_one_block_file : forall es sync blocks,
  length sync = 16 -> Forall ContainerProofs.entry_ok es -> Forall ContainerProofs.block_ok blocks ->
  ref_parse (ref_write (map one_block es) sync blocks) = Some (mkFile es sync blocks).
Proof.
  intros es sync blocks Hs He Hb. unfold ref_parse.
  assert (Hf1 : length es < S (length (ref_write (map one_block es) sync blocks))).
  { pose proof (ContainerProofs.flat_map_length_ge wr_meta_block (map one_block es)
                  ContainerProofs.wr_meta_block_nonempty) as H.
    rewrite map_length in H. unfold ref_write, wr_meta. rewrite !app_length. lia. }
  assert (Hf2 : length blocks < S (length (ref_write (map one_block es) sync blocks))).
  { pose proof (ContainerProofs.flat_map_length_ge (wr_block sync) blocks
                  (ContainerProofs.wr_block_nonempty sync)).
    unfold ref_write. rewrite !app_length. lia. }
  remember (S (length (ref_write (map one_block es) sync blocks))) as fuel eqn:Ef. clear Ef.
  unfold ref_write, wr_meta.
  change 4%N with (N.of_nat (length MAGIC)). rewrite ContainerProofs.take_n_app.
  rewrite ContainerProofs.bytes_eqb_refl. cbn [negb].
  rewrite <- app_assoc.
  rewrite read_meta_one_blocks by assumption. cbn [app].
  replace 16%N with (N.of_nat (length sync)) by (rewrite Hs; reflexivity).
  rewrite ContainerProofs.take_n_app.
  rewrite ContainerProofs.read_blocks_wr by assumption. reflexivity.
Qed.

(* what [header_bytes] checks is what the parser needs of the entries *)
Lemma entry_lenb_ok : forall es, forallb entry_lenb es = true -> Forall ContainerProofs.entry_ok es.
Proof.
  induction es as [|e es IH]; intros H; constructor.
  - cbn [forallb] in H. apply andb_prop in H. destruct H as [He _].
    unfold entry_lenb in He. apply andb_prop in He. destruct He as [H1 H2].
    apply lenb_fits in H1. apply lenb_fits in H2. split; [exact H1|exact H2].
  - cbn [forallb] in H. apply andb_prop in H. apply IH. apply H.
Qed.

(* the reserved keys of spec/FileSpecCodec.v are the crate's *)
Lemma spec_keys_are_crate :
  SCHEMA_KEY = AVRO_SCHEMA_KEY /\ CODEC_KEY = AVRO_CODEC_KEY /\ NULL_NAME = NULL_CODEC /\
  In NULL_NAME codec_names /\ In SNAPPY_NAME codec_names.
Proof. vm_compute. repeat split; auto 10. Qed.

(* what the specification reads in the metadata of a parsed file whose entries are the writer's: the schema,
   the codec name -- whatever the user entries are (also if they repeat a reserved key: first entry wins) *)
Theorem parsed_metadata : forall json cname user sync blocks,
  file_schema (mkFile (header_entries json cname user) sync blocks) = Some json /\
  file_codec (mkFile (header_entries json cname user) sync blocks) = cname.
Proof. intros. split; reflexivity. Qed.

(* every block that a session can have cut out of its values [all]: a non-empty contiguous segment *)
Definition segment (all ws : list avalue) : Prop := exists pre post, all = pre ++ ws ++ post /\ ws <> [].

Lemma blocks_are_segments : forall (blocks : list (list avalue)) all,
  concat blocks = all -> Forall (fun b => b <> []) blocks -> Forall (segment all) blocks.
Proof.
  intros blocks all Hcat Hne. apply Forall_forall. intros b Hin.
  destruct (in_concat_split b blocks Hin) as (pre & post & Hsplit). rewrite Hcat in Hsplit.
  exists pre, post. split; [exact Hsplit|]. rewrite Forall_forall in Hne. exact (Hne b Hin).
Qed.

Lemma segment_length : forall all ws, segment all ws -> length ws <= length all.
Proof. intros all ws (pre & post & -> & _). rewrite !app_length. lia. Qed.

(* ------------------------------------------------------------------------------------------ *)
(** * Blocks of values before the codec, and what their serialized objects denote (used in Part D) *)

Section Objects.
Variable Sc : fschema.
Variable root : fnode.
Notation encsW := (encs Sc root).

(* the block of the values [vs] before the codec: their count, their encodings one after the other *)
Definition oblock_of (vs : list avalue) : oblock := mkOBlock (Z.of_nat (length vs)) (encsW vs).

(** ** the serialized objects of a block are the specification's encodings of its values *)

(* [objs] is [count] objects of the schema, one after the other, each a valid encoding (spec/Encoding.v,
   any block layout of arrays and maps) of the corresponding value *)
Definition objects_denote (b : oblock) (vs : list avalue) : Prop :=
  ob_count b = Z.of_nat (length vs) /\
  exists chunks, concat chunks = ob_objects b /\ Forall2 (valid_encoding Sc root) vs chunks.

Lemma enc1_valid : forall v, conforms Sc root v = true -> valid_encoding Sc root v (enc1 Sc root v).
Proof.
  intros v Hc. exists (canon v). split; [apply RoundTripProofs.erase_canon|].
  split; [apply RoundTripProofs.layout_ok_canon|]. split; [exact Hc|reflexivity].
Qed.

Theorem block_objects_valid : forall vs, Forall (fun v => conforms Sc root v = true) vs ->
  objects_denote (oblock_of vs) vs.
Proof.
  intros vs HF. split; [reflexivity|]. exists (map (enc1 Sc root) vs). split.
  - cbn [oblock_of ob_objects]. unfold encs. rewrite flat_map_concat_map. reflexivity.
  - induction HF as [|v vs Hv HF IH]; cbn [map]; constructor; [apply enc1_valid; exact Hv|exact IH].
Qed.

(* ... and they decode uniquely: the only [count] conforming values whose encodings (canonical block layout)
   make up the same bytes are the values written. [enc_ok]: the lengths inside the values fit longs. *)
Definition dvalue_ok (v : avalue) : Prop := conforms Sc root v = true /\ RoundTripProofs.enc_ok v = true.

Theorem block_objects_unique : forall vs ws r1 r2,
  length ws = length vs -> Forall dvalue_ok vs -> Forall dvalue_ok ws ->
  encsW ws ++ r1 = encsW vs ++ r2 -> ws = vs /\ r1 = r2.
Proof.
  induction vs as [|v vs IH]; intros ws r1 r2 Hlen Hv Hw E.
  - destruct ws; [|discriminate Hlen]. cbn in E. auto.
  - destruct ws as [|w ws]; [discriminate Hlen|].
    apply Forall_cons_iff in Hv. destruct Hv as [[Hvc Hvo] Hv].
    apply Forall_cons_iff in Hw. destruct Hw as [[Hwc Hwo] Hw].
    unfold encs in E. cbn [flat_map] in E. rewrite <- !app_assoc in E. unfold enc1 at 1 3 in E.
    apply (RoundTripProofs.spec_encode_injective_prefix Sc root w v _ _ Hwc Hvc Hwo Hvo) in E.
    destruct E as [-> E].
    destruct (IH ws r1 r2 ltac:(cbn [length] in Hlen; lia) Hv Hw E) as [-> ->]. auto.
Qed.

(* the serialized objects of the blocks, one after the other, are the encodings of all the values *)
Lemma objects_concat : forall blocks, flat_map ob_objects (map oblock_of blocks) = encsW (concat blocks).
Proof.
  induction blocks as [|vs blocks IH]; [reflexivity|].
  cbn [map flat_map concat]. rewrite IH, (encs_app Sc root). reflexivity.
Qed.

Lemma ocounts_partition : forall blocks,
  fold_right Z.add 0%Z (map ob_count (map oblock_of blocks)) = Z.of_nat (length (concat blocks)).
Proof.
  induction blocks as [|vs blocks IH]; [reflexivity|].
  cbn [map fold_right concat]. rewrite IH, app_length. cbn [oblock_of ob_count]. lia.
Qed.

End Objects.

(* ------------------------------------------------------------------------------------------ *)
(** * Part B. A block of the writer is a block of the reference writer *)

Section Layout.
Variable enc : bytes -> bytes.
Variable Sc : fschema.
Variable root : fnode.
Variable approx : N.
Variable sync : bytes.
Variable vectored : bool.

Notation encsW := (encs Sc root).
Notation oblockW := (oblock_of Sc root).

(* ... and as it stands in the file: "the serialized objects, compressed by the codec" *)
Definition cblock_of (vs : list avalue) : rblock := codec_block enc (oblockW vs).

Lemma cblock_of_count : forall vs, rb_count (cblock_of vs) = Z.of_nat (length vs).
Proof. reflexivity. Qed.
Lemma cblock_of_data : forall vs, rb_data (cblock_of vs) = enc (encsW vs).
Proof. reflexivity. Qed.

(* the sizes that must fit the longs that announce them *)
Definition cblock_fits (vs : list avalue) : Prop := fits (length vs) /\ fits (length (enc (encsW vs))).

(* [cblk]: count, size of the COMPRESSED data, compressed data, marker = FileSpec.wr_block *)
Lemma cblk_wr_block : forall vs, cblock_fits vs ->
  cblk enc Sc root sync vs = wr_block sync (cblock_of vs).
Proof.
  intros vs [Hc Hz]. unfold cblk, wr_block, cblock_of, codec_block, oblockW. cbn [rb_count rb_data ob_count ob_objects].
  rewrite !DeProofs.spec_long_is_encode_long by (apply fits_range; assumption). reflexivity.
Qed.

Lemma sink_tail_wr_blocks : forall blocks, Forall cblock_fits blocks ->
  flat_map (cblk enc Sc root sync) blocks = flat_map (wr_block sync) (map cblock_of blocks).
Proof.
  induction blocks as [|vs blocks IH]; intros HF; [reflexivity|].
  apply Forall_cons_iff in HF. destruct HF as [Hv HF]. cbn [flat_map map].
  rewrite (cblk_wr_block vs Hv), (IH HF). reflexivity.
Qed.

Lemma cblock_block_ok : forall vs, cblock_fits vs -> ContainerProofs.block_ok (cblock_of vs).
Proof.
  intros vs [Hc Hz]. unfold ContainerProofs.block_ok, ContainerProofs.len_ok. rewrite cblock_of_count, cblock_of_data.
  unfold fits in *. split; [lia|exact Hz].
Qed.

(* the hypothesis on [enc]: the size of every compressed block fits the long that announces it *)
Definition enc_sizes_ok (all : list avalue) : Prop :=
  forall ws, segment all ws -> fits (length (enc (encsW ws))).

Lemma segments_fit : forall blocks all,
  fits (length all) -> enc_sizes_ok all -> Forall (segment all) blocks -> Forall cblock_fits blocks.
Proof.
  clear approx sync vectored.
  intros blocks all Hc Hk HF. eapply Forall_impl; [|exact HF]. intros ws Hseg. split.
  - pose proof (segment_length _ _ Hseg). unfold fits in *. lia.
  - apply Hk. exact Hseg.
Qed.

(* ------------------------------------------------------------------------------------------ *)
(** * Part C. The whole file, any codec *)

Hypothesis Hwf : schema_wf Sc = true.
Hypothesis Hroot : fnode_at Sc 0 = Some root.
Hypothesis Hsync : length sync = 16.

(* the session: build, operations, close; every call returned Ok *)
Definition session (json cname : bytes) (user : list (bytes * bytes)) (sched : list wans) (hs : list hop)
                   (close : wop) (st' : wstate) : Prop :=
  exists st0 outs,
    wbuild sync json cname user sched = (WROk, st0) /\
    Forall (hop_ok Sc root) hs /\
    (close = WFinish \/ close = WIntoInner \/ close = WDrop) /\
    wrun enc Sc approx sync vectored st0 (map (op_of Sc root) hs ++ [close]) = (outs, st') /\
    Forall (fun r => fst r = WROk) outs.

(* the partition of the session's values into the blocks that were flushed *)
Definition partition_of (all : list avalue) (blocks : list (list avalue)) : Prop :=
  concat blocks = all /\ Forall (fun b => b <> []) blocks.

(** the sink IS a file of the reference writer: the header entries avro.schema, avro.codec, user entries
    (one metadata block each), the marker, and one block per flushed group of values, holding
    [enc (encodings of the values)] and announcing the size of THAT *)
Theorem writer_file_is_ref_write : forall json cname user sched hs close st',
  session json cname user sched hs close st' ->
  fits (length (vals_of hs)) -> enc_sizes_ok (vals_of hs) ->
  exists blocks,
    partition_of (vals_of hs) blocks /\ Forall cblock_fits blocks /\
    forallb entry_lenb (header_entries json cname user) = true /\
    w_sink st' = ref_write (map one_block (header_entries json cname user)) sync (map cblock_of blocks).
Proof.
  intros json cname user sched hs close st' (st0 & outs & Hb & Hok & Hclose & Hrun & Hall) Hc Hk.
  destruct (wbuild_goodC enc Sc root sync json cname user sched st0 Hb) as [Hg Hh].
  destruct (writer_sink_cblocks enc Sc root approx sync vectored Hwf Hroot hs close (w_sink st0) st0 outs st'
              Hg Hok Hclose Hrun Hall) as (blocks & Hs & Hcat & Hne & _).
  destruct (header_bytes_inv _ _ _ _ _ Hh) as [Hl Hhdr].
  assert (Hfit : Forall cblock_fits blocks).
  { apply (segments_fit blocks (vals_of hs) Hc Hk). apply blocks_are_segments; assumption. }
  exists blocks. split; [split; assumption|]. split; [exact Hfit|]. split; [exact Hl|].
  rewrite Hs, Hhdr, (sink_tail_wr_blocks blocks Hfit). unfold ref_write. rewrite <- !app_assoc. reflexivity.
Qed.

(** ... hence the reference parser reads it: the metadata entries in order, the marker, the blocks *)
Theorem writer_file_parses : forall json cname user sched hs close st',
  session json cname user sched hs close st' ->
  fits (length (vals_of hs)) -> enc_sizes_ok (vals_of hs) ->
  exists blocks,
    partition_of (vals_of hs) blocks /\
    ref_parse (w_sink st') = Some (mkFile (header_entries json cname user) sync (map cblock_of blocks)).
Proof.
  intros json cname user sched hs close st' Hses Hc Hk.
  destruct (writer_file_is_ref_write json cname user sched hs close st' Hses Hc Hk)
    as (blocks & Hpart & Hfit & Hl & Hs).
  exists blocks. split; [exact Hpart|]. rewrite Hs.
  apply ref_parse_one_block_file; [exact Hsync|apply entry_lenb_ok; exact Hl|].
  apply Forall_forall. intros b Hin. apply in_map_iff in Hin. destruct Hin as (vs & <- & Hvs).
  apply cblock_block_ok. rewrite Forall_forall in Hfit. exact (Hfit vs Hvs).
Qed.

(** ** what the parsed file says *)

(* the counts are the lengths of the partition: no block is empty, they sum to the number of values written *)
Lemma counts_of_blocks : forall blocks,
  map rb_count (map cblock_of blocks) = map (fun vs => Z.of_nat (length vs)) blocks.
Proof. intros blocks. rewrite map_map. reflexivity. Qed.

Lemma data_of_blocks : forall blocks,
  map rb_data (map cblock_of blocks) = map (fun vs => enc (encsW vs)) blocks.
Proof. intros blocks. rewrite map_map. reflexivity. Qed.

Lemma counts_partition : forall blocks,
  fold_right Z.add 0%Z (map rb_count (map cblock_of blocks)) = Z.of_nat (length (concat blocks)).
Proof.
  clear Hwf Hroot Hsync.
  induction blocks as [|vs blocks IH]; [reflexivity|].
  cbn [map fold_right concat]. rewrite IH, cblock_of_count, app_length. lia.
Qed.

Lemma counts_positive : forall blocks, Forall (fun b => b <> []) blocks ->
  Forall (fun b => (1 <= rb_count b)%Z) (map cblock_of blocks).
Proof.
  clear Hwf Hroot Hsync. clear approx sync vectored.
  intros blocks HF. apply Forall_forall. intros b Hin. apply in_map_iff in Hin.
  destruct Hin as (vs & <- & Hvs). rewrite Forall_forall in HF. specialize (HF vs Hvs).
  rewrite cblock_of_count. destruct vs; [congruence|cbn [length]; lia].
Qed.

(* ------------------------------------------------------------------------------------------ *)
(** * Part D. The codec layer of spec/FileSpecCodec.v *)

(* the hypothesis on the decompressor: it inverts [enc] on the blocks the session can produce *)
Definition dec_inverts (dec : decoder) (all : list avalue) : Prop :=
  forall ws, segment all ws -> dec (enc (encsW ws)) = Some (encsW ws).

Lemma dec_inverts_of_all : forall (dec : decoder) all, (forall x, dec (enc x) = Some x) -> dec_inverts dec all.
Proof. intros dec all H ws _. apply H. Qed.

Lemma decode_blocks_cblocks : forall (dec : decoder) blocks,
  Forall (fun vs => dec (enc (encsW vs)) = Some (encsW vs)) blocks ->
  decode_blocks dec (map cblock_of blocks) = Some (map oblockW blocks).
Proof.
  intros dec. induction blocks as [|vs blocks IH]; intros HF; [reflexivity|].
  apply Forall_cons_iff in HF. destruct HF as [Hv HF]. cbn [map decode_blocks].
  unfold decode_block. rewrite cblock_of_data, Hv, (IH HF). reflexivity.
Qed.

(** the reference reader with the decompressor [dec]: header entries, marker, and per block the count and
    the UNCOMPRESSED serialized objects = the encodings of that block's values *)
Theorem writer_file_ref_read : forall (dec : decoder) json cname user sched hs close st',
  session json cname user sched hs close st' ->
  fits (length (vals_of hs)) -> enc_sizes_ok (vals_of hs) -> dec_inverts dec (vals_of hs) ->
  exists blocks,
    partition_of (vals_of hs) blocks /\
    ref_read dec (w_sink st') = Some (mkOFile (header_entries json cname user) sync (map oblockW blocks)).
Proof.
  intros dec json cname user sched hs close st' Hses Hc Hk Hd.
  destruct (writer_file_parses json cname user sched hs close st' Hses Hc Hk) as (blocks & Hpart & Hp).
  exists blocks. split; [exact Hpart|]. unfold ref_read. rewrite Hp. cbn [rf_blocks rf_meta rf_sync].
  rewrite decode_blocks_cblocks; [reflexivity|].
  destruct Hpart as [Hcat Hne]. eapply Forall_impl; [|exact (blocks_are_segments blocks _ Hcat Hne)].
  intros ws Hseg. apply Hd. exact Hseg.
Qed.

(* ------------------------------------------------------------------------------------------ *)
(** * Part E. All of it in one statement *)

(** C06 for any block codec. A session of the writer model with block codec [enc] whose calls all returned Ok;
    the number of values and the size of every compressed block fit the longs that announce them; [dec] inverts
    [enc] on the session's blocks. Then there is a partition [blocks] of the values written, in order, into
    non-empty groups such that the reference parser reads the sink as: the metadata avro.schema = json,
    avro.codec = cname, the user entries; the marker; one block per group whose count is the group's length and
    whose data is [enc] of the concatenated encodings of the group's values. The counts are >= 1 and sum to the
    number of values. Decompressed with [dec], the blocks hold exactly those encodings, which concatenate to the
    encodings of all the values. *)
Theorem C06_codec_layout : forall (dec : decoder) json cname user sched hs close st',
  session json cname user sched hs close st' ->
  fits (length (vals_of hs)) -> enc_sizes_ok (vals_of hs) -> dec_inverts dec (vals_of hs) ->
  exists blocks f o,
    partition_of (vals_of hs) blocks /\
    ref_parse (w_sink st') = Some f /\
    rf_meta f = header_entries json cname user /\ rf_sync f = sync /\
    file_schema f = Some json /\ file_codec f = cname /\
    map rb_count (rf_blocks f) = map (fun vs => Z.of_nat (length vs)) blocks /\
    map rb_data (rf_blocks f) = map (fun vs => enc (encsW vs)) blocks /\
    Forall (fun b => (1 <= rb_count b)%Z) (rf_blocks f) /\
    fold_right Z.add 0%Z (map rb_count (rf_blocks f)) = Z.of_nat (length (vals_of hs)) /\
    ref_read dec (w_sink st') = Some o /\
    of_meta o = rf_meta f /\ of_sync o = sync /\
    of_blocks o = map oblockW blocks /\
    file_objects o = encsW (vals_of hs) /\
    file_count o = Z.of_nat (length (vals_of hs)).
Proof.
  intros dec json cname user sched hs close st' Hses Hc Hk Hd.
  destruct (writer_file_parses json cname user sched hs close st' Hses Hc Hk) as (blocks & Hpart & Hp).
  assert (Hdb : decode_blocks dec (map cblock_of blocks) = Some (map oblockW blocks)).
  { apply decode_blocks_cblocks. destruct Hpart as [Hcat Hne].
    eapply Forall_impl; [|exact (blocks_are_segments blocks _ Hcat Hne)]. intros ws Hseg. apply Hd. exact Hseg. }
  exists blocks, (mkFile (header_entries json cname user) sync (map cblock_of blocks)),
         (mkOFile (header_entries json cname user) sync (map oblockW blocks)).
  destruct Hpart as [Hcat Hne].
  split; [split; assumption|]. split; [exact Hp|].
  cbn [rf_meta rf_sync rf_blocks of_meta of_sync of_blocks].
  split; [reflexivity|]. split; [reflexivity|].
  split; [apply parsed_metadata|]. split; [apply parsed_metadata|].
  split; [apply counts_of_blocks|]. split; [apply data_of_blocks|].
  split; [apply counts_positive; exact Hne|]. split; [rewrite counts_partition, Hcat; reflexivity|].
  split; [unfold ref_read; rewrite Hp; cbn [rf_meta rf_sync rf_blocks]; rewrite Hdb; reflexivity|].
  split; [reflexivity|]. split; [reflexivity|]. split; [reflexivity|]. split.
  - unfold file_objects. cbn [of_blocks]. rewrite objects_concat, Hcat. reflexivity.
  - unfold file_count. cbn [of_blocks]. rewrite ocounts_partition, Hcat. reflexivity.
Qed.

(* the hypotheses on the codec in their simple, stronger form: every input *)
Lemma enc_sizes_ok_of_all : forall all, (forall x, fits (length (enc x))) -> enc_sizes_ok all.
Proof. intros all H ws _. apply H. Qed.

Corollary C06_codec_layout_all : forall (dec : decoder) json cname user sched hs close st',
  session json cname user sched hs close st' ->
  fits (length (vals_of hs)) -> (forall x, fits (length (enc x))) -> (forall x, dec (enc x) = Some x) ->
  exists blocks f o,
    partition_of (vals_of hs) blocks /\
    ref_parse (w_sink st') = Some f /\
    rf_meta f = header_entries json cname user /\ rf_sync f = sync /\
    file_schema f = Some json /\ file_codec f = cname /\
    map rb_count (rf_blocks f) = map (fun vs => Z.of_nat (length vs)) blocks /\
    map rb_data (rf_blocks f) = map (fun vs => enc (encsW vs)) blocks /\
    Forall (fun b => (1 <= rb_count b)%Z) (rf_blocks f) /\
    fold_right Z.add 0%Z (map rb_count (rf_blocks f)) = Z.of_nat (length (vals_of hs)) /\
    ref_read dec (w_sink st') = Some o /\
    of_meta o = rf_meta f /\ of_sync o = sync /\
    of_blocks o = map oblockW blocks /\
    file_objects o = encsW (vals_of hs) /\
    file_count o = Z.of_nat (length (vals_of hs)).
Proof.
  intros dec json cname user sched hs close st' Hses Hc Hk Hd.
  exact (C06_codec_layout dec json cname user sched hs close st' Hses Hc
           (enc_sizes_ok_of_all _ Hk) (dec_inverts_of_all dec _ Hd)).
Qed.

(** ... and, when the values conform to the schema (serialize checks it; push_serialized takes the caller's word),
    every decompressed block is [count] objects, each a valid encoding of the corresponding value written *)
Theorem C06_codec_values : forall (dec : decoder) json cname user sched hs close st',
  session json cname user sched hs close st' ->
  fits (length (vals_of hs)) -> enc_sizes_ok (vals_of hs) -> dec_inverts dec (vals_of hs) ->
  Forall (fun v => conforms Sc root v = true) (vals_of hs) ->
  exists blocks o,
    partition_of (vals_of hs) blocks /\
    ref_read dec (w_sink st') = Some o /\
    Forall2 (objects_denote Sc root) (of_blocks o) blocks.
Proof.
  intros dec json cname user sched hs close st' Hses Hc Hk Hd Hconf.
  destruct (writer_file_ref_read dec json cname user sched hs close st' Hses Hc Hk Hd) as (blocks & Hpart & Hr).
  exists blocks, (mkOFile (header_entries json cname user) sync (map oblockW blocks)).
  split; [exact Hpart|]. split; [exact Hr|]. cbn [of_blocks].
  destruct Hpart as [Hcat _]. rewrite <- Hcat in Hconf. clear - Hconf.
  induction blocks as [|vs blocks IH]; cbn [map]; constructor.
  - apply block_objects_valid. cbn [concat] in Hconf. apply Forall_app in Hconf. apply Hconf.
  - apply IH. cbn [concat] in Hconf. apply Forall_app in Hconf. apply Hconf.
Qed.

End Layout.

(* ------------------------------------------------------------------------------------------ *)
(** * Part F. Instances: the null codec and the snappy framing *)

(** ** the snappy framing of the specification and of the crate *)

(* the crate's framing (CodecLoop.snappy_encode) is the specification's, for any raw codec and checksum *)
Lemma snappy_frame_is_model : forall raw_enc crc x, snappy_frame raw_enc crc x = snappy_encode raw_enc crc x.
Proof. reflexivity. Qed.

Lemma spec_be32_length : forall x, length (spec_be32 x) = 4.
Proof. reflexivity. Qed.

(* the specification's reader of a snappy block accepts the frame and returns the uncompressed data *)
Theorem snappy_decoder_frame : forall raw_enc raw_dec crc x,
  raw_dec (raw_enc x) = Some x ->
  snappy_decoder raw_dec crc (snappy_frame raw_enc crc x) = Some x.
Proof.
  intros raw_enc raw_dec crc x H. unfold snappy_decoder, snappy_frame.
  rewrite app_length, spec_be32_length.
  destruct (Nat.ltb_spec (length (raw_enc x) + 4) 4) as [Hlt|_]; [lia|].
  replace (length (raw_enc x) + 4 - 4) with (length (raw_enc x)) by lia.
  rewrite firstn_app, Nat.sub_diag, firstn_all, firstn_O, app_nil_r, H.
  rewrite skipn_app, Nat.sub_diag, skipn_all, skipn_O. cbn [app].
  rewrite ContainerProofs.bytes_eqb_refl. reflexivity.
Qed.

(* ... and it checks the checksum: a frame whose last four bytes are not the CRC of the data is refused *)
Theorem snappy_decoder_checks : forall raw_dec crc raw (t : bytes) x,
  length t = 4 -> raw_dec raw = Some x -> t <> spec_be32 (crc x) ->
  snappy_decoder raw_dec crc (raw ++ t) = None.
Proof.
  intros raw_dec crc raw t x Ht H Hne. unfold snappy_decoder.
  rewrite app_length, Ht.
  destruct (Nat.ltb_spec (length raw + 4) 4) as [Hlt|_]; [reflexivity|].
  replace (length raw + 4 - 4) with (length raw) by lia.
  rewrite firstn_app, Nat.sub_diag, firstn_all, firstn_O, app_nil_r, H.
  rewrite skipn_app, Nat.sub_diag, skipn_all, skipn_O. cbn [app].
  rewrite (bytes_eqb_neq _ _ Hne). reflexivity.
Qed.

(* whatever the specification's snappy reader accepts, the crate's block decoder (CodecLoop.snappy_decode)
   accepts with the same result *)
Theorem snappy_decoder_sound_for_model : forall raw_dec crc blk x,
  (forall y, (crc y < 4294967296)%N) ->
  snappy_decoder raw_dec crc blk = Some x -> snappy_decode raw_dec crc blk = Ok x.
Proof.
  intros raw_dec crc blk x Hcrc H. unfold snappy_decoder in H. unfold snappy_decode.
  destruct (length blk <? 4); [discriminate|].
  destruct (raw_dec (firstn (length blk - 4) blk)) as [d|]; [|discriminate].
  destruct (bytes_eqb (skipn (length blk - 4) blk) (spec_be32 (crc d))) eqn:E; [|discriminate].
  inversion H; subst d. apply DS5.bytes_eqb_eq in E. rewrite E.
  change (spec_be32 (crc x)) with (be32 (crc x)).
  rewrite CodecLoopProofs.of_be32_be32 by apply Hcrc. rewrite N.eqb_refl. reflexivity.
Qed.

(** ** files *)
Section Instances.
Variable Sc : fschema.
Variable root : fnode.
Variable approx : N.
Variable sync : bytes.
Variable vectored : bool.
Hypothesis Hwf : schema_wf Sc = true.
Hypothesis Hroot : fnode_at Sc 0 = Some root.
Hypothesis Hsync : length sync = 16.

Notation encsW := (encs Sc root).

(* the null codec "simply passes through data uncompressed": the blocks hold the encodings themselves. The only
   size condition left is that of the null-codec theorems (ContainerHeaderProofs.file_read_back_full) *)
Theorem writer_file_ref_read_null : forall json cname user sched hs close st',
  session (fun b => b) Sc root approx sync vectored json cname user sched hs close st' ->
  fits (length (vals_of hs)) -> fits (length (encsW (vals_of hs))) ->
  exists blocks,
    partition_of (vals_of hs) blocks /\
    ref_parse (w_sink st')
      = Some (mkFile (header_entries json cname user) sync (map (to_rblock_vals Sc root) blocks)) /\
    ref_read null_decoder (w_sink st')
      = Some (mkOFile (header_entries json cname user) sync (map (oblock_of Sc root) blocks)).
Proof.
  intros json cname user sched hs close st' Hses Hc Hz.
  assert (Hk : enc_sizes_ok (fun b => b) Sc root (vals_of hs)).
  { intros ws (pre & post & E & _). rewrite E, !(encs_app Sc root), !app_length in Hz. unfold fits in *. lia. }
  destruct (writer_file_parses (fun b => b) Sc root approx sync vectored Hwf Hroot Hsync
              json cname user sched hs close st' Hses Hc Hk) as (blocks & Hpart & Hp).
  exists blocks. split; [exact Hpart|]. split; [exact Hp|].
  unfold ref_read. rewrite Hp. cbn [rf_blocks rf_meta rf_sync].
  rewrite (decode_blocks_cblocks (fun b => b) Sc root null_decoder blocks); [reflexivity|].
  apply Forall_forall. intros vs _. reflexivity.
Qed.

Section Snappy.
Variable raw_enc : bytes -> bytes.
Variable raw_dec : bytes -> option bytes.
Variable crc : bytes -> N.
Hypothesis Hraw : forall x, raw_dec (raw_enc x) = Some x.

Notation senc := (snappy_encode raw_enc crc).

(** a session of the writer model with the snappy framing: the reference parser finds, in every block, the raw
    snappy block of the encodings followed by the big-endian checksum of the UNCOMPRESSED encodings, under a size
    that covers both; the specification's snappy reader returns the encodings *)
Theorem writer_file_ref_read_snappy : forall json cname user sched hs close st',
  session senc Sc root approx sync vectored json cname user sched hs close st' ->
  fits (length (vals_of hs)) -> enc_sizes_ok senc Sc root (vals_of hs) ->
  exists blocks f,
    partition_of (vals_of hs) blocks /\
    ref_parse (w_sink st') = Some f /\
    rf_meta f = header_entries json cname user /\ rf_sync f = sync /\
    map rb_count (rf_blocks f) = map (fun vs => Z.of_nat (length vs)) blocks /\
    map rb_data (rf_blocks f) = map (fun vs => raw_enc (encsW vs) ++ spec_be32 (crc (encsW vs))) blocks /\
    ref_read (snappy_decoder raw_dec crc) (w_sink st')
      = Some (mkOFile (header_entries json cname user) sync (map (oblock_of Sc root) blocks)) /\
    flat_map ob_objects (map (oblock_of Sc root) blocks) = encsW (vals_of hs).
Proof.
  intros json cname user sched hs close st' Hses Hc Hk.
  assert (Hd : dec_inverts senc Sc root (snappy_decoder raw_dec crc) (vals_of hs)).
  { intros ws _. rewrite <- snappy_frame_is_model. apply snappy_decoder_frame. apply Hraw. }
  destruct (C06_codec_layout senc Sc root approx sync vectored Hwf Hroot Hsync (snappy_decoder raw_dec crc)
              json cname user sched hs close st' Hses Hc Hk Hd)
    as (blocks & f & o & Hpart & Hp & Hm & Hsy & _ & _ & Hcnt & Hdat & _ & _ & Hr & Hom & Hos & Hob & Hobj & _).
  exists blocks, f. split; [exact Hpart|]. split; [exact Hp|]. split; [exact Hm|]. split; [exact Hsy|].
  split; [exact Hcnt|]. split; [exact Hdat|].
  destruct o as [om os ob]. cbn [of_meta of_sync of_blocks] in Hom, Hos, Hob. subst om os ob.
  split; [rewrite Hr, Hm; reflexivity|]. exact Hobj.
Qed.

End Snappy.

(** with the checksum of the specification (CRC-32, spec/FileSpecCodec.v [spec_crc32]) on the writer's side, and
    "snappy" as the codec name: the reader that picks its decompressor from the metadata reads the file *)
Theorem writer_file_ref_read_snappy_crc32 : forall raw_enc raw_dec others json user sched hs close st',
  (forall x, raw_dec (raw_enc x) = Some x) ->
  session (snappy_encode raw_enc spec_crc32) Sc root approx sync vectored json SNAPPY_NAME user sched hs close st' ->
  fits (length (vals_of hs)) -> enc_sizes_ok (snappy_encode raw_enc spec_crc32) Sc root (vals_of hs) ->
  exists blocks,
    partition_of (vals_of hs) blocks /\
    ref_read_auto raw_dec others (w_sink st')
      = Some (mkOFile (header_entries json SNAPPY_NAME user) sync (map (oblock_of Sc root) blocks)).
Proof.
  intros raw_enc raw_dec others json user sched hs close st' Hraw Hses Hc Hk.
  destruct (writer_file_ref_read_snappy raw_enc raw_dec spec_crc32 Hraw json SNAPPY_NAME user sched hs close st'
              Hses Hc Hk) as (blocks & f & Hpart & Hp & Hm & _ & _ & _ & Hr & _).
  exists blocks. split; [exact Hpart|]. unfold ref_read_auto. rewrite Hp.
  destruct f as [fm fs fb]. cbn [rf_meta] in Hm. subst fm.
  rewrite (proj2 (parsed_metadata json SNAPPY_NAME user fs fb)).
  change (decoder_of raw_dec others SNAPPY_NAME) with (Some (snappy_decoder raw_dec spec_crc32)).
  exact Hr.
Qed.

End Instances.

(* the values of the round-trip theorems are in particular accepted by serialize *)
Lemma hop_ok_of_values : forall Sc cfg root hs,
  Forall (value_ok Sc cfg root) (vals_of hs) -> Forall (hop_ok Sc root) hs.
Proof.
  intros Sc cfg root. induction hs as [|h hs IH]; intros Hv; [constructor|].
  rewrite vals_of_cons in Hv. apply Forall_app in Hv. destruct Hv as [Hh Hr].
  constructor; [|apply IH; exact Hr].
  destruct h as [v| |]; cbn [hop_ok]; auto.
  cbn [vals_of flat_map app] in Hh. apply (value_ok_ser_ok Sc cfg root). exact (Forall_inv Hh).
Qed.

(* ------------------------------------------------------------------------------------------ *)
(** * Part G. Computed examples: the two-block files of ContainerCodecProofs.ToyExample *)

(* the decompressor of the toy codec of DecodeLoop.v (1 b 1 b ... 0) *)
Fixpoint toy_dec (bs : bytes) : option bytes :=
  match bs with
  | [0%N] => Some []
  | 1%N :: b :: rest => match toy_dec rest with Some x => Some (b :: x) | None => None end
  | _ => None
  end.

Lemma toy_dec_enc : forall x, toy_dec (toy_enc x) = Some x.
Proof.
  induction x as [|b x IH]; [reflexivity|].
  change (toy_enc (b :: x)) with (1%N :: b :: toy_enc x). cbn [toy_dec]. rewrite IH. reflexivity.
Qed.

Module LayoutExample.
Import String.
Import ContainerReadProofs.Example.
Import ContainerCodecProofs.ToyExample.
Local Open Scope N_scope.

Definition toyEntries : list (bytes * bytes) :=
  [(lit "avro.schema"%string, lit "{}"%string); (lit "avro.codec"%string, lit "deflate"%string); (lit "k"%string, [7;8])].

(* the encodings of v1 v2 (first block) and of v3 (second block) *)
Definition objs12 : bytes := [2; 2; 120; 3; 4; 121; 122].
Definition objs3 : bytes := [216; 4; 0].

(** the file written with the toy codec: the reference parser sees two blocks of 2 and 1 objects whose data are
    the COMPRESSED encodings (sizes 15 and 7 = sizes after the codec); decompressed: the encodings *)
Example toy_file_parsed :
  ref_parse toySink
    = Some (mkFile toyEntries exSync [mkBlock 2 (toy_enc objs12); mkBlock 1 (toy_enc objs3)]) /\
  option_map file_codec (ref_parse toySink) = Some (lit "deflate"%string) /\
  option_map file_schema (ref_parse toySink) = Some (Some (lit "{}"%string)) /\
  ref_read toy_dec toySink = Some (mkOFile toyEntries exSync [mkOBlock 2 objs12; mkOBlock 1 objs3]) /\
  option_map file_objects (ref_read toy_dec toySink) = Some (encs exSc exRoot [v1; v2; v3]) /\
  option_map file_count (ref_read toy_dec toySink) = Some 3%Z /\
  (* a reader that ignores the codec gets blocks that are not the encodings *)
  ref_read null_decoder toySink
    = Some (mkOFile toyEntries exSync [mkOBlock 2 (toy_enc objs12); mkOBlock 1 (toy_enc objs3)]) /\
  (* the damaged files of ToyExample: a lowered count is invisible to this layer (the data is opaque to it);
     a cut file is not in the grammar *)
  option_map (fun f => map rb_count (rf_blocks f)) (ref_parse toySinkLowered) = Some [1; 1]%Z /\
  ref_parse toySinkCut = None /\ ref_parse toySinkCutMarker = None.
Proof. vm_compute. repeat split; reflexivity. Qed.

(* the session of ToyExample as a [session] *)
Lemma toy_session :
  session toy_enc exSc exRoot 1000 exSync false toyJson toyCodecName toyUser [Accept 7] exHs WIntoInner (snd toyRan).
Proof.
  exists toySt0, (fst toyRan). split; [vm_compute; reflexivity|].
  split; [exact (hop_ok_of_values exSc cfg_default exRoot exHs (proj1 (proj2 (proj2 file_written_and_read_back))))|].
  split; [right; left; reflexivity|]. split; [apply surjective_pairing|].
  vm_compute. repeat constructor.
Qed.

Lemma toy_sizes : forall enc, (forall x, (List.length (enc x) <= 2 * List.length x + 4)%nat) ->
  enc_sizes_ok enc exSc exRoot (vals_of exHs).
Proof.
  intros enc Hen ws (pre & post & Hsplit & _).
  assert (Hlen : List.length (encs exSc exRoot (vals_of exHs)) = 10%nat) by (vm_compute; reflexivity).
  rewrite Hsplit, !(encs_app exSc exRoot), !app_length in Hlen.
  specialize (Hen (encs exSc exRoot ws)). unfold fits, I64_MAX. lia.
Qed.

(* the same through the theorem *)
Example toy_file_by_layout_theorem :
  exists blocks,
    partition_of (vals_of exHs) blocks /\
    ref_read toy_dec toySink
      = Some (mkOFile (header_entries toyJson toyCodecName toyUser) exSync (map (oblock_of exSc exRoot) blocks)).
Proof.
  apply (writer_file_ref_read toy_enc exSc exRoot 1000 exSync false
           ltac:(vm_compute; reflexivity) ltac:(vm_compute; reflexivity) eq_refl toy_dec
           toyJson toyCodecName toyUser [Accept 7] exHs WIntoInner (snd toyRan) toy_session).
  - vm_compute. discriminate.
  - apply toy_sizes. intros x. rewrite DecodeLoopToy.toy_enc_length. lia.
  - intros ws _. apply toy_dec_enc.
Qed.

(** the snappy framing around the stand-in raw codec (identity) and checksum (sum mod 2^32) of ToyExample *)
Example snappy_file_parsed :
  ref_parse snapSink
    = Some (mkFile toyEntries exSync [mkBlock 2 (objs12 ++ [0; 0; 1; 118]); mkBlock 1 (objs3 ++ [0; 0; 0; 220])]) /\
  ref_read (snappy_decoder Some sum32) snapSink
    = Some (mkOFile toyEntries exSync [mkOBlock 2 objs12; mkOBlock 1 objs3]) /\
  (* the damaged checksum of ToyExample: in the grammar, refused by the snappy reader *)
  option_map (fun f => map rb_count (rf_blocks f)) (ref_parse snapSinkBadCrc) = Some [2; 1]%Z /\
  ref_read (snappy_decoder Some sum32) snapSinkBadCrc = None.
Proof. vm_compute. repeat split; reflexivity. Qed.

(** the same session with the specification's CRC-32 and the codec name "snappy": read by [ref_read_auto] *)
Definition crcSt0 : wstate := snd (wbuild exSync toyJson SNAPPY_NAME toyUser [Accept 7]).
Definition crcEnc : bytes -> bytes := snappy_encode (fun x => x) spec_crc32.
Definition crcRan := wrun crcEnc exSc 1000 exSync false crcSt0 toyOps.
Definition crcSink : bytes := w_sink (snd crcRan).

Example crc32_check_value : spec_crc32 (lit "123456789"%string) = 0xCBF43926.
Proof. vm_compute. reflexivity. Qed.

Example crc32_file_computed :
  map fst (fst crcRan) = [WROk; WROk; WROk; WROk; WROk] /\
  option_map (fun f => map rb_data (rf_blocks f)) (ref_parse crcSink)
    = Some [objs12 ++ spec_be32 (spec_crc32 objs12); objs3 ++ spec_be32 (spec_crc32 objs3)] /\
  spec_be32 (spec_crc32 objs12) = [213; 8; 153; 253] /\ spec_be32 (spec_crc32 objs3) = [24; 183; 120; 158] /\   (* = zlib.crc32 *)
  ref_read_auto Some (fun _ => None) crcSink
    = Some (mkOFile (header_entries toyJson SNAPPY_NAME toyUser) exSync [mkOBlock 2 objs12; mkOBlock 1 objs3]) /\
  (* the file of ToyExample names "deflate": a reader without that library stops *)
  ref_read_auto Some (fun _ => None) toySink = None /\
  ref_read_auto Some (fun n => if bytes_eqb n (lit "deflate"%string) then Some toy_dec else None) toySink
    = ref_read toy_dec toySink.
Proof. vm_compute. repeat split; reflexivity. Qed.

Example crc32_file_by_theorem :
  exists blocks,
    partition_of (vals_of exHs) blocks /\
    ref_read_auto Some (fun _ => None) crcSink
      = Some (mkOFile (header_entries toyJson SNAPPY_NAME toyUser) exSync (map (oblock_of exSc exRoot) blocks)).
Proof.
  apply (writer_file_ref_read_snappy_crc32 exSc exRoot 1000 exSync false
           ltac:(vm_compute; reflexivity) ltac:(vm_compute; reflexivity) eq_refl
           (fun x => x) Some (fun _ => None) toyJson toyUser [Accept 7] exHs WIntoInner (snd crcRan) (fun x => eq_refl)).
  - exists crcSt0, (fst crcRan). split; [vm_compute; reflexivity|].
    split; [exact (hop_ok_of_values exSc cfg_default exRoot exHs (proj1 (proj2 (proj2 file_written_and_read_back))))|].
    split; [right; left; reflexivity|]. split; [apply surjective_pairing|].
    vm_compute. repeat constructor.
  - vm_compute. discriminate.
  - apply toy_sizes. intros x. unfold snappy_encode. rewrite app_length.
    change (List.length (be32 (spec_crc32 x))) with 4%nat. lia.
Qed.

(** ** what the hypotheses exclude *)

(* [dec_inverts]: with a decompressor that is not the codec's, the blocks are still parsed (layout) but the
   objects are not recovered *)
Example wrong_decoder_refuted :
  ref_read (snappy_decoder Some sum32) toySink = None /\
  option_map file_objects (ref_read null_decoder toySink) <> Some (encs exSc exRoot [v1; v2; v3]).
Proof. split; [vm_compute; reflexivity|vm_compute; discriminate]. Qed.

(* the count of values alone does not determine them (objects_denote / block_objects_unique need the count AND
   conforming values): under a schema of nulls, 2 and 3 values have the same -- empty -- serialization *)
Example count_is_needed :
  encs [FNull] FNull [ANull; ANull] = encs [FNull] FNull [ANull; ANull; ANull].
Proof. reflexivity. Qed.

End LayoutExample.

Print Assumptions ref_parse_one_block_file.
Print Assumptions parsed_metadata.
Print Assumptions writer_file_is_ref_write.
Print Assumptions writer_file_parses.
Print Assumptions writer_file_ref_read.
Print Assumptions block_objects_valid.
Print Assumptions block_objects_unique.
Print Assumptions C06_codec_layout.
Print Assumptions C06_codec_layout_all.
Print Assumptions C06_codec_values.
Print Assumptions snappy_decoder_frame.
Print Assumptions snappy_decoder_checks.
Print Assumptions snappy_decoder_sound_for_model.
Print Assumptions writer_file_ref_read_null.
Print Assumptions writer_file_ref_read_snappy.
Print Assumptions writer_file_ref_read_snappy_crc32.
Print Assumptions LayoutExample.toy_file_parsed.
Print Assumptions LayoutExample.toy_file_by_layout_theorem.
Print Assumptions LayoutExample.snappy_file_parsed.
Print Assumptions LayoutExample.crc32_file_computed.
Print Assumptions LayoutExample.crc32_file_by_theorem.
