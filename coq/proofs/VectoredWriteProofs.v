(** Proofs about the write_all_vectored model (model/VectoredWrite.v):
    advance_slices is "skipn on the concatenation", the sink only ever receives an in-order
    prefix of the data, Ok means complete delivery, the advance never panics, every benign
    schedule (partial writes and interruptions) terminates with Ok, and a zero-byte write or a
    hard error while data remains surfaces as an error. *)
From Coq Require Import NArith List Lia Bool Arith.
Import ListNotations.
Require Import Base VectoredWrite.
Local Open Scope nat_scope.

(* ------------------------------------------------------------------------------------------ *)
(** * Vocabulary *)

Definition benign (a : wans) : Prop :=
  match a with Accept _ | Interrupted => True | _ => False end.

(* the loop invariant of write_all_vectored_inner: bufs is empty or starts with a non-empty slice *)
Definition head_nonempty (bufs : list bytes) : Prop :=
  bufs = [] \/ exists b t, bufs = b :: t /\ b <> [].

(* the schedule that remains after k answers were consumed *)
Fixpoint sched_drop (k : nat) (sched : list wans) : list wans :=
  match k with
  | O => sched
  | S m => sched_drop m (snd (next_ans sched))
  end.

Lemma nil_dec {A} (l : list A) : l = [] \/ l <> [].
Proof. destruct l; [left; reflexivity | right; discriminate]. Qed.

Lemma length_zero_nil {A} (l : list A) : length l = 0 -> l = [].
Proof. destruct l; [reflexivity | discriminate]. Qed.

Lemma nonempty_length {A} (l : list A) : l <> [] -> 1 <= length l.
Proof. destruct l; [congruence | cbn [length]; lia]. Qed.

(* ------------------------------------------------------------------------------------------ *)
(** * IoSlice::advance_slices *)

(* 1 *)
Theorem advance_slices_concat : forall bufs n bufs',
  advance_slices bufs n = Some bufs' -> concat bufs' = skipn n (concat bufs).
Proof.
  induction bufs as [|b t IH]; intros n bufs' H; cbn [advance_slices] in H.
  - destruct (Nat.eqb n 0) eqn:E; [|discriminate].
    inversion H; subst bufs'. cbn [concat]. now rewrite skipn_nil.
  - cbn [concat]. rewrite skipn_app.
    destruct (Nat.leb (length b) n) eqn:E.
    + apply Nat.leb_le in E. apply IH in H. rewrite H.
      assert (skipn n b = []) as -> by (apply skipn_all2; lia). reflexivity.
    + apply Nat.leb_gt in E. inversion H; subst bufs'. cbn [concat].
      replace (n - length b) with 0 by lia. reflexivity.
Qed.

(* 2 *)
Theorem advance_slices_some : forall bufs n,
  (n <= length (concat bufs))%nat -> exists bufs', advance_slices bufs n = Some bufs'.
Proof.
  induction bufs as [|b t IH]; intros n H; cbn [advance_slices].
  - cbn [concat length] in H. assert (n = 0) as -> by lia. exists []. reflexivity.
  - cbn [concat] in H. rewrite app_length in H.
    destruct (Nat.leb (length b) n) eqn:E.
    + apply Nat.leb_le in E. apply IH. lia.
    + eexists. reflexivity.
Qed.

(* the converse of 2: the panic is exactly "n exceeds the total length" *)
Lemma advance_slices_some_le : forall bufs n bufs',
  advance_slices bufs n = Some bufs' -> n <= length (concat bufs).
Proof.
  induction bufs as [|b t IH]; intros n bufs' H; cbn [advance_slices] in H.
  - destruct (Nat.eqb_spec n 0) as [->|]; [cbn; lia | discriminate].
  - cbn [concat]. rewrite app_length.
    destruct (Nat.leb (length b) n) eqn:E.
    + apply Nat.leb_le in E. apply IH in H. lia.
    + apply Nat.leb_gt in E. lia.
Qed.

(* 3 *)
Theorem advance_slices_head_nonempty : forall bufs n bufs',
  (n < length (concat bufs))%nat -> advance_slices bufs n = Some bufs' ->
  exists b t, bufs' = b :: t /\ b <> [].
Proof.
  induction bufs as [|b t IH]; intros n bufs' Hlt H; cbn [advance_slices] in H.
  - cbn [concat length] in Hlt. lia.
  - cbn [concat] in Hlt. rewrite app_length in Hlt.
    destruct (Nat.leb (length b) n) eqn:E.
    + apply Nat.leb_le in E. apply (IH (n - length b)); [lia | assumption].
    + apply Nat.leb_gt in E. inversion H; subst bufs'.
      exists (skipn n b), t. split; [reflexivity|].
      intros Hnil. apply (f_equal (@length _)) in Hnil.
      rewrite skipn_length in Hnil. cbn [length] in Hnil. lia.
Qed.

(* advancing by the whole length (or, vacuously, more) leaves no slice at all *)
Lemma advance_slices_all : forall bufs n bufs',
  length (concat bufs) <= n -> advance_slices bufs n = Some bufs' -> bufs' = [].
Proof.
  induction bufs as [|b t IH]; intros n bufs' Hle H; cbn [advance_slices] in H.
  - destruct (Nat.eqb n 0); [|discriminate]. now inversion H.
  - cbn [concat] in Hle. rewrite app_length in Hle.
    destruct (Nat.leb (length b) n) eqn:E.
    + apply Nat.leb_le in E. apply (IH (n - length b)); [lia | assumption].
    + apply Nat.leb_gt in E. lia.
Qed.

(* 3, the n = 0 versions used by the initial advance_slices(&mut bufs, 0) *)
Theorem advance_slices_0_head_nonempty : forall bufs bufs',
  concat bufs <> [] -> advance_slices bufs 0 = Some bufs' ->
  exists b t, bufs' = b :: t /\ b <> [].
Proof.
  intros bufs bufs' Hne H. apply (advance_slices_head_nonempty bufs 0); [|assumption].
  apply nonempty_length in Hne. lia.
Qed.

Theorem advance_slices_0_nil : forall bufs,
  concat bufs = [] -> advance_slices bufs 0 = Some [].
Proof.
  intros bufs Hnil.
  destruct (advance_slices_some bufs 0) as [bufs' H]; [lia|].
  rewrite H. f_equal. apply (advance_slices_all bufs 0); [|assumption].
  rewrite Hnil. cbn. lia.
Qed.

(* whatever the (non-panicking) advance, its result satisfies the loop invariant: this is the
   strongest form of 3, with no side condition at all *)
Theorem advance_slices_invariant : forall bufs n bufs',
  advance_slices bufs n = Some bufs' -> head_nonempty bufs'.
Proof.
  intros bufs n bufs' H.
  destruct (Nat.lt_ge_cases n (length (concat bufs))) as [Hlt|Hge].
  - right. eapply advance_slices_head_nonempty; eassumption.
  - left. eapply advance_slices_all; eassumption.
Qed.

Lemma advance_slices_length : forall bufs n bufs',
  advance_slices bufs n = Some bufs' -> length (concat bufs') + n = length (concat bufs).
Proof.
  intros bufs n bufs' H.
  pose proof (advance_slices_some_le _ _ _ H) as Hle.
  rewrite (advance_slices_concat _ _ _ H), skipn_length. lia.
Qed.

(* ------------------------------------------------------------------------------------------ *)
(** * What the sink sees: [available] *)

Lemma available_prefix : forall vectored bufs,
  exists rest, concat bufs = available vectored bufs ++ rest.
Proof.
  intros [|] bufs; unfold available.
  - exists []. now rewrite app_nil_r.
  - induction bufs as [|b t IH]; cbn [filter concat].
    + exists []. reflexivity.
    + destruct (Nat.eqb_spec (length b) 0) as [E|E]; cbn [negb].
      * apply length_zero_nil in E. subst b. cbn [app]. exact IH.
      * exists (concat t). reflexivity.
Qed.

Lemma available_nonempty : forall vectored b t, b <> [] -> available vectored (b :: t) <> [].
Proof.
  intros [|] b t Hb; unfold available.
  - cbn [concat]. destruct b; [congruence | discriminate].
  - cbn [filter]. destruct (Nat.eqb_spec (length b) 0) as [E|E]; cbn [negb].
    + apply length_zero_nil in E. congruence.
    + assumption.
Qed.

(* the number of bytes one Accept k transfers *)
Definition taken (vectored : bool) (bufs : list bytes) (k : N) : nat :=
  Nat.min (Nat.max (N.to_nat k) 1) (length (available vectored bufs)).

(* one successful write: the advance cannot panic, and what went to the sink followed by what
   remains is what there was *)
Lemma accept_step : forall vectored bufs k,
  exists bufs',
    advance_slices bufs (taken vectored bufs k) = Some bufs' /\
    firstn (taken vectored bufs k) (available vectored bufs) ++ concat bufs' = concat bufs.
Proof.
  intros v bufs k.
  destruct (available_prefix v bufs) as [rest Hr].
  assert (Hn : taken v bufs k <= length (available v bufs)) by (unfold taken; lia).
  assert (Hle : taken v bufs k <= length (concat bufs))
    by (rewrite Hr, app_length; lia).
  destruct (advance_slices_some bufs _ Hle) as [bufs' Ha].
  exists bufs'. split; [assumption|].
  rewrite (advance_slices_concat _ _ _ Ha).
  assert (firstn (taken v bufs k) (available v bufs) = firstn (taken v bufs k) (concat bufs)) as ->.
  { rewrite Hr, firstn_app.
    replace (taken v bufs k - length (available v bufs)) with 0 by lia.
    cbn [firstn]. now rewrite app_nil_r. }
  apply firstn_skipn.
Qed.

(* under the loop invariant a successful write transfers at least one byte *)
Lemma taken_pos : forall vectored bufs k,
  head_nonempty bufs -> bufs <> [] -> 1 <= taken vectored bufs k.
Proof.
  intros v bufs k [Hnil | (b & t & -> & Hb)] Hne; [congruence|].
  pose proof (nonempty_length _ (available_nonempty v b t Hb)).
  unfold taken, bytes in *. lia.
Qed.

(* ------------------------------------------------------------------------------------------ *)
(** * Unfolding lemmas *)

Lemma wav_loop_nil : forall f vectored sched sink,
  wav_loop (S f) vectored [] sched sink = (WOk, sink, sched).
Proof. reflexivity. Qed.

Lemma wav_loop_step : forall f vectored bufs sched sink,
  bufs <> [] ->
  wav_loop (S f) vectored bufs sched sink =
  match fst (next_ans sched) with
  | Accept k =>
      if Nat.eqb (taken vectored bufs k) 0 then (WErrZero, sink, snd (next_ans sched))
      else match advance_slices bufs (taken vectored bufs k) with
           | None => (WPanic, sink ++ firstn (taken vectored bufs k) (available vectored bufs),
                      snd (next_ans sched))
           | Some bufs' =>
               wav_loop f vectored bufs' (snd (next_ans sched))
                        (sink ++ firstn (taken vectored bufs k) (available vectored bufs))
           end
  | Interrupted => wav_loop f vectored bufs (snd (next_ans sched)) sink
  | Zero => (WErrZero, sink, snd (next_ans sched))
  | Hard => (WErrHard, sink, snd (next_ans sched))
  end.
Proof.
  intros f v bufs sched sink Hne.
  destruct bufs as [|b t]; [congruence|].
  cbn [wav_loop]. destruct (next_ans sched) as [a s]. reflexivity.
Qed.

Lemma sched_prefix_S : forall m sched,
  sched_prefix (S m) sched = fst (next_ans sched) :: sched_prefix m (snd (next_ans sched)).
Proof. intros m sched. cbn [sched_prefix]. destruct (next_ans sched). reflexivity. Qed.

(* ------------------------------------------------------------------------------------------ *)
(** * The loop *)

(* 4 *)
Theorem wav_sink_prefix : forall fuel vectored bufs sched sink r sink' sched',
  wav_loop fuel vectored bufs sched sink = (r, sink', sched') ->
  exists w, sink' = sink ++ w /\ (exists rest, concat bufs = w ++ rest).
Proof.
  induction fuel as [|f IH]; intros v bufs sched sink r sink' sched' H.
  - cbn [wav_loop] in H. inversion H; subst.
    exists []. split; [now rewrite app_nil_r|]. exists (concat bufs). reflexivity.
  - destruct (nil_dec bufs) as [->|Hne].
    + rewrite wav_loop_nil in H. inversion H; subst.
      exists []. split; [now rewrite app_nil_r|]. exists []. reflexivity.
    + rewrite wav_loop_step in H by assumption.
      destruct (fst (next_ans sched)) as [k| | |].
      * destruct (accept_step v bufs k) as (bufs' & Ha & Hc).
        rewrite Ha in H.
        destruct (Nat.eqb (taken v bufs k) 0).
        -- inversion H; subst.
           exists []. split; [now rewrite app_nil_r|]. exists (concat bufs). reflexivity.
        -- apply IH in H. destruct H as (w & Hs & rest & Hr).
           exists (firstn (taken v bufs k) (available v bufs) ++ w). split.
           ++ rewrite Hs. now rewrite app_assoc.
           ++ exists rest. rewrite <- Hc, Hr. now rewrite app_assoc.
      * apply IH in H. exact H.
      * inversion H; subst.
        exists []. split; [now rewrite app_nil_r|]. exists (concat bufs). reflexivity.
      * inversion H; subst.
        exists []. split; [now rewrite app_nil_r|]. exists (concat bufs). reflexivity.
Qed.

(* 5 *)
Theorem wav_ok_complete : forall fuel vectored bufs sched sink sink' sched',
  wav_loop fuel vectored bufs sched sink = (WOk, sink', sched') -> sink' = sink ++ concat bufs.
Proof.
  induction fuel as [|f IH]; intros v bufs sched sink sink' sched' H.
  - cbn [wav_loop] in H. discriminate.
  - destruct (nil_dec bufs) as [->|Hne].
    + rewrite wav_loop_nil in H. inversion H; subst. cbn [concat]. now rewrite app_nil_r.
    + rewrite wav_loop_step in H by assumption.
      destruct (fst (next_ans sched)) as [k| | |]; try discriminate.
      * destruct (accept_step v bufs k) as (bufs' & Ha & Hc).
        rewrite Ha in H.
        destruct (Nat.eqb (taken v bufs k) 0); [discriminate|].
        apply IH in H. rewrite H, <- Hc. now rewrite app_assoc.
      * apply IH in H. exact H.
Qed.

(* 6, in its strongest form: the advance never goes beyond the slices, invariant or not, because
   the sink cannot take more than it was offered *)
Theorem wav_no_panic_unconditional : forall fuel vectored bufs sched sink,
  fst (fst (wav_loop fuel vectored bufs sched sink)) <> WPanic.
Proof.
  induction fuel as [|f IH]; intros v bufs sched sink.
  - cbn. discriminate.
  - destruct (nil_dec bufs) as [->|Hne].
    + rewrite wav_loop_nil. cbn. discriminate.
    + rewrite wav_loop_step by assumption.
      destruct (fst (next_ans sched)) as [k| | |]; try (cbn; discriminate).
      * destruct (accept_step v bufs k) as (bufs' & Ha & _).
        rewrite Ha.
        destruct (Nat.eqb (taken v bufs k) 0); [cbn; discriminate|].
        apply IH.
      * apply IH.
Qed.

(* 6, as stated *)
Theorem wav_no_panic : forall fuel vectored bufs sched sink,
  (bufs = [] \/ exists b t, bufs = b :: t /\ b <> []) ->
  fst (fst (wav_loop fuel vectored bufs sched sink)) <> WPanic.
Proof. intros fuel v bufs sched sink _. apply wav_no_panic_unconditional. Qed.

(* 7 *)
Theorem wav_benign_terminates : forall vectored bufs sched sink n,
  (bufs = [] \/ exists b t, bufs = b :: t /\ b <> []) ->
  Forall benign (sched_prefix n sched) ->
  (length (concat bufs)
   + length (filter (fun a => match a with Interrupted => true | _ => false end)
                    (sched_prefix n sched)) < n)%nat ->
  exists sched', wav_loop n vectored bufs sched sink = (WOk, sink ++ concat bufs, sched').
Proof.
  intros v bufs sched sink n. revert bufs sched sink.
  induction n as [|n IH]; intros bufs sched sink Hinv HF HL.
  - lia.
  - destruct (nil_dec bufs) as [->|Hne].
    + rewrite wav_loop_nil. exists sched. cbn [concat]. now rewrite app_nil_r.
    + rewrite wav_loop_step by assumption.
      rewrite sched_prefix_S in HF, HL.
      apply Forall_cons_iff in HF. destruct HF as [Ha HF].
      destruct (fst (next_ans sched)) as [k| | |]; cbn [benign] in Ha; try contradiction;
        cbn [filter length] in HL.
      * pose proof (taken_pos v bufs k Hinv Hne) as Hpos.
        destruct (accept_step v bufs k) as (bufs' & Hadv & Hc).
        rewrite Hadv.
        destruct (Nat.eqb_spec (taken v bufs k) 0) as [E|_]; [lia|].
        pose proof (advance_slices_length _ _ _ Hadv) as Hlen.
        destruct (IH bufs' (snd (next_ans sched))
                     (sink ++ firstn (taken v bufs k) (available v bufs))) as [sched' Hr].
        -- eapply advance_slices_invariant; eassumption.
        -- assumption.
        -- lia.
        -- exists sched'. rewrite Hr, <- Hc. now rewrite app_assoc.
      * apply IH; [assumption | assumption | lia].
Qed.

(* 8, first half (an alias of 5) *)
Theorem wav_zero_or_hard_surfaces : forall fuel vectored bufs sched sink r sink' sched',
  wav_loop fuel vectored bufs sched sink = (r, sink', sched') -> r = WOk ->
  sink' = sink ++ concat bufs.
Proof.
  intros fuel v bufs sched sink r sink' sched' H ->. eapply wav_ok_complete; eassumption.
Qed.

(* 8, second half, general form: under the loop invariant, if the first k answers are benign, the
   data is not completely in the sink after these k answers, and answer number k (0-based) is
   Zero resp. Hard, then any run with more than k fuel returns WErrZero resp. WErrHard.
   "Not completely in the sink after k answers" is stated through the k-fuel run, whose second
   component is the sink at the moment the fuel runs out (or at the moment of Ok). *)
Lemma wav_first_bad_answer_gen : forall vectored k n bufs sched sink,
  head_nonempty bufs ->
  Forall benign (sched_prefix k sched) ->
  (k < n)%nat ->
  snd (fst (wav_loop k vectored bufs sched sink)) <> sink ++ concat bufs ->
  (nth k (sched_prefix (S k) sched) Interrupted = Zero ->
   fst (fst (wav_loop n vectored bufs sched sink)) = WErrZero) /\
  (nth k (sched_prefix (S k) sched) Interrupted = Hard ->
   fst (fst (wav_loop n vectored bufs sched sink)) = WErrHard).
Proof.
  intros v. induction k as [|k IH]; intros n bufs sched sink Hinv HF Hkn Hrem.
  - destruct n as [|n]; [lia|].
    cbn [wav_loop fst snd] in Hrem.
    assert (Hne : bufs <> []).
    { intros ->. apply Hrem. cbn [concat]. now rewrite app_nil_r. }
    rewrite wav_loop_step by assumption.
    rewrite sched_prefix_S. cbn [nth].
    split; intros ->; reflexivity.
  - destruct n as [|n]; [lia|].
    destruct (nil_dec bufs) as [->|Hne].
    + exfalso. apply Hrem. rewrite wav_loop_nil. cbn [fst snd concat]. now rewrite app_nil_r.
    + rewrite wav_loop_step in Hrem by assumption.
      rewrite wav_loop_step by assumption.
      rewrite (sched_prefix_S (S k)). cbn [nth].
      rewrite sched_prefix_S in HF.
      apply Forall_cons_iff in HF. destruct HF as [Ha HF].
      destruct (fst (next_ans sched)) as [a| | |]; cbn [benign] in Ha; try contradiction.
      * pose proof (taken_pos v bufs a Hinv Hne) as Hpos.
        destruct (accept_step v bufs a) as (bufs' & Hadv & Hc).
        rewrite Hadv in *.
        destruct (Nat.eqb_spec (taken v bufs a) 0) as [E|_]; [lia|].
        apply IH.
        -- eapply advance_slices_invariant; eassumption.
        -- assumption.
        -- lia.
        -- rewrite <- app_assoc, Hc. assumption.
      * apply IH; [assumption | assumption | lia | assumption].
Qed.

(* 8, second half, as stated *)
Theorem wav_first_bad_answer : forall vectored bufs sched sink n k,
  (exists b t, bufs = b :: t /\ b <> []) ->
  Forall benign (sched_prefix k sched) ->
  (nth k (sched_prefix (S k) sched) Interrupted = Zero \/
   nth k (sched_prefix (S k) sched) Interrupted = Hard) ->
  (k < n)%nat ->
  snd (fst (wav_loop k vectored bufs sched sink)) <> sink ++ concat bufs ->
  fst (fst (wav_loop n vectored bufs sched sink)) = WErrZero \/
  fst (fst (wav_loop n vectored bufs sched sink)) = WErrHard.
Proof.
  intros v bufs sched sink n k Hhead HF Hbad Hkn Hrem.
  destruct (wav_first_bad_answer_gen v k n bufs sched sink) as [HZ HH];
    [right; exact Hhead | assumption | assumption | assumption |].
  destruct Hbad as [Hbad|Hbad]; [left; apply HZ | right; apply HH]; assumption.
Qed.

(* 8, the contrapositive view: an Ok run consumed k < fuel answers (the schedule handed back is
   the input schedule minus k answers), and every one of them was benign. No invariant needed. *)
Theorem wav_ok_only_benign : forall fuel vectored bufs sched sink sink' sched',
  wav_loop fuel vectored bufs sched sink = (WOk, sink', sched') ->
  exists k, (k < fuel)%nat /\ sched' = sched_drop k sched /\
            Forall benign (sched_prefix k sched).
Proof.
  induction fuel as [|f IH]; intros v bufs sched sink sink' sched' H.
  - cbn [wav_loop] in H. discriminate.
  - destruct (nil_dec bufs) as [->|Hne].
    + rewrite wav_loop_nil in H. inversion H; subst.
      exists 0. split; [lia|]. split; [reflexivity | constructor].
    + rewrite wav_loop_step in H by assumption.
      destruct (fst (next_ans sched)) as [a| | |] eqn:Ea; try discriminate.
      * destruct (accept_step v bufs a) as (bufs' & Hadv & _).
        rewrite Hadv in H.
        destruct (Nat.eqb (taken v bufs a) 0); [discriminate|].
        apply IH in H. destruct H as (k & Hk & Hs & HF).
        exists (S k). split; [lia|]. split; [exact Hs|].
        rewrite sched_prefix_S, Ea. constructor; [exact I | exact HF].
      * apply IH in H. destruct H as (k & Hk & Hs & HF).
        exists (S k). split; [lia|]. split; [exact Hs|].
        rewrite sched_prefix_S, Ea. constructor; [exact I | exact HF].
Qed.

(* ------------------------------------------------------------------------------------------ *)
(** * The entry point *)

Lemma write_all_vectored_unfold : forall fuel vectored slices sched sink,
  exists bufs,
    advance_slices slices 0 = Some bufs /\ head_nonempty bufs /\ concat bufs = concat slices /\
    write_all_vectored fuel vectored slices sched sink = wav_loop fuel vectored bufs sched sink.
Proof.
  intros fuel v slices sched sink.
  destruct (advance_slices_some slices 0) as [bufs Ha]; [lia|].
  exists bufs. split; [assumption|]. split; [eapply advance_slices_invariant; eassumption|].
  split.
  - rewrite (advance_slices_concat _ _ _ Ha). reflexivity.
  - unfold write_all_vectored. rewrite Ha. reflexivity.
Qed.

(* 9 *)
Theorem write_all_vectored_schedule_independent :
  forall vectored1 vectored2 slices sched1 sched2 sink n1 n2 s1 s2 r1 r2,
  write_all_vectored n1 vectored1 slices sched1 sink = (WOk, s1, r1) ->
  write_all_vectored n2 vectored2 slices sched2 sink = (WOk, s2, r2) ->
  s1 = s2 /\ s1 = sink ++ concat slices.
Proof.
  intros v1 v2 slices sched1 sched2 sink n1 n2 s1 s2 r1 r2 H1 H2.
  destruct (write_all_vectored_unfold n1 v1 slices sched1 sink) as (b1 & _ & _ & Hc1 & E1).
  destruct (write_all_vectored_unfold n2 v2 slices sched2 sink) as (b2 & _ & _ & Hc2 & E2).
  rewrite E1 in H1. rewrite E2 in H2.
  apply wav_ok_complete in H1. apply wav_ok_complete in H2.
  rewrite Hc1 in H1. rewrite Hc2 in H2. subst. split; reflexivity.
Qed.

(* 10 *)
Theorem write_all_vectored_no_panic : forall fuel vectored slices sched sink,
  fst (fst (write_all_vectored fuel vectored slices sched sink)) <> WPanic.
Proof.
  intros fuel v slices sched sink.
  destruct (write_all_vectored_unfold fuel v slices sched sink) as (bufs & _ & _ & _ & E).
  rewrite E. apply wav_no_panic_unconditional.
Qed.

(* 7 lifted to the entry point: every benign schedule delivers everything *)
Corollary write_all_vectored_benign_terminates : forall vectored slices sched sink n,
  Forall benign (sched_prefix n sched) ->
  (length (concat slices)
   + length (filter (fun a => match a with Interrupted => true | _ => false end)
                    (sched_prefix n sched)) < n)%nat ->
  exists sched',
    write_all_vectored n vectored slices sched sink = (WOk, sink ++ concat slices, sched').
Proof.
  intros v slices sched sink n HF HL.
  destruct (write_all_vectored_unfold n v slices sched sink) as (bufs & _ & Hinv & Hc & E).
  rewrite E, <- Hc. apply wav_benign_terminates; [exact Hinv | exact HF | rewrite Hc; exact HL].
Qed.

(* ------------------------------------------------------------------------------------------ *)
(** * Concrete runs *)

Example run_vectored :
  write_all_vectored 10 true [[1; 2]; []; [3; 4; 5]]%N
    [Accept 1; Interrupted; Accept 2; Interrupted; Accept 100] [9]%N
  = (WOk, [9; 1; 2; 3; 4; 5]%N, [Accept 100]).
Proof. vm_compute. reflexivity. Qed.

Example run_not_vectored :
  write_all_vectored 10 false [[1; 2]; []; [3; 4; 5]]%N
    [Accept 1; Interrupted; Accept 2; Interrupted; Accept 100] [9]%N
  = (WOk, [9; 1; 2; 3; 4; 5]%N, [Accept 100]).
Proof. vm_compute. reflexivity. Qed.

Example run_zero_vectored :
  write_all_vectored 10 true [[1; 2]; []; [3; 4; 5]]%N [Accept 1; Zero] []
  = (WErrZero, [1]%N, [Zero]).
Proof. vm_compute. reflexivity. Qed.

Example run_zero_not_vectored :
  write_all_vectored 10 false [[1; 2]; []; [3; 4; 5]]%N [Accept 1; Zero] []
  = (WErrZero, [1]%N, [Zero]).
Proof. vm_compute. reflexivity. Qed.

(* the invariant matters for termination only: a slice list that is non-empty but carries no data
   makes the sink answer with 0 bytes, which is reported as WriteZero. The initial
   advance_slices(&mut bufs, 0) is what rules this out. *)
Example loop_without_initial_advance :
  wav_loop 10 true [[]; []] [Accept 5] [] = (WErrZero, [], [Accept 5]).
Proof. vm_compute. reflexivity. Qed.

Example entry_with_initial_advance :
  write_all_vectored 10 true [[]; []] [] [] = (WOk, [], []).
Proof. vm_compute. reflexivity. Qed.

Print Assumptions advance_slices_concat.
Print Assumptions advance_slices_some.
Print Assumptions advance_slices_head_nonempty.
Print Assumptions advance_slices_0_head_nonempty.
Print Assumptions advance_slices_0_nil.
Print Assumptions advance_slices_invariant.
Print Assumptions wav_sink_prefix.
Print Assumptions wav_ok_complete.
Print Assumptions wav_no_panic.
Print Assumptions wav_no_panic_unconditional.
Print Assumptions wav_benign_terminates.
Print Assumptions wav_zero_or_hard_surfaces.
Print Assumptions wav_first_bad_answer.
Print Assumptions wav_ok_only_benign.
Print Assumptions write_all_vectored_schedule_independent.
Print Assumptions write_all_vectored_no_panic.
Print Assumptions write_all_vectored_benign_terminates.
