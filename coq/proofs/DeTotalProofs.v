(** C04 -- termination of the datum deserializer with an explicit fuel bound, for EVERY target.

    [DeSafetyProofs.de_total_any] bounds the fuel for the dynamically typed targets TAny / TIgnored.
    Here the bound is extended to every [dtarget] (targets are finite trees):

      work_bound_t Sc cfg depth t len
        = (depth + 1) * (max (c_max_seq cfg) (widest record of Sc) + 10 + 2 * theight t) + len

    - [de_total_target]        with that much fuel the result is not OutOfFuel -- every target, every node not
                               wider than the widest record of the schema ([de_total_target_in]: every node of
                               the schema), every flag, every reader state (slice and chunked), under
                               c_max_seq < 2^64 - 1; no hypothesis on the schema (keys may be out of range)
    - [de_total_target_node]   the same for an arbitrary node (its own width enters the bound);
                               [de_total_target_needs_width] shows the width hypothesis is needed
    - [de_total_target_left], [de_total_target_stable]
                               the input left is within the input; same result for any two amounts above the bound
    - [de_datum_total_target]  de_datum: Ok, Err or Unmodelled -- never Panic, never OutOfFuel
    - [de_no_unmodelled]       (ANY fuel) Unmodelled is not returned when the target is [modelled]: no TEnum key
                               in a TMap, only variant shapes as TEnum payloads, and no THint HF64 unless the
                               schema and the node have no decimal; [unmodelled_site_*] show that each of the
                               three exclusions is needed (these are the three Unmodelled sites of the model)
    - [de_total_target_ok_or_err], [de_datum_target_ok_or_err]
                               for those targets: Ok or Err, nothing else
    - [work_bound_t_closed], [work_bound_t_simple], [work_bound_t_mono]
                               the bound in closed form / it is the old bound + 2(depth+1) on TAny and TIgnored /
                               monotone in the target height
    - [de_total_needs_theight] the height of the target has to enter the bound

    Method: [totu L Q m] (no OutOfFuel on inputs of at most L bytes; Unmodelled and Panic tolerated); outer
    induction on the depth budget, inner induction on the target height for the calls of [de] that keep the
    depth (newtype struct, Option over a non-union, visit_enum by type name: each costs at most 2 units of
    fuel and goes to a strictly lower target); every call that descends uses a sub-target or one of TAny /
    TIgnored / THint HIdentifier (height 1), so "height <= H" is an invariant of the whole run. *)
From Coq Require Import NArith ZArith List Lia Bool.
From Coq Require Import ZifyN ZifyBool ZifyNat.
Require Import Base Kinds Schema Varint Utf8 Sval Target Reader Text De.
Require Import AvroValue Encoding Denote Wf VarintProofs DeProofs ReaderProofs DeSafetyProofs.
Import ListNotations.
Open Scope N_scope.
Notation length := List.length (only parsing).

Ltac Zify.zify_post_hook ::= Z.to_euclidean_division_equations.

Arguments N.add : simpl never.
Arguments N.sub : simpl never.
Arguments N.mul : simpl never.
Arguments N.div : simpl never.
Arguments N.modulo : simpl never.
Arguments N.pow : simpl never.
Arguments N.shiftl : simpl never.
Arguments N.shiftr : simpl never.
Arguments N.land : simpl never.
Arguments N.lor : simpl never.
Arguments N.ltb : simpl never.
Arguments N.leb : simpl never.
Arguments N.eqb : simpl never.
Arguments N.of_nat : simpl never.
Arguments N.to_nat : simpl never.
Arguments N.min : simpl never.
Arguments Z.of_nat : simpl never.
Arguments Z.of_N : simpl never.
Arguments Z.to_N : simpl never.
Arguments Z.to_nat : simpl never.
Arguments Z.add : simpl never.
Arguments Z.sub : simpl never.
Arguments Z.mul : simpl never.
Arguments Z.pow : simpl never.
Arguments Z.ltb : simpl never.
Arguments Z.leb : simpl never.
Arguments Z.eqb : simpl never.
Arguments Z.opp : simpl never.
Arguments Z.abs : simpl never.
Arguments Z.modulo : simpl never.

#[local] Opaque de seq_array seq_array_loop seq_duration map_visit map_next_key map_next_value map_loop struct_loop enum_payload.

(* ------------------------------------------------------------------ *)
(** * 1. The measure on targets *)

(** height of the target tree; every target is a finite tree, so this is total *)
Fixpoint theight (t : dtarget) : nat :=
  match t with
  | TNewtypeStruct _ t' | TOption t' | TSeq t' | TVNewtype t' => S (theight t')
  | TTuple ts | TTupleStruct _ ts => S (fold_right (fun x acc => Nat.max (theight x) acc) O ts)
  | TMap tk tv => S (Nat.max (theight tk) (theight tv))
  | TStruct _ fs | TEnum _ fs => S (fold_right (fun p acc => Nat.max (theight (snd p)) acc) O fs)
  | _ => 1%nat
  end.

Lemma theight_pos t : (1 <= theight t)%nat.
Proof. destruct t; cbn [theight]; lia. Qed.

Lemma fmax_in {A} (f : A -> nat) l x : In x l ->
  (f x <= fold_right (fun y acc => Nat.max (f y) acc) O l)%nat.
Proof.
  induction l as [|y l IH]; intro Hin; [contradiction|]. cbn [fold_right].
  destruct Hin as [->|Hin]; [lia|]. specialize (IH Hin). lia.
Qed.

Lemma th_tuple ts x : In x ts -> (S (theight x) <= theight (TTuple ts))%nat.
Proof. intro Hin. cbn [theight]. pose proof (fmax_in theight ts x Hin). lia. Qed.
Lemma th_tuple_struct nm ts x : In x ts -> (S (theight x) <= theight (TTupleStruct nm ts))%nat.
Proof. intro Hin. cbn [theight]. pose proof (fmax_in theight ts x Hin). lia. Qed.
Lemma th_struct nm fs p : In p fs -> (S (theight (snd p)) <= theight (TStruct nm fs))%nat.
Proof. intro Hin. cbn [theight]. pose proof (fmax_in (fun p => theight (snd p)) fs p Hin). cbv beta in *. lia. Qed.
Lemma th_enum nm fs p : In p fs -> (S (theight (snd p)) <= theight (TEnum nm fs))%nat.
Proof. intro Hin. cbn [theight]. pose proof (fmax_in (fun p => theight (snd p)) fs p Hin). cbv beta in *. lia. Qed.

(* ------------------------------------------------------------------ *)
(** * 2. The predicate: no OutOfFuel on inputs of at most L bytes (Unmodelled and Panic are tolerated) *)

Definition totu {A} (L : N) (Q : A -> Prop) (m : RM A) : Prop :=
  forall rs, blen (rd_inp rs) <= L ->
    blen (rd_inp (snd (m rs))) <= L /\
    match fst (m rs) with Ok a => Q a | OutOfFuel => False | _ => True end.

Definition fuel_ok {A} (x : result A) : Prop :=
  match x with Ok _ | OutOfFuel => False | _ => True end.

Lemma totu_bind {A B} L (R : A -> Prop) (Q : B -> Prop) (m : RM A) (k : A -> RM B) :
  totu L R m -> (forall a, R a -> totu L Q (k a)) -> totu L Q (sbind m k).
Proof.
  intros Hm Hk rs Hl. unfold sbind. specialize (Hm rs Hl). destruct (m rs) as [x s'].
  cbn [fst snd] in Hm. destruct Hm as [Hl' Hx].
  destruct x; cbn [fst snd]; try contradiction; auto.
  apply Hk; auto.
Qed.
Lemma totu_ret {A} L (Q : A -> Prop) a : Q a -> totu L Q (sret a).
Proof. intros Hq rs Hl. unfold sret; cbn. auto. Qed.
Lemma totu_fail {A} L (Q : A -> Prop) (x : result A) : fuel_ok x -> totu L Q (rfail x).
Proof. intros Hx rs Hl. unfold rfail; cbn [fst snd]. split; auto. destruct x; cbn in Hx; try contradiction; auto. Qed.
Lemma totu_weaken {A} L (R Q : A -> Prop) m : totu L R m -> (forall a, R a -> Q a) -> totu L Q m.
Proof.
  intros Hm HRQ rs Hl. specialize (Hm rs Hl). destruct Hm as [H1 H2]. split; auto.
  destruct (fst (m rs)); auto.
Qed.
Lemma totu_of_tot {A} L (Q : A -> Prop) m : tot L Q m -> totu L Q m.
Proof.
  intros Hm rs Hl. specialize (Hm rs Hl). destruct Hm as [H1 H2]. split; auto.
  destruct (fst (m rs)); auto.
Qed.
Lemma totu_post {A} L (R1 R2 : A -> Prop) m : totu L R1 m -> post R2 m -> totu L (fun a => R1 a /\ R2 a) m.
Proof.
  intros Hm Hp rs Hl. specialize (Hm rs Hl). specialize (Hp rs). destruct (m rs) as [x s'].
  cbn [fst snd] in *. destruct Hm as [H1 H2]. split; auto. destruct x; auto. split; auto. eapply Hp; reflexivity.
Qed.

(** the primitive readers (from the [tot] lemmas of DeSafetyProofs) *)
Lemma totu_read_varint L t : totu L tt1 (read_varint t).
Proof. apply totu_of_tot, tot_read_varint. Qed.
Lemma totu_read_exact L n : totu L tt1 (read_exact n).
Proof. apply totu_of_tot, tot_read_exact. Qed.
Lemma totu_read_slice L n : totu L tt1 (read_slice n).
Proof. apply totu_of_tot, tot_read_slice. Qed.
Lemma totu_skip_bytes L n : totu L tt1 (skip_bytes n).
Proof. apply totu_of_tot, tot_skip_bytes. Qed.
Lemma totu_take_varint L l : totu L tt1 (take_varint l).
Proof. apply totu_of_tot, tot_take_varint. Qed.
Lemma totu_take_exact L l n : totu L tt1 (take_exact l n).
Proof. apply totu_of_tot, tot_take_exact. Qed.
Lemma totu_read_usize L : totu L tt1 read_usize.
Proof. apply totu_of_tot, tot_read_usize. Qed.
Lemma totu_read_bool L : totu L tt1 read_bool.
Proof. apply totu_of_tot, tot_read_bool. Qed.
Lemma totu_str_event L r : totu L tt1 (str_event r).
Proof. apply totu_of_tot, tot_str_event. Qed.
Lemma totu_read_ld_bytes L : totu L tt1 read_ld_bytes.
Proof. apply totu_of_tot, tot_read_ld_bytes. Qed.
Lemma totu_read_ld_str L : totu L tt1 read_ld_str.
Proof. apply totu_of_tot, tot_read_ld_str. Qed.
Lemma totu_dec_depth L d : totu L (fun d' => d = S d') (dec_depth d).
Proof. apply totu_of_tot, tot_dec_depth. Qed.
Lemma totu_node_at L Sc k : totu L (fun n => In n Sc) (node_at Sc k).
Proof. apply totu_of_tot, tot_node_at. Qed.
Lemma totu_has_more f cfg ignored b L : (N.to_nat L + 1 <= f)%nat -> totu L tt1 (has_more f cfg ignored b).
Proof. intro Hf. apply totu_of_tot, tot_has_more, Hf. Qed.

#[local] Opaque read_varint read_exact read_slice skip_bytes take_varint take_exact read_usize read_bool
  read_ld_bytes read_ld_str has_more read_block_len dec_depth str_event node_at.

Create HintDb totudb.
#[local] Hint Resolve totu_read_varint totu_read_exact totu_read_slice totu_skip_bytes totu_take_varint
  totu_take_exact totu_read_usize totu_read_bool totu_str_event totu_read_ld_bytes totu_read_ld_str : totudb.

Ltac totu_prim :=
  solve [ eauto with totudb | eapply totu_weaken; [ solve [eauto with totudb] | intros; exact I ] ].
Ltac totu_step :=
  lazymatch goal with
  | |- totu _ _ (let _ := _ in _) => cbv zeta
  | |- totu _ _ (sret _) => apply totu_ret; solve [ exact I | auto with totudb ]
  | |- totu _ _ (rfail _) => apply totu_fail; exact I
  | |- totu _ _ (sbind _ _) =>
      eapply totu_bind; [ totu_prim | let a := fresh "a" in let Ha := fresh "Ha" in intros a Ha ]
  | |- totu _ _ (if ?c then _ else _) => destruct c
  | |- totu _ _ (match ?x with _ => _ end) => destruct x
  | |- totu _ _ _ => totu_prim
  end.
Ltac totu_walk := repeat totu_step.

(** decimals, for every hint: the VHF64 arm of [finish_decimal] is Unmodelled, which [totu] tolerates;
    on a non-decimal node [read_decimal] is the PUnreachable site *)
Lemma totu_finish_decimal L u sc h : totu L tt1 (finish_decimal u sc h).
Proof. unfold finish_decimal. cbv zeta. totu_walk. Qed.
#[local] Hint Resolve totu_finish_decimal : totudb.
#[local] Opaque finish_decimal.
Lemma totu_read_decimal L n h : totu L tt1 (read_decimal n h).
Proof. unfold read_decimal. destruct n; totu_walk. Qed.
#[local] Hint Resolve totu_read_decimal : totudb.
#[local] Opaque read_decimal.

(* ------------------------------------------------------------------ *)
(** * 3. One level of the depth budget *)

Lemma find_field_in s : forall fs i j tf, find_field s fs i = Some (j, tf) -> exists nm, In (nm, tf) fs.
Proof.
  induction fs as [|[g t] fs IH]; intros i j tf E; cbn [find_field] in E; [discriminate|].
  destruct (bytes_eqb g s).
  - inversion E; subst. exists g. left. reflexivity.
  - destruct (IH _ _ _ E) as [nm Hin]. exists nm. right. exact Hin.
Qed.

Lemma sl_found_in fs k i nm tf : sl_found fs k = Some (i, nm, tf) -> exists nm', In (nm', tf) fs.
Proof.
  unfold sl_found. intro E.
  assert (G : match dval_bytes k with
              | Some s => match find_field s fs O with Some (i, tf) => Some (i, s, tf) | None => None end
              | None => None
              end = Some (i, nm, tf) -> exists nm', In (nm', tf) fs).
  { destruct (dval_bytes k) as [s|]; [|discriminate].
    destruct (find_field s fs O) as [[j tf']|] eqn:Ef; [|discriminate].
    intro G. inversion G; subst. eapply find_field_in; eauto. }
  destruct k; try (apply G, E).
  destruct signed; try (apply G, E). destruct w; try (apply G, E).
  destruct (nth_error fs (Z.to_nat z)) as [[nm' tf']|] eqn:En; [|discriminate].
  destruct (0 <=? z)%Z; [|discriminate]. inversion E; subst.
  exists nm. eapply nth_error_In; eauto.
Qed.

Section TotalT.
Variable Sc : fschema.
Variable cfg : dcfg.
Variable L : N.
Variable F H : nat.
Hypothesis HM : c_max_seq cfg < U64M.
Hypothesis HF : forall n, In n Sc -> (nfields n <= F)%nat.
Hypothesis HH : (1 <= H)%nat.
Let M := c_max_seq cfg.
Let W := (Nat.max (N.to_nat M) F + 10)%nat.

(** the targets of the current run: height at most H.  Closed under sub-targets, and contains the
    targets the deserializer makes up (TAny, TIgnored, THint HIdentifier), all of height 1 *)
Definition tok (t : dtarget) : Prop := (theight t <= H)%nat.

Lemma tok_any : tok TAny. Proof. exact HH. Qed.
Lemma tok_ignored : tok TIgnored. Proof. exact HH. Qed.
Lemma tok_hint h : tok (THint h). Proof. exact HH. Qed.

Definition pol_ok (pol : seqpolicy) : Prop :=
  match pol with PRepeat t => tok t | PFixed ts => Forall tok ts end.

Lemma tok_tuple ts : tok (TTuple ts) -> Forall tok ts.
Proof. intro Ht. rewrite Forall_forall. intros x Hx. pose proof (th_tuple ts x Hx). unfold tok in *. lia. Qed.
Lemma tok_tuple_struct nm ts : tok (TTupleStruct nm ts) -> Forall tok ts.
Proof. intro Ht. rewrite Forall_forall. intros x Hx. pose proof (th_tuple_struct nm ts x Hx). unfold tok in *. lia. Qed.
Lemma tok_struct nm fs : tok (TStruct nm fs) -> Forall (fun p => tok (snd p)) fs.
Proof. intro Ht. rewrite Forall_forall. intros x Hx. pose proof (th_struct nm fs x Hx). unfold tok in *. lia. Qed.
Lemma tok_enum nm fs : tok (TEnum nm fs) -> Forall (fun p => tok (snd p)) fs.
Proof. intro Ht. rewrite Forall_forall. intros x Hx. pose proof (th_enum nm fs x Hx). unfold tok in *. lia. Qed.

Lemma seq_policy_ok t : tok t -> pol_ok (fst (seq_policy t)).
Proof.
  intro Ht. destruct t; cbn [seq_policy fst pol_ok]; try apply tok_any; try apply tok_ignored.
  - unfold tok in *. cbn [theight] in Ht. lia.
  - apply tok_tuple, Ht.
  - eapply tok_tuple_struct, Ht.
  - apply tok_struct in Ht. rewrite Forall_forall in *. intros x Hx.
    apply in_map_iff in Hx. destruct Hx as (p & <- & Hp). apply Ht, Hp.
Qed.

Definition mpol_ok (mp : mappolicy) : Prop :=
  match mp with MPGeneric _ tv _ => tok tv | MPStruct fs => Forall (fun p => tok (snd p)) fs end.

Lemma map_policy_ok t : tok t -> mpol_ok (map_policy t).
Proof.
  intro Ht. destruct t; cbn [map_policy mpol_ok]; try apply tok_any; try apply tok_ignored.
  - unfold tok in *. cbn [theight] in Ht. lia.
  - eapply tok_struct, Ht.
Qed.

(** the level: [d] is the depth budget of the calls being bounded, [B] the fuel that suffices one
    level further down (for every target of height <= H) *)
Variable d : nat.
Variable B : nat.

Hypothesis IHde : forall dd f n favor force t, d = S dd -> tok t -> (nfields n <= F)%nat ->
  (B + N.to_nat L <= f)%nat -> totu L tt1 (de Sc cfg f n dd favor force t).

(** arrays: at most [M - delivered b] further elements are handed out, whatever the policy *)
Lemma sl_fin_t : forall fuel dd items ign pol b acc, d = S dd -> pol_ok pol -> binv M b ->
  (N.to_nat (M - delivered b) + 2 + B + N.to_nat L <= fuel)%nat ->
  totu L tt1 (seq_array_loop Sc cfg fuel items dd ign pol b acc).
Proof.
  induction fuel as [|f IH]; intros dd items ign pol b acc Hd Hp Hb Hf; [lia|].
  rewrite seq_array_loop_unfold. destruct pol as [t1|[|t1 ts]].
  - eapply totu_bind; [apply totu_post; [apply (totu_has_more f cfg ign b L); lia|apply post_has_more; assumption]|].
    intros [more b1] [_ [Hb1 Hd1]]. cbn [fst snd] in *. destruct more; [|apply totu_ret; exact I].
    eapply totu_bind; [apply totu_node_at|]. intros n' Hin.
    eapply totu_bind; [apply IHde; auto; lia|]. intros dv _.
    apply IH; auto. destruct Hb1, Hb. unfold delivered, M in *. lia.
  - apply totu_ret; exact I.
  - eapply totu_bind; [apply totu_post; [apply (totu_has_more f cfg ign b L); lia|apply post_has_more; assumption]|].
    intros [more b1] [_ [Hb1 Hd1]]. cbn [fst snd] in *. destruct more; [|apply totu_fail; exact I].
    cbn [pol_ok] in Hp. inversion Hp as [|x l Ht1 Hts]; subst.
    eapply totu_bind; [apply totu_node_at|]. intros n' Hin.
    eapply totu_bind; [apply IHde; auto; lia|]. intros dv _.
    apply IH; auto. destruct Hb1, Hb. unfold delivered, M in *. lia.
Qed.

Lemma sa_fin_t : forall fuel dd items ign t ee, d = S dd -> tok t ->
  (N.to_nat M + 3 + B + N.to_nat L <= fuel)%nat ->
  totu L tt1 (seq_array Sc cfg fuel items dd ign t blk0 ee).
Proof.
  intros [|f] dd items ign t ee Hd Ht Hf; [lia|]. rewrite seq_array_unfold.
  pose proof (seq_policy_ok t Ht) as Hp. destruct (seq_policy t) as [pol sh]. cbn [fst] in Hp.
  eapply totu_bind.
  { apply (sl_fin_t f dd items ign pol blk0 []); auto; [apply binv_blk0|].
    unfold delivered, blk0; cbn [b_cur b_nread]. lia. }
  intros [ds b'] _. destruct (ee && negb (b_finished b')); [|apply totu_ret; exact I].
  eapply totu_bind; [apply (totu_has_more f cfg ign b' L); lia|]. intros hm _.
  destruct (fst hm); [apply totu_fail; exact I|apply totu_ret; exact I].
Qed.

Lemma sd_fin_t : forall fuel vals t, (1 <= fuel)%nat -> totu L tt1 (seq_duration Sc cfg fuel vals t).
Proof.
  intros [|f] vals t Hf; [lia|]. rewrite seq_duration_unfold. destruct (seq_policy t) as [pol sh].
  destruct pol as [t1|ts]; [apply totu_ret; exact I|].
  destruct (Nat.ltb _ _); [apply totu_fail; exact I|apply totu_ret; exact I].
Qed.

(** map sources *)
Definition src_ok_t (src : mapsrc) : Prop :=
  match src with
  | MSMap _ dd _ b => d = S dd /\ binv M b
  | MSRecord fs dd => d = S dd /\ (length fs <= F)%nat
  | MSDuration _ _ => True
  end.
Definition room_t (src : mapsrc) : nat :=
  match src with
  | MSMap _ _ _ b => N.to_nat (M - delivered b)
  | MSRecord fs _ => length fs
  | MSDuration vals _ => length vals
  end.

(** [map_next_key]: any key target (a TEnum key over a record is the Unmodelled site) *)
Lemma nk_fin_t : forall fuel src tk, src_ok_t src -> (N.to_nat L + 2 <= fuel)%nat ->
  totu L (fun o => match o with
                   | None => True
                   | Some (_, src1) => src_ok_t src1 /\ src_ready src1 /\ is_map src1 = is_map src /\
                                       (room_t src1 + (if is_map src then 1 else 0) <= room_t src)%nat
                   end) (map_next_key Sc cfg fuel src tk).
Proof.
  intros [|f] src tk Hs Hf; [lia|]. rewrite map_next_key_unfold.
  destruct src as [values dd ign b|fields dd|vals idx].
  - destruct Hs as [Hd Hb].
    eapply totu_bind; [apply totu_post; [apply (totu_has_more f cfg ign b L); lia|apply post_has_more; assumption]|].
    intros [more b1] [_ [Hb1 Hd1]]. cbn [fst snd] in *. destruct more; [|apply totu_ret; exact I].
    assert (Hk : totu L tt1 (match tk with
                             | TIgnored => do* _ <- read_ld_bytes; sret DIgnored
                             | _ => read_ld_str
                             end)) by (destruct tk; totu_walk).
    eapply totu_bind; [exact Hk|]. intros k _. apply totu_ret. cbn [src_ok_t src_ready is_map room_t].
    split; [split; assumption|]. split; [exact I|]. split; [reflexivity|].
    destruct Hb1, Hb. unfold delivered, M in *. lia.
  - destruct fields as [|[nm k] rest]; [apply totu_ret; exact I|].
    destruct tk; try (apply totu_fail; exact I);
      apply totu_ret; cbn [src_ok_t src_ready is_map room_t]; repeat split; try apply Hs; auto; lia.
  - destruct vals as [|v rest]; [apply totu_ret; exact I|]. cbv zeta.
    apply totu_ret; cbn [src_ok_t src_ready is_map room_t]; repeat split; auto; lia.
Qed.

Lemma nv_fin_t : forall fuel src tv, tok tv -> src_ok_t src -> src_ready src ->
  (1 + B + N.to_nat L <= fuel)%nat ->
  totu L (fun r => src_ok_t (snd r) /\ is_map (snd r) = is_map src /\
                   (room_t (snd r) + (if is_map src then 0 else 1) <= room_t src)%nat)
       (map_next_value Sc cfg fuel src tv).
Proof.
  intros [|f] src tv Htv Hs Hr Hf; [lia|]. rewrite map_next_value_unfold.
  destruct src as [values dd ign b|fields dd|vals idx].
  - destruct Hs as [Hd Hb].
    eapply totu_bind; [apply totu_node_at|]. intros n' Hin.
    eapply totu_bind; [apply IHde; auto; lia|]. intros dv _.
    apply totu_ret. cbn [fst snd src_ok_t is_map room_t]. split; [split; assumption|]. split; [reflexivity|lia].
  - destruct fields as [|[nm k] rest]; [contradiction|]. destruct Hs as [Hd Hl]. cbn [length] in Hl.
    eapply totu_bind; [apply totu_node_at|]. intros n' Hin.
    eapply totu_bind; [apply IHde; auto; lia|]. intros dv _.
    apply totu_ret. cbn [fst snd src_ok_t is_map room_t length]. repeat split; auto; lia.
  - destruct vals as [|v rest]; [contradiction|].
    apply totu_ret. cbn [fst snd src_ok_t is_map room_t length]. repeat split; auto; lia.
Qed.

Lemma ml_fin_t : forall fuel src tk tv acc, tok tv -> src_ok_t src ->
  (room_t src + 3 + B + N.to_nat L <= fuel)%nat ->
  totu L tt1 (map_loop Sc cfg fuel src tk tv acc).
Proof.
  induction fuel as [|f IH]; intros src tk tv acc Htv Hs Hf; [lia|].
  rewrite map_loop_unfold.
  eapply totu_bind; [apply nk_fin_t; auto; lia|]. intros [[k src1]|] Hk; [|apply totu_ret; exact I].
  destruct Hk as (Hs1 & Hr1 & Hm1 & Hroom1).
  eapply totu_bind; [apply nv_fin_t; auto; lia|]. intros [v src2] (Hs2 & Hm2 & Hroom2). cbn [fst snd] in *.
  apply IH; auto. rewrite Hm1 in Hroom2. destruct (is_map src); lia.
Qed.

(** the struct visitor: known fields use their own target, unknown ones IgnoredAny *)
Lemma st_fin_t : forall fuel src fs seen acc, Forall (fun p => tok (snd p)) fs -> src_ok_t src ->
  (room_t src + 3 + B + N.to_nat L <= fuel)%nat ->
  totu L tt1 (struct_loop Sc cfg fuel src fs seen acc).
Proof.
  induction fuel as [|f IH]; intros src fs seen acc Hfs Hs Hf; [lia|].
  rewrite struct_loop_unfold.
  eapply totu_bind; [apply nk_fin_t; auto; lia|]. intros [[k src1]|] Hk; [|apply totu_ret; exact I].
  destruct Hk as (Hs1 & Hr1 & Hm1 & Hroom1).
  destruct (sl_found fs k) as [[[i nm] tf]|] eqn:Efound.
  - destruct (nth i seen false); [apply totu_fail; exact I|].
    assert (Htf : tok tf).
    { destruct (sl_found_in _ _ _ _ _ Efound) as [nm' Hin]. rewrite Forall_forall in Hfs. apply (Hfs _ Hin). }
    eapply totu_bind; [apply nv_fin_t; auto; lia|]. intros [v src2] (Hs2 & Hm2 & Hroom2). cbn [fst snd] in *.
    apply IH; auto. rewrite Hm1 in Hroom2. destruct (is_map src); lia.
  - eapply totu_bind; [apply nv_fin_t; auto; lia|].
    intros [v src2] (Hs2 & Hm2 & Hroom2). cbn [fst snd] in *.
    apply IH; auto. rewrite Hm1 in Hroom2. destruct (is_map src); lia.
Qed.

Lemma mv_fin_t : forall fuel src t, tok t -> src_ok_t src ->
  (room_t src + 4 + B + N.to_nat L <= fuel)%nat ->
  totu L tt1 (map_visit Sc cfg fuel src t).
Proof.
  intros [|f] src t Ht Hs Hf; [lia|]. rewrite map_visit_unfold.
  pose proof (map_policy_ok t Ht) as Hp. destruct (map_policy t) as [tk tv ign|fs]; cbn [mpol_ok] in Hp.
  - eapply totu_bind; [apply ml_fin_t; auto; lia|]. intros kvs _. apply totu_ret; exact I.
  - eapply totu_bind; [apply st_fin_t; auto; lia|]. intros r _. apply totu_ret; exact I.
Qed.

(** visit_enum: the payload targets are strictly below the enum; [depth] is arbitrary here, the
    recursive calls are abstracted *)
Definition hmax (variants : list (bytes * dtarget)) : nat :=
  fold_right (fun p acc => Nat.max (theight (snd p)) acc) O variants.

Lemma ep_fin_gen : forall f variants vname vn depth,
  (forall t', (theight t' <= hmax variants)%nat -> totu L tt1 (de Sc cfg f vn depth false false t')) ->
  totu L tt1 (enum_payload Sc cfg (S f) variants vname vn depth).
Proof.
  intros f variants vname vn depth Hsub. rewrite enum_payload_unfold.
  destruct (index_of vname (map fst variants)) as [i|]; [|apply totu_fail; exact I].
  destruct (nth_error variants i) as [[nm payload]|] eqn:En; [|apply totu_fail; exact I].
  apply nth_error_In in En.
  pose proof (fmax_in (fun p : bytes * dtarget => theight (snd p)) variants _ En) as Hle.
  cbv beta in Hle. cbn [snd] in Hle. fold (hmax variants) in Hle.
  destruct payload; try (apply totu_fail; exact I).
  - eapply totu_bind; [apply Hsub, Hle|]. intros dv _. unfold ep_seq.
    destruct dv; try (apply totu_fail; exact I). apply totu_ret; exact I.
  - eapply totu_bind; [apply Hsub, Hle|]. intros dv _. unfold ep_struct.
    destruct dv; try (apply totu_fail; exact I). apply totu_ret; exact I.
  - eapply totu_bind; [apply Hsub; cbn [theight] in *; lia|]. intros _ _. apply totu_ret; exact I.
  - eapply totu_bind; [apply Hsub; cbn [theight] in *; lia|]. intros dv _. apply totu_ret; exact I.
Qed.

Lemma W_ge_t : (N.to_nat M + 10 <= W)%nat /\ (F + 10 <= W)%nat.
Proof. unfold W. lia. Qed.

Lemma ep_fin_dd : forall fuel dd nm variants vname vn, d = S dd -> tok (TEnum nm variants) ->
  (nfields vn <= F)%nat -> (1 + B + N.to_nat L <= fuel)%nat ->
  totu L tt1 (enum_payload Sc cfg fuel variants vname vn dd).
Proof.
  intros [|f] dd nm variants vname vn Hd Ht Hn Hf; [lia|].
  apply ep_fin_gen. intros t' Ht'. apply IHde; auto; [|lia].
  unfold tok in *. cbn [theight] in Ht. fold (hmax variants) in Ht. lia.
Qed.

(** deserialize_any at depth [d], for every target of the run *)
Lemma any_fin_t : forall f n t, tok t -> (nfields n <= F)%nat -> (W + B + N.to_nat L <= S f)%nat ->
  totu L tt1 (de_any Sc cfg f n d t).
Proof.
  intros f n t Ht Hn Hf. pose proof W_ge_t as [HW1 HW2]. unfold de_any. destruct n; try solve [totu_walk].
  - (* array *)
    eapply totu_bind; [apply totu_dec_depth|]. intros dd Hd. apply sa_fin_t; auto. lia.
  - (* map *)
    eapply totu_bind; [apply totu_dec_depth|]. intros dd Hd. apply mv_fin_t; auto.
    + split; [exact Hd|apply binv_blk0].
    + cbn [room_t]. unfold delivered, blk0; cbn [b_cur b_nread]. lia.
  - (* union *)
    eapply totu_bind; [apply totu_read_usize|]. intros disc _.
    destruct (nth_N variants disc); [|apply totu_fail; exact I].
    eapply totu_bind; [apply totu_dec_depth|]. intros dd Hd.
    eapply totu_bind; [apply totu_node_at|]. intros n' Hin.
    apply IHde; auto. lia.
  - (* record *)
    cbn [nfields] in Hn.
    eapply totu_bind; [apply totu_dec_depth|]. intros dd Hd. apply mv_fin_t; auto.
    + split; [exact Hd|exact Hn].
    + cbn [room_t]. lia.
  - (* duration *)
    eapply totu_bind; [apply totu_read_exact|]. intros bs _. apply mv_fin_t; auto.
    + exact I.
    + cbn [room_t length]. lia.
Qed.

Lemma duration_seq_fin_t : forall f t, (1 <= f)%nat -> totu L tt1 (de_duration_seq Sc cfg f t).
Proof.
  intros f t Hf. unfold de_duration_seq. eapply totu_bind; [apply totu_read_exact|]. intros bs _.
  apply sd_fin_t, Hf.
Qed.

Lemma decimal_hint_fin_t : forall f n t h, tok t -> (nfields n <= F)%nat -> (W + B + N.to_nat L <= S f)%nat ->
  totu L tt1 (de_decimal_hint Sc cfg f n d t h).
Proof.
  intros f n t h Ht Hn Hf. unfold de_decimal_hint.
  destruct n; try (apply any_fin_t; assumption); totu_walk.
Qed.

Lemma identifier_fin_t : forall f n t, tok t -> (nfields n <= F)%nat -> (W + B + N.to_nat L <= S f)%nat ->
  totu L tt1 (de_identifier Sc cfg f n d t).
Proof.
  intros f n t Ht Hn Hf. unfold de_identifier.
  destruct n; try (apply any_fin_t; assumption); totu_walk.
Qed.

#[local] Opaque de_any de_duration_seq de_decimal_hint de_identifier.

Lemma enum_by_key_fin variants key : totu L tt1 (de_enum_by_key variants key).
Proof.
  unfold de_enum_by_key. destruct (enum_idx variants key); [|apply totu_fail; exact I].
  destruct (nth_error variants n) as [[vname p]|]; [|apply totu_fail; exact I].
  destruct p; try (apply totu_fail; exact I). apply totu_ret; exact I.
Qed.

(** [de] at depth [d]: the calls that keep the depth (newtype struct, Option over a non-union,
    visit_enum with the type name) go to a strictly lower target and cost at most two units of fuel *)
Lemma de_fin_k : forall k fuel n favor force t, (theight t <= k)%nat -> (k <= H)%nat -> (nfields n <= F)%nat ->
  (W + 2 * k + B + N.to_nat L <= fuel)%nat -> totu L tt1 (de Sc cfg fuel n d favor force t).
Proof.
  induction k as [|k IH]; intros fuel n favor force t Hk HkH Hn Hf; [pose proof (theight_pos t); lia|].
  destruct fuel as [|f]; [pose proof W_ge_t; lia|].
  assert (Ht : tok t) by (unfold tok; lia).
  pose proof W_ge_t as [HW1 HW2].
  assert (Hany : totu L tt1 (de_any Sc cfg f n d t)) by (apply any_fin_t; auto; lia).
  assert (Hdec : forall h, totu L tt1 (de_decimal_hint Sc cfg f n d t h))
    by (intro h; apply decimal_hint_fin_t; auto; lia).
  assert (Hid : totu L tt1 (de_identifier Sc cfg f n d t)) by (apply identifier_fin_t; auto; lia).
  assert (Hds : totu L tt1 (de_duration_seq Sc cfg f t)) by (apply duration_seq_fin_t; lia).
  assert (Harr : forall items ign ee, totu L tt1 (do* d' <- dec_depth d; seq_array Sc cfg f items d' ign t blk0 ee)).
  { intros items ign ee. eapply totu_bind; [apply totu_dec_depth|]. intros dd Hd. apply sa_fin_t; auto. lia. }
  rewrite de_unfold. destruct force; [exact Hany|].
  destruct t as [ | |h|nm|nm t'|t'|t'|ts|nm ts|tk tv|nm fs|nm variants| |t']; try exact Hany.
  - (* TIgnored *)
    destruct n; try exact Hany; try apply Harr; try solve [totu_walk].
    eapply totu_bind; [apply totu_dec_depth|]. intros dd Hd. apply mv_fin_t; auto.
    + split; [exact Hd|apply binv_blk0].
    + cbn [room_t]. unfold delivered, blk0; cbn [b_cur b_nread]. lia.
  - (* THint *)
    destruct h; try exact Hany; try apply Hdec; try exact Hid;
      (destruct n; try exact Hany; try apply Hdec; totu_walk).
  - (* TNewtypeStruct *)
    cbn [theight] in Hk.
    eapply totu_bind; [apply (IH f n favor false t'); auto; lia|]. intros dv _. apply totu_ret; exact I.
  - (* TOption *)
    cbn [theight] in Hk.
    assert (Hsame : totu L tt1 (do* dv <- de Sc cfg f n d favor false t'; sret (DSome dv))).
    { eapply totu_bind; [apply (IH f n favor false t'); auto; lia|]. intros dv _. apply totu_ret; exact I. }
    destruct n; try exact Hsame; [apply totu_ret; exact I|].
    eapply totu_bind; [apply totu_read_usize|]. intros disc _.
    destruct (nth_N variants disc); [|apply totu_fail; exact I].
    eapply totu_bind; [apply totu_node_at|]. intros vn Hin.
    assert (Hdesc : forall fv, totu L tt1 (do* d' <- dec_depth d; do* dv <- de Sc cfg f vn d' fv false t'; sret (DSome dv))).
    { intro fv. eapply totu_bind; [apply totu_dec_depth|]. intros dd Hd.
      eapply totu_bind; [apply IHde; auto; [unfold tok; lia|lia]|]. intros dv _. apply totu_ret; exact I. }
    destruct vn; cbv zeta; try apply Hdesc. apply totu_ret; exact I.
  - (* TSeq *)
    destruct n; try exact Hany; try apply Harr; exact Hds.
  - (* TTuple *)
    destruct n; try exact Hany; try apply Harr. destruct (Nat.eqb _ _); [exact Hds|exact Hany].
  - (* TTupleStruct *)
    destruct n; try exact Hany; try apply Harr. destruct (Nat.eqb _ _); [exact Hds|exact Hany].
  - (* TEnum *)
    assert (Hhm : (hmax variants <= k)%nat) by (cbn [theight] in Hk; fold (hmax variants) in Hk; lia).
    destruct favor.
    { destruct f as [|f']; [lia|]. apply ep_fin_gen. intros t' Ht'. apply IH; auto; lia. }
    assert (Hpay : forall vn, (nfields vn <= F)%nat ->
              totu L tt1 (do* d' <- dec_depth d; enum_payload Sc cfg f variants (type_name vn) vn d')).
    { intros vn Hvn. eapply totu_bind; [apply totu_dec_depth|]. intros dd Hd.
      apply (ep_fin_dd f dd nm); auto. lia. }
    assert (Hkey : totu L tt1 (do* d' <- dec_depth d; do* key <- de Sc cfg f n d' false false (THint HIdentifier);
                               de_enum_by_key variants key)).
    { eapply totu_bind; [apply totu_dec_depth|]. intros dd Hd.
      eapply totu_bind; [apply IHde; auto; lia|]. intros key _. apply enum_by_key_fin. }
    destruct n; try exact Hkey; try (apply Hpay; exact Hn).
    eapply totu_bind; [apply totu_read_usize|]. intros disc _.
    destruct (nth_N variants0 disc); [|apply totu_fail; exact I].
    eapply totu_bind; [apply totu_dec_depth|]. intros dd Hd.
    eapply totu_bind; [apply totu_node_at|]. intros vn Hin.
    apply (ep_fin_dd f dd nm); auto. lia.
Qed.

End TotalT.

(* ------------------------------------------------------------------ *)
(** * 4. All levels: induction on the depth budget *)

(** width of one level: the iterations of one array / map / record loop plus the constant overhead
    (as in [loop_width]), plus two units of fuel per level of the target tree *)
Definition level_width (F : nat) (cfg : dcfg) (H : nat) : nat :=
  (Nat.max (N.to_nat (c_max_seq cfg)) F + 10 + 2 * H)%nat.

Lemma de_fin_t Sc cfg L F H : c_max_seq cfg < U64M ->
  (forall n, In n Sc -> (nfields n <= F)%nat) ->
  forall d fuel n favor force t, (theight t <= H)%nat -> (nfields n <= F)%nat ->
  (depth_work (level_width F cfg H) d + N.to_nat L <= fuel)%nat ->
  totu L tt1 (de Sc cfg fuel n d favor force t).
Proof.
  intros HM HF. induction d as [|d IH]; intros fuel n favor force t Ht Hn Hf.
  - assert (HH : (1 <= H)%nat) by (pose proof (theight_pos t); lia).
    apply (de_fin_k Sc cfg L F H HM HF HH 0%nat 0%nat) with (k := theight t); auto.
    + intros dd f0 n0 fv fc t0 Hd; discriminate Hd.
    + cbn [depth_work] in Hf. unfold level_width in Hf. lia.
  - assert (HH : (1 <= H)%nat) by (pose proof (theight_pos t); lia).
    apply (de_fin_k Sc cfg L F H HM HF HH (S d) (depth_work (level_width F cfg H) d)) with (k := theight t); auto.
    + intros dd f0 n0 fv fc t0 Hd Ht0 Hn0 Hf0. injection Hd as <-. apply IH; auto.
    + cbn [depth_work] in Hf. unfold level_width in *. lia.
Qed.

(** the explicit bound: a function of the schema (its widest record), the two limits, the height of
    the target and the input length -- NOT of any number written in the input *)
Definition work_bound_t (Sc : fschema) (cfg : dcfg) (depth : nat) (t : dtarget) (len : N) : nat :=
  (depth_work (level_width (max_fields Sc) cfg (theight t)) depth + N.to_nat len)%nat.

Lemma work_bound_t_closed Sc cfg depth t len :
  work_bound_t Sc cfg depth t len =
  (S depth * (Nat.max (N.to_nat (c_max_seq cfg)) (max_fields Sc) + 10 + 2 * theight t) + N.to_nat len)%nat.
Proof. unfold work_bound_t, level_width. rewrite depth_work_closed. reflexivity. Qed.

(** on the dynamically typed targets it is the bound of [de_total_any] plus 2 per level *)
Lemma work_bound_t_simple Sc cfg depth t len : t = TAny \/ t = TIgnored ->
  work_bound_t Sc cfg depth t len = (work_bound Sc cfg depth len + 2 * S depth)%nat.
Proof.
  intro Ht. rewrite work_bound_t_closed, work_bound_closed.
  destruct Ht as [-> | ->]; cbn [theight]; lia.
Qed.

(** the bound is monotone in the target height, so one bound serves a whole family of targets *)
Lemma work_bound_t_mono Sc cfg depth t t' len : (theight t <= theight t')%nat ->
  (work_bound_t Sc cfg depth t len <= work_bound_t Sc cfg depth t' len)%nat.
Proof. intro Hle. rewrite !work_bound_t_closed. nia. Qed.

(** Main theorem.  For EVERY target (targets are finite trees: no side condition), every node of the
    schema (more generally: every node not wider than the widest record of the schema), every flag and
    every reader state -- slice or chunked --: with [work_bound_t] fuel the deserializer does not run
    out of fuel.  By [de_fuel_mono] the outcome is then the same for every larger amount of fuel. *)
Theorem de_total_target : forall Sc cfg fuel n depth favor force t rs,
  c_max_seq cfg < 2 ^ 64 - 1 ->
  (nfields n <= max_fields Sc)%nat ->
  (work_bound_t Sc cfg depth t (blen (rd_inp rs)) <= fuel)%nat ->
  fst (de Sc cfg fuel n depth favor force t rs) <> OutOfFuel.
Proof.
  intros Sc cfg fuel n depth favor force t rs HM Hn Hf.
  destruct (de_fin_t Sc cfg (blen (rd_inp rs)) (max_fields Sc) (theight t) HM (max_fields_in Sc)
              depth fuel n favor force t (le_n _) Hn Hf rs) as [_ Hr]; [lia|].
  intro E. rewrite E in Hr. exact Hr.
Qed.

Corollary de_total_target_in : forall Sc cfg fuel n depth favor force t rs,
  c_max_seq cfg < 2 ^ 64 - 1 -> In n Sc ->
  (work_bound_t Sc cfg depth t (blen (rd_inp rs)) <= fuel)%nat ->
  fst (de Sc cfg fuel n depth favor force t rs) <> OutOfFuel.
Proof. intros. apply de_total_target; auto. apply max_fields_in; assumption. Qed.

(** a node that is not in the schema: its own number of fields enters the bound *)
Theorem de_total_target_node : forall Sc cfg fuel n depth favor force t rs,
  c_max_seq cfg < 2 ^ 64 - 1 ->
  (depth_work (level_width (Nat.max (nfields n) (max_fields Sc)) cfg (theight t)) depth
     + N.to_nat (blen (rd_inp rs)) <= fuel)%nat ->
  fst (de Sc cfg fuel n depth favor force t rs) <> OutOfFuel.
Proof.
  intros Sc cfg fuel n depth favor force t rs HM Hf.
  assert (HF : forall n0, In n0 Sc -> (nfields n0 <= Nat.max (nfields n) (max_fields Sc))%nat)
    by (intros n0 Hin; pose proof (max_fields_in Sc n0 Hin); lia).
  destruct (de_fin_t Sc cfg (blen (rd_inp rs)) _ (theight t) HM HF
              depth fuel n favor force t (le_n _) (Nat.le_max_l _ _) Hf rs) as [_ Hr]; [lia|].
  intro E. rewrite E in Hr. exact Hr.
Qed.

(** with enough fuel the input left over is still inside the input: the bound also serves a second call *)
Corollary de_total_target_left : forall Sc cfg fuel n depth favor force t rs,
  c_max_seq cfg < 2 ^ 64 - 1 -> (nfields n <= max_fields Sc)%nat ->
  (work_bound_t Sc cfg depth t (blen (rd_inp rs)) <= fuel)%nat ->
  blen (rd_inp (snd (de Sc cfg fuel n depth favor force t rs))) <= blen (rd_inp rs).
Proof.
  intros Sc cfg fuel n depth favor force t rs HM Hn Hf.
  destruct (de_fin_t Sc cfg (blen (rd_inp rs)) (max_fields Sc) (theight t) HM (max_fields_in Sc)
              depth fuel n favor force t (le_n _) Hn Hf rs) as [Hl _]; [lia|exact Hl].
Qed.

(** every outcome other than OutOfFuel is stable: the same result and reader state for any two
    amounts of fuel above the bound *)
Corollary de_total_target_stable : forall Sc cfg f1 f2 n depth favor force t rs,
  c_max_seq cfg < 2 ^ 64 - 1 -> (nfields n <= max_fields Sc)%nat ->
  (work_bound_t Sc cfg depth t (blen (rd_inp rs)) <= f1)%nat ->
  (work_bound_t Sc cfg depth t (blen (rd_inp rs)) <= f2)%nat ->
  de Sc cfg f1 n depth favor force t rs = de Sc cfg f2 n depth favor force t rs.
Proof. intros. apply de_fuel_agree; apply de_total_target; assumption. Qed.

(** the entry point: Ok, Err or Unmodelled -- never Panic, never OutOfFuel *)
Theorem de_datum_total_target : forall Sc cfg fuel t rs,
  schema_wf Sc = true -> c_max_seq cfg < 2 ^ 64 - 1 ->
  (work_bound_t Sc cfg (c_depth cfg) t (blen (rd_inp rs)) <= fuel)%nat ->
  (exists d r, de_datum fuel Sc cfg t rs = Ok (d, r)) \/
  (exists e, de_datum fuel Sc cfg t rs = Err e) \/
  de_datum fuel Sc cfg t rs = Unmodelled.
Proof.
  intros Sc cfg fuel t rs Hwf HM Hf.
  pose proof (de_datum_no_panic Sc cfg fuel t rs) as NP.
  assert (NF : de_datum fuel Sc cfg t rs <> OutOfFuel).
  { unfold de_datum, fnode_at. destruct (nth_error Sc 0) as [root|] eqn:E; [|discriminate].
    apply nth_error_In in E.
    pose proof (de_total_target_in Sc cfg fuel root (c_depth cfg) false false t rs HM E Hf) as T.
    destruct (de Sc cfg fuel root (c_depth cfg) false false t rs) as [[dv|e|p| |] st]; cbn [fst] in T;
      try discriminate. congruence. }
  destruct (de_datum fuel Sc cfg t rs) as [[dv r]|e|p| |].
  - left; eauto.
  - right; left; eauto.
  - exfalso. eapply NP; eauto.
  - congruence.
  - right; right; reflexivity.
Qed.

Corollary de_datum_total_target_fuel : forall Sc cfg fuel t rs,
  schema_wf Sc = true -> c_max_seq cfg < 2 ^ 64 - 1 ->
  (work_bound_t Sc cfg (c_depth cfg) t (blen (rd_inp rs)) <= fuel)%nat ->
  forall k, de_datum (fuel + k) Sc cfg t rs = de_datum fuel Sc cfg t rs.
Proof.
  intros Sc cfg fuel t rs Hwf HM Hf k. apply de_datum_fuel_mono.
  destruct (de_datum_total_target Sc cfg fuel t rs Hwf HM Hf) as [(dv & r & E)|[(e & E)|E]]; rewrite E; discriminate.
Qed.

(* ------------------------------------------------------------------ *)
(** * 5. When the model answers Unmodelled *)

(** The model has exactly three Unmodelled sites:
    (a) [finish_decimal] with the f64 hint: deserialize_f64 on a decimal node (rust_decimal -> f64);
    (b) [map_next_key] on a record with a TEnum key target (serde's StrDeserializer::deserialize_enum);
    (c) [enum_payload] on a variant whose payload is not TVUnit / TVNewtype / TTuple / TStruct
        (not a variant shape: the comment of [dtarget] excludes it).
    [modelled dec t] excludes them syntactically; [dec] says whether decimal nodes may be met. *)
Definition is_enum_t (t : dtarget) : bool := match t with TEnum _ _ => true | _ => false end.
Definition payload_ok (t : dtarget) : bool :=
  match t with TVUnit | TVNewtype _ | TTuple _ | TStruct _ _ => true | _ => false end.

Fixpoint modelled (dec : bool) (t : dtarget) : bool :=
  match t with
  | THint HF64 => negb dec
  | TNewtypeStruct _ t' | TOption t' | TSeq t' | TVNewtype t' => modelled dec t'
  | TTuple ts | TTupleStruct _ ts => forallb (modelled dec) ts
  | TMap tk tv => negb (is_enum_t tk) && modelled dec tv
  | TStruct _ fs => forallb (fun p => modelled dec (snd p)) fs
  | TEnum _ vs => forallb (fun p => payload_ok (snd p) && modelled dec (snd p)) vs
  | _ => true
  end.

Definition is_decimalb (n : fnode) : bool :=
  match n with FDecimal _ _ _ | FBigDecimal => true | _ => false end.

Definition nouq {A} (Q : A -> Prop) (m : RM A) : Prop :=
  forall rs, match fst (m rs) with Ok a => Q a | Unmodelled => False | _ => True end.
Definition not_unm {A} (x : result A) : Prop :=
  match x with Ok _ | Unmodelled => False | _ => True end.

Lemma nouq_bind {A B} (R : A -> Prop) (Q : B -> Prop) (m : RM A) (k : A -> RM B) :
  nouq R m -> (forall a, R a -> nouq Q (k a)) -> nouq Q (sbind m k).
Proof.
  intros Hm Hk rs. unfold sbind. specialize (Hm rs). destruct (m rs) as [x s'].
  cbn [fst] in Hm. destruct x; cbn [fst]; try contradiction; auto. apply Hk; auto.
Qed.
Lemma nouq_ret {A} (Q : A -> Prop) a : Q a -> nouq Q (sret a).
Proof. intros Hq rs. exact Hq. Qed.
Lemma nouq_fail {A} (Q : A -> Prop) (x : result A) : not_unm x -> nouq Q (rfail x).
Proof. intros Hx rs. unfold rfail; cbn [fst]. destruct x; cbn in Hx; try contradiction; auto. Qed.
Lemma nouq_weaken {A} (R Q : A -> Prop) m : nouq R m -> (forall a, R a -> Q a) -> nouq Q m.
Proof. intros Hm HRQ rs. specialize (Hm rs). destruct (fst (m rs)); auto. Qed.
Lemma nouq_of_tot {A} (Q : A -> Prop) m : (forall L, tot L Q m) -> nouq Q m.
Proof.
  intros Hm rs. destruct (Hm (blen (rd_inp rs)) rs) as [_ Hr]; [lia|].
  destruct (fst (m rs)); auto.
Qed.

Lemma nouq_read_varint t : nouq tt1 (read_varint t).
Proof. apply nouq_of_tot. intro L. apply tot_read_varint. Qed.
Lemma nouq_read_exact n : nouq tt1 (read_exact n).
Proof. apply nouq_of_tot. intro L. apply tot_read_exact. Qed.
Lemma nouq_read_slice n : nouq tt1 (read_slice n).
Proof. apply nouq_of_tot. intro L. apply tot_read_slice. Qed.
Lemma nouq_skip_bytes n : nouq tt1 (skip_bytes n).
Proof. apply nouq_of_tot. intro L. apply tot_skip_bytes. Qed.
Lemma nouq_take_varint l : nouq tt1 (take_varint l).
Proof. apply nouq_of_tot. intro L. apply tot_take_varint. Qed.
Lemma nouq_take_exact l n : nouq tt1 (take_exact l n).
Proof. apply nouq_of_tot. intro L. apply tot_take_exact. Qed.
Lemma nouq_read_usize : nouq tt1 read_usize.
Proof. apply nouq_of_tot. intro L. apply tot_read_usize. Qed.
Lemma nouq_read_bool : nouq tt1 read_bool.
Proof. apply nouq_of_tot. intro L. apply tot_read_bool. Qed.
Lemma nouq_str_event r : nouq tt1 (str_event r).
Proof. apply nouq_of_tot. intro L. apply tot_str_event. Qed.
Lemma nouq_read_ld_bytes : nouq tt1 read_ld_bytes.
Proof. apply nouq_of_tot. intro L. apply tot_read_ld_bytes. Qed.
Lemma nouq_read_ld_str : nouq tt1 read_ld_str.
Proof. apply nouq_of_tot. intro L. apply tot_read_ld_str. Qed.
Lemma nouq_dec_depth d : nouq tt1 (dec_depth d).
Proof. apply nouq_of_tot. intro L. eapply tot_weaken; [apply tot_dec_depth|]. intros; exact I. Qed.

Create HintDb noudb.
#[local] Hint Resolve nouq_read_varint nouq_read_exact nouq_read_slice nouq_skip_bytes nouq_take_varint
  nouq_take_exact nouq_read_usize nouq_read_bool nouq_str_event nouq_read_ld_bytes nouq_read_ld_str
  nouq_dec_depth : noudb.

Ltac nou_prim :=
  solve [ eauto with noudb | eapply nouq_weaken; [ solve [eauto with noudb] | intros; exact I ] ].
Ltac nou_step :=
  lazymatch goal with
  | |- nouq _ (let _ := _ in _) => cbv zeta
  | |- nouq _ (sret _) => apply nouq_ret; solve [ exact I | auto with noudb ]
  | |- nouq _ (rfail _) => apply nouq_fail; exact I
  | |- nouq _ (sbind _ _) =>
      eapply nouq_bind; [ nou_prim | let a := fresh "a" in let Ha := fresh "Ha" in intros a Ha ]
  | |- nouq _ (if ?c then _ else _) => destruct c
  | |- nouq _ (match ?x with _ => _ end) => destruct x
  | |- nouq _ _ => nou_prim
  end.
Ltac nou_walk := repeat nou_step.

#[local] Transparent finish_decimal read_decimal read_block_len has_more.
Lemma nouq_finish_decimal u sc h : h <> VHF64 -> nouq tt1 (finish_decimal u sc h).
Proof. intro Hh. unfold finish_decimal. cbv zeta. destruct h; try congruence; nou_walk. Qed.
#[local] Hint Resolve nouq_finish_decimal : noudb.
#[local] Opaque finish_decimal.
Lemma nouq_read_decimal n h : h <> VHF64 -> nouq tt1 (read_decimal n h).
Proof. intro Hh. unfold read_decimal. destruct n; nou_walk. Qed.
Lemma nouq_read_block_len : forall f ignored, nouq tt1 (read_block_len f ignored).
Proof. induction f as [|f IH]; intro ignored; cbn [read_block_len]; nou_walk. Qed.
#[local] Hint Resolve nouq_read_block_len : noudb.
Lemma nouq_has_more f cfg ignored b : nouq tt1 (has_more f cfg ignored b).
Proof. unfold has_more. nou_walk. Qed.
#[local] Hint Resolve nouq_has_more : noudb.
#[local] Opaque read_decimal read_block_len has_more.

Lemma forallb_map_snd {A B} (p : B -> bool) (l : list (A * B)) :
  forallb p (map snd l) = forallb (fun x => p (snd x)) l.
Proof. induction l as [|x l IH]; cbn; [reflexivity|]. rewrite IH. reflexivity. Qed.

Section NoUnmodelled.
Variable Sc : fschema.
Variable cfg : dcfg.
Variable dec : bool.
Hypothesis Hdec : dec = false -> forall n, In n Sc -> is_decimalb n = false.

Definition nd (n : fnode) : Prop := dec = false -> is_decimalb n = false.
Definition md (t : dtarget) : Prop := modelled dec t = true.

Lemma nouq_node_at k : nouq nd (node_at Sc k).
Proof.
  apply nouq_of_tot. intro L. eapply tot_weaken; [apply tot_node_at|].
  intros n Hin Hd. apply Hdec; assumption.
Qed.
Hint Resolve nouq_node_at : noudb.

Definition polm (pol : seqpolicy) : Prop :=
  match pol with PRepeat t => md t | PFixed ts => forallb (modelled dec) ts = true end.
Definition mpolm (mp : mappolicy) : Prop :=
  match mp with
  | MPGeneric tk tv _ => is_enum_t tk = false /\ md tv
  | MPStruct fs => forallb (fun p => modelled dec (snd p)) fs = true
  end.
Definition vsm (vs : list (bytes * dtarget)) : Prop :=
  forallb (fun p => payload_ok (snd p) && modelled dec (snd p)) vs = true.

Lemma seq_policy_m t : md t -> polm (fst (seq_policy t)).
Proof.
  unfold md. intro Ht. destruct t; cbn [seq_policy fst polm md modelled] in *; auto.
  all: try (rewrite forallb_map_snd; exact Ht); reflexivity.
Qed.
Lemma map_policy_m t : md t -> mpolm (map_policy t).
Proof.
  unfold md. intro Ht. destruct t; cbn [map_policy mpolm md modelled is_enum_t] in *;
    try (split; reflexivity); auto.
  apply andb_prop in Ht. destruct Ht as [H1 H2]. split; [|exact H2]. destruct (is_enum_t t1); [discriminate|reflexivity].
Qed.

Lemma md_any : md TAny. Proof. reflexivity. Qed.
Lemma md_ignored : md TIgnored. Proof. reflexivity. Qed.
Lemma md_ident : md (THint HIdentifier). Proof. reflexivity. Qed.
Hint Resolve md_any md_ignored md_ident : noudb.

Variable f : nat.
Hypothesis IHde : forall n depth favor force t, nd n -> md t -> nouq tt1 (de Sc cfg f n depth favor force t).
Hypothesis IHsa : forall items depth ignored t b ee, md t -> nouq tt1 (seq_array Sc cfg f items depth ignored t b ee).
Hypothesis IHsl : forall items depth ignored pol b acc, polm pol ->
  nouq tt1 (seq_array_loop Sc cfg f items depth ignored pol b acc).
Hypothesis IHsd : forall vals t, nouq tt1 (seq_duration Sc cfg f vals t).
Hypothesis IHmv : forall src t, md t -> nouq tt1 (map_visit Sc cfg f src t).
Hypothesis IHnk : forall src tk, is_enum_t tk = false -> nouq tt1 (map_next_key Sc cfg f src tk).
Hypothesis IHnv : forall src tv, md tv -> nouq tt1 (map_next_value Sc cfg f src tv).
Hypothesis IHml : forall src tk tv acc, is_enum_t tk = false -> md tv -> nouq tt1 (map_loop Sc cfg f src tk tv acc).
Hypothesis IHst : forall src fs seen acc, forallb (fun p => modelled dec (snd p)) fs = true ->
  nouq tt1 (struct_loop Sc cfg f src fs seen acc).
Hypothesis IHep : forall variants vname vn depth, nd vn -> vsm variants ->
  nouq tt1 (enum_payload Sc cfg f variants vname vn depth).

#[local] Transparent de_any de_duration_seq de_decimal_hint de_identifier.

Lemma ustep_any n depth t : nd n -> md t -> nouq tt1 (de_any Sc cfg f n depth t).
Proof.
  intros Hn Ht. unfold de_any. destruct n; try solve [nou_walk].
  - eapply nouq_bind; [apply nouq_read_decimal; discriminate|]. intros e _. apply nouq_ret; exact I.
  - eapply nouq_bind; [apply nouq_read_decimal; discriminate|]. intros e _. apply nouq_ret; exact I.
Qed.
Lemma ustep_duration_seq t : nouq tt1 (de_duration_seq Sc cfg f t).
Proof. unfold de_duration_seq. nou_walk. Qed.
Lemma ustep_decimal_hint n depth t h : nd n -> md t -> (h = VHF64 -> dec = false) ->
  nouq tt1 (de_decimal_hint Sc cfg f n depth t h).
Proof.
  intros Hn Ht Hh. unfold de_decimal_hint.
  assert (G : is_decimalb n = true -> nouq tt1 (do* e <- read_decimal n h; sret (leaf t e))).
  { intro Hd. eapply nouq_bind; [apply nouq_read_decimal|intros e _; apply nouq_ret; exact I].
    intro E. specialize (Hn (Hh E)). congruence. }
  destruct n; try (apply ustep_any; assumption); apply G; reflexivity.
Qed.
Lemma ustep_identifier n depth t : nd n -> md t -> nouq tt1 (de_identifier Sc cfg f n depth t).
Proof.
  intros Hn Ht. unfold de_identifier. destruct n; try (apply ustep_any; assumption); nou_walk.
Qed.
#[local] Opaque de_any de_duration_seq de_decimal_hint de_identifier.

Lemma enum_by_key_nou variants key : nouq tt1 (de_enum_by_key variants key).
Proof.
  unfold de_enum_by_key. destruct (enum_idx variants key); [|apply nouq_fail; exact I].
  destruct (nth_error variants n) as [[vname p]|]; [|apply nouq_fail; exact I].
  destruct p; try (apply nouq_fail; exact I). apply nouq_ret; exact I.
Qed.

Lemma ustep_de n depth favor force t : nd n -> md t -> nouq tt1 (de Sc cfg (S f) n depth favor force t).
Proof.
  intros Hn Ht. rewrite de_unfold.
  pose proof (ustep_any n depth t Hn Ht) as Hany.
  pose proof (ustep_identifier n depth t Hn Ht) as Hid.
  pose proof (ustep_duration_seq t) as Hds.
  destruct force; [exact Hany|].
  destruct t as [ | |h|nm|nm t'|t'|t'|ts|nm ts|tk tv|nm fs|nm variants| |t']; try exact Hany.
  - (* TIgnored *) destruct n; try exact Hany; nou_walk.
  - (* THint *)
    assert (Hdh : forall vh, (vh = VHF64 -> dec = false) -> nouq tt1 (de_decimal_hint Sc cfg f n depth (THint h) vh))
      by (intros vh Hvh; apply ustep_decimal_hint; assumption).
    destruct h; try exact Hany; try exact Hid; try (apply Hdh; discriminate);
      try (destruct n; try exact Hany; try (apply Hdh; discriminate); nou_walk; fail).
    (* HF64 *)
    assert (Hd : dec = false) by (unfold md in Ht; cbn [modelled] in Ht; destruct dec; [discriminate|reflexivity]).
    destruct n; try (apply Hdh; intros _; exact Hd). nou_walk.
  - (* TNewtypeStruct *) unfold md in Ht; cbn [modelled] in Ht. nou_walk.
  - (* TOption *)
    unfold md in Ht; cbn [modelled] in Ht.
    destruct n; nou_walk.
  - (* TSeq *) destruct n; try exact Hany; nou_walk.
  - (* TTuple *) destruct n; try exact Hany; nou_walk.
  - (* TTupleStruct *) destruct n; try exact Hany; nou_walk.
  - (* TEnum *)
    assert (Hvs : vsm variants) by exact Ht.
    destruct favor; [apply IHep; assumption|].
    destruct n; try solve [nou_walk];
      try (eapply nouq_bind; [apply nouq_dec_depth|]; intros d' _;
           eapply nouq_bind; [apply IHde; [assumption|apply md_ident]|]; intros key _; apply enum_by_key_nou).
Qed.

Lemma ustep_sa items depth ignored t b ee : md t ->
  nouq tt1 (seq_array Sc cfg (S f) items depth ignored t b ee).
Proof.
  intro Ht. rewrite seq_array_unfold. pose proof (seq_policy_m t Ht) as Hp.
  destruct (seq_policy t) as [pol sh]. cbn [fst] in Hp. nou_walk.
Qed.

Lemma ustep_sl items depth ignored pol b acc : polm pol ->
  nouq tt1 (seq_array_loop Sc cfg (S f) items depth ignored pol b acc).
Proof.
  intro Hp. rewrite seq_array_loop_unfold. destruct pol as [t1|[|t1 ts]]; cbn [polm] in Hp.
  - nou_walk.
  - nou_walk.
  - cbn [forallb] in Hp. apply andb_prop in Hp. destruct Hp as [Hp1 Hp2].
    assert (md t1) by exact Hp1. assert (polm (PFixed ts)) by exact Hp2. nou_walk.
Qed.

Lemma ustep_sd vals t : nouq tt1 (seq_duration Sc cfg (S f) vals t).
Proof. rewrite seq_duration_unfold. destruct (seq_policy t) as [pol sh]. nou_walk. Qed.

Lemma ustep_mv src t : md t -> nouq tt1 (map_visit Sc cfg (S f) src t).
Proof.
  intro Ht. rewrite map_visit_unfold. pose proof (map_policy_m t Ht) as Hp.
  destruct (map_policy t); cbn [mpolm] in Hp; [destruct Hp|]; nou_walk.
Qed.

Lemma ustep_nk src tk : is_enum_t tk = false -> nouq tt1 (map_next_key Sc cfg (S f) src tk).
Proof.
  intro Hk. rewrite map_next_key_unfold. destruct src as [values depth ignored b|fields depth|vals idx].
  - eapply nouq_bind; [apply nouq_has_more|]. intros hm _. destruct (fst hm); [|apply nouq_ret; exact I].
    assert (Hkk : nouq tt1 (match tk with
                            | TIgnored => do* _ <- read_ld_bytes; sret DIgnored
                            | _ => read_ld_str
                            end)) by (destruct tk; nou_walk).
    eapply nouq_bind; [exact Hkk|]. intros k _. apply nouq_ret; exact I.
  - destruct fields as [|[nm k] rest]; [apply nouq_ret; exact I|].
    destruct tk; try discriminate Hk; apply nouq_ret; exact I.
  - destruct vals; cbv zeta; apply nouq_ret; exact I.
Qed.

Lemma ustep_nv src tv : md tv -> nouq tt1 (map_next_value Sc cfg (S f) src tv).
Proof. intro Ht. rewrite map_next_value_unfold. nou_walk. Qed.

Lemma ustep_ml src tk tv acc : is_enum_t tk = false -> md tv ->
  nouq tt1 (map_loop Sc cfg (S f) src tk tv acc).
Proof. intros Hk Ht. rewrite map_loop_unfold. nou_walk. Qed.

Lemma ustep_st src fs seen acc : forallb (fun p => modelled dec (snd p)) fs = true ->
  nouq tt1 (struct_loop Sc cfg (S f) src fs seen acc).
Proof.
  intro Hfs. rewrite struct_loop_unfold.
  eapply nouq_bind; [apply IHnk; reflexivity|]. intros [[k src1]|] _; [|apply nouq_ret; exact I].
  destruct (sl_found fs k) as [[[i nm] tf]|] eqn:Efound.
  - assert (Htf : md tf).
    { destruct (sl_found_in _ _ _ _ _ Efound) as [nm' Hin]. rewrite forallb_forall in Hfs. apply (Hfs _ Hin). }
    nou_walk.
  - nou_walk.
Qed.

Lemma ustep_ep variants vname vn depth : nd vn -> vsm variants ->
  nouq tt1 (enum_payload Sc cfg (S f) variants vname vn depth).
Proof.
  intros Hn Hvs. rewrite enum_payload_unfold.
  destruct (index_of vname (map fst variants)) as [i|]; [|apply nouq_fail; exact I].
  destruct (nth_error variants i) as [[nm payload]|] eqn:En; [|apply nouq_fail; exact I].
  apply nth_error_In in En. unfold vsm in Hvs. rewrite forallb_forall in Hvs. specialize (Hvs _ En).
  cbn [snd] in Hvs. apply andb_prop in Hvs. destruct Hvs as [Hp Hm].
  assert (Hmd : md payload) by exact Hm.
  destruct payload; try discriminate Hp.
  - eapply nouq_bind; [apply IHde; assumption|]. intros dv _. unfold ep_seq. destruct dv; nou_walk.
  - eapply nouq_bind; [apply IHde; assumption|]. intros dv _. unfold ep_struct. destruct dv; nou_walk.
  - nou_walk.
  - assert (md payload) by exact Hm. nou_walk.
Qed.

End NoUnmodelled.

Section NoUnmodelledMain.
Variable Sc : fschema.
Variable cfg : dcfg.
Variable dec : bool.
Hypothesis Hdec : dec = false -> forall n, In n Sc -> is_decimalb n = false.

Definition all_nou (f : nat) : Prop :=
  (forall n depth favor force t, nd dec n -> md dec t -> nouq tt1 (de Sc cfg f n depth favor force t)) /\
  (forall items depth ignored t b ee, md dec t -> nouq tt1 (seq_array Sc cfg f items depth ignored t b ee)) /\
  (forall items depth ignored pol b acc, polm dec pol ->
     nouq tt1 (seq_array_loop Sc cfg f items depth ignored pol b acc)) /\
  (forall vals t, nouq tt1 (seq_duration Sc cfg f vals t)) /\
  (forall src t, md dec t -> nouq tt1 (map_visit Sc cfg f src t)) /\
  (forall src tk, is_enum_t tk = false -> nouq tt1 (map_next_key Sc cfg f src tk)) /\
  (forall src tv, md dec tv -> nouq tt1 (map_next_value Sc cfg f src tv)) /\
  (forall src tk tv acc, is_enum_t tk = false -> md dec tv -> nouq tt1 (map_loop Sc cfg f src tk tv acc)) /\
  (forall src fs seen acc, forallb (fun p => modelled dec (snd p)) fs = true ->
     nouq tt1 (struct_loop Sc cfg f src fs seen acc)) /\
  (forall variants vname vn depth, nd dec vn -> vsm dec variants ->
     nouq tt1 (enum_payload Sc cfg f variants vname vn depth)).

Lemma all_nou_holds : forall f, all_nou f.
Proof.
  induction f as [|f IH].
  - unfold all_nou. repeat match goal with |- _ /\ _ => split end; intros.
    + rewrite de_zero. apply nouq_fail; exact I.
    + rewrite seq_array_zero. apply nouq_fail; exact I.
    + rewrite seq_array_loop_zero. apply nouq_fail; exact I.
    + rewrite seq_duration_zero. apply nouq_fail; exact I.
    + rewrite map_visit_zero. apply nouq_fail; exact I.
    + rewrite map_next_key_zero. apply nouq_fail; exact I.
    + rewrite map_next_value_zero. apply nouq_fail; exact I.
    + rewrite map_loop_zero. apply nouq_fail; exact I.
    + rewrite struct_loop_zero. apply nouq_fail; exact I.
    + rewrite enum_payload_zero. apply nouq_fail; exact I.
  - destruct IH as (H1 & H2 & H3 & H4 & H5 & H6 & H7 & H8 & H9 & H10).
    unfold all_nou. repeat match goal with |- _ /\ _ => split end; intros.
    + first [eapply (ustep_de Sc cfg dec)|eapply ustep_de]; eassumption.
    + first [eapply (ustep_sa Sc cfg dec)|eapply ustep_sa]; eassumption.
    + first [eapply (ustep_sl Sc cfg dec)|eapply ustep_sl]; eassumption.
    + apply ustep_sd.
    + first [eapply (ustep_mv Sc cfg dec)|eapply ustep_mv]; eassumption.
    + first [eapply (ustep_nk Sc cfg dec)|eapply ustep_nk]; eassumption.
    + first [eapply (ustep_nv Sc cfg dec)|eapply ustep_nv]; eassumption.
    + first [eapply (ustep_ml Sc cfg dec)|eapply ustep_ml]; eassumption.
    + first [eapply (ustep_st Sc cfg dec)|eapply ustep_st]; eassumption.
    + first [eapply (ustep_ep Sc cfg dec)|eapply ustep_ep]; eassumption.
Qed.
End NoUnmodelledMain.

(** does the run meet a decimal node?  (the node itself or a node of the schema) *)
Definition has_decimal (Sc : fschema) (n : fnode) : bool := existsb is_decimalb (n :: Sc).

(** For ANY fuel: a modelled target never gets Unmodelled.  [modelled] forbids TEnum keys of TMap,
    non-variant payloads in TEnum, and -- only when the schema (or the node) has a decimal -- THint HF64. *)
Theorem de_no_unmodelled : forall Sc cfg fuel n depth favor force t rs,
  modelled (has_decimal Sc n) t = true ->
  fst (de Sc cfg fuel n depth favor force t rs) <> Unmodelled.
Proof.
  intros Sc cfg fuel n depth favor force t rs Ht.
  assert (Hall : has_decimal Sc n = false -> forall n0, In n0 (n :: Sc) -> is_decimalb n0 = false).
  { intros Hd n0 Hin. unfold has_decimal in Hd.
    destruct (is_decimalb n0) eqn:E; [|reflexivity].
    assert (X : existsb is_decimalb (n :: Sc) = true) by (apply existsb_exists; exists n0; auto). congruence. }
  assert (Hdec : has_decimal Sc n = false -> forall n0, In n0 Sc -> is_decimalb n0 = false)
    by (intros Hd n0 Hin; apply Hall; [exact Hd|right; exact Hin]).
  assert (Hn : nd (has_decimal Sc n) n) by (intro Hd; apply Hall; [exact Hd|left; reflexivity]).
  pose proof (proj1 (all_nou_holds Sc cfg (has_decimal Sc n) Hdec fuel) n depth favor force t Hn Ht rs) as Hr.
  intro E. rewrite E in Hr. exact Hr.
Qed.

(** the three exclusions are needed: each site is reachable *)
Example unmodelled_site_f64_on_decimal :
  fst (de [FDecimal 5 0 None] cfg_default 5 (FDecimal 5 0 None) 3 false false (THint HF64) (slice_reader [2; 7]))
  = Unmodelled.
Proof. vm_compute. reflexivity. Qed.
Example unmodelled_site_enum_key_on_record :
  let Sc := [FRecord (mkName [114] None) [([97], 1%nat)]; FNull] in
  fst (de Sc cfg_default 9 (FRecord (mkName [114] None) [([97], 1%nat)]) 3 false false
          (TMap (TEnum [] []) TAny) (slice_reader [])) = Unmodelled.
Proof. vm_compute. reflexivity. Qed.
Example unmodelled_site_bad_payload :
  fst (de [FNull] cfg_default 9 FNull 3 true false (TEnum [] [(type_name FNull, TAny)]) (slice_reader [])) = Unmodelled.
Proof. vm_compute. reflexivity. Qed.
(** ... and THint HF64 is fine when no decimal is around *)
Example modelled_f64_without_decimal :
  modelled (has_decimal [FDouble] FDouble) (THint HF64) = true /\
  modelled (has_decimal [FDecimal 5 0 None] FDouble) (THint HF64) = false.
Proof. vm_compute. auto. Qed.

(** The informal property for every modelled target: Ok or Err, nothing else. *)
Theorem de_total_target_ok_or_err : forall Sc cfg fuel n depth favor force t rs,
  schema_wf Sc = true -> In n Sc -> c_max_seq cfg < 2 ^ 64 - 1 ->
  modelled (has_decimal Sc n) t = true ->
  (work_bound_t Sc cfg depth t (blen (rd_inp rs)) <= fuel)%nat ->
  (exists d, fst (de Sc cfg fuel n depth favor force t rs) = Ok d) \/
  (exists e, fst (de Sc cfg fuel n depth favor force t rs) = Err e).
Proof.
  intros Sc cfg fuel n depth favor force t rs Hwf Hin HM Ht Hf.
  assert (Hn : node_wf Sc n = true).
  { unfold schema_wf in Hwf. apply andb_prop in Hwf. destruct Hwf as [_ Hw]. rewrite forallb_forall in Hw. auto. }
  pose proof (de_no_panic Sc cfg fuel n depth favor force t rs) as NP.
  pose proof (de_total_target_in Sc cfg fuel n depth favor force t rs HM Hin Hf) as T1.
  pose proof (de_no_unmodelled Sc cfg fuel n depth favor force t rs Ht) as T2.
  destruct (fst (de Sc cfg fuel n depth favor force t rs)) as [dv|e|p| |].
  - left; eauto.
  - right; eauto.
  - exfalso. eapply NP; eauto.
  - congruence.
  - congruence.
Qed.

Corollary de_datum_target_ok_or_err : forall Sc cfg fuel t rs,
  schema_wf Sc = true -> c_max_seq cfg < 2 ^ 64 - 1 ->
  modelled (existsb is_decimalb Sc) t = true ->
  (work_bound_t Sc cfg (c_depth cfg) t (blen (rd_inp rs)) <= fuel)%nat ->
  (exists d r, de_datum fuel Sc cfg t rs = Ok (d, r)) \/ (exists e, de_datum fuel Sc cfg t rs = Err e).
Proof.
  intros Sc cfg fuel t rs Hwf HM Ht Hf. unfold de_datum, fnode_at.
  destruct (nth_error Sc 0) as [root|] eqn:E.
  - apply nth_error_In in E.
    assert (Hd : has_decimal Sc root = existsb is_decimalb Sc).
    { unfold has_decimal. cbn [existsb]. destruct (is_decimalb root) eqn:Er; [|reflexivity].
      symmetry. apply existsb_exists. exists root. auto. }
    rewrite <- Hd in Ht.
    destruct (de_total_target_ok_or_err Sc cfg fuel root (c_depth cfg) false false t rs Hwf E HM Ht Hf) as [[d Hr]|[e Hr]];
      destruct (de Sc cfg fuel root (c_depth cfg) false false t rs) as [x st]; cbn [fst] in Hr; subst x; eauto.
  - destruct Sc; [discriminate Hwf|discriminate E].
Qed.

(* ------------------------------------------------------------------ *)
(** * 6. The target height has to enter the bound; the hypotheses are satisfiable *)

Fixpoint newtypes (k : nat) (t : dtarget) : dtarget :=
  match k with O => t | S k' => TNewtypeStruct [] (newtypes k' t) end.

(** fifteen nested newtype structs around a unit: the bound of [de_total_any] (10 here) is not enough,
    whatever the input (here: empty); [work_bound_t] is 42 *)
Example de_total_needs_theight :
  let cfg := mkCfg 0 0 in
  work_bound [FNull] cfg 0 0 = 10%nat /\
  fst (de [FNull] cfg 10 FNull 0 false false (newtypes 15 TAny) (slice_reader [])) = OutOfFuel /\
  work_bound_t [FNull] cfg 0 (newtypes 15 TAny) 0 = 42%nat /\
  is_ok (fst (de [FNull] cfg 42 FNull 0 false false (newtypes 15 TAny) (slice_reader []))) = true.
Proof. vm_compute. repeat split; reflexivity. Qed.

(** the width hypothesis of [de_total_target] is needed for a node outside the schema: a record of 40
    null fields against a schema whose widest record has none; [de_total_target_node] covers it *)
Example de_total_target_needs_width :
  let cfg := mkCfg 0 1 in
  let n := FRecord (mkName [114] None) (repeat ([97], 0%nat) 40) in
  max_fields [FNull] = 0%nat /\ nfields n = 40%nat /\
  work_bound_t [FNull] cfg 1 TAny 0 = 24%nat /\
  fst (de [FNull] cfg 24 n 1 false false TAny (slice_reader [])) = OutOfFuel /\
  (depth_work (level_width (Nat.max (nfields n) (max_fields [FNull])) cfg (theight TAny)) 1 + 0 = 104)%nat /\
  is_ok (fst (de [FNull] cfg 104 n 1 false false TAny (slice_reader []))) = true.
Proof. vm_compute. repeat split; reflexivity. Qed.

(** a typed run in chunked mode: record {a: array<long>, b: ["null", long]} against a struct target with an
    Option field and an unknown field skipped; all hypotheses of the theorems hold *)
Example hyps_satisfiable_t :
  let Sc := [FRecord (mkName [114] None) [([97], 1%nat); ([98], 2%nat); ([99], 3%nat)]; FArray 3%nat;
             FUnion [4; 3]%nat; FLong; FNull] in
  let t := TStruct [114] [([98], TOption (THint HI64)); ([97], TSeq (THint HI64))] in
  let rs := chunked_reader [4; 2; 4; 0; 2; 6; 8] [1; 2] 16 in
  schema_wf Sc = true /\ c_max_seq cfg_default < 2 ^ 64 - 1 /\
  modelled (existsb is_decimalb Sc) t = true /\ theight t = 3%nat /\
  de_datum 200 Sc cfg_default t rs =
    Ok (DStruct [([97], DSeq [DInt true W64 1; DInt true W64 2]); ([98], DSome (DInt true W64 3))], 0).
Proof. vm_compute. repeat split; reflexivity. Qed.

Print Assumptions de_total_target.
Print Assumptions de_total_target_node.
Print Assumptions de_total_target_stable.
Print Assumptions de_datum_total_target.
Print Assumptions de_datum_total_target_fuel.
Print Assumptions de_no_unmodelled.
Print Assumptions de_total_target_ok_or_err.
Print Assumptions de_datum_target_ok_or_err.
Print Assumptions de_total_needs_theight.
