(** Serializing the canonical presentation of a conforming value yields exactly the
    specification's encoding (model/Ser.v against spec/Encoding.v + spec/Denote.v).

    Main results (all closed under the global context):
    - [spec_long_is_encode_long], [le_bytes_spec_le]: the specification's long / little-endian
      renderings coincide with the model's;
    - [gen_registrations_union], [union_unnamed_not_union], [variant_names_type_name],
      [union_named_type_name]: facts about the union lookup tables, read off the generated
      table by computation;
    - [symbol_index_nth]: enum symbol lookup;
    - [can_truncate_minimal], [decimal_bytes_model], [can_truncate_fixed]: the decimal
      truncation of the model yields the minimal two's complement length of the specification;
    - [parse_decimal_to_string]: round trip of the decimal string grammar;
    - [ser_present_canonical_decimal] (with decimals, under [value_limits]) and its corollaries
      [ser_present_canonical_sized] (no decimals), [ser_present_canonical_in_schema],
      [to_datum_present_decimal], [to_datum_present_sized];
    - [ser_present_canonical_literal_false], [to_datum_present_needs_sizes],
      [decimal_limits_counterexample]: why the extra hypotheses ([node_wf Sc n], [sizes_ok v],
      [value_limits Sc n v]) cannot be dropped. *)
From Coq Require Import NArith ZArith List Lia Bool ZifyN ZifyBool ZifyNat.
Import ListNotations.
Require Import Base Kinds GenUnionTable Schema Varint Utf8 Sval Ser Text De.
Require Import AvroValue Encoding Denote Wf.
Require Import VarintProofs.
Open Scope N_scope.

Ltac Zify.zify_post_hook ::= Z.to_euclidean_division_equations.

Arguments N.add : simpl never.
Arguments N.sub : simpl never.
Arguments N.mul : simpl never.
Arguments N.div : simpl never.
Arguments N.modulo : simpl never.
Arguments N.pow : simpl never.
Arguments N.shiftl : simpl never.
Arguments N.shiftr : simpl never.
Arguments N.land : simpl never.
Arguments N.lor : simpl never.
Arguments N.ltb : simpl never.
Arguments N.leb : simpl never.
Arguments N.eqb : simpl never.
Arguments N.of_nat : simpl never.
Arguments N.to_nat : simpl never.
Arguments Z.of_nat : simpl never.
Arguments Z.of_N : simpl never.
Arguments Z.leb : simpl never.
Arguments Z.ltb : simpl never.

(* ------------------------------------------------------------------ *)
(** * The long encoding: specification = integer-encoding model *)

Lemma spec_varint_enc_fuel f : forall n, n < 128 ^ (N.of_nat f + 1) ->
  spec_varint_fuel (S f) n = enc_fuel f n.
Proof.
  induction f as [|f IH]; intros n Hn.
  - change (N.of_nat 0 + 1) with 1 in Hn. rewrite N.pow_1_r in Hn.
    cbn [spec_varint_fuel enc_fuel].
    assert (E : n <? 128 = true) by (apply N.ltb_lt; exact Hn). rewrite E.
    f_equal. rewrite N.mod_small; lia.
  - cbn [spec_varint_fuel enc_fuel] in *.
    destruct (n <? 128) eqn:E; [reflexivity|].
    rewrite cont_byte, shiftr7. f_equal.
    apply IH.
    replace (N.of_nat (S f) + 1) with (N.succ (N.of_nat f + 1)) in Hn by lia.
    rewrite N.pow_succ_r' in Hn.
    apply N.div_lt_upper_bound; lia.
Qed.

Lemma spec_long_is_encode_long : forall z, (I64_MIN <= z <= I64_MAX)%Z -> spec_long z = encode_long z.
Proof.
  intros z Hz. unfold spec_long, encode_long, encode_i64, encode_u64.
  change (spec_zigzag z) with (zigzag z).
  apply (spec_varint_enc_fuel 9).
  pose proof (zigzag_range z Hz) as H.
  eapply N.lt_trans; [exact H|]. vm_compute. reflexivity.
Qed.

(* ------------------------------------------------------------------ *)
(** * Little-endian rendering *)

Lemma le_bytes_spec_le : forall k x, le_bytes k x = spec_le k x.
Proof.
  intros k x. unfold le_bytes, spec_le. apply map_ext. intros a.
  rewrite N.shiftr_div_pow2. change 255 with (N.ones 8). rewrite N.land_ones.
  reflexivity.
Qed.

(* ------------------------------------------------------------------ *)
(** * bytes_eqb *)

Lemma bytes_eqb_refl : forall a, bytes_eqb a a = true.
Proof.
  intros a. unfold bytes_eqb. rewrite Nat.eqb_refl. cbn [andb].
  induction a as [|x a IH]; [reflexivity|].
  cbn [combine forallb fst snd]. rewrite N.eqb_refl. exact IH.
Qed.

Lemma bytes_eqb_eq : forall a b, bytes_eqb a b = true <-> a = b.
Proof.
  intros a b. split; [|intros ->; apply bytes_eqb_refl].
  unfold bytes_eqb. revert b. induction a as [|x a IH]; intros [|y b] H; try reflexivity;
    cbn [length Nat.eqb andb] in H; try discriminate H.
  cbn [combine forallb fst snd] in H.
  apply andb_prop in H. destruct H as [Hl H]. apply andb_prop in H. destruct H as [Hxy H].
  apply N.eqb_eq in Hxy. subst y. f_equal. apply IH. rewrite Hl. exact H.
Qed.

(* ------------------------------------------------------------------ *)
(** * Union lookup tables: facts read off the generated table by computation *)

(* no node kind registers a union: a type-key lookup never lands on a union node *)
Lemma gen_registrations_union : gen_registrations NkUnion = [].
Proof. vm_compute. reflexivity. Qed.

(* every node the fold registers has a non-empty registration list *)
Definition nsc_node_ok (Sc : fschema) (c : nsc) : Prop :=
  match c with
  | NSSome _ _ k => exists n, fnode_at Sc k = Some n /\ is_union n = false
  | _ => True
  end.

Lemma register_node_ok Sc cur p d k :
  nsc_node_ok Sc cur ->
  (exists n, fnode_at Sc k = Some n /\ is_union n = false) ->
  nsc_node_ok Sc (register cur p d k).
Proof.
  intros Hc Hk. unfold register. destruct cur as [|old d0 k0|old]; cbn [nsc_node_ok] in *.
  - exact Hk.
  - destruct (old <? p); [exact Hc|]. destruct (old =? p); [exact I|exact Hk].
  - destruct (p <? old); [exact Hk|exact I].
Qed.

Lemma fold_register_node_ok Sc l d k : forall cur,
  nsc_node_ok Sc cur ->
  (l <> [] -> exists n, fnode_at Sc k = Some n /\ is_union n = false) ->
  nsc_node_ok Sc (fold_left (fun c p => register c p d k) l cur).
Proof.
  induction l as [|p l IH]; intros cur Hc Hk; [exact Hc|].
  cbn [fold_left]. assert (Hk' : exists n, fnode_at Sc k = Some n /\ is_union n = false)
    by (apply Hk; discriminate).
  apply IH; [apply register_node_ok; assumption|intros _; exact Hk'].
Qed.

Lemma prio_of_union key : prio_of key (gen_registrations NkUnion) = [].
Proof. rewrite gen_registrations_union. reflexivity. Qed.

Lemma lookup_unnamed_node_ok Sc key : forall ks d cur,
  nsc_node_ok Sc cur -> nsc_node_ok Sc (lookup_unnamed_from Sc ks key d cur).
Proof.
  induction ks as [|k ks IH]; intros d cur Hc; [exact Hc|].
  cbn [lookup_unnamed_from]. apply IH.
  destruct (fnode_at Sc k) as [n|] eqn:E; [|exact Hc].
  apply fold_register_node_ok; [exact Hc|].
  intros Hne. exists n. split; [exact E|].
  destruct n; try reflexivity.
  exfalso. apply Hne. cbn [kind_of]. apply prio_of_union.
Qed.

(** (a) a type-key lookup never returns a union node (for any schema: the generated table
    registers nothing for unions) *)
Theorem union_unnamed_not_union : forall Sc ks key d k,
  union_unnamed Sc ks key = Some (d, k) ->
  exists n, fnode_at Sc k = Some n /\ is_union n = false.
Proof.
  intros Sc ks key d k. unfold union_unnamed.
  pose proof (lookup_unnamed_node_ok Sc key ks 0%Z NSNone I) as H.
  destruct (lookup_unnamed_from Sc ks key 0 NSNone); try discriminate.
  intros E. inversion E; subst. exact H.
Qed.

(** (b) the name the deserializer reports selects exactly that branch *)
Lemma variant_names_type_name : forall n, variant_names n = [type_name n].
Proof.
  intros n. destruct n; try (vm_compute; reflexivity).
  destruct repr as [[nm sz]|]; vm_compute; reflexivity.
Qed.

Definition branch_name (Sc : fschema) (k : nat) : bytes :=
  match fnode_at Sc k with Some v => type_name v | None => [] end.

Lemma named_entries_cons Sc k ks d n :
  fnode_at Sc k = Some n ->
  named_entries_from variant_names Sc (k :: ks) d =
  (type_name n, (d, k)) :: named_entries_from variant_names Sc ks (d + 1)%Z.
Proof.
  intros E. cbn [named_entries_from]. rewrite E, variant_names_type_name. reflexivity.
Qed.

Lemma assoc_last_nomatch Sc x : forall ks d acc,
  forallb (fun k => match fnode_at Sc k with Some _ => true | None => false end) ks = true ->
  existsb (bytes_eqb x) (map (branch_name Sc) ks) = false ->
  assoc_last x (named_entries_from variant_names Sc ks d) acc = acc.
Proof.
  induction ks as [|k ks IH]; intros d acc Hs Hx; [reflexivity|].
  cbn [forallb] in Hs. apply andb_prop in Hs. destruct Hs as [Hk Hs].
  destruct (fnode_at Sc k) as [n|] eqn:E; [|discriminate].
  rewrite (named_entries_cons _ _ _ _ _ E). cbn [assoc_last].
  cbn [map existsb] in Hx. apply orb_false_elim in Hx. destruct Hx as [Hx1 Hx2].
  unfold branch_name in Hx1. rewrite E in Hx1. rewrite Hx1.
  apply IH; assumption.
Qed.

Lemma assoc_last_branch Sc : forall ks i d acc k n',
  forallb (fun k => match fnode_at Sc k with Some _ => true | None => false end) ks = true ->
  distinct (map (branch_name Sc) ks) = true ->
  nth_error ks i = Some k -> fnode_at Sc k = Some n' ->
  assoc_last (type_name n') (named_entries_from variant_names Sc ks d) acc = Some ((d + Z.of_nat i)%Z, k).
Proof.
  induction ks as [|k0 ks IH]; intros i d acc k n' Hs Hd Hi Hk; [destruct i; discriminate|].
  cbn [forallb] in Hs. apply andb_prop in Hs. destruct Hs as [Hk0 Hs].
  cbn [map distinct] in Hd. apply andb_prop in Hd. destruct Hd as [Hd0 Hd].
  destruct (fnode_at Sc k0) as [n0|] eqn:E0; [|discriminate].
  rewrite (named_entries_cons _ _ _ _ _ E0). cbn [assoc_last].
  destruct i as [|i].
  - cbn [nth_error] in Hi. inversion Hi; subst k0. rewrite Hk in E0. inversion E0; subst n0.
    rewrite bytes_eqb_refl.
    rewrite (assoc_last_nomatch Sc); [f_equal; f_equal; lia|exact Hs|].
    apply negb_true_iff in Hd0. unfold branch_name at 1 in Hd0. rewrite Hk in Hd0. exact Hd0.
  - cbn [nth_error] in Hi.
    rewrite (IH i (d + 1)%Z _ k n' Hs Hd Hi Hk). f_equal. f_equal. lia.
Qed.

Lemma node_wf_union_parts Sc ks :
  node_wf Sc (FUnion ks) = true ->
  forallb (fun k => match fnode_at Sc k with Some _ => true | None => false end) ks = true /\
  distinct (map (branch_name Sc) ks) = true.
Proof.
  unfold node_wf. intros H. apply andb_prop in H. destruct H as [_ H].
  apply andb_prop in H. destruct H as [H1 H2]. split; [|exact H2].
  rewrite forallb_forall in *. intros k Hk. specialize (H1 k Hk).
  destruct (fnode_at Sc k); [reflexivity|discriminate].
Qed.

Theorem union_named_type_name : forall Sc ks i k n',
  node_wf Sc (FUnion ks) = true ->
  nth_error ks i = Some k -> fnode_at Sc k = Some n' ->
  union_named Sc ks (type_name n') = Some (Z.of_nat i, k).
Proof.
  intros Sc ks i k n' Hwf Hi Hk. destruct (node_wf_union_parts _ _ Hwf) as [Hs Hd].
  unfold union_named. rewrite (assoc_last_branch Sc ks i 0%Z None k n' Hs Hd Hi Hk).
  reflexivity.
Qed.

(* ------------------------------------------------------------------ *)
(** * Enum symbols *)

Lemma index_of_last_from_nomatch x : forall l i acc,
  existsb (bytes_eqb x) l = false -> index_of_last_from x l i acc = acc.
Proof.
  induction l as [|y l IH]; intros i acc H; [reflexivity|].
  cbn [existsb] in H. apply orb_false_elim in H. destruct H as [H1 H2].
  cbn [index_of_last_from]. rewrite H1. apply IH. exact H2.
Qed.

Lemma index_of_last_from_distinct : forall l j i acc,
  distinct l = true -> (j < length l)%nat ->
  index_of_last_from (nth j l []) l i acc = Some (i + j)%nat.
Proof.
  induction l as [|y l IH]; intros j i acc Hd Hj; [cbn [length] in Hj; lia|].
  cbn [distinct] in Hd. apply andb_prop in Hd. destruct Hd as [Hy Hd].
  cbn [index_of_last_from]. destruct j as [|j].
  - cbn [nth]. rewrite bytes_eqb_refl. rewrite index_of_last_from_nomatch.
    + f_equal. lia.
    + apply negb_true_iff in Hy. exact Hy.
  - cbn [nth]. cbn [length] in Hj. rewrite IH; [f_equal; lia|exact Hd|lia].
Qed.

Lemma symbol_index_nth : forall syms i,
  distinct syms = true -> (i < length syms)%nat -> symbol_index syms (nth i syms []) = Some i.
Proof.
  intros syms i Hd Hi. unfold symbol_index, index_of_last.
  rewrite index_of_last_from_distinct; auto.
Qed.

(* ------------------------------------------------------------------ *)
(** * A small Hoare logic for the serializer monad on an unbounded sink *)

Definition pool_ok (st : sstate) : Prop :=
  Forall (fun b : buf => fst b = []) (s_bufs st) /\
  Forall (fun l : list (option buf) => l = []) (s_sbufs st).

Definition pre (st : sstate) : Prop := s_budget st = None /\ pool_ok st.

Definition good (st st' : sstate) (out : bytes) : Prop :=
  s_out st' = s_out st ++ out /\ s_budget st' = None /\ pool_ok st' /\ s_slow st' = s_slow st.

Definition runsP {A} (m : M A) (Q : A -> Prop) (out : bytes) : Prop :=
  forall st, pre st -> exists a st', m st = (Ok a, st') /\ Q a /\ good st st' out.

Definition runs {A} (m : M A) (a : A) (out : bytes) : Prop := runsP m (eq a) out.

Lemma good_refl st : pre st -> good st st [].
Proof. intros [Hb Hp]. unfold good. rewrite app_nil_r. auto. Qed.

Lemma good_trans st st1 st2 o1 o2 : good st st1 o1 -> good st1 st2 o2 -> good st st2 (o1 ++ o2).
Proof.
  intros (E1 & B1 & P1 & S1) (E2 & B2 & P2 & S2). unfold good.
  rewrite E2, E1, app_assoc, S2, S1. auto.
Qed.

Lemma good_pre st st' o : good st st' o -> pre st'.
Proof. intros (_ & B & P & _). split; assumption. Qed.

Lemma good_out st st' o o' : good st st' o -> o = o' -> good st st' o'.
Proof. intros H <-. exact H. Qed.

Lemma sbind_ok {A B} (m : M A) (f : A -> M B) st a st1 :
  m st = (Ok a, st1) -> sbind m f st = f a st1.
Proof. intros E. unfold sbind. rewrite E. reflexivity. Qed.

Lemma runs_bind {A B} (m : M A) (f : A -> M B) Q R o1 o2 :
  runsP m Q o1 -> (forall a, Q a -> runsP (f a) R o2) -> runsP (sbind m f) R (o1 ++ o2).
Proof.
  intros Hm Hf st Hst. destruct (Hm st Hst) as (a & st1 & E & Qa & G).
  destruct (Hf a Qa st1 (good_pre _ _ _ G)) as (b & st2 & E2 & Rb & G2).
  exists b, st2. rewrite (sbind_ok _ _ _ _ _ E). split; [exact E2|]. split; [exact Rb|].
  eapply good_trans; eassumption.
Qed.

Lemma runs_bind1 {A B} (m : M A) (f : A -> M B) a R o1 o2 :
  runs m a o1 -> runsP (f a) R o2 -> runsP (sbind m f) R (o1 ++ o2).
Proof. intros Hm Hf. eapply runs_bind; [exact Hm|]. intros ? <-. exact Hf. Qed.

Lemma runs_out {A} (m : M A) Q o o' : runsP m Q o' -> o = o' -> runsP m Q o.
Proof. intros H ->. exact H. Qed.

Lemma runs_ret {A} (a : A) : runs (sret a) a [].
Proof. intros st Hst. exists a, st. split; [reflexivity|]. split; [reflexivity|]. apply good_refl, Hst. Qed.

Lemma runs_write bs : runs (write bs) tt bs.
Proof.
  intros st [Hb Hp]. unfold write. rewrite Hb.
  eexists tt, _. split; [reflexivity|]. split; [reflexivity|].
  unfold good, pool_ok, st_with_out. cbn. auto.
Qed.

Lemma runs_write_varint z : runs (write_varint z) tt (encode_long z).
Proof. apply runs_write. Qed.

Definition len_ok (n : nat) : bool := (Z.of_nat n <=? I64_MAX)%Z.

Lemma runs_usize_to_i64 n : (Z.of_N n <= I64_MAX)%Z -> runs (usize_to_i64 n) (Z.of_N n) [].
Proof.
  intros H. unfold usize_to_i64. apply Z.leb_le in H. rewrite H. apply runs_ret.
Qed.

Lemma spec_long_nat n : len_ok n = true -> spec_long (Z.of_nat n) = encode_long (Z.of_nat n).
Proof.
  unfold len_ok. intros H. apply Z.leb_le in H. apply spec_long_is_encode_long.
  unfold I64_MIN. lia.
Qed.

Lemma runs_write_ld data : len_ok (length data) = true -> runs (write_ld data) tt (ld data).
Proof.
  intros H. unfold write_ld, ld.
  assert (E : Z.of_N (N.of_nat (length data)) = Z.of_nat (length data)) by lia.
  eapply runs_out.
  - eapply runs_bind1; [apply runs_usize_to_i64|].
    + rewrite E. apply Z.leb_le. exact H.
    + eapply runs_bind1; [apply runs_write_varint|apply runs_write].
  - rewrite E, spec_long_nat by exact H. reflexivity.
Qed.

(** block writer *)
Lemma runs_block_new l : (Z.of_N l <= I64_MAX)%Z ->
  runs (block_new l) l (if 0 <? l then spec_long (Z.of_N l) else []).
Proof.
  intros H. unfold block_new. destruct (0 <? l) eqn:E.
  - eapply runs_out.
    + eapply runs_bind1; [apply runs_usize_to_i64; exact H|].
      eapply runs_bind1; [apply runs_write_varint|apply runs_ret].
    + rewrite spec_long_is_encode_long, app_nil_r; [reflexivity|]. unfold I64_MIN. lia.
  - apply N.ltb_ge in E. assert (l = 0) by lia. subst l. apply runs_ret.
Qed.

Lemma runs_block_next c : c <> 0 -> runs (block_next c) (c - 1) [].
Proof.
  intros H. unfold block_next. apply N.eqb_neq in H. rewrite H. apply runs_ret.
Qed.

Lemma runs_block_end : runs (block_end 0) tt (spec_long 0).
Proof.
  unfold block_end. rewrite N.eqb_refl. rewrite spec_long_is_encode_long.
  - apply runs_write_varint.
  - unfold I64_MIN, I64_MAX. lia.
Qed.

(* ------------------------------------------------------------------ *)
(** * Unfolding equations *)

Definition ser_at (Sc : fschema) (k : nat) (v' : sval) : M unit :=
  match fnode_at Sc k with None => fail (Panic PIndex) | Some n' => ser Sc n' v' end.
Definition present_at (Sc : fschema) (k : nat) (v : avalue) : sval :=
  match fnode_at Sc k with Some n' => present Sc n' v | None => SFail end.
Definition conf_at (Sc : fschema) (k : nat) (v : avalue) : bool :=
  match fnode_at Sc k with Some n' => conforms Sc n' v | None => false end.
Definition enc_at (Sc : fschema) (k : nat) (e : evalue) : bytes :=
  match fnode_at Sc k with Some n' => encode_e Sc n' e | None => [] end.

Lemma via_union_leaf Sc n key leaf : is_union n = false -> via_union Sc n key leaf = leaf n.
Proof. destruct n; intros H; try reflexivity. discriminate H. Qed.

Lemma named_step_leaf Sc n nm : is_union n = false -> named_step Sc n nm = sret n.
Proof. destruct n; intros H; try reflexivity. discriminate H. Qed.

Section Eqs.
Variable Sc : fschema.

Lemma ser_SUnit n : ser Sc n SUnit =
  match n with
  | FNull => sret tt
  | FUnion ks => do* _ <- unnamed_step Sc ks KNull; sret tt
  | _ => fail (Err EData)
  end.
Proof. reflexivity. Qed.
Lemma ser_SBool n b : ser Sc n (SBool b) =
  via_union Sc n KBoolean (fun n' => match n' with FBoolean => write [if b then 1 else 0] | _ => fail (Err EData) end).
Proof. reflexivity. Qed.
Lemma ser_SInt n s w z : ser Sc n (SInt s w z) = via_union Sc n (int_key w) (ser_int_leaf z).
Proof. reflexivity. Qed.
Lemma ser_SF32 n bits : ser Sc n (SF32 bits) =
  via_union Sc n KFloat4 (fun n' => match n' with FFloat => write (le_bytes 4 bits) | _ => fail (Err EData) end).
Proof. reflexivity. Qed.
Lemma ser_SF64 n bits narrowed : ser Sc n (SF64 bits narrowed) =
  via_union Sc n KFloat8 (fun n' =>
        match n' with
        | FDouble => write (le_bytes 8 bits)
        | FFloat => write (le_bytes 4 narrowed)
        | FDecimal _ _ _ | FBigDecimal => fail Unmodelled
        | _ => fail (Err EData)
        end).
Proof. reflexivity. Qed.
Lemma ser_SStr n s : ser Sc n (SStr s) = via_union Sc n KStr (ser_str_leaf s).
Proof. reflexivity. Qed.
Lemma ser_SBytes n b : ser Sc n (SBytes b) = via_union Sc n KSliceU8 (ser_bytes_leaf b).
Proof. reflexivity. Qed.
Lemma ser_SNewtypeVariant n e i variant v' :
  ser Sc n (SNewtypeVariant e i variant v') = do* n' <- named_step Sc n variant; ser Sc n' v'.
Proof. reflexivity. Qed.
Lemma ser_SSeq n len vs :
  ser Sc n (SSeq len vs) = via_union Sc n KSeqOrTupleOrTupleStruct (seq_leaf (ser_at Sc) len vs).
Proof. reflexivity. Qed.
Lemma ser_STuple n vs :
  ser Sc n (STuple vs) =
  via_union Sc n KSeqOrTupleOrTupleStruct (seq_leaf (ser_at Sc) (Some (N.of_nat (length vs))) vs).
Proof. reflexivity. Qed.
Lemma ser_SMap n len calls :
  ser Sc n (SMap len calls) =
  via_union Sc n KStructOrMap (fun n' =>
    start_kind Sc (match len with Some l => l =? 3 | None => true end)
               (match len with Some l => l | None => 0 end) n'
               (fun kind rs blk => map_calls (ser_at Sc) (ser Sc FString) kind rs blk [None; None; None] None calls)).
Proof. reflexivity. Qed.
Lemma ser_SStruct n nm len fs :
  ser Sc n (SStruct nm len fs) =
  do* n' <- named_step Sc n nm;
  via_union Sc n' KStructOrMap (fun n'' =>
    start_kind Sc (len =? 3) len n''
               (fun kind rs blk => struct_fields (ser_at Sc) kind rs blk [None; None; None] fs)).
Proof. reflexivity. Qed.

(** sequences *)
Definition seq_go (serk : nat -> sval -> M unit) (items : nat) :=
  fix go (blk : N) (vs : list sval) {struct vs} : M N :=
    match vs with
    | [] => sret blk
    | v' :: rest => do* b <- block_next blk; do* _ <- serk items v'; go b rest
    end.

Lemma seq_leaf_array serk len vs items :
  seq_leaf serk len vs (FArray items) =
  do* blk <- block_new (match len with Some l => l | None => 0 end);
  do* blk' <- seq_go serk items blk vs;
  block_end blk'.
Proof. reflexivity. Qed.

Lemma seq_go_cons serk items blk v' rest :
  seq_go serk items blk (v' :: rest) =
  do* b <- block_next blk; do* _ <- serk items v'; seq_go serk items b rest.
Proof. reflexivity. Qed.

(** struct / map presentations *)
Lemma start_kind_record b l nm fields run :
  start_kind Sc b l (FRecord nm fields) run =
  do* rs <- record_new; fun st => finish Sc (RKRecord fields) (run (RKRecord fields) rs 0 st).
Proof. reflexivity. Qed.
Lemma start_kind_map b l values run :
  start_kind Sc b l (FMap values) run =
  do* blk <- block_new l; fun st => finish Sc (RKMap values) (run (RKMap values) (mkR O [] false) blk st).
Proof. reflexivity. Qed.

Lemma map_calls_map_cons serk serstr values rs blk dur hint k' v' rest st :
  map_calls serk serstr (RKMap values) rs blk dur hint ((Some k', Some v') :: rest) st =
  match (do* blk' <- (do* b <- block_next blk; do* _ <- serstr k'; sret b);
         do* _ <- serk values v';
         sret blk') st with
  | (Ok blk', st') => map_calls serk serstr (RKMap values) rs blk' dur hint rest st'
  | (Err e, st') => (Err e, rs, st')
  | (Panic p, st') => (Panic p, rs, st')
  | (OutOfFuel, st') => (OutOfFuel, rs, st')
  | (Unmodelled, st') => (Unmodelled, rs, st')
  end.
Proof. reflexivity. Qed.

Lemma struct_fields_record_cons serk fields rs blk dur key v' rest st :
  struct_fields serk (RKRecord fields) rs blk dur ((key, v') :: rest) st =
  match rec_field_idx fields rs key with
  | Ok (idx, k) =>
      match record_value serk fields rs idx k v' st with
      | (Ok rs', st') => struct_fields serk (RKRecord fields) rs' blk dur rest st'
      | (Err e, st') => (Err e, record_value_rs_on_error rs idx, st')
      | (Panic p, st') => (Panic p, record_value_rs_on_error rs idx, st')
      | (OutOfFuel, st') => (OutOfFuel, rs, st')
      | (Unmodelled, st') => (Unmodelled, rs, st')
      end
  | Err e => (Err e, rs, st)
  | Panic p => (Panic p, rs, st)
  | OutOfFuel => (OutOfFuel, rs, st)
  | Unmodelled => (Unmodelled, rs, st)
  end.
Proof. reflexivity. Qed.

(** presentation *)
Definition pres_fields :=
  fix go (fields : list (bytes * nat)) (vs : list avalue) {struct vs} : list (bytes * sval) :=
    match fields, vs with
    | (f, k) :: fr, v' :: vr => (f, present_at Sc k v') :: go fr vr
    | _, _ => []
    end.
Definition conf_fields :=
  fix go (fs : list (bytes * nat)) (vs : list avalue) {struct vs} : bool :=
    match fs, vs with
    | [], [] => true
    | (_, k) :: fr, v' :: vr => conf_at Sc k v' && go fr vr
    | _, _ => false
    end.
Definition enc_fields :=
  fix go (fields : list (bytes * nat)) (fs : list evalue) {struct fs} : bytes :=
    match fields, fs with
    | (_, k) :: fr, v :: vr => enc_at Sc k v ++ go fr vr
    | _, _ => []
    end.

Lemma present_AArray k vs :
  present Sc (FArray k) (AArray vs) = SSeq (Some (N.of_nat (length vs))) (map (present_at Sc k) vs).
Proof. reflexivity. Qed.
Lemma present_AMap k kvs :
  present Sc (FMap k) (AMap kvs) =
  SMap (Some (N.of_nat (length kvs)))
       (map (fun kv => (Some (SStr (fst kv)), Some (present_at Sc k (snd kv)))) kvs).
Proof. reflexivity. Qed.
Lemma present_AUnion ks i v' :
  present Sc (FUnion ks) (AUnion i v') =
  match nth_error ks i with
  | Some k =>
      match fnode_at Sc k with
      | Some n' => SNewtypeVariant [] (N.of_nat i) (type_name n') (present Sc n' v')
      | None => SFail
      end
  | None => SFail
  end.
Proof. reflexivity. Qed.
Lemma present_ARecord nm fields vs :
  present Sc (FRecord nm fields) (ARecord vs) =
  SStruct (nm_full nm) (N.of_nat (length fields)) (pres_fields fields vs).
Proof. reflexivity. Qed.

(** conformance *)
Lemma conforms_AArray k vs : conforms Sc (FArray k) (AArray vs) = forallb (conf_at Sc k) vs.
Proof. reflexivity. Qed.
Lemma conforms_AMap k kvs :
  conforms Sc (FMap k) (AMap kvs) =
  forallb (fun kv => bytes_okb (fst kv) && utf8_valid (fst kv) && conf_at Sc k (snd kv)) kvs.
Proof. reflexivity. Qed.
Lemma conforms_AUnion ks i v' :
  conforms Sc (FUnion ks) (AUnion i v') =
  match nth_error ks i with Some k => conf_at Sc k v' | None => false end.
Proof. reflexivity. Qed.
Lemma conforms_ARecord nm fs vs :
  conforms Sc (FRecord nm fs) (ARecord vs) = Nat.eqb (length fs) (length vs) && conf_fields fs vs.
Proof. reflexivity. Qed.

(** specification encoding *)
Lemma spec_encode_AArray_nil k : spec_encode Sc (FArray k) (AArray []) = spec_long 0.
Proof. reflexivity. Qed.
Lemma spec_encode_AArray_cons k v0 vs :
  spec_encode Sc (FArray k) (AArray (v0 :: vs)) =
  ((spec_long (Z.of_nat (length (map canon (v0 :: vs)))) ++
    flat_map (enc_at Sc k) (map canon (v0 :: vs))) ++ []) ++ spec_long 0.
Proof. reflexivity. Qed.
Lemma spec_encode_AMap_nil k : spec_encode Sc (FMap k) (AMap []) = spec_long 0.
Proof. reflexivity. Qed.
Lemma spec_encode_AMap_cons k kv0 kvs :
  spec_encode Sc (FMap k) (AMap (kv0 :: kvs)) =
  ((spec_long (Z.of_nat (length (map (fun kv => (fst kv, canon (snd kv))) (kv0 :: kvs)))) ++
    flat_map (fun kv => ld (fst kv) ++ enc_at Sc k (snd kv))
             (map (fun kv => (fst kv, canon (snd kv))) (kv0 :: kvs))) ++ []) ++ spec_long 0.
Proof. reflexivity. Qed.
Lemma spec_encode_AUnion ks i v' :
  spec_encode Sc (FUnion ks) (AUnion i v') =
  spec_long (Z.of_nat i) ++ (match nth_error ks i with Some k => enc_at Sc k (canon v') | None => [] end).
Proof. reflexivity. Qed.
Lemma spec_encode_ARecord nm fields vs :
  spec_encode Sc (FRecord nm fields) (ARecord vs) = enc_fields fields (map canon vs).
Proof. reflexivity. Qed.

End Eqs.

(* ------------------------------------------------------------------ *)
(** * Two's complement big-endian bytes *)

Definition P8 (j : nat) : Z := (2 ^ (8 * Z.of_nat j))%Z.

Lemma P8_pos j : (0 < P8 j)%Z.
Proof. unfold P8. apply Z.pow_pos_nonneg; lia. Qed.

Lemma P8_S j : P8 (S j) = (256 * P8 j)%Z.
Proof.
  unfold P8. replace (8 * Z.of_nat (S j))%Z with (8 + 8 * Z.of_nat j)%Z by lia.
  rewrite Z.pow_add_r by lia. reflexivity.
Qed.

Lemma P8_0 : P8 0 = 1%Z.
Proof. reflexivity. Qed.

Lemma half_S j : (2 ^ (8 * Z.of_nat (S j) - 1))%Z = (128 * P8 j)%Z.
Proof.
  unfold P8. replace (8 * Z.of_nat (S j) - 1)%Z with (7 + 8 * Z.of_nat j)%Z by lia.
  rewrite Z.pow_add_r by lia. reflexivity.
Qed.

Lemma P8_add a b : P8 (a + b) = (P8 a * P8 b)%Z.
Proof.
  unfold P8. replace (8 * Z.of_nat (a + b))%Z with (8 * Z.of_nat a + 8 * Z.of_nat b)%Z by lia.
  apply Z.pow_add_r; lia.
Qed.

Lemma P8_mono a b : (a <= b)%nat -> (P8 a <= P8 b)%Z.
Proof. intros H. unfold P8. apply Z.pow_le_mono_r; lia. Qed.

(* byte j (little-endian position) of the infinite two's complement expansion of z *)
Definition zb (z : Z) (j : nat) : N := Z.to_N ((z / P8 j) mod 256)%Z.

Lemma zb_lt256 z j : zb z j < 256.
Proof. unfold zb. pose proof (Z.mod_pos_bound (z / P8 j) 256). lia. Qed.

Lemma mod_div_byte z n k : (k < n)%nat ->
  (((z mod P8 n) / P8 k) mod 256 = (z / P8 k) mod 256)%Z.
Proof.
  intros H. replace n with (k + (1 + (n - k - 1)))%nat by lia.
  rewrite !P8_add. change (P8 1) with 256%Z.
  pose proof (P8_pos k) as Hk. pose proof (P8_pos (n - k - 1)) as Hc.
  set (a := P8 k) in *. set (c := P8 (n - k - 1)) in *.
  rewrite Z.rem_mul_r by lia.
  rewrite (Z.mul_comm a), Z.div_add by lia.
  rewrite (Z.div_small (z mod a) a) by (apply Z.mod_pos_bound; lia).
  rewrite Z.add_0_l.
  rewrite Z.rem_mul_r by lia.
  rewrite (Z.mul_comm 256), Z_mod_plus_full. apply Z.mod_mod. lia.
Qed.

Lemma spec_twos_be_bytes n z : spec_twos_be n z = map (zb z) (rev (seq 0 n)).
Proof.
  unfold spec_twos_be, spec_le. rewrite <- map_rev. apply map_ext_in.
  intros k Hk. apply in_rev, in_seq in Hk.
  unfold zb. fold (P8 n).
  pose proof (Z.mod_pos_bound z (P8 n) (P8_pos n)) as Hu.
  apply N2Z.inj. rewrite N2Z.inj_mod, N2Z.inj_div, N2Z.inj_pow, N2Z.inj_mul, Z2N.id by lia.
  rewrite nat_N_Z. change (Z.of_N 2) with 2%Z. change (Z.of_N 8) with 8%Z. change (Z.of_N 256) with 256%Z.
  fold (P8 k). rewrite mod_div_byte by lia.
  rewrite Z2N.id; [reflexivity|]. pose proof (Z.mod_pos_bound (z / P8 k) 256). lia.
Qed.

Lemma T_S n z : spec_twos_be (S n) z = zb z n :: spec_twos_be n z.
Proof. rewrite !spec_twos_be_bytes, seq_S, rev_app_distr. reflexivity. Qed.

Lemma T_0 z : spec_twos_be 0 z = [].
Proof. reflexivity. Qed.

Lemma T_length n z : length (spec_twos_be n z) = n.
Proof. rewrite spec_twos_be_bytes, map_length, rev_length, seq_length. reflexivity. Qed.

Lemma T_lt256 n z : Forall (fun x => x < 256) (spec_twos_be n z).
Proof. rewrite spec_twos_be_bytes. apply Forall_forall. intros x Hx. apply in_map_iff in Hx.
  destruct Hx as (j & <- & _). apply zb_lt256. Qed.

Lemma skipn_T d n z : skipn d (spec_twos_be (d + n) z) = spec_twos_be n z.
Proof. induction d as [|d IH]; [reflexivity|]. cbn [plus]. rewrite T_S. exact IH. Qed.

Lemma be16_T z : be16 z = spec_twos_be 16 z.
Proof. unfold be16, spec_twos_be. rewrite le_bytes_spec_le. reflexivity. Qed.

(** bytes of a non-negative number *)
Lemma zb_zero z j : (0 <= z < P8 j)%Z -> zb z j = 0.
Proof. intros H. unfold zb. rewrite Z.div_small by lia. reflexivity. Qed.

Lemma zb_small z j : (0 <= z < 128 * P8 j)%Z -> zb z j < 128.
Proof.
  intros H. unfold zb. pose proof (P8_pos j).
  assert (0 <= z / P8 j < 128)%Z.
  { split; [apply Z.div_pos; lia|apply Z.div_lt_upper_bound; lia]. }
  rewrite Z.mod_small by lia. lia.
Qed.

Lemma zb_nonzero z j : (P8 j <= z < 256 * P8 j)%Z -> zb z j <> 0.
Proof.
  intros H. unfold zb. pose proof (P8_pos j).
  assert (1 <= z / P8 j < 256)%Z.
  { split; [apply Z.div_le_lower_bound; lia|apply Z.div_lt_upper_bound; lia]. }
  rewrite Z.mod_small by lia. lia.
Qed.

Lemma zb_big z j : (128 * P8 j <= z < 256 * P8 j)%Z -> 128 <= zb z j.
Proof.
  intros H. unfold zb. pose proof (P8_pos j).
  assert (128 <= z / P8 j < 256)%Z.
  { split; [apply Z.div_le_lower_bound; lia|apply Z.div_lt_upper_bound; lia]. }
  rewrite Z.mod_small by lia. lia.
Qed.

Lemma T_zero_ext d L z : (0 <= z < P8 L)%Z ->
  spec_twos_be (d + L) z = repeat 0 d ++ spec_twos_be L z.
Proof.
  intros H. induction d as [|d IH]; [reflexivity|].
  cbn [plus repeat app]. rewrite T_S, IH. f_equal. apply zb_zero.
  pose proof (P8_mono L (d + L)). lia.
Qed.

(** ** can_truncate on the shapes a minimal representation can take *)
Lemma count_leading_repeat v d l : count_leading v (repeat v d ++ l) = (d + count_leading v l)%nat.
Proof. induction d as [|d IH]; [reflexivity|]. cbn [repeat app count_leading]. rewrite N.eqb_refl, IH. reflexivity. Qed.

Lemma nth_error_repeat_app {A} (v : A) d l j : nth_error (repeat v d ++ l) (d + j) = nth_error l j.
Proof. rewrite nth_error_app2; rewrite repeat_length; [f_equal; lia|lia]. Qed.

Lemma repeat_app_cons {A} (v : A) d l : repeat v d ++ v :: l = repeat v (S d) ++ l.
Proof. induction d as [|d IH]; [reflexivity|]. cbn [repeat app] in *. rewrite IH. reflexivity. Qed.

Lemma can_truncate_zero_branch l b0 :
  hd_error l = Some b0 -> N.land b0 128 = 0 ->
  can_truncate l =
  let ct := count_leading 0 l in
  if negb (Nat.eqb ct 0) &&
     (match nth_error l ct with None => true | Some v => negb (N.land v 128 =? 0) end)
  then pred ct else ct.
Proof.
  destruct l as [|b l]; [discriminate|]. cbn [hd_error]. intros E H. inversion E; subst b.
  unfold can_truncate. rewrite H, N.eqb_refl. reflexivity.
Qed.

Lemma hd_error_repeat_app d t rest :
  N.land t 128 = 0 -> exists b0, hd_error (repeat 0 d ++ t :: rest) = Some b0 /\ N.land b0 128 = 0.
Proof.
  intros H. destruct d; [exists t; split; [reflexivity|exact H]|].
  exists 0. split; reflexivity.
Qed.

Lemma can_truncate_shape1 d t rest :
  t <> 0 -> N.land t 128 = 0 -> can_truncate (repeat 0 d ++ t :: rest) = d.
Proof.
  intros Ht Hl. destruct (hd_error_repeat_app d t rest Hl) as (b0 & Hh & Hb).
  rewrite (can_truncate_zero_branch _ _ Hh Hb). cbv zeta.
  rewrite count_leading_repeat. cbn [count_leading]. apply N.eqb_neq in Ht. rewrite Ht.
  rewrite nth_error_repeat_app. cbn [nth_error]. rewrite Hl, N.eqb_refl. cbn [negb].
  rewrite andb_false_r. lia.
Qed.

Lemma can_truncate_shape2 d t rest :
  N.land t 128 <> 0 -> can_truncate (repeat 0 (S d) ++ t :: rest) = d.
Proof.
  intros Hl. assert (Ht : t <> 0) by (intros ->; apply Hl; reflexivity).
  rewrite (can_truncate_zero_branch (repeat 0 (S d) ++ t :: rest) 0 eq_refl eq_refl). cbv zeta.
  rewrite count_leading_repeat. cbn [count_leading]. apply N.eqb_neq in Ht. rewrite Ht.
  rewrite nth_error_repeat_app. cbn [nth_error]. apply N.eqb_neq in Hl. rewrite Hl.
  replace (S d + 0)%nat with (S d) by lia. reflexivity.
Qed.

Lemma can_truncate_shape3 d : can_truncate (repeat 0 (S d)) = d.
Proof.
  rewrite (can_truncate_zero_branch (repeat 0 (S d)) 0 eq_refl eq_refl). cbv zeta.
  rewrite <- (app_nil_r (repeat 0 (S d))). rewrite count_leading_repeat. cbn [count_leading].
  replace (S d + 0)%nat with (S d) by lia.
  assert (E : nth_error (repeat 0 (S d) ++ []) (S d) = None)
    by (apply nth_error_None; rewrite app_nil_r, repeat_length; lia).
  rewrite E. reflexivity.
Qed.

Lemma land128_big t : 128 <= t -> t < 256 -> N.land t 128 <> 0.
Proof.
  intros H1 H2. replace t with (128 + (t - 128)) by lia. rewrite land128_set by lia. lia.
Qed.

(* Fj j z: z fits in j+1 bytes *)
Definition Fj (j : nat) (z : Z) : Prop := (-128 * P8 j <= z < 128 * P8 j)%Z.

Lemma ct_nonneg d L' z :
  (0 <= z)%Z -> Fj L' z -> (L' = O \/ ~ Fj (L' - 1) z) ->
  can_truncate (spec_twos_be (d + S L') z) = d.
Proof.
  intros Hz [_ Hf] Hmin. pose proof (P8_pos L') as HP.
  rewrite T_zero_ext by (rewrite P8_S; lia). rewrite T_S.
  assert (Hs : zb z L' < 128) by (apply zb_small; lia).
  destruct (Z_lt_le_dec z (P8 L')) as [Hlt|Hge].
  - rewrite (zb_zero z L') by lia. rewrite repeat_app_cons.
    destruct L' as [|L'']; [rewrite T_0, app_nil_r; apply can_truncate_shape3|].
    destruct Hmin as [Hmin|Hmin]; [discriminate|].
    replace (S L'' - 1)%nat with L'' in Hmin by lia. unfold Fj in Hmin.
    pose proof (P8_pos L''). rewrite P8_S in Hlt.
    rewrite T_S. apply can_truncate_shape2. apply land128_big; [apply zb_big; lia|apply zb_lt256].
  - apply can_truncate_shape1; [apply zb_nonzero; lia|apply land128_zero; exact Hs].
Qed.

(** complement symmetry: negative numbers *)
Definition compl (x : N) : N := 255 - x.

Lemma div_lnot z a : (0 < a)%Z -> ((- z - 1) / a = - (z / a) - 1)%Z.
Proof.
  intros Ha. symmetry. apply (Z.div_unique_pos _ _ _ (a - 1 - z mod a)%Z).
  - pose proof (Z.mod_pos_bound z a Ha). lia.
  - rewrite (Z.div_mod z a) at 1 by lia. ring.
Qed.

Lemma zb_compl z j : zb (- z - 1) j = compl (zb z j).
Proof.
  unfold zb, compl. rewrite div_lnot by apply P8_pos.
  set (q := (z / P8 j)%Z). lia.
Qed.

Lemma T_compl n z : spec_twos_be n (- z - 1) = map compl (spec_twos_be n z).
Proof.
  rewrite !spec_twos_be_bytes, map_map. apply map_ext. intros j. apply zb_compl.
Qed.

Lemma count_leading_compl l : count_leading 255 (map compl l) = count_leading 0 l.
Proof.
  induction l as [|x l IH]; [reflexivity|]. cbn [map count_leading]. rewrite IH.
  unfold compl. destruct (N.eqb_spec x 0), (N.eqb_spec (255 - x) 255); try reflexivity; lia.
Qed.

Lemma land_compl x : x < 256 -> (N.land (compl x) 128 =? 0) = negb (N.land x 128 =? 0).
Proof.
  intros H.
  pose proof (byte_sweep (fun b => Bool.eqb (N.land (compl b) 128 =? 0) (negb (N.land b 128 =? 0)))) as S.
  specialize (S ltac:(vm_compute; reflexivity) x H). cbn beta in S.
  apply Bool.eqb_prop in S. exact S.
Qed.

Lemma can_truncate_compl l b0 :
  hd_error l = Some b0 -> N.land b0 128 = 0 -> Forall (fun x => x < 256) l ->
  can_truncate (map compl l) = can_truncate l.
Proof.
  intros Hh Hb HF. rewrite (can_truncate_zero_branch l b0 Hh Hb). cbv zeta.
  destruct l as [|b l]; [discriminate|]. cbn [hd_error] in Hh. inversion Hh; subst b.
  unfold can_truncate at 1. cbn [map].
  assert (Hb0 : b0 < 256) by (inversion HF; assumption).
  rewrite land_compl by exact Hb0. rewrite Hb, N.eqb_refl. cbn [negb].
  change (compl b0 :: map compl l) with (map compl (b0 :: l)).
  rewrite count_leading_compl. rewrite nth_error_map.
  destruct (nth_error (b0 :: l) (count_leading 0 (b0 :: l))) as [v|] eqn:E; [|reflexivity].
  cbn [option_map]. rewrite land_compl; [reflexivity|].
  rewrite Forall_forall in HF. apply HF. eapply nth_error_In. exact E.
Qed.

Lemma T_head_nonneg n' z : (0 <= z < 128 * P8 n')%Z ->
  exists b0, hd_error (spec_twos_be (S n') z) = Some b0 /\ N.land b0 128 = 0.
Proof.
  intros H. rewrite T_S. exists (zb z n'). split; [reflexivity|].
  apply land128_zero, zb_small. exact H.
Qed.

Lemma Fj_compl j z : Fj j (- z - 1) <-> Fj j z.
Proof. unfold Fj. lia. Qed.

Theorem can_truncate_minimal d L' z :
  Fj L' z -> (L' = O \/ ~ Fj (L' - 1) z) ->
  can_truncate (spec_twos_be (d + S L') z) = d.
Proof.
  intros Hf Hmin. destruct (Z_le_gt_dec 0 z) as [Hz|Hz]; [apply ct_nonneg; assumption|].
  set (z' := (- z - 1)%Z). assert (Ez : z = (- z' - 1)%Z) by (unfold z'; lia).
  clearbody z'.
  assert (Hf' : Fj L' z') by (unfold Fj in *; lia).
  assert (Hmin' : L' = O \/ ~ Fj (L' - 1) z').
  { destruct Hmin as [?|Hm]; [left; assumption|right]. unfold Fj in *. lia. }
  rewrite Ez, T_compl.
  assert (Hh : (0 <= z' < 128 * P8 (d + L'))%Z).
  { destruct Hf' as [_ Hf']. pose proof (P8_mono L' (d + L')). lia. }
  replace (d + S L')%nat with (S (d + L')) by lia.
  destruct (T_head_nonneg (d + L') z' Hh) as (b0 & Hb & Hl).
  rewrite (can_truncate_compl _ b0 Hb Hl (T_lt256 _ _)).
  replace (S (d + L')) with (d + S L')%nat by lia.
  apply ct_nonneg; [lia|assumption|assumption].
Qed.

(** ** minimal length = the specification's min_twos_len_fuel *)
Lemma fits_twos_S j z : fits_twos z (S j) = true <-> Fj j z.
Proof. unfold fits_twos, Fj. cbn [Nat.eqb]. rewrite half_S. lia. Qed.

Lemma mtl_S f z j :
  min_twos_len_fuel (S f) z (S j) =
  if fits_twos z (S j) then S j else min_twos_len_fuel f z (S (S j)).
Proof.
  cbn [min_twos_len_fuel]. unfold fits_twos. cbn [Nat.eqb negb]. rewrite andb_true_r. reflexivity.
Qed.

Lemma mtl_props z : Fj 15 z -> forall fuel j,
  (j <= 15)%nat -> (15 - j < fuel)%nat -> (j = O \/ ~ Fj (j - 1) z) ->
  exists L', min_twos_len_fuel fuel z (S j) = S L' /\ (L' <= 15)%nat /\ Fj L' z /\
             (L' = O \/ ~ Fj (L' - 1) z).
Proof.
  intros H15. induction fuel as [|f IH]; intros j Hj Hf Hmin; [lia|].
  rewrite mtl_S. destruct (fits_twos z (S j)) eqn:E.
  - apply fits_twos_S in E. exists j. auto.
  - assert (Hn : ~ Fj j z) by (intros C; apply fits_twos_S in C; congruence).
    assert (j <> 15)%nat by (intros ->; contradiction).
    apply IH; [lia|lia|]. right. replace (S j - 1)%nat with j by lia. exact Hn.
Qed.

Lemma decimal_bytes_model m : fits_twos m 16 = true ->
  skipn (can_truncate (be16 m)) (be16 m) = decimal_bytes m 0 /\
  (16 - can_truncate (be16 m))%nat = length (decimal_bytes m 0) /\
  (length (decimal_bytes m 0) <= 16)%nat.
Proof.
  intros H. apply fits_twos_S in H.
  destruct (mtl_props m H 40 0) as (L' & EL & HL & Hf & Hmin); [lia|lia|left; reflexivity|].
  unfold decimal_bytes. rewrite EL, Nat.add_0_r, T_length, be16_T.
  assert (Ec : can_truncate (spec_twos_be 16 m) = (15 - L')%nat).
  { replace 16%nat with ((15 - L') + S L')%nat by lia. apply can_truncate_minimal; assumption. }
  assert (Esk : skipn (15 - L') (spec_twos_be 16 m) = spec_twos_be (S L') m).
  { replace 16%nat with ((15 - L') + S L')%nat by lia. apply skipn_T. }
  rewrite Ec, Esk. split; [reflexivity|]. lia.
Qed.

(** ** the fit check of the fixed representation *)
Lemma firstn_repeat_app {A} (v t : A) d rest : firstn (S d) (repeat v d ++ t :: rest) = repeat v d ++ [t].
Proof. induction d as [|d IH]; [reflexivity|]. cbn [repeat app firstn] in *. rewrite IH. reflexivity. Qed.

Lemma can_truncate_fixed_nonneg start s' z :
  (0 <= z)%Z -> Fj s' z -> can_truncate (firstn (S start) (spec_twos_be (start + S s') z)) = start.
Proof.
  intros Hz [_ Hf]. pose proof (P8_pos s').
  rewrite T_zero_ext by (rewrite P8_S; lia). rewrite T_S, firstn_repeat_app.
  assert (Hs : zb z s' < 128) by (apply zb_small; lia).
  destruct (N.eq_dec (zb z s') 0) as [E|E].
  - rewrite E, repeat_app_cons, app_nil_r. apply can_truncate_shape3.
  - apply can_truncate_shape1; [exact E|apply land128_zero; exact Hs].
Qed.

Lemma Forall_firstn {A} (P : A -> Prop) n l : Forall P l -> Forall P (firstn n l).
Proof.
  intros H. rewrite <- (firstn_skipn n l) in H. apply Forall_app in H. tauto.
Qed.

Lemma can_truncate_fixed start s' z :
  Fj s' z -> can_truncate (firstn (S start) (spec_twos_be (start + S s') z)) = start.
Proof.
  intros Hf. destruct (Z_le_gt_dec 0 z) as [Hz|Hz]; [apply can_truncate_fixed_nonneg; assumption|].
  set (z' := (- z - 1)%Z). assert (Ez : z = (- z' - 1)%Z) by (unfold z'; lia). clearbody z'.
  assert (Hf' : Fj s' z') by (unfold Fj in *; lia).
  rewrite Ez, T_compl, firstn_map.
  assert (Hh : (0 <= z' < 128 * P8 (start + s'))%Z).
  { destruct Hf' as [_ Hf']. pose proof (P8_mono s' (start + s')). lia. }
  replace (start + S s')%nat with (S (start + s')) by lia.
  destruct (T_head_nonneg (start + s') z' Hh) as (b0 & Hb & Hl).
  rewrite (can_truncate_compl _ b0).
  - replace (S (start + s')) with (start + S s')%nat by lia.
    apply can_truncate_fixed_nonneg; [lia|assumption].
  - destruct (spec_twos_be (S (start + s')) z'); [discriminate|exact Hb].
  - exact Hl.
  - apply Forall_firstn, T_lt256.
Qed.

(** ** ser_decimal on a value that needs no rescaling *)
Lemma rescale_same m s : rescale m s s = Some m.
Proof. unfold rescale. rewrite N.eqb_refl. reflexivity. Qed.

Lemma runs_ser_decimal_bytes m s : fits_twos m 16 = true ->
  runs (ser_decimal (DRegular s None) m s) tt (ld (decimal_bytes m 0)).
Proof.
  intros H. destruct (decimal_bytes_model m H) as (E1 & E2 & E3).
  unfold ser_decimal. rewrite rescale_same. cbv beta iota zeta.
  eapply runs_out; [eapply runs_bind1; [apply runs_write_varint|apply runs_write]|].
  rewrite E1, E2. unfold ld. rewrite spec_long_nat; [reflexivity|].
  unfold len_ok, I64_MAX. lia.
Qed.

Lemma runs_ser_decimal_fixed m s nm size :
  size <=? 16 = true -> fits_twos m (N.to_nat size) = true ->
  runs (ser_decimal (DRegular s (Some (nm, size))) m s) tt (spec_twos_be (N.to_nat size) m).
Proof.
  intros Hs Hf. unfold ser_decimal. rewrite rescale_same. cbv beta iota zeta. rewrite Hs.
  destruct (N.to_nat size) as [|s'] eqn:Es.
  - change (Nat.ltb (16 - 0) 16) with false. cbv iota.
    unfold fits_twos in Hf. cbn [Nat.eqb] in Hf. rewrite Hf. apply runs_write.
  - assert (Hs' : (s' <= 15)%nat) by lia.
    assert (E : Nat.ltb (16 - S s') 16 = true) by (apply Nat.ltb_lt; lia). rewrite E.
    apply fits_twos_S in Hf. rewrite be16_T.
    assert (Ec : can_truncate (firstn (S (16 - S s')) (spec_twos_be 16 m)) = (16 - S s')%nat).
    { replace 16%nat with ((16 - S s') + S s')%nat at 2 by lia. apply can_truncate_fixed. exact Hf. }
    assert (Esk : skipn (16 - S s') (spec_twos_be 16 m) = spec_twos_be (S s') m).
    { replace 16%nat with ((16 - S s') + S s')%nat at 2 by lia. apply skipn_T. }
    rewrite Ec, Nat.ltb_irrefl, Esk. apply runs_write.
Qed.

Lemma encode_long_length z : (1 <= length (encode_long z) <= 10)%nat.
Proof. apply encode_u64_length. Qed.

Lemma runs_ser_decimal_big m s : fits_twos m 16 = true -> (Z.of_N s <= I64_MAX)%Z ->
  runs (ser_decimal DBig m s) tt (ld (ld (decimal_bytes m 0) ++ spec_long (Z.of_N s))).
Proof.
  intros H Hs. destruct (decimal_bytes_model m H) as (E1 & E2 & E3).
  unfold ser_decimal. cbv beta iota zeta.
  eapply runs_out.
  - eapply runs_bind1; [apply runs_write_varint|].
    eapply runs_bind1; [apply runs_write|].
    eapply runs_bind1; [apply runs_write|apply runs_write].
  - rewrite E1, E2.
    assert (Es : spec_long (Z.of_N s) = encode_long (Z.of_N s))
      by (apply spec_long_is_encode_long; unfold I64_MIN; lia).
    assert (El : spec_long (Z.of_nat (length (decimal_bytes m 0))) =
                 encode_long (Z.of_nat (length (decimal_bytes m 0))))
      by (apply spec_long_nat; unfold len_ok, I64_MAX; lia).
    unfold ld at 1. rewrite !app_length. unfold ld. rewrite app_length, Es, El.
    pose proof (encode_long_length (Z.of_N s)).
    pose proof (encode_long_length (Z.of_nat (length (decimal_bytes m 0)))).
    rewrite spec_long_nat by (unfold len_ok, I64_MAX; lia).
    rewrite <- !app_assoc. f_equal. f_equal. lia.
Qed.

(* ------------------------------------------------------------------ *)
(** * The decimal string grammar: parse (print m s) = (m, s) *)

Lemma digits_val_app a b acc : digits_val (a ++ b) acc = digits_val b (digits_val a acc).
Proof. revert acc. induction a as [|d a IH]; intros acc; [reflexivity|]. cbn [app digits_val]. apply IH. Qed.

Lemma digits_val_zeros j l : digits_val (repeat 48 j ++ l) 0 = digits_val l 0.
Proof. induction j as [|j IH]; [reflexivity|]. cbn [repeat app digits_val]. exact IH. Qed.

Lemma forallb_repeat {A} (f : A -> bool) v j : f v = true -> forallb f (repeat v j) = true.
Proof. intros H. induction j; [reflexivity|]. cbn [repeat forallb]. rewrite H. exact IHj. Qed.

Lemma pow10_S k : 10 ^ N.of_nat (S k) = 10 * 10 ^ N.of_nat k.
Proof. rewrite Nat2N.inj_succ, N.pow_succ_r'. reflexivity. Qed.

Lemma ddf_spec : forall fuel n acc, n < 2 ^ N.of_nat fuel -> fuel <> O ->
  exists ds, dec_digits_fuel fuel n acc = ds ++ acc /\ forallb is_digit ds = true /\ ds <> [] /\
             digits_val ds 0 = n /\
             (forall k, n < 10 ^ N.of_nat k -> (1 <= k)%nat -> (length ds <= k)%nat).
Proof.
  induction fuel as [|f IH]; intros n acc Hn Hf; [congruence|].
  cbn [dec_digits_fuel]. destruct (n <? 10) eqn:E.
  - apply N.ltb_lt in E. exists [48 + n mod 10]. split; [reflexivity|].
    split; [cbn [forallb]; unfold is_digit; lia|]. split; [discriminate|].
    split; [cbn [digits_val]; lia|]. intros k _ Hk. cbn [length]. lia.
  - apply N.ltb_ge in E.
    assert (Hf0 : f <> O).
    { intros ->. change (2 ^ N.of_nat 1) with 2 in Hn. lia. }
    assert (Hn' : n / 10 < 2 ^ N.of_nat f).
    { rewrite Nat2N.inj_succ, N.pow_succ_r' in Hn. lia. }
    destruct (IH (n / 10) ((48 + n mod 10) :: acc) Hn' Hf0) as (ds & E1 & E2 & E3 & E4 & E5).
    exists (ds ++ [48 + n mod 10]). rewrite E1, <- app_assoc. split; [reflexivity|].
    split; [rewrite forallb_app, E2; cbn [forallb]; unfold is_digit; lia|].
    split; [destruct ds; discriminate|].
    split; [rewrite digits_val_app, E4; cbn [digits_val]; lia|].
    intros k Hk1 Hk2. destruct k as [|k]; [lia|].
    rewrite pow10_S in Hk1. rewrite app_length. cbn [length].
    destruct k as [|k]; [change (10 ^ N.of_nat 0) with 1 in Hk1; lia|].
    assert (length ds <= S k)%nat by (apply E5; lia). lia.
Qed.

Lemma dec_digits_spec n :
  forallb is_digit (dec_digits n) = true /\ dec_digits n <> [] /\ digits_val (dec_digits n) 0 = n /\
  (forall k, n < 10 ^ N.of_nat k -> (1 <= k)%nat -> (length (dec_digits n) <= k)%nat).
Proof.
  unfold dec_digits.
  destruct (ddf_spec (S (N.to_nat (N.log2 n))) n []) as (ds & E1 & E2 & E3 & E4 & E5).
  - rewrite Nat2N.inj_succ, N2Nat.id. destruct (N.eq_dec n 0) as [->|Hn]; [reflexivity|].
    apply N.log2_spec. lia.
  - discriminate.
  - rewrite E1, app_nil_r. auto.
Qed.

(** the parser, in two steps *)
Definition strip_neg (s : bytes) : bool * bytes :=
  match s with 45 :: t => (true, t) | _ => (false, s) end.

Definition parse_body (neg : bool) (body : bytes) : option (Z * N) :=
  let (ip, fp) := split_dot body [] in
  let fpd := match fp with Some f => f | None => [] end in
  if negb (forallb is_digit ip) || negb (forallb is_digit fpd) then None
  else if Nat.eqb (length ip) 0 then None
  else if (match fp with Some [] => true | _ => false end) then None
  else if Nat.ltb 28 (length fpd) || Nat.ltb 40 (length ip + length fpd) then None
  else
    let m := Z.of_N (digits_val (ip ++ fpd) 0) in
    if (m <? 2 ^ 96)%Z then Some ((if neg then - m else m)%Z, N.of_nat (length fpd)) else None.

Lemma parse_decimal_eq s : parse_decimal s = let (neg, body) := strip_neg s in parse_body neg body.
Proof. reflexivity. Qed.

Lemma strip_neg_spec c t : strip_neg (c :: t) = if c =? 45 then (true, t) else (false, c :: t).
Proof.
  destruct c as [|p]; [reflexivity|].
  do 6 (destruct p as [p|p|]; try reflexivity).
Qed.

Lemma is_digit_not_dot c : is_digit c = true -> c =? 46 = false.
Proof. unfold is_digit. lia. Qed.

Lemma split_dot_nodot ip : forall acc,
  forallb is_digit ip = true -> split_dot ip acc = (rev acc ++ ip, None).
Proof.
  induction ip as [|d ip IH]; intros acc H.
  - cbn [split_dot]. rewrite app_nil_r. reflexivity.
  - cbn [forallb] in H. apply andb_prop in H. destruct H as [Hd H].
    cbn [split_dot]. rewrite (is_digit_not_dot d Hd). rewrite IH by exact H.
    cbn [rev]. rewrite <- !app_assoc. reflexivity.
Qed.

Lemma split_dot_dot ip t : forall acc,
  forallb is_digit ip = true -> split_dot (ip ++ 46 :: t) acc = (rev acc ++ ip, Some t).
Proof.
  induction ip as [|d ip IH]; intros acc H.
  - cbn [app split_dot]. rewrite N.eqb_refl, app_nil_r. reflexivity.
  - cbn [forallb] in H. apply andb_prop in H. destruct H as [Hd H].
    cbn [app split_dot]. rewrite (is_digit_not_dot d Hd). rewrite IH by exact H.
    cbn [rev]. rewrite <- !app_assoc. reflexivity.
Qed.

Lemma parse_body_digits neg ip fpo :
  forallb is_digit ip = true -> ip <> [] ->
  match fpo with
  | Some f => forallb is_digit f = true /\ f <> [] /\ (length f <= 28)%nat
  | None => True
  end ->
  let fpd := match fpo with Some f => f | None => [] end in
  (length ip + length fpd <= 40)%nat ->
  (Z.of_N (digits_val (ip ++ fpd) 0) < 2 ^ 96)%Z ->
  parse_body neg (ip ++ match fpo with Some f => 46 :: f | None => [] end) =
  Some ((if neg then - Z.of_N (digits_val (ip ++ fpd) 0) else Z.of_N (digits_val (ip ++ fpd) 0))%Z,
        N.of_nat (length fpd)).
Proof.
  intros Hip Hne Hfp fpd Hlen Hval. subst fpd. unfold parse_body.
  assert (E1 : Nat.eqb (length ip) 0 = false) by (destruct ip; [congruence|reflexivity]).
  apply Z.ltb_lt in Hval.
  destruct fpo as [f|].
  - destruct Hfp as (Hf & Hfn & Hfl).
    rewrite split_dot_dot by exact Hip. cbn [rev app]. cbv beta iota zeta.
    rewrite Hip, Hf, E1. cbn [negb orb].
    assert (E2 : (match f with [] => true | _ => false end) = false) by (destruct f; [congruence|reflexivity]).
    rewrite E2.
    assert (E3 : Nat.ltb 28 (length f) = false) by (apply Nat.ltb_ge; exact Hfl).
    assert (E4 : Nat.ltb 40 (length ip + length f) = false) by (apply Nat.ltb_ge; exact Hlen).
    rewrite E3, E4. cbn [orb]. rewrite Hval. reflexivity.
  - rewrite app_nil_r. rewrite split_dot_nodot by exact Hip. cbn [rev app]. cbv beta iota zeta.
    rewrite Hip, E1. cbn [forallb negb orb length].
    assert (E4 : Nat.ltb 40 (length ip + 0) = false) by (apply Nat.ltb_ge; exact Hlen).
    rewrite E4. change (Nat.ltb 28 0) with false. cbn [orb].
    rewrite ?app_nil_r in *. rewrite Hval. reflexivity.
Qed.

Lemma pow2_96_lt_pow10_29 : 2 ^ 96 < 10 ^ N.of_nat 29.
Proof. vm_compute. reflexivity. Qed.

Theorem parse_decimal_to_string m s :
  (Z.abs m < 2 ^ 96)%Z -> s <= 28 -> parse_decimal (decimal_to_string m s) = Some (m, s).
Proof.
  intros Hm Hs. unfold decimal_to_string.
  set (a := Z.to_N (Z.abs m)).
  assert (Ha : a < 2 ^ 96) by (unfold a; change (2 ^ 96) with (Z.to_N (2 ^ 96)); lia).
  destruct (dec_digits_spec a) as (D1 & D2 & D3 & D4).
  assert (Dl : (length (dec_digits a) <= 29)%nat).
  { apply D4; [|lia]. eapply N.lt_trans; [exact Ha|apply pow2_96_lt_pow10_29]. }
  set (ds := dec_digits a) in *.
  set (body := if s =? 0 then ds else _).
  assert (Hbody : forall neg, parse_body neg body =
            Some ((if neg then - Z.of_N a else Z.of_N a)%Z, s) /\
            exists d rest, body = d :: rest /\ is_digit d = true).
  { intros neg. unfold body. destruct (s =? 0) eqn:Es.
    - apply N.eqb_eq in Es. subst s.
      pose proof (parse_body_digits neg ds None D1 D2 I) as P. cbv beta iota zeta in P.
      rewrite !app_nil_r in P. rewrite D3 in P. split.
      + apply P; [cbn [length]; lia|]. change (2 ^ 96)%Z with (Z.of_N (2 ^ 96)). lia.
      + destruct ds as [|d rest]; [congruence|]. exists d, rest. split; [reflexivity|].
        cbn [forallb] in D1. apply andb_prop in D1. tauto.
    - apply N.eqb_neq in Es.
      set (sn := N.to_nat s). set (padded := pad_left (S sn) ds).
      assert (Hp1 : forallb is_digit padded = true).
      { unfold padded, pad_left. rewrite forallb_app, D1, forallb_repeat; reflexivity. }
      assert (Hp2 : digits_val padded 0 = a) by (unfold padded, pad_left; rewrite digits_val_zeros; exact D3).
      assert (Hp3 : (S sn <= length padded <= 29)%nat).
      { unfold padded, pad_left. rewrite app_length, repeat_length. unfold sn. lia. }
      set (ip := firstn (length padded - sn) padded). set (fp := skipn (length padded - sn) padded).
      assert (Hsplit : ip ++ fp = padded) by apply firstn_skipn.
      assert (Hl1 : length ip = (length padded - sn)%nat) by (unfold ip; rewrite firstn_length; lia).
      assert (Hl2 : length fp = sn) by (unfold fp; rewrite skipn_length; lia).
      rewrite <- Hsplit, forallb_app in Hp1. apply andb_prop in Hp1. destruct Hp1 as [Hi Hf].
      match goal with |- context [lit ?x ++ fp] => change (lit x ++ fp) with (46 :: fp) end.
      assert (Hne : ip <> []) by (intros C; rewrite C in Hl1; cbn [length] in Hl1; lia).
      pose proof (parse_body_digits neg ip (Some fp) Hi Hne) as P. cbv beta iota zeta in P.
      rewrite Hsplit, Hp2, Hl2 in P. unfold sn in P at 3. rewrite N2Nat.id in P. split.
      + apply P.
        * split; [exact Hf|]. split; [intros C; rewrite C in Hl2; cbn [length] in Hl2; unfold sn in Hl2; lia|].
          unfold sn. lia.
        * lia.
        * change (2 ^ 96)%Z with (Z.of_N (2 ^ 96)). lia.
      + destruct ip as [|d rest]; [congruence|]. exists d, (rest ++ 46 :: fp). split; [reflexivity|].
        cbn [forallb] in Hi. apply andb_prop in Hi. tauto. }
  clearbody body. rewrite parse_decimal_eq.
  destruct (m <? 0)%Z eqn:Eneg.
  - match goal with |- context [lit ?x ++ body] => change (lit x ++ body) with (45 :: body) end. rewrite strip_neg_spec. rewrite N.eqb_refl.
    destruct (Hbody true) as [-> _]. f_equal. f_equal. unfold a. lia.
  - destruct (Hbody false) as [P (d & rest & -> & Hd)]. rewrite strip_neg_spec.
    assert (E : d =? 45 = false) by (unfold is_digit in Hd; lia). rewrite E, P.
    f_equal. f_equal. unfold a. lia.
Qed.

(* ------------------------------------------------------------------ *)
(** * Side conditions on values, induction principle *)

(* no ADecimal / ABigDecimal anywhere *)
Fixpoint no_decimal (v : avalue) : bool :=
  match v with
  | ADecimal _ | ABigDecimal _ _ => false
  | AArray vs => forallb no_decimal vs
  | AMap kvs => forallb (fun kv => no_decimal (snd kv)) kvs
  | AUnion _ v' => no_decimal v'
  | ARecord vs => forallb no_decimal vs
  | _ => true
  end.

(* every length and index the encoding writes as a long fits an i64 (usize -> i64 try_into) *)
Fixpoint sizes_ok (v : avalue) : bool :=
  match v with
  | ABytes bs | AString bs => len_ok (length bs)
  | AArray vs => len_ok (length vs) && forallb sizes_ok vs
  | AMap kvs => len_ok (length kvs) && forallb (fun kv => len_ok (length (fst kv)) && sizes_ok (snd kv)) kvs
  | AUnion i v' => len_ok i && sizes_ok v'
  | ARecord vs => forallb sizes_ok vs
  | AEnum i => len_ok i
  | _ => true
  end.

Definition children (v : avalue) : list avalue :=
  match v with
  | AArray vs => vs
  | AMap kvs => map snd kvs
  | AUnion _ v' => [v']
  | ARecord vs => vs
  | _ => []
  end.

Section AInd.
Variable P : avalue -> Prop.
Hypothesis H : forall v, Forall P (children v) -> P v.

Fixpoint avalue_children_ind (v : avalue) : P v :=
  H v (match v return Forall P (children v) with
       | AArray vs =>
           (fix go (l : list avalue) : Forall P l :=
              match l with [] => Forall_nil _ | x :: t => Forall_cons x (avalue_children_ind x) (go t) end) vs
       | AMap kvs =>
           (fix go (l : list (bytes * avalue)) : Forall P (map snd l) :=
              match l with
              | [] => Forall_nil _
              | (b, x) :: t => Forall_cons x (avalue_children_ind x) (go t)
              end) kvs
       | AUnion _ v' => Forall_cons v' (avalue_children_ind v') (Forall_nil _)
       | ARecord vs =>
           (fix go (l : list avalue) : Forall P l :=
              match l with [] => Forall_nil _ | x :: t => Forall_cons x (avalue_children_ind x) (go t) end) vs
       | _ => Forall_nil _
       end).
End AInd.

(* case analysis on the node under a conformance hypothesis: only matching kinds survive *)
Ltac conf_cases n Hc :=
  destruct n; try (cbn [conforms] in Hc; discriminate Hc);
  try (exfalso; cbn [conforms] in Hc;
       match type of Hc with
       | context [match ?r with Some _ => _ | None => _ end] => destruct r as [[? ?]|]; discriminate Hc
       end).

(* the documented limits of the decimal support: 96-bit mantissa, scale at most 28
   (rust_decimal); the 16-byte bound on fixed decimals is already part of [conforms] *)
Section Lim.
Variable Sc : fschema.

Fixpoint value_limits (n : fnode) (v : avalue) {struct v} : bool :=
  let at_key (k : nat) (v' : avalue) : bool :=
    match fnode_at Sc k with Some n' => value_limits n' v' | None => false end in
  match v with
  | ADecimal m =>
      (Z.abs m <? 2 ^ 96)%Z && match n with FDecimal _ scale _ => scale <=? 28 | _ => false end
  | ABigDecimal m s => (Z.abs m <? 2 ^ 96)%Z && (s <=? 28)
  | AArray vs => match n with FArray k => forallb (at_key k) vs | _ => false end
  | AMap kvs => match n with FMap k => forallb (fun kv => at_key k (snd kv)) kvs | _ => false end
  | AUnion i v' =>
      match n with
      | FUnion ks => match nth_error ks i with Some k => at_key k v' | None => false end
      | _ => false
      end
  | ARecord vs =>
      match n with
      | FRecord _ fields =>
          (fix go (fs : list (bytes * nat)) (vs : list avalue) {struct vs} : bool :=
             match fs, vs with
             | [], [] => true
             | (_, k) :: fr, v' :: vr => at_key k v' && go fr vr
             | _, _ => false
             end) fields vs
      | _ => false
      end
  | _ => true
  end.

Definition lim_at (k : nat) (v : avalue) : bool :=
  match fnode_at Sc k with Some n' => value_limits n' v | None => false end.
Definition lim_fields :=
  fix go (fs : list (bytes * nat)) (vs : list avalue) {struct vs} : bool :=
    match fs, vs with
    | [], [] => true
    | (_, k) :: fr, v' :: vr => lim_at k v' && go fr vr
    | _, _ => false
    end.

Lemma value_limits_AArray k vs : value_limits (FArray k) (AArray vs) = forallb (lim_at k) vs.
Proof. reflexivity. Qed.
Lemma value_limits_AMap k kvs :
  value_limits (FMap k) (AMap kvs) = forallb (fun kv => lim_at k (snd kv)) kvs.
Proof. reflexivity. Qed.
Lemma value_limits_AUnion ks i v' :
  value_limits (FUnion ks) (AUnion i v') =
  match nth_error ks i with Some k => lim_at k v' | None => false end.
Proof. reflexivity. Qed.
Lemma value_limits_ARecord nm fs vs : value_limits (FRecord nm fs) (ARecord vs) = lim_fields fs vs.
Proof. reflexivity. Qed.

(* a value without decimals is within the limits *)
Definition Pnd (v : avalue) : Prop :=
  forall n, conforms Sc n v = true -> no_decimal v = true -> value_limits n v = true.

Lemma Pnd_at k v : Pnd v -> conf_at Sc k v = true -> no_decimal v = true -> lim_at k v = true.
Proof.
  unfold conf_at, lim_at. intros H Hc Hd. destruct (fnode_at Sc k); [apply H; assumption|discriminate].
Qed.

Theorem no_decimal_limits : forall v, Pnd v.
Proof.
  induction v as [v IH] using avalue_children_ind.
  destruct v; cbn [children] in IH; intros n Hc Hd; try reflexivity; try discriminate Hd.
  - conf_cases n Hc. rewrite conforms_AArray in Hc. rewrite value_limits_AArray.
    cbn [no_decimal] in Hd. induction IH as [|v vs Hv _ IHl]; [reflexivity|].
    cbn [forallb] in *. apply andb_prop in Hc, Hd. destruct Hc, Hd.
    rewrite (Pnd_at items v Hv), IHl by assumption. reflexivity.
  - conf_cases n Hc. rewrite conforms_AMap in Hc. rewrite value_limits_AMap.
    cbn [no_decimal] in Hd. induction kvs as [|kv kvs IHl]; [reflexivity|].
    cbn [map] in IH. inversion IH as [|? ? Hv IH']; subst.
    cbn [forallb] in *. apply andb_prop in Hc, Hd. destruct Hc as [Hc1 Hc], Hd as [Hd1 Hd].
    apply andb_prop in Hc1. destruct Hc1 as [_ Hc1].
    rewrite (Pnd_at values (snd kv) Hv), IHl by assumption. reflexivity.
  - conf_cases n Hc. rewrite conforms_AUnion in Hc. rewrite value_limits_AUnion.
    cbn [no_decimal] in Hd. inversion IH as [|? ? Hv _]; subst.
    destruct (nth_error variants branch); [|discriminate]. apply Pnd_at; assumption.
  - conf_cases n Hc. rewrite conforms_ARecord in Hc. rewrite value_limits_ARecord.
    apply andb_prop in Hc. destruct Hc as [_ Hc]. cbn [no_decimal] in Hd.
    clear n. revert fields0 Hc. induction IH as [|v vs Hv _ IHl]; intros [|[f k] fs] Hc;
      try discriminate Hc; [reflexivity|].
    cbn [conf_fields lim_fields] in *. fold (conf_fields Sc) in Hc. fold lim_fields.
    cbn [forallb] in Hd. apply andb_prop in Hc, Hd. destruct Hc, Hd.
    rewrite (Pnd_at k v Hv), IHl by assumption. reflexivity.
Qed.

End Lim.


(* ------------------------------------------------------------------ *)
(** * The main induction *)

Section Main.
Variable Sc : fschema.
Hypothesis Hwf : schema_wf Sc = true.

Lemma node_wf_at k n : fnode_at Sc k = Some n -> node_wf Sc n = true.
Proof.
  intros E. unfold schema_wf in Hwf. apply andb_prop in Hwf. destruct Hwf as [_ Hall].
  rewrite forallb_forall in Hall. apply Hall. eapply nth_error_In. exact E.
Qed.

Definition Pv (v : avalue) : Prop :=
  forall n, node_wf Sc n = true -> conforms Sc n v = true -> value_limits Sc n v = true ->
  sizes_ok v = true ->
  runs (ser Sc n (present Sc n v)) tt (spec_encode Sc n v).

Definition Pat (k : nat) (v : avalue) : Prop :=
  runs (ser_at Sc k (present_at Sc k v)) tt (enc_at Sc k (canon v)).

Lemma Pv_at k v : Pv v -> conf_at Sc k v = true -> lim_at Sc k v = true -> sizes_ok v = true -> Pat k v.
Proof.
  intros HP Hc Hd Hs. unfold Pat, conf_at, lim_at, ser_at, present_at, enc_at in *.
  destruct (fnode_at Sc k) as [n|] eqn:E; [|discriminate].
  apply HP; auto. eapply node_wf_at; eassumption.
Qed.

(** ** leaves *)

Lemma Zin_i32_i64 z : Zin I32_MIN I32_MAX z = true -> (I64_MIN <= z <= I64_MAX)%Z.
Proof. unfold Zin, I32_MIN, I32_MAX, I64_MIN, I64_MAX. lia. Qed.
Lemma Zin_i64 z : Zin I64_MIN I64_MAX z = true -> (I64_MIN <= z <= I64_MAX)%Z.
Proof. unfold Zin. lia. Qed.

Lemma case_ANull : Pv ANull.
Proof.
  intros n _ Hc _ _. conf_cases n Hc.
  change (runs (sret tt) tt []). apply runs_ret.
Qed.

Lemma case_ABool b : Pv (ABool b).
Proof.
  intros n _ Hc _ _. conf_cases n Hc.
  change (runs (write [if b then 1 else 0]) tt [if b then 1 else 0]). apply runs_write.
Qed.

Lemma case_AInt z : Pv (AInt z).
Proof.
  intros n _ Hc _ _.
  conf_cases n Hc; cbn [conforms] in Hc;
  change (present Sc _ (AInt z)) with (SInt true W32 z); rewrite ser_SInt;
  rewrite via_union_leaf by reflexivity; cbn [ser_int_leaf]; rewrite Hc;
  change (spec_encode Sc _ (AInt z)) with (spec_long z);
  rewrite spec_long_is_encode_long by (apply Zin_i32_i64; exact Hc); apply runs_write_varint.
Qed.

Lemma case_ALong z : Pv (ALong z).
Proof.
  intros n _ Hc _ _.
  conf_cases n Hc; cbn [conforms] in Hc;
  change (present Sc _ (ALong z)) with (SInt true W64 z); rewrite ser_SInt;
  rewrite via_union_leaf by reflexivity; cbn [ser_int_leaf]; rewrite Hc;
  change (spec_encode Sc _ (ALong z)) with (spec_long z);
  rewrite spec_long_is_encode_long by (apply Zin_i64; exact Hc); apply runs_write_varint.
Qed.

Lemma case_AFloat bits : Pv (AFloat bits).
Proof.
  intros n _ Hc _ _. conf_cases n Hc.
  change (runs (write (le_bytes 4 bits)) tt (spec_le 4 bits)).
  rewrite le_bytes_spec_le. apply runs_write.
Qed.

Lemma case_ADouble bits : Pv (ADouble bits).
Proof.
  intros n _ Hc _ _. conf_cases n Hc.
  change (runs (write (le_bytes 8 bits)) tt (spec_le 8 bits)).
  rewrite le_bytes_spec_le. apply runs_write.
Qed.

Lemma case_ABytes bs : Pv (ABytes bs).
Proof.
  intros n _ Hc _ Hs. conf_cases n Hc.
  change (runs (write_ld bs) tt (ld bs)). apply runs_write_ld. exact Hs.
Qed.

Lemma case_AString s : Pv (AString s).
Proof.
  intros n _ Hc _ Hs. conf_cases n Hc.
  - change (runs (write_ld s) tt (ld s)). apply runs_write_ld. exact Hs.
  - change (runs (write_ld s) tt (ld s)). apply runs_write_ld. exact Hs.
Qed.

Lemma case_AFixed bs : Pv (AFixed bs).
Proof.
  intros n _ Hc _ _. conf_cases n Hc. cbn [conforms] in Hc.
  apply andb_prop in Hc. destruct Hc as [_ Hc]. apply N.eqb_eq in Hc.
  change (present Sc _ (AFixed bs)) with (SBytes bs). rewrite ser_SBytes.
  rewrite via_union_leaf by reflexivity. cbn [ser_bytes_leaf].
  rewrite <- Hc, N.eqb_refl.
  change (spec_encode Sc _ (AFixed bs)) with bs. apply runs_write.
Qed.

Lemma case_AEnum i : Pv (AEnum i).
Proof.
  intros n Hn Hc _ Hs. conf_cases n Hc. cbn [conforms] in Hc.
  apply Nat.ltb_lt in Hc.
  change (present Sc _ (AEnum i)) with (SStr (nth i symbols [])). rewrite ser_SStr.
  rewrite via_union_leaf by reflexivity. cbn [ser_str_leaf].
  unfold node_wf in Hn. apply andb_prop in Hn. destruct Hn as [_ Hn].
  apply andb_prop in Hn. destruct Hn as [Hn _]. apply andb_prop in Hn. destruct Hn as [Hn _].
  apply andb_prop in Hn. destruct Hn as [Hn _].
  rewrite symbol_index_nth by assumption.
  change (spec_encode Sc _ (AEnum i)) with (spec_long (Z.of_nat i)).
  rewrite spec_long_nat by exact Hs. apply runs_write_varint.
Qed.

Lemma case_ADuration a b c : Pv (ADuration a b c).
Proof.
  intros n _ Hc _ _. conf_cases n Hc.
  change (present Sc _ (ADuration a b c)) with
    (STuple [SInt false W32 (Z.of_N a); SInt false W32 (Z.of_N b); SInt false W32 (Z.of_N c)]).
  rewrite ser_STuple. rewrite via_union_leaf by reflexivity.
  change (spec_encode Sc _ (ADuration a b c)) with (spec_le 4 a ++ spec_le 4 b ++ spec_le 4 c).
  rewrite <- !le_bytes_spec_le.
  cbn [seq_leaf length extract_u32]. change (N.of_nat 3 =? 3) with true. cbn [negb Nat.leb].
  rewrite !N2Z.id.
  eapply runs_out.
  - eapply runs_bind1.
    + eapply runs_bind1; [apply runs_ret|]. eapply runs_bind1; [apply runs_write|].
      eapply runs_bind1; [apply runs_ret|]. eapply runs_bind1; [apply runs_write|].
      eapply runs_bind1; [apply runs_ret|]. eapply runs_bind1; [apply runs_write|].
      apply runs_ret.
    + cbn [Nat.eqb]. apply runs_ret.
  - cbn [app]. rewrite !app_nil_r. reflexivity.
Qed.

(** ** arrays *)
Lemma Forall_Pat k vs :
  Forall Pv vs -> forallb (conf_at Sc k) vs = true -> forallb (lim_at Sc k) vs = true ->
  forallb sizes_ok vs = true -> Forall (Pat k) vs.
Proof.
  induction 1 as [|v vs Hv _ IH]; intros Hc Hd Hs; [constructor|].
  cbn [forallb] in *. apply andb_prop in Hc, Hd, Hs.
  destruct Hc, Hd, Hs. constructor; [apply Pv_at; assumption|apply IH; assumption].
Qed.

Lemma runs_seq_go k : forall vs blk, Forall (Pat k) vs ->
  runs (seq_go (ser_at Sc) k (blk + N.of_nat (length vs)) (map (present_at Sc k) vs)) blk
       (flat_map (enc_at Sc k) (map canon vs)).
Proof.
  induction vs as [|v vs IH]; intros blk HF.
  - cbn [length map flat_map seq_go]. replace (blk + N.of_nat 0) with blk by lia. apply runs_ret.
  - inversion HF as [|? ? Hv HF']; subst. cbn [map]. rewrite seq_go_cons. cbn [flat_map].
    eapply runs_out.
    + eapply runs_bind1; [apply runs_block_next; cbn [length]; lia|].
      eapply runs_bind1; [exact Hv|].
      replace (blk + N.of_nat (length (v :: vs)) - 1) with (blk + N.of_nat (length vs))
        by (cbn [length]; lia).
      apply IH. exact HF'.
    + reflexivity.
Qed.

Lemma len_ok_N n : len_ok n = true -> (Z.of_N (N.of_nat n) <= I64_MAX)%Z.
Proof. unfold len_ok. lia. Qed.

Lemma case_AArray vs : Forall Pv vs -> Pv (AArray vs).
Proof.
  intros IH n _ Hc Hd Hs. conf_cases n Hc. rewrite conforms_AArray in Hc.
  rewrite value_limits_AArray in Hd. cbn [sizes_ok] in Hs. apply andb_prop in Hs. destruct Hs as [Hl Hs].
  pose proof (Forall_Pat items vs IH Hc Hd Hs) as HF.
  rewrite present_AArray, ser_SSeq, via_union_leaf by reflexivity. rewrite seq_leaf_array.
  eapply runs_out.
  - eapply runs_bind1; [apply runs_block_new, len_ok_N, Hl|].
    eapply runs_bind1; [|apply runs_block_end].
    pose proof (runs_seq_go items vs 0 HF) as H. rewrite N.add_0_l in H. exact H.
  - destruct vs as [|v0 vs'].
    + reflexivity.
    + rewrite spec_encode_AArray_cons. rewrite map_length.
      assert (E : 0 <? N.of_nat (length (v0 :: vs')) = true) by (apply N.ltb_lt; cbn [length]; lia).
      rewrite E. rewrite nat_N_Z. rewrite app_nil_r, <- app_assoc. reflexivity.
Qed.

(** ** maps *)
Definition Pentry (k : nat) (kv : bytes * avalue) : Prop :=
  len_ok (length (fst kv)) = true /\ Pat k (snd kv).

Lemma Forall_Pentry k kvs :
  Forall Pv (map snd kvs) ->
  forallb (fun kv => bytes_okb (fst kv) && utf8_valid (fst kv) && conf_at Sc k (snd kv)) kvs = true ->
  forallb (fun kv => lim_at Sc k (snd kv)) kvs = true ->
  forallb (fun kv => len_ok (length (fst kv)) && sizes_ok (snd kv)) kvs = true ->
  Forall (Pentry k) kvs.
Proof.
  induction kvs as [|kv kvs IH]; intros HF Hc Hd Hs; [constructor|].
  cbn [map] in HF. inversion HF as [|? ? Hv HF']; subst.
  cbn [forallb] in *. apply andb_prop in Hc, Hd, Hs.
  destruct Hc as [Hc1 Hc], Hd as [Hd1 Hd], Hs as [Hs1 Hs].
  apply andb_prop in Hc1, Hs1. destruct Hc1 as [_ Hc1], Hs1 as [Hl Hs1].
  constructor; [|apply IH; assumption].
  split; [exact Hl|]. apply Pv_at; assumption.
Qed.

Lemma map_calls_runs k rs dur hint : forall kvs blk st, pre st -> Forall (Pentry k) kvs ->
  exists st',
    map_calls (ser_at Sc) (ser Sc FString) (RKMap k) rs (blk + N.of_nat (length kvs)) dur hint
      (map (fun kv => (Some (SStr (fst kv)), Some (present_at Sc k (snd kv)))) kvs) st
    = (Ok (rs, blk, dur), rs, st') /\
    good st st' (flat_map (fun kv => ld (fst kv) ++ enc_at Sc k (snd kv))
                          (map (fun kv => (fst kv, canon (snd kv))) kvs)).
Proof.
  induction kvs as [|kv kvs IH]; intros blk st Hst HF.
  - exists st. cbn [length map flat_map]. replace (blk + N.of_nat 0) with blk by lia.
    split; [reflexivity|apply good_refl; exact Hst].
  - inversion HF as [|? ? [Hl Hv] HF']; subst. cbn [map]. rewrite map_calls_map_cons.
    assert (Hm : runs (do* blk' <- (do* b <- block_next (blk + N.of_nat (length (kv :: kvs)));
                                    do* _ <- ser Sc FString (SStr (fst kv)); sret b);
                       do* _ <- ser_at Sc k (present_at Sc k (snd kv));
                       sret blk') (blk + N.of_nat (length kvs))
                      (ld (fst kv) ++ enc_at Sc k (canon (snd kv)))).
    { eapply runs_out.
      - eapply runs_bind1.
        + eapply runs_bind1; [apply runs_block_next; cbn [length]; lia|].
          eapply runs_bind1; [|apply runs_ret].
          rewrite ser_SStr, via_union_leaf by reflexivity. cbn [ser_str_leaf].
          apply runs_write_ld. exact Hl.
        + eapply runs_bind1; [exact Hv|].
          replace (blk + N.of_nat (length (kv :: kvs)) - 1) with (blk + N.of_nat (length kvs))
            by (cbn [length]; lia).
          apply runs_ret.
      - cbn [app]. rewrite !app_nil_r. reflexivity. }
    destruct (Hm st Hst) as (b & st1 & E1 & <- & G1). rewrite E1.
    destruct (IH blk st1 (good_pre _ _ _ G1) HF') as (st2 & E2 & G2).
    exists st2. split; [exact E2|]. cbn [flat_map fst snd].
    eapply good_trans; eassumption.
Qed.

Lemma case_AMap kvs : Forall Pv (map snd kvs) -> Pv (AMap kvs).
Proof.
  intros IH n _ Hc Hd Hs. conf_cases n Hc. rewrite conforms_AMap in Hc.
  rewrite value_limits_AMap in Hd. cbn [sizes_ok] in Hs. apply andb_prop in Hs. destruct Hs as [Hl Hs].
  pose proof (Forall_Pentry values kvs IH Hc Hd Hs) as HF.
  rewrite present_AMap, ser_SMap, via_union_leaf by reflexivity. rewrite start_kind_map.
  intros st Hst.
  destruct (runs_block_new (N.of_nat (length kvs)) (len_ok_N _ Hl) st Hst) as (b & st1 & E1 & <- & G1).
  rewrite (sbind_ok _ _ _ _ _ E1).
  destruct (map_calls_runs values (mkR O [] false) [None; None; None] None kvs 0 st1
              (good_pre _ _ _ G1) HF) as (st2 & E2 & G2).
  rewrite N.add_0_l in E2. rewrite E2. cbn [finish].
  destruct (runs_block_end st2 (good_pre _ _ _ G2)) as ([] & st3 & E3 & _ & G3).
  exists tt, st3. split; [exact E3|]. split; [reflexivity|].
  eapply good_out; [eapply good_trans; [eapply good_trans|]; eassumption|].
  destruct kvs as [|kv0 kvs'].
  - reflexivity.
  - rewrite spec_encode_AMap_cons. rewrite map_length.
    assert (E : 0 <? N.of_nat (length (kv0 :: kvs')) = true) by (apply N.ltb_lt; cbn [length]; lia).
    rewrite E. rewrite nat_N_Z. rewrite app_nil_r. reflexivity.
Qed.

(** ** unions *)
Lemma case_AUnion i v' : Forall Pv [v'] -> Pv (AUnion i v').
Proof.
  intros IH n Hn Hc Hd Hs. inversion IH as [|? ? Hv _]; subst.
  conf_cases n Hc. rewrite conforms_AUnion in Hc. rewrite value_limits_AUnion in Hd.
  destruct (nth_error variants i) as [k|] eqn:Ei; [|discriminate].
  unfold conf_at in Hc. unfold lim_at in Hd. destruct (fnode_at Sc k) as [n'|] eqn:Ek; [|discriminate].
  cbn [sizes_ok] in Hs. apply andb_prop in Hs. destruct Hs as [Hl Hs].
  rewrite present_AUnion, Ei, Ek. rewrite ser_SNewtypeVariant. cbn [named_step].
  rewrite (union_named_type_name Sc variants i k n' Hn Ei Ek).
  rewrite spec_encode_AUnion, Ei. unfold enc_at. rewrite Ek.
  eapply runs_bind1.
  - eapply runs_out.
    + eapply runs_bind1; [apply runs_write_varint|]. apply runs_ret.
    + rewrite app_nil_r. apply spec_long_nat. exact Hl.
  - apply Hv; auto. eapply node_wf_at; eassumption.
Qed.

(** ** records *)
Lemma flush_ready_nil fuel nf b c cap : flush_ready fuel nf b (mkR c [] cap) = sret (mkR c [] cap).
Proof. destruct fuel; [reflexivity|]. cbn [flush_ready r_bufs r_cur]. destruct c; reflexivity. Qed.

Lemma rec_field_idx_hit pre0 key k suf cap :
  rec_field_idx (pre0 ++ (key, k) :: suf) (mkR (length pre0) [] cap) key = Ok (length pre0, k).
Proof.
  unfold rec_field_idx. cbn [r_cur].
  rewrite nth_error_app2 by lia. rewrite Nat.sub_diag. cbn [nth_error].
  rewrite bytes_eqb_refl. reflexivity.
Qed.

Lemma record_value_fast serk fields c cap k v' :
  (c < length fields)%nat ->
  record_value serk fields (mkR c [] cap) c k v' =
  do* _ <- serk k v'; sret (mkR (S c) [] cap).
Proof.
  intros H. unfold record_value. cbn [r_cur r_bufs r_cap]. rewrite Nat.eqb_refl.
  apply Nat.ltb_lt in H. rewrite H. cbn [negb]. rewrite flush_ready_nil. reflexivity.
Qed.

Lemma struct_fields_runs fields blk dur cap : forall vs suf pre0 st,
  fields = pre0 ++ suf -> conf_fields Sc suf vs = true ->
  Forall Pv vs -> lim_fields Sc suf vs = true -> forallb sizes_ok vs = true -> pre st ->
  exists st',
    struct_fields (ser_at Sc) (RKRecord fields) (mkR (length pre0) [] cap) blk dur (pres_fields Sc suf vs) st
    = (Ok (mkR (length fields) [] cap, blk, dur), mkR (length fields) [] cap, st') /\
    good st st' (enc_fields Sc suf (map canon vs)).
Proof.
  induction vs as [|v vs IH]; intros suf pre0 st Hf Hc HP Hd Hs Hst.
  - destruct suf as [|[f k] suf']; [|discriminate Hc].
    rewrite app_nil_r in Hf. subst pre0. exists st. split; [reflexivity|].
    apply good_refl. exact Hst.
  - destruct suf as [|[f k] suf']; [discriminate Hc|].
    cbn [conf_fields] in Hc. fold (conf_fields Sc) in Hc.
    apply andb_prop in Hc. destruct Hc as [Hc1 Hc].
    inversion HP as [|? ? Hv HP']; subst.
    cbn [lim_fields] in Hd. fold (lim_fields Sc) in Hd.
    cbn [forallb] in Hs. apply andb_prop in Hd, Hs. destruct Hd as [Hd1 Hd], Hs as [Hs1 Hs].
    cbn [pres_fields map enc_fields]. fold (pres_fields Sc) (enc_fields Sc).
    rewrite struct_fields_record_cons. rewrite rec_field_idx_hit.
    rewrite record_value_fast by (rewrite app_length; cbn [length]; lia).
    assert (Hm : runs (do* _ <- ser_at Sc k (present_at Sc k v); sret (mkR (S (length pre0)) [] cap))
                      (mkR (S (length pre0)) [] cap) (enc_at Sc k (canon v))).
    { eapply runs_out; [eapply runs_bind1; [apply Pv_at; eassumption|apply runs_ret]|].
      rewrite app_nil_r. reflexivity. }
    destruct (Hm st Hst) as (rs' & st1 & E1 & <- & G1). rewrite E1.
    destruct (IH suf' (pre0 ++ [(f, k)]) st1) as (st2 & E2 & G2); auto.
    + rewrite <- app_assoc. reflexivity.
    + eapply good_pre; eassumption.
    + rewrite app_length in E2. cbn [length] in E2. rewrite Nat.add_1_r in E2.
      exists st2. split; [exact E2|]. eapply good_trans; eassumption.
Qed.

Lemma record_new_runs st : pre st ->
  exists cap st', record_new st = (Ok (mkR O [] cap), st') /\ good st st' [].
Proof.
  intros Hst. unfold record_new, pop_sbuf, sbind, sret.
  destruct (s_sbufs st) as [|v t] eqn:E.
  - exists false, st. split; [reflexivity|apply good_refl; exact Hst].
  - destruct Hst as [Hb [Hp1 Hp2]]. rewrite E in Hp2. inversion Hp2 as [|? ? Hv Ht]; subst.
    exists true, (st_with_sbufs st t). split; [reflexivity|].
    unfold good, pool_ok, st_with_sbufs. cbn. rewrite app_nil_r. auto.
Qed.

Lemma record_end_done fuel fields cap :
  record_end fuel Sc fields (mkR (length fields) [] cap) = sret (mkR (length fields) [] cap).
Proof.
  destruct fuel; [reflexivity|]. cbn [record_end r_cur].
  assert (E : nth_error fields (length fields) = None) by (apply nth_error_None; lia).
  rewrite E. reflexivity.
Qed.

Lemma record_drop_good c cap st : pre st ->
  good st (snd (record_drop (mkR c [] cap) st)) [].
Proof.
  intros Hst. unfold record_drop. cbn [r_cap r_bufs fold_left]. destruct cap; cbn [snd].
  - destruct Hst as [Hb [Hp1 Hp2]].
    unfold good, pool_ok, st_with_sbufs, st_with_bufs. cbn. rewrite app_nil_r. auto 10.
  - apply good_refl. exact Hst.
Qed.

Lemma conf_fields_length : forall vs fs, conf_fields Sc fs vs = true -> length fs = length vs.
Proof.
  induction vs as [|v vs IH]; intros [|[f k] fs] H; try discriminate H; [reflexivity|].
  cbn [conf_fields] in H. fold (conf_fields Sc) in H. apply andb_prop in H. destruct H as [_ H].
  cbn [length]. f_equal. apply IH. exact H.
Qed.

Lemma case_ARecord vs : Forall Pv vs -> Pv (ARecord vs).
Proof.
  intros IH n _ Hc Hd Hs. conf_cases n Hc. rewrite conforms_ARecord in Hc.
  apply andb_prop in Hc. destruct Hc as [_ Hc].
  rewrite value_limits_ARecord in Hd. cbn [sizes_ok] in Hs.
  rewrite present_ARecord, ser_SStruct. rewrite named_step_leaf by reflexivity.
  rewrite spec_encode_ARecord.
  intros st Hst. unfold sbind at 1. unfold sret at 1.
  rewrite via_union_leaf by reflexivity. rewrite start_kind_record.
  destruct (record_new_runs st Hst) as (cap & st1 & E1 & G1).
  rewrite (sbind_ok _ _ _ _ _ E1).
  destruct (struct_fields_runs fields 0 [None; None; None] cap vs fields [] st1 eq_refl Hc IH Hd Hs
              (good_pre _ _ _ G1)) as (st2 & E2 & G2).
  cbn [length] in E2. rewrite E2. cbn [finish]. rewrite record_end_done. unfold sret.
  cbn [r_bufs existsb r_cur r_cap].
  eexists tt, _. split; [reflexivity|]. split; [reflexivity|].
  eapply good_out.
  - eapply good_trans; [eapply good_trans; eassumption|].
    apply record_drop_good. eapply good_pre; eassumption.
  - cbn [app]. rewrite app_nil_r. reflexivity.
Qed.

(** ** decimals *)
Lemma case_ADecimal m : Pv (ADecimal m).
Proof.
  intros n _ Hc Hd _. conf_cases n Hc.
  cbn [value_limits] in Hd. apply andb_prop in Hd. destruct Hd as [Hm Hsc].
  change (present Sc _ (ADecimal m)) with (SStr (decimal_to_string m scale)).
  rewrite ser_SStr, via_union_leaf by reflexivity. cbn [ser_str_leaf].
  rewrite parse_decimal_to_string by lia.
  destruct repr as [[nm size]|]; cbn [conforms] in Hc.
  - apply andb_prop in Hc. destruct Hc as [Hsz Hf].
    change (spec_encode Sc _ (ADecimal m)) with (spec_twos_be (N.to_nat size) m).
    apply runs_ser_decimal_fixed; assumption.
  - change (spec_encode Sc _ (ADecimal m)) with (ld (decimal_bytes m 0)).
    apply runs_ser_decimal_bytes. exact Hc.
Qed.

Lemma case_ABigDecimal m s : Pv (ABigDecimal m s).
Proof.
  intros n _ Hc Hd _. conf_cases n Hc. cbn [conforms] in Hc.
  cbn [value_limits] in Hd. apply andb_prop in Hd. destruct Hd as [Hm Hsc].
  change (present Sc _ (ABigDecimal m s)) with (SStr (decimal_to_string m s)).
  rewrite ser_SStr, via_union_leaf by reflexivity. cbn [ser_str_leaf].
  rewrite parse_decimal_to_string by lia.
  change (spec_encode Sc _ (ABigDecimal m s)) with (ld (ld (decimal_bytes m 0) ++ spec_long (Z.of_N s))).
  apply runs_ser_decimal_big; [exact Hc|]. unfold I64_MAX. lia.
Qed.

Theorem Pv_all : forall v, Pv v.
Proof.
  induction v as [v IH] using avalue_children_ind.
  destruct v; cbn [children] in IH.
  - apply case_ANull.
  - apply case_ABool.
  - apply case_AInt.
  - apply case_ALong.
  - apply case_AFloat.
  - apply case_ADouble.
  - apply case_ABytes.
  - apply case_AString.
  - apply case_AArray; exact IH.
  - apply case_AMap; exact IH.
  - apply case_AUnion; exact IH.
  - apply case_ARecord; exact IH.
  - apply case_AEnum.
  - apply case_AFixed.
  - apply case_ADecimal.
  - apply case_ABigDecimal.
  - apply case_ADuration.
Qed.

End Main.

(* ------------------------------------------------------------------ *)
(** * Main theorems *)

(** The statement as first planned (any node [n], no bound on lengths) is false for two
    reasons, see [ser_present_canonical_literal_false] and [to_datum_present_needs_sizes] below.
    The true statement adds: [n] is itself a well-formed node of [Sc] (true for every node of a
    well-formed schema) and every length / index written as a long fits an i64. *)
Theorem ser_present_canonical_decimal : forall Sc n v st,
  schema_wf Sc = true ->
  node_wf Sc n = true ->
  conforms Sc n v = true ->
  value_limits Sc n v = true ->
  sizes_ok v = true ->
  s_budget st = None ->
  pool_ok st ->
  exists st', ser Sc n (present Sc n v) st = (Ok tt, st')
           /\ s_out st' = s_out st ++ spec_encode Sc n v
           /\ s_budget st' = None /\ pool_ok st' /\ s_slow st' = s_slow st.
Proof.
  intros Sc n v st Hwf Hn Hc Hd Hs Hb Hp.
  destruct (Pv_all Sc Hwf v n Hn Hc Hd Hs st (conj Hb Hp)) as ([] & st' & E & _ & G).
  exists st'. split; [exact E|]. exact G.
Qed.

Theorem ser_present_canonical_sized : forall Sc n v st,
  schema_wf Sc = true ->
  node_wf Sc n = true ->
  conforms Sc n v = true ->
  no_decimal v = true ->
  sizes_ok v = true ->
  s_budget st = None ->
  pool_ok st ->
  exists st', ser Sc n (present Sc n v) st = (Ok tt, st')
           /\ s_out st' = s_out st ++ spec_encode Sc n v
           /\ s_budget st' = None /\ pool_ok st' /\ s_slow st' = s_slow st.
Proof.
  intros Sc n v st Hwf Hn Hc Hd. apply ser_present_canonical_decimal; try assumption.
  apply no_decimal_limits; assumption.
Qed.

(* for a node of the schema, node_wf follows from schema_wf *)
Theorem ser_present_canonical_in_schema : forall Sc k n v st,
  schema_wf Sc = true ->
  fnode_at Sc k = Some n ->
  conforms Sc n v = true ->
  no_decimal v = true ->
  sizes_ok v = true ->
  s_budget st = None ->
  pool_ok st ->
  exists st', ser Sc n (present Sc n v) st = (Ok tt, st')
           /\ s_out st' = s_out st ++ spec_encode Sc n v
           /\ s_budget st' = None /\ pool_ok st' /\ s_slow st' = s_slow st.
Proof.
  intros Sc k n v st Hwf Hk. apply ser_present_canonical_sized; [exact Hwf|].
  eapply node_wf_at; eassumption.
Qed.

Lemma pool_ok_st0 slow : pool_ok (st0 slow).
Proof. split; constructor. Qed.

Theorem to_datum_present_decimal : forall Sc root v slow,
  schema_wf Sc = true -> fnode_at Sc 0 = Some root ->
  conforms Sc root v = true -> value_limits Sc root v = true -> sizes_ok v = true ->
  to_datum Sc slow (present Sc root v) = Ok (spec_encode Sc root v).
Proof.
  intros Sc root v slow Hwf Hr Hc Hd Hs. unfold to_datum. rewrite Hr.
  destruct (ser_present_canonical_decimal Sc root v (st0 slow) Hwf (node_wf_at Sc Hwf 0 root Hr)
              Hc Hd Hs eq_refl (pool_ok_st0 slow)) as (st' & E & O & _).
  rewrite E, O. reflexivity.
Qed.

Theorem to_datum_present_sized : forall Sc root v slow,
  schema_wf Sc = true -> fnode_at Sc 0 = Some root ->
  conforms Sc root v = true -> no_decimal v = true -> sizes_ok v = true ->
  to_datum Sc slow (present Sc root v) = Ok (spec_encode Sc root v).
Proof.
  intros Sc root v slow Hwf Hr Hc Hd Hs. unfold to_datum. rewrite Hr.
  destruct (ser_present_canonical_in_schema Sc 0 root v (st0 slow) Hwf Hr Hc Hd Hs eq_refl
              (pool_ok_st0 slow)) as (st' & E & O & _).
  rewrite E, O. reflexivity.
Qed.

(** ** Why the two extra hypotheses are needed *)

(* 1. a node that is not part of the schema need not be well formed: [n = FUnion [0; 0]] over
      [Sc = [FNull]] has two branches reporting the name "Null"; the by-name lookup (HashMap
      insert, last wins) picks discriminant 1 where the value says branch 0. *)
Lemma foreign_union_counterexample :
  let Sc := [FNull] in let n := FUnion [0; 0]%nat in let v := AUnion 0 ANull in
  schema_wf Sc = true /\ conforms Sc n v = true /\ no_decimal v = true /\ node_wf Sc n = false /\
  ser Sc n (present Sc n v) (st0 false) = (Ok tt, mkS [2] None [] [] false) /\
  spec_encode Sc n v = [0].
Proof. vm_compute. repeat split; reflexivity. Qed.

Theorem ser_present_canonical_literal_false :
  ~ (forall Sc n v st,
       schema_wf Sc = true -> conforms Sc n v = true -> no_decimal v = true ->
       s_budget st = None -> pool_ok st ->
       exists st', ser Sc n (present Sc n v) st = (Ok tt, st')
                /\ s_out st' = s_out st ++ spec_encode Sc n v
                /\ s_budget st' = None /\ pool_ok st' /\ s_slow st' = s_slow st).
Proof.
  intros H.
  destruct (H [FNull] (FUnion [0; 0]%nat) (AUnion 0 ANull) (st0 false)) as (st' & E & O & _);
    try reflexivity; [apply pool_ok_st0|].
  vm_compute in E. inversion E; subst st'. vm_compute in O. discriminate O.
Qed.

(* 2. usize -> i64: a byte string of 2^63 bytes conforms to "bytes" but the serializer refuses
      its length. (The witness cannot be evaluated; the proof is by reasoning.) *)
Lemma bytes_okb_repeat n : bytes_okb (repeat 0 n) = true.
Proof. induction n; [reflexivity|]. cbn [repeat bytes_okb forallb]. exact IHn. Qed.

Theorem to_datum_present_needs_sizes :
  exists v, schema_wf [FBytes] = true /\ conforms [FBytes] FBytes v = true /\ no_decimal v = true /\
            to_datum [FBytes] false (present [FBytes] FBytes v) = Err EData.
Proof.
  assert (Hn : exists n, Z.of_nat n = (2 ^ 63)%Z) by (exists (Z.to_nat (2 ^ 63)); apply Z2Nat.id; lia).
  destruct Hn as [n Hn]. exists (ABytes (repeat 0 n)).
  split; [reflexivity|]. split; [apply bytes_okb_repeat|]. split; [reflexivity|].
  unfold to_datum. cbn [fnode_at nth_error].
  change (present [FBytes] FBytes (ABytes (repeat 0 n))) with (SBytes (repeat 0 n)).
  rewrite ser_SBytes. cbn [via_union ser_bytes_leaf]. unfold write_ld, usize_to_i64.
  rewrite repeat_length.
  assert (E : (Z.of_N (N.of_nat n) <=? I64_MAX)%Z = false) by (unfold I64_MAX; lia).
  rewrite E. reflexivity.
Qed.

(* 3. decimals beyond rust_decimal's 96-bit mantissa are outside the modelled domain of its
      FromStr (the model answers Unmodelled), although they conform (fit 16 bytes) *)
Lemma decimal_limits_counterexample :
  let Sc := [FDecimal 40 0 None] in let v := ADecimal (2 ^ 96) in
  schema_wf Sc = true /\ conforms Sc (FDecimal 40 0 None) v = true /\ sizes_ok v = true /\
  value_limits Sc (FDecimal 40 0 None) v = false /\
  to_datum Sc false (present Sc (FDecimal 40 0 None) v) = Unmodelled.
Proof. vm_compute. repeat split; reflexivity. Qed.

Eval vm_compute in
  (let Sc := [FNull] in let n := FUnion [0; 0]%nat in let v := AUnion 0 ANull in
   (schema_wf Sc, conforms Sc n v, no_decimal v, node_wf Sc n,
    ser Sc n (present Sc n v) (st0 false), spec_encode Sc n v)).

Print Assumptions spec_long_is_encode_long.
Print Assumptions le_bytes_spec_le.
Print Assumptions union_unnamed_not_union.
Print Assumptions union_named_type_name.
Print Assumptions ser_present_canonical_literal_false.
Print Assumptions to_datum_present_needs_sizes.
Print Assumptions to_datum_present_sized.
Print Assumptions parse_decimal_to_string.
Print Assumptions can_truncate_minimal.
Print Assumptions to_datum_present_decimal.
Print Assumptions ser_present_canonical_decimal.
Print Assumptions ser_present_canonical_sized.
