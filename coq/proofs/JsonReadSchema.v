(** The text layer under C09 (task (d)): the TEXT that [schema_json] emits for a well-formed graph reads
    back ([json_of_text]: the reader of model/JsonRead.v with serde_json's limits) to a document that
    parses to a graph with the same canonical form, fingerprint and unfoldings -- for the compact text
    and for every whitespace variant of it.

    Main results
    - [to_json_wf], [schema_doc_wf]       the documents the writer builds satisfy [json_wf]
                                          (strings UTF-8 when the graph's strings are; numbers are decimal naturals)
    - [schema_text_reads_back]            json_of_text (json_text j) = Ok j, also with any whitespace
    - [C09_regen_text]                    C09_regen stated on the text ([parse_schema_text] = serde_json + parser)
    - [C09_regen_text_fingerprint], [C09_regen_text_full_names]
                                          the same as a statement on the emitted text; with UTF-8 required of the
                                          full names only ([utf8_after_dot]: a suffix after a dot stays valid)
    - [depth_needed], [utf8_needed]       both extra hypotheses are needed (128 nested arrays; a non-UTF-8 symbol)
    - [ex_graph_text_roundtrip]           non-vacuity on the 10-node example graph *)
From Coq Require Import NArith ZArith List Lia Bool Arith String.
From Coq Require Import ZifyN ZifyBool ZifyNat.
Require Import Base Utf8 Text Json JsonRead Schema Parse SchemaJson CanonicalForm Rabin.
Require Import PcfSpec SchemaTextProofs SchemaJsonDefs SchemaJsonGuard SchemaJsonProofs JsonReadProofs.
Import ListNotations.
Open Scope N_scope.
Notation length := List.length (only parsing).

Arguments N.add : simpl never.
Arguments N.sub : simpl never.
Arguments N.mul : simpl never.
Arguments N.div : simpl never.
Arguments N.modulo : simpl never.
Arguments N.ltb : simpl never.
Arguments N.leb : simpl never.
Arguments N.eqb : simpl never.

(* ------------------------------------------------------------------ *)
(** * Graphs whose names, field names, symbols and custom logical type names are UTF-8 *)

Definition name_utf8 (nm : name) : Prop :=
  utf8_valid (nm_full nm) = true /\ utf8_valid (name_short nm) = true.
Definition logical_utf8 (lt : option logical) : Prop :=
  match lt with Some (LUnknown s) => utf8_valid s = true | _ => True end.
Definition node_utf8 (n : mnode) : Prop :=
  logical_utf8 (m_logical n) /\
  match m_type n with
  | RRecord nm fs => name_utf8 nm /\ Forall (fun f => utf8_valid (fst f) = true) fs
  | REnum nm syms => name_utf8 nm /\ Forall (fun s => utf8_valid s = true) syms
  | RFixed nm _ => name_utf8 nm
  | _ => True
  end.
Definition graph_utf8 (g : schema_mut) : Prop := Forall node_utf8 g.

(* ------------------------------------------------------------------ *)
(** * The documents the writer builds are well formed *)

Definition mwf (kv : bytes * json) : bool := utf8_valid (fst kv) && json_wf (snd kv).
Lemma json_wf_obj : forall kvs, json_wf (JObj kvs) = forallb mwf kvs.
Proof. reflexivity. Qed.

Lemma utf8_valid_cons_ascii : forall b s, b < 128 -> utf8_valid (b :: s) = utf8_valid s.
Proof.
  intros b s Hb. unfold utf8_valid. cbn [List.length utf8_valid_fuel].
  replace (b <? 128) with true by lia. reflexivity.
Qed.

Lemma jnum_wf : forall n, json_wf (jnum n) = true.
Proof. intros n. apply dec_digits_number_wf. Qed.

Lemma logical_name_utf8 : forall l, logical_utf8 (Some l) -> utf8_valid (logical_name l) = true.
Proof. intros l H. destruct l; try reflexivity. exact H. Qed.

Lemma type_and_logical_wf : forall ty lt, utf8_valid (lit ty) = true -> logical_utf8 lt ->
  forallb mwf (type_and_logical ty lt) = true.
Proof.
  intros ty lt Hty Hlt. unfold type_and_logical. destruct lt as [l|].
  - rewrite forallb_app. cbn [forallb]. unfold mwf at 1 2. cbn [fst snd json_wf].
    rewrite Hty, (logical_name_utf8 l Hlt).
    change (utf8_valid (lit "logicalType")) with true. change (utf8_valid (lit "type")) with true.
    cbn [andb]. destruct l; try reflexivity.
    cbn [forallb]. unfold mwf. cbn [fst snd]. rewrite !jnum_wf. reflexivity.
  - cbn [forallb]. unfold mwf. cbn [fst snd json_wf]. rewrite Hty. reflexivity.
Qed.

Lemma prim_json_wf : forall ty lt, utf8_valid (lit ty) = true -> logical_utf8 lt ->
  json_wf (prim_json ty lt) = true.
Proof.
  intros ty lt Hty Hlt. unfold prim_json. destruct lt as [l|]; [|exact Hty].
  rewrite json_wf_obj. apply type_and_logical_wf; assumption.
Qed.

Lemma str_for_ref_utf8 : forall parent nm, name_utf8 nm -> utf8_valid (str_for_ref parent nm) = true.
Proof.
  intros parent nm [Hf Hs]. unfold str_for_ref. destruct (opt_eqb parent (name_namespace nm)); [exact Hs|].
  destruct (name_namespace nm); [exact Hf|].
  change ([DOT] ++ nm_full nm) with (46 :: nm_full nm). rewrite utf8_valid_cons_ascii by lia. exact Hf.
Qed.

Lemma name_entries_wf : forall parent nm, name_utf8 nm -> forallb mwf (name_entries parent nm) = true.
Proof.
  intros parent nm [Hf Hs]. unfold name_entries. destruct (opt_eqb parent (name_namespace nm)).
  - cbn [forallb]. unfold mwf. cbn [fst snd json_wf]. rewrite Hs. reflexivity.
  - destruct (name_namespace nm).
    + cbn [forallb]. unfold mwf. cbn [fst snd json_wf]. rewrite Hf. reflexivity.
    + cbn [forallb]. unfold mwf. cbn [fst snd json_wf]. rewrite Hs. reflexivity.
Qed.

(* postconditions of the writer's steps *)
Definition post {A} (P : A -> Prop) (r : result A) : Prop := forall a, r = Ok a -> P a.
Lemma post_bind {A B} (Q : A -> Prop) (P : B -> Prop) (r : result A) (k : A -> result B) :
  post Q r -> (forall a, Q a -> post P (k a)) -> post P (rbind r k).
Proof.
  unfold post. destruct r; cbn [rbind]; intros H K b Hb; try discriminate. exact (K a (H a eq_refl) b Hb).
Qed.
Lemma post_ok {A} (P : A -> Prop) (a : A) : P a -> post P (Ok a).
Proof. intros H b Hb. inversion Hb; subst. exact H. Qed.
Lemma post_err {A} (P : A -> Prop) e : post P (@Err A e).
Proof. intros b Hb. discriminate. Qed.

Definition jwf (r : json * jstate) : Prop := json_wf (fst r) = true.
Definition jswf (r : list json * jstate) : Prop := forallb json_wf (fst r) = true.

Lemma wf_variants (F : nat -> jstate -> result (json * jstate)) :
  (forall k s, post jwf (F k s)) -> forall ks st, post jswf (jgo_variants F ks st).
Proof.
  intros HF. induction ks as [|k t IH]; intro st; cbn [jgo_variants]; [apply post_ok; reflexivity|].
  eapply post_bind; [apply HF|]. intros r1 H1. eapply post_bind; [apply IH|]. intros r2 H2.
  apply post_ok. unfold jswf, jwf in *. cbn [fst forallb]. rewrite H1, H2. reflexivity.
Qed.

Lemma wf_fields (F : nat -> jstate -> result (json * jstate)) :
  (forall k s, post jwf (F k s)) -> forall fs st, Forall (fun f => utf8_valid (fst f) = true) fs ->
  post jswf (jgo_fields F fs st).
Proof.
  intros HF. induction fs as [|[fname k] t IH]; intros st Hfs; cbn [jgo_fields]; [apply post_ok; reflexivity|].
  inversion Hfs as [|? ? Hf Ht]; subst. cbn [fst] in Hf.
  eapply post_bind; [apply HF|]. intros r1 H1. eapply post_bind; [apply IH; exact Ht|]. intros r2 H2.
  apply post_ok. unfold jswf, jwf in *. cbn [fst forallb]. rewrite H2. rewrite json_wf_obj.
  cbn [forallb]. unfold mwf. cbn [fst snd json_wf]. rewrite Hf, H1. reflexivity.
Qed.

Lemma wf_guard : forall key st body, (forall s, post jwf (body s)) -> post jwf (jguard key st body).
Proof.
  intros key st body H. unfold jguard. destruct (_ <=? _); [apply post_err|].
  eapply post_bind; [apply H|]. intros r Hr. apply post_ok. exact Hr.
Qed.

Lemma wf_named : forall key parent st nm body, name_utf8 nm -> (forall s, post jwf (body s)) ->
  post jwf (jnamed key parent st nm body).
Proof.
  intros key parent st nm body Hn H. unfold jnamed. destruct (_ <? _); [|apply H].
  apply post_ok. unfold jwf. cbn [fst json_wf]. apply str_for_ref_utf8. exact Hn.
Qed.

Lemma forallb_map_JStr : forall l, Forall (fun s => utf8_valid s = true) l -> forallb json_wf (map JStr l) = true.
Proof.
  intros l H. induction H as [|s l Hs _ IH]; [reflexivity|]. cbn [map forallb json_wf]. rewrite Hs, IH. reflexivity.
Qed.

Lemma to_json_wf : forall fuel g key parent st, graph_utf8 g -> post jwf (to_json fuel g key parent st).
Proof.
  induction fuel as [|f IH]; intros g key parent st Hg; [intros a Ha; discriminate|].
  rewrite to_json_S. destruct (nth_error g key) as [node|] eqn:En; [|apply post_err].
  assert (Hn : node_utf8 node).
  { unfold graph_utf8 in Hg. rewrite Forall_forall in Hg. apply Hg. eapply nth_error_In. exact En. }
  destruct Hn as [Hlt Hty]. cbv zeta.
  destruct (m_type node) as [| | | | | | | |items|values|variants|nm fields|nm symbols|nm size];
    try (apply post_ok; unfold jwf; cbn [fst]; apply prim_json_wf; [reflexivity|exact Hlt]).
  - apply wf_guard. intro s. eapply post_bind; [apply IH; exact Hg|]. intros r Hr. apply post_ok.
    unfold jwf in *. cbn [fst]. rewrite json_wf_obj, forallb_app, type_and_logical_wf by (reflexivity || exact Hlt).
    cbn [forallb]. unfold mwf. cbn [fst snd]. rewrite Hr. reflexivity.
  - apply wf_guard. intro s. eapply post_bind; [apply IH; exact Hg|]. intros r Hr. apply post_ok.
    unfold jwf in *. cbn [fst]. rewrite json_wf_obj, forallb_app, type_and_logical_wf by (reflexivity || exact Hlt).
    cbn [forallb]. unfold mwf. cbn [fst snd]. rewrite Hr. reflexivity.
  - destruct (m_logical node); [apply post_err|].
    apply wf_guard. intro s. eapply post_bind; [apply wf_variants; intros k s0; apply IH; exact Hg|].
    intros r Hr. apply post_ok. exact Hr.
  - destruct Hty as [Hnm Hfs]. apply wf_named; [exact Hnm|]. intro s.
    eapply post_bind; [apply wf_fields; [intros k s0; apply IH; exact Hg|exact Hfs]|].
    intros r Hr. apply post_ok. unfold jwf, jswf in *. cbn [fst].
    rewrite json_wf_obj, !forallb_app, type_and_logical_wf, name_entries_wf by (reflexivity || assumption).
    cbn [forallb]. unfold mwf. cbn [fst snd json_wf]. rewrite Hr. reflexivity.
  - destruct Hty as [Hnm Hsy]. apply wf_named; [exact Hnm|]. intro s. apply post_ok. unfold jwf. cbn [fst].
    rewrite json_wf_obj, !forallb_app, type_and_logical_wf, name_entries_wf by (reflexivity || assumption).
    cbn [forallb]. unfold mwf. cbn [fst snd json_wf]. rewrite forallb_map_JStr by exact Hsy. reflexivity.
  - apply wf_named; [exact Hty|]. intro s. apply post_ok. unfold jwf. cbn [fst].
    rewrite json_wf_obj, !forallb_app, type_and_logical_wf, name_entries_wf by (reflexivity || assumption).
    cbn [forallb]. unfold mwf. cbn [fst snd]. rewrite jnum_wf. reflexivity.
Qed.

(* ------------------------------------------------------------------ *)
(** * UTF-8 validity and an ASCII separator: what follows a dot in a valid string is valid *)

Ltac utf8_step IH H :=
  let Hc := fresh "Hc" in
  apply andb_true_iff in H; destruct H as [Hc H]; apply andb_true_iff; split; [exact Hc|apply IH; [exact H|lia]].

Lemma utf8_fuel_mono : forall f f' s, utf8_valid_fuel f s = true -> (f <= f')%nat -> utf8_valid_fuel f' s = true.
Proof.
  induction f as [|f IH]; intros f' s H Hf; [discriminate|]. destruct f' as [|f']; [lia|].
  cbn [utf8_valid_fuel] in *. destruct s as [|b0 r0]; [reflexivity|].
  destruct (b0 <? 128); [apply IH; [exact H|lia]|].
  destruct (inr 194 223 b0). { destruct r0 as [|b1 r1]; [discriminate|]. utf8_step IH H. }
  destruct (b0 =? 224). { destruct r0 as [|b1 [|b2 r2]]; try discriminate. utf8_step IH H. }
  destruct (inr 225 236 b0 || inr 238 239 b0). { destruct r0 as [|b1 [|b2 r2]]; try discriminate. utf8_step IH H. }
  destruct (b0 =? 237). { destruct r0 as [|b1 [|b2 r2]]; try discriminate. utf8_step IH H. }
  destruct (b0 =? 240). { destruct r0 as [|b1 [|b2 [|b3 r3]]]; try discriminate. utf8_step IH H. }
  destruct (inr 241 243 b0). { destruct r0 as [|b1 [|b2 [|b3 r3]]]; try discriminate. utf8_step IH H. }
  destruct (b0 =? 244). { destruct r0 as [|b1 [|b2 [|b3 r3]]]; try discriminate. utf8_step IH H. }
  discriminate.
Qed.

Ltac utf8_norm IH H :=
  let Hc := fresh "Hc" in
  apply andb_true_iff in H; destruct H as [Hc H]; apply andb_true_iff; split; [exact Hc|];
  apply IH in H; unfold utf8_valid in H; eapply utf8_fuel_mono; [exact H|subst; cbn [List.length]; lia].

Lemma utf8_fuel_valid : forall f s, utf8_valid_fuel f s = true -> utf8_valid s = true.
Proof.
  induction f as [|f IH]; intros s H; [discriminate|].
  cbn [utf8_valid_fuel] in H. destruct s as [|b0 r0]; [reflexivity|].
  unfold utf8_valid. remember (length (b0 :: r0)) as n eqn:En. cbn [utf8_valid_fuel].
  destruct (b0 <? 128).
  { apply IH in H. unfold utf8_valid in H. eapply utf8_fuel_mono; [exact H|subst; cbn [List.length]; lia]. }
  destruct (inr 194 223 b0). { destruct r0 as [|b1 r1]; [discriminate|]. utf8_norm IH H. }
  destruct (b0 =? 224). { destruct r0 as [|b1 [|b2 r2]]; try discriminate. utf8_norm IH H. }
  destruct (inr 225 236 b0 || inr 238 239 b0). { destruct r0 as [|b1 [|b2 r2]]; try discriminate. utf8_norm IH H. }
  destruct (b0 =? 237). { destruct r0 as [|b1 [|b2 r2]]; try discriminate. utf8_norm IH H. }
  destruct (b0 =? 240). { destruct r0 as [|b1 [|b2 [|b3 r3]]]; try discriminate. utf8_norm IH H. }
  destruct (inr 241 243 b0). { destruct r0 as [|b1 [|b2 [|b3 r3]]]; try discriminate. utf8_norm IH H. }
  destruct (b0 =? 244). { destruct r0 as [|b1 [|b2 [|b3 r3]]]; try discriminate. utf8_norm IH H. }
  discriminate.
Qed.

Ltac kill46 :=
  repeat match goal with
  | H : _ && _ = true |- _ => apply andb_true_iff in H; destruct H
  | H : cont 46 = true |- _ => vm_compute in H; discriminate H
  | H : inr _ _ 46 = true |- _ => vm_compute in H; discriminate H
  | H : false = true |- _ => discriminate H
  end.

Lemma utf8_after_dot_fuel : forall f ns simple,
  utf8_valid_fuel f (ns ++ 46 :: simple) = true -> utf8_valid simple = true.
Proof.
  induction f as [|f IH]; intros ns simple H; [discriminate|].
  destruct ns as [|b0 r0].
  { cbn [app utf8_valid_fuel] in H. change (46 <? 128) with true in H. cbv iota in H.
    eapply utf8_fuel_valid. exact H. }
  cbn [app utf8_valid_fuel] in H.
  destruct (b0 <? 128); [apply (IH r0); exact H|].
  destruct (inr 194 223 b0).
  { destruct r0 as [|b1 r1]; cbn [app] in H; [kill46|].
    apply andb_true_iff in H. destruct H as [_ H]. apply (IH r1). exact H. }
  destruct (b0 =? 224).
  { destruct r0 as [|b1 [|b2 r2]]; cbn [app] in H; try (destruct simple; kill46; fail).
    apply andb_true_iff in H. destruct H as [_ H]. apply (IH r2). exact H. }
  destruct (inr 225 236 b0 || inr 238 239 b0).
  { destruct r0 as [|b1 [|b2 r2]]; cbn [app] in H; try (destruct simple; kill46; fail).
    apply andb_true_iff in H. destruct H as [_ H]. apply (IH r2). exact H. }
  destruct (b0 =? 237).
  { destruct r0 as [|b1 [|b2 r2]]; cbn [app] in H; try (destruct simple; kill46; fail).
    apply andb_true_iff in H. destruct H as [_ H]. apply (IH r2). exact H. }
  destruct (b0 =? 240).
  { destruct r0 as [|b1 [|b2 [|b3 r3]]]; cbn [app] in H; try (destruct simple as [|? [|? ?]]; kill46; fail).
    apply andb_true_iff in H. destruct H as [_ H]. apply (IH r3). exact H. }
  destruct (inr 241 243 b0).
  { destruct r0 as [|b1 [|b2 [|b3 r3]]]; cbn [app] in H; try (destruct simple as [|? [|? ?]]; kill46; fail).
    apply andb_true_iff in H. destruct H as [_ H]. apply (IH r3). exact H. }
  destruct (b0 =? 244).
  { destruct r0 as [|b1 [|b2 [|b3 r3]]]; cbn [app] in H; try (destruct simple as [|? [|? ?]]; kill46; fail).
    apply andb_true_iff in H. destruct H as [_ H]. apply (IH r3). exact H. }
  discriminate.
Qed.

Lemma utf8_after_dot : forall ns simple, utf8_valid (ns ++ 46 :: simple) = true -> utf8_valid simple = true.
Proof. intros ns simple H. eapply utf8_after_dot_fuel. exact H. Qed.

(* ------------------------------------------------------------------ *)
(** * For a well-formed graph it is enough that the FULL names are UTF-8 *)

Definition node_full_utf8 (n : mnode) : Prop :=
  logical_utf8 (m_logical n) /\
  match m_type n with
  | RRecord nm fs => utf8_valid (nm_full nm) = true /\ Forall (fun f => utf8_valid (fst f) = true) fs
  | REnum nm syms => utf8_valid (nm_full nm) = true /\ Forall (fun s => utf8_valid s = true) syms
  | RFixed nm _ => utf8_valid (nm_full nm) = true
  | _ => True
  end.
Definition graph_full_utf8 (g : schema_mut) : Prop := Forall node_full_utf8 g.

Lemma skipn_app_exact : forall (a b : bytes) x, skipn (S (length a)) (a ++ x :: b) = b.
Proof. induction a as [|y a IH]; intros b x; [reflexivity|]. cbn [List.length app]. rewrite skipn_cons. apply IH. Qed.

Lemma name_valid_utf8 : forall nm, name_valid nm -> utf8_valid (nm_full nm) = true -> name_utf8 nm.
Proof.
  intros nm (ns & simple & -> & _ & _ & _) Hf. split; [exact Hf|].
  unfold name_of_key in *. cbn [fst snd] in *. destruct ns as [n|].
  - unfold name_short. cbn [nm_delim nm_full] in *. change ([DOT] ++ simple) with (46 :: simple) in *.
    rewrite skipn_app_exact. eapply utf8_after_dot. exact Hf.
  - exact Hf.
Qed.

Lemma graph_full_utf8_ok : forall g, wf_graph g -> graph_full_utf8 g -> graph_utf8 g.
Proof.
  intros g Hwf Hg. unfold graph_utf8, graph_full_utf8 in *. rewrite Forall_forall in *.
  intros n Hin. destruct (Hg n Hin) as [Hl Ht]. split; [exact Hl|].
  destruct (In_nth_error _ _ Hin) as [k Hk].
  pose proof (wf_names g Hwf k n) as Hnames. unfold node_name in Hnames.
  destruct (m_type n) as [| | | | | | | |items|values|variants|nm fields|nm symbols|nm size]; try exact I.
  - destruct Ht as [Hf Hfs]. split; [|exact Hfs]. apply name_valid_utf8; [exact (Hnames nm Hk eq_refl)|exact Hf].
  - destruct Ht as [Hf Hfs]. split; [|exact Hfs]. apply name_valid_utf8; [exact (Hnames nm Hk eq_refl)|exact Hf].
  - apply name_valid_utf8; [exact (Hnames nm Hk eq_refl)|exact Ht].
Qed.

(* ------------------------------------------------------------------ *)
(** * (d) C09 on the text *)

(* SchemaMut::from_str on TEXT: serde_json, then the schema parser *)
Definition parse_schema_text (text : bytes) : result schema_mut :=
  let* j := json_of_text text in parse_schema j.

(* the document stays within serde_json's recursion limit (a decidable check on the writer's output) *)
Definition doc_depth_ok (fuel : nat) (g : schema_mut) : Prop :=
  forall j st', to_json fuel g O None (j_init g) = Ok (j, st') -> (json_depth j < SERDE_JSON_DEPTH)%nat.

(* the writer's document: well formed, whatever the fuel *)
Theorem schema_doc_wf : forall fuel g j st', graph_utf8 g ->
  to_json fuel g O None (j_init g) = Ok (j, st') -> json_wf j = true.
Proof. intros fuel g j st' Hg H. exact (to_json_wf fuel g O None (j_init g) Hg (j, st') H). Qed.

(* the text the writer emits is read back, compact or with any whitespace, to the document it was printed from *)
Theorem schema_text_reads_back : forall fuel g j st', graph_utf8 g ->
  to_json fuel g O None (j_init g) = Ok (j, st') -> (json_depth j < SERDE_JSON_DEPTH)%nat ->
  schema_json fuel g = Ok (json_text j) /\
  json_of_text (json_text j) = Ok j /\
  forall w, ws_ok w -> json_of_text (json_text_ws w j) = Ok j.
Proof.
  intros fuel g j st' Hg H Hd. pose proof (schema_doc_wf fuel g j st' Hg H) as Hwf.
  split; [unfold schema_json; fold (j_init g); rewrite H; reflexivity|].
  split; [apply json_of_text_text; assumption|].
  intros w Hw. apply json_read_ws; [assumption..|lia].
Qed.

(* C09_regen with the text layer: the TEXT written for a well-formed graph parses (serde_json's
   reader, then the schema parser) to a graph with the same canonical form, fingerprint and unfoldings;
   so does every whitespace variant of that text *)
Theorem C09_regen_text : forall g fuel, wf_graph g -> graph_utf8 g -> (json_fuel g <= fuel)%nat ->
  doc_depth_ok fuel g ->
  exists j g',
    schema_json fuel g = Ok (json_text j) /\ json_wf j = true /\
    parse_schema_text (json_text j) = Ok g' /\
    (forall w, ws_ok w -> parse_schema_text (json_text_ws w j) = Ok g') /\
    (forall fuel' t, canonical_form fuel' g = Ok t -> canonical_form fuel' g' = Ok t) /\
    (forall fuel' t, fingerprint fuel' g = Ok t -> fingerprint fuel' g' = Ok t) /\
    (forall n, unfold n g' O = unfold n g O).
Proof.
  intros g fuel Hwf Hu Hf Hd.
  destruct (to_json_ok_when_wf g fuel (wf_str g Hwf) Hf) as (j & st' & H).
  destruct (C09_regen_canonical g fuel j st' Hwf H) as (g' & Hp & Hcf & Hfp).
  destruct (C09_regen_unfold g fuel j st' Hwf H) as (g'' & Hp' & Hun).
  rewrite Hp in Hp'. inversion Hp'; subst g''.
  destruct (schema_text_reads_back fuel g j st' Hu H (Hd j st' H)) as (Ht & Hr & Hws).
  exists j, g'. split; [exact Ht|]. split; [exact (schema_doc_wf fuel g j st' Hu H)|].
  split; [unfold parse_schema_text; rewrite Hr; exact Hp|].
  split; [intros w Hw; unfold parse_schema_text; rewrite (Hws w Hw); exact Hp|].
  split; [exact Hcf|]. split; [exact Hfp|exact Hun].
Qed.

(* as a statement about the emitted text alone *)
Corollary C09_regen_text_fingerprint : forall g fuel text, wf_graph g -> graph_utf8 g -> (json_fuel g <= fuel)%nat ->
  doc_depth_ok fuel g -> schema_json fuel g = Ok text ->
  exists g', parse_schema_text text = Ok g' /\
    (forall fuel' t, canonical_form fuel' g = Ok t -> canonical_form fuel' g' = Ok t) /\
    (forall fuel' t, fingerprint fuel' g = Ok t -> fingerprint fuel' g' = Ok t).
Proof.
  intros g fuel text Hwf Hu Hf Hd Ht.
  destruct (C09_regen_text g fuel Hwf Hu Hf Hd) as (j & g' & E & _ & Hp & _ & Hcf & Hfp & _).
  rewrite E in Ht. inversion Ht; subst text. exists g'. split; [exact Hp|]. split; assumption.
Qed.

(* the same with the hypothesis on full names only *)
Corollary C09_regen_text_full_names : forall g fuel text, wf_graph g -> graph_full_utf8 g -> (json_fuel g <= fuel)%nat ->
  doc_depth_ok fuel g -> schema_json fuel g = Ok text ->
  exists g', parse_schema_text text = Ok g' /\
    (forall fuel' t, canonical_form fuel' g = Ok t -> canonical_form fuel' g' = Ok t) /\
    (forall fuel' t, fingerprint fuel' g = Ok t -> fingerprint fuel' g' = Ok t).
Proof.
  intros g fuel text Hwf Hu. apply C09_regen_text_fingerprint; [exact Hwf|]. apply graph_full_utf8_ok; assumption.
Qed.

(* ------------------------------------------------------------------ *)
(** * The hypotheses are needed *)

(* [doc_depth_ok]: for a chain of 128 nested arrays the document is written, and
   serde_json refuses to read the text (recursion limit); one array less is fine *)
Fixpoint array_chain (n : nat) (k : nat) : schema_mut :=
  match n with
  | O => [mkNode RInt None]
  | S m => mkNode (RArray (S k)) None :: array_chain m (S k)
  end.
Example depth_needed :
  is_ok (schema_json 200 (array_chain 128 0)) = true /\
  (let* text := schema_json 200 (array_chain 128 0) in parse_schema_text text) = Err EData /\
  (let* text := schema_json 200 (array_chain 128 0) in
   match json_parse (S (length text)) SERDE_JSON_DEPTH text with JErr e => Ok e | _ => Err EData end) = Ok JDepth /\
  (let* text := schema_json 200 (array_chain 127 0) in parse_schema_text text) = Ok (array_chain 127 0).
Proof. vm_compute. repeat split; reflexivity. Qed.

(* [graph_utf8]: a symbol that is not UTF-8 is written as it is, and the text is not JSON *)
Example utf8_needed :
  let g := [mkNode (REnum (name_of_key (None, lit "E")) [[255]]) None] in
  is_ok (schema_json 10 g) = true /\
  (let* text := schema_json 10 g in parse_schema_text text) = Err EData /\
  (let* text := schema_json 10 g in
   match json_parse (S (length text)) SERDE_JSON_DEPTH text with JErr e => Ok e | _ => Err EData end) = Ok JUtf8.
Proof. vm_compute. repeat split; reflexivity. Qed.

(* [graph_full_utf8] alone (without [wf_graph]'s parser-shaped names) does not give [graph_utf8]: a delimiter
   index inside a multi-byte character *)
Example full_names_need_wf :
  let nm := mkName [195; 169] (Some 0%nat) in utf8_valid (nm_full nm) = true /\ utf8_valid (name_short nm) = false.
Proof. vm_compute. split; reflexivity. Qed.

(* non-vacuity: the 10-node example graph of SchemaJsonProofs (shared record, three named cycles, logical types) *)
Example ex_graph_text_roundtrip :
  (let* text := schema_json 200 ex_graph in let* g' := parse_schema_text text in canonical_form 200 g')
  = canonical_form 200 ex_graph /\
  (let* text := schema_json 200 ex_graph in let* g' := parse_schema_text text in fingerprint 200 g')
  = fingerprint 200 ex_graph /\ is_ok (fingerprint 200 ex_graph) = true.
Proof. vm_compute. repeat split; reflexivity. Qed.

(* ------------------------------------------------------------------ *)
(** * Assumptions *)
Print Assumptions to_json_wf.
Print Assumptions schema_text_reads_back.
Print Assumptions C09_regen_text.
Print Assumptions C09_regen_text_fingerprint.
Print Assumptions C09_regen_text_full_names.
Print Assumptions utf8_after_dot.
