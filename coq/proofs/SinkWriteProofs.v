(** W7a: std's write_all over a scheduled sink (model/SinkWrite.v) and the independence of the datum
    serializer's / single-object writer's output from the sink's write schedule.

    Vocabulary reused from the C16 proofs: [benign] (Accept / Interrupted), [tame] (the answer that
    repeats forever is not Interrupted), [benign_schedule] = Forall benign /\ tame,
    [interruptions] (number of Interrupted answers of the schedule), [only_benign s s'] (s' is s minus
    some answers, all benign), [hit_bad s s'] (s' is s minus benign answers and one Zero / Hard).

    (A) write_all_sched: outcome under ANY tame schedule with enough fuel; benign => Ok and
        sink ++ buf; any schedule, any fuel => in-order prefix, proper iff not Ok.
    (B) write_pieces_sched over ps = as if concat ps were appended; serializer and single-object
        corollaries for ANY split of the Vec result into pieces.
    (C) the defect shape (one bare `write`): refuted.
    (D) fixed-size slice sinks (&mut [u8]) and the byte budget of Ser.write / SerHistory. *)
From Coq Require Import NArith ZArith List Lia Bool Arith.
From Coq Require Import ZifyN ZifyBool ZifyNat.
Import ListNotations.
Require Import Base Schema Varint Sval Ser SerHistory SingleObject VectoredWrite SinkWrite.
Require Import VectoredWriteProofs WriterScheduleProofs SingleObjectProofs SerProofs RecordProofs.

Ltac Zify.zify_post_hook ::= Z.to_euclidean_division_equations.

Arguments N.add : simpl never.
Arguments N.sub : simpl never.
Arguments N.mul : simpl never.
Arguments N.div : simpl never.
Arguments N.modulo : simpl never.
Arguments N.pow : simpl never.
Arguments N.ltb : simpl never.
Arguments N.leb : simpl never.
Arguments N.eqb : simpl never.
Arguments N.of_nat : simpl never.
Arguments N.to_nat : simpl never.
Arguments Z.of_nat : simpl never.
Arguments Z.of_N : simpl never.
Arguments Z.to_N : simpl never.

Opaque ser.

Local Open Scope nat_scope.

(* ------------------------------------------------------------------------------------------ *)
(** * (A) write_all over a scheduled sink *)

Lemma accept_len_le : forall k len, accept_len k len <= len.
Proof. intros k len. unfold accept_len. lia. Qed.

Lemma accept_len_pos : forall k len, 1 <= len -> 1 <= accept_len k len.
Proof. intros k len H. unfold accept_len. lia. Qed.

Lemma accept_len_all : forall k len, len <= N.to_nat k -> accept_len k len = len.
Proof. intros k len H. unfold accept_len. lia. Qed.

Lemma accept_len_short : forall k len, Nat.max (N.to_nat k) 1 <= len ->
  accept_len k len = Nat.max (N.to_nat k) 1.
Proof. intros k len H. unfold accept_len. lia. Qed.

Lemma write_all_sched_nil : forall fuel s sink, write_all_sched fuel s sink [] = (WOk, sink, s).
Proof. intros [|f] s sink; reflexivity. Qed.

Lemma write_all_sched_O : forall s sink buf, buf <> [] ->
  write_all_sched 0 s sink buf = (WOutOfFuel, sink, s).
Proof. intros s sink [|x t] H; [congruence | reflexivity]. Qed.

(* one iteration of the loop *)
Lemma write_all_sched_step : forall f s sink buf, buf <> [] ->
  write_all_sched (S f) s sink buf =
  match fst (next_ans s) with
  | Accept k =>
      write_all_sched f (snd (next_ans s)) (sink ++ firstn (accept_len k (length buf)) buf)
                      (skipn (accept_len k (length buf)) buf)
  | Interrupted => write_all_sched f (snd (next_ans s)) sink buf
  | Zero => (WErrZero, sink, snd (next_ans s))
  | Hard => (WErrHard, sink, snd (next_ans s))
  end.
Proof.
  intros f s sink buf Hne. destruct buf as [|x t]; [congruence|].
  cbn [write_all_sched]. unfold sink_write.
  destruct (next_ans s) as [a s']. cbn [fst snd].
  destruct a as [k| | |]; try reflexivity.
  pose proof (accept_len_pos k (length (x :: t))) as Hp. cbn [length] in Hp |- *.
  destruct (Nat.eqb_spec (accept_len k (S (length t))) 0) as [E|_]; [lia | reflexivity].
Qed.

Lemma skipn_nonempty_shorter : forall (buf : bytes) n, 1 <= n -> buf <> [] ->
  length (skipn n buf) < length buf.
Proof.
  intros buf n Hn Hne. rewrite skipn_length. destruct buf; [congruence | cbn [length]; lia].
Qed.

(* THE OUTCOME under any tame schedule when the fuel covers the data and the interruptions:
   complete delivery having consumed only benign answers, or an error at the first Zero / Hard
   answer met while data remained, with a strict prefix of the data delivered *)
Theorem write_all_outcome : forall n s sink buf,
  tame s -> length buf + interruptions s <= n ->
  exists r sink' s', write_all_sched n s sink buf = (r, sink', s') /\
    ((r = WOk /\ sink' = sink ++ buf /\ only_benign s s') \/
     (exists w rest, sink' = sink ++ w /\ buf = w ++ rest /\ rest <> [] /\
        exists k, Forall benign (sched_prefix k s) /\ s' = sched_drop (S k) s /\
          ((ans_at k s = Zero /\ r = WErrZero) \/ (ans_at k s = Hard /\ r = WErrHard)))).
Proof.
  induction n as [|n IH]; intros s sink buf Ht Hn.
  - destruct buf as [|x t]; [|cbn [length] in Hn; lia].
    rewrite write_all_sched_nil. eexists _, _, _. split; [reflexivity|]. left.
    split; [reflexivity|]. split; [now rewrite app_nil_r | apply only_benign_refl].
  - destruct (nil_dec buf) as [->|Hne].
    + rewrite write_all_sched_nil. eexists _, _, _. split; [reflexivity|]. left.
      split; [reflexivity|]. split; [now rewrite app_nil_r | apply only_benign_refl].
    + rewrite write_all_sched_step by assumption.
      pose proof (interruptions_next s Ht) as Hi. pose proof (tame_next s Ht) as Ht'.
      pose proof (nonempty_length buf Hne) as Hl.
      destruct (fst (next_ans s)) as [a| | |] eqn:Ea; cbn [is_int] in Hi.
      * pose proof (accept_len_pos a (length buf) Hl) as Hpos.
        pose proof (accept_len_le a (length buf)) as Hle.
        set (m := accept_len a (length buf)) in *.
        destruct (IH (snd (next_ans s)) (sink ++ firstn m buf) (skipn m buf))
          as (r & sink' & s' & Hr & Hd).
        -- assumption.
        -- rewrite skipn_length. lia.
        -- exists r, sink', s'. split; [exact Hr|].
           destruct Hd as [(-> & -> & (k & -> & Hk)) | (w & rest & -> & Hw & Hrest & k & Hk & -> & Hb)].
           ++ left. split; [reflexivity|].
              split; [rewrite <- app_assoc, firstn_skipn; reflexivity|].
              exists (S k). split; [reflexivity|].
              rewrite sched_prefix_S, Ea. constructor; [exact I | exact Hk].
           ++ right. exists (firstn m buf ++ w), rest.
              split; [now rewrite app_assoc|].
              split; [rewrite <- app_assoc, <- Hw, firstn_skipn; reflexivity|].
              split; [assumption|]. exists (S k). split; [|split; [reflexivity | exact Hb]].
              rewrite sched_prefix_S, Ea. constructor; [exact I | exact Hk].
      * destruct (IH (snd (next_ans s)) sink buf) as (r & sink' & s' & Hr & Hd);
          [assumption | lia |].
        exists r, sink', s'. split; [exact Hr|].
        destruct Hd as [(-> & -> & (k & -> & Hk)) | (w & rest & -> & Hw & Hrest & k & Hk & -> & Hb)].
        -- left. split; [reflexivity|]. split; [reflexivity|].
           exists (S k). split; [reflexivity|].
           rewrite sched_prefix_S, Ea. constructor; [exact I | exact Hk].
        -- right. exists w, rest. split; [reflexivity|]. split; [assumption|]. split; [assumption|].
           exists (S k). split; [|split; [reflexivity | exact Hb]].
           rewrite sched_prefix_S, Ea. constructor; [exact I | exact Hk].
      * eexists _, _, _. split; [reflexivity|]. right. exists [], buf.
        split; [now rewrite app_nil_r|]. split; [reflexivity|]. split; [assumption|].
        exists 0. split; [constructor|]. split; [reflexivity|]. left. split; [exact Ea | reflexivity].
      * eexists _, _, _. split; [reflexivity|]. right. exists [], buf.
        split; [now rewrite app_nil_r|]. split; [reflexivity|]. split; [assumption|].
        exists 0. split; [constructor|]. split; [reflexivity|]. right. split; [exact Ea | reflexivity].
Qed.

(* the same with the C16 vocabulary *)
Corollary write_all_outcome_hit : forall n s sink buf,
  tame s -> length buf + interruptions s <= n ->
  exists r sink' s', write_all_sched n s sink buf = (r, sink', s') /\
    ((r = WOk /\ sink' = sink ++ buf /\ only_benign s s') \/
     ((r = WErrZero \/ r = WErrHard) /\
      exists w rest, sink' = sink ++ w /\ buf = w ++ rest /\ rest <> [] /\ hit_bad s s')).
Proof.
  intros n s sink buf Ht Hn.
  destruct (write_all_outcome n s sink buf Ht Hn) as (r & sink' & s' & Hr & Hd).
  exists r, sink', s'. split; [exact Hr|].
  destruct Hd as [Hok | (w & rest & Hs & Hw & Hrest & k & Hk & Hs' & Hb)]; [left; exact Hok|].
  right. split; [destruct Hb as [[_ ->]|[_ ->]]; auto|].
  exists w, rest. repeat (split; [assumption|]).
  exists k. split; [exact Hk|]. split; [|exact Hs'].
  destruct Hb as [[-> _]|[-> _]]; auto.
Qed.

(* EVERY benign schedule (short writes, interruptions): Ok, the sink got exactly the bytes, the
   schedule left over is again benign with no more interruptions than before *)
Theorem write_all_benign : forall n s sink buf,
  benign_schedule s -> length buf + interruptions s <= n ->
  exists s', write_all_sched n s sink buf = (WOk, sink ++ buf, s') /\
             only_benign s s' /\ benign_schedule s' /\ interruptions s' <= interruptions s.
Proof.
  intros n s sink buf [Hb Ht] Hn.
  destruct (write_all_outcome_hit n s sink buf Ht Hn) as (r & sink' & s' & Hr & Hd).
  destruct Hd as [(-> & -> & Hob) | (_ & w & rest & _ & _ & _ & Hbad)].
  - exists s'. split; [exact Hr|]. split; [exact Hob|]. split.
    + split; [eapply only_benign_benign; eassumption | eapply only_benign_tame; eassumption].
    + eapply only_benign_interruptions; eassumption.
  - exfalso. exact (benign_no_hit _ _ Hb Hbad).
Qed.

(* termination bound in the style of C16_schedule: only the first n answers matter *)
Theorem write_all_benign_prefix : forall n s sink buf,
  Forall benign (sched_prefix n s) ->
  length buf + length (filter is_int (sched_prefix n s)) <= n ->
  exists s', write_all_sched n s sink buf = (WOk, sink ++ buf, s').
Proof.
  induction n as [|n IH]; intros s sink buf HF HL.
  - destruct buf as [|x t]; [|cbn [length] in HL; lia].
    rewrite write_all_sched_nil. exists s. now rewrite app_nil_r.
  - destruct (nil_dec buf) as [->|Hne].
    + rewrite write_all_sched_nil. exists s. now rewrite app_nil_r.
    + rewrite write_all_sched_step by assumption.
      rewrite sched_prefix_S in HF, HL.
      apply Forall_cons_iff in HF. destruct HF as [Ha HF].
      pose proof (nonempty_length buf Hne) as Hl.
      destruct (fst (next_ans s)) as [k| | |]; cbn [benign] in Ha; try contradiction;
        cbn [filter is_int length] in HL.
      * pose proof (accept_len_pos k (length buf) Hl) as Hpos.
        pose proof (accept_len_le k (length buf)) as Hle.
        set (m := accept_len k (length buf)) in *.
        destruct (IH (snd (next_ans s)) (sink ++ firstn m buf) (skipn m buf)) as [s' Hr].
        -- assumption.
        -- rewrite skipn_length. lia.
        -- exists s'. rewrite Hr, <- app_assoc, firstn_skipn. reflexivity.
      * apply IH; [assumption | lia].
Qed.

(* ANY schedule, ANY fuel: the sink only ever receives an in-order prefix of buf, and the prefix
   is all of buf exactly when the call returns Ok (no write is issued once buf is empty, so a
   failure never comes after the last byte) *)
Theorem write_all_sink_prefix : forall n s sink buf r sink' s',
  write_all_sched n s sink buf = (r, sink', s') ->
  exists w rest, sink' = sink ++ w /\ buf = w ++ rest /\ (r = WOk <-> rest = []).
Proof.
  induction n as [|n IH]; intros s sink buf r sink' s' H.
  - destruct (nil_dec buf) as [->|Hne].
    + rewrite write_all_sched_nil in H. inversion H; subst. exists [], [].
      split; [now rewrite app_nil_r|]. split; [reflexivity|]. tauto.
    + rewrite write_all_sched_O in H by assumption. inversion H; subst. exists [], buf.
      split; [now rewrite app_nil_r|]. split; [reflexivity|]. split; [discriminate | congruence].
  - destruct (nil_dec buf) as [->|Hne].
    + rewrite write_all_sched_nil in H. inversion H; subst. exists [], [].
      split; [now rewrite app_nil_r|]. split; [reflexivity|]. tauto.
    + rewrite write_all_sched_step in H by assumption.
      destruct (fst (next_ans s)) as [k| | |].
      * apply IH in H. destruct H as (w & rest & -> & Hw & Hr).
        exists (firstn (accept_len k (length buf)) buf ++ w), rest.
        split; [now rewrite app_assoc|].
        split; [rewrite <- app_assoc, <- Hw, firstn_skipn; reflexivity | exact Hr].
      * apply IH in H. exact H.
      * inversion H; subst. exists [], buf. split; [now rewrite app_nil_r|].
        split; [reflexivity|]. split; [discriminate | congruence].
      * inversion H; subst. exists [], buf. split; [now rewrite app_nil_r|].
        split; [reflexivity|]. split; [discriminate | congruence].
Qed.

Corollary write_all_ok_complete : forall n s sink buf sink' s',
  write_all_sched n s sink buf = (WOk, sink', s') -> sink' = sink ++ buf.
Proof.
  intros n s sink buf sink' s' H.
  destruct (write_all_sink_prefix _ _ _ _ _ _ _ H) as (w & rest & -> & -> & Hr).
  destruct Hr as [Hr _]. rewrite (Hr eq_refl), app_nil_r. reflexivity.
Qed.

Corollary write_all_err_proper_prefix : forall n s sink buf r sink' s',
  write_all_sched n s sink buf = (r, sink', s') -> r <> WOk ->
  exists w rest, sink' = sink ++ w /\ buf = w ++ rest /\ rest <> [] /\ length sink' < length (sink ++ buf).
Proof.
  intros n s sink buf r sink' s' H Hr.
  destruct (write_all_sink_prefix _ _ _ _ _ _ _ H) as (w & rest & -> & -> & Hiff).
  exists w, rest. split; [reflexivity|]. split; [reflexivity|].
  assert (Hne : rest <> []) by (intro E; apply Hr, Hiff, E).
  split; [exact Hne|]. pose proof (nonempty_length rest Hne). rewrite !app_length. lia.
Qed.

(* an Ok run consumed only benign answers *)
Theorem write_all_ok_only_benign : forall n s sink buf sink' s',
  write_all_sched n s sink buf = (WOk, sink', s') -> only_benign s s'.
Proof.
  induction n as [|n IH]; intros s sink buf sink' s' H.
  - destruct (nil_dec buf) as [->|Hne].
    + rewrite write_all_sched_nil in H. inversion H; subst. apply only_benign_refl.
    + rewrite write_all_sched_O in H by assumption. discriminate.
  - destruct (nil_dec buf) as [->|Hne].
    + rewrite write_all_sched_nil in H. inversion H; subst. apply only_benign_refl.
    + rewrite write_all_sched_step in H by assumption.
      destruct (fst (next_ans s)) as [k| | |] eqn:Ea; try discriminate.
      * apply IH in H. destruct H as (j & -> & Hj). exists (S j). split; [reflexivity|].
        rewrite sched_prefix_S, Ea. constructor; [exact I | exact Hj].
      * apply IH in H. destruct H as (j & -> & Hj). exists (S j). split; [reflexivity|].
        rewrite sched_prefix_S, Ea. constructor; [exact I | exact Hj].
Qed.

(* whatever happens the schedule handed back is the input schedule minus some answers *)
Lemma write_all_sched_drop : forall n s sink buf r sink' s',
  write_all_sched n s sink buf = (r, sink', s') -> exists j, j <= n /\ s' = sched_drop j s.
Proof.
  induction n as [|n IH]; intros s sink buf r sink' s' H.
  - destruct (nil_dec buf) as [->|Hne].
    + rewrite write_all_sched_nil in H. inversion H. exists 0. split; [lia | reflexivity].
    + rewrite write_all_sched_O in H by assumption. inversion H. exists 0. split; [lia | reflexivity].
  - destruct (nil_dec buf) as [->|Hne].
    + rewrite write_all_sched_nil in H. inversion H. exists 0. split; [lia | reflexivity].
    + rewrite write_all_sched_step in H by assumption.
      destruct (fst (next_ans s)) as [k| | |].
      * apply IH in H. destruct H as (j & Hj & ->). exists (S j). split; [lia | reflexivity].
      * apply IH in H. destruct H as (j & Hj & ->). exists (S j). split; [lia | reflexivity].
      * inversion H. exists 1. split; [lia | reflexivity].
      * inversion H. exists 1. split; [lia | reflexivity].
Qed.

(* two sinks (any two schedules, any fuel) that both return Ok hold the same bytes *)
Theorem write_all_schedule_independent : forall n1 n2 s1 s2 sink buf k1 k2 r1 r2,
  write_all_sched n1 s1 sink buf = (WOk, k1, r1) ->
  write_all_sched n2 s2 sink buf = (WOk, k2, r2) ->
  k1 = k2 /\ k1 = sink ++ buf.
Proof.
  intros n1 n2 s1 s2 sink buf k1 k2 r1 r2 H1 H2.
  apply write_all_ok_complete in H1. apply write_all_ok_complete in H2. subst. auto.
Qed.

(* more fuel never changes a finished run *)
Lemma write_all_fuel_mono : forall n m s sink buf r sink' s',
  write_all_sched n s sink buf = (r, sink', s') -> r <> WOutOfFuel -> n <= m ->
  write_all_sched m s sink buf = (r, sink', s').
Proof.
  induction n as [|n IH]; intros m s sink buf r sink' s' H Hr Hm.
  - destruct (nil_dec buf) as [->|Hne].
    + rewrite write_all_sched_nil in *. exact H.
    + rewrite write_all_sched_O in H by assumption. inversion H; subst. congruence.
  - destruct (nil_dec buf) as [->|Hne].
    + rewrite write_all_sched_nil in *. exact H.
    + destruct m as [|m]; [lia|].
      rewrite write_all_sched_step in H |- * by assumption.
      destruct (fst (next_ans s)) as [k| | |]; try exact H.
      * apply IH; [exact H | exact Hr | lia].
      * apply IH; [exact H | exact Hr | lia].
Qed.

(* the scalar loop is write_all_vectored's loop on one slice over a sink without write_vectored:
   every finished run of the C16 model is a run of this one *)
Theorem write_all_sched_is_wav_one_slice : forall n s sink buf r sink' s',
  buf <> [] ->
  wav_loop n false [buf] s sink = (r, sink', s') -> r <> WOutOfFuel ->
  write_all_sched n s sink buf = (r, sink', s').
Proof.
  induction n as [|n IH]; intros s sink buf r sink' s' Hne H Hr.
  - cbn [wav_loop] in H. inversion H; subst. congruence.
  - rewrite write_all_sched_step by assumption.
    cbn [wav_loop] in H. destruct (next_ans s) as [a sn]. cbn [fst snd].
    destruct a as [k| | |]; try exact H.
    + assert (Hav : available false [buf] = buf).
      { unfold available. cbn [filter]. destruct buf; [congruence | reflexivity]. }
      rewrite Hav in H. fold (accept_len k (length buf)) in H.
      pose proof (nonempty_length buf Hne) as Hl.
      pose proof (accept_len_pos k (length buf) Hl) as Hpos.
      pose proof (accept_len_le k (length buf)) as Hle.
      set (m := accept_len k (length buf)) in *.
      destruct (Nat.eqb_spec m 0) as [E|_]; [lia|].
      cbn [advance_slices] in H.
      destruct (Nat.leb_spec (length buf) m) as [Hge|Hlt].
      * assert (Em : m = length buf) by lia.
        rewrite Em, Nat.sub_diag in H. cbn [Nat.eqb] in H.
        rewrite Em, skipn_all, write_all_sched_nil.
        destruct n as [|n']; cbn [wav_loop] in H; inversion H; subst; [congruence | reflexivity].
      * apply IH; [|exact H | exact Hr].
        intro E. apply (f_equal (@length N)) in E. rewrite skipn_length in E. cbn [length] in E. lia.
    + apply IH; assumption.
Qed.

(* ------------------------------------------------------------------------------------------ *)
(** * (B) A serialization as a list of pieces *)

Lemma write_pieces_cons : forall n s sink p t,
  write_pieces_sched n s sink (p :: t) =
  match write_all_sched n s sink p with
  | (WOk, sink', s') => write_pieces_sched n s' sink' t
  | other => other
  end.
Proof.
  intros n s sink p t. cbn [write_pieces_sched].
  destruct (write_all_sched n s sink p) as [[r sink'] s']. destruct r; reflexivity.
Qed.

Lemma in_concat_length : forall (ps : list bytes) p, In p ps -> length p <= length (concat ps).
Proof.
  induction ps as [|q t IH]; intros p H; [contradiction|].
  cbn [concat]. rewrite app_length. destruct H as [->|H]; [lia|]. apply IH in H. lia.
Qed.

(* THE OUTCOME of a whole serialization under any tame schedule (fuel: the longest piece plus the
   interruptions): everything delivered, in order, as if concat ps had been appended -- or the
   first Zero / Hard answer met while data remained made the corresponding write_all (hence, with
   `?`, the serialization) fail with a strict prefix delivered *)
Theorem write_pieces_outcome : forall n ps s sink,
  tame s -> (forall p, In p ps -> length p + interruptions s <= n) ->
  exists r sink' s', write_pieces_sched n s sink ps = (r, sink', s') /\
    ((r = WOk /\ sink' = sink ++ concat ps /\ only_benign s s') \/
     ((r = WErrZero \/ r = WErrHard) /\
      exists w rest, sink' = sink ++ w /\ concat ps = w ++ rest /\ rest <> [] /\ hit_bad s s')).
Proof.
  intros n. induction ps as [|p t IH]; intros s sink Ht Hn.
  - eexists _, _, _. split; [reflexivity|]. left. split; [reflexivity|].
    split; [cbn [concat]; now rewrite app_nil_r | apply only_benign_refl].
  - rewrite write_pieces_cons.
    destruct (write_all_outcome_hit n s sink p Ht (Hn p (or_introl eq_refl)))
      as (r & sink1 & s1 & Hr & Hd).
    rewrite Hr.
    destruct Hd as [(-> & -> & Hob) | (Herr & w & rest & -> & Hw & Hrest & Hbad)].
    + pose proof (only_benign_tame _ _ Hob Ht) as Ht1.
      pose proof (only_benign_interruptions _ _ Hob Ht) as Hi1.
      destruct (IH s1 (sink ++ p) Ht1) as (r & sink2 & s2 & Hr2 & Hd2).
      { intros q Hq. specialize (Hn q (or_intror Hq)). lia. }
      exists r, sink2, s2. split; [exact Hr2|].
      destruct Hd2 as [(-> & -> & Hob2) | (Herr & w & rest & -> & Hw & Hrest & Hbad)].
      * left. split; [reflexivity|]. split; [cbn [concat]; now rewrite app_assoc|].
        eapply only_benign_trans; eassumption.
      * right. split; [exact Herr|]. exists (p ++ w), rest.
        split; [now rewrite app_assoc|].
        split; [cbn [concat]; rewrite Hw; now rewrite app_assoc|].
        split; [assumption|]. eapply only_benign_hit_bad; eassumption.
    + exists r, (sink ++ w), s1. split; [destruct Herr as [-> | ->]; reflexivity|].
      right. split; [exact Herr|]. exists w, (rest ++ concat t).
      split; [reflexivity|]. split; [cbn [concat]; rewrite Hw; now rewrite app_assoc|].
      split; [|exact Hbad]. destruct rest; [congruence | discriminate].
Qed.

(* EVERY benign schedule: Ok and exactly the concatenation of the pieces *)
Theorem write_pieces_benign : forall n ps s sink,
  benign_schedule s -> (forall p, In p ps -> length p + interruptions s <= n) ->
  exists s', write_pieces_sched n s sink ps = (WOk, sink ++ concat ps, s') /\
             only_benign s s' /\ benign_schedule s' /\ interruptions s' <= interruptions s.
Proof.
  intros n ps s sink [Hb Ht] Hn.
  destruct (write_pieces_outcome n ps s sink Ht Hn) as (r & sink' & s' & Hr & Hd).
  destruct Hd as [(-> & -> & Hob) | (_ & w & rest & _ & _ & _ & Hbad)].
  - exists s'. split; [exact Hr|]. split; [exact Hob|]. split.
    + split; [eapply only_benign_benign; eassumption | eapply only_benign_tame; eassumption].
    + eapply only_benign_interruptions; eassumption.
  - exfalso. exact (benign_no_hit _ _ Hb Hbad).
Qed.

(* the coarser fuel bound: total output + interruptions *)
Corollary write_pieces_benign_total : forall n ps s sink,
  benign_schedule s -> length (concat ps) + interruptions s <= n ->
  exists s', write_pieces_sched n s sink ps = (WOk, sink ++ concat ps, s').
Proof.
  intros n ps s sink Hb Hn.
  destruct (write_pieces_benign n ps s sink Hb) as (s' & Hr & _).
  - intros p Hp. apply in_concat_length in Hp. lia.
  - exists s'. exact Hr.
Qed.

(* ANY schedule, ANY fuel: the sink holds an in-order prefix of concat ps, all of it exactly when
   the result is Ok *)
Theorem write_pieces_sink_prefix : forall n ps s sink r sink' s',
  write_pieces_sched n s sink ps = (r, sink', s') ->
  exists w rest, sink' = sink ++ w /\ concat ps = w ++ rest /\ (r = WOk <-> rest = []).
Proof.
  intros n. induction ps as [|p t IH]; intros s sink r sink' s' H.
  - cbn [write_pieces_sched] in H. inversion H; subst. exists [], [].
    split; [now rewrite app_nil_r|]. split; [reflexivity|]. tauto.
  - rewrite write_pieces_cons in H.
    destruct (write_all_sched n s sink p) as [[r1 sink1] s1] eqn:E1.
    destruct (write_all_sink_prefix _ _ _ _ _ _ _ E1) as (w1 & rest1 & -> & -> & Hiff1).
    assert (Hcase : r1 = WOk \/ r1 <> WOk) by (destruct r1; auto; right; discriminate).
    destruct Hcase as [-> | Hnok].
    + destruct Hiff1 as [Hr1 _]. rewrite (Hr1 eq_refl), app_nil_r in *.
      apply IH in H. destruct H as (w & rest & -> & Hw & Hiff).
      exists (w1 ++ w), rest. split; [now rewrite app_assoc|].
      split; [cbn [concat]; rewrite Hw; now rewrite app_assoc | exact Hiff].
    + assert (H' : (r, sink', s') = (r1, sink ++ w1, s1)) by (destruct r1; cbv beta iota in H; solve [symmetry; exact H | exfalso; apply Hnok; reflexivity]).
      inversion H'; subst. exists w1, (rest1 ++ concat t).
      split; [reflexivity|]. split; [cbn [concat]; now rewrite app_assoc|].
      split; [intro; contradiction|].
      intro E. apply app_eq_nil in E. destruct E as [E _]. apply Hiff1 in E. contradiction.
Qed.

Corollary write_pieces_ok_complete : forall n ps s sink sink' s',
  write_pieces_sched n s sink ps = (WOk, sink', s') -> sink' = sink ++ concat ps.
Proof.
  intros n ps s sink sink' s' H.
  destruct (write_pieces_sink_prefix _ _ _ _ _ _ _ H) as (w & rest & -> & -> & Hr).
  destruct Hr as [Hr _]. rewrite (Hr eq_refl), app_nil_r. reflexivity.
Qed.

Corollary write_pieces_err_lacks_bytes : forall n ps s sink r sink' s',
  write_pieces_sched n s sink ps = (r, sink', s') -> r <> WOk ->
  length sink' < length (sink ++ concat ps).
Proof.
  intros n ps s sink r sink' s' H Hr.
  destruct (write_pieces_sink_prefix _ _ _ _ _ _ _ H) as (w & rest & -> & -> & Hiff).
  assert (Hne : rest <> []) by (intro E; apply Hr, Hiff, E).
  pose proof (nonempty_length rest Hne). rewrite !app_length. lia.
Qed.

(* how the output is cut into write_all calls does not matter: any two splits of the same bytes,
   any two schedules (benign or not), if both serializations return Ok the sinks are equal; in
   particular equal to one write_all of the whole (ps2 = [concat ps1]) *)
Theorem write_pieces_split_independent : forall n1 n2 ps1 ps2 s1 s2 sink k1 k2 r1 r2,
  concat ps1 = concat ps2 ->
  write_pieces_sched n1 s1 sink ps1 = (WOk, k1, r1) ->
  write_pieces_sched n2 s2 sink ps2 = (WOk, k2, r2) ->
  k1 = k2.
Proof.
  intros n1 n2 ps1 ps2 s1 s2 sink k1 k2 r1 r2 E H1 H2.
  apply write_pieces_ok_complete in H1. apply write_pieces_ok_complete in H2. congruence.
Qed.

(* ------------------------------------------------------------------------------------------ *)
(** ** The datum serializer and the single-object writer

    Ser.v only returns the bytes a Vec sink ends up with, so the statements quantify over EVERY way
    [ps] of cutting these bytes into write_all calls (this covers whatever sequence of write_all
    calls the crate makes to produce them: varints, length-delimited payloads, flushed record
    buffers). *)

(* benign schedule: the scheduled sink ends up with exactly the Vec result *)
Theorem to_datum_schedule_independent : forall Sc slow v bs ps s sink n,
  to_datum Sc slow v = Ok bs -> concat ps = bs ->
  benign_schedule s -> (forall p, In p ps -> length p + interruptions s <= n) ->
  exists s', write_pieces_sched n s sink ps = (WOk, sink ++ bs, s') /\ benign_schedule s'.
Proof.
  intros Sc slow v bs ps s sink n _ <- Hb Hn.
  destruct (write_pieces_benign n ps s sink Hb Hn) as (s' & Hr & _ & Hb' & _).
  exists s'. split; assumption.
Qed.

(* any schedule: Ok only with the Vec result in place; otherwise a strict prefix of it *)
Theorem to_datum_any_schedule : forall Sc slow v bs ps s sink n r sink' s',
  to_datum Sc slow v = Ok bs -> concat ps = bs ->
  write_pieces_sched n s sink ps = (r, sink', s') ->
  exists w rest, sink' = sink ++ w /\ bs = w ++ rest /\ (r = WOk <-> rest = []).
Proof.
  intros Sc slow v bs ps s sink n r sink' s' _ <- H.
  exact (write_pieces_sink_prefix _ _ _ _ _ _ _ H).
Qed.

(* to_single_object: write_all marker, write_all fingerprint, then the datum's pieces *)
Theorem so_encode_schedule_independent : forall Sc fp slow v bs d ps s sink n,
  so_encode Sc fp slow v = Ok bs -> to_datum Sc slow v = Ok d -> concat ps = d ->
  benign_schedule s ->
  (forall p, In p (SO_MARKER :: fp :: ps) -> length p + interruptions s <= n) ->
  exists s', write_pieces_sched n s sink (SO_MARKER :: fp :: ps) = (WOk, sink ++ bs, s') /\
             benign_schedule s'.
Proof.
  intros Sc fp slow v bs d ps s sink n He Hd Hc Hb Hn.
  apply so_encode_layout in He. destruct He as (d' & Hd' & ->).
  rewrite Hd in Hd'. injection Hd' as <-.
  destruct (write_pieces_benign n _ s sink Hb Hn) as (s' & Hr & _ & Hb' & _).
  exists s'. split; [|exact Hb'].
  rewrite Hr. cbn [concat]. rewrite Hc. reflexivity.
Qed.

Theorem so_encode_any_schedule : forall Sc fp slow v bs d ps s sink n r sink' s',
  so_encode Sc fp slow v = Ok bs -> to_datum Sc slow v = Ok d -> concat ps = d ->
  write_pieces_sched n s sink (SO_MARKER :: fp :: ps) = (r, sink', s') ->
  exists w rest, sink' = sink ++ w /\ bs = w ++ rest /\ (r = WOk <-> rest = []).
Proof.
  intros Sc fp slow v bs d ps s sink n r sink' s' He Hd Hc H.
  apply so_encode_layout in He. destruct He as (d' & Hd' & ->).
  rewrite Hd in Hd'. injection Hd' as <-.
  destruct (write_pieces_sink_prefix _ _ _ _ _ _ _ H) as (w & rest & Hs & Hw & Hiff).
  exists w, rest. split; [exact Hs|]. split; [|exact Hiff].
  rewrite <- Hw. cbn [concat]. rewrite Hc. reflexivity.
Qed.

(* the model's primitive Ser.write on a Vec (budget None) is write_all on any benign sink *)
Theorem ser_write_vec_is_write_all : forall bs st s n,
  s_budget st = None -> benign_schedule s -> length bs + interruptions s <= n ->
  exists s', write_all_sched n s (s_out st) bs = (WOk, s_out st ++ bs, s') /\
             write bs st = (Ok tt, st_with_out st (s_out st ++ bs) None).
Proof.
  intros bs st s n Hbud Hb Hn.
  destruct (write_all_benign n s (s_out st) bs Hb Hn) as (s' & Hr & _).
  exists s'. split; [exact Hr|]. unfold write. rewrite Hbud. reflexivity.
Qed.

(* any sequence of Ser.write calls (the only way the serializer touches its writer) on a Vec =
   the same pieces through write_all on any benign sink *)
Theorem ser_writes_are_pieces : forall ps st s n,
  s_budget st = None -> benign_schedule s ->
  (forall p, In p ps -> length p + interruptions s <= n) ->
  exists st' s',
    fold_right (fun p m => do* _ <- write p; m) (sret tt) ps st = (Ok tt, st') /\
    s_out st' = s_out st ++ concat ps /\
    write_pieces_sched n s (s_out st) ps = (WOk, s_out st', s').
Proof.
  intros ps st s n Hbud Hb Hn.
  destruct (write_pieces_benign n ps s (s_out st) Hb Hn) as (s' & Hr & _).
  assert (Hf : forall ps st, s_budget st = None ->
            fold_right (fun p m => do* _ <- write p; m) (sret tt) ps st
            = (Ok tt, st_with_out st (s_out st ++ concat ps) None)).
  { clear. induction ps as [|p t IH]; intros st Hbud.
    - cbn [fold_right concat]. rewrite app_nil_r. unfold sret.
      destruct st; cbn in *; subst; reflexivity.
    - cbn [fold_right concat]. unfold sbind at 1. unfold write at 1. rewrite Hbud.
      rewrite IH by reflexivity. cbn [s_out st_with_out s_bufs s_sbufs s_slow].
      rewrite app_assoc. reflexivity. }
  exists (st_with_out st (s_out st ++ concat ps) None), s'.
  split; [apply Hf, Hbud|]. split; [reflexivity|]. exact Hr.
Qed.

(* so_encode_sink on a Vec is so_encode (the header writes prepend to the datum) *)
Theorem so_encode_sink_vec : forall Sc fp slow v,
  so_encode_sink Sc fp slow None v = so_encode Sc fp slow v.
Proof.
  intros Sc fp slow v. unfold so_encode_sink, so_encode, to_datum.
  destruct (fnode_at Sc 0) as [root|]; [|reflexivity].
  change ((do* _ <- write SO_MARKER; do* _ <- write fp; ser Sc root v) (mkS [] None [] [] slow))
    with (ser Sc root v (mkS (SO_MARKER ++ fp) None [] [] slow)).
  pose proof (RecordProofs.ser_pool_indep_budget Sc root v
                (mkS (SO_MARKER ++ fp) None [] [] slow) (st0 slow)) as H.
  assert (Hp : forall o, SerProofs.pool_ok (mkS o None [] [] slow)) by (intro; split; constructor).
  specialize (H (Hp _) (Hp _) eq_refl eq_refl).
  destruct (ser Sc root v (mkS (SO_MARKER ++ fp) None [] [] slow)) as [r1 t1].
  destruct (ser Sc root v (st0 slow)) as [r2 t2].
  destruct H as (-> & _ & _ & _ & _ & _ & _ & w & E1 & E2).
  cbn [s_out st0] in E1, E2. rewrite E1, E2. cbn [app].
  destruct r2 as [[]| | | |]; reflexivity.
Qed.

(* ------------------------------------------------------------------------------------------ *)
(** * (C) The defect shape: one bare `write` whose count is discarded -- REFUTED *)

Lemma write_once_accept : forall s sink buf k,
  fst (next_ans s) = Accept k ->
  write_once_sched s sink buf =
  (WOk, sink ++ firstn (accept_len k (length buf)) buf, snd (next_ans s)).
Proof.
  intros s sink buf k E. unfold write_once_sched, sink_write.
  destruct (next_ans s) as [a s']. cbn [fst snd] in *. subst a. reflexivity.
Qed.

(* the general lemma: the first answer accepts fewer bytes than the piece => the call reports Ok
   and the sink lacks (length piece - accepted) bytes of what write_all / a Vec would hold *)
Theorem write_once_short_lacks_bytes : forall s sink buf k,
  fst (next_ans s) = Accept k -> Nat.max (N.to_nat k) 1 < length buf ->
  exists sink',
    write_once_sched s sink buf = (WOk, sink', snd (next_ans s)) /\
    sink' = sink ++ firstn (Nat.max (N.to_nat k) 1) buf /\
    length sink' + (length buf - Nat.max (N.to_nat k) 1) = length (sink ++ buf) /\
    sink' <> sink ++ buf.
Proof.
  intros s sink buf k E Hk. eexists. split; [apply write_once_accept; exact E|].
  rewrite accept_len_short by lia. split; [reflexivity|].
  assert (Hl : length (sink ++ firstn (Nat.max (N.to_nat k) 1) buf)
               + (length buf - Nat.max (N.to_nat k) 1) = length (sink ++ buf)).
  { rewrite !app_length, firstn_length. lia. }
  split; [exact Hl|]. intro Heq. rewrite Heq in Hl. lia.
Qed.

(* ... whereas write_all on the very same sink delivers everything (benign schedule) *)
Corollary write_once_vs_write_all : forall n s sink buf k,
  benign_schedule s -> length buf + interruptions s <= n ->
  fst (next_ans s) = Accept k -> Nat.max (N.to_nat k) 1 < length buf ->
  fst (fst (write_all_sched n s sink buf)) = WOk /\
  fst (fst (write_once_sched s sink buf)) = WOk /\
  snd (fst (write_all_sched n s sink buf)) = sink ++ buf /\
  snd (fst (write_once_sched s sink buf)) <> sink ++ buf.
Proof.
  intros n s sink buf k Hb Hn E Hk.
  destruct (write_all_benign n s sink buf Hb Hn) as (s' & Hr & _).
  destruct (write_once_short_lacks_bytes s sink buf k E Hk) as (sink' & Ho & _ & _ & Hne).
  rewrite Hr, Ho. cbn [fst snd]. auto.
Qed.

(* Ok(0) is swallowed: the bare write reports Ok with nothing written, write_all reports WriteZero *)
Theorem write_once_swallows_zero : forall n s sink buf,
  fst (next_ans s) = Zero -> buf <> [] ->
  write_once_sched s sink buf = (WOk, sink, snd (next_ans s)) /\
  write_all_sched (S n) s sink buf = (WErrZero, sink, snd (next_ans s)).
Proof.
  intros n s sink buf E Hne. split.
  - unfold write_once_sched, sink_write. destruct (next_ans s) as [a s']. cbn [fst snd] in *.
    subst a. reflexivity.
  - rewrite write_all_sched_step by assumption. rewrite E. reflexivity.
Qed.

(* an interruption is not retried: the bare write fails where write_all goes on *)
Theorem write_once_fails_on_interrupt : forall n s sink buf,
  fst (next_ans s) = Interrupted -> buf <> [] ->
  write_once_sched s sink buf = (WErrHard, sink, snd (next_ans s)) /\
  write_all_sched (S n) s sink buf = write_all_sched n (snd (next_ans s)) sink buf.
Proof.
  intros n s sink buf E Hne. split.
  - unfold write_once_sched, sink_write. destruct (next_ans s) as [a s']. cbn [fst snd] in *.
    subst a. reflexivity.
  - rewrite write_all_sched_step by assumption. rewrite E. reflexivity.
Qed.

(* why a Vec-like sink cannot see the defect: when the first answer takes the whole piece the bare
   write IS write_all *)
Theorem write_once_full_is_write_all : forall n s sink buf k,
  fst (next_ans s) = Accept k -> length buf <= N.to_nat k -> buf <> [] ->
  write_once_sched s sink buf = (WOk, sink ++ buf, snd (next_ans s)) /\
  write_all_sched (S n) s sink buf = (WOk, sink ++ buf, snd (next_ans s)).
Proof.
  intros n s sink buf k E Hk Hne. split.
  - rewrite (write_once_accept _ _ _ _ E), accept_len_all by assumption.
    rewrite firstn_all. reflexivity.
  - rewrite write_all_sched_step by assumption. rewrite E, accept_len_all by assumption.
    rewrite firstn_all, skipn_all, write_all_sched_nil. reflexivity.
Qed.

Corollary write_once_vec_invisible : forall sink buf,
  length buf <= N.to_nat (2 ^ 64) ->
  write_once_sched [] sink buf = (WOk, sink ++ buf, []).
Proof.
  intros sink buf H. rewrite (write_once_accept [] sink buf (2 ^ 64)%N eq_refl).
  rewrite accept_len_all by assumption. rewrite firstn_all. reflexivity.
Qed.

(** ** A serialization with one defective call *)

Lemma write_mixed_all : forall n ps s sink,
  write_mixed_sched n s sink (map (pair true) ps) = write_pieces_sched n s sink ps.
Proof.
  intros n. induction ps as [|p t IH]; intros s sink; [reflexivity|].
  cbn [map write_mixed_sched write_pieces_sched].
  destruct (write_all_sched n s sink p) as [[r sink'] s']. destruct r; try reflexivity. apply IH.
Qed.

Lemma write_mixed_app : forall n a b s sink,
  write_mixed_sched n s sink (a ++ b) =
  match write_mixed_sched n s sink a with
  | (WOk, sink', s') => write_mixed_sched n s' sink' b
  | other => other
  end.
Proof.
  intros n. induction a as [|[all p] t IH]; intros b s sink; [reflexivity|].
  cbn [app write_mixed_sched].
  destruct (if all then write_all_sched n s sink p else write_once_sched s sink p) as [[r sink'] s'].
  destruct r; try reflexivity. apply IH.
Qed.

(* THE DEFECT, in general position: pieces [pre] written with write_all, then the piece [p] with one
   bare write that the sink answers with a short Accept, then [post] with write_all again, all of it
   on a benign sink: the serialization reports Ok, yet the sink holds the output with the tail of
   [p] cut out of the middle -- shorter than and different from the Vec result *)
Theorem defect_lacks_bytes : forall n pre p post s sink k sink1 s1,
  benign_schedule s ->
  (forall q, In q post -> length q + interruptions s <= n) ->
  write_pieces_sched n s sink pre = (WOk, sink1, s1) ->
  fst (next_ans s1) = Accept k -> Nat.max (N.to_nat k) 1 < length p ->
  exists s',
    write_mixed_sched n s sink (map (pair true) pre ++ (false, p) :: map (pair true) post)
    = (WOk, sink ++ concat pre ++ firstn (Nat.max (N.to_nat k) 1) p ++ concat post, s') /\
    length (sink ++ concat pre ++ firstn (Nat.max (N.to_nat k) 1) p ++ concat post)
      < length (sink ++ concat (pre ++ p :: post)) /\
    sink ++ concat pre ++ firstn (Nat.max (N.to_nat k) 1) p ++ concat post
      <> sink ++ concat (pre ++ p :: post).
Proof.
  intros n pre p post s sink k sink1 s1 [Hb Ht] Hn Hpre Ek Hk.
  pose proof (write_all_sched_drop) as _.
  assert (Hob : only_benign s s1).
  { clear - Hpre. revert s sink Hpre. induction pre as [|q t IH]; intros s sink H.
    - cbn [write_pieces_sched] in H. inversion H; subst. apply only_benign_refl.
    - rewrite write_pieces_cons in H.
      destruct (write_all_sched n s sink q) as [[r a] b] eqn:E.
      destruct r; try discriminate.
      apply write_all_ok_only_benign in E. apply IH in H.
      eapply only_benign_trans; eassumption. }
  pose proof (write_pieces_ok_complete _ _ _ _ _ _ Hpre) as ->.
  pose proof (only_benign_benign _ _ Hob Hb) as Hb1.
  pose proof (only_benign_tame _ _ Hob Ht) as Ht1.
  pose proof (only_benign_interruptions _ _ Hob Ht) as Hi1.
  destruct (benign_next s1 Hb1) as [_ Hb2]. pose proof (tame_next s1 Ht1) as Ht2.
  pose proof (interruptions_next s1 Ht1) as Hi2. rewrite Ek in Hi2. cbn [is_int] in Hi2.
  destruct (write_pieces_benign n post (snd (next_ans s1))
              ((sink ++ concat pre) ++ firstn (Nat.max (N.to_nat k) 1) p) (conj Hb2 Ht2))
    as (s' & Hr & _).
  { intros q Hq. specialize (Hn q Hq). lia. }
  exists s'. split.
  - rewrite write_mixed_app, write_mixed_all, Hpre.
    cbn [write_mixed_sched]. rewrite (write_once_accept _ _ _ _ Ek), accept_len_short by lia.
    rewrite write_mixed_all, Hr. rewrite <- !app_assoc. reflexivity.
  - assert (Hl : length (sink ++ concat pre ++ firstn (Nat.max (N.to_nat k) 1) p ++ concat post)
                 < length (sink ++ concat (pre ++ p :: post))).
    { rewrite concat_app. cbn [concat]. rewrite !app_length, firstn_length. lia. }
    split; [exact Hl|]. intro Heq. rewrite Heq in Hl. lia.
Qed.

(* the seeded change of single_object_encoding.rs (marker and fingerprint assembled into one
   10-byte header handed to ONE bare write, then the datum): on a sink whose first answer takes
   fewer than 10 bytes, to_single_object returns Ok but the sink does not hold the single-object
   encoding (a Vec cannot tell: write_once_vec_invisible) *)
Theorem so_header_defect_refuted : forall Sc fp slow v bs d ps s n k,
  so_encode Sc fp slow v = Ok bs -> to_datum Sc slow v = Ok d -> concat ps = d ->
  length fp = 8 ->
  benign_schedule s -> (forall q, In q ps -> length q + interruptions s <= n) ->
  fst (next_ans s) = Accept k -> N.to_nat k < 10 ->
  exists sink' s',
    write_mixed_sched n s [] ((false, SO_MARKER ++ fp) :: map (pair true) ps) = (WOk, sink', s') /\
    length sink' < length bs /\ sink' <> bs.
Proof.
  intros Sc fp slow v bs d ps s n k He Hd Hc Hfp Hb Hn Ek Hk.
  apply so_encode_layout in He. destruct He as (d' & Hd' & ->).
  rewrite Hd in Hd'. injection Hd' as <-.
  destruct (defect_lacks_bytes n [] (SO_MARKER ++ fp) ps s [] k [] s Hb Hn eq_refl Ek)
    as (s' & Hr & Hl & Hne).
  { rewrite app_length. cbn [SO_MARKER length]. lia. }
  cbn [map app concat] in Hr, Hl, Hne. rewrite Hc in Hl, Hne. rewrite <- app_assoc in Hl, Hne.
  eexists _, s'. split; [exact Hr|]. rewrite Hc. split; assumption.
Qed.

(** ** Computed witnesses *)

(* a 3-byte piece, a sink that takes 1 byte per call *)
Example write_once_witness :
  write_once_sched [Accept 1] [9]%N [1; 2; 3]%N = (WOk, [9; 1]%N, [Accept 1]) /\
  write_all_sched 3 [Accept 1] [9]%N [1; 2; 3]%N = (WOk, [9; 1; 2; 3]%N, [Accept 1]).
Proof. vm_compute. split; reflexivity. Qed.

(* struct_or_map.rs, flush of the buffered fields: record {a: int, b: string} given as (b, a); the
   serializer buffers b, writes a, then flushes the buffer. With write_all the ragged sink gets the
   Vec result; with the bare write (the seeded change) it reports Ok and holds 2 of the 4 bytes *)
Example record_flush_witness :
  let Sc := [FRecord (mkName [114%N] None) [([97%N], 1); ([98%N], 2)]; FInt; FString] in
  let v := SStruct [114%N] 2 [([98%N], SStr [104; 105]%N); ([97%N], SInt true W32 5%Z)] in
  to_datum Sc false v = Ok [10; 4; 104; 105]%N /\
  write_pieces_sched 9 [Accept 1; Interrupted; Accept 2; Interrupted; Accept 7] [] [[10]; [4; 104; 105]]%N
    = (WOk, [10; 4; 104; 105]%N, [Accept 7]) /\
  write_mixed_sched 9 [Accept 1] [] [(true, [10]%N); (false, [4; 104; 105]%N)]
    = (WOk, [10; 4]%N, [Accept 1]).
Proof. vm_compute. repeat split; reflexivity. Qed.

(* single_object_encoding.rs, header through one bare write: the sink takes 4 bytes of the header *)
Example so_header_witness :
  let fp := [1; 2; 3; 4; 5; 6; 7; 8]%N in
  so_encode [FString] fp false (SStr [104; 105; 33]%N)
    = Ok [195; 1; 1; 2; 3; 4; 5; 6; 7; 8; 6; 104; 105; 33]%N /\
  write_pieces_sched 20 [Accept 4; Interrupted; Accept 3] [] [SO_MARKER; fp; [6]; [104; 105; 33]]%N
    = (WOk, [195; 1; 1; 2; 3; 4; 5; 6; 7; 8; 6; 104; 105; 33]%N, [Accept 3]) /\
  write_mixed_sched 20 [Accept 4; Interrupted; Accept 3] []
      [(false, SO_MARKER ++ fp); (true, [6]%N); (true, [104; 105; 33]%N)]
    = (WOk, [195; 1; 1; 2; 6; 104; 105; 33]%N, [Accept 3]).
Proof. vm_compute. repeat split; reflexivity. Qed.

(* why [tame] is a hypothesis: a sink that interrupts forever never lets write_all finish *)
Theorem untame_refuted : forall n sink buf, buf <> [] ->
  Forall benign [Interrupted] /\ ~ tame [Interrupted] /\
  write_all_sched n [Interrupted] sink buf = (WOutOfFuel, sink, [Interrupted]).
Proof.
  intros n sink buf Hne. split; [repeat constructor|]. split; [intro H; apply H; reflexivity|].
  induction n as [|n IH]; [apply write_all_sched_O; assumption|].
  rewrite write_all_sched_step by assumption. exact IH.
Qed.

(* why the fuel bound counts the interruptions: one call fewer and the run is cut short *)
Example fuel_bound_tight :
  write_all_sched 3 [Interrupted; Interrupted; Accept 1] [] [1; 2]%N = (WOutOfFuel, [1]%N, [Accept 1]) /\
  write_all_sched 4 [Interrupted; Interrupted; Accept 1] [] [1; 2]%N = (WOk, [1; 2]%N, [Accept 1]).
Proof. vm_compute. split; reflexivity. Qed.

(* ------------------------------------------------------------------------------------------ *)
(** * (D) Fixed-size slice sinks: impl Write for &mut [u8] *)

Lemma slice_write_all_fits : forall rem sink buf, length buf <= rem ->
  slice_write_all rem sink buf = (WOk, sink ++ buf, rem - length buf).
Proof.
  intros rem sink buf H. unfold slice_write_all, slice_write.
  rewrite Nat.min_l by assumption. rewrite firstn_all.
  destruct (Nat.ltb_spec (length buf) (length buf)) as [Hlt|_]; [lia | reflexivity].
Qed.

Lemma slice_write_all_overflow : forall rem sink buf, rem < length buf ->
  slice_write_all rem sink buf = (WErrZero, sink ++ firstn rem buf, 0).
Proof.
  intros rem sink buf H. unfold slice_write_all, slice_write.
  rewrite Nat.min_r by lia. rewrite Nat.sub_diag.
  destruct (Nat.ltb_spec rem (length buf)) as [_|Hge]; [reflexivity | lia].
Qed.

(* std's override of write_all for slices agrees with the default loop over its `write` *)
Theorem slice_write_all_loop_eq : forall fuel rem sink buf, 2 <= fuel ->
  slice_write_all_loop fuel rem sink buf = slice_write_all rem sink buf.
Proof.
  intros fuel rem sink buf Hf.
  destruct fuel as [|[|f]]; [lia | lia |].
  destruct (nil_dec buf) as [->|Hne].
  - rewrite slice_write_all_fits by (cbn [length]; lia).
    cbn [slice_write_all_loop length]. now rewrite app_nil_r, Nat.sub_0_r.
  - pose proof (nonempty_length buf Hne) as Hl.
    destruct buf as [|x t]; [congruence|].
    destruct (Nat.le_gt_cases (length (x :: t)) rem) as [Hfit|Hov].
    + rewrite slice_write_all_fits by assumption.
      cbn [slice_write_all_loop]. unfold slice_write. rewrite Nat.min_l by assumption.
      destruct (Nat.eqb_spec (length (x :: t)) 0) as [E|_]; [lia|].
      rewrite firstn_all, skipn_all. reflexivity.
    + rewrite slice_write_all_overflow by assumption.
      cbn [slice_write_all_loop]. unfold slice_write at 1. rewrite Nat.min_r by lia.
      destruct (Nat.eqb_spec rem 0) as [E|Hpos].
      * subst rem. reflexivity.
      * rewrite Nat.sub_diag.
        assert (Hsk : skipn rem (x :: t) <> []).
        { intro E. apply (f_equal (@length N)) in E. rewrite skipn_length in E. cbn [length] in *. lia. }
        destruct (skipn rem (x :: t)) as [|y u] eqn:Esk; [congruence|].
        unfold slice_write. rewrite Nat.min_r by lia. cbn [Nat.eqb firstn].
        now rewrite app_nil_r.
Qed.

(* a whole serialization into a slice of cap bytes: it fits => Ok, exact bytes ... *)
Theorem slice_write_pieces_fits : forall ps cap sink, length (concat ps) <= cap ->
  slice_write_pieces cap sink ps = (WOk, sink ++ concat ps, cap - length (concat ps)).
Proof.
  induction ps as [|p t IH]; intros cap sink H.
  - cbn [slice_write_pieces concat length]. now rewrite app_nil_r, Nat.sub_0_r.
  - cbn [concat] in H |- *. rewrite app_length in H |- *. cbn [slice_write_pieces].
    rewrite slice_write_all_fits by lia. rewrite IH by lia.
    rewrite app_assoc. f_equal. lia.
Qed.

(* ... it does not => WriteZero, with the first cap bytes in place and the slice full *)
Theorem slice_write_pieces_overflow : forall ps cap sink, cap < length (concat ps) ->
  slice_write_pieces cap sink ps = (WErrZero, sink ++ firstn cap (concat ps), 0).
Proof.
  induction ps as [|p t IH]; intros cap sink H.
  - cbn [concat length] in H. lia.
  - cbn [concat] in H |- *. rewrite app_length in H. cbn [slice_write_pieces].
    destruct (Nat.le_gt_cases (length p) cap) as [Hfit|Hov].
    + rewrite slice_write_all_fits by assumption. rewrite IH by lia.
      rewrite firstn_app.
      replace (firstn cap p) with p by (symmetry; apply firstn_all2; assumption).
      now rewrite app_assoc.
    + rewrite slice_write_all_overflow by assumption.
      rewrite firstn_app. replace (cap - length p) with 0 by lia.
      cbn [firstn]. now rewrite app_nil_r.
Qed.

(** ** The slice as a schedule *)

Lemma slice_sched_nonempty : forall ps cap, slice_sched cap ps <> [].
Proof.
  induction ps as [|p t IH]; intros cap; cbn [slice_sched].
  - destruct (Nat.eqb cap 0); discriminate.
  - destruct (Nat.eqb (length p) 0); [apply IH|].
    destruct (Nat.eqb cap 0); [discriminate|].
    destruct (Nat.leb (length p) cap); discriminate.
Qed.

Lemma next_ans_cons : forall a t, t <> [] -> next_ans (a :: t) = (a, t).
Proof. intros a [|b t] H; [congruence | reflexivity]. Qed.

Lemma accept_len_cap : forall cap len, 1 <= cap -> accept_len (N.of_nat cap) len = Nat.min cap len.
Proof. intros cap len H. unfold accept_len. rewrite Nat2N.id. lia. Qed.

(* the scheduled sink driven by slice_sched IS the slice sink: same result, same bytes *)
Theorem slice_sched_is_slice : forall n ps cap sink, 2 <= n ->
  fst (write_pieces_sched n (slice_sched cap ps) sink ps) = fst (slice_write_pieces cap sink ps).
Proof.
  intros n. induction ps as [|p t IH]; intros cap sink Hn; [reflexivity|].
  destruct n as [|[|n]]; [lia | lia |].
  cbn [slice_sched slice_write_pieces]. rewrite write_pieces_cons.
  destruct (Nat.eqb_spec (length p) 0) as [E0|Hp].
  - apply length_zero_nil in E0. subst p.
    rewrite write_all_sched_nil. rewrite slice_write_all_fits by (cbn [length]; lia).
    cbn [length]. rewrite app_nil_r, Nat.sub_0_r. apply IH. lia.
  - assert (Hne : p <> []) by (intro E; subst p; cbn [length] in Hp; congruence).
    destruct (Nat.eqb_spec cap 0) as [Ec|Hc].
    + subst cap. rewrite write_all_sched_step by assumption. cbn [next_ans fst snd].
      rewrite slice_write_all_overflow by lia. cbn [firstn fst]. now rewrite app_nil_r.
    + destruct (Nat.leb_spec (length p) cap) as [Hfit|Hov].
      * rewrite write_all_sched_step by assumption.
        rewrite next_ans_cons by apply slice_sched_nonempty. cbn [fst snd].
        rewrite accept_len_cap by lia. rewrite Nat.min_r by assumption.
        rewrite firstn_all, skipn_all, write_all_sched_nil.
        rewrite slice_write_all_fits by assumption. apply IH. lia.
      * rewrite write_all_sched_step by assumption. cbn [next_ans fst snd].
        rewrite accept_len_cap by lia. rewrite Nat.min_l by lia.
        assert (Hsk : skipn cap p <> []).
        { intro E. apply (f_equal (@length N)) in E. rewrite skipn_length in E. cbn [length] in E. lia. }
        rewrite write_all_sched_step by assumption. cbn [next_ans fst snd].
        rewrite slice_write_all_overflow by assumption. reflexivity.
Qed.

(* total output <= cap => Ok and exact bytes *)
Theorem slice_sink_fits : forall n ps cap sink, 2 <= n -> length (concat ps) <= cap ->
  exists s', write_pieces_sched n (slice_sched cap ps) sink ps = (WOk, sink ++ concat ps, s').
Proof.
  intros n ps cap sink Hn H.
  pose proof (slice_sched_is_slice n ps cap sink Hn) as E.
  rewrite slice_write_pieces_fits in E by assumption.
  destruct (write_pieces_sched n (slice_sched cap ps) sink ps) as [[r k] s'].
  cbn [fst] in E. inversion E; subst. exists s'. reflexivity.
Qed.

(* total output > cap => Err(WriteZero) with the first cap bytes in place *)
Theorem slice_sink_overflow : forall n ps cap sink, 2 <= n -> cap < length (concat ps) ->
  exists s', write_pieces_sched n (slice_sched cap ps) sink ps
             = (WErrZero, sink ++ firstn cap (concat ps), s').
Proof.
  intros n ps cap sink Hn H.
  pose proof (slice_sched_is_slice n ps cap sink Hn) as E.
  rewrite slice_write_pieces_overflow in E by assumption.
  destruct (write_pieces_sched n (slice_sched cap ps) sink ps) as [[r k] s'].
  cbn [fst] in E. inversion E; subst. exists s'. reflexivity.
Qed.

(* for the serializer: the Vec result through a slice of cap bytes, whatever the split *)
Corollary to_datum_into_slice : forall Sc slow v bs ps cap n,
  to_datum Sc slow v = Ok bs -> concat ps = bs -> 2 <= n ->
  exists s',
    write_pieces_sched n (slice_sched cap ps) [] ps
    = if Nat.leb (length bs) cap then (WOk, bs, s') else (WErrZero, firstn cap bs, s').
Proof.
  intros Sc slow v bs ps cap n _ <- Hn.
  destruct (Nat.leb_spec (length (concat ps)) cap) as [Hfit|Hov].
  - exact (slice_sink_fits n ps cap [] Hn Hfit).
  - exact (slice_sink_overflow n ps cap [] Hn Hov).
Qed.

(** ** The byte budget of Ser.write (hence of SerHistory.hist_step, which passes its budget to the
    serializer state) is the slice sink *)

Theorem ser_write_budget_is_slice : forall bs st b, s_budget st = Some b ->
  write bs st =
  (let '(r, sink', rem') := slice_write_all (N.to_nat b) (s_out st) bs in
   (match r with WOk => Ok tt | _ => Err EIo end, st_with_out st sink' (Some (N.of_nat rem')))).
Proof.
  intros bs st b Hb. unfold write. rewrite Hb.
  destruct (N.leb_spec (N.of_nat (length bs)) b) as [Hfit|Hov].
  - rewrite slice_write_all_fits by lia. do 3 f_equal. lia.
  - rewrite slice_write_all_overflow by lia. reflexivity.
Qed.

(* any sequence of Ser.write calls under a budget of b bytes = the same pieces into a slice of b
   bytes: same verdict (Ok / Err EIo for WriteZero), same bytes, remaining budget = remaining room *)
Theorem ser_writes_budget_are_slice_pieces : forall ps st b, s_budget st = Some b ->
  exists res st',
    fold_right (fun p m => do* _ <- write p; m) (sret tt) ps st = (res, st') /\
    let '(r, sink', rem') := slice_write_pieces (N.to_nat b) (s_out st) ps in
    s_out st' = sink' /\ s_budget st' = Some (N.of_nat rem') /\
    ((r = WOk /\ res = Ok tt) \/ (r = WErrZero /\ res = Err EIo)).
Proof.
  induction ps as [|p t IH]; intros st b Hb.
  - cbn [fold_right slice_write_pieces]. unfold sret. eexists _, _. split; [reflexivity|].
    split; [reflexivity|]. split; [rewrite Hb; f_equal; lia|]. left. split; reflexivity.
  - cbn [fold_right slice_write_pieces]. unfold sbind at 1.
    rewrite (ser_write_budget_is_slice p st b Hb).
    destruct (Nat.le_gt_cases (length p) (N.to_nat b)) as [Hfit|Hov].
    + rewrite slice_write_all_fits by assumption.
      destruct (IH (st_with_out st (s_out st ++ p) (Some (N.of_nat (N.to_nat b - length p))))
                   (N.of_nat (N.to_nat b - length p)) eq_refl) as (res & st' & Hf & Hs).
      exists res, st'. split; [exact Hf|].
      cbn [s_out st_with_out] in Hs. rewrite Nat2N.id in Hs. exact Hs.
    + rewrite slice_write_all_overflow by assumption.
      eexists _, _. split; [reflexivity|]. cbn [s_out s_budget st_with_out].
      split; [reflexivity|]. split; [reflexivity|]. right. split; reflexivity.
Qed.

(** ** Computed examples *)

(* the out-of-order record of record_flush_witness into slices of 0..4 bytes: hist_step's verdict
   under the budget = the verdict of the slice sink on the pieces; the bytes in place are the first
   `cap` bytes; the scheduled sink driven by slice_sched agrees *)
Example slice_examples :
  let Sc := [FRecord (mkName [114%N] None) [([97%N], 1); ([98%N], 2)]; FInt; FString] in
  let v := SStruct [114%N] 2 [([98%N], SStr [104; 105]%N); ([97%N], SInt true W32 5%Z)] in
  let ps := [[10]; [4; 104; 105]]%N in
  map (fun cap => fst (hist_step Sc false ([], []) (v, Some (N.of_nat cap)))) [0; 1; 2; 3; 4; 5]
    = [Err EIo; Err EIo; Err EIo; Err EIo; Ok [10; 4; 104; 105]%N; Ok [10; 4; 104; 105]%N] /\
  map (fun cap => fst (slice_write_pieces cap [] ps)) [0; 1; 2; 3; 4; 5]
    = [(WErrZero, []); (WErrZero, [10]%N); (WErrZero, [10; 4]%N); (WErrZero, [10; 4; 104]%N);
       (WOk, [10; 4; 104; 105]%N); (WOk, [10; 4; 104; 105]%N)] /\
  map (fun cap => fst (write_pieces_sched 2 (slice_sched cap ps) [] ps)) [0; 1; 2; 3; 4; 5]
    = map (fun cap => fst (slice_write_pieces cap [] ps)) [0; 1; 2; 3; 4; 5] /\
  slice_sched 3 ps = [Accept 3; Accept 2; Zero].
Proof. vm_compute. repeat split; reflexivity. Qed.

(* ------------------------------------------------------------------------------------------ *)
Print Assumptions write_all_outcome.
Print Assumptions write_all_benign.
Print Assumptions write_all_benign_prefix.
Print Assumptions write_all_sink_prefix.
Print Assumptions write_all_err_proper_prefix.
Print Assumptions write_all_ok_only_benign.
Print Assumptions write_all_schedule_independent.
Print Assumptions write_all_sched_is_wav_one_slice.
Print Assumptions write_pieces_outcome.
Print Assumptions write_pieces_benign.
Print Assumptions write_pieces_sink_prefix.
Print Assumptions write_pieces_split_independent.
Print Assumptions to_datum_schedule_independent.
Print Assumptions to_datum_any_schedule.
Print Assumptions so_encode_schedule_independent.
Print Assumptions so_encode_any_schedule.
Print Assumptions ser_writes_are_pieces.
Print Assumptions so_encode_sink_vec.
Print Assumptions write_once_short_lacks_bytes.
Print Assumptions write_once_vs_write_all.
Print Assumptions write_once_swallows_zero.
Print Assumptions write_once_fails_on_interrupt.
Print Assumptions write_once_vec_invisible.
Print Assumptions defect_lacks_bytes.
Print Assumptions so_header_defect_refuted.
Print Assumptions record_flush_witness.
Print Assumptions so_header_witness.
Print Assumptions untame_refuted.
Print Assumptions slice_write_all_loop_eq.
Print Assumptions slice_write_pieces_fits.
Print Assumptions slice_write_pieces_overflow.
Print Assumptions slice_sched_is_slice.
Print Assumptions slice_sink_fits.
Print Assumptions slice_sink_overflow.
Print Assumptions to_datum_into_slice.
Print Assumptions ser_write_budget_is_slice.
Print Assumptions ser_writes_budget_are_slice_pieces.
Print Assumptions slice_examples.
