(** C07, use before definition, the canonical form: the parsed graph of a document with forward
    references writes every named type in full at its first occurrence in traversal order, i.e.
    its canonical form is the specification's Parsing Canonical Form of the HOISTED document
    ([hoist]: each forward-referenced definition moved to its first use, the original site
    replaced by the fullname). *)
From Coq Require Import NArith ZArith List Lia Bool Arith String ZifyN ZifyBool ZifyNat Relations.
Import ListNotations.
Require Import Base Schema Text Json Parse CanonicalForm Rabin CrcSpec.
Require Import PcfSpec SchemaTextProofs CanonicalFormProofs RabinProofs.
Require Import ParseResolveDefs ParseBridge ParseLayout ParseCf ParseRejectProofs ParseResolveProofs.
Require Import ParseForwardDefs ParseForwardLayout ParseForwardProofs.
Open Scope N_scope.
Notation length := List.length (only parsing).

Arguments N.eqb : simpl never.
Arguments N.leb : simpl never.
Arguments N.ltb : simpl never.
Arguments N.add : simpl never.

(* ------------------------------------------------------------------ *)
(** * the table of definitions: fullname -> (the defining object, its enclosing namespace),
      collected in the order of [rcollect] *)

Definition dtable := list (bytes * (raw * option bytes)).

Definition dt_gen {A} (proj : A -> raw) (F : raw -> dtable -> dtable) : list A -> dtable -> dtable :=
  fix go (l : list A) (T : dtable) : dtable :=
    match l with [] => T | x :: t => go t (F (proj x) T) end.

Fixpoint dtab (r : raw) (enc : option bytes) (T : dtable) {struct r} : dtable :=
  match r with
  | RwType _ | RwRef _ => T
  | RwUnion l => dt_gen (fun x => x) (fun x => dtab x enc) l T
  | RwObject ty lg nm ns fields syms items values sz pr sc =>
      let T1 := match nm with
                | Some n => (snd (spec_fullname enc n ns), (r, enc)) :: T
                | None => T
                end in
      match ty with
      | TyArray => match items with Some it => dtab it enc T1 | None => T1 end
      | TyMap => match values with Some it => dtab it enc T1 | None => T1 end
      | TyRecord => match fields with
                    | Some fl => dt_gen (fun f => snd f) (fun x => dtab x (own_ns enc nm ns)) fl T1
                    | None => T1
                    end
      | _ => T1
      end
  end.

Fixpoint dlook (f : bytes) (T : dtable) : option (raw * option bytes) :=
  match T with
  | [] => None
  | (f', d) :: t => if bytes_eqb f f' then Some d else dlook f t
  end.

(* ------------------------------------------------------------------ *)
(** * hoisting: the traversal of the canonical form writer, on the tree *)

Definition wmem (f : bytes) (W : list bytes) : bool := existsb (bytes_eqb f) W.

(* an absolute spelling of a fullname: resolves to itself in every enclosing namespace *)
Definition abs_name (f : bytes) : bytes := if has_dot f then f else DOT :: f.

Definition set_name (n : bytes) (r : raw) : raw :=
  match r with
  | RwObject ty lg _ ns fields syms items values sz pr sc =>
      RwObject ty lg (Some n) ns fields syms items values sz pr sc
  | _ => r
  end.

Definition hoist_gen {A} (proj : A -> raw) (setp : A -> raw -> A)
  (F : raw -> list bytes -> option (raw * list bytes))
  : list A -> list bytes -> option (list A * list bytes) :=
  fix go (l : list A) (W : list bytes) : option (list A * list bytes) :=
    match l with
    | [] => Some ([], W)
    | x :: t =>
        match F (proj x) W with
        | Some (x', W1) =>
            match go t W1 with
            | Some (t', W2) => Some (setp x x' :: t', W2)
            | None => None
            end
        | None => None
        end
    end.

Definition set_list (_ : raw) (y : raw) : raw := y.
Definition set_field (a : bytes * raw) (y : raw) : bytes * raw := (fst a, y).

Definition def_fullname (enc : option bytes) (nm ns : option bytes) : bytes :=
  snd (spec_fullname enc (match nm with Some n => n | None => [] end) ns).

Section Hoist.
  Variable D : bytes -> option (raw * option bytes).

  (* a child slot: a reference is followed to the definition it names (like the key stored in the
     graph); [H] is the traversal with one unit of fuel less *)
  Definition hchild (H : list bytes -> option bytes -> raw -> option (raw * list bytes))
    (enc : option bytes) (c : raw) (W : list bytes) : option (raw * list bytes) :=
    match c with
    | RwRef s =>
        let f := snd (spec_fullname enc s None) in
        match D f with
        | Some (d, enc_d) =>
            match H W enc_d d with
            | Some (d', W') =>
                if wmem f W then Some (RwRef s, W)                (* stays a reference *)
                else Some (set_name (abs_name f) d', W')          (* first use: the definition *)
            | None => None
            end
        | None => Some (RwRef s, W)
        end
    | _ => H W enc c
    end.

  (* [W]: the fullnames already written in full.  One unit of fuel per node visited, like
     write_cf. *)
  Fixpoint hoistR (n : nat) (W : list bytes) (enc : option bytes) (x : raw) {struct n}
    : option (raw * list bytes) :=
    match n with
    | O => None
    | S m =>
        match x with
        | RwType _ => Some (x, W)
        | RwRef _ => Some (x, W)
        | RwUnion l =>
            match hoist_gen (fun x => x) set_list (hchild (hoistR m) enc) l W with
            | Some (l', W') => Some (RwUnion l', W')
            | None => None
            end
        | RwObject ty lg nm ns fields syms items values sz pr sc =>
            let f := def_fullname enc nm ns in
            match ty with
            | TyArray =>
                match items with
                | Some it =>
                    match hchild (hoistR m) enc it W with
                    | Some (it', W') => Some (RwObject ty lg nm ns fields syms (Some it') values sz pr sc, W')
                    | None => None
                    end
                | None => Some (x, W)
                end
            | TyMap =>
                match values with
                | Some it =>
                    match hchild (hoistR m) enc it W with
                    | Some (it', W') => Some (RwObject ty lg nm ns fields syms items (Some it') sz pr sc, W')
                    | None => None
                    end
                | None => Some (x, W)
                end
            | TyRecord =>
                if wmem f W then Some (RwRef (abs_name f), W)         (* written at an earlier use *)
                else
                  match fields with
                  | Some fl =>
                      match hoist_gen (fun a => snd a) set_field (hchild (hoistR m) (own_ns enc nm ns)) fl (f :: W) with
                      | Some (fl', W') => Some (RwObject ty lg nm ns (Some fl') syms items values sz pr sc, W')
                      | None => None
                      end
                  | None => Some (x, f :: W)
                  end
            | TyEnum | TyFixed =>
                if wmem f W then Some (RwRef (abs_name f), W) else Some (x, f :: W)
            | _ => Some (x, W)
            end
        end
    end.
End Hoist.

Definition hoist_fuel (r : raw) : nat := Nat.max (cf_fuel (snd (glay (spec_index r) r None O))) (rdepth r).

(** the hoisted tree *)
Definition hoist (r : raw) : raw :=
  match hoistR (fun f => dlook f (dtab r None [])) (hoist_fuel r) [] None r with
  | Some (r', _) => r'
  | None => r
  end.

Definition hoist_text (j : json) : bytes :=
  match raw_of_json j with Ok r => rpcf None (hoist r) | _ => [] end.

(* ------------------------------------------------------------------ *)
(** * examples *)

Example doc_fwd_hoist :
  exists g, parse_schema doc_fwd = Ok g /\
    canonical_form 100 g = Ok (hoist_text doc_fwd) /\
    hoist_text doc_fwd = pcf 100 None doc_fwd_hoisted.
Proof. eexists. split; [vm_compute; reflexivity|]. split; vm_compute; reflexivity. Qed.

Example doc_f1_hoist :
  canonical_form 100 (graph_any doc_f1) = Ok (hoist_text doc_f1) /\
  hoist_text doc_f1 = lit "{""name"":""a.A"",""type"":""record"",""fields"":[{""name"":""f"",""type"":{""name"":""b.B"",""type"":""record"",""fields"":[{""name"":""x"",""type"":""int""},{""name"":""y"",""type"":[""null"",""a.A""]}]}},{""name"":""g"",""type"":""b.B""}]}".
Proof. split; vm_compute; reflexivity. Qed.

Example doc_f2_hoist :
  canonical_form 100 (graph_any doc_f2) = Ok (hoist_text doc_f2) /\
  hoist_text doc_f2 = lit "[{""name"":""P"",""type"":""record"",""fields"":[{""name"":""q"",""type"":[""null"",{""name"":""Q"",""type"":""record"",""fields"":[{""name"":""p"",""type"":[""null"",""P""]}]}]}]},""Q""]".
Proof. split; vm_compute; reflexivity. Qed.

Example doc_f3_hoist :
  canonical_form 100 (graph_any doc_f3) = Ok (hoist_text doc_f3) /\
  hoist_text doc_f3 = lit "{""name"":""R"",""type"":""record"",""fields"":[{""name"":""a"",""type"":{""name"":""F"",""type"":""fixed"",""size"":4}},{""name"":""b"",""type"":""F""},{""name"":""c"",""type"":""F""}]}".
Proof. split; vm_compute; reflexivity. Qed.

(* without forward references nothing moves *)
Example doc_names_hoist :
  match raw_of_json doc_names with Ok r => hoist r = r | _ => False end.
Proof. vm_compute. reflexivity. Qed.

(* ------------------------------------------------------------------ *)
(** * the absolute spelling of a fullname *)

Lemma key_of_def_abs : forall k enc ns, key_good k -> key_of_def enc (abs_name (full k)) ns = k.
Proof.
  intros [[n|] s] enc ns [Hns Hd]; cbn [fst snd] in *; unfold full, name_of_key, abs_name; cbn [fst snd nm_full].
  - assert (Hdot : has_dot (n ++ [DOT] ++ s) = true).
    { rewrite has_dot_app. cbn [app]. unfold has_dot at 2. cbn [existsb].
      change (DOT =? PDOT) with true. cbn [orb]. apply orb_true_r. }
    rewrite Hdot. unfold key_of_def, rsplit_dot. rewrite rfind_dot_join by exact Hd.
    rewrite firstn_app_exact.
    replace (S (length n)) with (length (n ++ [DOT])) by (rewrite app_length; cbn [List.length]; lia).
    rewrite app_assoc, skipn_app_exact.
    destruct Hns as [Hns|[n' [Hn' Hne]]]; [discriminate|]. inversion Hn'. subst n'.
    destruct n; [contradiction|]. reflexivity.
  - rewrite Hd. unfold key_of_def, rsplit_dot.
    change (DOT :: s) with ([] ++ [DOT] ++ s). rewrite rfind_dot_join by exact Hd. reflexivity.
Qed.

Lemma spec_fullname_key : forall enc nm ns,
  spec_fullname enc nm ns = (fst (key_of_def enc nm ns), full (key_of_def enc nm ns)).
Proof.
  intros. rewrite (surjective_pairing (spec_fullname enc nm ns)). f_equal;
    [symmetry; apply ns_def_spec|symmetry; apply full_def_spec].
Qed.

(* in any context, the absolute spelling names the same definition, with the same namespace *)
Lemma abs_spec : forall enc_d n ns_d enc ns, ns_ok enc_d ->
  spec_fullname enc (abs_name (snd (spec_fullname enc_d n ns_d))) ns = spec_fullname enc_d n ns_d.
Proof.
  intros enc_d n ns_d enc ns Hok. rewrite (spec_fullname_key enc_d n ns_d). cbn [snd].
  rewrite spec_fullname_key. rewrite key_of_def_abs by (apply key_of_def_good; exact Hok). reflexivity.
Qed.

(* ------------------------------------------------------------------ *)
(** * sub-trees of the document and their place in the graph *)

Definition gsl (g : list mnode) (n0 : nat) (ns : list mnode) : Prop :=
  forall i x, nth_error ns i = Some x -> nth_error g (n0 + i) = Some x.

Lemma gsl_hd : forall g n0 x ns, gsl g n0 (x :: ns) -> nth_error g n0 = Some x.
Proof. intros g n0 x ns H. specialize (H O x eq_refl). rewrite Nat.add_0_r in H. exact H. Qed.
Lemma gsl_tl : forall g n0 x ns, gsl g n0 (x :: ns) -> gsl g (S n0) ns.
Proof. intros g n0 x ns H i y Hy. specialize (H (S i) y Hy). replace (S n0 + i)%nat with (n0 + S i)%nat by lia. exact H. Qed.
Lemma gsl_app_l : forall g n0 a b, gsl g n0 (a ++ b) -> gsl g n0 a.
Proof.
  intros g n0 a b H i y Hy. apply H. rewrite nth_error_app1; [exact Hy|].
  apply nth_error_Some. congruence.
Qed.
Lemma gsl_app_r : forall g n0 a b, gsl g n0 (a ++ b) -> gsl g (n0 + length a) b.
Proof.
  intros g n0 a b H i y Hy. replace (n0 + length a + i)%nat with (n0 + (length a + i))%nat by lia.
  apply H. rewrite nth_error_app2 by lia. replace (length a + i - length a)%nat with i by lia. exact Hy.
Qed.

Lemma rv_named_nsok : forall enc ty nm ns E nsp E1,
  rv_named enc ty nm ns E = Some (true, nsp, E1) -> ns_ok enc -> ns_ok nsp.
Proof.
  intros enc ty nm ns E nsp E1 H Hok. apply rv_named_has in H. destruct H as (n & -> & ->).
  rewrite <- ns_def_spec. apply key_of_def_ns_ok. exact Hok.
Qed.

Section Sim.
  Variable R : raw.
  Variable EF : env.
  Hypothesis HR : rva (rcollect R None []) R None [] = Some EF.
  Let G := rcollect R None [].
  Let res := spec_index R.
  Let g := snd (glay res R None O).
  Let D := fun f => dlook f (dtab R None []).

  (* [x], valid, is laid out at index [i] of the graph *)
  Definition Sub (x : raw) (enc : option bytes) (i : nat) : Prop :=
    gsl g i (snd (glay res x enc i)) /\ ns_ok enc /\ exists E E', rva G x enc E = Some E'.

  Definition def_shape (f : bytes) (d : raw) (enc_d : option bytes) : Prop :=
    exists ty lg n ns fields syms items values sz pr sc,
      d = RwObject ty lg (Some n) ns fields syms items values sz pr sc /\ is_named_ty ty = true /\
      snd (spec_fullname enc_d n ns) = f.

  Definition TP (e : bytes * bool) (t : bytes * (raw * option bytes)) : Prop :=
    fst e = fst t /\
    (snd e = true -> def_shape (fst e) (fst (snd t)) (snd (snd t)) /\ exists j, Sub (fst (snd t)) (snd (snd t)) j).

  Definition DtP (r : raw) : Prop :=
    forall enc i E E' T,
      rva G r enc E = Some E' -> gsl g i (snd (glay res r enc i)) -> ns_ok enc ->
      Forall2 TP E T -> Forall2 TP E' (dtab r enc T).

  Lemma dtp_gen {A K} (proj : A -> raw) (tag : A -> nat -> K) :
    forall l, Forall (fun a => DtP (proj a)) l ->
    forall enc n E E' T,
      rva_gen proj (fun x => rva G x enc) l E = Some E' ->
      gsl g n (snd (glay_gen proj tag (fun x => glay res x enc) l n)) -> ns_ok enc ->
      Forall2 TP E T -> Forall2 TP E' (dt_gen proj (fun x => dtab x enc) l T).
  Proof.
    induction l as [|x t IH]; intros HF enc n E E' T Hrv Hsl Hns HT; cbn [rva_gen dt_gen] in *.
    - inversion Hrv. subst. exact HT.
    - inversion HF as [|? ? Hx Ht]. subst.
      destruct (rva G (proj x) enc E) as [E1|] eqn:Ex; [|discriminate].
      cbn [glay_gen snd] in Hsl.
      eapply IH; [exact Ht|exact Hrv|exact (gsl_app_r _ _ _ _ Hsl)|exact Hns|].
      eapply Hx; [exact Ex|exact (gsl_app_l _ _ _ _ Hsl)|exact Hns|exact HT].
  Qed.

  Theorem dtab_spec : forall r, DtP r.
  Proof.
    induction r using raw_ind'; unfold DtP; intros enc i E E' T Hrv Hsl Hns HT.
    - cbn [rva dtab] in *. destruct (is_prim_ty t); inversion Hrv. subst. exact HT.
    - cbn [rva dtab] in *. destruct (elook _ G) as [[|]|]; inversion Hrv. subst. exact HT.
    - cbn [rva dtab glay snd] in *.
      eapply (dtp_gen (fun x => x) tag_list); [exact H|exact Hrv|exact (gsl_tl _ _ _ _ Hsl)|exact Hns|exact HT].
    - pose proof Hrv as Hrv0. cbn [rva] in Hrv. destruct (logical_ok lg pr); [|discriminate].
      destruct (rv_named enc ty nm ns E) as [[[has nsp] E1]|] eqn:Ern; [|discriminate].
      pose proof (rv_named_collect _ _ _ _ _ _ _ _ Ern) as [HE1 Hnsp].
      set (T1 := match nm with
                 | Some n => (snd (spec_fullname enc n ns),
                              (RwObject ty lg nm ns fields syms items values sz pr sc, enc)) :: T
                 | None => T end).
      assert (HT1 : Forall2 TP E1 T1).
      { subst E1. unfold T1. destruct nm as [n|]; [|exact HT]. constructor; [|exact HT].
        split; [reflexivity|]. cbn [fst snd]. intro Hty. split.
        - do 11 eexists. split; [reflexivity|]. split; [exact Hty|reflexivity].
        - exists i. split; [exact Hsl|]. split; [exact Hns|]. eauto. }
      cbn [dtab]. fold T1.
      destruct ty; try (inversion Hrv; subst; exact HT1).
      + destruct items as [it|]; [|discriminate]. cbn [opt_all] in H0. cbn [glay snd] in Hsl.
        eapply H0; [exact Hrv|exact (gsl_tl _ _ _ _ Hsl)|exact Hns|exact HT1].
      + destruct values as [it|]; [|discriminate]. cbn [opt_all] in H1. cbn [glay snd] in Hsl.
        eapply H1; [exact Hrv|exact (gsl_tl _ _ _ _ Hsl)|exact Hns|exact HT1].
      + destruct has; [|discriminate]. destruct fields as [fl|]; [|discriminate]. cbn [opt_all] in H.
        cbn [glay snd] in Hsl. rewrite <- Hnsp.
        assert (Hk : fst (match nm with Some n => key_of_def enc n ns | None => dummy_key end) = nsp).
        { apply rv_named_has in Ern. destruct Ern as (n & -> & ->). apply ns_def_spec. }
        eapply (dtp_gen (fun f => snd f) tag_field); [exact H|exact Hrv| | |exact HT1].
        * rewrite <- Hk. exact (gsl_tl _ _ _ _ Hsl).
        * eapply rv_named_nsok; eassumption.
      + destruct has; [|discriminate]. destruct syms; inversion Hrv. subst. exact HT1.
      + destruct has; [|discriminate]. destruct sz; inversion Hrv. subst. exact HT1.
  Qed.

  Lemma tp_look : forall E T f, Forall2 TP E T -> elook f E = Some true ->
    exists d enc_d, dlook f T = Some (d, enc_d) /\ def_shape f d enc_d /\ exists j, Sub d enc_d j.
  Proof.
    intros E T f A. induction A as [|[f' b] [f'' [d enc_d]] E T [H1 H2] A IH]; intro H; [discriminate|].
    cbn [elook dlook fst snd] in *. subst f''.
    destruct (bytes_eqb f f') eqn:Ef; [|apply IH; exact H].
    inversion H. subst b. apply bytes_eqb_eq in Ef. subst f'. exists d, enc_d. split; [reflexivity|]. apply H2. reflexivity.
  Qed.

  (* ---------------------------------------------------------------- *)
  (** ** facts about the whole document *)

  Let Hfacts := any_core_raw R EF HR.

  Lemma res_named : forall f, elook f G = Some true -> named_at g (res f) f.
  Proof. exact (proj1 (proj2 Hfacts)). Qed.
  Lemma named_res : forall f i, named_at g i f -> i = res f.
  Proof. exact (proj2 (proj2 Hfacts)). Qed.

  Lemma sub_root : Sub R None O.
  Proof.
    split; [intros i x Hx; exact Hx|]. split; [left; reflexivity|]. exists [], EF. exact HR.
  Qed.

  (* the node at the head of a valid named definition carries its fullname *)
  Lemma sub_named_at : forall f d enc_d j, def_shape f d enc_d -> Sub d enc_d j -> named_at g j f.
  Proof.
    intros f d enc_d j (ty & lg & n & ns & fields & syms & items & values & sz & pr & sc & -> & Hty & Hf)
           (Hsl & Hns & E & E' & Hrv).
    cbn [rva] in Hrv. destruct (logical_ok lg pr); [|discriminate].
    destruct (rv_named enc_d ty (Some n) ns E) as [[[has nsp] E1]|] eqn:Ern; [|discriminate].
    assert (Hhas : has = true).
    { unfold rv_named in Ern. destruct (elook _ E); [discriminate|]. inversion Ern. reflexivity. }
    subst has.
    assert (Hfull : nm_full (name_of_key (key_of_def enc_d n ns)) = f).
    { rewrite <- Hf. apply full_def_spec. }
    destruct ty; try discriminate; cbn [glay snd] in Hsl.
    - destruct fields as [fl|]; [|discriminate]. apply gsl_hd in Hsl.
      eexists _, _. split; [exact Hsl|]. split; [reflexivity|exact Hfull].
    - destruct syms as [sl|]; [|discriminate]. apply gsl_hd in Hsl.
      eexists _, _. split; [exact Hsl|]. split; [reflexivity|exact Hfull].
    - destruct sz as [z|]; [|discriminate]. apply gsl_hd in Hsl.
      eexists _, _. split; [exact Hsl|]. split; [reflexivity|exact Hfull].
  Qed.

  (* every record, enum or fixed of the document is in the table, at its index *)
  Lemma D_spec : forall f, elook f G = Some true ->
    exists d enc_d, D f = Some (d, enc_d) /\ def_shape f d enc_d /\ Sub d enc_d (res f).
  Proof.
    intros f Hf.
    assert (HT : Forall2 TP EF (dtab R None [])).
    { eapply (dtab_spec R None O [] EF []); [exact HR|intros i x Hx; exact Hx|left; reflexivity|constructor]. }
    assert (HG : EF = G) by (apply (rva_collect R _ _ _ _ HR)).
    rewrite HG in HT. destruct (tp_look G _ f HT Hf) as (d & enc_d & Hd & Hsh & j & Hj).
    exists d, enc_d. split; [exact Hd|]. split; [exact Hsh|].
    rewrite <- (named_res f j (sub_named_at f d enc_d j Hsh Hj)). exact Hj.
  Qed.

  (* ---------------------------------------------------------------- *)
  (** ** the written flags against the set of written fullnames *)

  Definition Wr (st : cfstate) (W : list bytes) : Prop :=
    forall i f, named_at g i f -> nth_error (cf_written st) i = Some (wmem f W).

  Lemma Wr_same : forall st st' W, cf_written st' = cf_written st -> Wr st W -> Wr st' W.
  Proof. intros st st' W H HW i f Hn. rewrite H. apply HW. exact Hn. Qed.

  Lemma nth_error_set_nth_eq {A} : forall (l : list A) i v x, nth_error l i = Some x -> nth_error (set_nth l i v) i = Some v.
  Proof.
    induction l as [|h t IH]; intros [|i] v x H; cbn [nth_error set_nth] in *; try discriminate; [reflexivity|].
    eapply IH. exact H.
  Qed.
  Lemma nth_error_set_nth_neq {A} : forall (l : list A) i j v, i <> j -> nth_error (set_nth l i v) j = nth_error l j.
  Proof.
    induction l as [|h t IH]; intros [|i] [|j] v H; cbn [nth_error set_nth]; try reflexivity; try lia.
    apply IH. lia.
  Qed.

  Lemma Wr_mark : forall st W i f w, named_at g i f -> Wr st W -> cf_written st = w ->
    forall st1, cf_written st1 = set_nth w i true -> Wr st1 (f :: W).
  Proof.
    intros st W i f w Hi HW Hw st1 H1 i' f' Hn. rewrite H1. subst w.
    destruct (Nat.eq_dec i i') as [<-|Hne].
    - assert (f' = f).
      { destruct Hi as (n1 & m1 & A1 & B1 & C1), Hn as (n2 & m2 & A2 & B2 & C2). congruence. }
      subst f'. rewrite (nth_error_set_nth_eq _ _ _ _ (HW i f Hi)).
      unfold wmem. cbn [existsb]. rewrite bytes_eqb_refl. reflexivity.
    - rewrite nth_error_set_nth_neq by exact Hne. rewrite (HW i' f' Hn). f_equal.
      unfold wmem. cbn [existsb]. destruct (bytes_eqb f' f) eqn:Ef; [|reflexivity].
      apply bytes_eqb_eq in Ef. subst f'. exfalso. apply Hne.
      rewrite (named_res f i Hi), (named_res f i' Hn). reflexivity.
  Qed.

  (* ---------------------------------------------------------------- *)
  (** ** one step of write_cf on the unnamed nodes, whatever the guard state *)

  Lemma write_cf_union_inv : forall f key st st' lt ks,
    nth_error g key = Some (mkNode (RUnion ks) lt) -> write_cf (S f) g key st = Ok st' ->
    exists st0 s1, cf_out st0 = cf_out st /\ cf_written st0 = cf_written st /\
      sep_by (fun k s => write_cf f g k s) ks true (cf_emit (lit "[") st0) = Ok s1 /\
      cf_out st' = cf_out s1 ++ lit "]" /\ cf_written st' = cf_written s1.
  Proof.
    intros f key st st' lt ks Hn H. cbn [write_cf] in H. rewrite Hn in H. cbn [m_type andb] in H.
    destruct (Nat.ltb (cf_nnamed st) (nth key (cf_being st) O)); [discriminate|].
    apply rbind_ok_inv in H. destruct H as (s2 & H2 & H). inversion H. subst st'. clear H.
    apply rbind_ok_inv in H2. destruct H2 as (s1 & H1 & H2). inversion H2. subst s2. clear H2.
    eexists _, s1. split; [|split; [|split; [exact H1|split; reflexivity]]]; reflexivity.
  Qed.

  Lemma write_cf_array_inv : forall f key st st' lt items,
    nth_error g key = Some (mkNode (RArray items) lt) -> write_cf (S f) g key st = Ok st' ->
    exists st0 s1, cf_out st0 = cf_out st /\ cf_written st0 = cf_written st /\
      write_cf f g items (cf_emit (lit "{""type"":""array"",""items"":") st0) = Ok s1 /\
      cf_out st' = cf_out s1 ++ lit "}" /\ cf_written st' = cf_written s1.
  Proof.
    intros f key st st' lt items Hn H. cbn [write_cf] in H. rewrite Hn in H. cbn [m_type andb] in H.
    destruct (Nat.ltb (cf_nnamed st) (nth key (cf_being st) O)); [discriminate|].
    apply rbind_ok_inv in H. destruct H as (s2 & H2 & H). inversion H. subst st'. clear H.
    apply rbind_ok_inv in H2. destruct H2 as (s1 & H1 & H2). inversion H2. subst s2. clear H2.
    eexists _, s1. split; [|split; [|split; [exact H1|split; reflexivity]]]; reflexivity.
  Qed.

  Lemma write_cf_map_inv : forall f key st st' lt items,
    nth_error g key = Some (mkNode (RMap items) lt) -> write_cf (S f) g key st = Ok st' ->
    exists st0 s1, cf_out st0 = cf_out st /\ cf_written st0 = cf_written st /\
      write_cf f g items (cf_emit (lit "{""type"":""map"",""values"":") st0) = Ok s1 /\
      cf_out st' = cf_out s1 ++ lit "}" /\ cf_written st' = cf_written s1.
  Proof.
    intros f key st st' lt items Hn H. cbn [write_cf] in H. rewrite Hn in H. cbn [m_type andb] in H.
    destruct (Nat.ltb (cf_nnamed st) (nth key (cf_being st) O)); [discriminate|].
    apply rbind_ok_inv in H. destruct H as (s2 & H2 & H). inversion H. subst st'. clear H.
    apply rbind_ok_inv in H2. destruct H2 as (s1 & H1 & H2). inversion H2. subst s2. clear H2.
    eexists _, s1. split; [|split; [|split; [exact H1|split; reflexivity]]]; reflexivity.
  Qed.

  (* ---------------------------------------------------------------- *)
  (** ** the traversal of the writer is the traversal of [hoistR] *)

  Lemma glay_key_nonref : forall x enc i, (forall s, x <> RwRef s) -> fst (glay res x enc i) = i.
  Proof.
    intros x enc i H. destruct x; cbn [glay fst]; try reflexivity.
    - exfalso. eapply H. reflexivity.
    - destruct ty; try reflexivity; [destruct items|destruct values|destruct fields]; reflexivity.
  Qed.

  Lemma hchild_nonref : forall H enc c W, (forall s, c <> RwRef s) -> hchild D H enc c W = H W enc c.
  Proof. intros H enc c W Hn. destruct c; try reflexivity. exfalso. eapply Hn. reflexivity. Qed.

  Lemma hoistR_named : forall f d enc_d m W d' W',
    def_shape f d enc_d -> ns_ok enc_d -> hoistR D m W enc_d d = Some (d', W') ->
    (wmem f W = true -> d' = RwRef (abs_name f) /\ W' = W) /\
    (wmem f W = false -> forall enc, rpcf enc (set_name (abs_name f) d') = rpcf enc_d d').
  Proof.
    intros f d enc_d m W d' W' (ty & lg & n & ns & fields & syms & items & values & sz & pr & sc & -> & Hty & Hf) Hns H.
    destruct m as [|m]; [discriminate|]. cbn [hoistR] in H. unfold def_fullname in H. rewrite Hf in H.
    assert (Hrp : forall enc fields', rpcf enc (RwObject ty lg (Some (abs_name f)) ns fields' syms items values sz pr sc)
                           = rpcf enc_d (RwObject ty lg (Some n) ns fields' syms items values sz pr sc)).
    { intros enc fields'. subst f.
      destruct ty; try discriminate Hty; cbn [rpcf]; rewrite (abs_spec enc_d n ns enc ns Hns); reflexivity. }
    destruct ty; try discriminate Hty; destruct (wmem f W); (split; intro Hc; try discriminate Hc).
    - inversion H. split; reflexivity.
    - intro enc. destruct fields as [fl|].
      + destruct (hoist_gen _ _ _ fl (f :: W)) as [[fl' W'']|]; [|discriminate]. inversion H. subst. apply Hrp.
      + inversion H. subst. apply Hrp.
    - inversion H. split; reflexivity.
    - intro enc. inversion H. subst. apply Hrp.
    - inversion H. split; reflexivity.
    - intro enc. inversion H. subst. apply Hrp.
  Qed.

  Definition SimAt (n : nat) : Prop := forall x enc i st st' W,
    Sub x enc i -> (forall s, x <> RwRef s) -> Wr st W -> write_cf n g i st = Ok st' ->
    exists x' W', hoistR D n W enc x = Some (x', W') /\ cf_out st' = cf_out st ++ rpcf enc x' /\ Wr st' W'.

  Lemma sim_child : forall m, SimAt m -> forall c enc pos E E' st0 s1 W,
    rva G c enc E = Some E' -> ns_ok enc -> gsl g pos (snd (glay res c enc pos)) -> Wr st0 W ->
    write_cf m g (fst (glay res c enc pos)) st0 = Ok s1 ->
    exists c' W', hchild D (hoistR D m) enc c W = Some (c', W') /\
      cf_out s1 = cf_out st0 ++ rpcf enc c' /\ Wr s1 W'.
  Proof.
    intros m HS c enc pos E E' st0 s1 W Hrv Hns Hsl HW Hw.
    assert (Hnonref : (forall s, c <> RwRef s) ->
              exists c' W', hchild D (hoistR D m) enc c W = Some (c', W') /\
                cf_out s1 = cf_out st0 ++ rpcf enc c' /\ Wr s1 W').
    { intro Hn. rewrite (glay_key_nonref c enc pos Hn) in Hw. rewrite (hchild_nonref _ enc c W Hn).
      apply (HS c enc pos st0 s1 W); [|exact Hn|exact HW|exact Hw].
      split; [exact Hsl|]. split; [exact Hns|]. eauto. }
    destruct c as [t|s|l|ty lg nm ns fields syms items values sz pr sc]; try (apply Hnonref; discriminate).
    clear Hnonref. cbn [glay fst] in Hw. cbn [rva] in Hrv.
    destruct (elook (snd (spec_fullname enc s None)) G) as [[|]|] eqn:El; try discriminate.
    set (f := snd (spec_fullname enc s None)) in *.
    destruct (D_spec f El) as (d & enc_d & Hd & Hsh & Hsub).
    assert (Hnr : forall s0, d <> RwRef s0).
    { destruct Hsh as (ty & lg & n & ns & fields & syms & items & values & sz & pr & sc & -> & _). discriminate. }
    destruct (HS d enc_d (res f) st0 s1 W Hsub Hnr HW Hw) as (d' & W' & Hh & Ho & HW').
    unfold hchild. fold f. rewrite Hd, Hh.
    destruct (hoistR_named f d enc_d m W d' W' Hsh (proj1 (proj2 Hsub)) Hh) as [Ht Hf].
    destruct (wmem f W) eqn:Em.
    - destruct (Ht eq_refl) as [-> ->]. exists (RwRef s), W. split; [reflexivity|]. split; [|exact HW'].
      rewrite Ho. f_equal. cbn [rpcf]. fold f. f_equal.
      destruct Hsh as (ty & lg & n & ns & fields & syms & items & values & sz & pr & sc & _ & _ & Hf').
      rewrite <- Hf'. rewrite (abs_spec enc_d n ns enc_d None (proj1 (proj2 Hsub))). reflexivity.
    - exists (set_name (abs_name f) d'), W'. split; [reflexivity|]. split; [|exact HW'].
      rewrite Ho, (Hf eq_refl enc). reflexivity.
  Qed.

  Lemma sim_loop : forall m, SimAt m ->
    forall {A K} (proj : A -> raw) (tag : A -> nat -> K) (setp : A -> raw -> A)
           (body : K -> cfstate -> result cfstate) (pre post : A -> bytes),
    (forall a y, proj (setp a y) = y) -> (forall a y, pre (setp a y) = pre a) ->
    (forall a y, post (setp a y) = post a) ->
    (forall a k s s', body (tag a k) s = Ok s' ->
       exists s0 s1, cf_out s0 = cf_out s ++ pre a /\ cf_written s0 = cf_written s /\
         write_cf m g k s0 = Ok s1 /\ cf_out s' = cf_out s1 ++ post a /\ cf_written s' = cf_written s1) ->
    forall l enc n E E' st st' W first,
      rva_gen proj (fun x => rva G x enc) l E = Some E' -> ns_ok enc ->
      gsl g n (snd (glay_gen proj tag (fun x => glay res x enc) l n)) -> Wr st W ->
      sep_by body (fst (glay_gen proj tag (fun x => glay res x enc) l n)) first st = Ok st' ->
      exists l' W', hoist_gen proj setp (hchild D (hoistR D m) enc) l W = Some (l', W') /\
        cf_out st' = cf_out st ++ joined first (map (fun a => pre a ++ rpcf enc (proj a) ++ post a) l') /\
        Wr st' W'.
  Proof.
    intros m HS A K proj tag setp body pre post Hproj Hpre Hpost Hbody.
    induction l as [|x t IH]; intros enc n E E' st st' W first Hrv Hns Hsl HW Hw;
      cbn [rva_gen glay_gen fst snd sep_by hoist_gen] in *.
    - inversion Hw. subst st'. exists [], W. split; [reflexivity|]. cbn [map joined]. rewrite app_nil_r. split; [reflexivity|exact HW].
    - destruct (rva G (proj x) enc E) as [E1|] eqn:Ex; [|discriminate].
      apply rbind_ok_inv in Hw. destruct Hw as (st2 & Hb & Hw).
      destruct (Hbody _ _ _ _ Hb) as (s0 & s1 & Ho0 & Hw0 & Hwr & Ho2 & Hw2).
      assert (HW0 : Wr s0 W).
      { eapply Wr_same; [|exact HW]. rewrite Hw0. destruct first; reflexivity. }
      destruct (sim_child m HS (proj x) enc n E E1 s0 s1 W Ex Hns (gsl_app_l _ _ _ _ Hsl) HW0 Hwr)
        as (c' & W1 & Hc & Ho1 & HW1).
      assert (HW2 : Wr st2 W1) by (eapply Wr_same; [exact Hw2|exact HW1]).
      destruct (IH enc _ E1 E' st2 st' W1 false Hrv Hns (gsl_app_r _ _ _ _ Hsl) HW2 Hw) as (l' & W' & Hl & Ho & HW').
      rewrite Hc, Hl. exists (setp x c' :: l'), W'. split; [reflexivity|]. split; [|exact HW'].
      cbn [map joined]. rewrite Hproj, Hpre, Hpost. rewrite Ho, Ho2, Ho1, Ho0.
      destruct first; unfold cf_emit; cbn [cf_out]; rewrite <- ?app_assoc; reflexivity.
  Qed.

  Lemma named_head : forall i node rest nm, gsl g i (node :: rest) -> node_nm node = Some nm ->
    named_at g i (nm_full nm).
  Proof. intros i node rest nm Hsl Hnm. exists node, nm. split; [exact (gsl_hd _ _ _ _ Hsl)|]. split; [exact Hnm|reflexivity]. Qed.

  Lemma field_pre_text : forall x : bytes,
    lit "{""name"":""" ++ x ++ lit """,""type"":" = lit "{""name"":" ++ q x ++ lit ",""type"":".
  Proof. intro x. text_eq. Qed.

  Theorem sim : forall n, SimAt n.
  Proof.
    induction n as [|m IH]; unfold SimAt; intros x enc i st st' W Hsub Hnr HW Hw; [discriminate|].
    destruct Hsub as (Hsl & Hns & E & E' & Hrv).
    destruct x as [t|s|l|ty lg nm ns fields syms items values sz pr sc].
    - (* RwType *)
      cbn [rva] in Hrv. destruct (is_prim_ty t) eqn:Et; [|discriminate].
      cbn [glay snd] in Hsl. apply gsl_hd in Hsl.
      rewrite (write_cf_prim m g i st _ (q (rtype_name t)) Hsl) in Hw by (destruct t; try discriminate; reflexivity).
      inversion Hw. subst st'. exists (RwType t), W. split; [reflexivity|]. split; [reflexivity|].
      eapply Wr_same; [|exact HW]. reflexivity.
    - exfalso. eapply Hnr. reflexivity.
    - (* union *)
      cbn [rva] in Hrv. cbn [glay snd] in Hsl.
      destruct (write_cf_union_inv m i st st' _ _ (gsl_hd _ _ _ _ Hsl) Hw) as (st0 & s1 & Ho0 & Hw0 & Hsep & Ho' & Hw').
      assert (Hbody : forall (a : raw) k s s', (fun k0 s0 => write_cf m g k0 s0) (tag_list a k) s = Ok s' ->
                exists s0 s2, cf_out s0 = cf_out s ++ (fun _ : raw => @nil N) a /\ cf_written s0 = cf_written s /\
                  write_cf m g k s0 = Ok s2 /\ cf_out s' = cf_out s2 ++ (fun _ : raw => @nil N) a /\
                  cf_written s' = cf_written s2).
      { intros a k s s' Hb. exists s, s'. rewrite !app_nil_r. repeat split; try reflexivity. exact Hb. }
      assert (HW0 : Wr (cf_emit (lit "[") st0) W) by (eapply Wr_same; [|exact HW]; exact Hw0).
      destruct (sim_loop m IH (fun x => x) tag_list set_list (fun k0 s0 => write_cf m g k0 s0)
                  (fun _ : raw => @nil N) (fun _ : raw => @nil N) (fun a y => eq_refl) (fun a y => eq_refl)
                  (fun a y => eq_refl) Hbody l enc (S i) E E' _ s1 W true Hrv Hns (gsl_tl _ _ _ _ Hsl) HW0 Hsep)
        as (l' & W' & Hl & Ho & HW').
      exists (RwUnion l'), W'. split; [cbn [hoistR]; rewrite Hl; reflexivity|].
      split; [|eapply Wr_same; [exact Hw'|exact HW']].
      rewrite Ho', Ho. cbn [cf_emit cf_out rpcf]. rewrite Ho0, sep_concat_joined.
      rewrite (map_ext (fun a : raw => [] ++ rpcf enc a ++ []) (rpcf enc)) by (intro a; cbn [app]; apply app_nil_r).
      rewrite <- !app_assoc. reflexivity.
    - (* object *)
      cbn [rva] in Hrv. destruct (logical_ok lg pr); [|discriminate].
      destruct (rv_named enc ty nm ns E) as [[[has nsp] E1]|] eqn:Ern; [|discriminate].
      destruct ty.
      1-8: (cbn [glay snd] in Hsl; apply gsl_hd in Hsl;
            rewrite (write_cf_prim m g i st _ _ Hsl eq_refl) in Hw; inversion Hw; subst st';
            eexists _, W; split; [reflexivity|]; split; [reflexivity|];
            eapply Wr_same; [|exact HW]; reflexivity).
      + (* array *)
        destruct items as [it|]; [|discriminate]. cbn [glay snd] in Hsl.
        destruct (write_cf_array_inv m i st st' _ _ (gsl_hd _ _ _ _ Hsl) Hw) as (st0 & s1 & Ho0 & Hw0 & Hc & Ho' & Hw').
        assert (HW0 : Wr (cf_emit (lit "{""type"":""array"",""items"":") st0) W) by (eapply Wr_same; [|exact HW]; exact Hw0).
        destruct (sim_child m IH it enc (S i) E1 E' _ s1 W Hrv Hns (gsl_tl _ _ _ _ Hsl) HW0 Hc) as (it' & W' & Hh & Ho & HW').
        eexists _, W'. split; [cbn [hoistR]; rewrite Hh; reflexivity|].
        split; [|eapply Wr_same; [exact Hw'|exact HW']].
        rewrite Ho', Ho. cbn [cf_emit cf_out rpcf]. rewrite Ho0. rewrite <- !app_assoc. reflexivity.
      + (* map *)
        destruct values as [it|]; [|discriminate]. cbn [glay snd] in Hsl.
        destruct (write_cf_map_inv m i st st' _ _ (gsl_hd _ _ _ _ Hsl) Hw) as (st0 & s1 & Ho0 & Hw0 & Hc & Ho' & Hw').
        assert (HW0 : Wr (cf_emit (lit "{""type"":""map"",""values"":") st0) W) by (eapply Wr_same; [|exact HW]; exact Hw0).
        destruct (sim_child m IH it enc (S i) E1 E' _ s1 W Hrv Hns (gsl_tl _ _ _ _ Hsl) HW0 Hc) as (it' & W' & Hh & Ho & HW').
        eexists _, W'. split; [cbn [hoistR]; rewrite Hh; reflexivity|].
        split; [|eapply Wr_same; [exact Hw'|exact HW']].
        rewrite Ho', Ho. cbn [cf_emit cf_out rpcf]. rewrite Ho0. rewrite <- !app_assoc. reflexivity.
      + (* record *)
        destruct has; [|discriminate]. destruct fields as [fl|]; [|discriminate].
        pose proof (rv_named_nsok _ _ _ _ _ _ _ Ern Hns) as Hnsok.
        apply rv_named_has in Ern. destruct Ern as (n & -> & Hnsp).
        rewrite <- ns_def_spec in Hnsp. subst nsp.
        cbn [glay snd] in Hsl.
        set (k := key_of_def enc n ns) in *.
        assert (Hsf : spec_fullname enc n ns = (fst k, full k)) by apply spec_fullname_key.
        pose proof (named_head i _ _ (name_of_key k) Hsl eq_refl) as Hnamed. fold (full k) in Hnamed.
        pose proof (HW i (full k) Hnamed) as Hwr.
        destruct (wmem (full k) W) eqn:Em.
        * rewrite (write_cf_again m g i st _ (name_of_key k) (gsl_hd _ _ _ _ Hsl) eq_refl Hwr) in Hw.
          inversion Hw. subst st'. exists (RwRef (abs_name (full k))), W.
          split; [cbn [hoistR]; unfold def_fullname; rewrite Hsf; cbn [snd]; rewrite Em; reflexivity|].
          split; [|eapply Wr_same; [|exact HW]; reflexivity].
          cbn [cf_emit cf_out rpcf]. f_equal. f_equal.
          replace (full k) with (snd (spec_fullname enc n ns)) at 1 by (rewrite Hsf; reflexivity).
          rewrite (abs_spec enc n ns enc None Hns), Hsf. reflexivity.
        * rewrite (write_cf_record m g i st _ _ _ (gsl_hd _ _ _ _ Hsl) Hwr) in Hw.
          apply rbind_ok_inv in Hw. destruct Hw as (s3 & Hsep & Hw). inversion Hw. subst st'. clear Hw.
          assert (Hbody : forall (a : bytes * raw) kk s s',
                    (fun fld s0 => let* s'0 := write_cf m g (snd fld) (cf_emit (lit "{""name"":""" ++ fst fld ++ lit """,""type"":") s0) in
                                   Ok (cf_emit (lit "}") s'0)) (tag_field a kk) s = Ok s' ->
                    exists s0 s2, cf_out s0 = cf_out s ++ (fun a0 : bytes * raw => lit "{""name"":" ++ q (fst a0) ++ lit ",""type"":") a /\
                      cf_written s0 = cf_written s /\ write_cf m g kk s0 = Ok s2 /\
                      cf_out s' = cf_out s2 ++ (fun _ : bytes * raw => lit "}") a /\ cf_written s' = cf_written s2).
          { intros a kk s s' Hb. cbn [tag_field fst snd] in Hb. apply rbind_ok_inv in Hb. destruct Hb as (s2 & Hb & Hb').
            inversion Hb'. subst s'. eexists _, s2. split; [|split; [|split; [exact Hb|split; reflexivity]]]; [|reflexivity].
            cbn [cf_emit cf_out]. f_equal. apply field_pre_text. }
          assert (HW1 : Wr (cf_emit (lit "{""name"":""" ++ nm_full (name_of_key k) ++ lit """,""type"":""record"",""fields"":[") (mark i st))
                           (full k :: W)).
          { eapply (Wr_mark st W i (full k) _ Hnamed HW eq_refl). reflexivity. }
          destruct (sim_loop m IH (fun a => snd a) tag_field set_field
                      (fun fld s0 => let* s'0 := write_cf m g (snd fld) (cf_emit (lit "{""name"":""" ++ fst fld ++ lit """,""type"":") s0) in
                                     Ok (cf_emit (lit "}") s'0))
                      (fun a0 : bytes * raw => lit "{""name"":" ++ q (fst a0) ++ lit ",""type"":")
                      (fun _ : bytes * raw => lit "}")
                      (fun a y => eq_refl) (fun a y => eq_refl)
                      (fun a y => eq_refl) Hbody fl (fst k) (S i) E1 E' _ s3 (full k :: W) true Hrv Hnsok
                      (gsl_tl _ _ _ _ Hsl) HW1 Hsep) as (fl' & W' & Hl & Ho & HW').
          eexists _, W'. split.
          { cbn [hoistR]. unfold def_fullname. rewrite Hsf. cbn [snd]. rewrite Em. cbn [own_ns]. rewrite Hsf. cbn [fst].
            rewrite Hl. reflexivity. }
          split; [|eapply Wr_same; [|exact HW']; reflexivity].
          cbn [cf_emit cf_out]. rewrite Ho. cbn [cf_emit mark cf_out rpcf]. rewrite Hsf. cbn [fst snd].
          rewrite sep_concat_joined.
          rewrite (map_ext (fun a : bytes * raw => (lit "{""name"":" ++ q (fst a) ++ lit ",""type"":") ++ rpcf (fst k) (snd a) ++ lit "}")
                           (fun f0 : bytes * raw => lit "{""name"":" ++ q (fst f0) ++ lit ",""type"":" ++ rpcf (fst k) (snd f0) ++ lit "}"))
            by (intro a; rewrite <- !app_assoc; reflexivity).
          match goal with |- context [joined true ?M] => generalize (joined true M) end. intro J.
          unfold full. text_eq.
      + (* enum *)
        destruct has; [|discriminate]. destruct syms as [sl|]; [|discriminate].
        apply rv_named_has in Ern. destruct Ern as (n & -> & Hnsp).
        cbn [glay snd] in Hsl.
        set (k := key_of_def enc n ns) in *.
        assert (Hsf : spec_fullname enc n ns = (fst k, full k)) by apply spec_fullname_key.
        pose proof (named_head i _ _ (name_of_key k) Hsl eq_refl) as Hnamed. fold (full k) in Hnamed.
        pose proof (HW i (full k) Hnamed) as Hwr.
        destruct (wmem (full k) W) eqn:Em.
        * rewrite (write_cf_again m g i st _ (name_of_key k) (gsl_hd _ _ _ _ Hsl) eq_refl Hwr) in Hw.
          inversion Hw. subst st'. exists (RwRef (abs_name (full k))), W.
          split; [cbn [hoistR]; unfold def_fullname; rewrite Hsf; cbn [snd]; rewrite Em; reflexivity|].
          split; [|eapply Wr_same; [|exact HW]; reflexivity].
          cbn [cf_emit cf_out rpcf]. f_equal. f_equal.
          replace (full k) with (snd (spec_fullname enc n ns)) at 1 by (rewrite Hsf; reflexivity).
          rewrite (abs_spec enc n ns enc None Hns), Hsf. reflexivity.
        * rewrite (write_cf_enum m g i st _ _ _ (gsl_hd _ _ _ _ Hsl) Hwr) in Hw. inversion Hw. subst st'. clear Hw.
          eexists _, (full k :: W).
          split; [cbn [hoistR]; unfold def_fullname; rewrite Hsf; cbn [snd]; rewrite Em; reflexivity|].
          split; [|eapply (Wr_mark st W i (full k) _ Hnamed HW eq_refl); reflexivity].
          cbn [cf_out rpcf]. rewrite Hsf. cbn [snd]. reflexivity.
      + (* fixed *)
        destruct has; [|discriminate]. destruct sz as [z|]; [|discriminate].
        apply rv_named_has in Ern. destruct Ern as (n & -> & Hnsp).
        cbn [glay snd] in Hsl.
        set (k := key_of_def enc n ns) in *.
        assert (Hsf : spec_fullname enc n ns = (fst k, full k)) by apply spec_fullname_key.
        pose proof (named_head i _ _ (name_of_key k) Hsl eq_refl) as Hnamed. fold (full k) in Hnamed.
        pose proof (HW i (full k) Hnamed) as Hwr.
        destruct (wmem (full k) W) eqn:Em.
        * rewrite (write_cf_again m g i st _ (name_of_key k) (gsl_hd _ _ _ _ Hsl) eq_refl Hwr) in Hw.
          inversion Hw. subst st'. exists (RwRef (abs_name (full k))), W.
          split; [cbn [hoistR]; unfold def_fullname; rewrite Hsf; cbn [snd]; rewrite Em; reflexivity|].
          split; [|eapply Wr_same; [|exact HW]; reflexivity].
          cbn [cf_emit cf_out rpcf]. f_equal. f_equal.
          replace (full k) with (snd (spec_fullname enc n ns)) at 1 by (rewrite Hsf; reflexivity).
          rewrite (abs_spec enc n ns enc None Hns), Hsf. reflexivity.
        * rewrite (write_cf_fixed m g i st _ _ _ (gsl_hd _ _ _ _ Hsl) Hwr) in Hw. inversion Hw. subst st'. clear Hw.
          eexists _, (full k :: W).
          split; [cbn [hoistR]; unfold def_fullname; rewrite Hsf; cbn [snd]; rewrite Em; reflexivity|].
          split; [|eapply (Wr_mark st W i (full k) _ Hnamed HW eq_refl); reflexivity].
          cbn [cf_out rpcf]. rewrite Hsf. cbn [snd]. reflexivity.
  Qed.
End Sim.

(* ------------------------------------------------------------------ *)
(** * the canonical form of the parsed graph *)

Lemma nth_error_repeat_lt {A} : forall (a : A) n i, (i < n)%nat -> nth_error (repeat a n) i = Some a.
Proof.
  intros a. induction n as [|n IH]; intros [|i] H; cbn [repeat nth_error]; try lia; [reflexivity|]. apply IH. lia.
Qed.

(** whatever the fuel: if the writer succeeds on the designated graph, its output is the
    specification's canonical form of the tree [hoistR] builds with the same fuel *)
Theorem forward_canonical_raw : forall r EF fuel t,
  rva (rcollect r None []) r None [] = Some EF ->
  canonical_form fuel (snd (glay (spec_index r) r None O)) = Ok t ->
  exists r' W', hoistR (fun f => dlook f (dtab r None [])) fuel [] None r = Some (r', W') /\ t = rpcf None r'.
Proof.
  intros r EF fuel t HR Hc. unfold canonical_form in Hc.
  apply rbind_ok_inv in Hc. destruct Hc as (st & Hw & Hc). inversion Hc. subst t. clear Hc.
  set (g := snd (glay (spec_index r) r None O)) in *.
  assert (Hnr : forall s, r <> RwRef s).
  { intros s ->. cbn [rva rcollect elook] in HR. discriminate. }
  assert (HW : Wr r (cf_init g) []).
  { intros i f (node & nm & Hn & _). cbn [cf_init cf_written wmem existsb].
    apply nth_error_repeat_lt. apply nth_error_Some. fold g in Hn. congruence. }
  destruct (sim r EF HR fuel r None O (cf_init g) st [] (sub_root r EF HR) Hnr HW Hw) as (r' & W' & Hh & Ho & _).
  exists r', W'. split; [exact Hh|]. rewrite Ho. reflexivity.
Qed.

(** C07_resolve, canonical form with references in any order: the canonical form of the parsed
    graph is the specification's Parsing Canonical Form of the hoisted document.  (The writer's
    guard against cycles of unnamed types is the only other outcome left open here: that it does
    not fire on a parsed tree is not proved.) *)
Theorem C07_resolve_forward_canonical : forall j r g,
  spec_valid_any_order j = true -> raw_of_json j = Ok r -> parse_schema j = Ok g ->
  g = graph_any j /\
  (canonical_form (hoist_fuel r) g = Ok (rpcf None (hoist r)) \/ is_err (canonical_form (hoist_fuel r) g)).
Proof.
  intros j r g Hv Hr Hp. destruct (spec_valid_any_order_inv j Hv) as (r0 & EF & Hr0 & _ & HR).
  rewrite Hr in Hr0. inversion Hr0. subst r0. clear Hr0.
  assert (Hg : g = graph_any j).
  { pose proof (C07_resolve_any_order_graph j Hv) as P. rewrite Hp in P.
    destruct (check_for_cycles (graph_any j)); [inversion P; reflexivity|discriminate]. }
  split; [exact Hg|].
  assert (Hgr : graph_any j = snd (glay (spec_index r) r None O)) by (unfold graph_any; rewrite Hr; reflexivity).
  rewrite Hg, Hgr.
  pose proof (canonical_form_fuel (snd (glay (spec_index r) r None O)) (hoist_fuel r) (Nat.le_max_l _ _)) as Hfine.
  destruct (canonical_form (hoist_fuel r) (snd (glay (spec_index r) r None O))) as [t| | | |] eqn:Ec;
    try contradiction; [|right; exact I].
  left. destruct (forward_canonical_raw r EF (hoist_fuel r) t HR Ec) as (r' & W' & Hh & Ht).
  unfold hoist. rewrite Hh. rewrite Ht. reflexivity.
Qed.

(** as a statement about the text alone: when the canonical form of the parsed schema exists, it
    is the Parsing Canonical Form of the hoisted document *)
Corollary C07_forward_canonical_text : forall j r g t,
  spec_valid_any_order j = true -> raw_of_json j = Ok r -> parse_schema j = Ok g ->
  canonical_form (hoist_fuel r) g = Ok t -> t = rpcf None (hoist r).
Proof.
  intros j r g t Hv Hr Hp Hc. destruct (C07_resolve_forward_canonical j r g Hv Hr Hp) as [_ [H|H]].
  - rewrite H in Hc. inversion Hc. reflexivity.
  - rewrite Hc in H. contradiction.
Qed.

(* the three documents of ParseForwardProofs.v, through the theorem *)
Example doc_f2_canonical_by_theorem :
  exists r, raw_of_json doc_f2 = Ok r /\
    canonical_form (hoist_fuel r) (graph_any doc_f2) = Ok (rpcf None (hoist r)).
Proof.
  eexists. split; [vm_compute; reflexivity|].
  match goal with |- canonical_form (hoist_fuel ?r) _ = _ =>
    destruct (C07_resolve_forward_canonical doc_f2 r (graph_any doc_f2)) as [_ [H|H]] end.
  - vm_compute. reflexivity.
  - vm_compute. reflexivity.
  - exact doc_f2_by_theorem.
  - exact H.
  - exfalso. vm_compute in H. exact H.
Qed.

(* ------------------------------------------------------------------ *)
(** * documents with definition before use: hoisting changes nothing in the canonical form, and
      the writer's guard does not fire *)

Lemma backward_canonical_rpcf : forall r E' fuel,
  rv r None [] = Some E' -> (rdepth r <= fuel)%nat ->
  canonical_form fuel (map (fix_node []) (snd (fst (lay r None [] O)))) = Ok (rpcf None r).
Proof.
  intros r E' fuel Hrv Hf.
  assert (Hns : ns_ok None) by (left; reflexivity).
  set (g := map (fix_node []) (snd (fst (lay r None [] O)))).
  pose proof (cf_lay r None [] O [] E' fuel) as C.
  destruct (lay r None [] O) as [[k nds] nm'] eqn:EL.
  assert (Hk : k = pk_node O).
  { pose proof (lay_key_top r None [] E' [] O Hrv (or_intror I)) as K. rewrite EL in K. exact K. }
  cbn [fst snd] in g.
  specialize (C k nds nm' g (cf_init g) Hrv Hf eq_refl).
  destruct C as (st' & R & O' & _).
  - intros i x Hx. cbn [Nat.add]. unfold g. apply map_nth_error. exact Hx.
  - constructor.
  - exact Hns.
  - cbn [cf_init cf_written]. split; [apply repeat_length|]. intros i _. rewrite nth_repeat_false. reflexivity.
  - cbn [cf_init cf_being]. intros k0 _. apply nth_repeat_zero.
  - unfold canonical_form. subst k. rewrite fix_key_node in R. rewrite R. cbn [rbind].
    rewrite O'. cbn [cf_init cf_out app]. reflexivity.
Qed.

Theorem C07_forward_canonical_backward : forall j r,
  spec_valid_backward j = true -> ~ rec_cycle (graph_of j) -> raw_of_json j = Ok r ->
  parse_schema j = Ok (graph_any j) /\
  canonical_form (hoist_fuel r) (graph_any j) = Ok (rpcf None (hoist r)) /\
  rpcf None (hoist r) = rpcf None r.
Proof.
  intros j r Hv Hc Hr. destruct (spec_valid_backward_inv j Hv) as (r0 & E' & Hr0 & _ & Hrv).
  rewrite Hr in Hr0. inversion Hr0. subst r0. clear Hr0.
  pose proof (graph_any_backward j Hv Hc) as Hg.
  assert (Hp : parse_schema j = Ok (graph_any j)).
  { rewrite Hg. exact (proj2 (C07_resolve_backward_iff j Hv) Hc). }
  assert (Hcf : canonical_form (hoist_fuel r) (graph_any j) = Ok (rpcf None r)).
  { rewrite Hg. unfold graph_of. rewrite Hr. eapply backward_canonical_rpcf; [exact Hrv|].
    unfold hoist_fuel. apply Nat.le_max_r. }
  destruct (C07_resolve_forward_canonical j r (graph_any j) (spec_valid_backward_any_order j Hv) Hr Hp) as [_ [H|H]].
  - split; [exact Hp|]. split; [exact H|]. rewrite Hcf in H. inversion H. reflexivity.
  - rewrite Hcf in H. contradiction.
Qed.

Print Assumptions sim.
Print Assumptions forward_canonical_raw.
Print Assumptions C07_resolve_forward_canonical.
Print Assumptions C07_forward_canonical_text.
Print Assumptions C07_forward_canonical_backward.
