(** Schema JSON regeneration (C09), part 2: the parser run on what the writer produced.
    A simulation between the writer's traversal state (cells of the named nodes written so far,
    parent namespace) and the parser's (name map, enclosing namespace, node vector): the parsed
    graph is a covering of the original graph. *)
From Coq Require Import NArith ZArith List Lia Bool Arith String ZifyN ZifyBool ZifyNat Relations.
Import ListNotations.
Require Import Base Schema Text Json Parse SchemaJson CanonicalForm Rabin.
Require Import PcfSpec SchemaTextProofs SchemaJsonDefs SchemaJsonGuard SchemaJsonRaw.
Open Scope N_scope.
Notation length := List.length (only parsing).

Arguments N.eqb : simpl never.
Arguments N.leb : simpl never.
Arguments N.ltb : simpl never.
Arguments N.add : simpl never.

(* ------------------------------------------------------------------ *)
(** * Name keys *)

Definition nkey (nm : name) : namekey := (name_namespace nm, name_short nm).

Lemma nkey_of_key : forall k, nkey (name_of_key k) = k.
Proof.
  intros [ns s]. unfold nkey. rewrite name_of_key_namespace, name_of_key_short. reflexivity.
Qed.

Lemma opt_bytes_eqb_eq : forall a b, opt_bytes_eqb a b = true <-> a = b.
Proof. exact opt_eqb_eq. Qed.

Lemma namekey_eqb_eq : forall a b, namekey_eqb a b = true <-> a = b.
Proof.
  intros [a1 a2] [b1 b2]. unfold namekey_eqb. cbn [fst snd]. rewrite andb_true_iff.
  rewrite opt_bytes_eqb_eq, bytes_eqb_eq. split; [intros [-> ->]; reflexivity|intro H; inversion H; auto].
Qed.

Lemma namekey_eqb_refl : forall a, namekey_eqb a a = true.
Proof. intro a. apply namekey_eqb_eq. reflexivity. Qed.

Lemma node_name_named : forall n nm, node_name n = Some nm -> is_named_node n = true.
Proof. intros n nm. unfold node_name, is_named_node. destruct (m_type n); intro H; try discriminate; reflexivity. Qed.

Lemma named_node_name : forall n, is_named_node n = true -> exists nm, node_name n = Some nm.
Proof. intros n. unfold node_name, is_named_node. destruct (m_type n); intro H; try discriminate; eauto. Qed.

Lemma name_valid_key : forall nm, name_valid nm -> nm = name_of_key (nkey nm).
Proof. intros nm (ns & s & -> & _). rewrite nkey_of_key. reflexivity. Qed.

(* ------------------------------------------------------------------ *)
(** * The parser, one step at a time *)

Definition rgo_variants (F : raw -> pstate -> result (nat * pstate)) :=
  fix go (l : list raw) (st : pstate) {struct l} : result (list nat * pstate) :=
    match l with
    | [] => Ok ([], st)
    | x :: t => let* r1 := F x st in let* r2 := go t (snd r1) in Ok (fst r1 :: fst r2, snd r2)
    end.

Definition rgo_fields (F : raw -> pstate -> result (nat * pstate)) :=
  fix go (l : list (bytes * raw)) (st : pstate) {struct l} : result (list (bytes * nat) * pstate) :=
    match l with
    | [] => Ok ([], st)
    | (fname, fty) :: t =>
        let* r1 := F fty st in let* r2 := go t (snd r1) in Ok ((fname, fst r1) :: fst r2, snd r2)
    end.

Definition ppush (ps : pstate) : pstate :=
  mkP (p_nodes ps ++ [mkNode RNull None]) (p_names ps) (p_unresolved ps).
Definition pnamed (ps : pstate) (k : namekey) : pstate :=
  mkP (p_nodes ps ++ [mkNode RNull None]) ((k, length (p_nodes ps)) :: p_names ps) (p_unresolved ps).
Definition pset (ps : pstate) (i : nat) (v : mnode) : pstate :=
  mkP (set_node (p_nodes ps) i v) (p_names ps) (p_unresolved ps).

Definition prim_of (t : rtype) : option regular :=
  match t with
  | TyNull => Some RNull | TyBoolean => Some RBoolean | TyInt => Some RInt | TyLong => Some RLong
  | TyFloat => Some RFloat | TyDouble => Some RDouble | TyBytes => Some RBytes | TyString => Some RString
  | _ => None
  end.

Lemma set_node_app_exact : forall (a : list mnode) x b v, set_node (a ++ x :: b) (length a) v = a ++ v :: b.
Proof. induction a as [|h a IH]; intros; cbn [app List.length set_node]; [reflexivity|]. rewrite IH. reflexivity. Qed.

Lemma set_node_length : forall l i v, length (set_node l i v) = length l.
Proof. induction l as [|h t IH]; intros [|i] v; cbn [set_node List.length]; auto. Qed.

Lemma nth_error_set_node_other : forall l i j v, i <> j -> nth_error (set_node l i v) j = nth_error l j.
Proof.
  induction l as [|h t IH]; intros [|i] [|j] v H; cbn [set_node nth_error]; try reflexivity; try congruence.
  apply IH. congruence.
Qed.

Lemma nth_error_set_node_same : forall l i v, (i < length l)%nat -> nth_error (set_node l i v) i = Some v.
Proof.
  induction l as [|h t IH]; intros [|i] v H; cbn [List.length] in H; try lia; cbn [set_node nth_error]; [reflexivity|].
  apply IH. lia.
Qed.

Lemma reg_ref : forall s enc ps idx,
  assoc_key (key_of_ref enc s) (p_names ps) = Some idx ->
  register_node (RwRef s) enc ps = Ok (pk_node idx, ps).
Proof. intros s enc ps idx H. cbn [register_node]. rewrite H. reflexivity. Qed.

Lemma reg_prim_type : forall t ty enc ps, prim_of t = Some ty ->
  register_node (RwType t) enc ps =
  Ok (pk_node (length (p_nodes ps)), mkP (p_nodes ps ++ [mkNode ty None]) (p_names ps) (p_unresolved ps)).
Proof.
  intros t ty enc ps H. cbn [register_node].
  destruct t; inversion H; subst; cbn [p_nodes p_names p_unresolved];
    rewrite set_node_app_exact; reflexivity.
Qed.

Lemma reg_prim_obj : forall t ty lg nsp fields syms items values sz pr sc lt enc ps,
  prim_of t = Some ty -> logical_of lg pr sc = Ok lt ->
  register_node (RwObject t lg None nsp fields syms items values sz pr sc) enc ps =
  Ok (pk_node (length (p_nodes ps)), mkP (p_nodes ps ++ [mkNode ty lt]) (p_names ps) (p_unresolved ps)).
Proof.
  intros t ty lg nsp fields syms items values sz pr sc lt enc ps H Hl. cbn [register_node].
  cbn [rbind fst snd].
  destruct t; inversion H; subst; cbn [rbind fst snd p_nodes p_names p_unresolved]; rewrite Hl;
    cbn [rbind]; rewrite set_node_app_exact; reflexivity.
Qed.

Lemma reg_array : forall lg nsp fields syms it values sz pr sc lt enc ps c ps1,
  register_node it enc (ppush ps) = Ok (c, ps1) -> logical_of lg pr sc = Ok lt ->
  register_node (RwObject TyArray lg None nsp fields syms (Some it) values sz pr sc) enc ps =
  Ok (pk_node (length (p_nodes ps)), pset ps1 (length (p_nodes ps)) (mkNode (RArray c) lt)).
Proof.
  intros lg nsp fields syms it values sz pr sc lt enc ps c ps1 H Hl. cbn [register_node].
  cbn [rbind fst snd]. fold (ppush ps). rewrite H. cbn [rbind fst snd]. rewrite Hl. reflexivity.
Qed.

Lemma reg_map : forall lg nsp fields syms items it sz pr sc lt enc ps c ps1,
  register_node it enc (ppush ps) = Ok (c, ps1) -> logical_of lg pr sc = Ok lt ->
  register_node (RwObject TyMap lg None nsp fields syms items (Some it) sz pr sc) enc ps =
  Ok (pk_node (length (p_nodes ps)), pset ps1 (length (p_nodes ps)) (mkNode (RMap c) lt)).
Proof.
  intros lg nsp fields syms items it sz pr sc lt enc ps c ps1 H Hl. cbn [register_node].
  cbn [rbind fst snd]. fold (ppush ps). rewrite H. cbn [rbind fst snd]. rewrite Hl. reflexivity.
Qed.

Lemma reg_union : forall rs enc ps ks ps1,
  rgo_variants (fun x s => register_node x enc s) rs (ppush ps) = Ok (ks, ps1) ->
  register_node (RwUnion rs) enc ps =
  Ok (pk_node (length (p_nodes ps)), pset ps1 (length (p_nodes ps)) (mkNode (RUnion ks) None)).
Proof.
  intros rs enc ps ks ps1 H. cbn [register_node]. fold (ppush ps).
  unfold rgo_variants in H. rewrite H. reflexivity.
Qed.

Lemma reg_enum : forall lg nme nsp fields syms items values sz pr sc lt enc ps,
  assoc_key (key_of_def enc nme nsp) (p_names ps) = None -> logical_of lg pr sc = Ok lt ->
  register_node (RwObject TyEnum lg (Some nme) nsp fields (Some syms) items values sz pr sc) enc ps =
  Ok (pk_node (length (p_nodes ps)),
      mkP (p_nodes ps ++ [mkNode (REnum (name_of_key (key_of_def enc nme nsp)) syms) lt])
          ((key_of_def enc nme nsp, length (p_nodes ps)) :: p_names ps) (p_unresolved ps)).
Proof.
  intros lg nme nsp fields syms items values sz pr sc lt enc ps Ha Hl. cbn [register_node].
  cbn [p_names]. rewrite Ha. cbn [rbind fst snd]. rewrite Hl. cbn [rbind p_nodes p_names p_unresolved].
  rewrite set_node_app_exact. reflexivity.
Qed.

Lemma reg_fixed : forall lg nme nsp fields syms items values sz pr sc lt enc ps,
  assoc_key (key_of_def enc nme nsp) (p_names ps) = None -> logical_of lg pr sc = Ok lt ->
  register_node (RwObject TyFixed lg (Some nme) nsp fields syms items values (Some sz) pr sc) enc ps =
  Ok (pk_node (length (p_nodes ps)),
      mkP (p_nodes ps ++ [mkNode (RFixed (name_of_key (key_of_def enc nme nsp)) sz) lt])
          ((key_of_def enc nme nsp, length (p_nodes ps)) :: p_names ps) (p_unresolved ps)).
Proof.
  intros lg nme nsp fields syms items values sz pr sc lt enc ps Ha Hl. cbn [register_node].
  cbn [p_names]. rewrite Ha. cbn [rbind fst snd]. rewrite Hl. cbn [rbind p_nodes p_names p_unresolved].
  rewrite set_node_app_exact. reflexivity.
Qed.

Lemma reg_record : forall lg nme nsp fl syms items values sz pr sc lt enc ps fs ps1,
  assoc_key (key_of_def enc nme nsp) (p_names ps) = None ->
  rgo_fields (fun x s => register_node x (fst (key_of_def enc nme nsp)) s) fl
             (pnamed ps (key_of_def enc nme nsp)) = Ok (fs, ps1) ->
  logical_of lg pr sc = Ok lt ->
  register_node (RwObject TyRecord lg (Some nme) nsp (Some fl) syms items values sz pr sc) enc ps =
  Ok (pk_node (length (p_nodes ps)),
      pset ps1 (length (p_nodes ps)) (mkNode (RRecord (name_of_key (key_of_def enc nme nsp)) fs) lt)).
Proof.
  intros lg nme nsp fl syms items values sz pr sc lt enc ps fs ps1 Ha H Hl. cbn [register_node].
  cbn [p_names]. rewrite Ha. cbn [rbind fst snd].
  unfold rgo_fields, pnamed in H. cbn [p_nodes p_names p_unresolved]. rewrite H. cbn [rbind fst snd]. rewrite Hl. reflexivity.
Qed.

(* ------------------------------------------------------------------ *)
(** * The relation between the two traversal states *)

(* [hm] is the (ghost) map from the parser's node indices to the keys of [g] *)
Record SR (g : schema_mut) (st : jstate) (ps : pstate) (hm : list nat) : Prop := {
  sr_unres : p_unresolved ps = [];
  sr_len : length hm = length (p_nodes ps);
  sr_cells : (length g <= length (j_cells st))%nat;
  sr_w : 1 <= j_written st;
  (* a named node that was written is in the name map, under its own name *)
  sr_fwd : forall k n nm, nth_error g k = Some n -> node_name n = Some nm ->
      nth k (j_cells st) 0 <> 0 ->
      exists idx, assoc_key (nkey nm) (p_names ps) = Some idx /\ nth_error hm idx = Some k;
  (* the name map contains nothing else *)
  sr_bwd : forall nk idx, assoc_key nk (p_names ps) = Some idx ->
      exists k n nm, nth_error g k = Some n /\ node_name n = Some nm /\ nkey nm = nk /\
                     nth k (j_cells st) 0 <> 0;
  (* a named node that has a copy was written *)
  sr_img : forall i k n nm, nth_error hm i = Some k -> nth_error g k = Some n -> node_name n = Some nm ->
      nth k (j_cells st) 0 <> 0;
  (* and has one copy only *)
  sr_inj : forall i1 i2 k n nm, nth_error hm i1 = Some k -> nth_error hm i2 = Some k ->
      nth_error g k = Some n -> node_name n = Some nm -> i1 = i2
}.

(* changes of the writer's state that do not concern named nodes *)
Lemma SR_cells : forall g st st2 ps hm, SR g st ps hm ->
  (forall k n nm, nth_error g k = Some n -> node_name n = Some nm ->
                  nth k (j_cells st2) 0 = nth k (j_cells st) 0) ->
  length (j_cells st2) = length (j_cells st) -> 1 <= j_written st2 ->
  SR g st2 ps hm.
Proof.
  intros g st st2 ps hm [H1 H2 H3 H4 H5 H6 H7 H8] Hc Hl Hw. split; try assumption.
  - lia.
  - intros k n nm Hn Hnm Hm. rewrite (Hc k n nm Hn Hnm) in Hm. eauto.
  - intros nk idx Ha. destruct (H6 nk idx Ha) as (k & n & nm & Hn & Hnm & Hk & Hm).
    exists k, n, nm. rewrite (Hc k n nm Hn Hnm). auto.
  - intros i k n nm Hi Hn Hnm. rewrite (Hc k n nm Hn Hnm). eauto.
Qed.

Lemma SR_set_unnamed : forall g st ps hm key node v w, SR g st ps hm ->
  nth_error g key = Some node -> node_name node = None -> 1 <= w ->
  SR g (mkJ (set_cell (j_cells st) key v) w) ps hm.
Proof.
  intros g st ps hm key node v w H Hn Hu Hw. eapply SR_cells; [exact H| | |exact Hw]; cbn [j_cells].
  - intros k n nm Hk Hnm. apply nth_set_cell_neq. intros ->. congruence.
  - apply set_cell_length.
Qed.

Lemma SR_pset : forall g st ps hm i v, SR g st ps hm -> SR g st (pset ps i v) hm.
Proof.
  intros g st ps hm i v [H1 H2 H3 H4 H5 H6 H7 H8]. split; cbn [pset p_nodes p_names p_unresolved]; try assumption.
  rewrite set_node_length. exact H2.
Qed.

(* the parser allocates a node for an unnamed or primitive node of [g] *)
Lemma SR_push_unnamed : forall g st ps hm key node x, SR g st ps hm ->
  nth_error g key = Some node -> node_name node = None ->
  SR g st (mkP (p_nodes ps ++ [x]) (p_names ps) (p_unresolved ps)) (hm ++ [key]).
Proof.
  intros g st ps hm key node x [H1 H2 H3 H4 H5 H6 H7 H8] Hn Hu.
  assert (Happ : forall i k, nth_error (hm ++ [key]) i = Some k ->
                 nth_error hm i = Some k \/ (i = length hm /\ k = key)).
  { intros i k Hi. destruct (Nat.lt_ge_cases i (length hm)) as [Hlt|Hge].
    - rewrite nth_error_app1 in Hi by exact Hlt. left. exact Hi.
    - rewrite nth_error_app2 in Hi by exact Hge. right.
      destruct (i - length hm)%nat as [|d] eqn:Ed; cbn [nth_error] in Hi.
      + inversion Hi. split; [lia|reflexivity].
      + destruct d; discriminate. }
  split; cbn [p_nodes p_names p_unresolved]; try assumption.
  - rewrite !app_length. cbn [List.length]. lia.
  - intros k n nm Hk Hnm Hm. destruct (H5 k n nm Hk Hnm Hm) as (idx & Ha & Hi).
    exists idx. split; [exact Ha|]. rewrite nth_error_app1; [exact Hi|].
    apply nth_error_Some. congruence.
  - intros i k n nm Hi Hk Hnm. destruct (Happ i k Hi) as [Hi'|[_ ->]]; [eauto|congruence].
  - intros i1 i2 k n nm Hi1 Hi2 Hk Hnm.
    destruct (Happ i1 k Hi1) as [Hi1'|[_ ->]]; [|congruence].
    destruct (Happ i2 k Hi2) as [Hi2'|[_ ->]]; [|congruence]. eauto.
Qed.

(* the parser allocates a node for a named node of [g] that had not been written *)
Lemma SR_push_named : forall g st ps hm key node nm x, wf_graph g -> SR g st ps hm ->
  nth_error g key = Some node -> node_name node = Some nm -> nth key (j_cells st) 0 = 0 ->
  SR g (mkJ (set_cell (j_cells st) key (j_written st)) (j_written st + 1))
       (mkP (p_nodes ps ++ [x]) ((nkey nm, length (p_nodes ps)) :: p_names ps) (p_unresolved ps))
       (hm ++ [key]).
Proof.
  intros g st ps hm key node nm x Hwf [H1 H2 H3 H4 H5 H6 H7 H8] Hn Hnm Hz.
  assert (Hkey : (key < length (j_cells st))%nat).
  { assert (key < length g)%nat by (apply nth_error_Some; congruence). lia. }
  assert (Happ : forall i k, nth_error (hm ++ [key]) i = Some k ->
                 nth_error hm i = Some k \/ (i = length hm /\ k = key)).
  { intros i k Hi. destruct (Nat.lt_ge_cases i (length hm)) as [Hlt|Hge].
    - rewrite nth_error_app1 in Hi by exact Hlt. left. exact Hi.
    - rewrite nth_error_app2 in Hi by exact Hge. right.
      destruct (i - length hm)%nat as [|d] eqn:Ed; cbn [nth_error] in Hi.
      + inversion Hi. split; [lia|reflexivity].
      + destruct d; discriminate. }
  assert (Hcell : forall k, nth k (j_cells st) 0 <> 0 -> nth k (set_cell (j_cells st) key (j_written st)) 0 <> 0).
  { intros k Hk. rewrite nth_set_cell. destruct (_ && _); [lia|exact Hk]. }
  assert (Hsame : forall k2 n2 nm2, nth_error g k2 = Some n2 -> node_name n2 = Some nm2 ->
                  nkey nm2 = nkey nm -> k2 = key).
  { intros k2 n2 nm2 Hk2 Hnm2 He.
    apply (wf_distinct g Hwf k2 key n2 node nm2 nm Hk2 Hn Hnm2 Hnm).
    rewrite (name_valid_key nm2 (wf_names g Hwf k2 n2 nm2 Hk2 Hnm2)).
    rewrite (name_valid_key nm (wf_names g Hwf key node nm Hn Hnm)). rewrite He. reflexivity. }
  split; cbn [p_nodes p_names p_unresolved j_cells j_written]; try assumption.
  - rewrite !app_length. cbn [List.length]. lia.
  - rewrite set_cell_length. exact H3.
  - lia.
  - intros k n nm2 Hk Hnm2 Hm. cbn [assoc_key].
    destruct (Nat.eq_dec k key) as [->|Hne].
    + rewrite Hn in Hk. inversion Hk. subst n. rewrite Hnm in Hnm2. inversion Hnm2. subst nm2.
      rewrite namekey_eqb_refl. exists (length (p_nodes ps)). split; [reflexivity|].
      rewrite <- H2. rewrite nth_error_app2 by lia. rewrite Nat.sub_diag. reflexivity.
    + rewrite nth_set_cell_neq in Hm by exact Hne.
      destruct (H5 k n nm2 Hk Hnm2 Hm) as (idx & Ha & Hi).
      destruct (namekey_eqb (nkey nm2) (nkey nm)) eqn:Ee.
      * apply namekey_eqb_eq in Ee. exfalso. apply Hne. eapply Hsame; eassumption.
      * exists idx. split; [exact Ha|]. rewrite nth_error_app1; [exact Hi|].
        apply nth_error_Some. congruence.
  - intros nk idx Ha. cbn [assoc_key] in Ha.
    destruct (namekey_eqb nk (nkey nm)) eqn:Ee.
    + apply namekey_eqb_eq in Ee. subst nk. exists key, node, nm.
      split; [exact Hn|]. split; [exact Hnm|]. split; [reflexivity|].
      rewrite nth_set_cell_eq by exact Hkey. lia.
    + destruct (H6 nk idx Ha) as (k & n & nm2 & Hk & Hnm2 & He & Hm).
      exists k, n, nm2. auto.
  - intros i k n nm2 Hi Hk Hnm2. destruct (Happ i k Hi) as [Hi'|[_ ->]].
    + apply Hcell. eauto.
    + rewrite nth_set_cell_eq by exact Hkey. lia.
  - intros i1 i2 k n nm2 Hi1 Hi2 Hk Hnm2.
    destruct (Happ i1 k Hi1) as [Hi1'|[E1 K1]]; destruct (Happ i2 k Hi2) as [Hi2'|[E2 K2]].
    + eauto.
    + subst k. exfalso. exact (H7 i1 key n nm2 Hi1' Hk Hnm2 Hz).
    + subst k. exfalso. exact (H7 i2 key n nm2 Hi2' Hk Hnm2 Hz).
    + congruence.
Qed.

(* ------------------------------------------------------------------ *)
(** * Finished nodes *)

Definition kmatch (hm : list nat) (a' a : nat) : Prop :=
  exists c', a' = pk_node c' /\ nth_error hm c' = Some a.

Definition fmatch (hm : list nat) (f' f : bytes * nat) : Prop :=
  fst f' = fst f /\ kmatch hm (snd f') (snd f).

Definition rmatch (hm : list nat) (r' r : regular) : Prop :=
  match r', r with
  | RArray a', RArray a => kmatch hm a' a
  | RMap a', RMap a => kmatch hm a' a
  | RUnion ks', RUnion ks => Forall2 (kmatch hm) ks' ks
  | RRecord nm' fs', RRecord nm fs => nm' = nm /\ Forall2 (fmatch hm) fs' fs
  | RArray _, _ | RMap _, _ | RUnion _, _ | RRecord _ _, _ => False
  | _, _ => r' = r
  end.

Definition fin (g : schema_mut) (hm : list nat) (nodes : list mnode) (i : nat) : Prop :=
  exists n' k n, nth_error nodes i = Some n' /\ nth_error hm i = Some k /\ nth_error g k = Some n /\
                 m_logical n' = m_logical n /\ rmatch hm (m_type n') (m_type n).

Lemma Forall2_imp {A B} (P Q : A -> B -> Prop) : (forall a b, P a b -> Q a b) ->
  forall l1 l2, Forall2 P l1 l2 -> Forall2 Q l1 l2.
Proof. intros H l1 l2 HF. induction HF; constructor; auto. Qed.

Lemma kmatch_ext : forall hm x a' a, kmatch hm a' a -> kmatch (hm ++ x) a' a.
Proof.
  intros hm x a' a (c' & -> & H). exists c'. split; [reflexivity|].
  rewrite nth_error_app1; [exact H|]. apply nth_error_Some. congruence.
Qed.

Lemma fmatch_ext : forall hm x f' f, fmatch hm f' f -> fmatch (hm ++ x) f' f.
Proof. intros hm x f' f [H1 H2]. split; [exact H1|apply kmatch_ext; exact H2]. Qed.

Lemma rmatch_ext : forall hm x r' r, rmatch hm r' r -> rmatch (hm ++ x) r' r.
Proof.
  intros hm x r' r H. destruct r', r; cbn [rmatch] in *; try assumption; try contradiction.
  - apply kmatch_ext. exact H.
  - apply kmatch_ext. exact H.
  - eapply Forall2_imp; [|exact H]. intros; apply kmatch_ext; assumption.
  - destruct H as [H1 H2]. split; [exact H1|]. eapply Forall2_imp; [|exact H2]. intros; apply fmatch_ext; assumption.
Qed.

Lemma fin_ext : forall g hm nodes i xh xn, fin g hm nodes i -> fin g (hm ++ xh) (nodes ++ xn) i.
Proof.
  intros g hm nodes i xh xn (n' & k & n & H1 & H2 & H3 & H4 & H5). exists n', k, n.
  split; [rewrite nth_error_app1; [exact H1|apply nth_error_Some; congruence]|].
  split; [rewrite nth_error_app1; [exact H2|apply nth_error_Some; congruence]|].
  split; [exact H3|]. split; [exact H4|]. apply rmatch_ext. exact H5.
Qed.

Lemma fin_set_other : forall g hm nodes i j v, i <> j -> fin g hm nodes j -> fin g hm (set_node nodes i v) j.
Proof.
  intros g hm nodes i j v Hne (n' & k & n & H1 & H). exists n', k, n.
  split; [rewrite nth_error_set_node_other by exact Hne; exact H1|exact H].
Qed.

(* ------------------------------------------------------------------ *)
(** * What one call of the parser achieves *)

Record POST (g : schema_mut) (st' : jstate) (ps : pstate) (hm : list nat) (ps' : pstate) (hm' : list nat)
  : Prop := {
  po_sr : SR g st' ps' hm';
  po_nodes : exists newn, p_nodes ps' = p_nodes ps ++ newn;
  po_hm : exists newh, hm' = hm ++ newh;
  po_fin : forall i, (length (p_nodes ps) <= i < length (p_nodes ps'))%nat -> fin g hm' (p_nodes ps') i
}.

Lemma POST_trans : forall g st1 st2 ps hm ps1 hm1 ps2 hm2,
  POST g st1 ps hm ps1 hm1 -> POST g st2 ps1 hm1 ps2 hm2 -> POST g st2 ps hm ps2 hm2.
Proof.
  intros g st1 st2 ps hm ps1 hm1 ps2 hm2 [A1 (n1 & A2) (h1 & A3) A4] [B1 (n2 & B2) (h2 & B3) B4].
  split.
  - exact B1.
  - exists (n1 ++ n2). rewrite B2, A2, app_assoc. reflexivity.
  - exists (h1 ++ h2). rewrite B3, A3, app_assoc. reflexivity.
  - intros i Hi. destruct (Nat.lt_ge_cases i (length (p_nodes ps1))) as [Hlt|Hge].
    + rewrite B2, B3. apply fin_ext. apply A4. lia.
    + apply B4. lia.
Qed.

(* a leaf: one node appended, already final *)
Lemma POST_leaf : forall g st' ps hm key names' v node,
  SR g st' (mkP (p_nodes ps ++ [v]) names' (p_unresolved ps)) (hm ++ [key]) ->
  length hm = length (p_nodes ps) ->
  nth_error g key = Some node -> m_logical v = m_logical node -> m_type v = m_type node ->
  (forall r, m_type node = r -> rmatch (hm ++ [key]) r r) ->
  POST g st' ps hm (mkP (p_nodes ps ++ [v]) names' (p_unresolved ps)) (hm ++ [key]).
Proof.
  intros g st' ps hm key names' v node Hsr Hl Hn Hlt Hty Hrm. split; cbn [p_nodes].
  - exact Hsr.
  - eauto.
  - eauto.
  - intros i Hi. rewrite app_length in Hi. cbn [List.length] in Hi.
    assert (i = length (p_nodes ps)) by lia. subst i.
    exists v, key, node. split; [rewrite nth_error_app2 by lia; rewrite Nat.sub_diag; reflexivity|].
    split; [rewrite <- Hl; rewrite nth_error_app2 by lia; rewrite Nat.sub_diag; reflexivity|].
    split; [exact Hn|]. split; [exact Hlt|]. rewrite Hty. apply Hrm. reflexivity.
Qed.

(* a container: placeholder pushed, children registered, placeholder overwritten *)
Lemma POST_wrap : forall g st1 st2 ps hm key names0 ps' hm' v node,
  length hm = length (p_nodes ps) ->
  POST g st1 (mkP (p_nodes ps ++ [mkNode RNull None]) names0 (p_unresolved ps)) (hm ++ [key]) ps' hm' ->
  SR g st2 ps' hm' ->
  nth_error g key = Some node -> m_logical v = m_logical node -> rmatch hm' (m_type v) (m_type node) ->
  POST g st2 ps hm (pset ps' (length (p_nodes ps)) v) hm'.
Proof.
  intros g st1 st2 ps hm key names0 ps' hm' v node Hl [A1 (n1 & A2) (h1 & A3) A4] Hsr Hn Hlt Hrm.
  cbn [p_nodes] in A2, A4.
  assert (Hnodes : set_node (p_nodes ps') (length (p_nodes ps)) v = p_nodes ps ++ v :: n1).
  { rewrite A2, <- app_assoc. cbn [app]. apply set_node_app_exact. }
  split; cbn [pset p_nodes].
  - apply SR_pset. exact Hsr.
  - rewrite Hnodes. eauto.
  - exists ([key] ++ h1). rewrite A3, app_assoc. reflexivity.
  - intros i Hi. rewrite set_node_length in Hi.
    destruct (Nat.eq_dec i (length (p_nodes ps))) as [->|Hne].
    + exists v, key, node. split.
      { apply nth_error_set_node_same. rewrite A2, !app_length. cbn [List.length]. lia. }
      split; [|auto].
      rewrite A3, <- app_assoc, <- Hl. rewrite nth_error_app2 by lia. rewrite Nat.sub_diag. reflexivity.
    + apply fin_set_other; [congruence|]. apply A4. rewrite app_length. cbn [List.length]. lia.
Qed.

Lemma POST_refl : forall g st ps hm, SR g st ps hm -> POST g st ps hm ps hm.
Proof.
  intros g st ps hm H. split; [exact H|exists []; rewrite app_nil_r; reflexivity|
                               exists []; rewrite app_nil_r; reflexivity|intros i Hi; lia].
Qed.

(* ------------------------------------------------------------------ *)
(** * The simulation *)

Definition simok (g : schema_mut) (parent : option bytes) (key : nat) (j : json) (st' : jstate)
  (ps : pstate) (hm : list nat) : Prop :=
  exists r k' ps' hm', raw_of_json j = Ok r /\ register_node r parent ps = Ok (pk_node k', ps') /\
    POST g st' ps hm ps' hm' /\ nth_error hm' k' = Some key /\
    ((length (p_nodes ps) < length (p_nodes ps'))%nat -> k' = length (p_nodes ps)).

Definition sim_spec (g : schema_mut) (F : nat -> jstate -> result (json * jstate)) (parent : option bytes)
  : Prop :=
  forall key st j st' ps hm, F key st = Ok (j, st') -> SR g st ps hm -> simok g parent key j st' ps hm.

Lemma simok_wrap : forall g parent key j st1 st2 ps hm names0 ps2 hm2 v node r,
  length hm = length (p_nodes ps) ->
  raw_of_json j = Ok r ->
  register_node r parent ps = Ok (pk_node (length (p_nodes ps)), pset ps2 (length (p_nodes ps)) v) ->
  POST g st1 (mkP (p_nodes ps ++ [mkNode RNull None]) names0 (p_unresolved ps)) (hm ++ [key]) ps2 hm2 ->
  SR g st2 ps2 hm2 ->
  nth_error g key = Some node -> m_logical v = m_logical node -> rmatch hm2 (m_type v) (m_type node) ->
  simok g parent key j st2 ps hm.
Proof.
  intros g parent key j st1 st2 ps hm names0 ps2 hm2 v node r Hl Hr Hreg Hpost Hsr Hn Hlt Hrm.
  exists r, (length (p_nodes ps)), (pset ps2 (length (p_nodes ps)) v), hm2.
  split; [exact Hr|]. split; [exact Hreg|].
  split; [eapply POST_wrap; eassumption|]. split; [|reflexivity].
  destruct (po_hm _ _ _ _ _ _ Hpost) as (h1 & ->).
  rewrite <- app_assoc, <- Hl. rewrite nth_error_app2 by lia. rewrite Nat.sub_diag. reflexivity.
Qed.

Lemma simok_leaf : forall g parent key j st' ps hm names' v node r,
  length hm = length (p_nodes ps) ->
  raw_of_json j = Ok r ->
  register_node r parent ps =
    Ok (pk_node (length (p_nodes ps)), mkP (p_nodes ps ++ [v]) names' (p_unresolved ps)) ->
  SR g st' (mkP (p_nodes ps ++ [v]) names' (p_unresolved ps)) (hm ++ [key]) ->
  nth_error g key = Some node -> m_logical v = m_logical node -> m_type v = m_type node ->
  (forall r, m_type node = r -> rmatch (hm ++ [key]) r r) ->
  simok g parent key j st' ps hm.
Proof.
  intros g parent key j st' ps hm names' v node r Hl Hr Hreg Hsr Hn Hlt Hty Hrm.
  exists r, (length (p_nodes ps)), (mkP (p_nodes ps ++ [v]) names' (p_unresolved ps)), (hm ++ [key]).
  split; [exact Hr|]. split; [exact Hreg|].
  split; [eapply POST_leaf; eassumption|]. split; [|reflexivity].
  rewrite <- Hl. rewrite nth_error_app2 by lia. rewrite Nat.sub_diag. reflexivity.
Qed.

Lemma sim_variants g (F : nat -> jstate -> result (json * jstate)) parent : sim_spec g F parent ->
  forall ks st js st' ps hm, jgo_variants F ks st = Ok (js, st') -> SR g st ps hm ->
  exists rs ks' ps' hm', Forall2 (fun j r => raw_of_json j = Ok r) js rs /\
    rgo_variants (fun x s => register_node x parent s) rs ps = Ok (ks', ps') /\
    POST g st' ps hm ps' hm' /\ Forall2 (kmatch hm') ks' ks.
Proof.
  intros HF. induction ks as [|k t IH]; intros st js st' ps hm H Hsr.
  - cbn [jgo_variants] in H. inversion H. subst. exists [], [], ps, hm.
    split; [constructor|]. split; [reflexivity|]. split; [apply POST_refl; exact Hsr|constructor].
  - cbn [jgo_variants] in H. apply rbind_ok in H. destruct H as ([j1 s1] & H1 & H).
    apply rbind_ok in H. destruct H as ([js2 s2] & H2 & H). cbn [fst snd] in *. inversion H. subst.
    destruct (HF k st j1 s1 ps hm H1 Hsr) as (r1 & k1 & ps1 & hm1 & R1 & G1 & P1 & N1 & _).
    destruct (IH s1 js2 st' ps1 hm1 H2 (po_sr _ _ _ _ _ _ P1)) as (rs2 & ks2 & ps2 & hm2 & R2 & G2 & P2 & M2).
    exists (r1 :: rs2), (pk_node k1 :: ks2), ps2, hm2.
    split; [constructor; assumption|]. split.
    { cbn [rgo_variants]. rewrite G1. cbn [rbind fst snd]. fold (rgo_variants (fun x s => register_node x parent s)).
      rewrite G2. reflexivity. }
    split; [eapply POST_trans; eassumption|].
    constructor; [|exact M2]. destruct (po_hm _ _ _ _ _ _ P2) as (h2 & ->).
    apply kmatch_ext. exists k1. split; [reflexivity|exact N1].
Qed.

Lemma sim_fields g (F : nat -> jstate -> result (json * jstate)) parent : sim_spec g F parent ->
  forall fs st js st' ps hm, jgo_fields F fs st = Ok (js, st') -> SR g st ps hm ->
  exists fjs frs fs' ps' hm',
    js = map (fun fj => field_json (fst fj) (snd fj)) fjs /\
    Forall2 (fun (fj : bytes * json) (fr : bytes * raw) => fst fj = fst fr /\ raw_of_json (snd fj) = Ok (snd fr)) fjs frs /\
    rgo_fields (fun x s => register_node x parent s) frs ps = Ok (fs', ps') /\
    POST g st' ps hm ps' hm' /\ Forall2 (fmatch hm') fs' fs.
Proof.
  intros HF. induction fs as [|[fname k] t IH]; intros st js st' ps hm H Hsr.
  - cbn [jgo_fields] in H. inversion H. subst. exists [], [], [], ps, hm.
    split; [reflexivity|]. split; [constructor|]. split; [reflexivity|].
    split; [apply POST_refl; exact Hsr|constructor].
  - cbn [jgo_fields] in H. apply rbind_ok in H. destruct H as ([j1 s1] & H1 & H).
    apply rbind_ok in H. destruct H as ([js2 s2] & H2 & H). cbn [fst snd] in *. inversion H. subst.
    destruct (HF k st j1 s1 ps hm H1 Hsr) as (r1 & k1 & ps1 & hm1 & R1 & G1 & P1 & N1 & _).
    destruct (IH s1 js2 st' ps1 hm1 H2 (po_sr _ _ _ _ _ _ P1))
      as (fjs2 & frs2 & fs2 & ps2 & hm2 & J2 & R2 & G2 & P2 & M2).
    exists ((fname, j1) :: fjs2), ((fname, r1) :: frs2), ((fname, pk_node k1) :: fs2), ps2, hm2.
    split; [cbn [map fst snd]; rewrite J2; reflexivity|].
    split; [constructor; [split; [reflexivity|exact R1]|exact R2]|]. split.
    { cbn [rgo_fields]. rewrite G1. cbn [rbind fst snd]. fold (rgo_fields (fun x s => register_node x parent s)).
      rewrite G2. reflexivity. }
    split; [eapply POST_trans; eassumption|].
    constructor; [|exact M2]. destruct (po_hm _ _ _ _ _ _ P2) as (h2 & ->).
    split; [reflexivity|]. cbn [snd]. apply kmatch_ext. exists k1. split; [reflexivity|exact N1].
Qed.

Lemma jguard_inv : forall key st body j st', jguard key st body = Ok (j, st') ->
  exists s1, body (mkJ (set_cell (j_cells st) key (j_written st)) (j_written st)) = Ok (j, s1) /\
             st' = mkJ (set_cell (j_cells s1) key 0) (j_written s1).
Proof.
  intros key st body j st' H. unfold jguard in H. destruct (_ <=? _); [discriminate|].
  apply rbind_ok in H. destruct H as ([j1 s1] & H1 & H). cbn [fst snd] in H. inversion H. subst.
  exists s1. split; [exact H1|reflexivity].
Qed.

Lemma jnamed_inv : forall key parent st nm body j st', jnamed key parent st nm body = Ok (j, st') ->
  (nth key (j_cells st) 0 <> 0 /\ j = JStr (str_for_ref parent nm) /\ st' = st) \/
  (nth key (j_cells st) 0 = 0 /\
   body (mkJ (set_cell (j_cells st) key (j_written st)) (j_written st + 1)) = Ok (j, st')).
Proof.
  intros key parent st nm body j st' H. unfold jnamed in H.
  destruct (0 <? nth key (j_cells st) 0) eqn:E.
  - left. apply N.ltb_lt in E. assert (E' : nth key (j_cells st) 0 <> 0) by lia.
    inversion H. subst. auto.
  - right. apply N.ltb_ge in E. split; [lia|exact H].
Qed.

(* a primitive node *)
Lemma sim_prim : forall g parent key node st ps hm ty t rty,
  rtype_of_name (lit ty) = Some t -> prim_of t = Some rty ->
  nth_error g key = Some node -> m_type node = rty -> lt_valid (m_logical node) ->
  SR g st ps hm ->
  simok g parent key (prim_json ty (m_logical node)) st ps hm.
Proof.
  intros g parent key node st ps hm ty t rty Ht Hp Hn Hty Hlt Hsr.
  assert (Hnn : node_name node = None).
  { unfold node_name. rewrite Hty. destruct t; inversion Hp; reflexivity. }
  pose proof (raw_prim ty t (m_logical node) Ht Hlt) as Hraw.
  assert (Hrm : forall r, m_type node = r -> rmatch (hm ++ [key]) r r).
  { intros r <-. rewrite Hty. destruct t; inversion Hp; reflexivity. }
  destruct (m_logical node) as [l|] eqn:El.
  - eapply simok_leaf with (v := mkNode rty (Some l)); [exact (sr_len _ _ _ _ Hsr)|exact Hraw| | |exact Hn| | |exact Hrm].
    + apply reg_prim_obj; [exact Hp|]. apply (logical_of_roundtrip (Some l)). exact Hlt.
    + eapply SR_push_unnamed; eassumption.
    + cbn [m_logical]. symmetry. exact El.
    + cbn [m_type]. symmetry. exact Hty.
  - eapply simok_leaf with (v := mkNode rty None); [exact (sr_len _ _ _ _ Hsr)|exact Hraw| | |exact Hn| | |exact Hrm].
    + apply reg_prim_type. exact Hp.
    + eapply SR_push_unnamed; eassumption.
    + cbn [m_logical]. symmetry. exact El.
    + cbn [m_type]. symmetry. exact Hty.
Qed.

(* a named node that was already written: a reference *)
Lemma sim_ref : forall g parent key node nm st ps hm, wf_graph g ->
  nth_error g key = Some node -> node_name node = Some nm -> nth key (j_cells st) 0 <> 0 ->
  SR g st ps hm ->
  simok g parent key (JStr (str_for_ref parent nm)) st ps hm.
Proof.
  intros g parent key node nm st ps hm Hwf Hn Hnm Hm Hsr.
  destruct (wf_names g Hwf key node nm Hn Hnm) as (ns & simple & -> & Hns & Hd & Hty).
  destruct (sr_fwd _ _ _ _ Hsr key node _ Hn Hnm Hm) as (idx & Ha & Hi).
  rewrite nkey_of_key in Ha.
  exists (RwRef (str_for_ref parent (name_of_key (ns, simple)))), idx, ps, hm.
  split; [apply raw_ref; apply str_for_ref_not_type; assumption|].
  split; [apply reg_ref; rewrite ref_roundtrip by assumption; exact Ha|].
  split; [apply POST_refl; exact Hsr|]. split; [exact Hi|]. intro; lia.
Qed.

(* the name of a node that has not been written is not in the name map *)
Lemma fresh_unregistered : forall g key node nm st ps hm, wf_graph g ->
  nth_error g key = Some node -> node_name node = Some nm -> nth key (j_cells st) 0 = 0 ->
  SR g st ps hm -> assoc_key (nkey nm) (p_names ps) = None.
Proof.
  intros g key node nm st ps hm Hwf Hn Hnm Hz Hsr.
  destruct (assoc_key (nkey nm) (p_names ps)) as [idx|] eqn:Ha; [exfalso|reflexivity].
  destruct (sr_bwd _ _ _ _ Hsr _ _ Ha) as (k2 & n2 & nm2 & Hk2 & Hnm2 & He & Hm).
  assert (k2 = key).
  { apply (wf_distinct g Hwf k2 key n2 node nm2 nm Hk2 Hn Hnm2 Hnm).
    rewrite (name_valid_key nm2 (wf_names g Hwf k2 n2 nm2 Hk2 Hnm2)).
    rewrite (name_valid_key nm (wf_names g Hwf key node nm Hn Hnm)). rewrite He. reflexivity. }
  subst k2. contradiction.
Qed.

Lemma to_json_sim : forall fuel g, wf_graph g ->
  forall parent, sim_spec g (fun k s => to_json fuel g k parent s) parent.
Proof.
  induction fuel as [|f IH]; intros g Hwf parent key st j st' ps hm H Hsr; [discriminate|].
  rewrite to_json_S in H. destruct (nth_error g key) as [node|] eqn:Hn; [|discriminate].
  cbv zeta in H.
  pose proof (wf_logical g Hwf key node Hn) as Hlt.
  pose proof (sr_len _ _ _ _ Hsr) as Hlen.
  destruct (m_type node) eqn:Et.
  1-8: inversion H; subst j st'.
  - eapply sim_prim with (t := TyNull); try eassumption; reflexivity.
  - eapply sim_prim with (t := TyBoolean); try eassumption; reflexivity.
  - eapply sim_prim with (t := TyInt); try eassumption; reflexivity.
  - eapply sim_prim with (t := TyLong); try eassumption; reflexivity.
  - eapply sim_prim with (t := TyFloat); try eassumption; reflexivity.
  - eapply sim_prim with (t := TyDouble); try eassumption; reflexivity.
  - eapply sim_prim with (t := TyBytes); try eassumption; reflexivity.
  - eapply sim_prim with (t := TyString); try eassumption; reflexivity.
  - (* array *)
    assert (Hnn : node_name node = None) by (unfold node_name; rewrite Et; reflexivity).
    apply jguard_inv in H. destruct H as (s1 & H & ->).
    apply rbind_ok in H. destruct H as ([j2 s2] & H2 & H). cbn [fst snd] in H. inversion H. subst j s1.
    assert (Hsr1 : SR g (mkJ (set_cell (j_cells st) key (j_written st)) (j_written st)) (ppush ps) (hm ++ [key])).
    { unfold ppush. eapply SR_push_unnamed; [|exact Hn|exact Hnn].
      eapply SR_set_unnamed; [exact Hsr|exact Hn|exact Hnn|exact (sr_w _ _ _ _ Hsr)]. }
    destruct (IH g Hwf parent items _ j2 s2 _ _ H2 Hsr1) as (r2 & k2 & ps2 & hm2 & R2 & G2 & P2 & N2 & _).
    eapply simok_wrap with (v := mkNode (RArray (pk_node k2)) (m_logical node));
      [exact Hlen|apply raw_array; [exact Hlt|exact R2]| |exact P2| |exact Hn|reflexivity|].
    + apply reg_array; [exact G2|apply logical_of_roundtrip; exact Hlt].
    + eapply SR_set_unnamed; [exact (po_sr _ _ _ _ _ _ P2)|exact Hn|exact Hnn|].
      exact (sr_w _ _ _ _ (po_sr _ _ _ _ _ _ P2)).
    + cbn [m_type]. rewrite Et. cbn [rmatch]. exists k2. split; [reflexivity|exact N2].
  - (* map *)
    assert (Hnn : node_name node = None) by (unfold node_name; rewrite Et; reflexivity).
    apply jguard_inv in H. destruct H as (s1 & H & ->).
    apply rbind_ok in H. destruct H as ([j2 s2] & H2 & H). cbn [fst snd] in H. inversion H. subst j s1.
    assert (Hsr1 : SR g (mkJ (set_cell (j_cells st) key (j_written st)) (j_written st)) (ppush ps) (hm ++ [key])).
    { unfold ppush. eapply SR_push_unnamed; [|exact Hn|exact Hnn].
      eapply SR_set_unnamed; [exact Hsr|exact Hn|exact Hnn|exact (sr_w _ _ _ _ Hsr)]. }
    destruct (IH g Hwf parent values _ j2 s2 _ _ H2 Hsr1) as (r2 & k2 & ps2 & hm2 & R2 & G2 & P2 & N2 & _).
    eapply simok_wrap with (v := mkNode (RMap (pk_node k2)) (m_logical node));
      [exact Hlen|apply raw_map; [exact Hlt|exact R2]| |exact P2| |exact Hn|reflexivity|].
    + apply reg_map; [exact G2|apply logical_of_roundtrip; exact Hlt].
    + eapply SR_set_unnamed; [exact (po_sr _ _ _ _ _ _ P2)|exact Hn|exact Hnn|].
      exact (sr_w _ _ _ _ (po_sr _ _ _ _ _ _ P2)).
    + cbn [m_type]. rewrite Et. cbn [rmatch]. exists k2. split; [reflexivity|exact N2].
  - (* union *)
    assert (Hnn : node_name node = None) by (unfold node_name; rewrite Et; reflexivity).
    destruct (m_logical node) eqn:El; [discriminate|].
    apply jguard_inv in H. destruct H as (s1 & H & ->).
    apply rbind_ok in H. destruct H as ([js s2] & H2 & H). cbn [fst snd] in H. inversion H. subst j s1.
    assert (Hsr1 : SR g (mkJ (set_cell (j_cells st) key (j_written st)) (j_written st)) (ppush ps) (hm ++ [key])).
    { unfold ppush. eapply SR_push_unnamed; [|exact Hn|exact Hnn].
      eapply SR_set_unnamed; [exact Hsr|exact Hn|exact Hnn|exact (sr_w _ _ _ _ Hsr)]. }
    destruct (sim_variants g _ parent (IH g Hwf parent) variants _ js s2 _ _ H2 Hsr1)
      as (rs & ks' & ps2 & hm2 & R2 & G2 & P2 & M2).
    eapply simok_wrap with (v := mkNode (RUnion ks') None);
      [exact Hlen|apply raw_union; exact R2| |exact P2| |exact Hn|cbn [m_logical]; symmetry; exact El|].
    + apply reg_union. exact G2.
    + eapply SR_set_unnamed; [exact (po_sr _ _ _ _ _ _ P2)|exact Hn|exact Hnn|].
      exact (sr_w _ _ _ _ (po_sr _ _ _ _ _ _ P2)).
    + cbn [m_type]. rewrite Et. cbn [rmatch]. exact M2.
  - (* record *)
    assert (Hnn : node_name node = Some n) by (unfold node_name; rewrite Et; reflexivity).
    apply jnamed_inv in H. destruct H as [(Hm & -> & ->)|(Hz & H)].
    { eapply sim_ref; eassumption. }
    apply rbind_ok in H. destruct H as ([js s2] & H2 & H). cbn [fst snd] in H. inversion H. subst j s2.
    destruct (wf_names g Hwf key node n Hn Hnn) as (ns & simple & En & Hns & Hd & Hty).
    pose proof (SR_push_named g st ps hm key node n (mkNode RNull None) Hwf Hsr Hn Hnn Hz) as Hsr1.
    subst n. rewrite nkey_of_key in Hsr1. rewrite name_of_key_namespace in H2. cbn [fst] in H2.
    destruct (sim_fields g _ ns (IH g Hwf ns) fields _ js st' _ _ H2 Hsr1)
      as (fjs & frs & fs' & ps2 & hm2 & -> & R2 & G2 & P2 & M2).
    destruct (raw_record (m_logical node) parent ns simple fjs frs Hlt Hns Hd R2) as (nme & nsp & Ek & Hraw).
    pose proof (fresh_unregistered g key node _ st ps hm Hwf Hn Hnn Hz Hsr) as Hfresh.
    rewrite nkey_of_key in Hfresh.
    eapply simok_wrap with (v := mkNode (RRecord (name_of_key (ns, simple)) fs') (m_logical node));
      [exact Hlen|exact Hraw| |exact P2|exact (po_sr _ _ _ _ _ _ P2)|exact Hn|reflexivity|].
    + rewrite <- Ek. apply reg_record.
      * rewrite Ek. exact Hfresh.
      * rewrite Ek. cbn [fst]. exact G2.
      * apply logical_of_roundtrip. exact Hlt.
    + cbn [m_type]. rewrite Et. cbn [rmatch]. split; [reflexivity|exact M2].
  - (* enum *)
    assert (Hnn : node_name node = Some n) by (unfold node_name; rewrite Et; reflexivity).
    apply jnamed_inv in H. destruct H as [(Hm & -> & ->)|(Hz & H)].
    { eapply sim_ref; eassumption. }
    inversion H. subst j st'.
    destruct (wf_names g Hwf key node n Hn Hnn) as (ns & simple & En & Hns & Hd & Hty).
    pose proof (SR_push_named g st ps hm key node n
                  (mkNode (REnum n symbols) (m_logical node)) Hwf Hsr Hn Hnn Hz) as Hsr1.
    pose proof (fresh_unregistered g key node _ st ps hm Hwf Hn Hnn Hz Hsr) as Hfresh.
    subst n. rewrite nkey_of_key in Hsr1, Hfresh.
    destruct (raw_enum (m_logical node) parent ns simple symbols Hlt Hns Hd) as (nme & nsp & Ek & Hraw).
    eapply simok_leaf with (v := mkNode (REnum (name_of_key (ns, simple)) symbols) (m_logical node));
      [exact Hlen|exact Hraw| |exact Hsr1|exact Hn|reflexivity|cbn [m_type]; symmetry; exact Et|].
    + rewrite <- Ek. apply reg_enum; [rewrite Ek; exact Hfresh|apply logical_of_roundtrip; exact Hlt].
    + intros r <-. rewrite Et. reflexivity.
  - (* fixed *)
    assert (Hnn : node_name node = Some n) by (unfold node_name; rewrite Et; reflexivity).
    apply jnamed_inv in H. destruct H as [(Hm & -> & ->)|(Hz & H)].
    { eapply sim_ref; eassumption. }
    inversion H. subst j st'.
    destruct (wf_names g Hwf key node n Hn Hnn) as (ns & simple & En & Hns & Hd & Hty).
    pose proof (SR_push_named g st ps hm key node n
                  (mkNode (RFixed n size) (m_logical node)) Hwf Hsr Hn Hnn Hz) as Hsr1.
    pose proof (fresh_unregistered g key node _ st ps hm Hwf Hn Hnn Hz Hsr) as Hfresh.
    subst n. rewrite nkey_of_key in Hsr1, Hfresh.
    destruct (raw_fixed (m_logical node) parent ns simple size Hlt Hns Hd
                (wf_size g Hwf key node _ size Hn Et)) as (nme & nsp & Ek & Hraw).
    eapply simok_leaf with (v := mkNode (RFixed (name_of_key (ns, simple)) size) (m_logical node));
      [exact Hlen|exact Hraw| |exact Hsr1|exact Hn|reflexivity|cbn [m_type]; symmetry; exact Et|].
    + rewrite <- Ek. apply reg_fixed; [rewrite Ek; exact Hfresh|apply logical_of_roundtrip; exact Hlt].
    + intros r <-. rewrite Et. reflexivity.
Qed.

(* ------------------------------------------------------------------ *)
(** * From finished nodes to a covering *)

Definition hfun (hm : list nat) (k : nat) : nat := nth k hm O.

Lemma hfun_nth_error : forall hm k a, nth_error hm k = Some a -> hfun hm k = a.
Proof. intros hm k a H. unfold hfun. apply nth_error_nth. exact H. Qed.

Lemma fix_key_pk : forall c, fix_key [] (pk_node c) = c.
Proof.
  intro c. unfold fix_key, pk_node. rewrite Nat.even_mul. cbn [Nat.even orb].
  apply Nat.div2_double.
Qed.

Lemma kmatch_fix : forall hm a' a, kmatch hm a' a -> hfun hm (fix_key [] a') = a.
Proof. intros hm a' a (c' & -> & H). rewrite fix_key_pk. apply hfun_nth_error. exact H. Qed.

Lemma kmatch_lt : forall hm a' a, kmatch hm a' a -> (fix_key [] a' < length hm)%nat.
Proof. intros hm a' a (c' & -> & H). rewrite fix_key_pk. apply nth_error_Some. congruence. Qed.

Lemma rmatch_relabel : forall hm r' r lt, rmatch hm r' r ->
  relabel (hfun hm) (m_type (fix_node [] (mkNode r' lt))) = r.
Proof.
  intros hm r' r lt H. unfold fix_node. cbn [m_type m_logical].
  destruct r', r; cbn [rmatch] in H; try contradiction; try (inversion H; reflexivity); cbn [relabel].
  - f_equal. apply kmatch_fix. exact H.
  - f_equal. apply kmatch_fix. exact H.
  - f_equal. induction H as [|a' a l' l Ha Hl IHl]; cbn [map]; [reflexivity|].
    rewrite (kmatch_fix _ _ _ Ha), IHl. reflexivity.
  - destruct H as [-> H]. f_equal.
    induction H as [|f' f0 l' l Ha Hl IHl]; cbn [map]; [reflexivity|].
    destruct Ha as [Ha1 Ha2]. cbn [fst snd]. rewrite (kmatch_fix _ _ _ Ha2), IHl, Ha1.
    destruct f0; reflexivity.
Qed.

Lemma rmatch_children_lt : forall hm r' r lt, rmatch hm r' r ->
  Forall (fun c => (c < length hm)%nat) (node_children (fix_node [] (mkNode r' lt))).
Proof.
  intros hm r' r lt H. unfold node_children, fix_node. cbn [m_type m_logical].
  destruct r', r; cbn [rmatch] in H; try contradiction; try (constructor; fail).
  - constructor; [eapply kmatch_lt; exact H|constructor].
  - constructor; [eapply kmatch_lt; exact H|constructor].
  - induction H as [|a' a l' l Ha Hl IHl]; cbn [map]; constructor; [eapply kmatch_lt; exact Ha|exact IHl].
  - destruct H as [_ H]. induction H as [|f' f0 l' l Ha Hl IHl]; cbn [map]; constructor; [|exact IHl].
    cbn [snd]. destruct Ha as [_ Ha]. eapply kmatch_lt. exact Ha.
Qed.

Lemma rmatch_named : forall hm r' r lt lt', rmatch hm r' r ->
  is_named_node (fix_node [] (mkNode r' lt)) = true -> exists nm, node_name (mkNode r lt') = Some nm.
Proof.
  intros hm r' r lt lt' H. unfold is_named_node, node_name, fix_node. cbn [m_type m_logical].
  destruct r', r; cbn [rmatch] in H; try contradiction; try discriminate; intro; eauto.
Qed.

Lemma nth_error_map_inv {A B} (f : A -> B) : forall l k y, nth_error (map f l) k = Some y ->
  exists x, nth_error l k = Some x /\ y = f x.
Proof.
  induction l as [|a l IH]; intros [|k] y H; cbn [map nth_error] in H; try discriminate.
  - inversion H. exists a. split; reflexivity.
  - apply IH. exact H.
Qed.

Lemma cover_of_fin : forall g st ps hm,
  SR g st ps hm -> (forall i, (i < length (p_nodes ps))%nat -> fin g hm (p_nodes ps) i) ->
  nth_error hm O = Some O ->
  cover (hfun hm) (map (fix_node []) (p_nodes ps)) g.
Proof.
  intros g st ps hm Hsr Hfin Hroot.
  assert (Hget : forall k' n'', nth_error (map (fix_node []) (p_nodes ps)) k' = Some n'' ->
            exists n' k n, nth_error (p_nodes ps) k' = Some n' /\ n'' = fix_node [] n' /\
              nth_error hm k' = Some k /\ nth_error g k = Some n /\ m_logical n' = m_logical n /\
              rmatch hm (m_type n') (m_type n)).
  { intros k' n'' H. apply nth_error_map_inv in H. destruct H as (n' & H1 & ->).
    assert (Hk : (k' < length (p_nodes ps))%nat) by (apply nth_error_Some; congruence).
    destruct (Hfin k' Hk) as (n0 & k & n & F1 & F2 & F3 & F4 & F5).
    rewrite H1 in F1. inversion F1. subst n0. exists n', k, n. auto 10. }
  split.
  - intros k' n'' H. destruct (Hget k' n'' H) as (n' & k & n & H1 & -> & H2 & H3 & H4 & H5).
    exists n. rewrite (hfun_nth_error _ _ _ H2). split; [exact H3|]. split.
    + destruct n' as [r' lt']. symmetry. apply rmatch_relabel. exact H5.
    + symmetry. exact H4.
  - intros k' n'' H. destruct (Hget k' n'' H) as (n' & k & n & H1 & -> & H2 & H3 & H4 & H5).
    rewrite map_length, <- (sr_len _ _ _ _ Hsr). destruct n' as [r' lt'].
    eapply rmatch_children_lt. exact H5.
  - intros a b na nb Ha Hb Hna Hab.
    destruct (Hget a na Ha) as (na' & ka & n1 & A1 & -> & A2 & A3 & A4 & A5).
    destruct (Hget b nb Hb) as (nb' & kb & n2 & B1 & _ & B2 & B3 & B4 & B5).
    rewrite (hfun_nth_error _ _ _ A2), (hfun_nth_error _ _ _ B2) in Hab. subst kb.
    destruct na' as [r' lt']. destruct n1 as [r1 lt1]. cbn [m_type] in A5.
    destruct (rmatch_named hm r' r1 lt' lt1 A5 Hna) as (nm & Hnm).
    exact (sr_inj _ _ _ _ Hsr a b ka _ nm A2 B2 A3 Hnm).
  - apply hfun_nth_error. exact Hroot.
Qed.

(* ------------------------------------------------------------------ *)
(** * The cycle check of the parser *)

Lemma clos_trans_map {A B} (R : relation A) (S : relation B) (h : A -> B) :
  (forall a b, R a b -> S (h a) (h b)) -> forall a b, clos_trans A R a b -> clos_trans B S (h a) (h b).
Proof.
  intros H a b Hab. induction Hab as [a b Hr|a b c _ IH1 _ IH2]; [apply t_step, H, Hr|].
  eapply t_trans; eassumption.
Qed.

Lemma rec_edge_cover : forall h g' g, cover h g' g ->
  forall a b, rec_edge g' a b -> rec_edge g (h a) (h b).
Proof.
  intros h g' g Hc a b (nm & fs & lt & Ha & Hin & Hb).
  destruct (cv_node _ _ _ Hc a _ Ha) as ([ra la] & Ga & Ta & La). cbn [m_type m_logical relabel] in Ta, La.
  subst ra. exists nm, (map (fun f => (fst f, h (snd f))) fs), la.
  split; [exact Ga|]. split.
  - rewrite map_map. cbn [snd]. rewrite <- (map_map snd h). apply in_map. exact Hin.
  - unfold is_record in *. destruct (nth_error g' b) as [[rb lb]|] eqn:Eb; [|discriminate].
    destruct rb; try discriminate.
    destruct (cv_node _ _ _ Hc b _ Eb) as ([rb' lb'] & Gb & Tb & _). cbn [m_type relabel] in Tb. subst rb'.
    rewrite Gb. reflexivity.
Qed.

Lemma rec_cycle_cover : forall h g' g, cover h g' g -> rec_cycle g' -> rec_cycle g.
Proof.
  intros h g' g Hc (k & Hk). exists (h k).
  eapply clos_trans_map; [|exact Hk]. apply rec_edge_cover. exact Hc.
Qed.

(* ------------------------------------------------------------------ *)
(** * The regenerated JSON parses back to a covering of the graph *)

Lemma SR_init : forall g, SR g (j_init g) (mkP [] [] []) [].
Proof.
  intro g. unfold j_init. split; cbn [p_nodes p_names p_unresolved j_cells j_written]; try reflexivity.
  - rewrite repeat_length. lia.
  - intros k n nm _ _ H. rewrite nth_repeat_0 in H. congruence.
  - intros nk idx H. discriminate.
  - intros i k n nm H. destruct i; discriminate.
  - intros i1 i2 k n nm H. destruct i1; discriminate.
Qed.

Theorem regen_cover : forall g fuel j st', wf_graph g ->
  to_json fuel g O None (j_init g) = Ok (j, st') ->
  exists g' h, parse_schema j = Ok g' /\ cover h g' g /\ (0 < length g')%nat.
Proof.
  intros g fuel j st' Hwf H.
  destruct (to_json_sim fuel g Hwf None O (j_init g) j st' _ _ H (SR_init g))
    as (r & k' & ps' & hm' & R & G & P & N & Hfirst).
  cbn [p_nodes List.length] in Hfirst.
  destruct P as [Psr (newn & Pn) (newh & Ph) Pfin]. cbn [p_nodes app List.length] in *. subst hm'.
  cbn [app] in *.
  assert (Hpos : (0 < length (p_nodes ps'))%nat).
  { rewrite <- (sr_len _ _ _ _ Psr). assert (k' < length newh)%nat by (apply nth_error_Some; congruence). lia. }
  assert (Hcov : cover (hfun newh) (map (fix_node []) (p_nodes ps')) g).
  { eapply cover_of_fin; [exact Psr| |].
    - intros i Hi. apply Pfin. lia.
    - rewrite (Hfirst Hpos) in N. exact N. }
  exists (map (fix_node []) (p_nodes ps')), (hfun newh).
  split; [|split; [exact Hcov|rewrite map_length; exact Hpos]].
  unfold parse_schema. rewrite R. cbn [rbind]. rewrite G. cbn [rbind snd].
  rewrite (sr_unres _ _ _ _ Psr). cbn [rmap_list rbind].
  destruct (check_for_cycles (map (fix_node []) (p_nodes ps'))) eqn:Ec; [reflexivity|].
  exfalso. apply (wf_norec g Hwf). eapply rec_cycle_cover; [exact Hcov|].
  apply cyc_none_cycle. exact Ec.
Qed.

Print Assumptions regen_cover.
