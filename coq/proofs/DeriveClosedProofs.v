(** C20, last clause -- every schema the derive model computes fits its type.

    [derive_table]        the run of derive_schema on a supported type ends with a table whose every entry is good
                          for the final node vector, whose nodes are all registered, and where the root is node 0
    [Rel_of]              the relation read off the FINAL table: "node i is the node registered for the lookup key of t"
    [Rel_of_closed]       it is closed under the local shape the derive produces (DeriveFitsRel.closed)
    [derived_closed]      ... for the frozen schema [derived fuel ds o t = Ok S], with [Rel_of T t 0]
    [derived_wf]          the derived schema is well formed (Wf.schema_wf)
    [derive_fits_all]     the round trip of DeriveFitsProofs.fits_roundtrip for every supported root type, every
                          definition set with defs_ok, every fuel and every oracle (in particular the empty one) *)
From Coq Require Import NArith ZArith List Lia Bool Arith.
Require Import Base Kinds Schema Varint Utf8 Sval Target Reader Ser Text De.
Require Import AvroValue Encoding Denote Wf DS5.
Require SerProofs DeProofs SchemaTotalProofs.
Require Import RoundTripProofs DS2 DS6 DS7.
Require Import Derive DeriveProofs DeriveFitsDefs DeriveFitsRel DeriveFitsDe DeriveFitsSer DeriveFitsProofs DeriveClosedInv.
Import ListNotations.
Arguments N.add : simpl never.
Arguments N.mul : simpl never.
Open Scope nat_scope.

(* ------------------------------------------------------------------ *)
(** * freezing a node without logical type *)
Definition fplain (r : regular) : fnode :=
  match r with
  | RNull => FNull | RBoolean => FBoolean | RInt => FInt | RLong => FLong
  | RFloat => FFloat | RDouble => FDouble | RBytes => FBytes | RString => FString
  | RArray k => FArray k | RMap k => FMap k | RUnion ks => FUnion ks
  | RRecord nm fs => FRecord nm fs | REnum nm syms => FEnum nm syms | RFixed nm size => FFixed nm size
  end.

Lemma freeze_plain : forall len r f, freeze_node len (plain r) = Ok f -> f = fplain r.
Proof.
  intros len r f H. unfold freeze_node, plain in H. cbn [m_logical m_type] in H.
  destruct r; cbn [fplain]; try (inversion H; reflexivity).
  - destruct (key_ok len items); inversion H; reflexivity.
  - destruct (key_ok len values); inversion H; reflexivity.
  - destruct (forallb (key_ok len) variants); inversion H; reflexivity.
  - destruct (forallb (fun f0 : bytes * nat => key_ok len (snd f0)) fields); inversion H; reflexivity.
Qed.

Lemma freeze_nodes_nth : forall len g S i n, freeze_nodes len g = Ok S -> nth_error g i = Some n ->
  exists f, freeze_node len n = Ok f /\ nth_error S i = Some f.
Proof.
  induction g as [|m t IH]; intros S i n H Hn; [destruct i; discriminate Hn|].
  cbn [freeze_nodes] in H.
  apply rbind_ok in H. destruct H as [f0 [E0 H]].
  apply rbind_ok in H. destruct H as [r [E1 H]]. inversion H; subst S. clear H.
  destruct i as [|i]; cbn [nth_error] in *.
  - inversion Hn; subst m. exists f0. split; [exact E0|reflexivity].
  - apply (IH r i n E1 Hn).
Qed.

Lemma frozen_at : forall len g S i r, freeze_nodes len g = Ok S -> nth_error g i = Some (plain r) ->
  fnode_at S i = Some (fplain r).
Proof.
  intros len g S i r H Hn. destruct (freeze_nodes_nth _ _ _ _ _ H Hn) as (f & Hf & Hs).
  apply freeze_plain in Hf. subst f. exact Hs.
Qed.

Lemma Forall2_mono_in : forall A B (R1 R2 : A -> B -> Prop) l l',
  (forall a b, In a l -> R1 a b -> R2 a b) -> Forall2 R1 l l' -> Forall2 R2 l l'.
Proof.
  intros A B R1 R2 l l' H F. induction F as [|a b l l' Hab F IH]; constructor.
  - apply H; [left; reflexivity|exact Hab].
  - apply IH. intros a' b' Hin. apply H. right. exact Hin.
Qed.

(* ------------------------------------------------------------------ *)
(** * the relation of the final table is closed *)
Section Final.
Variable ds : defs.
Variable g : schema_mut.
Variable T : tbl.
Variable len : nat.
Variable S : fschema.
Hypothesis Hds : defs_ok ds = true.
Hypothesis Hgood : forall k i, assoc_lk k T = Some i -> good ds g T k i.
Hypothesis Hfr : freeze_nodes len g = Ok S.

Definition Rel_of (t : rtype) (i : nat) : Prop := type_ok ds t = true /\ key_at ds T t i.

Lemma null_frozen : forall c, null_at T c -> fnode_at S c = Some FNull.
Proof.
  intros c H. apply Hgood in H. unfold good in H. apply (frozen_at _ _ _ _ _ Hfr) in H. exact H.
Qed.

Lemma prim_fplain : forall p, fplain (aprim_regular (prim_avro p)) = prim_fnode p.
Proof. destruct p; reflexivity. Qed.

Theorem Rel_of_closed : closed ds S Rel_of.
Proof.
  intros t i [Hok (f & k & Hk & Ha)]. split; [exact Hok|].
  pose proof (Hgood _ _ Ha) as G.
  destruct t as [p| | |n|t'|t'|t'|t'|id args|j]; cbn [local_shape]; cbn [type_ok] in Hok; try discriminate Hok.
  - apply lookup_prim_inv in Hk. subst k. unfold good in G. rewrite (frozen_at _ _ _ _ _ Hfr G).
    cbn [leaf_node]. rewrite prim_fplain. reflexivity.
  - apply lookup_string_inv in Hk. subst k. unfold good in G. rewrite (frozen_at _ _ _ _ _ Hfr G). reflexivity.
  - apply lookup_bytes_inv in Hk. subst k. unfold good in G. rewrite (frozen_at _ _ _ _ _ Hfr G). reflexivity.
  - apply andb_prop in Hok. destruct Hok as [Hok' _].
    destruct (lookup_option_inv _ _ _ _ Hk) as (f' & k' & _ & -> & Hk'). unfold good in G.
    destruct G as (c0 & c1 & A & B & C). exists c0, c1.
    split; [exact (frozen_at _ _ _ _ _ Hfr A)|]. split; [apply null_frozen; exact B|].
    split; [exact Hok'|]. exists f', k'. split; assumption.
  - destruct (lookup_vec_inv _ _ _ _ Hk) as (f' & k' & _ & -> & Hk'). unfold good in G.
    destruct G as (c & A & C). exists c. split; [exact (frozen_at _ _ _ _ _ Hfr A)|].
    split; [exact Hok|]. exists f', k'. split; assumption.
  - destruct (lookup_map_inv _ _ _ _ Hk) as (f' & k' & _ & -> & Hk'). unfold good in G.
    destruct G as (c & A & C). exists c. split; [exact (frozen_at _ _ _ _ _ Hfr A)|].
    split; [exact Hok|]. exists f', k'. split; assumption.
  - destruct (lookup_ptr_inv _ _ _ _ Hk) as (f' & _ & Hk').
    split; [exact Hok|]. exists f', k. split; assumption.
  - destruct args as [|a0 args]; [|discriminate Hok].
    destruct (nth_error ds id) as [[h fs|h s|h syms|h vs]|] eqn:Hd; [| | | |discriminate Hok].
    + pose proof (def_ok_nth _ _ _ Hds Hd) as Hdef. cbn [def_ok] in Hdef.
      apply andb_prop in Hdef. destruct Hdef as [Hdef _]. apply andb_prop in Hdef. destruct Hdef as [Hh Hfs].
      rewrite (lookup_struct_inv _ _ _ _ _ _ _ Hd (header_ok_nparams _ Hh) Hk) in G.
      unfold good in G. rewrite Hd in G. destruct G as (fields & A & F). exists fields.
      split; [exact (frozen_at _ _ _ _ _ Hfr A)|].
      eapply Forall2_mono_in; [|exact F]. intros fd fk Hin [X Y]. split; [exact X|]. split; [|exact Y].
      rewrite forallb_forall in Hfs. specialize (Hfs fd Hin).
      apply andb_prop in Hfs. destruct Hfs as [Hfs _]. apply andb_prop in Hfs. destruct Hfs as [_ Hfs].
      apply slot_ok_inv in Hfs. exact (proj2 Hfs).
    + pose proof (def_ok_nth _ _ _ Hds Hd) as Hdef. cbn [def_ok] in Hdef.
      apply andb_prop in Hdef. destruct Hdef as [Hdef _]. apply andb_prop in Hdef. destruct Hdef as [_ Hs].
      destruct (slot_ok_inv _ _ Hs) as [_ Ht].
      destruct (lookup_newtype_inv _ _ _ _ _ _ _ Hd (slot_ok_direct _ _ Hs) Hk) as (f' & _ & Hk').
      rewrite (subst_nil _ _ (type_ok_peel' _ _ Ht)) in Hk'.
      destruct (lookup_peel _ _ _ _ Hk') as [f'' Hk''].
      split; [exact Ht|]. exists f'', k. split; assumption.
    + rewrite (lookup_uenum_inv _ _ _ _ _ _ _ Hd Hk) in G. unfold good in G. rewrite Hd in G.
      exact (frozen_at _ _ _ _ _ Hfr G).
    + pose proof (def_ok_nth _ _ _ Hds Hd) as Hdef. cbn [def_ok] in Hdef.
      apply andb_prop in Hdef. destruct Hdef as [Hdef _]. apply andb_prop in Hdef. destruct Hdef as [_ Hvs].
      rewrite (lookup_union_inv _ _ _ _ _ _ _ Hd Hk) in G. unfold good in G. rewrite Hd in G.
      destruct G as (cs & A & F). exists cs. split; [exact (frozen_at _ _ _ _ _ Hfr A)|].
      eapply Forall2_mono_in; [|exact F]. intros v c Hin X. destruct v as [|ident s]; cbn [gvariant variant_at] in *.
      * apply null_frozen. exact X.
      * split; [|exact X]. rewrite forallb_forall in Hvs. specialize (Hvs _ Hin). cbn beta iota in Hvs.
        apply andb_prop in Hvs. destruct Hvs as [Hvs _]. apply andb_prop in Hvs. destruct Hvs as [Hvs _].
        apply slot_ok_inv in Hvs. exact (proj2 Hvs).
Qed.

End Final.

(* ------------------------------------------------------------------ *)
(** * the final table of derive_schema *)
(* the conversion must not unfold [lookup LKFUEL ds] (a fixpoint on the literal 64): abstract it first *)
Lemma derive_schema_inv : forall fuel ds o t g, derive_schema fuel ds o t = Ok g ->
  exists i b, find_or_build_with (append fuel ds o) (lookup LKFUEL ds) t empty_builder = Ok (i, b) /\ g = b_nodes b.
Proof.
  intros fuel ds o t g. unfold derive_schema. generalize (lookup LKFUEL ds). intros lkf H.
  destruct (find_or_build_with (append fuel ds o) lkf t empty_builder) as [[i b]| | | |] eqn:E; cbn [rbind] in H; try discriminate H.
  injection H as <-. exists i, b. split; reflexivity.
Qed.

Lemma table_of_root : forall ds L app, app_post ds L app -> forall t i b,
  type_ok ds t = true -> find_or_build_with app (lookup L ds) t empty_builder = Ok (i, b) ->
  exists T,
    (forall k i, assoc_lk k T = Some i -> good ds (b_nodes b) T k i /\ wit ds L k) /\
    (forall j, j < length (b_nodes b) -> exists k, assoc_lk k T = Some j) /\
    Rel_of ds T t 0.
Proof.
  intros ds L app Happ t i b Hok Hb.
  destruct (fob_post ds L app Happ t empty_builder i b Hok Hb) as (k & Hk & G & A & Hi).
  assert (Ei : i = 0) by (apply Hi; reflexivity). subst i. clear Hi.
  destruct G as (_ & _ & _ & Hnew & Hcov).
  exists (b_built b). split; [|split].
  - intros k' i' A'. destruct (Hnew k' i' A' eq_refl) as (_ & X & Y). split; [exact X|exact Y].
  - intros j Hj. apply Hcov. unfold b_len. split; [apply Nat.le_0_l|exact Hj].
  - split; [exact Hok|]. exists L, k. split; [exact Hk|exact A].
Qed.

Theorem derive_table : forall ds fuel o t g,
  defs_ok ds = true -> type_ok ds t = true -> derive_schema fuel ds o t = Ok g ->
  exists T,
    (forall k i, assoc_lk k T = Some i -> good ds g T k i /\ wit ds LKFUEL k) /\
    (forall j, j < length g -> exists k, assoc_lk k T = Some j) /\
    Rel_of ds T t 0.
Proof.
  intros ds fuel o t g Hds Hok H. destruct (derive_schema_inv _ _ _ _ _ H) as (i & b & Hb & ->).
  exact (table_of_root ds LKFUEL _ (append_post ds Hds fuel o) t i b Hok Hb).
Qed.

(* ------------------------------------------------------------------ *)
(** * a schema all of whose nodes are related to a type by a closed relation is well formed *)
Lemma forallb_map : forall A B (f : A -> B) (p : B -> bool) l, forallb p (map f l) = forallb (fun x => p (f x)) l.
Proof. induction l as [|x t IH]; cbn [map forallb]; [reflexivity|]. rewrite IH. reflexivity. Qed.

Section WfS.
Variable ds : defs.
Variable Sc : fschema.
Variable Rel : rtype -> nat -> Prop.
Hypothesis Hds : defs_ok ds = true.
Hypothesis Hcl : closed ds Sc Rel.

Lemma rel_lt : forall t c, Rel t c -> Nat.ltb c (length Sc) = true.
Proof.
  intros t c H. destruct (Rel_node ds Sc Rel Hds Hcl _ _ H) as [n Hn]. apply Nat.ltb_lt.
  unfold fnode_at in Hn. eapply nth_error_lt. exact Hn.
Qed.

Lemma node_lt : forall c n, fnode_at Sc c = Some n -> Nat.ltb c (length Sc) = true.
Proof. intros c n Hn. apply Nat.ltb_lt. unfold fnode_at in Hn. eapply nth_error_lt. exact Hn. Qed.

Lemma branch_name : forall t c n1, Rel t c -> fnode_at Sc c = Some n1 -> branch_ok ds t = true ->
  bytes_eqb (De.type_name FNull) (De.type_name n1) = false /\ is_union n1 = false.
Proof.
  intros t c n1 HR Hn Hb. split; [|exact (proj2 (branch_node ds Sc Rel Hcl _ _ _ HR Hn Hb))].
  unfold branch_ok in Hb. destruct (tname TNFUEL ds t) as [nm|] eqn:Ht; [|discriminate Hb].
  pose proof (tname_sound ds Sc Rel Hcl _ _ _ _ _ HR Hn Ht) as Hnm. subst nm.
  apply andb_prop in Hb. destruct Hb as [Hb _]. apply negb_true_iff in Hb.
  destruct (bytes_eqb (De.type_name FNull) (De.type_name n1)) eqn:E; [|reflexivity].
  apply bytes_eqb_eq in E. rewrite <- E in Hb. cbn [De.type_name] in Hb. rewrite bytes_eqb_refl in Hb. discriminate Hb.
Qed.

Definition branch_name_of (k : nat) : bytes := match fnode_at Sc k with Some v => De.type_name v | None => [] end.
Definition branch_plain (k : nat) : bool := match fnode_at Sc k with Some v => negb (is_union v) | None => false end.

Lemma union_branches : forall vs cs, Forall2 (variant_at Sc Rel) vs cs ->
  (forall ident s, In (VNewtype ident s) vs -> branch_ok ds (sl_type s) = true /\ tname TNFUEL ds (sl_type s) = Some ident) ->
  forallb (fun k => Nat.ltb k (length Sc)) cs = true /\
  forallb branch_plain cs = true /\
  map branch_name_of cs = map variant_name vs.
Proof.
  intros vs cs F. induction F as [|v c vs cs Hvc F IH]; intro Hv; [repeat split|].
  destruct (IH (fun i s Hin => Hv i s (or_intror Hin))) as (I1 & I2 & I3).
  cbn [forallb map]. rewrite I1, I2, I3.
  destruct v as [|ident s]; cbn [variant_at] in Hvc.
  - rewrite (node_lt _ _ Hvc). unfold branch_plain, branch_name_of. rewrite Hvc. repeat split.
  - destruct (Hv ident s (or_introl eq_refl)) as [Hb Ht].
    destruct (Rel_node ds Sc Rel Hds Hcl _ _ Hvc) as [n1 Hn1].
    rewrite (node_lt _ _ Hn1). unfold branch_plain, branch_name_of. rewrite Hn1.
    rewrite (proj2 (branch_node ds Sc Rel Hcl _ _ _ Hvc Hn1 Hb)).
    rewrite (tname_sound ds Sc Rel Hcl _ _ _ _ _ Hvc Hn1 Ht). repeat split.
Qed.

Lemma record_fields : forall fs fields, Forall2 (field_at Rel) fs fields ->
  (forall fd, In fd fs -> bytes_okb (f_name fd) = true) ->
  forallb (fun k => Nat.ltb k (length Sc)) (map snd fields) = true /\
  map fst fields = map f_name fs /\
  forallb (fun f : bytes * nat => bytes_okb (fst f)) fields = true.
Proof.
  intros fs fields F. induction F as [|fd fk fs fields [Hn HR] F IH]; intro Hb; [repeat split|].
  destruct (IH (fun x Hin => Hb x (or_intror Hin))) as (I1 & I2 & I3).
  cbn [forallb map]. rewrite I1, I2, I3, Hn. rewrite (rel_lt _ _ HR). rewrite (Hb fd (or_introl eq_refl)). repeat split.
Qed.

Lemma header_ok_name : forall h, header_ok h = true -> bytes_okb (full_name h) = true.
Proof.
  intros h H. unfold header_ok in H. do 3 (apply andb_prop in H; destruct H as [H _]).
  apply andb_prop in H. exact (proj2 H).
Qed.

Lemma leaf_wf : forall lt, leaf_type lt = true -> node_wf Sc (leaf_node lt) = true.
Proof. intros lt H. destruct lt; try discriminate H; try reflexivity. destruct p; reflexivity. Qed.

Lemma tview_wf : forall t n, type_ok ds t = true -> tview ds Sc Rel t n -> node_wf Sc n = true.
Proof.
  intros t n Hok V.
  destruct V as [Hl ->|id a h s Hp Hd Hl ->|t' c0 c1 n1 Hp -> H0 H1 Hn1 Hb|t' c Hp -> H1|t' c Hp -> H1
                |id a h fs fields Hp Hd -> F|id a h syms Hp Hd ->|id a h vs cs Hp Hd -> F].
  - apply leaf_wf. exact Hl.
  - apply leaf_wf. exact Hl.
  - destruct (branch_name _ _ _ H1 Hn1 Hb) as [Bn Bu].
    unfold node_wf. cbn [keys_of forallb map distinct existsb]. rewrite H0, Hn1.
    rewrite (node_lt _ _ H0), (node_lt _ _ Hn1), Bn, Bu. reflexivity.
  - unfold node_wf. cbn [keys_of forallb]. rewrite (rel_lt _ _ H1). reflexivity.
  - unfold node_wf. cbn [keys_of forallb]. rewrite (rel_lt _ _ H1). reflexivity.
  - pose proof (def_ok_nth _ _ _ Hds Hd) as Hdef. cbn [def_ok] in Hdef.
    apply andb_prop in Hdef. destruct Hdef as [Hdef Hdist]. apply andb_prop in Hdef. destruct Hdef as [Hh Hfs].
    rewrite forallb_forall in Hfs.
    destruct (record_fields _ _ F) as (I1 & I2 & I3).
    { intros fd Hin. specialize (Hfs fd Hin). apply andb_prop in Hfs. exact (proj2 Hfs). }
    unfold node_wf. cbn [keys_of]. rewrite I1, I2, I3, Hdist.
    apply header_ok_name in Hh. unfold full_name in Hh. rewrite Hh. reflexivity.
  - pose proof (def_ok_nth _ _ _ Hds Hd) as Hdef. cbn [def_ok] in Hdef.
    apply andb_prop in Hdef. destruct Hdef as [Hdef Hdist]. apply andb_prop in Hdef. destruct Hdef as [Hh Hsy].
    rewrite forallb_forall in Hsy.
    unfold node_wf. cbn [keys_of forallb]. rewrite Hdist. rewrite !forallb_map.
    assert (E1 : forallb (fun x : bytes * bool => bytes_okb (fst x)) syms = true).
    { apply forallb_forall. intros x Hin. specialize (Hsy x Hin).
      do 2 (apply andb_prop in Hsy; destruct Hsy as [Hsy _]). apply andb_prop in Hsy. exact (proj2 Hsy). }
    assert (E2 : forallb (fun x : bytes * bool => utf8_valid (fst x)) syms = true).
    { apply forallb_forall. intros x Hin. specialize (Hsy x Hin).
      apply andb_prop in Hsy; destruct Hsy as [Hsy _]. apply andb_prop in Hsy. exact (proj2 Hsy). }
    rewrite E1, E2. apply header_ok_name in Hh. unfold full_name in Hh. rewrite Hh. reflexivity.
  - pose proof (def_ok_nth _ _ _ Hds Hd) as Hdef. cbn [def_ok] in Hdef.
    apply andb_prop in Hdef. destruct Hdef as [Hdef Hdist]. apply andb_prop in Hdef. destruct Hdef as [Hh Hvs].
    rewrite forallb_forall in Hvs.
    destruct (union_branches _ _ F) as (I1 & I2 & I3).
    { intros ident s Hin. specialize (Hvs _ Hin). cbn beta iota in Hvs.
      apply andb_prop in Hvs. destruct Hvs as [Hvs Hnm]. apply andb_prop in Hvs. destruct Hvs as [_ Hb].
      split; [exact Hb|]. destruct (tname TNFUEL ds (sl_type s)) as [nm|]; [|discriminate Hnm].
      apply bytes_eqb_eq in Hnm. subst nm. reflexivity. }
    unfold node_wf. cbn [keys_of]. fold branch_plain. fold branch_name_of. rewrite I1, I2, I3, Hdist. reflexivity.
Qed.

Theorem covered_wf : (forall j n, fnode_at Sc j = Some n -> exists t, Rel t j) -> Sc <> [] -> schema_wf Sc = true.
Proof.
  intros Hcov Hne. unfold schema_wf. apply andb_true_intro. split.
  - destruct Sc; [contradiction Hne; reflexivity|reflexivity].
  - apply forallb_forall. intros n Hin. apply In_nth_error in Hin. destruct Hin as [j Hj].
    destruct (Hcov j n Hj) as [t HR]. destruct (Hcl _ _ HR) as [Hok _].
    eapply tview_wf; [exact Hok|]. eapply tview_of; eassumption.
Qed.

End WfS.

(* ------------------------------------------------------------------ *)
(** * the schema the derive model computes, frozen *)
Lemma derived_inv : forall fuel ds o t Sc, derived fuel ds o t = Ok Sc ->
  exists g, derive_schema fuel ds o t = Ok g /\ freeze_nodes (length g) g = Ok Sc.
Proof.
  intros fuel ds o t Sc. unfold derived. generalize (derive_schema fuel ds o t). intros r H.
  destruct r as [g| | | |]; cbn [rbind] in H; try discriminate H.
  exists g. split; [reflexivity|exact H].
Qed.

(** the general fact: the relation of the final table is closed for the derived schema, relates the root
    type to node 0, and covers every node *)
Theorem derived_closed : forall ds fuel o t Sc,
  defs_ok ds = true -> type_ok ds t = true -> derived fuel ds o t = Ok Sc ->
  exists T,
    closed ds Sc (Rel_of ds T) /\ Rel_of ds T t 0 /\
    (forall j n, fnode_at Sc j = Some n -> exists t', Rel_of ds T t' j).
Proof.
  intros ds fuel o t Sc Hds Hok H. destruct (derived_inv _ _ _ _ _ H) as (g & Hg & Hf).
  destruct (derive_table ds fuel o t g Hds Hok Hg) as (T & Hgood & Hcov & Hroot).
  exists T. split; [|split; [exact Hroot|]].
  - eapply Rel_of_closed; [exact Hds| |exact Hf]. intros k i A. exact (proj1 (Hgood k i A)).
  - intros j n Hn. destruct (SchemaTotalProofs.freeze_nodes_keys _ _ _ Hf) as [Hlen _].
    assert (Hj : j < length g). { rewrite <- Hlen. unfold fnode_at in Hn. eapply nth_error_lt. exact Hn. }
    destruct (Hcov j Hj) as [k A]. destruct (Hgood k j A) as [_ (t' & Hok' & Hk')].
    exists t'. split; [exact Hok'|]. exists LKFUEL, k. split; assumption.
Qed.

(** the statement of the task (for any oracle, in particular []) *)
Theorem derive_closed_exists : forall ds t fuel o Sc,
  defs_ok ds = true -> supported ds t = true -> derived fuel ds o t = Ok Sc ->
  exists Rel : rtype -> nat -> Prop, closed ds Sc Rel /\ Rel t 0.
Proof.
  intros ds t fuel o Sc Hds Hsup H. unfold supported in Hsup. apply andb_prop in Hsup. destruct Hsup as [_ Hok].
  destruct (derived_closed ds fuel o t Sc Hds Hok H) as (T & Hcl & Hroot & _).
  exists (Rel_of ds T). split; assumption.
Qed.

(** the derived schema of a supported type is a well-formed Avro schema *)
Theorem derived_wf : forall ds t fuel o Sc,
  defs_ok ds = true -> supported ds t = true -> derived fuel ds o t = Ok Sc -> schema_wf Sc = true.
Proof.
  intros ds t fuel o Sc Hds Hsup H. unfold supported in Hsup. apply andb_prop in Hsup. destruct Hsup as [_ Hok].
  destruct (derived_closed ds fuel o t Sc Hds Hok H) as (T & Hcl & Hroot & Hcov).
  apply (covered_wf ds Sc (Rel_of ds T) Hds Hcl Hcov).
  destruct (Rel_node ds Sc _ Hds Hcl _ _ Hroot) as [n Hn]. intros ->. discriminate Hn.
Qed.

(** every value of a supported type round trips under the schema the derive model computes for it *)
Theorem derive_fits_all : forall ds t fuel o Sc cfg,
  defs_ok ds = true -> supported ds t = true -> derived fuel ds o t = Ok Sc ->
  exists root, fnode_at Sc 0 = Some root /\
  forall v slow dfuel tf,
    has_typeb ds t v = true ->
    let a := aval_of ds t v in
    SerProofs.value_limits Sc root a = true -> SerProofs.sizes_ok a = true ->
    seq_limits cfg a = true ->
    (tcost (canon a) <= c_depth cfg)%nat ->
    (Z.of_nat (List.length (spec_encode Sc root a)) <= I64_MAX)%Z ->
    (DeProofs.de_fuel (canon a) <= dfuel)%nat ->
    (S (depth_cost (canon a)) < tf)%nat ->
    exists bs d,
      to_datum Sc slow (present Sc root a) = Ok bs
      /\ de_datum dfuel Sc cfg (dtarget_of tf ds t) (slice_reader bs) = Ok (d, 0%N)
      /\ erase_borrow d = dval_of ds t v.
Proof.
  intros ds t fuel o Sc cfg Hds Hsup H.
  pose proof (derived_wf ds t fuel o Sc Hds Hsup H) as Hwf.
  unfold supported in Hsup. apply andb_prop in Hsup. destruct Hsup as [_ Hok].
  destruct (derived_closed ds fuel o t Sc Hds Hok H) as (T & Hcl & Hroot & _).
  destruct (Rel_node ds Sc _ Hds Hcl _ _ Hroot) as [root Hr].
  exists root. split; [exact Hr|].
  intros v slow dfuel tf Hty a Hl Hs Hq Hd He Hf Htf.
  exact (fits_roundtrip ds Sc cfg (Rel_of ds T) Hwf Hds Hcl t root v slow dfuel tf Hroot Hr Hty Hl Hs Hq Hd He Hf Htf).
Qed.

(** the decoder half at the root with anything after the encoding, and conformance *)
Theorem derive_conforms_all : forall ds t fuel o Sc,
  defs_ok ds = true -> supported ds t = true -> derived fuel ds o t = Ok Sc ->
  exists root, fnode_at Sc 0 = Some root /\
  forall v, has_typeb ds t v = true -> conforms Sc root (aval_of ds t v) = true.
Proof.
  intros ds t fuel o Sc Hds Hsup H.
  unfold supported in Hsup. apply andb_prop in Hsup. destruct Hsup as [_ Hok].
  destruct (derived_closed ds fuel o t Sc Hds Hok H) as (T & Hcl & Hroot & _).
  destruct (Rel_node ds Sc _ Hds Hcl _ _ Hroot) as [root Hr].
  exists root. split; [exact Hr|]. intros v Hty.
  exact (proj1 (fits_conforms ds Sc (Rel_of ds T) Hds Hcl t 0 root v Hroot Hr Hty)).
Qed.

(* ------------------------------------------------------------------ *)
(** * instances: the general theorem applied to the definition sets of DeriveFitsProofs (no relation to exhibit) *)
Example ex_union_fits_all : forall cfg,
  exists Sc root, derived 30 ex_union_defs [] (TNamed 4 []) = Ok Sc /\ schema_wf Sc = true /\ fnode_at Sc 0 = Some root /\
  forall v slow dfuel tf,
    has_typeb ex_union_defs (TNamed 4 []) v = true ->
    let a := aval_of ex_union_defs (TNamed 4 []) v in
    SerProofs.value_limits Sc root a = true -> SerProofs.sizes_ok a = true ->
    seq_limits cfg a = true ->
    (tcost (canon a) <= c_depth cfg)%nat ->
    (Z.of_nat (List.length (spec_encode Sc root a)) <= I64_MAX)%Z ->
    (DeProofs.de_fuel (canon a) <= dfuel)%nat ->
    (S (depth_cost (canon a)) < tf)%nat ->
    exists bs d,
      to_datum Sc slow (present Sc root a) = Ok bs
      /\ de_datum dfuel Sc cfg (dtarget_of tf ex_union_defs (TNamed 4 [])) (slice_reader bs) = Ok (d, 0%N)
      /\ erase_borrow d = dval_of ex_union_defs (TNamed 4 []) v.
Proof.
  intro cfg.
  assert (Hds : defs_ok ex_union_defs = true) by (vm_compute; reflexivity).
  assert (Hsup : supported ex_union_defs (TNamed 4 []) = true) by (vm_compute; reflexivity).
  destruct (derived 30 ex_union_defs [] (TNamed 4 [])) as [Sc| | | |] eqn:E; try (vm_compute in E; discriminate E).
  destruct (derive_fits_all _ _ _ _ _ cfg Hds Hsup E) as (root & Hr & Hall).
  exists Sc, root. split; [reflexivity|]. split; [exact (derived_wf _ _ _ _ _ Hds Hsup E)|]. split; [exact Hr|exact Hall].
Qed.

Print Assumptions derive_table.
Print Assumptions derived_closed.
Print Assumptions derive_closed_exists.
Print Assumptions derived_wf.
Print Assumptions derive_fits_all.
Print Assumptions derive_conforms_all.
