(** C20, last clause -- derived schemas fit their types.

    [fits_roundtrip]   (main theorem, relative to a relation [Rel] between types and node indices that is
                       closed under the local shape the derive produces): every value of a supported type,
                       presented canonically, is serialized, and the bytes, read with the DERIVED Deserialize
                       target of the type, give back the callbacks that reconstruct the value.
    [fits_decodes]     its decoder half at an arbitrary node, with anything after the encoding.
    [node_fits]        the instance for  struct Node { v: i32, next: Option<Box<Node>> }  (recursive): the
                       relation is exhibited and proved closed for the schema the derive model computes.
    Computed examples ([ex_node_roundtrip], [ex_union_roundtrip]): the derived Serialize calls ([sval_of])
    through to_datum and back, on the schema computed by derive_schema / freeze_nodes.
    Counterexamples ([refuted_*]): shapes outside [supported] that do NOT round trip in the model. *)
From Coq Require Import NArith ZArith List Lia Bool String.
Require Import Base Kinds Schema Varint Utf8 Sval Target Reader Ser Text De.
Require Import AvroValue Encoding Denote Wf.
Require SerProofs DeProofs.
Require Import RoundTripProofs DS2 DS6 DS7.
Require Import Derive DeriveProofs DeriveFitsDefs DeriveFitsRel DeriveFitsDe DeriveFitsSer.
Import ListNotations.
Open Scope N_scope.

Section Fits.
Variable ds : defs.
Variable Sc : fschema.
Variable cfg : dcfg.
Variable Rel : rtype -> nat -> Prop.
Hypothesis Hwf : schema_wf Sc = true.
Hypothesis Hds : defs_ok ds = true.
Hypothesis Hcl : closed ds Sc Rel.

(** a value of the type stands for a conforming Avro value, and the callbacks computed from that Avro
    value are the ones that reconstruct the Rust value *)
Theorem fits_conforms : forall t i n v,
  Rel t i -> fnode_at Sc i = Some n -> has_typeb ds t v = true ->
  conforms Sc n (aval_of ds t v) = true /\ DA ds t (aval_of ds t v) = dval_of ds t v.
Proof. intros t i n v HR Hn Hty. exact (good1_all ds Sc Rel Hds Hcl v t i n HR Hn Hty). Qed.

(** decoder half: any node, any position, anything may follow *)
Theorem fits_decodes : forall t i n v rest pos ma fuel depth tf,
  Rel t i -> fnode_at Sc i = Some n -> has_typeb ds t v = true ->
  let a := aval_of ds t v in
  SerProofs.value_limits Sc n a = true -> SerProofs.sizes_ok a = true ->
  seq_limits cfg a = true ->
  (tcost (canon a) <= depth)%nat ->
  (Z.of_nat (List.length (spec_encode Sc n a)) <= I64_MAX)%Z ->
  (DeProofs.de_fuel (canon a) <= fuel)%nat ->
  (S (depth_cost (canon a)) < tf)%nat ->
  exists d,
    de Sc cfg fuel n depth false false (dtarget_of tf ds t) (mkRd (spec_encode Sc n a ++ rest) pos None ma)
      = (Ok d, mkRd rest (pos + N.of_nat (List.length (spec_encode Sc n a))) None ma)
    /\ erase_borrow d = dval_of ds t v.
Proof.
  intros t i n v rest pos ma fuel depth tf HR Hn Hty a Hl Hs Hq Hd He Hf Htf.
  destruct (fits_conforms t i n v HR Hn Hty) as [Hc HDA]. fold a in Hc, HDA.
  assert (Hadm : adm Sc cfg n (canon a)).
  { unfold adm, DeProofs.pre. split; [rewrite erase_canon; exact Hc|].
    split; [apply layout_ok_canon|]. split; [apply within_limits_canon; assumption|].
    split; [apply le_n|]. split; [apply counts_fit_canon; exact Hs|exact He]. }
  destruct (fits_gen ds Sc cfg Rel Hds Hcl (canon a) t i n tf depth HR Hn Hadm Htf Hd fuel rest pos ma Hf)
    as (d & Hde & HRd).
  exists d. split; [exact Hde|]. unfold RD in HRd. rewrite erase_canon in HRd. rewrite HRd. exact HDA.
Qed.

(** to_datum of the canonical presentation, then from_datum_slice into the derived target *)
Theorem fits_roundtrip : forall t root v slow fuel tf,
  Rel t 0%nat -> fnode_at Sc 0 = Some root -> has_typeb ds t v = true ->
  let a := aval_of ds t v in
  SerProofs.value_limits Sc root a = true -> SerProofs.sizes_ok a = true ->
  seq_limits cfg a = true ->
  (tcost (canon a) <= c_depth cfg)%nat ->
  (Z.of_nat (List.length (spec_encode Sc root a)) <= I64_MAX)%Z ->
  (DeProofs.de_fuel (canon a) <= fuel)%nat ->
  (S (depth_cost (canon a)) < tf)%nat ->
  exists bs d,
    to_datum Sc slow (present Sc root a) = Ok bs
    /\ de_datum fuel Sc cfg (dtarget_of tf ds t) (slice_reader bs) = Ok (d, 0)
    /\ erase_borrow d = dval_of ds t v.
Proof.
  intros t root v slow fuel tf HR Hr Hty a Hl Hs Hq Hd He Hf Htf.
  destruct (fits_conforms t 0%nat root v HR Hr Hty) as [Hc _]. fold a in Hc.
  destruct (fits_decodes t 0%nat root v [] 0 0 fuel (c_depth cfg) tf HR Hr Hty Hl Hs Hq Hd He Hf Htf)
    as (d & E & Ed).
  exists (spec_encode Sc root a), d. split; [|split].
  - apply SerProofs.to_datum_present_decimal; assumption.
  - unfold de_datum, slice_reader. rewrite Hr. fold a in E. rewrite app_nil_r in E. rewrite E. reflexivity.
  - exact Ed.
Qed.

End Fits.

(* ------------------------------------------------------------------ *)
(** * the schema the derive model computes, frozen *)
Definition derived (fuel : nat) (ds : defs) (o : oracle) (t : rtype) : result fschema :=
  let* g := derive_schema fuel ds o t in freeze_nodes (List.length g) g.

(** * instance: struct Node { v: i32, next: Option<Box<Node>> } -- a recursive type, every value *)
Definition node_t : rtype := TNamed 0 [].
Definition node_Sc : fschema :=
  [FRecord (name_of_fqn (lit "probe.Node")) [(lit "v", 1%nat); (lit "next", 2%nat)]; FInt; FUnion [3%nat; 0%nat]; FNull].
Lemma node_derived : derived 20 ex_node_defs [] node_t = Ok node_Sc.
Proof. vm_compute. reflexivity. Qed.

Definition node_Rel (t : rtype) (i : nat) : Prop :=
  (t = node_t /\ i = 0%nat) \/ (t = TPrim PI32 /\ i = 1%nat) \/
  (t = TOption (TPtr node_t) /\ i = 2%nat) \/ (t = TPtr node_t /\ i = 0%nat).

Lemma node_closed : closed ex_node_defs node_Sc node_Rel.
Proof.
  intros t i [[-> ->]|[[-> ->]|[[-> ->]|[-> ->]]]]; (split; [vm_compute; reflexivity|]).
  - cbn [local_shape node_t nth_error ex_node_defs].
    exists [(lit "v", 1%nat); (lit "next", 2%nat)]. split; [reflexivity|].
    constructor; [split; [reflexivity|right; left; split; reflexivity]|].
    constructor; [split; [reflexivity|right; right; left; split; reflexivity]|constructor].
  - reflexivity.
  - cbn [local_shape]. exists 3%nat, 0%nat. split; [reflexivity|]. split; [reflexivity|].
    right; right; right. split; reflexivity.
  - cbn [local_shape]. left. split; reflexivity.
Qed.

Lemma node_supported : supported ex_node_defs node_t = true.
Proof. vm_compute. reflexivity. Qed.

(** every value of Node (within the documented limits of the crate) round trips under the derived schema *)
Theorem node_fits : forall v slow fuel tf cfg,
  has_typeb ex_node_defs node_t v = true ->
  let a := aval_of ex_node_defs node_t v in
  let root := FRecord (name_of_fqn (lit "probe.Node")) [(lit "v", 1%nat); (lit "next", 2%nat)] in
  SerProofs.value_limits node_Sc root a = true -> SerProofs.sizes_ok a = true ->
  seq_limits cfg a = true ->
  (tcost (canon a) <= c_depth cfg)%nat ->
  (Z.of_nat (List.length (spec_encode node_Sc root a)) <= I64_MAX)%Z ->
  (DeProofs.de_fuel (canon a) <= fuel)%nat ->
  (S (depth_cost (canon a)) < tf)%nat ->
  exists S bs d,
    derived 20 ex_node_defs [] node_t = Ok S
    /\ to_datum S slow (present S root a) = Ok bs
    /\ de_datum fuel S cfg (dtarget_of tf ex_node_defs node_t) (slice_reader bs) = Ok (d, 0)
    /\ erase_borrow d = dval_of ex_node_defs node_t v.
Proof.
  intros v slow fuel tf cfg Hty a root Hl Hs Hq Hd He Hf Htf.
  assert (Hwf : schema_wf node_Sc = true) by (vm_compute; reflexivity).
  assert (Hds : defs_ok ex_node_defs = true) by (vm_compute; reflexivity).
  destruct (fits_roundtrip ex_node_defs node_Sc cfg node_Rel Hwf Hds node_closed node_t root v slow fuel tf
              (or_introl (conj eq_refl eq_refl)) eq_refl Hty Hl Hs Hq Hd He Hf Htf) as (bs & d & H1 & H2 & H3).
  exists node_Sc, bs, d. split; [exact node_derived|]. split; [exact H1|]. split; [exact H2|exact H3].
Qed.

(* ------------------------------------------------------------------ *)
(** * computed examples: the DERIVED Serialize calls through to_datum and back *)
Definition run_rt (ds : defs) (t : rtype) (v : rvalue) : result (bytes * N * dval) :=
  let* Sc := derived 30 ds [] t in
  let* bs := to_datum Sc false (sval_of ds t v) in
  let* r := de_datum 300 Sc cfg_default (dtarget_of 12 ds t) (slice_reader bs) in
  Ok (bs, snd r, erase_borrow (fst r)).

(* Node { v: 7, next: Some(Box::new(Node { v: -3, next: None })) } *)
Definition ex_node_v : rvalue := RvStruct [RvInt 7; RvSome (RvStruct [RvInt (-3); RvNone])].
Example ex_node_roundtrip :
  supported ex_node_defs node_t = true /\ has_typeb ex_node_defs node_t ex_node_v = true /\
  exists bs, run_rt ex_node_defs node_t ex_node_v = Ok (bs, 0, dval_of ex_node_defs node_t ex_node_v).
Proof. split; [vm_compute; reflexivity|]. split; [vm_compute; reflexivity|]. eexists. vm_compute. reflexivity. Qed.

(* enum E { Null, Int(i32), String(String), #[serde(rename = "probe.Node")] Node(Node) }   (an enum as a union with a
   Null unit variant), enum Kind { A, B }, struct Id(u64), and
   struct W { e: E, m: HashMap<String, Vec<E>>, k: Kind, o: Option<Kind>, id: Id, oid: Option<Id>,
              #[serde(with = "serde_bytes")] b: Vec<u8>, on: Option<Node> } *)
Definition ex_union_defs : defs :=
  [Derive.DStruct (mkHeader (lit "probe") None (lit "Node") (lit "Node") 0)
     [mkField (lit "v") (mkSlot (TPrim PI32) None) false;
      mkField (lit "next") (mkSlot (TOption (TPtr (TNamed 0 []))) None) false];
   DUnionEnum (mkHeader (lit "probe") None (lit "E") (lit "E") 0)
     [VUnit; VNewtype (lit "Int") (mkSlot (TPrim PI32) None); VNewtype (lit "String") (mkSlot TString None);
      VNewtype (lit "probe.Node") (mkSlot (TNamed 0 []) None)];
   DUnitEnum (mkHeader (lit "probe") None (lit "Kind") (lit "Kind") 0) [(lit "A", false); (lit "B", false)];
   Derive.DNewtype (mkHeader (lit "probe") None (lit "Id") (lit "Id") 0) (mkSlot (TPrim PU64) None);
   Derive.DStruct (mkHeader (lit "probe") None (lit "W") (lit "W") 0)
     [mkField (lit "e") (mkSlot (TNamed 1 []) None) false;
      mkField (lit "m") (mkSlot (Derive.TMap (TVec (TNamed 1 []))) None) false;
      mkField (lit "k") (mkSlot (TNamed 2 []) None) false;
      mkField (lit "o") (mkSlot (TOption (TNamed 2 [])) None) false;
      mkField (lit "id") (mkSlot (TNamed 3 []) None) false;
      mkField (lit "oid") (mkSlot (TOption (TNamed 3 [])) None) false;
      mkField (lit "b") (mkSlot TBytes None) false;
      mkField (lit "on") (mkSlot (TOption (TNamed 0 [])) None) false]].
Definition ex_union_v : rvalue :=
  RvStruct [RvVariant 0 None;
            RvMap [(lit "x", RvVec [RvVariant 1 (Some (RvInt 5)); RvVariant 2 (Some (RvStr (lit "hi")));
                                    RvVariant 3 (Some ex_node_v); RvVariant 0 None])];
            RvVariant 1 None; RvSome (RvVariant 0 None); RvNewtype (RvInt 99); RvSome (RvNewtype (RvInt 100));
            RvBytes [1; 2; 3]; RvSome ex_node_v].
Example ex_union_roundtrip :
  supported ex_union_defs (TNamed 4 []) = true /\ has_typeb ex_union_defs (TNamed 4 []) ex_union_v = true /\
  exists bs, run_rt ex_union_defs (TNamed 4 []) ex_union_v = Ok (bs, 0, dval_of ex_union_defs (TNamed 4 []) ex_union_v).
Proof. split; [vm_compute; reflexivity|]. split; [vm_compute; reflexivity|]. eexists. vm_compute. reflexivity. Qed.

(* ------------------------------------------------------------------ *)
(** * shapes outside [supported] that do NOT round trip in the model (to replay on the crate) *)

(* #[avro_schema(name = "Other")] enum E { Null, A }  inside Option<E>:  Some(E::Null) is written as the
   null branch and read back as None. (With the Avro name equal to the Rust name the crate recognises the
   symbol and the value round trips: [kept_null_symbol_same_name].) *)
Definition cx_enum_null (avro_name : string) : defs :=
  [DUnitEnum (mkHeader (lit "probe") None (lit avro_name) (lit "E") 0) [(lit "Null", false); (lit "A", false)]].
Lemma refuted_option_enum_null_symbol_renamed :
  has_typeb (cx_enum_null "Other") (TOption (TNamed 0 [])) (RvSome (RvVariant 0 None)) = true /\
  supported (cx_enum_null "Other") (TOption (TNamed 0 [])) = false /\
  run_rt (cx_enum_null "Other") (TOption (TNamed 0 [])) (RvSome (RvVariant 0 None)) = Ok ([0], 0, DNone) /\
  dval_of (cx_enum_null "Other") (TOption (TNamed 0 [])) (RvSome (RvVariant 0 None)) = DSome (DEnum (lit "Null") DUnit).
Proof. repeat split; vm_compute; reflexivity. Qed.
Lemma kept_null_symbol_same_name :
  exists bs, run_rt (cx_enum_null "E") (TOption (TNamed 0 [])) (RvSome (RvVariant 0 None))
             = Ok (bs, 0, DSome (DEnum (lit "Null") DUnit)).
Proof. eexists. vm_compute. reflexivity. Qed.

(* struct Null(i32);  Option<Null>:  Some(Null(5)) is rejected by the serializer (the newtype struct's name
   selects the null branch of the union) *)
Definition cx_struct_null : defs :=
  [Derive.DNewtype (mkHeader (lit "probe") None (lit "Null") (lit "Null") 0) (mkSlot (TPrim PI32) None)].
Lemma refuted_option_newtype_named_null :
  has_typeb cx_struct_null (TOption (TNamed 0 [])) (RvSome (RvNewtype (RvInt 5))) = true /\
  supported cx_struct_null (TOption (TNamed 0 [])) = false /\
  run_rt cx_struct_null (TOption (TNamed 0 [])) (RvSome (RvNewtype (RvInt 5))) = Err EData.
Proof. repeat split; vm_compute; reflexivity. Qed.

(* Option<Option<i32>>: the derive produces a union inside a union (not a valid Avro schema, and not
   [schema_wf]); Some(None) is read back as None *)
Lemma refuted_option_option :
  has_typeb [] (TOption (TOption (TPrim PI32))) (RvSome RvNone) = true /\
  supported [] (TOption (TOption (TPrim PI32))) = false /\
  derived 30 [] [] (TOption (TOption (TPrim PI32))) = Ok [FUnion [1%nat; 2%nat]; FNull; FUnion [1%nat; 3%nat]; FInt] /\
  run_rt [] (TOption (TOption (TPrim PI32))) (RvSome RvNone) = Ok ([0], 0, DNone) /\
  dval_of [] (TOption (TOption (TPrim PI32))) (RvSome RvNone) = DSome DNone.
Proof. repeat split; vm_compute; reflexivity. Qed.

(* u64 above i64::MAX has no Avro long: rejected by the serializer (hence the range in has_typeb) *)
Lemma refuted_u64_above_long :
  run_rt [] (TPrim PU64) (RvInt 9223372036854775808) = Err EData.
Proof. vm_compute. reflexivity. Qed.
