(** Buffer pools, record field reordering: invariants of the serializer model.
    (1) the pools only ever hold empty buffers and the output does not depend on them;
    (2) the record panic sites are unreachable;
    (3) the bytes of a record do not depend on the order in which fields are presented. *)
Require Import Base Kinds GenUnionTable Schema Varint Utf8 Sval Ser.
From Coq Require Import Lia Permutation.
Open Scope nat_scope.

Arguments N.add : simpl never.
Arguments N.sub : simpl never.
Arguments N.mul : simpl never.
Arguments N.shiftl : simpl never.
Arguments N.shiftr : simpl never.
Arguments N.land : simpl never.
Arguments N.lor : simpl never.
Arguments N.ltb : simpl never.
Arguments N.leb : simpl never.
Arguments N.eqb : simpl never.
Arguments N.of_nat : simpl never.
Arguments N.to_nat : simpl never.

(** * Part 1: the relational invariant *)

Definition pool_ok (st : sstate) : Prop :=
  Forall (fun b => fst b = []) (s_bufs st) /\ Forall (fun v => v = []) (s_sbufs st).

(* two states that differ only in the output so far and in what the (empty-buffer) pools hold *)
Definition sim (s1 s2 : sstate) : Prop :=
  pool_ok s1 /\ pool_ok s2 /\ s_budget s1 = s_budget s2 /\ s_slow s1 = s_slow s2.

Definition rres {A} (R : A -> A -> Prop) (r1 r2 : result A) : Prop :=
  match r1, r2 with
  | Ok a, Ok b => R a b
  | Err e1, Err e2 => e1 = e2
  | Panic p1, Panic p2 => p1 = p2 /\ p1 <> PPoolAssert
  | OutOfFuel, OutOfFuel => True
  | Unmodelled, Unmodelled => True
  | _, _ => False
  end.

Definition post (s1 s2 t1 t2 : sstate) : Prop :=
  sim t1 t2 /\ s_slow t1 = s_slow s1 /\ (s_budget s1 = None -> s_budget t1 = None) /\
  exists w, s_out t1 = s_out s1 ++ w /\ s_out t2 = s_out s2 ++ w.

Definition rel2 {A} (R : A -> A -> Prop) (m1 m2 : M A) : Prop :=
  forall s1 s2, sim s1 s2 ->
    rres R (fst (m1 s1)) (fst (m2 s2)) /\ post s1 s2 (snd (m1 s1)) (snd (m2 s2)).
Definition rel1 {A} (m : M A) : Prop := rel2 eq m m.

Lemma post_refl s1 s2 : sim s1 s2 -> post s1 s2 s1 s2.
Proof.
  intro H. split; [exact H|]. split; [reflexivity|]. split; [auto|].
  exists []. now rewrite !app_nil_r.
Qed.

Lemma post_trans s1 s2 t1 t2 u1 u2 : post s1 s2 t1 t2 -> post t1 t2 u1 u2 -> post s1 s2 u1 u2.
Proof.
  intros (Hs & Hl & Hb & w & E1 & E2) (Hs' & Hl' & Hb' & w' & E1' & E2').
  split; [exact Hs'|]. split; [congruence|]. split; [auto|].
  exists (w ++ w'). rewrite E1', E2', E1, E2, !app_assoc. auto.
Qed.

Lemma rel2_ext {A} (R : A -> A -> Prop) m1 m2 m1' m2' :
  (forall s, m1 s = m1' s) -> (forall s, m2 s = m2' s) -> rel2 R m1' m2' -> rel2 R m1 m2.
Proof. intros E1 E2 H s1 s2 Hs. rewrite E1, E2. auto. Qed.

Lemma rel2_bind {A B} (R : A -> A -> Prop) (R' : B -> B -> Prop) m1 m2 f1 f2 :
  rel2 R m1 m2 -> (forall a b, R a b -> rel2 R' (f1 a) (f2 b)) -> rel2 R' (sbind m1 f1) (sbind m2 f2).
Proof.
  intros Hm Hf s1 s2 Hs. unfold sbind. specialize (Hm s1 s2 Hs).
  destruct (m1 s1) as [r1 t1], (m2 s2) as [r2 t2]. cbn [fst snd] in Hm. destruct Hm as (Hr & Hp).
  destruct r1, r2; cbn in Hr; try contradiction; cbn [fst snd]; try (cbn; split; auto; fail).
  assert (Hs' : sim t1 t2) by apply Hp.
  specialize (Hf a a0 Hr t1 t2 Hs'). destruct Hf as (Hr' & Hp').
  split; auto. eapply post_trans; eauto.
Qed.

Lemma rel1_bind {A B} (m : M A) (f : A -> M B) :
  rel1 m -> (forall a, rel1 (f a)) -> rel1 (sbind m f).
Proof. intros Hm Hf. apply rel2_bind with (R := eq); auto. intros a b <-. apply Hf. Qed.

Lemma rel2_ret {A} (R : A -> A -> Prop) a b : R a b -> rel2 R (sret a) (sret b).
Proof. intros H s1 s2 Hs. cbn. split; auto. now apply post_refl. Qed.
Lemma rel1_ret {A} (a : A) : rel1 (sret (S := sstate) a).
Proof. now apply rel2_ret. Qed.

Definition not_pool {A} (r : result A) : Prop :=
  match r with Panic PPoolAssert => False | Ok _ => False | _ => True end.
Lemma rel2_fail {A} (R : A -> A -> Prop) (r : result A) : not_pool r -> rel2 R (fail r) (fail r).
Proof.
  intros H s1 s2 Hs. cbn. split; [|now apply post_refl].
  destruct r; cbn in *; auto; try contradiction. split; auto. destruct s; try discriminate; contradiction.
Qed.
Lemma rel1_fail {A} (r : result A) : not_pool r -> rel1 (fail r).
Proof. apply rel2_fail. Qed.

Lemma rel2_weaken {A} (R R' : A -> A -> Prop) m1 m2 :
  (forall a b, R a b -> R' a b) -> rel2 R m1 m2 -> rel2 R' m1 m2.
Proof.
  intros HR H s1 s2 Hs. destruct (H s1 s2 Hs) as (Hr & Hp). split; auto.
  destruct (fst (m1 s1)), (fst (m2 s2)); cbn in *; auto.
Qed.

(** primitives *)
Lemma post_intro s1 s2 t1 t2 w :
  pool_ok t1 -> pool_ok t2 -> s_budget t1 = s_budget t2 -> s_slow t1 = s_slow t2 ->
  s_slow t1 = s_slow s1 -> (s_budget s1 = None -> s_budget t1 = None) ->
  s_out t1 = s_out s1 ++ w -> s_out t2 = s_out s2 ++ w -> post s1 s2 t1 t2.
Proof. intros. split; [split; [|split; [|split]]; assumption|]. split; [assumption|]. split; [assumption|]. exists w; auto. Qed.

(* only the pools change *)
Lemma post_pools s1 s2 t1 t2 :
  sim s1 s2 -> pool_ok t1 -> pool_ok t2 ->
  s_out t1 = s_out s1 -> s_out t2 = s_out s2 -> s_budget t1 = s_budget s1 -> s_budget t2 = s_budget s2 ->
  s_slow t1 = s_slow s1 -> s_slow t2 = s_slow s2 -> post s1 s2 t1 t2.
Proof.
  intros (Hp1 & Hp2 & Hb & Hl) ? ? ? ? ? ? ? ?. apply post_intro with (w := []); try congruence.
  - now rewrite app_nil_r.
  - now rewrite app_nil_r.
Qed.

Lemma rel1_write bs : rel1 (write bs).
Proof.
  intros s1 s2 (Hp1 & Hp2 & Hb & Hl). unfold write. rewrite <- Hb.
  destruct (s_budget s1) as [b|] eqn:E.
  - destruct (N.leb (N.of_nat (length bs)) b); cbn; (split; [reflexivity|]);
      eapply post_intro; cbn; try reflexivity; auto; try apply Hp1; try apply Hp2. all: congruence.
  - cbn. split; [reflexivity|]. eapply post_intro; cbn; try reflexivity; auto; try apply Hp1; try apply Hp2.
Qed.

Lemma st_with_bufs_id s : st_with_bufs s (s_bufs s) = s.
Proof. now destruct s. Qed.
Lemma st_with_sbufs_id s : st_with_sbufs s (s_sbufs s) = s.
Proof. now destruct s. Qed.

Lemma rel_pop_buf : rel2 (fun b1 b2 => fst b1 = [] /\ fst b2 = []) pop_buf pop_buf.
Proof.
  intros s1 s2 Hs. pose proof Hs as (Hp1 & Hp2 & Hb & Hl). unfold pop_buf.
  destruct Hp1 as (Hb1 & Hs1), Hp2 as (Hb2 & Hs2).
  assert (Hpost : forall l1 l2, Forall (fun b => fst b = []) l1 -> Forall (fun b => fst b = []) l2 ->
             post s1 s2 (st_with_bufs s1 l1) (st_with_bufs s2 l2)).
  { intros l1 l2 H1 H2. apply post_pools; auto; split; auto. }
  pose proof (Hpost (s_bufs s1) (s_bufs s2) Hb1 Hb2) as Hpost0. rewrite !st_with_bufs_id in Hpost0.
  pose proof (Hpost (s_bufs s1)) as HpostL. rewrite st_with_bufs_id in HpostL.
  pose proof (fun l1 H => Hpost l1 (s_bufs s2) H Hb2) as HpostR. rewrite st_with_bufs_id in HpostR.
  destruct (s_bufs s1) as [|[c1 cap1] t1] eqn:E1, (s_bufs s2) as [|[c2 cap2] t2] eqn:E2;
    repeat match goal with H : Forall _ (_ :: _) |- _ => inversion H; subst; clear H end;
    cbn [fst snd] in *; subst; cbn; (split; [auto|]); auto.
Qed.

Lemma rel_push_buf c1 c2 : rel2 eq (push_buf ([], c1)) (push_buf ([], c2)).
Proof.
  intros s1 s2 Hs. pose proof Hs as (Hp1 & Hp2 & Hb & Hl). unfold push_buf. cbn. split; auto.
  destruct Hp1, Hp2. apply post_pools; auto; split; cbn; auto.
Qed.

Lemma rel_pop_sbuf : rel2 (fun p1 p2 => fst p1 = [] /\ fst p2 = []) pop_sbuf pop_sbuf.
Proof.
  intros s1 s2 Hs. pose proof Hs as (Hp1 & Hp2 & Hb & Hl). unfold pop_sbuf.
  destruct Hp1 as (Hb1 & Hs1), Hp2 as (Hb2 & Hs2).
  assert (Hpost : forall l1 l2, Forall (fun b => b = []) l1 -> Forall (fun b => b = []) l2 ->
             post s1 s2 (st_with_sbufs s1 l1) (st_with_sbufs s2 l2)).
  { intros l1 l2 H1 H2. apply post_pools; auto; split; auto. }
  pose proof (Hpost (s_sbufs s1) (s_sbufs s2) Hs1 Hs2) as Hpost0. rewrite !st_with_sbufs_id in Hpost0.
  pose proof (Hpost (s_sbufs s1)) as HpostL. rewrite st_with_sbufs_id in HpostL.
  pose proof (fun l1 H => Hpost l1 (s_sbufs s2) H Hs2) as HpostR. rewrite st_with_sbufs_id in HpostR.
  destruct (s_sbufs s1) as [|c1 t1] eqn:E1, (s_sbufs s2) as [|c2 t2] eqn:E2;
    repeat match goal with H : Forall _ (_ :: _) |- _ => inversion H; subst; clear H end;
    cbn; (split; [auto|]); auto.
Qed.

Lemma rel_with_buffer {A} (R : A -> A -> Prop) start m1 m2 :
  rel2 R m1 m2 ->
  rel2 (fun x y => R (fst x) (fst y) /\ snd x = snd y) (with_buffer start m1) (with_buffer start m2).
Proof.
  intros H s1 s2 Hs. pose proof Hs as (Hp1 & Hp2 & Hb & Hl). unfold with_buffer.
  assert (Hs' : sim (st_with_out s1 start None) (st_with_out s2 start None)).
  { split; [|split; [|split]]; cbn; auto; split; try apply Hp1; try apply Hp2. }
  specialize (H _ _ Hs'). destruct (m1 _) as [r1 t1], (m2 _) as [r2 t2]. cbn [fst snd] in *.
  destruct H as (Hr & (Hs'' & Hl' & Hb' & w & E1 & E2)). cbn in E1, E2, Hl'.
  split.
  - destruct r1, r2; cbn in *; auto. split; auto. congruence.
  - destruct Hs'' as ((? & ?) & (? & ?) & ? & ?).
    apply post_pools; cbn; auto; try split; auto. congruence.
Qed.

Lemma rel1_slow_check : rel1 slow_check.
Proof.
  intros s1 s2 Hs. pose proof Hs as (Hp1 & Hp2 & Hb & Hl). unfold slow_check. rewrite <- Hl.
  destruct (s_slow s1); cbn; (split; [auto|now apply post_refl]).
Qed.

Create HintDb rel.
Ltac rel1_step :=
  match goal with
  | |- rel1 (sbind _ _) => apply rel1_bind; [|intros ?]
  | |- rel1 (write _) => apply rel1_write
  | |- rel1 (sret _) => apply rel1_ret
  | |- rel1 slow_check => apply rel1_slow_check
  | |- rel1 (fail _) => apply rel1_fail; exact I
  | |- rel1 (match ?x with _ => _ end) => destruct x
  | |- rel1 (if ?x then _ else _) => destruct x
  | |- rel1 (let (_, _) := ?x in _) => destruct x
  | |- rel1 _ => solve [auto with rel]
  end.
Ltac rel1_tac := cbv zeta; repeat rel1_step.

Lemma rel1_write_varint z : rel1 (write_varint z).
Proof. apply rel1_write. Qed.
#[global] Hint Resolve rel1_write_varint : rel.
Lemma rel1_usize n : rel1 (usize_to_i64 n).
Proof. unfold usize_to_i64. rel1_tac. Qed.
#[global] Hint Resolve rel1_usize : rel.
Lemma rel1_write_ld d : rel1 (write_ld d).
Proof. unfold write_ld. rel1_tac. Qed.
#[global] Hint Resolve rel1_write_ld : rel.
Lemma rel1_unnamed_step Sc ks key : rel1 (unnamed_step Sc ks key).
Proof. unfold unnamed_step. rel1_tac. Qed.
#[global] Hint Resolve rel1_unnamed_step : rel.
Lemma rel1_via_union {Sc n key leaf} : (forall n', rel1 (leaf n')) -> rel1 (via_union Sc n key leaf).
Proof. intro H. unfold via_union. destruct n; auto. rel1_tac; auto. Qed.
Lemma rel1_unit_variant_null Sc n ename variant m : rel1 m -> rel1 (unit_variant_null Sc n ename variant m).
Proof.
  intro H. unfold unit_variant_null. destruct n; auto.
  destruct (union_named Sc variants variant) as [[d k']|]; auto.
  destruct (fnode_at Sc k') as [[]|]; auto.
  match goal with |- context [if ?c then _ else _] => destruct c end; auto. apply rel1_write_varint.
Qed.
Lemma rel1_named_step Sc n nm : rel1 (named_step Sc n nm).
Proof. unfold named_step. rel1_tac. Qed.
#[global] Hint Resolve rel1_named_step : rel.
Lemma rel1_ser_decimal mode m s : rel1 (ser_decimal mode m s).
Proof. unfold ser_decimal. rel1_tac. Qed.
#[global] Hint Resolve rel1_ser_decimal : rel.
Lemma rel1_ser_int_decimal scale repr z : rel1 (ser_int_decimal scale repr z).
Proof. unfold ser_int_decimal. rel1_tac. Qed.
#[global] Hint Resolve rel1_ser_int_decimal : rel.
Lemma rel1_ser_int_leaf z n : rel1 (ser_int_leaf z n).
Proof. unfold ser_int_leaf. rel1_tac. Qed.
Lemma rel1_ser_str_leaf s n : rel1 (ser_str_leaf s n).
Proof. unfold ser_str_leaf. rel1_tac. Qed.
Lemma rel1_ser_bytes_leaf s n : rel1 (ser_bytes_leaf s n).
Proof. unfold ser_bytes_leaf. rel1_tac. Qed.
Lemma rel1_extract_u8 v : rel1 (extract_u8 v).
Proof. unfold extract_u8. rel1_tac. Qed.
Lemma rel1_extract_u32 v : rel1 (extract_u32 v).
Proof. unfold extract_u32. rel1_tac. Qed.
Lemma rel1_block_new l : rel1 (block_new l).
Proof. unfold block_new. rel1_tac. Qed.
Lemma rel1_block_next l : rel1 (block_next l).
Proof. unfold block_next. rel1_tac. Qed.
Lemma rel1_block_end l : rel1 (block_end l).
Proof. unfold block_end. rel1_tac. Qed.
#[global] Hint Resolve rel1_ser_int_leaf rel1_ser_str_leaf rel1_ser_bytes_leaf rel1_extract_u8
  rel1_extract_u32 rel1_block_new rel1_block_next rel1_block_end : rel.

(** ** record machinery *)
Definition rs_sim (a b : recstate) : Prop :=
  r_cur a = r_cur b /\ map (option_map fst) (r_bufs a) = map (option_map fst) (r_bufs b).

Lemma list_set_map {A B} (f : A -> B) l i v : map f (list_set l i v) = list_set (map f l) i (f v).
Proof. revert i; induction l as [|h t IH]; intros [|i]; cbn; auto. now rewrite IH. Qed.
Lemma map_repeat' {A B} (f : A -> B) x n : map f (repeat x n) = repeat (f x) n.
Proof. induction n; cbn; congruence. Qed.
Lemma resize_to_map {A B} (f : A -> B) l n d : map f (resize_to l n d) = resize_to (map f l) n (f d).
Proof. unfold resize_to. rewrite map_length. destruct (Nat.ltb _ _); auto. now rewrite map_app, map_repeat'. Qed.
Lemma list_set_length {A} (l : list A) i v : length (list_set l i v) = length l.
Proof. revert i; induction l as [|h t IH]; intros [|i]; cbn; auto. Qed.

Lemma rs_sim_nth a b i : rs_sim a b ->
  option_map (option_map fst) (nth_error (r_bufs a) i) = option_map (option_map fst) (nth_error (r_bufs b) i).
Proof.
  intros (_ & H). etransitivity; [symmetry; apply nth_error_map|].
  etransitivity; [|apply nth_error_map]. f_equal. exact H.
Qed.
Lemma rs_sim_length a b : rs_sim a b -> length (r_bufs a) = length (r_bufs b).
Proof. intros (_ & H). apply (f_equal (@length _)) in H. now rewrite !map_length in H. Qed.

Lemma flush_ready_eq f nf chk rs st :
  flush_ready (S f) nf chk rs st =
  (match nth_error (r_bufs rs) (r_cur rs) with
   | Some (Some (content, cap)) =>
       do* _ <- write content;
       do* _ <- push_buf ([], cap);
       if chk && negb (Nat.ltb (r_cur rs) nf) then fail (Panic PExpectedFieldsUnwrap)
       else flush_ready f nf chk (mkR (S (r_cur rs)) (list_set (r_bufs rs) (r_cur rs) None) (r_cap rs))
   | _ => sret rs
   end) st.
Proof.
  cbn [flush_ready]. destruct (nth_error (r_bufs rs) (r_cur rs)) as [[[c cap]|]|]; try reflexivity.
  unfold sbind. destruct (write c st) as [[] st1]; try reflexivity.
  cbn. destruct (chk && _); reflexivity.
Qed.

Lemma rel_flush_ready f nf chk : forall rs1 rs2, rs_sim rs1 rs2 ->
  rel2 rs_sim (flush_ready f nf chk rs1) (flush_ready f nf chk rs2).
Proof.
  induction f as [|f IH]; intros rs1 rs2 Hrs; [now apply rel2_ret|].
  eapply rel2_ext; [apply flush_ready_eq|apply flush_ready_eq|].
  pose proof (rs_sim_nth _ _ (r_cur rs1) Hrs) as Hn. pose proof Hrs as (Hc & Hm). rewrite <- Hc.
  destruct (nth_error (r_bufs rs1) (r_cur rs1)) as [[[c1 cap1]|]|],
           (nth_error (r_bufs rs2) (r_cur rs1)) as [[[c2 cap2]|]|]; cbn in Hn; try discriminate;
    try (now apply rel2_ret).
  injection Hn as <-.
  apply rel2_bind with (R := eq); [apply rel1_write|intros _ _ _].
  apply rel2_bind with (R := eq); [apply rel_push_buf|intros _ _ _].
  destruct (chk && _); [apply rel2_fail; exact I|].
  apply IH. split; cbn; auto. rewrite !list_set_map. now rewrite Hm.
Qed.

Lemma rel_record_end fuel Sc fields : forall rs1 rs2, rs_sim rs1 rs2 ->
  rel2 rs_sim (record_end fuel Sc fields rs1) (record_end fuel Sc fields rs2).
Proof.
  induction fuel as [|f IH]; intros rs1 rs2 Hrs; [now apply rel2_ret|].
  cbn [record_end]. pose proof Hrs as (Hc & Hm). rewrite <- Hc.
  destruct (nth_error fields (r_cur rs1)) as [[nm k]|]; [|now apply rel2_ret].
  assert (Hcont : rel2 rs_sim
    (do* rs' <- flush_ready (length fields) (length fields) false (mkR (S (r_cur rs1)) (r_bufs rs1) (r_cap rs1));
     record_end f Sc fields rs')
    (do* rs' <- flush_ready (length fields) (length fields) false (mkR (S (r_cur rs1)) (r_bufs rs2) (r_cap rs2));
     record_end f Sc fields rs')).
  { eapply rel2_bind; [apply rel_flush_ready; split; cbn; auto|]. intros a b Hab. now apply IH. }
  destruct (fnode_at Sc k) as [[]|]; try (apply rel2_fail; exact I); auto.
  destruct (union_unnamed Sc variants KNull) as [[d k']|]; try (apply rel2_fail; exact I).
  destruct (fnode_at Sc k') as [[]|]; try (apply rel2_fail; exact I).
  apply rel2_bind with (R := eq); [apply rel1_write_varint|intros _ _ _]. exact Hcont.
Qed.

Lemma record_value_eq serk fields rs idx k v' st :
  record_value serk fields rs idx k v' st =
  (if Nat.eqb idx (r_cur rs) then
      do* _ <- serk k v';
      if negb (Nat.ltb (r_cur rs) (length fields)) then fail (Panic PExpectedFieldsUnwrap) else
      flush_ready (length fields) (length fields) true (mkR (S (r_cur rs)) (r_bufs rs) (r_cap rs))
   else
      match nth_error (resize_to (r_bufs rs) (S idx) None) idx with
      | Some (Some _) => fail (Err EData)
      | _ =>
        do* b <- pop_buf;
        do* p <- with_buffer (fst b) (serk k v');
        sret (mkR (r_cur rs)
                  (list_set (resize_to (r_bufs rs) (S idx) None) idx
                     (Some (snd p, snd b || negb (Nat.eqb (length (snd p)) 0))))
                  (r_cap rs || Nat.ltb (length (r_bufs rs)) (S idx)))
      end) st.
Proof.
  unfold record_value. destruct (Nat.eqb idx (r_cur rs)); [reflexivity|].
  cbv zeta. cbn [r_cur r_cap].
  assert (E : forall st,
    match pop_buf st with
    | (Ok (start, cap), st1) =>
        match with_buffer start (serk k v') st1 with
        | (Ok (_, content), st2) =>
            (Ok (mkR (r_cur rs)
                  (list_set (resize_to (r_bufs rs) (S idx) None) idx
                     (Some (content, cap || negb (Nat.eqb (length content) 0))))
                  (r_cap rs || Nat.ltb (length (r_bufs rs)) (S idx))), st2)
        | (Err e, st2) => (Err e, st2)
        | (Panic p, st2) => (Panic p, st2)
        | (OutOfFuel, st2) => (OutOfFuel, st2)
        | (Unmodelled, st2) => (Unmodelled, st2)
        end
    | (Err e, st1) => (Err e, st1)
    | (Panic p, st1) => (Panic p, st1)
    | (OutOfFuel, st1) => (OutOfFuel, st1)
    | (Unmodelled, st1) => (Unmodelled, st1)
    end =
    (do* b <- pop_buf;
     do* p <- with_buffer (fst b) (serk k v');
     sret (mkR (r_cur rs)
               (list_set (resize_to (r_bufs rs) (S idx) None) idx
                  (Some (snd p, snd b || negb (Nat.eqb (length (snd p)) 0))))
               (r_cap rs || Nat.ltb (length (r_bufs rs)) (S idx)))) st).
  { intro s. unfold sbind. destruct (pop_buf s) as [[[start cap]| | | |] s1]; try reflexivity.
    cbn [fst snd]. destruct (with_buffer start (serk k v') s1) as [[[u content]| | | |] s2]; reflexivity. }
  destruct (nth_error _ idx) as [[|]|]; try reflexivity; apply E.
Qed.

Lemma rel_record_value serk fields idx k v' rs1 rs2 :
  rel1 (serk k v') -> rs_sim rs1 rs2 ->
  rel2 rs_sim (record_value serk fields rs1 idx k v') (record_value serk fields rs2 idx k v').
Proof.
  intros Hk Hrs. eapply rel2_ext; [apply record_value_eq|apply record_value_eq|].
  pose proof Hrs as (Hc & Hm). rewrite <- Hc.
  destruct (Nat.eqb idx (r_cur rs1)).
  - apply rel2_bind with (R := eq); [exact Hk|intros _ _ _].
    destruct (negb _); [apply rel2_fail; exact I|].
    apply rel_flush_ready. split; cbn; auto.
  - assert (Hrs' : rs_sim (mkR 0 (resize_to (r_bufs rs1) (S idx) None) false)
                          (mkR 0 (resize_to (r_bufs rs2) (S idx) None) false)).
    { split; cbn; auto. rewrite !resize_to_map. now rewrite Hm. }
    pose proof (rs_sim_nth _ _ idx Hrs') as Hn. cbn [r_bufs] in Hn.
    assert (Hgo : rel2 rs_sim
      (do* b <- pop_buf; do* p <- with_buffer (fst b) (serk k v');
       sret (mkR (r_cur rs1)
               (list_set (resize_to (r_bufs rs1) (S idx) None) idx
                  (Some (snd p, snd b || negb (Nat.eqb (length (snd p)) 0))))
               (r_cap rs1 || Nat.ltb (length (r_bufs rs1)) (S idx))))
      (do* b <- pop_buf; do* p <- with_buffer (fst b) (serk k v');
       sret (mkR (r_cur rs1)
               (list_set (resize_to (r_bufs rs2) (S idx) None) idx
                  (Some (snd p, snd b || negb (Nat.eqb (length (snd p)) 0))))
               (r_cap rs2 || Nat.ltb (length (r_bufs rs2)) (S idx))))).
    { eapply rel2_bind; [apply rel_pop_buf|]. intros [c1 cap1] [c2 cap2] (E1 & E2). cbn [fst snd] in *. subst c1 c2.
      eapply rel2_bind; [apply rel_with_buffer; exact Hk|]. intros p1 p2 (_ & Ep).
      apply rel2_ret. split; cbn; auto. rewrite !list_set_map, !resize_to_map. cbn. now rewrite Hm, Ep. }
    destruct (nth_error (resize_to (r_bufs rs1) (S idx) None) idx) as [[|]|],
             (nth_error (resize_to (r_bufs rs2) (S idx) None) idx) as [[|]|]; cbn in Hn; try discriminate;
      try exact Hgo; apply rel2_fail; exact I.
Qed.

Definition drop_mid {X} (t : sstate -> result X * recstate * sstate) : M X :=
  fun s => (fst (fst (t s)), snd (t s)).

Definition RT (x y : recstate * N * list (option N)) : Prop :=
  rs_sim (fst (fst x)) (fst (fst y)) /\ snd (fst x) = snd (fst y) /\ snd x = snd y.

Lemma rec_field_idx_cur fields rs1 rs2 nm :
  r_cur rs1 = r_cur rs2 -> rec_field_idx fields rs1 nm = rec_field_idx fields rs2 nm.
Proof. intro H. unfold rec_field_idx. now rewrite H. Qed.

Lemma rec_field_idx_panic fields rs nm p :
  rec_field_idx fields rs nm = Panic p -> p = PIndex \/ p = PRecordEqualArm.
Proof.
  unfold rec_field_idx. destruct (nth_error fields (r_cur rs)) as [[fn fs]|]; [|discriminate].
  destruct (bytes_eqb fn nm); [discriminate|]. destruct (field_index fields nm) as [idx|]; [|discriminate].
  destruct (Nat.ltb (r_cur rs) idx).
  - destruct (nth_error fields idx) as [[? ?]|]; [discriminate|]. intros [= <-]; auto.
  - destruct (Nat.ltb idx (r_cur rs)); [discriminate|]. intros [= <-]; auto.
Qed.

Lemma struct_fields_cons_record serk fields rs blk dur key v' rest st :
  drop_mid (struct_fields serk (RKRecord fields) rs blk dur ((key, v') :: rest)) st =
  (match rec_field_idx fields rs key with
   | Ok (idx, k) =>
       do* rs' <- record_value serk fields rs idx k v';
       drop_mid (struct_fields serk (RKRecord fields) rs' blk dur rest)
   | Err e => fail (Err e)
   | Panic p => fail (Panic p)
   | OutOfFuel => fail OutOfFuel
   | Unmodelled => fail Unmodelled
   end) st.
Proof.
  unfold drop_mid. cbn [struct_fields].
  destruct (rec_field_idx fields rs key) as [[idx k]| | | |]; try reflexivity.
  unfold sbind. destruct (record_value serk fields rs idx k v' st) as [[] st']; reflexivity.
Qed.

Lemma struct_fields_cons_map serk values rs blk dur key v' rest st :
  drop_mid (struct_fields serk (RKMap values) rs blk dur ((key, v') :: rest)) st =
  (do* blk' <- (do* blk' <- block_next blk;
                do* _ <- ser_str_leaf key FString;
                do* _ <- serk values v';
                sret blk');
   drop_mid (struct_fields serk (RKMap values) rs blk' dur rest)) st.
Proof.
  unfold drop_mid. cbn [struct_fields].
  match goal with |- context [sbind ?m ?f st] => generalize (sbind m f) end. intro m.
  unfold sbind. destruct (m st) as [[] st']; reflexivity.
Qed.

Lemma struct_fields_cons_duration serk rs blk dur key v' rest st :
  drop_mid (struct_fields serk RKDuration rs blk dur ((key, v') :: rest)) st =
  (match duration_field key with
   | None => fail (Err EData)
   | Some i =>
       match nth_error dur i with
       | Some (Some _) => fail (Err EData)
       | _ => do* x <- extract_u32 v';
              drop_mid (struct_fields serk RKDuration rs blk (list_set dur i (Some x)) rest)
       end
   end) st.
Proof.
  unfold drop_mid. cbn [struct_fields].
  destruct (duration_field key) as [i|]; [|reflexivity].
  destruct (nth_error dur i) as [[|]|]; try reflexivity;
    unfold sbind; destruct (extract_u32 v' st) as [[] st']; reflexivity.
Qed.

Lemma RT_refl_rs rs1 rs2 blk dur : rs_sim rs1 rs2 -> RT (rs1, blk, dur) (rs2, blk, dur).
Proof. intro H. split; auto. Qed.

Lemma rel_struct_fields serk kind : forall fs,
  Forall (fun f => forall k, rel1 (serk k (snd f))) fs ->
  forall rs1 rs2 blk dur, rs_sim rs1 rs2 ->
  rel2 RT (drop_mid (struct_fields serk kind rs1 blk dur fs)) (drop_mid (struct_fields serk kind rs2 blk dur fs)).
Proof.
  induction fs as [|[key v'] rest IH]; intros HF rs1 rs2 blk dur Hrs.
  - intros s1 s2 Hs. unfold drop_mid. cbn. split; [now apply RT_refl_rs|now apply post_refl].
  - inversion HF as [|? ? Hv HF']; subst. cbn [snd] in Hv. specialize (IH HF'). destruct kind as [fields|values|].
    + eapply rel2_ext; [apply struct_fields_cons_record|apply struct_fields_cons_record|].
      rewrite <- (rec_field_idx_cur fields rs1 rs2 key) by apply Hrs.
      destruct (rec_field_idx fields rs1 key) as [[idx k]|e|p| |] eqn:E; try (apply rel2_fail; exact I).
      * eapply rel2_bind; [apply rel_record_value; auto|]. intros a b Hab. now apply IH.
      * apply rel2_fail. apply rec_field_idx_panic in E. destruct E; subst; exact I.
    + eapply rel2_ext; [apply struct_fields_cons_map|apply struct_fields_cons_map|].
      apply rel2_bind with (R := eq).
      * change (rel1 (do* blk' <- block_next blk; do* _ <- ser_str_leaf key FString; do* _ <- serk values v'; sret blk')).
        rel1_tac.
      * intros a b <-. now apply IH.
    + eapply rel2_ext; [apply struct_fields_cons_duration|apply struct_fields_cons_duration|].
      destruct (duration_field key) as [i|]; [|apply rel2_fail; exact I].
      destruct (nth_error dur i) as [[|]|]; try (apply rel2_fail; exact I);
        (apply rel2_bind with (R := eq); [apply rel1_extract_u32|intros a b <-; now apply IH]).
Qed.

Definition rec_key_res (fields : list (bytes * nat)) (rs : recstate) (hint : option (nat * nat))
  (ko : option sval) : result (option (nat * nat)) :=
  match ko with
  | None => Ok hint
  | Some (SStr key) => rmap Some (rec_field_idx fields rs key)
  | Some _ => Err EData
  end.
Definition dur_key_res (hint : option (nat * nat)) (ko : option sval) : result (option (nat * nat)) :=
  match ko with
  | None => Ok hint
  | Some (SStr key) => match duration_field key with Some i => Ok (Some (i, O)) | None => Err EData end
  | Some _ => Err EData
  end.

Lemma map_calls_cons_record serk serstr fields rs blk dur hint ko vo rest st :
  drop_mid (map_calls serk serstr (RKRecord fields) rs blk dur hint ((ko, vo) :: rest)) st =
  (match rec_key_res fields rs hint ko with
   | Ok hint' =>
       match vo with
       | None => drop_mid (map_calls serk serstr (RKRecord fields) rs blk dur hint' rest)
       | Some v' =>
           match hint' with
           | None => fail (Panic PSerKeyBeforeValue)
           | Some (idx, k) =>
               do* rs' <- record_value serk fields rs idx k v';
               drop_mid (map_calls serk serstr (RKRecord fields) rs' blk dur None rest)
           end
       end
   | Err e => fail (Err e)
   | Panic p => fail (Panic p)
   | OutOfFuel => fail OutOfFuel
   | Unmodelled => fail Unmodelled
   end) st.
Proof.
  unfold drop_mid, rec_key_res. cbn [map_calls].
  assert (E : forall hint' : option (nat * nat),
    (fst (fst (match vo with
       | None => map_calls serk serstr (RKRecord fields) rs blk dur hint' rest st
       | Some v' =>
           match hint' with
           | None => (Panic PSerKeyBeforeValue, rs, st)
           | Some (idx, k) =>
               match record_value serk fields rs idx k v' st with
               | (Ok rs', st') => map_calls serk serstr (RKRecord fields) rs' blk dur None rest st'
               | (Err e, st') => (Err e, record_value_rs_on_error rs idx, st')
               | (Panic p, st') => (Panic p, record_value_rs_on_error rs idx, st')
               | (OutOfFuel, st') => (OutOfFuel, rs, st')
               | (Unmodelled, st') => (Unmodelled, rs, st')
               end
           end
       end)),
     snd (match vo with
       | None => map_calls serk serstr (RKRecord fields) rs blk dur hint' rest st
       | Some v' =>
           match hint' with
           | None => (Panic PSerKeyBeforeValue, rs, st)
           | Some (idx, k) =>
               match record_value serk fields rs idx k v' st with
               | (Ok rs', st') => map_calls serk serstr (RKRecord fields) rs' blk dur None rest st'
               | (Err e, st') => (Err e, record_value_rs_on_error rs idx, st')
               | (Panic p, st') => (Panic p, record_value_rs_on_error rs idx, st')
               | (OutOfFuel, st') => (OutOfFuel, rs, st')
               | (Unmodelled, st') => (Unmodelled, rs, st')
               end
           end
       end)) =
    (match vo with
       | None => drop_mid (map_calls serk serstr (RKRecord fields) rs blk dur hint' rest)
       | Some v' =>
           match hint' with
           | None => fail (Panic PSerKeyBeforeValue)
           | Some (idx, k) =>
               do* rs' <- record_value serk fields rs idx k v';
               drop_mid (map_calls serk serstr (RKRecord fields) rs' blk dur None rest)
           end
       end) st).
  { intro hint'. destruct vo as [v'|]; [|reflexivity]. destruct hint' as [[idx k]|]; [|reflexivity].
    unfold sbind, drop_mid. destruct (record_value serk fields rs idx k v' st) as [[] st']; reflexivity. }
  destruct ko as [k0|]; [|apply (E hint)].
  destruct k0; try reflexivity.
  unfold rmap, rbind. destruct (rec_field_idx fields rs s) as [a| | | |]; try reflexivity. apply (E (Some a)).
Qed.

Lemma map_calls_cons_map serk serstr values rs blk dur hint ko vo rest st :
  drop_mid (map_calls serk serstr (RKMap values) rs blk dur hint ((ko, vo) :: rest)) st =
  (do* blk' <- (do* blk' <- (match ko with
                              | Some k' => do* b <- block_next blk; do* _ <- serstr k'; sret b
                              | None => sret blk
                              end);
                do* _ <- (match vo with Some v' => serk values v' | None => sret tt end);
                sret blk');
   drop_mid (map_calls serk serstr (RKMap values) rs blk' dur hint rest)) st.
Proof.
  unfold drop_mid. cbn [map_calls].
  match goal with |- context [sbind ?m ?f st] => generalize (sbind m f) end. intro m.
  unfold sbind. destruct (m st) as [[] st']; reflexivity.
Qed.

Lemma map_calls_cons_duration serk serstr rs blk dur hint ko vo rest st :
  drop_mid (map_calls serk serstr RKDuration rs blk dur hint ((ko, vo) :: rest)) st =
  (match dur_key_res hint ko with
   | Ok hint' =>
       match vo with
       | None => drop_mid (map_calls serk serstr RKDuration rs blk dur hint' rest)
       | Some v' =>
           match hint' with
           | None => fail (Panic PSerKeyBeforeValue)
           | Some (i, _) =>
               match nth_error dur i with
               | Some (Some _) => fail (Err EData)
               | _ => do* x <- extract_u32 v';
                      drop_mid (map_calls serk serstr RKDuration rs blk (list_set dur i (Some x)) None rest)
               end
           end
       end
   | Err e => fail (Err e)
   | Panic p => fail (Panic p)
   | OutOfFuel => fail OutOfFuel
   | Unmodelled => fail Unmodelled
   end) st.
Proof.
  unfold drop_mid, dur_key_res. cbn [map_calls].
  assert (E : forall hint' : option (nat * nat),
    (fst (fst (match vo with
       | None => map_calls serk serstr RKDuration rs blk dur hint' rest st
       | Some v' =>
           match hint' with
           | None => (Panic PSerKeyBeforeValue, rs, st)
           | Some (i, _) =>
               match nth_error dur i with
               | Some (Some _) => (Err EData, rs, st)
               | _ =>
                   match extract_u32 v' st with
                   | (Ok x, st') => map_calls serk serstr RKDuration rs blk (list_set dur i (Some x)) None rest st'
                   | (Err e, st') => (Err e, rs, st')
                   | (Panic p, st') => (Panic p, rs, st')
                   | (OutOfFuel, st') => (OutOfFuel, rs, st')
                   | (Unmodelled, st') => (Unmodelled, rs, st')
                   end
               end
           end
       end)),
     snd (match vo with
       | None => map_calls serk serstr RKDuration rs blk dur hint' rest st
       | Some v' =>
           match hint' with
           | None => (Panic PSerKeyBeforeValue, rs, st)
           | Some (i, _) =>
               match nth_error dur i with
               | Some (Some _) => (Err EData, rs, st)
               | _ =>
                   match extract_u32 v' st with
                   | (Ok x, st') => map_calls serk serstr RKDuration rs blk (list_set dur i (Some x)) None rest st'
                   | (Err e, st') => (Err e, rs, st')
                   | (Panic p, st') => (Panic p, rs, st')
                   | (OutOfFuel, st') => (OutOfFuel, rs, st')
                   | (Unmodelled, st') => (Unmodelled, rs, st')
                   end
               end
           end
       end)) =
    (match vo with
       | None => drop_mid (map_calls serk serstr RKDuration rs blk dur hint' rest)
       | Some v' =>
           match hint' with
           | None => fail (Panic PSerKeyBeforeValue)
           | Some (i, _) =>
               match nth_error dur i with
               | Some (Some _) => fail (Err EData)
               | _ => do* x <- extract_u32 v';
                      drop_mid (map_calls serk serstr RKDuration rs blk (list_set dur i (Some x)) None rest)
               end
           end
       end) st).
  { intro hint'. destruct vo as [v'|]; [|reflexivity]. destruct hint' as [[i k]|]; [|reflexivity].
    destruct (nth_error dur i) as [[|]|]; try reflexivity;
      unfold sbind, drop_mid; destruct (extract_u32 v' st) as [[] st']; reflexivity. }
  destruct ko as [k0|]; [|apply (E hint)].
  destruct k0; try reflexivity.
  destruct (duration_field s) as [i|]; try reflexivity. apply (E (Some (i, O))).
Qed.

Lemma rec_key_res_cur fields rs1 rs2 hint ko :
  r_cur rs1 = r_cur rs2 -> rec_key_res fields rs1 hint ko = rec_key_res fields rs2 hint ko.
Proof. intro H. unfold rec_key_res. destruct ko as [[]|]; auto. now rewrite (rec_field_idx_cur _ _ _ _ H). Qed.
Lemma rec_key_res_panic fields rs hint ko p :
  rec_key_res fields rs hint ko = Panic p -> p = PIndex \/ p = PRecordEqualArm.
Proof.
  unfold rec_key_res. destruct ko as [[]|]; try discriminate.
  unfold rmap, rbind. destruct (rec_field_idx fields rs s) eqn:E; try discriminate.
  intros [= <-]. eapply rec_field_idx_panic; eauto.
Qed.
Lemma dur_key_res_panic hint ko p : dur_key_res hint ko <> Panic p.
Proof. unfold dur_key_res. destruct ko as [[]|]; try discriminate. destruct (duration_field s); discriminate. Qed.

Definition call_ok (P : sval -> Prop) (o : option sval) : Prop :=
  match o with Some x => P x | None => True end.

Lemma rel_map_calls serk serstr kind : forall calls,
  Forall (fun c => call_ok (fun k => rel1 (serstr k)) (fst c) /\
                   call_ok (fun v => forall k, rel1 (serk k v)) (snd c)) calls ->
  forall rs1 rs2 blk dur hint, rs_sim rs1 rs2 ->
  rel2 RT (drop_mid (map_calls serk serstr kind rs1 blk dur hint calls))
          (drop_mid (map_calls serk serstr kind rs2 blk dur hint calls)).
Proof.
  induction calls as [|[ko vo] rest IH]; intros HF rs1 rs2 blk dur hint Hrs.
  - intros s1 s2 Hs. unfold drop_mid. cbn. split; [now apply RT_refl_rs|now apply post_refl].
  - inversion HF as [|? ? [Hk Hv] HF']; subst. cbn [fst snd] in Hk, Hv. specialize (IH HF').
    destruct kind as [fields|values|].
    + eapply rel2_ext; [apply map_calls_cons_record|apply map_calls_cons_record|].
      rewrite <- (rec_key_res_cur fields rs1 rs2 hint ko) by apply Hrs.
      destruct (rec_key_res fields rs1 hint ko) as [hint'|e|p| |] eqn:E; try (apply rel2_fail; exact I).
      * destruct vo as [v'|]; [|now apply IH].
        destruct hint' as [[idx k]|]; [|apply rel2_fail; exact I].
        eapply rel2_bind; [apply rel_record_value; auto; apply Hv|]. intros a b Hab. now apply IH.
      * apply rel2_fail. apply rec_key_res_panic in E. destruct E; subst; exact I.
    + eapply rel2_ext; [apply map_calls_cons_map|apply map_calls_cons_map|].
      apply rel2_bind with (R := eq).
      * match goal with |- rel2 eq ?m ?m => change (rel1 m) end.
        destruct ko, vo; cbn in Hk, Hv; rel1_tac; auto.
      * intros a b <-. now apply IH.
    + eapply rel2_ext; [apply map_calls_cons_duration|apply map_calls_cons_duration|].
      destruct (dur_key_res hint ko) as [hint'|e|p| |] eqn:E; try (apply rel2_fail; exact I).
      * destruct vo as [v'|]; [|now apply IH].
        destruct hint' as [[i k]|]; [|apply rel2_fail; exact I].
        destruct (nth_error dur i) as [[|]|]; try (apply rel2_fail; exact I);
        (apply rel2_bind with (R := eq); [apply rel1_extract_u32|intros a b <-; now apply IH]).
      * exfalso. eapply dur_key_res_panic; eauto.
Qed.

Lemma fold_left_returned_ok (l : list (option buf)) : forall acc,
  Forall (fun b : buf => fst b = []) acc ->
  Forall (fun b : buf => fst b = [])
    (fold_left (fun acc o => match o with Some (_, cap) => ([], cap) :: acc | None => acc end) l acc).
Proof.
  induction l as [|[[c cap]|] t IH]; intros acc H; cbn; auto.
Qed.

Lemma record_drop_post rs1 rs2 t1 t2 :
  sim t1 t2 -> post t1 t2 (snd (record_drop rs1 t1)) (snd (record_drop rs2 t2)).
Proof.
  intros Hs. pose proof Hs as ((Hb1 & Hs1) & (Hb2 & Hs2) & Hb & Hl). unfold record_drop.
  destruct (r_cap rs1), (r_cap rs2); cbn [snd]; apply post_pools; cbn; auto; split; cbn; auto;
    apply fold_left_returned_ok; auto.
Qed.

Lemma rel2_after {A} (R : A -> A -> Prop) (m1 m2 : M A) s1 s2 u1 u2 :
  post s1 s2 u1 u2 -> rel2 R m1 m2 ->
  rres R (fst (m1 u1)) (fst (m2 u2)) /\ post s1 s2 (snd (m1 u1)) (snd (m2 u2)).
Proof.
  intros Hp H. destruct (H u1 u2 (proj1 Hp)) as (Hr & Hp'). split; auto. eapply post_trans; eauto.
Qed.

Lemma existsb_some_sim a b : rs_sim a b ->
  existsb (fun o : option buf => match o with Some _ => true | None => false end) (r_bufs a) =
  existsb (fun o : option buf => match o with Some _ => true | None => false end) (r_bufs b).
Proof.
  intros (_ & H). revert H. generalize (r_bufs a) (r_bufs b).
  induction l as [|[x|] l IH]; intros [|[y|] l']; cbn; try discriminate; auto; intros [= E]; auto.
Qed.

Lemma post_drop s1 s2 u1 u2 rs1 rs2 :
  post s1 s2 u1 u2 -> post s1 s2 (snd (record_drop rs1 u1)) (snd (record_drop rs2 u2)).
Proof. intro Hp. eapply post_trans; [exact Hp|]. apply record_drop_post. apply Hp. Qed.

Lemma rel_finish Sc kind t1 t2 :
  rel2 RT (drop_mid t1) (drop_mid t2) ->
  rel2 eq (fun st => finish Sc kind (t1 st)) (fun st => finish Sc kind (t2 st)).
Proof.
  intros H s1 s2 Hs. destruct (H s1 s2 Hs) as (Hr & Hp). unfold drop_mid in Hr, Hp. cbn [fst snd] in Hr, Hp.
  destruct (t1 s1) as [[r1 d1] u1], (t2 s2) as [[r2 d2] u2]. cbn [fst snd] in Hr, Hp.
  unfold finish. destruct kind as [fields|values|].
  - destruct r1 as [[[rs1 b1] dd1]| | | |], r2 as [[[rs2 b2] dd2]| | | |]; cbn in Hr; try contradiction;
      try (cbn [fst snd]; split; [cbn; auto|]; auto using post_drop; fail).
    destruct Hr as (Hrs & _ & _). cbn [fst] in Hrs.
    destruct (rel2_after _ _ _ _ _ _ _ Hp (rel_record_end (S (length fields)) Sc fields rs1 rs2 Hrs)) as (Hr' & Hp').
    destruct (record_end _ Sc fields rs1 u1) as [r1' v1], (record_end _ Sc fields rs2 u2) as [r2' v2].
    cbn [fst snd] in Hr', Hp'.
    destruct r1' as [rs1'| | | |], r2' as [rs2'| | | |]; cbn in Hr'; try contradiction;
      try (cbn [fst snd]; split; [cbn; auto|]; auto using post_drop; fail).
    rewrite (existsb_some_sim _ _ Hr'). destruct (existsb _ _); cbn [fst snd];
      (split; [cbn; auto|]; auto using post_drop). split; auto; discriminate.
  - destruct r1 as [[[rs1 b1] dd1]| | | |], r2 as [[[rs2 b2] dd2]| | | |]; cbn in Hr; try contradiction;
      try (cbn [fst snd]; split; [cbn; auto|]; auto; fail).
    destruct Hr as (_ & Hb & _). cbn in Hb. subst b2.
    apply (rel2_after _ _ _ _ _ _ _ Hp (rel1_block_end b1)).
  - destruct r1 as [[[rs1 b1] dd1]| | | |], r2 as [[[rs2 b2] dd2]| | | |]; cbn in Hr; try contradiction;
      try (cbn [fst snd]; split; [cbn; auto|]; auto; fail).
    destruct Hr as (_ & _ & Hd). cbn in Hd. subst dd2.
    destruct dd1 as [|[a|] [|[b|] [|[c|] [|]]]]; try (cbn [fst snd]; split; [cbn; auto|]; auto; fail).
    apply (rel2_after _ _ _ _ _ _ _ Hp (rel1_write _)).
Qed.

Lemma rel_record_new : rel2 rs_sim record_new record_new.
Proof.
  unfold record_new. eapply rel2_bind; [apply rel_pop_sbuf|]. intros p1 p2 (E1 & E2).
  apply rel2_ret. split; cbn; auto. now rewrite E1, E2.
Qed.

Lemma rel_start_kind Sc b l n' run :
  (forall kind rs1 rs2 blk, rs_sim rs1 rs2 ->
     rel2 RT (drop_mid (run kind rs1 blk)) (drop_mid (run kind rs2 blk))) ->
  rel1 (start_kind Sc b l n' run).
Proof.
  intro H. unfold start_kind. destruct n'; try (apply rel1_fail; exact I).
  - apply rel1_bind; [apply rel1_block_new|]. intro blk.
    apply (rel_finish Sc (RKMap values) (run (RKMap values) (mkR 0 [] false) blk)
             (run (RKMap values) (mkR 0 [] false) blk)). apply H. split; auto.
  - eapply rel2_bind; [apply rel_record_new|]. intros rs1 rs2 Hrs.
    apply (rel_finish Sc (RKRecord fields) (run (RKRecord fields) rs1 0%N) (run (RKRecord fields) rs2 0%N)).
    now apply H.
  - destruct b; [|apply rel1_fail; exact I].
    apply (rel_finish Sc RKDuration (run RKDuration (mkR 0 [] false) 0%N) (run RKDuration (mkR 0 [] false) 0%N)).
    apply H. split; auto.
Qed.

(** ** sequences *)
Definition arr_go (serk : nat -> sval -> M unit) (items : nat) :=
  fix go (blk : N) (vs : list sval) {struct vs} : M N :=
    match vs with
    | [] => sret blk
    | v' :: rest => do* b <- block_next blk; do* _ <- serk items v'; go b rest
    end.
Definition dur_go :=
  fix go (cnt : nat) (vs : list sval) {struct vs} : M nat :=
    match vs with
    | [] => sret cnt
    | v' :: rest =>
        if Nat.leb 3 cnt then fail (Err EData)
        else do* x <- extract_u32 v'; do* _ <- write (le_bytes 4 x); go (S cnt) rest
    end.
Definition collect_go :=
  fix go (acc : bytes) (vs : list sval) {struct vs} : M bytes :=
    match vs with
    | [] => sret acc
    | v' :: rest => do* x <- extract_u8 v'; go (acc ++ [x]) rest
    end.
Definition bytes_go :=
  fix go (remaining : N) (vs : list sval) {struct vs} : M N :=
    match vs with
    | [] => sret remaining
    | v' :: rest =>
        if N.eqb remaining 0 then fail (Err EData)
        else do* x <- extract_u8 v'; do* _ <- write [x]; go (remaining - 1)%N rest
    end.

Lemma rel1_arr_go serk items : forall vs, Forall (fun v => forall k, rel1 (serk k v)) vs ->
  forall blk, rel1 (arr_go serk items blk vs).
Proof.
  induction vs as [|v vs IH]; intros HF blk; cbn [arr_go]; [apply rel1_ret|].
  inversion HF; subst. rel1_tac; auto.
Qed.
Lemma rel1_dur_go : forall vs cnt, rel1 (dur_go cnt vs).
Proof. induction vs as [|v vs IH]; intro cnt; cbn [dur_go]; rel1_tac; auto. Qed.
Lemma rel1_collect_go : forall vs acc, rel1 (collect_go acc vs).
Proof. induction vs as [|v vs IH]; intro acc; cbn [collect_go]; rel1_tac; auto. Qed.
Lemma rel1_bytes_go : forall vs r, rel1 (bytes_go r vs).
Proof. induction vs as [|v vs IH]; intro r; cbn [bytes_go]; rel1_tac; auto. Qed.

Lemma post_maybe_push s1 s2 t1 t2 (c1 c1' c2 c2' : bool) :
  post s1 s2 t1 t2 ->
  post s1 s2 (if c1 then snd (push_buf ([], c1') t1) else t1) (if c2 then snd (push_buf ([], c2') t2) else t2).
Proof.
  intro Hp. eapply post_trans; [exact Hp|]. pose proof (proj1 Hp) as Hs.
  pose proof Hs as ((Hb1 & Hs1) & (Hb2 & Hs2) & Hb & Hl).
  destruct c1, c2; cbn [snd push_buf]; apply post_pools; cbn; auto; split; cbn; auto.
Qed.

Lemma rel_seq_leaf serk len vs n' :
  Forall (fun v => forall k, rel1 (serk k v)) vs -> rel1 (seq_leaf serk len vs n').
Proof.
  intro HF. unfold seq_leaf. destruct n'; try (apply rel1_fail; exact I).
  - (* FBytes *)
    apply rel1_bind; [apply rel1_slow_check|intros _].
    destruct len as [l|].
    + apply rel1_bind; [apply rel1_usize|intro li].
      apply rel1_bind; [apply rel1_write_varint|intros _].
      apply rel1_bind; [apply (rel1_bytes_go vs l)|intro r]. rel1_tac.
    + eapply rel2_bind; [apply rel_pop_buf|]. intros b1 b2 _.
      intros s1 s2 Hs. cbv zeta.
      destruct (rel1_collect_go vs [] s1 s2 Hs) as (Hr & Hp).
      change (fix go (acc : bytes) (vs : list sval) {struct vs} : M bytes :=
                match vs with
                | [] => sret acc
                | v' :: rest => do* x <- extract_u8 v'; go (acc ++ [x]) rest
                end) with collect_go.
      destruct (collect_go [] vs s1) as [r1 u1], (collect_go [] vs s2) as [r2 u2]. cbn [fst snd] in Hr, Hp.
      destruct r1 as [c1| | | |], r2 as [c2| | | |]; cbn in Hr; try contradiction;
        try (cbn [fst snd]; split; [cbn; auto|apply post_maybe_push; exact Hp]).
      subst c2. destruct (rel2_after _ _ _ _ _ _ _ Hp (rel1_write_ld c1)) as (Hr' & Hp').
      destruct (write_ld c1 u1) as [r1' v1], (write_ld c1 u2) as [r2' v2]. cbn [fst snd] in *.
      split; [exact Hr'|apply post_maybe_push; exact Hp'].
  - (* FArray *)
    apply rel1_bind; [apply rel1_block_new|intro blk].
    apply rel1_bind; [apply (rel1_arr_go serk items vs HF blk)|intro blk']. apply rel1_block_end.
  - (* FFixed *)
    apply rel1_bind; [apply rel1_slow_check|intros _].
    destruct (match len with Some l => negb (N.eqb l size) | None => false end); [apply rel1_fail; exact I|].
    apply rel1_bind; [apply (rel1_bytes_go vs size)|intro r]. rel1_tac.
  - (* FDuration *)
    destruct (match len with Some l => negb (N.eqb l 3) | None => false end); [apply rel1_fail; exact I|].
    apply rel1_bind; [apply (rel1_dur_go vs 0)|intro r]. rel1_tac.
Qed.

(** ** induction on serializer call trees *)
Section SvalInd.
  Variable P : sval -> Prop.
  Hypothesis HBool : forall b, P (SBool b).
  Hypothesis HInt : forall s w z, P (SInt s w z).
  Hypothesis HF32 : forall b, P (SF32 b).
  Hypothesis HF64 : forall b n, P (SF64 b n).
  Hypothesis HChar : forall c, P (SChar c).
  Hypothesis HStr : forall s, P (SStr s).
  Hypothesis HBytes : forall s, P (SBytes s).
  Hypothesis HNone : P SNone.
  Hypothesis HSome : forall v, P v -> P (SSome v).
  Hypothesis HUnit : P SUnit.
  Hypothesis HUnitStruct : forall n, P (SUnitStruct n).
  Hypothesis HUnitVariant : forall e i v, P (SUnitVariant e i v).
  Hypothesis HNewtypeStruct : forall n v, P v -> P (SNewtypeStruct n v).
  Hypothesis HNewtypeVariant : forall e i vn v, P v -> P (SNewtypeVariant e i vn v).
  Hypothesis HSeq : forall len vs, Forall P vs -> P (SSeq len vs).
  Hypothesis HTuple : forall vs, Forall P vs -> P (STuple vs).
  Hypothesis HTupleStruct : forall n vs, Forall P vs -> P (STupleStruct n vs).
  Hypothesis HTupleVariant : forall e i vn vs, Forall P vs -> P (STupleVariant e i vn vs).
  Hypothesis HMap : forall len calls,
    Forall (fun c => call_ok P (fst c) /\ call_ok P (snd c)) calls -> P (SMap len calls).
  Hypothesis HStruct : forall n len fs, Forall (fun f => P (snd f)) fs -> P (SStruct n len fs).
  Hypothesis HStructVariant : forall e i vn len fs,
    Forall (fun f => P (snd f)) fs -> P (SStructVariant e i vn len fs).
  Hypothesis HFail : P SFail.

  Fixpoint sval_ind2 (v : sval) : P v :=
    let list_rec := fix go (l : list sval) : Forall P l :=
      match l with [] => Forall_nil _ | x :: t => Forall_cons _ (sval_ind2 x) (go t) end in
    let fields_rec := fix go (l : list (bytes * sval)) : Forall (fun f => P (snd f)) l :=
      match l with
      | [] => Forall_nil _
      | (nm, x) :: t => Forall_cons (P := fun f => P (snd f)) (nm, x) (sval_ind2 x) (go t)
      end in
    let opt_rec := fun o : option sval =>
      match o return call_ok P o with Some x => sval_ind2 x | None => I end in
    let calls_rec := fix go (l : list (option sval * option sval))
        : Forall (fun c => call_ok P (fst c) /\ call_ok P (snd c)) l :=
      match l with
      | [] => Forall_nil _
      | (ko, vo) :: t =>
          Forall_cons (P := fun c => call_ok P (fst c) /\ call_ok P (snd c)) (ko, vo)
            (conj (opt_rec ko) (opt_rec vo)) (go t)
      end in
    match v with
    | SBool b => HBool b
    | SInt s w z => HInt s w z
    | SF32 b => HF32 b
    | SF64 b n => HF64 b n
    | SChar c => HChar c
    | SStr s => HStr s
    | SBytes s => HBytes s
    | SNone => HNone
    | SSome v => HSome v (sval_ind2 v)
    | SUnit => HUnit
    | SUnitStruct n => HUnitStruct n
    | SUnitVariant e i v => HUnitVariant e i v
    | SNewtypeStruct n v => HNewtypeStruct n v (sval_ind2 v)
    | SNewtypeVariant e i vn v => HNewtypeVariant e i vn v (sval_ind2 v)
    | SSeq len vs => HSeq len vs (list_rec vs)
    | STuple vs => HTuple vs (list_rec vs)
    | STupleStruct n vs => HTupleStruct n vs (list_rec vs)
    | STupleVariant e i vn vs => HTupleVariant e i vn vs (list_rec vs)
    | SMap len calls => HMap len calls (calls_rec calls)
    | SStruct n len fs => HStruct n len fs (fields_rec fs)
    | SStructVariant e i vn len fs => HStructVariant e i vn len fs (fields_rec fs)
    | SFail => HFail
    end.
End SvalInd.

(** unfolding equations of [ser] *)
Definition at_key (Sc : fschema) (k : nat) (v' : sval) : M unit :=
  match fnode_at Sc k with None => fail (Panic PIndex) | Some n' => ser Sc n' v' end.

Lemma ser_SSeq Sc n len vs :
  ser Sc n (SSeq len vs) = via_union Sc n KSeqOrTupleOrTupleStruct (seq_leaf (at_key Sc) len vs).
Proof. reflexivity. Qed.
Lemma ser_STuple Sc n vs :
  ser Sc n (STuple vs) =
  via_union Sc n KSeqOrTupleOrTupleStruct (seq_leaf (at_key Sc) (Some (N.of_nat (length vs))) vs).
Proof. reflexivity. Qed.
Lemma ser_STupleStruct Sc n nm vs :
  ser Sc n (STupleStruct nm vs) =
  via_union Sc n KSeqOrTupleOrTupleStruct (seq_leaf (at_key Sc) (Some (N.of_nat (length vs))) vs).
Proof. reflexivity. Qed.
Lemma ser_STupleVariant Sc n e i variant vs :
  ser Sc n (STupleVariant e i variant vs) =
  (do* n' <- named_step Sc n variant;
   via_union Sc n' KSeqOrTupleOrTupleStruct (seq_leaf (at_key Sc) (Some (N.of_nat (length vs))) vs)).
Proof. reflexivity. Qed.
Lemma ser_SMap Sc n len calls :
  ser Sc n (SMap len calls) =
  via_union Sc n KStructOrMap (fun n' =>
    start_kind Sc (match len with Some l => N.eqb l 3 | None => true end)
               (match len with Some l => l | None => 0%N end) n'
               (fun kind rs blk => map_calls (at_key Sc) (ser Sc FString) kind rs blk [None; None; None] None calls)).
Proof. reflexivity. Qed.
Lemma ser_SStruct Sc n nm len fs :
  ser Sc n (SStruct nm len fs) =
  (do* n' <- named_step Sc n nm;
   via_union Sc n' KStructOrMap (fun n'' =>
     start_kind Sc (N.eqb len 3) len n''
                (fun kind rs blk => struct_fields (at_key Sc) kind rs blk [None; None; None] fs))).
Proof. reflexivity. Qed.
Lemma ser_SStructVariant Sc n e i variant len fs :
  ser Sc n (SStructVariant e i variant len fs) =
  (do* n' <- named_step Sc n variant;
   via_union Sc n' KStructOrMap (fun n'' =>
     start_kind Sc (N.eqb len 3) len n''
                (fun kind rs blk => struct_fields (at_key Sc) kind rs blk [None; None; None] fs))).
Proof. reflexivity. Qed.

Lemma rel1_at_key Sc k v : (forall n, rel1 (ser Sc n v)) -> rel1 (at_key Sc k v).
Proof. intro H. unfold at_key. destruct (fnode_at Sc k); auto. apply rel1_fail; exact I. Qed.

Theorem ser_rel Sc : forall v n, rel1 (ser Sc n v).
Proof.
  induction v using sval_ind2; intro n0;
    try (cbn [ser]; try apply rel1_unit_variant_null; repeat (apply rel1_via_union; intro); rel1_tac; fail).
  - rewrite ser_SSeq. apply rel1_via_union; intro. apply rel_seq_leaf.
    eapply Forall_impl; [|exact H]. intros v Hv k. now apply rel1_at_key.
  - rewrite ser_STuple. apply rel1_via_union; intro. apply rel_seq_leaf.
    eapply Forall_impl; [|exact H]. intros v Hv k. now apply rel1_at_key.
  - rewrite ser_STupleStruct. apply rel1_via_union; intro. apply rel_seq_leaf.
    eapply Forall_impl; [|exact H]. intros v Hv k. now apply rel1_at_key.
  - rewrite ser_STupleVariant. apply rel1_bind; [apply rel1_named_step|intro].
    apply rel1_via_union; intro. apply rel_seq_leaf.
    eapply Forall_impl; [|exact H]. intros v Hv k. now apply rel1_at_key.
  - rewrite ser_SMap. apply rel1_via_union; intro. apply rel_start_kind.
    intros kind rs1 rs2 blk Hrs. apply rel_map_calls; auto.
    eapply Forall_impl; [|exact H]. intros [ko vo] [Hk Hv]. cbn [fst snd] in *. split.
    + destruct ko; cbn in *; auto.
    + destruct vo; cbn in *; auto. intro k. now apply rel1_at_key.
  - rewrite ser_SStruct. apply rel1_bind; [apply rel1_named_step|intro].
    apply rel1_via_union; intro. apply rel_start_kind.
    intros kind rs1 rs2 blk Hrs. apply rel_struct_fields; auto.
    eapply Forall_impl; [|exact H]. intros [nm v] Hv k. now apply rel1_at_key.
  - rewrite ser_SStructVariant. apply rel1_bind; [apply rel1_named_step|intro].
    apply rel1_via_union; intro. apply rel_start_kind.
    intros kind rs1 rs2 blk Hrs. apply rel_struct_fields; auto.
    eapply Forall_impl; [|exact H]. intros [nm v] Hv k. now apply rel1_at_key.
Qed.

(** ** the two statements about the pools *)
Theorem ser_pool_inv : forall Sc n v st r st',
  pool_ok st -> ser Sc n v st = (r, st') ->
  pool_ok st' /\ (forall p, r = Panic p -> p <> PPoolAssert).
Proof.
  intros Sc n v st r st' Hp E.
  assert (Hs : sim st st) by (split; [|split; [|split]]; auto).
  destruct (ser_rel Sc v n st st Hs) as (Hr & Hpost). rewrite E in Hr, Hpost. cbn [fst snd] in *.
  split; [apply Hpost|]. intros p ->. cbn in Hr. apply Hr.
Qed.

Theorem ser_pool_indep : forall Sc n v st1 st2,
  pool_ok st1 -> pool_ok st2 -> s_budget st1 = None -> s_budget st2 = None -> s_slow st1 = s_slow st2 ->
  let '(r1, t1) := ser Sc n v st1 in
  let '(r2, t2) := ser Sc n v st2 in
  r1 = r2 /\ (exists w, s_out t1 = s_out st1 ++ w /\ s_out t2 = s_out st2 ++ w).
Proof.
  intros Sc n v st1 st2 Hp1 Hp2 Hb1 Hb2 Hl.
  assert (Hs : sim st1 st2) by (split; [|split; [|split]]; auto; congruence).
  destruct (ser_rel Sc v n st1 st2 Hs) as (Hr & Hpost).
  destruct (ser Sc n v st1) as [r1 t1], (ser Sc n v st2) as [r2 t2]. cbn [fst snd] in *.
  split; [|apply Hpost].
  destruct r1 as [[]| | | |], r2 as [[]| | | |]; cbn in Hr; try contradiction; auto; try congruence.
  destruct Hr; congruence.
Qed.

(* the same with an arbitrary (equal) sink budget, and the facts about the rest of the state *)
Theorem ser_pool_indep_budget : forall Sc n v st1 st2,
  pool_ok st1 -> pool_ok st2 -> s_budget st1 = s_budget st2 -> s_slow st1 = s_slow st2 ->
  let '(r1, t1) := ser Sc n v st1 in
  let '(r2, t2) := ser Sc n v st2 in
  r1 = r2 /\ pool_ok t1 /\ pool_ok t2 /\ s_budget t1 = s_budget t2 /\
  s_slow t1 = s_slow st1 /\ s_slow t2 = s_slow st2 /\ (s_budget st1 = None -> s_budget t1 = None) /\
  (exists w, s_out t1 = s_out st1 ++ w /\ s_out t2 = s_out st2 ++ w).
Proof.
  intros Sc n v st1 st2 Hp1 Hp2 Hb Hl.
  assert (Hs : sim st1 st2) by (split; [|split; [|split]]; auto; congruence).
  destruct (ser_rel Sc v n st1 st2 Hs) as (Hr & Hpost).
  destruct (ser Sc n v st1) as [r1 t1], (ser Sc n v st2) as [r2 t2]. cbn [fst snd] in *.
  destruct Hpost as ((? & ? & ? & ?) & ? & ? & ?).
  repeat (split; [try assumption; try congruence|]); [|assumption].
  destruct r1 as [[]| | | |], r2 as [[]| | | |]; cbn in Hr; try contradiction; auto; try congruence.
  destruct Hr; congruence.
Qed.

(** * Part 2: the record panic sites are unreachable *)

Lemma bytes_eqb_eq a b : bytes_eqb a b = true <-> a = b.
Proof.
  unfold bytes_eqb. revert b; induction a as [|x a IH]; intros [|y b]; cbn; split; try discriminate; auto.
  - intro H. apply andb_prop in H as [Hl H]. apply andb_prop in H as [Hxy H].
    apply N.eqb_eq in Hxy. subst y. f_equal. apply IH. now rewrite Hl, H.
  - intros [= <- <-]. specialize (IH a). destruct IH as [_ IH]. specialize (IH eq_refl).
    apply andb_prop in IH as [Hl H]. now rewrite Hl, N.eqb_refl, H.
Qed.
Lemma bytes_eqb_refl a : bytes_eqb a a = true.
Proof. now apply bytes_eqb_eq. Qed.
Lemma bytes_eqb_neq a b : bytes_eqb a b = false <-> a <> b.
Proof.
  split.
  - intros H E. apply bytes_eqb_eq in E. congruence.
  - intro H. destruct (bytes_eqb a b) eqn:E; auto. apply bytes_eqb_eq in E. contradiction.
Qed.

Lemma iol_from_some x l : forall i acc j,
  index_of_last_from x l i acc = Some j -> acc = Some j \/ (i <= j /\ nth_error l (j - i) = Some x).
Proof.
  induction l as [|y t IH]; intros i acc j H; cbn in H; auto.
  apply IH in H. destruct H as [H|[Hle H]].
  - destruct (bytes_eqb x y) eqn:E; auto. injection H as <-. right. split; auto.
    rewrite Nat.sub_diag. cbn. apply bytes_eqb_eq in E. now subst.
  - right. split; [lia|]. replace (j - i) with (S (j - S i)) by lia. exact H.
Qed.
Lemma iol_from_none x l : forall i acc,
  index_of_last_from x l i acc = None -> acc = None /\ ~ In x l.
Proof.
  induction l as [|y t IH]; intros i acc H; cbn in H; auto.
  apply IH in H. destruct H as [H Hn]. destruct (bytes_eqb x y) eqn:E; [discriminate|].
  split; auto. intros [->|Hi]; auto. now rewrite bytes_eqb_refl in E.
Qed.
Lemma index_of_last_some x l j : index_of_last x l = Some j -> nth_error l j = Some x.
Proof.
  intro H. apply iol_from_some in H. destruct H as [H|[_ H]]; [discriminate|]. now rewrite Nat.sub_0_r in H.
Qed.
Lemma index_of_last_none x l : index_of_last x l = None -> ~ In x l.
Proof. intro H. now apply iol_from_none in H. Qed.

Lemma field_index_some fields nm idx :
  field_index fields nm = Some idx -> exists k, nth_error fields idx = Some (nm, k).
Proof.
  unfold field_index. intro H. apply index_of_last_some in H.
  rewrite nth_error_map in H. destruct (nth_error fields idx) as [[n k]|]; [|discriminate].
  cbn in H. injection H as ->. eauto.
Qed.

(* what field_idx returns: the current index or a later one, never the Equal arm *)
Lemma rec_field_idx_ok fields rs nm idx k :
  rec_field_idx fields rs nm = Ok (idx, k) ->
  (idx = r_cur rs \/ r_cur rs < idx) /\ nth_error fields idx = Some (nm, k).
Proof.
  unfold rec_field_idx. destruct (nth_error fields (r_cur rs)) as [[fn fk]|] eqn:E0; [|discriminate].
  destruct (bytes_eqb fn nm) eqn:E1.
  - intros [= <- <-]. apply bytes_eqb_eq in E1. subst. auto.
  - destruct (field_index fields nm) as [i|] eqn:E2; [|discriminate].
    destruct (Nat.ltb_spec (r_cur rs) i).
    + apply field_index_some in E2 as (k' & E2). rewrite E2. intros [= <- <-]. auto.
    + destruct (Nat.ltb i (r_cur rs)); discriminate.
Qed.
Lemma rec_field_idx_panic' fields rs nm p : rec_field_idx fields rs nm = Panic p -> p = PIndex.
Proof.
  unfold rec_field_idx. destruct (nth_error fields (r_cur rs)) as [[fn fk]|] eqn:E0; [|discriminate].
  destruct (bytes_eqb fn nm) eqn:E1; [discriminate|].
  destruct (field_index fields nm) as [i|] eqn:E2; [|discriminate].
  destruct (Nat.ltb_spec (r_cur rs) i).
  - destruct (nth_error fields i) as [[? ?]|]; [discriminate|]. now intros [= <-].
  - destruct (Nat.ltb_spec i (r_cur rs)); [discriminate|].
    exfalso. assert (i = r_cur rs) by lia. subst i.
    apply field_index_some in E2 as (k' & E2). rewrite E0 in E2. injection E2 as -> ->.
    now rewrite bytes_eqb_refl in E1.
Qed.

Definition bad (strict : bool) (p : site) : bool :=
  match p with
  | PRecordEqualArm | PExpectedFieldsUnwrap | PDebugAssertBuffers => true
  | PSerKeyBeforeValue => strict
  | _ => false
  end.

Definition npQ (strict : bool) {A} (Q : A -> Prop) (m : M A) : Prop :=
  forall st, match fst (m st) with Ok a => Q a | Panic p => bad strict p = false | _ => True end.
Notation np1 strict m := (npQ strict (fun _ => True) m).

Lemma npQ_ext strict {A} (Q : A -> Prop) m m' : (forall s, m s = m' s) -> npQ strict Q m' -> npQ strict Q m.
Proof. intros E H st. rewrite E. apply H. Qed.
Lemma npQ_bind strict {A B} (Q : A -> Prop) (Q' : B -> Prop) m f :
  npQ strict Q m -> (forall a, Q a -> npQ strict Q' (f a)) -> npQ strict Q' (sbind m f).
Proof.
  intros Hm Hf st. unfold sbind. specialize (Hm st).
  destruct (m st) as [[a| | | |] st']; cbn in *; auto. apply Hf; auto.
Qed.
Lemma npQ_ret strict {A} (Q : A -> Prop) a : Q a -> npQ strict Q (sret a).
Proof. intros H st. exact H. Qed.
Lemma npQ_fail strict {A} (Q : A -> Prop) (r : result A) :
  match r with Ok a => Q a | Panic p => bad strict p = false | _ => True end -> npQ strict Q (fail r).
Proof. intros H st. exact H. Qed.
Lemma npQ_weaken strict {A} (Q Q' : A -> Prop) m :
  (forall a, Q a -> Q' a) -> npQ strict Q m -> npQ strict Q' m.
Proof. intros HQ H st. specialize (H st). destruct (fst (m st)); auto. Qed.
Lemma np1_write strict bs : np1 strict (write bs).
Proof. intro st. unfold write. destruct (s_budget st); [destruct (N.leb _ _)|]; cbn; auto. Qed.
Lemma np1_slow_check strict : np1 strict slow_check.
Proof. intro st. unfold slow_check. destruct (s_slow st); cbn; auto. Qed.
Lemma np1_pop_buf strict : np1 strict pop_buf.
Proof. intro st. unfold pop_buf. destruct (s_bufs st) as [|[[|] ?] ?]; cbn; auto. Qed.
Lemma np_pop_sbuf strict : npQ strict (fun p => fst p = []) pop_sbuf.
Proof. intro st. unfold pop_sbuf. destruct (s_sbufs st) as [|[|] ?]; cbn; auto. Qed.
Lemma np1_push_buf strict b : np1 strict (push_buf b).
Proof. intro st. cbn. auto. Qed.
Lemma np1_with_buffer strict {A} start (m : M A) : np1 strict m -> np1 strict (with_buffer start m).
Proof.
  intros H st. unfold with_buffer. specialize (H (st_with_out st start None)).
  destruct (m _) as [[] ?]; cbn in *; auto.
Qed.

Create HintDb np.
Ltac np1_step :=
  match goal with
  | |- npQ _ _ (sbind _ _) => apply npQ_bind with (Q := fun _ => True); [|intros ? _]
  | |- npQ _ _ (write _) => apply np1_write
  | |- npQ _ _ (sret _) => apply npQ_ret; exact I
  | |- npQ _ _ slow_check => apply np1_slow_check
  | |- npQ _ _ (fail _) => apply npQ_fail; cbn; auto; fail
  | |- npQ _ _ (match ?x with _ => _ end) => destruct x
  | |- npQ _ _ (if ?x then _ else _) => destruct x
  | |- npQ _ _ (let (_, _) := ?x in _) => destruct x
  | |- npQ _ _ _ => solve [auto with np]
  end.
Ltac np1_tac := cbv zeta; repeat np1_step.

Lemma np1_write_varint strict z : np1 strict (write_varint z).
Proof. apply np1_write. Qed.
#[global] Hint Resolve np1_write_varint : np.
Lemma np1_usize strict n : np1 strict (usize_to_i64 n).
Proof. unfold usize_to_i64. np1_tac. Qed.
#[global] Hint Resolve np1_usize : np.
Lemma np1_write_ld strict d : np1 strict (write_ld d).
Proof. unfold write_ld. np1_tac. Qed.
#[global] Hint Resolve np1_write_ld : np.
Lemma np1_unnamed_step strict Sc ks key : np1 strict (unnamed_step Sc ks key).
Proof. unfold unnamed_step. np1_tac. Qed.
#[global] Hint Resolve np1_unnamed_step : np.
Lemma np1_via_union {strict Sc n key leaf} :
  (forall n', np1 strict (leaf n')) -> np1 strict (via_union Sc n key leaf).
Proof. intro H. unfold via_union. destruct n; auto. np1_tac; auto. Qed.
Lemma np1_unit_variant_null strict Sc n ename variant m : np1 strict m -> np1 strict (unit_variant_null Sc n ename variant m).
Proof.
  intro H. unfold unit_variant_null. destruct n; auto.
  destruct (union_named Sc variants variant) as [[d k']|]; auto.
  destruct (fnode_at Sc k') as [[]|]; auto.
  match goal with |- context [if ?c then _ else _] => destruct c end; auto. apply np1_write_varint.
Qed.
Lemma np1_named_step strict Sc n nm : np1 strict (named_step Sc n nm).
Proof. unfold named_step. np1_tac. Qed.
#[global] Hint Resolve np1_named_step : np.
Lemma np1_ser_decimal strict mode m s : np1 strict (ser_decimal mode m s).
Proof. unfold ser_decimal. np1_tac. Qed.
#[global] Hint Resolve np1_ser_decimal : np.
Lemma np1_ser_int_decimal strict scale repr z : np1 strict (ser_int_decimal scale repr z).
Proof. unfold ser_int_decimal. np1_tac. Qed.
#[global] Hint Resolve np1_ser_int_decimal : np.
Lemma np1_ser_int_leaf strict z n : np1 strict (ser_int_leaf z n).
Proof. unfold ser_int_leaf. np1_tac. Qed.
Lemma np1_ser_str_leaf strict s n : np1 strict (ser_str_leaf s n).
Proof. unfold ser_str_leaf. np1_tac. Qed.
Lemma np1_ser_bytes_leaf strict s n : np1 strict (ser_bytes_leaf s n).
Proof. unfold ser_bytes_leaf. np1_tac. Qed.
Lemma np1_extract_u8 strict v : np1 strict (extract_u8 v).
Proof. unfold extract_u8. np1_tac. Qed.
Lemma np1_extract_u32 strict v : np1 strict (extract_u32 v).
Proof. unfold extract_u32. np1_tac. Qed.
Lemma np1_block_new strict l : np1 strict (block_new l).
Proof. unfold block_new. np1_tac. Qed.
Lemma np1_block_next strict l : np1 strict (block_next l).
Proof. unfold block_next. np1_tac. Qed.
Lemma np1_block_end strict l : np1 strict (block_end l).
Proof. unfold block_end. np1_tac. Qed.
#[global] Hint Resolve np1_ser_int_leaf np1_ser_str_leaf np1_ser_bytes_leaf np1_extract_u8
  np1_extract_u32 np1_block_new np1_block_next np1_block_end : np.

(** buffers: lookup *)
Definition getb (l : list (option buf)) (i : nat) : option buf :=
  match nth_error l i with Some o => o | None => None end.

Lemma resize_to_length {A} (l : list A) n d : length (resize_to l n d) = Nat.max (length l) n.
Proof.
  unfold resize_to. destruct (Nat.ltb_spec (length l) n); [|lia].
  rewrite app_length, repeat_length. lia.
Qed.
Lemma getb_resize l n j : getb (resize_to l n None) j = getb l j.
Proof.
  unfold getb, resize_to. destruct (Nat.ltb_spec (length l) n); auto.
  destruct (Nat.lt_ge_cases j (length l)).
  - now rewrite nth_error_app1.
  - rewrite nth_error_app2 by auto. replace (nth_error l j) with (@None (option buf)) by (symmetry; now apply nth_error_None).
    destruct (nth_error (repeat None (n - length l)) (j - length l)) eqn:E; auto.
    apply nth_error_In, repeat_spec in E. now subst.
Qed.
Lemma getb_set_same l i v : i < length l -> getb (list_set l i v) i = v.
Proof.
  unfold getb. revert i; induction l as [|h t IH]; intros [|i] H; cbn in *; try lia; auto.
  apply IH. lia.
Qed.
Lemma getb_set_other l i j v : i <> j -> getb (list_set l i v) j = getb l j.
Proof.
  unfold getb. revert i j; induction l as [|h t IH]; intros [|i] [|j] H; cbn; auto; try lia.
Qed.
Lemma getb_beyond l i : length l <= i -> getb l i = None.
Proof. intro H. unfold getb. apply nth_error_None in H. now rewrite H. Qed.
Lemma existsb_none l : (forall i, getb l i = None) ->
  existsb (fun o : option buf => match o with Some _ => true | None => false end) l = false.
Proof.
  induction l as [|[b|] t IH]; intro H; cbn; auto.
  - specialize (H 0). discriminate.
  - apply IH. intro i. apply (H (S i)).
Qed.

(* the part of the record invariant that excludes the panics *)
Definition rinv (nf : nat) (rs : recstate) : Prop :=
  length (r_bufs rs) <= nf /\ forall i, i <= r_cur rs -> getb (r_bufs rs) i = None.

Lemma np_flush_ready strict nf chk : forall f rs,
  length (r_bufs rs) <= nf -> (forall i, i < r_cur rs -> getb (r_bufs rs) i = None) ->
  length (r_bufs rs) <= r_cur rs + f ->
  npQ strict (fun rs' => rinv nf rs' /\ r_cur rs <= r_cur rs') (flush_ready f nf chk rs).
Proof.
  induction f as [|f IH]; intros rs Hlen Hnone Hfuel.
  - apply npQ_ret. split; [split; auto|lia]. intros i Hi.
    destruct (Nat.eq_dec i (r_cur rs)) as [->|]; [apply getb_beyond; lia|apply Hnone; lia].
  - eapply npQ_ext; [apply flush_ready_eq|].
    destruct (nth_error (r_bufs rs) (r_cur rs)) as [[[c cap]|]|] eqn:E.
    + assert (Hlt : r_cur rs < length (r_bufs rs)) by (apply nth_error_Some; congruence).
      apply npQ_bind with (Q := fun _ => True); [apply np1_write|intros _ _].
      apply npQ_bind with (Q := fun _ => True); [apply np1_push_buf|intros _ _].
      destruct (Nat.ltb_spec (r_cur rs) nf); [|lia]. rewrite andb_false_r.
      eapply npQ_weaken; [|apply IH]; cbn [r_cur r_bufs].
      * intros rs' (H1 & H2). split; auto. lia.
      * now rewrite list_set_length.
      * intros i Hi. destruct (Nat.eq_dec i (r_cur rs)) as [->|].
        -- now apply getb_set_same.
        -- rewrite getb_set_other by auto. apply Hnone. lia.
      * rewrite list_set_length. lia.
    + apply npQ_ret. split; [split; auto|lia]. intros i Hi.
      destruct (Nat.eq_dec i (r_cur rs)) as [->|]; [unfold getb; now rewrite E|apply Hnone; lia].
    + apply npQ_ret. split; [split; auto|lia]. intros i Hi.
      destruct (Nat.eq_dec i (r_cur rs)) as [->|]; [unfold getb; now rewrite E|apply Hnone; lia].
Qed.

Lemma np_record_value strict serk fields rs idx k v' :
  np1 strict (serk k v') -> rinv (length fields) rs ->
  (idx = r_cur rs \/ r_cur rs < idx) -> idx < length fields ->
  npQ strict (rinv (length fields)) (record_value serk fields rs idx k v').
Proof.
  intros Hk (Hlen & Hnone) Hidx Hlt. eapply npQ_ext; [apply record_value_eq|].
  destruct (Nat.eqb_spec idx (r_cur rs)) as [->|Hne].
  - apply npQ_bind with (Q := fun _ => True); [exact Hk|intros _ _].
    destruct (Nat.ltb_spec (r_cur rs) (length fields)); [|lia]. cbn [negb].
    eapply npQ_weaken; [|apply np_flush_ready]; cbn [r_cur r_bufs]; auto.
    + now intros rs' (H1 & _).
    + intros i Hi. apply Hnone. lia.
    + lia.
  - assert (Hidx' : r_cur rs < idx) by (destruct Hidx; [contradiction|auto]).
    assert (Hfin : forall (p : unit * bytes) (b : buf), rinv (length fields)
              (mkR (r_cur rs)
                 (list_set (resize_to (r_bufs rs) (S idx) None) idx
                    (Some (snd p, snd b || negb (Nat.eqb (length (snd p)) 0))))
                 (r_cap rs || Nat.ltb (length (r_bufs rs)) (S idx)))).
    { intros p b. split; cbn [r_cur r_bufs].
      - rewrite list_set_length, resize_to_length. lia.
      - intros i Hi. rewrite getb_set_other by lia. rewrite getb_resize. now apply Hnone. }
    destruct (nth_error (resize_to (r_bufs rs) (S idx) None) idx) as [[|]|];
      try (apply npQ_fail; exact I);
      (apply npQ_bind with (Q := fun _ => True); [apply np1_pop_buf|intros b _];
       apply npQ_bind with (Q := fun _ => True); [apply np1_with_buffer; exact Hk|intros p _];
       apply npQ_ret; apply Hfin).
Qed.

Lemma np_record_end strict Sc fields : forall fuel rs,
  rinv (length fields) rs -> length fields - r_cur rs < fuel ->
  npQ strict (fun rs' => rinv (length fields) rs' /\ length fields <= r_cur rs')
      (record_end fuel Sc fields rs).
Proof.
  induction fuel as [|f IH]; intros rs Hinv Hfuel; [lia|].
  cbn [record_end]. destruct (nth_error fields (r_cur rs)) as [[nm k]|] eqn:E.
  2:{ apply npQ_ret. split; auto. now apply nth_error_None. }
  assert (Hlt : r_cur rs < length fields) by (apply nth_error_Some; congruence).
  assert (Hcont : npQ strict (fun rs' => rinv (length fields) rs' /\ length fields <= r_cur rs')
    (do* rs' <- flush_ready (length fields) (length fields) false (mkR (S (r_cur rs)) (r_bufs rs) (r_cap rs));
     record_end f Sc fields rs')).
  { destruct Hinv as (Hlen & Hnone).
    eapply npQ_bind; [apply np_flush_ready; cbn [r_cur r_bufs]; auto|].
    - intros i Hi. apply Hnone. lia.
    - lia.
    - cbn [r_cur]. intros rs' (Hinv' & Hc). apply IH; auto. lia. }
  destruct (fnode_at Sc k) as [[]|]; try (apply npQ_fail; cbn; auto; fail); auto.
  destruct (union_unnamed Sc variants KNull) as [[d k']|]; try (apply npQ_fail; exact I).
  destruct (fnode_at Sc k') as [[]|]; try (apply npQ_fail; exact I).
  apply npQ_bind with (Q := fun _ => True); [apply np1_write_varint|intros _ _]. exact Hcont.
Qed.

Definition QT (kind : rkind) (x : recstate * N * list (option N)) : Prop :=
  match kind with RKRecord fields => rinv (length fields) (fst (fst x)) | _ => True end.

Lemma np_struct_fields strict serk kind : forall fs,
  Forall (fun f => forall k, np1 strict (serk k (snd f))) fs ->
  forall rs blk dur, QT kind (rs, blk, dur) ->
  npQ strict (QT kind) (drop_mid (struct_fields serk kind rs blk dur fs)).
Proof.
  induction fs as [|[key v'] rest IH]; intros HF rs blk dur HQ.
  - intro st. exact HQ.
  - inversion HF as [|? ? Hv HF']; subst. cbn [snd] in Hv. specialize (IH HF'). destruct kind as [fields|values|].
    + eapply npQ_ext; [apply struct_fields_cons_record|].
      destruct (rec_field_idx fields rs key) as [[idx k]|e|p| |] eqn:E; try (apply npQ_fail; exact I).
      * apply rec_field_idx_ok in E as (Hidx & Hn).
        eapply npQ_bind; [apply np_record_value; auto|].
        -- apply nth_error_Some. congruence.
        -- intros rs' Hrs'. now apply IH.
      * apply rec_field_idx_panic' in E. subst. apply npQ_fail. reflexivity.
    + eapply npQ_ext; [apply struct_fields_cons_map|].
      apply npQ_bind with (Q := fun _ => True).
      * np1_tac.
      * intros blk' _. now apply IH.
    + eapply npQ_ext; [apply struct_fields_cons_duration|].
      destruct (duration_field key) as [i|]; [|apply npQ_fail; exact I].
      destruct (nth_error dur i) as [[|]|]; try (apply npQ_fail; exact I);
        (apply npQ_bind with (Q := fun _ => True); [apply np1_extract_u32|intros x _; now apply IH]).
Qed.

(* SerializeMap call sequences in which serialize_value is always preceded by serialize_key *)
Fixpoint keys_ok (pending : bool) (calls : list (option sval * option sval)) : bool :=
  match calls with
  | [] => true
  | (Some _, None) :: r => keys_ok true r
  | (Some _, Some _) :: r => keys_ok false r
  | (None, Some _) :: r => pending && keys_ok false r
  | (None, None) :: r => keys_ok pending r
  end.

Definition hint_ok (kind : rkind) (rs : recstate) (hint : option (nat * nat)) : Prop :=
  match kind, hint with
  | RKRecord fields, Some (idx, k) => (idx = r_cur rs \/ r_cur rs < idx) /\ idx < length fields
  | _, _ => True
  end.
Definition is_some {A} (o : option A) : bool := match o with Some _ => true | None => false end.
Definition keys_hyp (strict : bool) (kind : rkind) (hint : option (nat * nat)) calls : Prop :=
  match kind with RKMap _ => True | _ => strict = true -> keys_ok (is_some hint) calls = true end.

Lemma rec_key_res_ok fields rs hint ko hint' :
  rec_key_res fields rs hint ko = Ok hint' -> hint_ok (RKRecord fields) rs hint ->
  hint_ok (RKRecord fields) rs hint' /\ (ko <> None -> hint' <> None) /\ (ko = None -> hint' = hint).
Proof.
  unfold rec_key_res. destruct ko as [k0|].
  - destruct k0; try discriminate. unfold rmap, rbind.
    destruct (rec_field_idx fields rs s) as [[idx k]| | | |] eqn:E; try discriminate.
    intros [= <-] _. apply rec_field_idx_ok in E as (H1 & H2). repeat split; auto; try discriminate.
    apply nth_error_Some. congruence.
  - intros [= <-] H. repeat split; auto.
Qed.
Lemma dur_key_res_ok hint ko hint' :
  dur_key_res hint ko = Ok hint' -> (ko <> None -> hint' <> None) /\ (ko = None -> hint' = hint).
Proof.
  unfold dur_key_res. destruct ko as [k0|].
  - destruct k0; try discriminate. destruct (duration_field s); try discriminate.
    intros [= <-]. split; congruence.
  - intros [= <-]. split; congruence.
Qed.
Lemma rec_key_res_panic' fields rs hint ko p : rec_key_res fields rs hint ko = Panic p -> p = PIndex.
Proof.
  unfold rec_key_res. destruct ko as [[]|]; try discriminate.
  unfold rmap, rbind. destruct (rec_field_idx fields rs s) eqn:E; try discriminate.
  intros [= <-]. eapply rec_field_idx_panic'; eauto.
Qed.

Lemma keys_step strict (hint hint' : option (nat * nat)) ko vo rest :
  (strict = true -> keys_ok (is_some hint) ((ko, vo) :: rest) = true) ->
  (ko <> None -> hint' <> None) -> (ko = None -> hint' = hint) ->
  match vo with
  | None => strict = true -> keys_ok (is_some hint') rest = true
  | Some _ => (hint' = None -> strict = false) /\ (strict = true -> keys_ok false rest = true)
  end.
Proof.
  intros H H1 H2. destruct strict; [specialize (H eq_refl)|destruct vo; [split; auto|]; discriminate].
  destruct ko as [k0|], vo as [v0|]; cbn in H.
  - split; auto. intro E. exfalso. apply H1; auto. discriminate.
  - intros _. destruct hint'; auto. exfalso. apply H1; auto. discriminate.
  - rewrite (H2 eq_refl). apply andb_prop in H as [Hp Hr]. split; auto. intros ->. discriminate.
  - intros _. now rewrite (H2 eq_refl).
Qed.

Lemma np_map_calls strict serk serstr kind : forall calls,
  Forall (fun c => call_ok (fun k => np1 strict (serstr k)) (fst c) /\
                   call_ok (fun v => forall k, np1 strict (serk k v)) (snd c)) calls ->
  forall rs blk dur hint, QT kind (rs, blk, dur) -> hint_ok kind rs hint ->
  keys_hyp strict kind hint calls ->
  npQ strict (QT kind) (drop_mid (map_calls serk serstr kind rs blk dur hint calls)).
Proof.
  induction calls as [|[ko vo] rest IH]; intros HF rs blk dur hint HQ Hh Hkeys.
  - intro st. exact HQ.
  - inversion HF as [|? ? [Hk Hv] HF']; subst. cbn [fst snd] in Hk, Hv. specialize (IH HF').
    destruct kind as [fields|values|].
    + eapply npQ_ext; [apply map_calls_cons_record|].
      destruct (rec_key_res fields rs hint ko) as [hint'|e|p| |] eqn:E; try (apply npQ_fail; exact I).
      * apply rec_key_res_ok in E as (Hh' & H1 & H2); auto.
        pose proof (keys_step strict hint hint' ko vo rest Hkeys H1 H2) as Hstep.
        destruct vo as [v'|]; [|now apply IH].
        destruct Hstep as (Hs1 & Hs2).
        destruct hint' as [[idx k]|]; [|apply npQ_fail; cbn; now apply Hs1].
        destruct Hh' as (Hidx & Hlt).
        eapply npQ_bind; [apply np_record_value; auto; apply Hv|].
        intros rs' Hrs'. apply IH; auto; try exact I.
      * apply rec_key_res_panic' in E. subst. apply npQ_fail. reflexivity.
    + eapply npQ_ext; [apply map_calls_cons_map|].
      apply npQ_bind with (Q := fun _ => True).
      * destruct ko, vo; cbn in Hk, Hv; np1_tac; auto.
      * intros blk' _. apply IH; auto; try exact I.
    + eapply npQ_ext; [apply map_calls_cons_duration|].
      destruct (dur_key_res hint ko) as [hint'|e|p| |] eqn:E; try (apply npQ_fail; exact I).
      * apply dur_key_res_ok in E as (H1 & H2).
        pose proof (keys_step strict hint hint' ko vo rest Hkeys H1 H2) as Hstep.
        destruct vo as [v'|]; [|apply IH; auto; try exact I].
        destruct Hstep as (Hs1 & Hs2).
        destruct hint' as [[i k]|]; [|apply npQ_fail; cbn; now apply Hs1].
        destruct (nth_error dur i) as [[|]|]; try (apply npQ_fail; exact I);
        (apply npQ_bind with (Q := fun _ => True);
         [apply np1_extract_u32|intros x _; apply IH; auto; try exact I]).
      * exfalso. eapply dur_key_res_panic; eauto.
Qed.

Lemma np_finish strict Sc kind t :
  npQ strict (QT kind) (drop_mid t) -> np1 strict (fun st => finish Sc kind (t st)).
Proof.
  intros H st. specialize (H st). unfold drop_mid in H. cbn [fst] in H.
  destruct (t st) as [[r d] u]. cbn [fst snd] in H. unfold finish. destruct kind as [fields|values|].
  - destruct r as [[[rs b] dd]| | | |]; cbn [fst]; auto.
    cbn in H.
    assert (Hf : length fields - r_cur rs < S (length fields)) by lia.
    pose proof (np_record_end strict Sc fields (S (length fields)) rs H Hf u) as He.
    destruct (record_end _ Sc fields rs u) as [[rs'| | | |] u']; cbn [fst snd] in *; auto.
    destruct He as ((Hlen & Hnone) & Hc). rewrite existsb_none; [cbn; auto|].
    intro i. destruct (le_lt_dec i (r_cur rs')); [now apply Hnone|apply getb_beyond; lia].
  - destruct r as [[[rs b] dd]| | | |]; cbn [fst]; auto. apply (np1_block_end strict b u).
  - destruct r as [[[rs b] dd]| | | |]; cbn [fst]; auto.
    destruct dd as [|[a|] [|[b'|] [|[c|] [|]]]]; cbn [fst]; auto. apply (np1_write strict _ u).
Qed.

Lemma np_record_new strict : npQ strict (fun rs => forall nf, rinv nf rs) record_new.
Proof.
  unfold record_new. eapply npQ_bind; [apply np_pop_sbuf|]. intros p Hp.
  apply npQ_ret. intro nf. split; cbn [r_bufs r_cur]; rewrite Hp; cbn; [lia|].
  intros i _. unfold getb. now destruct i.
Qed.

Lemma np_start_kind strict Sc b l n' run :
  (forall kind rs blk, QT kind (rs, blk, [None; None; None]) ->
     npQ strict (QT kind) (drop_mid (run kind rs blk))) ->
  np1 strict (start_kind Sc b l n' run).
Proof.
  intro H. unfold start_kind. destruct n'; try (apply npQ_fail; exact I).
  - apply npQ_bind with (Q := fun _ => True); [apply np1_block_new|]. intros blk _.
    apply (np_finish strict Sc (RKMap values) (run (RKMap values) (mkR 0 [] false) blk)). apply H. exact I.
  - eapply npQ_bind; [apply np_record_new|]. intros rs Hrs.
    apply (np_finish strict Sc (RKRecord fields) (run (RKRecord fields) rs 0%N)). apply H. apply Hrs.
  - destruct b; [|apply npQ_fail; exact I].
    apply (np_finish strict Sc RKDuration (run RKDuration (mkR 0 [] false) 0%N)). apply H. exact I.
Qed.

Lemma np1_arr_go strict serk items : forall vs, Forall (fun v => forall k, np1 strict (serk k v)) vs ->
  forall blk, np1 strict (arr_go serk items blk vs).
Proof.
  induction vs as [|v vs IH]; intros HF blk; cbn [arr_go]; [apply npQ_ret; exact I|].
  inversion HF; subst. np1_tac; auto.
Qed.
Lemma np1_dur_go strict : forall vs cnt, np1 strict (dur_go cnt vs).
Proof. induction vs as [|v vs IH]; intro cnt; cbn [dur_go]; np1_tac; auto. Qed.
Lemma np1_collect_go strict : forall vs acc, np1 strict (collect_go acc vs).
Proof. induction vs as [|v vs IH]; intro acc; cbn [collect_go]; np1_tac; auto. Qed.
Lemma np1_bytes_go strict : forall vs r, np1 strict (bytes_go r vs).
Proof. induction vs as [|v vs IH]; intro r; cbn [bytes_go]; np1_tac; auto. Qed.

Lemma np_seq_leaf strict serk len vs n' :
  Forall (fun v => forall k, np1 strict (serk k v)) vs -> np1 strict (seq_leaf serk len vs n').
Proof.
  intro HF. unfold seq_leaf. destruct n'; try (apply npQ_fail; exact I).
  - apply npQ_bind with (Q := fun _ => True); [apply np1_slow_check|intros _ _].
    destruct len as [l|].
    + apply npQ_bind with (Q := fun _ => True); [apply np1_usize|intros li _].
      apply npQ_bind with (Q := fun _ => True); [apply np1_write_varint|intros _ _].
      apply npQ_bind with (Q := fun _ => True); [apply (np1_bytes_go strict vs l)|intros r _]. np1_tac.
    + apply npQ_bind with (Q := fun _ => True); [apply np1_pop_buf|intros b _].
      intro st. cbv zeta.
      change (fix go (acc : bytes) (vs : list sval) {struct vs} : M bytes :=
                match vs with
                | [] => sret acc
                | v' :: rest => do* x <- extract_u8 v'; go (acc ++ [x]) rest
                end) with collect_go.
      pose proof (np1_collect_go strict vs [] st) as Hc.
      destruct (collect_go [] vs st) as [[c| | | |] u]; cbn [fst snd] in *; auto.
      pose proof (np1_write_ld strict c u) as Hw.
      destruct (write_ld c u) as [r' u']. cbn [fst snd] in *. exact Hw.
  - apply npQ_bind with (Q := fun _ => True); [apply np1_block_new|intros blk _].
    apply npQ_bind with (Q := fun _ => True); [apply (np1_arr_go strict serk items vs HF blk)|intros blk' _].
    apply np1_block_end.
  - apply npQ_bind with (Q := fun _ => True); [apply np1_slow_check|intros _ _].
    destruct (match len with Some l => negb (N.eqb l size) | None => false end); [apply npQ_fail; exact I|].
    apply npQ_bind with (Q := fun _ => True); [apply (np1_bytes_go strict vs size)|intros r _]. np1_tac.
  - destruct (match len with Some l => negb (N.eqb l 3) | None => false end); [apply npQ_fail; exact I|].
    apply npQ_bind with (Q := fun _ => True); [apply (np1_dur_go strict vs 0)|intros r _]. np1_tac.
Qed.

(* every SerializeMap call sequence in the tree presents a key before each value *)
Fixpoint sval_wf (v : sval) : bool :=
  match v with
  | SSome v' | SNewtypeStruct _ v' | SNewtypeVariant _ _ _ v' => sval_wf v'
  | SSeq _ vs | STuple vs | STupleStruct _ vs | STupleVariant _ _ _ vs => forallb sval_wf vs
  | SMap _ calls =>
      keys_ok false calls &&
      forallb (fun c => match c with
                        | (ko, vo) =>
                            match ko with Some k => sval_wf k | None => true end &&
                            match vo with Some x => sval_wf x | None => true end
                        end) calls
  | SStruct _ _ fs | SStructVariant _ _ _ _ fs =>
      forallb (fun f => match f with (_, x) => sval_wf x end) fs
  | _ => true
  end.

Definition NP (Sc : fschema) (v : sval) : Prop :=
  forall strict, (strict = true -> sval_wf v = true) -> forall n, np1 strict (ser Sc n v).

Lemma np1_at_key strict Sc k v : (forall n, np1 strict (ser Sc n v)) -> np1 strict (at_key Sc k v).
Proof. intro H. unfold at_key. destruct (fnode_at Sc k); auto. apply npQ_fail; reflexivity. Qed.

Lemma NP_list Sc strict vs :
  Forall (NP Sc) vs -> (strict = true -> forallb sval_wf vs = true) ->
  Forall (fun v => forall k, np1 strict (at_key Sc k v)) vs.
Proof.
  intros HF Hwf. apply Forall_forall. intros v Hin k. apply np1_at_key.
  rewrite Forall_forall in HF. apply (HF v Hin). intro Hs.
  specialize (Hwf Hs). rewrite forallb_forall in Hwf. now apply Hwf.
Qed.
Lemma NP_fields Sc strict (fs : list (bytes * sval)) :
  Forall (fun f => NP Sc (snd f)) fs ->
  (strict = true -> forallb (fun f => match f with (_, x) => sval_wf x end) fs = true) ->
  Forall (fun f => forall k, np1 strict (at_key Sc k (snd f))) fs.
Proof.
  intros HF Hwf. apply Forall_forall. intros [nm v] Hin k. apply np1_at_key.
  rewrite Forall_forall in HF. apply (HF _ Hin). intro Hs.
  specialize (Hwf Hs). rewrite forallb_forall in Hwf. apply (Hwf _ Hin).
Qed.

Theorem ser_np Sc : forall v, NP Sc v.
Proof.
  induction v using sval_ind2; intros strict Hwf n0;
    try (cbn [ser]; try apply np1_unit_variant_null; repeat (apply np1_via_union; intro); np1_tac; fail).
  - rewrite ser_SSeq. apply np1_via_union; intro. apply np_seq_leaf. now apply NP_list.
  - rewrite ser_STuple. apply np1_via_union; intro. apply np_seq_leaf. now apply NP_list.
  - rewrite ser_STupleStruct. apply np1_via_union; intro. apply np_seq_leaf. now apply NP_list.
  - rewrite ser_STupleVariant.
    apply npQ_bind with (Q := fun _ => True); [apply np1_named_step|intros ? _].
    apply np1_via_union; intro. apply np_seq_leaf. now apply NP_list.
  - rewrite ser_SMap. apply np1_via_union; intro. apply np_start_kind.
    intros kind rs blk HQ. apply np_map_calls; auto.
    + apply Forall_forall. intros [ko vo] Hin. rewrite Forall_forall in H.
      specialize (H _ Hin). cbn [fst snd] in *. destruct H as (Hk & Hv).
      assert (Hw : strict = true ->
                   match ko with Some k => sval_wf k | None => true end = true /\
                   match vo with Some x => sval_wf x | None => true end = true).
      { intro Hs. specialize (Hwf Hs). cbn [sval_wf] in Hwf. apply andb_prop in Hwf as [_ Hwf].
        rewrite forallb_forall in Hwf. specialize (Hwf _ Hin). cbn in Hwf. now apply andb_prop in Hwf. }
      split.
      * destruct ko; cbn in *; auto. apply Hk. intro Hs. apply (Hw Hs).
      * destruct vo; cbn in *; auto. intro k. apply np1_at_key. apply Hv. intro Hs. apply (Hw Hs).
    + destruct kind; cbn; auto.
    + destruct kind; cbn; auto; intro Hs; specialize (Hwf Hs); cbn [sval_wf] in Hwf;
        now apply andb_prop in Hwf as [Hwf _].
  - rewrite ser_SStruct. apply npQ_bind with (Q := fun _ => True); [apply np1_named_step|intros ? _].
    apply np1_via_union; intro. apply np_start_kind.
    intros kind rs blk HQ. apply np_struct_fields; auto. now apply NP_fields.
  - rewrite ser_SStructVariant. apply npQ_bind with (Q := fun _ => True); [apply np1_named_step|intros ? _].
    apply np1_via_union; intro. apply np_start_kind.
    intros kind rs blk HQ. apply np_struct_fields; auto. now apply NP_fields.
Qed.

(* no hypothesis on the schema or the pools is needed; an out-of-range node key is PIndex,
   a non-empty pooled buffer is PPoolAssert, neither is among the sites below *)
Theorem record_no_panic : forall Sc n v st r st' p,
  ser Sc n v st = (r, st') -> r = Panic p ->
  p <> PRecordEqualArm /\ p <> PExpectedFieldsUnwrap /\ p <> PDebugAssertBuffers /\
  (sval_wf v = true -> p <> PSerKeyBeforeValue).
Proof.
  intros Sc n v st r st' p E ->.
  pose proof (ser_np Sc v false ltac:(discriminate) n st) as H1. rewrite E in H1. cbn in H1.
  repeat split; try (intros ->; discriminate).
  intros Hwf ->. pose proof (ser_np Sc v true (fun _ => Hwf) n st) as H2. rewrite E in H2. discriminate.
Qed.

(* PSerKeyBeforeValue is reachable when serialize_value comes first *)
Example key_before_value_reachable :
  fst (ser [FRecord (mkName [] None) [([97%N], 1)]; FNull] (FRecord (mkName [] None) [([97%N], 1)])
         (SMap None [(None, Some SUnit)]) (st0 false)) = Panic PSerKeyBeforeValue.
Proof. vm_compute. reflexivity. Qed.

(** * Part 3: record bytes do not depend on the order of presentation *)

Definition odef (o : option bytes) : bytes := match o with Some b => b | None => [] end.
Definition upd (f : nat -> option bytes) (i : nat) (o : option bytes) : nat -> option bytes :=
  fun j => if Nat.eqb j i then o else f j.

Lemma seq_S_concat (f : nat -> bytes) n : concat (map f (seq 0 (S n))) = concat (map f (seq 0 n)) ++ f n.
Proof. rewrite seq_S, map_app, concat_app. cbn. now rewrite app_nil_r. Qed.

Lemma write_none bs st : s_budget st = None -> write bs st = (Ok tt, st_with_out st (s_out st ++ bs) None).
Proof. intro H. unfold write. now rewrite H. Qed.

Lemma pop_buf_ok st : pool_ok st ->
  exists cap st1, pop_buf st = (Ok ([], cap), st1) /\ pool_ok st1 /\
    s_out st1 = s_out st /\ s_budget st1 = s_budget st /\ s_slow st1 = s_slow st.
Proof.
  intros (Hb & Hs). unfold pop_buf. destruct (s_bufs st) as [|[c cap] t] eqn:E.
  - exists false, st. repeat split; auto. now rewrite E.
  - inversion Hb; subst. cbn in *. subst c. exists cap, (st_with_bufs st t). repeat split; auto.
Qed.

Section Machine.
Variable serk : nat -> sval -> M unit.
Variable enc : nat -> sval -> option bytes.
Variable slow : bool.
Variable fields : list (bytes * nat).
Variable out0 : bytes.
Let nf := length fields.

Definition good_st (st : sstate) : Prop := pool_ok st /\ s_budget st = None /\ s_slow st = slow.

Hypothesis serk_pure : forall k v st, good_st st ->
  exists r st', serk k v st = (r, st') /\ good_st st' /\
    match enc k v with
    | Some b => r = Ok tt /\ s_out st' = s_out st ++ b
    | None => is_ok r = false
    end.

Record PreInv (f : nat -> option bytes) (rs : recstate) (out : bytes) : Prop := {
  p_len : length (r_bufs rs) <= nf;
  p_lt : forall i, i < r_cur rs -> f i <> None;
  p_out : out = out0 ++ concat (map (fun i => odef (f i)) (seq 0 (r_cur rs)));
  p_buf : forall i, option_map fst (getb (r_bufs rs) i) = if Nat.leb (r_cur rs) i then f i else None;
  p_dom : forall i, nf <= i -> f i = None }.

Record Inv (f : nat -> option bytes) (rs : recstate) (out : bytes) : Prop := {
  i_len : length (r_bufs rs) <= nf;
  i_lt : forall i, i < r_cur rs -> f i <> None;
  i_out : out = out0 ++ concat (map (fun i => odef (f i)) (seq 0 (r_cur rs)));
  i_buf : forall i, option_map fst (getb (r_bufs rs) i) = if Nat.ltb (r_cur rs) i then f i else None;
  i_dom : forall i, nf <= i -> f i = None;
  i_cur : f (r_cur rs) = None }.

Lemma Inv_ext f f' rs out : (forall j, f j = f' j) -> Inv f rs out -> Inv f' rs out.
Proof.
  intros E [H1 H2 H3 H4 H5 H6]. split; auto.
  - intros i Hi. rewrite <- E. auto.
  - rewrite H3. do 2 f_equal. apply map_ext. intro. now rewrite E.
  - intro i. rewrite H4, E. reflexivity.
  - intros i Hi. rewrite <- E. auto.
  - now rewrite <- E.
Qed.

Lemma Inv_cur_le f rs out : Inv f rs out -> r_cur rs <= nf.
Proof.
  intros [H1 H2 H3 H4 H5 H6]. destruct (le_lt_dec (r_cur rs) nf); auto.
  exfalso. apply (H2 nf); auto.
Qed.

Lemma pre_to_inv f rs out : PreInv f rs out -> f (r_cur rs) = None -> Inv f rs out.
Proof.
  intros [H1 H2 H3 H4 H5] H6. split; auto.
  intro i. rewrite H4. destruct (Nat.leb_spec (r_cur rs) i), (Nat.ltb_spec (r_cur rs) i); try lia; auto.
  assert (i = r_cur rs) by lia. now subst.
Qed.

Lemma flush_inv f chk : forall fuel rs st,
  good_st st -> PreInv f rs (s_out st) -> length (r_bufs rs) <= r_cur rs + fuel ->
  exists rs' st', flush_ready fuel nf chk rs st = (Ok rs', st') /\ good_st st' /\
                  Inv f rs' (s_out st') /\ r_cur rs <= r_cur rs'.
Proof.
  induction fuel as [|fuel IH]; intros rs st Hg Hpre Hfuel.
  - exists rs, st. split; [reflexivity|]. split; [exact Hg|]. split; [|lia]. apply pre_to_inv; auto.
    pose proof (p_buf _ _ _ Hpre (r_cur rs)) as Hb. rewrite Nat.leb_refl in Hb.
    rewrite getb_beyond in Hb by lia. now symmetry.
  - rewrite flush_ready_eq.
    pose proof (p_buf _ _ _ Hpre (r_cur rs)) as Hb. rewrite Nat.leb_refl in Hb. unfold getb in Hb.
    destruct (nth_error (r_bufs rs) (r_cur rs)) as [[[c cap]|]|] eqn:E; cbn in Hb.
    + assert (Hlt : r_cur rs < length (r_bufs rs)) by (apply nth_error_Some; congruence).
      pose proof (p_len _ _ _ Hpre) as Hlen.
      destruct Hg as (Hpool & Hbud & Hslow).
      unfold sbind. rewrite (write_none c st Hbud). cbn [push_buf].
      destruct (Nat.ltb_spec (r_cur rs) nf); [|lia]. rewrite andb_false_r.
      match goal with |- context [flush_ready fuel nf chk ?rs1 ?st1] =>
        destruct (IH rs1 st1) as (rs' & st' & E' & Hg' & Hinv' & Hc) end.
      * split; [|split]; cbn; auto. destruct Hpool as (Hp1 & Hp2). split; cbn; auto.
      * destruct Hpre as [H1 H2 H3 H4 H5]. split; cbn [r_cur r_bufs s_out st_with_out st_with_bufs]; auto.
        -- now rewrite list_set_length.
        -- intros i Hi. destruct (Nat.eq_dec i (r_cur rs)) as [->|]; [congruence|apply H2; lia].
        -- rewrite seq_S_concat, H3, <- app_assoc. do 2 f_equal. now rewrite <- Hb.
        -- intro i. destruct (Nat.eq_dec i (r_cur rs)) as [->|Hn].
           ++ rewrite getb_set_same by auto. destruct (Nat.leb_spec (S (r_cur rs)) (r_cur rs)); [lia|reflexivity].
           ++ rewrite getb_set_other by auto. rewrite H4.
              destruct (Nat.leb_spec (r_cur rs) i), (Nat.leb_spec (S (r_cur rs)) i); try lia; reflexivity.
      * cbn [r_cur r_bufs]. rewrite list_set_length. lia.
      * exists rs', st'. split; [exact E'|]. split; [exact Hg'|]. split; [exact Hinv'|]. cbn [r_cur] in Hc. lia.
    + exists rs, st. split; [reflexivity|]. split; [exact Hg|]. split; [|lia]. apply pre_to_inv; auto.
    + exists rs, st. split; [reflexivity|]. split; [exact Hg|]. split; [|lia]. apply pre_to_inv; auto.
Qed.

Lemma upd_same f i o : upd f i o i = o.
Proof. unfold upd. now rewrite Nat.eqb_refl. Qed.
Lemma upd_other f i o j : j <> i -> upd f i o j = f j.
Proof. intro H. unfold upd. destruct (Nat.eqb_spec j i); [contradiction|reflexivity]. Qed.

Lemma concat_upd_below f i o n : n <= i ->
  concat (map (fun j => odef (upd f i o j)) (seq 0 n)) = concat (map (fun j => odef (f j)) (seq 0 n)).
Proof.
  intro H. f_equal. apply map_ext_in. intros j Hj. apply in_seq in Hj. rewrite upd_other by lia. reflexivity.
Qed.

(* a presented field whose value serializes to b *)
Lemma record_value_ok f rs st idx k v b :
  good_st st -> Inv f rs (s_out st) -> idx < nf -> (idx = r_cur rs \/ r_cur rs < idx) ->
  f idx = None -> enc k v = Some b ->
  exists rs' st', record_value serk fields rs idx k v st = (Ok rs', st') /\ good_st st' /\
                  Inv (upd f idx (Some b)) rs' (s_out st').
Proof.
  intros Hg Hinv Hidx Hpos Hfree Henc. rewrite record_value_eq.
  destruct (Nat.eqb_spec idx (r_cur rs)) as [->|Hne].
  - destruct (serk_pure k v st Hg) as (r & st1 & E1 & Hg1 & Hr). rewrite Henc in Hr. destruct Hr as (-> & Hout).
    unfold sbind. rewrite E1. fold nf.
    destruct (Nat.ltb_spec (r_cur rs) nf); [|lia]. cbn [negb].
    destruct (flush_inv (upd f (r_cur rs) (Some b)) true nf
                (mkR (S (r_cur rs)) (r_bufs rs) (r_cap rs)) st1 Hg1) as (rs' & st' & E' & Hg' & Hinv' & _).
    + destruct Hinv as [H1 H2 H3 H4 H5 H6]. split; cbn [r_cur r_bufs]; auto.
      * intros i Hi. destruct (Nat.eq_dec i (r_cur rs)) as [->|]; [rewrite upd_same; discriminate|].
        rewrite upd_other by auto. apply H2. lia.
      * rewrite seq_S_concat, upd_same, concat_upd_below by lia. cbn [odef].
        rewrite Hout, H3, <- app_assoc. reflexivity.
      * intro i. rewrite H4. change (Nat.leb (S (r_cur rs)) i) with (Nat.ltb (r_cur rs) i).
        destruct (Nat.ltb_spec (r_cur rs) i); auto. rewrite upd_other by lia. reflexivity.
      * intros i Hi. rewrite upd_other by lia. auto.
    + cbn [r_cur r_bufs]. pose proof (i_len _ _ _ Hinv). lia.
    + exists rs', st'. auto.
  - assert (Hlt : r_cur rs < idx) by (destruct Hpos; [contradiction|auto]).
    pose proof Hinv as [H1 H2 H3 H4 H5 H6].
    assert (Hnone : getb (resize_to (r_bufs rs) (S idx) None) idx = None).
    { rewrite getb_resize. specialize (H4 idx). destruct (Nat.ltb_spec (r_cur rs) idx); [|lia].
      rewrite Hfree in H4. destruct (getb (r_bufs rs) idx); [discriminate|reflexivity]. }
    destruct Hg as (Hpool & Hbud & Hslow).
    destruct (pop_buf_ok st Hpool) as (cap & st1 & Epop & Hpool1 & Ho1 & Hb1 & Hs1).
    assert (Hg1 : good_st (st_with_out st1 [] None)).
    { split; [|split]; cbn; auto; try congruence. }
    destruct (serk_pure k v _ Hg1) as (r & st2 & E2 & Hg2 & Hr). rewrite Henc in Hr. destruct Hr as (-> & Hout).
    cbn [s_out st_with_out] in Hout. cbn [app] in Hout.
    assert (Ego : (do* b0 <- pop_buf; do* p <- with_buffer (fst b0) (serk k v);
                   sret (mkR (r_cur rs)
                     (list_set (resize_to (r_bufs rs) (S idx) None) idx
                        (Some (snd p, snd b0 || negb (Nat.eqb (length (snd p)) 0))))
                     (r_cap rs || Nat.ltb (length (r_bufs rs)) (S idx)))) st =
                  (Ok (mkR (r_cur rs)
                     (list_set (resize_to (r_bufs rs) (S idx) None) idx
                        (Some (b, cap || negb (Nat.eqb (length b) 0))))
                     (r_cap rs || Nat.ltb (length (r_bufs rs)) (S idx))),
                   st_with_out st2 (s_out st1) (s_budget st1))).
    { unfold sbind. rewrite Epop. cbn [fst snd]. unfold with_buffer. rewrite E2. cbn. now rewrite Hout. }
    eexists _, _. split; [|split].
    + unfold getb in Hnone.
      destruct (nth_error (resize_to (r_bufs rs) (S idx) None) idx) as [[|]|]; try discriminate; exact Ego.
    + destruct Hg2 as (Hp2 & _ & Hs2). split; [|split]; cbn; auto; try congruence.
    + cbn [s_out st_with_out r_cur r_bufs]. rewrite Ho1. split; cbn [r_cur r_bufs]; auto.
      * rewrite list_set_length, resize_to_length. fold nf. lia.
      * intros i Hi. rewrite upd_other by lia. auto.
      * rewrite concat_upd_below by lia. exact H3.
      * intro i. destruct (Nat.eq_dec i idx) as [->|Hn].
        -- rewrite getb_set_same by (rewrite resize_to_length; lia). rewrite upd_same.
           destruct (Nat.ltb_spec (r_cur rs) idx); [reflexivity|lia].
        -- rewrite getb_set_other by auto. rewrite getb_resize, H4, upd_other by auto. reflexivity.
      * intros i Hi. rewrite upd_other by lia. auto.
      * rewrite upd_other by lia. auto.
Qed.

(* a presented field whose value does not serialize *)
Lemma record_value_fail rs st idx k v :
  good_st st -> enc k v = None ->
  is_ok (fst (record_value serk fields rs idx k v st)) = false.
Proof.
  intros Hg Henc. rewrite record_value_eq. destruct (Nat.eqb idx (r_cur rs)).
  - destruct (serk_pure k v st Hg) as (r & st1 & E1 & _ & Hr). rewrite Henc in Hr.
    unfold sbind. rewrite E1. destruct r; cbn in *; auto; discriminate.
  - destruct (nth_error (resize_to (r_bufs rs) (S idx) None) idx) as [[|]|]; auto;
    ( destruct Hg as (Hpool & Hbud & Hslow);
      destruct (pop_buf_ok st Hpool) as (cap & st1 & Epop & Hpool1 & Ho1 & Hb1 & Hs1);
      assert (Hg1 : good_st (st_with_out st1 [] None))
        by (split; [|split]; cbn; auto; try congruence);
      destruct (serk_pure k v _ Hg1) as (r & st2 & E2 & _ & Hr); rewrite Henc in Hr;
      unfold sbind; rewrite Epop; cbn [fst snd]; unfold with_buffer; rewrite E2;
      destruct r; cbn in *; auto; discriminate ).
Qed.

(** end(): null-filling *)
Variable Sc : fschema.

Definition nullfill (k : nat) : option bytes :=
  match fnode_at Sc k with
  | Some FNull => Some []
  | Some (FUnion ks) =>
      match union_unnamed Sc ks KNull with
      | Some (d, k') => match fnode_at Sc k' with Some FNull => Some (encode_long d) | _ => None end
      | None => None
      end
  | _ => None
  end.
Definition gfill (i : nat) : option bytes :=
  match nth_error fields i with Some (_, k) => nullfill k | None => None end.
Definition hfill (f : nat -> option bytes) (i : nat) : option bytes :=
  match f i with Some b => Some b | None => gfill i end.

Lemma forallb_ext' {A} (f g : A -> bool) l : (forall a, f a = g a) -> forallb f l = forallb g l.
Proof. intro H. induction l; cbn; congruence. Qed.

Lemma write_nil st : s_budget st = None -> write [] st = (Ok tt, st).
Proof. intro H. rewrite write_none by auto. rewrite app_nil_r. destruct st; cbn in *; now subst. Qed.

Lemma record_end_step_some fuel rs nm k e st :
  s_budget st = None -> nth_error fields (r_cur rs) = Some (nm, k) -> nullfill k = Some e ->
  record_end (S fuel) Sc fields rs st =
  (do* _ <- write e;
   do* rs' <- flush_ready nf nf false (mkR (S (r_cur rs)) (r_bufs rs) (r_cap rs));
   record_end fuel Sc fields rs') st.
Proof.
  intros Hb E Hn. cbn [record_end]. rewrite E. unfold nullfill in Hn. fold nf.
  destruct (fnode_at Sc k) as [[]|]; try discriminate.
  - injection Hn as <-. symmetry. unfold sbind at 1. now rewrite write_nil by auto.
  - destruct (union_unnamed Sc variants KNull) as [[d k']|]; try discriminate.
    destruct (fnode_at Sc k') as [[]|]; try discriminate. injection Hn as <-. reflexivity.
Qed.
Lemma record_end_step_none fuel rs nm k st :
  nth_error fields (r_cur rs) = Some (nm, k) -> nullfill k = None ->
  is_ok (fst (record_end (S fuel) Sc fields rs st)) = false.
Proof.
  intros E Hn. cbn [record_end]. rewrite E. unfold nullfill in Hn.
  destruct (fnode_at Sc k) as [[]|]; try discriminate; try reflexivity.
  destruct (union_unnamed Sc variants KNull) as [[d k']|]; try reflexivity.
  destruct (fnode_at Sc k') as [[]|]; try discriminate; reflexivity.
Qed.

Lemma record_end_spec : forall fuel f rs st,
  good_st st -> Inv f rs (s_out st) -> nf - r_cur rs < fuel ->
  if forallb (fun i => is_some (hfill f i)) (seq 0 nf)
  then exists rs' st', record_end fuel Sc fields rs st = (Ok rs', st') /\ good_st st' /\
         s_out st' = out0 ++ concat (map (fun i => odef (hfill f i)) (seq 0 nf)) /\
         (forall i, getb (r_bufs rs') i = None)
  else is_ok (fst (record_end fuel Sc fields rs st)) = false.
Proof.
  induction fuel as [|fuel IH]; intros f rs st Hg Hinv Hfuel; [lia|].
  pose proof (Inv_cur_le _ _ _ Hinv) as Hle.
  destruct (nth_error fields (r_cur rs)) as [[nm k]|] eqn:E.
  - assert (Hlt : r_cur rs < nf) by (apply nth_error_Some; congruence).
    assert (Hh : hfill f (r_cur rs) = nullfill k).
    { unfold hfill, gfill. now rewrite (i_cur _ _ _ Hinv), E. }
    destruct (nullfill k) as [e|] eqn:En.
    + (* null-filled *)
      destruct Hg as (Hpool & Hbud & Hslow).
      set (st1 := st_with_out st (s_out st ++ e) None).
      assert (Hg1 : good_st st1) by (split; [|split]; cbn; auto).
      destruct (flush_inv (upd f (r_cur rs) (Some e)) false nf
                  (mkR (S (r_cur rs)) (r_bufs rs) (r_cap rs)) st1 Hg1) as (rs' & st' & E' & Hg' & Hinv' & Hc).
      { destruct Hinv as [H1 H2 H3 H4 H5 H6]. split; cbn [r_cur r_bufs s_out st1 st_with_out]; auto.
        * intros i Hi. destruct (Nat.eq_dec i (r_cur rs)) as [->|]; [rewrite upd_same; discriminate|].
          rewrite upd_other by auto. apply H2. lia.
        * rewrite seq_S_concat, upd_same, concat_upd_below by lia. cbn [odef].
          rewrite H3, <- app_assoc. reflexivity.
        * intro i. rewrite H4. change (Nat.leb (S (r_cur rs)) i) with (Nat.ltb (r_cur rs) i).
          destruct (Nat.ltb_spec (r_cur rs) i); auto. rewrite upd_other by lia. reflexivity.
        * intros i Hi. rewrite upd_other by lia. auto. }
      { cbn [r_cur r_bufs]. pose proof (i_len _ _ _ Hinv). lia. }
      cbn [r_cur] in Hc.
      assert (Estep : record_end (S fuel) Sc fields rs st = record_end fuel Sc fields rs' st').
      { rewrite (record_end_step_some fuel rs nm k e st Hbud E En).
        unfold sbind. rewrite write_none by auto. fold st1. now rewrite E'. }
      rewrite Estep.
      assert (Hext : forall i, hfill (upd f (r_cur rs) (Some e)) i = hfill f i).
      { intro i. unfold hfill at 1. destruct (Nat.eq_dec i (r_cur rs)) as [->|].
        - now rewrite upd_same, Hh.
        - rewrite upd_other by auto. reflexivity. }
      specialize (IH (upd f (r_cur rs) (Some e)) rs' st' Hg' Hinv' ltac:(lia)).
      rewrite (forallb_ext' _ (fun i => is_some (hfill f i)) _ (fun i => f_equal is_some (Hext i))) in IH.
      destruct (forallb (fun i => is_some (hfill f i)) (seq 0 nf)); [|exact IH].
      destruct IH as (rs'' & st'' & E'' & Hg'' & Hout'' & Hnone''). exists rs'', st''.
      split; [exact E''|]. split; [exact Hg''|]. split; [|exact Hnone''].
      rewrite Hout''. do 2 f_equal. apply map_ext. intro i. now rewrite Hext.
    + (* a required field is missing *)
      replace (forallb (fun i => is_some (hfill f i)) (seq 0 nf)) with false.
      * eapply record_end_step_none; eauto.
      * symmetry. destruct (forallb _ _) eqn:Ef; auto. rewrite forallb_forall in Ef.
        specialize (Ef (r_cur rs)). rewrite Hh in Ef. cbn in Ef. symmetry. apply Ef. apply in_seq. lia.
  - (* all fields written *)
    assert (Hc : r_cur rs = nf) by (apply nth_error_None in E; fold nf in E; lia).
    assert (Hsame : forall i, i < nf -> hfill f i = f i /\ f i <> None).
    { intros i Hi. pose proof (i_lt _ _ _ Hinv i ltac:(lia)) as Hn. unfold hfill. destruct (f i); auto. congruence. }
    replace (forallb (fun i => is_some (hfill f i)) (seq 0 nf)) with true.
    + exists rs, st. cbn [record_end]. rewrite E. split; [reflexivity|]. split; [exact Hg|]. split.
      * rewrite (i_out _ _ _ Hinv), Hc. do 2 f_equal. apply map_ext_in. intros i Hi. apply in_seq in Hi.
        now destruct (Hsame i ltac:(lia)) as (-> & _).
      * intro i. pose proof (i_buf _ _ _ Hinv i) as Hb. rewrite Hc in Hb.
        destruct (Nat.ltb_spec nf i); [rewrite (i_dom _ _ _ Hinv) in Hb by lia|];
          destruct (getb (r_bufs rs) i); auto; discriminate.
    + symmetry. apply forallb_forall. intros i Hi. apply in_seq in Hi.
      destruct (Hsame i ltac:(lia)) as (-> & Hn). destruct (f i); auto.
Qed.

(** names *)
Hypothesis fields_nodup : NoDup (map fst fields).

Fixpoint lookup (nm : bytes) (ps : list (bytes * sval)) : option sval :=
  match ps with
  | [] => None
  | (n, v) :: r => if bytes_eqb nm n then Some v else lookup nm r
  end.

Lemma lookup_app_one nm' P nm v :
  lookup nm' (P ++ [(nm, v)]) =
  match lookup nm' P with Some x => Some x | None => if bytes_eqb nm' nm then Some v else None end.
Proof. induction P as [|[n x] r IH]; cbn; auto. destruct (bytes_eqb nm' n); auto. Qed.
Lemma lookup_none nm P : ~ In nm (map fst P) -> lookup nm P = None.
Proof.
  induction P as [|[n x] r IH]; cbn; auto. intro H.
  destruct (bytes_eqb nm n) eqn:E; [apply bytes_eqb_eq in E; subst; tauto|]. apply IH. tauto.
Qed.
Lemma lookup_some_in nm P v : lookup nm P = Some v -> In (nm, v) P.
Proof.
  induction P as [|[n x] r IH]; cbn; [discriminate|].
  destruct (bytes_eqb nm n) eqn:E; [apply bytes_eqb_eq in E; subst; intros [= ->]; auto|auto].
Qed.
Lemma in_lookup nm P v : NoDup (map fst P) -> In (nm, v) P -> lookup nm P = Some v.
Proof.
  induction P as [|[n x] r IH]; cbn; [tauto|]. intros Hnd [[= -> ->]|Hin].
  - now rewrite bytes_eqb_refl.
  - inversion Hnd; subst. destruct (bytes_eqb nm n) eqn:E; [|auto].
    apply bytes_eqb_eq in E. subst. exfalso. apply H1. apply (in_map fst) in Hin. exact Hin.
Qed.

Lemma fi_unique j nm k : nth_error fields j = Some (nm, k) -> field_index fields nm = Some j.
Proof.
  intro H. assert (Hj : nth_error (map fst fields) j = Some nm) by (rewrite nth_error_map, H; reflexivity).
  unfold field_index. destruct (index_of_last nm (map fst fields)) as [i|] eqn:E.
  - apply index_of_last_some in E. f_equal.
    apply (proj1 (NoDup_nth_error _) fields_nodup); [|congruence].
    apply nth_error_Some. congruence.
  - apply index_of_last_none in E. exfalso. apply E. eapply nth_error_In; eauto.
Qed.

Definition pb (P : list (bytes * sval)) (i : nat) : option bytes :=
  match nth_error fields i with
  | Some (nm, k) => match lookup nm P with Some v => enc k v | None => None end
  | None => None
  end.
Definition okfield (p : bytes * sval) : bool :=
  match field_index fields (fst p) with
  | Some i => match nth_error fields i with Some (_, k) => is_some (enc k (snd p)) | None => false end
  | None => false
  end.

Lemma pb_dom P i : nf <= i -> pb P i = None.
Proof. intro H. unfold pb. apply nth_error_None in H. now rewrite H. Qed.

Lemma pb_nil i : pb [] i = None.
Proof. unfold pb. destruct (nth_error fields i) as [[? ?]|]; reflexivity. Qed.

Lemma pb_app_one P nm v i k : lookup nm P = None -> nth_error fields i = Some (nm, k) ->
  forall j, pb (P ++ [(nm, v)]) j = upd (pb P) i (enc k v) j.
Proof.
  intros Hfresh Hi j. unfold pb, upd. destruct (Nat.eqb_spec j i) as [->|Hne].
  - rewrite Hi, lookup_app_one, Hfresh, bytes_eqb_refl. reflexivity.
  - destruct (nth_error fields j) as [[nmj kj]|] eqn:Ej; auto.
    rewrite lookup_app_one. destruct (lookup nmj P); auto.
    destruct (bytes_eqb nmj nm) eqn:E; auto. apply bytes_eqb_eq in E. subst nmj.
    apply fi_unique in Ej. apply fi_unique in Hi. congruence.
Qed.

(* field_idx for a name that was not presented before *)
Lemma rec_field_idx_fresh P rs out nm :
  Inv (pb P) rs out -> lookup nm P = None ->
  match field_index fields nm with
  | Some i => exists k, nth_error fields i = Some (nm, k) /\ rec_field_idx fields rs nm = Ok (i, k) /\
                        (i = r_cur rs \/ r_cur rs < i) /\ i < nf /\ pb P i = None
  | None => is_ok (rec_field_idx fields rs nm) = false
  end.
Proof.
  intros Hinv Hfresh. destruct (field_index fields nm) as [i|] eqn:Efi.
  - pose proof Efi as Efi'. apply field_index_some in Efi' as (k & Ei). exists k. split; auto.
    assert (Hpb : pb P i = None) by (unfold pb; now rewrite Ei, Hfresh).
    assert (Hge : r_cur rs <= i).
    { destruct (le_lt_dec (r_cur rs) i); auto. exfalso. apply (i_lt _ _ _ Hinv i); auto. }
    assert (Hi : i < nf) by (apply nth_error_Some; congruence).
    unfold rec_field_idx. destruct (nth_error fields (r_cur rs)) as [[fn fk]|] eqn:Ec.
    2:{ apply nth_error_None in Ec. fold nf in Ec. lia. }
    destruct (bytes_eqb fn nm) eqn:Eb.
    + apply bytes_eqb_eq in Eb. subst fn. pose proof (fi_unique _ _ _ Ec) as Ec'.
      rewrite Efi in Ec'. injection Ec' as ->. rewrite Ei in Ec. injection Ec as <-.
      repeat split; auto.
    + rewrite Efi. destruct (Nat.ltb_spec (r_cur rs) i).
      * rewrite Ei. repeat split; auto.
      * assert (i = r_cur rs) by lia. subst i. rewrite Ec in Ei. injection Ei as -> ->.
        now rewrite bytes_eqb_refl in Eb.
  - unfold rec_field_idx. destruct (nth_error fields (r_cur rs)) as [[fn fk]|] eqn:Ec; auto.
    destruct (bytes_eqb fn nm) eqn:Eb; [|now rewrite Efi].
    apply bytes_eqb_eq in Eb. subst fn. apply fi_unique in Ec. congruence.
Qed.

Lemma run_spec blk dur : forall rest P rs st,
  good_st st -> Inv (pb P) rs (s_out st) -> NoDup (map fst (P ++ rest)) ->
  if forallb okfield rest
  then exists rs' st',
         drop_mid (struct_fields serk (RKRecord fields) rs blk dur rest) st = (Ok (rs', blk, dur), st') /\
         good_st st' /\ Inv (pb (P ++ rest)) rs' (s_out st')
  else is_ok (fst (drop_mid (struct_fields serk (RKRecord fields) rs blk dur rest) st)) = false.
Proof.
  induction rest as [|[nm v] rest IH]; intros P rs st Hg Hinv Hnd.
  - cbn [forallb]. exists rs, st. rewrite app_nil_r. split; [reflexivity|]. split; auto.
  - assert (Hfresh : lookup nm P = None).
    { apply lookup_none. intro Hin. rewrite map_app in Hnd. cbn in Hnd.
      apply NoDup_remove_2 in Hnd. apply Hnd. apply in_or_app. auto. }
    rewrite struct_fields_cons_record. cbn [forallb].
    pose proof (rec_field_idx_fresh P rs _ nm Hinv Hfresh) as Hrfi.
    unfold okfield at 1. cbn [fst snd].
    destruct (field_index fields nm) as [i|] eqn:Efi.
    + destruct Hrfi as (k & Ei & Erfi & Hpos & Hi & Hpb). rewrite Erfi, Ei.
      destruct (enc k v) as [b|] eqn:Eenc; cbn [is_some andb].
      * destruct (record_value_ok (pb P) rs st i k v b Hg Hinv Hi Hpos Hpb Eenc) as (rs1 & st1 & E1 & Hg1 & Hinv1).
        unfold sbind. rewrite E1.
        assert (Hinv1' : Inv (pb (P ++ [(nm, v)])) rs1 (s_out st1)).
        { eapply Inv_ext; [|exact Hinv1]. intro j. symmetry. rewrite <- Eenc. now apply pb_app_one. }
        specialize (IH (P ++ [(nm, v)]) rs1 st1 Hg1 Hinv1').
        rewrite <- app_assoc in IH. cbn [app] in IH. apply IH. exact Hnd.
      * unfold sbind. pose proof (record_value_fail rs st i k v Hg Eenc) as Hf.
        destruct (record_value serk fields rs i k v st) as [[] ?]; cbn in *; auto; discriminate.
    + destruct (rec_field_idx fields rs nm) as [[? ?]| | | |]; cbn in *; auto; discriminate.
Qed.

Lemma pop_sbuf_ok st : pool_ok st ->
  exists cap st1, pop_sbuf st = (Ok ([], cap), st1) /\ pool_ok st1 /\
    s_out st1 = s_out st /\ s_budget st1 = s_budget st /\ s_slow st1 = s_slow st.
Proof.
  intros (Hb & Hs). unfold pop_sbuf. destruct (s_sbufs st) as [|c t] eqn:E.
  - exists false, st. repeat split; auto. now rewrite E.
  - inversion Hs; subst. exists true, (st_with_sbufs st t). repeat split; auto.
Qed.

Lemma record_drop_good rs st : good_st st ->
  good_st (snd (record_drop rs st)) /\ s_out (snd (record_drop rs st)) = s_out st.
Proof.
  intros ((Hb & Hs) & Hbud & Hslow). unfold record_drop. destruct (r_cap rs); cbn [snd].
  - split; [|reflexivity]. split; [|split]; cbn; auto. split; cbn; auto.
    apply fold_left_returned_ok; auto.
  - split; [|reflexivity]. split; [|split]; auto. split; auto.
Qed.

Definition record_spec (ps : list (bytes * sval)) : option bytes :=
  if forallb okfield ps then
    if forallb (fun i => is_some (hfill (pb ps) i)) (seq 0 nf)
    then Some (concat (map (fun i => odef (hfill (pb ps) i)) (seq 0 nf)))
    else None
  else None.

(* the abstract machine: a record presented as a struct *)
Definition run_record (ps : list (bytes * sval)) : M unit :=
  do* rs <- record_new;
  fun st => finish Sc (RKRecord fields)
              (struct_fields serk (RKRecord fields) rs 0%N [None; None; None] ps st).

Theorem machine_spec ps st :
  good_st st -> NoDup (map fst ps) -> out0 = s_out st ->
  match record_spec ps with
  | Some w => exists t, run_record ps st = (Ok tt, t) /\ s_out t = s_out st ++ w /\ good_st t
  | None => is_ok (fst (run_record ps st)) = false
  end.
Proof.
  intros Hg Hnd Hout. unfold run_record, record_new.
  destruct Hg as (Hpool & Hbud & Hslow).
  destruct (pop_sbuf_ok st Hpool) as (cap & st1 & Epop & Hpool1 & Ho1 & Hb1 & Hs1).
  unfold sbind. rewrite Epop. cbn [fst snd sret].
  assert (Hg1 : good_st st1) by (split; [|split]; congruence).
  assert (Hinv0 : Inv (pb []) (mkR 0 [] cap) (s_out st1)).
  { split; cbn [r_cur r_bufs]; auto.
    - cbn. lia.
    - intros i Hi. lia.
    - cbn. rewrite app_nil_r. congruence.
    - intro i. unfold getb. replace (nth_error [] i) with (@None (option buf)) by (now destruct i).
      cbn [option_map]. rewrite pb_nil. now destruct (Nat.ltb 0 i).
    - intros i Hi. now apply pb_dom.
    - apply pb_nil. }
  pose proof (run_spec 0%N [None; None; None] ps [] (mkR 0 [] cap) st1 Hg1 Hinv0 Hnd) as Hrun.
  cbn [app] in Hrun. unfold record_spec.
  unfold drop_mid in Hrun.
  destruct (struct_fields serk (RKRecord fields) (mkR 0 [] cap) 0%N [None; None; None] ps st1)
    as [[res rsd] st2]. cbn [fst snd] in Hrun.
  destruct (forallb okfield ps).
  - destruct Hrun as (rs' & st' & [= -> <-] & Hg2 & Hinv2).
    pose proof (record_end_spec (S nf) (pb ps) rs' st2 Hg2 Hinv2 ltac:(lia)) as Hend.
    unfold finish. fold nf.
    destruct (forallb (fun i => is_some (hfill (pb ps) i)) (seq 0 nf)).
    + destruct Hend as (rs'' & st'' & E'' & Hg'' & Hout'' & Hnone''). rewrite E''.
      rewrite (existsb_none _ Hnone'').
      destruct (record_drop_good (mkR (r_cur rs'') [] (r_cap rs'')) st'' Hg'') as (Hgd & Hod).
      eexists. split; [reflexivity|]. split; [|exact Hgd]. rewrite Hod, Hout''. congruence.
    + destruct (record_end (S nf) Sc fields rs' st2) as [[] ?]; cbn in *; auto; discriminate.
  - unfold finish. destruct res as [[[? ?] ?]| | | |]; cbn in *; auto; discriminate.
Qed.
End Machine.

(** ** permutations of the presented fields *)
Lemma forallb_perm {A} (f : A -> bool) l1 l2 : Permutation l1 l2 -> forallb f l1 = forallb f l2.
Proof.
  induction 1; cbn; auto; try congruence.
  now rewrite !andb_assoc, (andb_comm (f y)).
Qed.

Lemma lookup_perm ps1 ps2 nm :
  NoDup (map fst ps1) -> Permutation ps1 ps2 -> lookup nm ps1 = lookup nm ps2.
Proof.
  intros Hnd Hperm.
  assert (Hnd2 : NoDup (map fst ps2)).
  { eapply Permutation_NoDup; [|exact Hnd]. now apply Permutation_map. }
  destruct (lookup nm ps1) as [v|] eqn:E1.
  - apply lookup_some_in in E1. symmetry. apply in_lookup; auto. eapply Permutation_in; eauto.
  - destruct (lookup nm ps2) as [v|] eqn:E2; auto.
    apply lookup_some_in in E2. apply Permutation_sym in Hperm.
    rewrite (in_lookup nm ps1 v Hnd) in E1; [discriminate|]. eapply Permutation_in; eauto.
Qed.

Lemma record_spec_perm enc fields Sc ps1 ps2 :
  NoDup (map fst ps1) -> Permutation ps1 ps2 ->
  record_spec enc fields Sc ps1 = record_spec enc fields Sc ps2.
Proof.
  intros Hnd Hperm. unfold record_spec. rewrite (forallb_perm _ _ _ Hperm).
  assert (Hpb : forall i, hfill fields Sc (pb enc fields ps1) i = hfill fields Sc (pb enc fields ps2) i).
  { intro i. unfold hfill, pb. destruct (nth_error fields i) as [[nm k]|]; auto.
    now rewrite (lookup_perm ps1 ps2 nm Hnd Hperm). }
  rewrite (forallb_ext' _ _ _ (fun i => f_equal is_some (Hpb i))).
  rewrite (map_ext _ _ (fun i => f_equal odef (Hpb i))). reflexivity.
Qed.

(** ** instantiation with the serializer *)
(* what [ser] appends for v at node key k, on an empty output with fresh pools *)
Definition enc_ser (Sc : fschema) (slow : bool) (k : nat) (v : sval) : option bytes :=
  match fnode_at Sc k with
  | Some n => match ser Sc n v (st0 slow) with (Ok _, t) => Some (s_out t) | _ => None end
  | None => None
  end.

Lemma at_key_pure Sc slow : forall k v st, good_st slow st ->
  exists r st', at_key Sc k v st = (r, st') /\ good_st slow st' /\
    match enc_ser Sc slow k v with
    | Some b => r = Ok tt /\ s_out st' = s_out st ++ b
    | None => is_ok r = false
    end.
Proof.
  intros k v st Hg. unfold at_key, enc_ser. destruct (fnode_at Sc k) as [n|].
  - destruct Hg as (Hpool & Hbud & Hslow).
    assert (Hp0 : pool_ok (st0 slow)) by (split; constructor).
    pose proof (ser_pool_indep_budget Sc n v st (st0 slow) Hpool Hp0) as H.
    cbn [s_budget s_slow st0] in H. specialize (H Hbud Hslow).
    destruct (ser Sc n v st) as [r1 t1], (ser Sc n v (st0 slow)) as [r2 t2].
    destruct H as (-> & Hp1 & _ & _ & Hs1 & _ & Hb1 & w & E1 & E2). cbn in E2.
    exists r2, t1. split; [reflexivity|]. split; [split; [|split]; auto; congruence|].
    destruct r2 as [[]| | | |]; auto. split; auto. congruence.
  - exists (Panic PIndex), st. split; [reflexivity|]. split; auto.
Qed.

Lemma ser_record_struct Sc nm fields sname len ps st :
  ser Sc (FRecord nm fields) (SStruct sname len ps) st = run_record (at_key Sc) fields Sc ps st.
Proof. rewrite ser_SStruct. reflexivity. Qed.
Lemma ser_record_struct_variant Sc nm fields e i variant len ps st :
  ser Sc (FRecord nm fields) (SStructVariant e i variant len ps) st = run_record (at_key Sc) fields Sc ps st.
Proof. rewrite ser_SStructVariant. reflexivity. Qed.

(* the bytes of one field of the record *)
Definition field_bytes (Sc : fschema) (slow : bool) (ps : list (bytes * sval)) (f : bytes * nat)
  : option bytes :=
  match lookup (fst f) ps with
  | Some v => enc_ser Sc slow (snd f) v      (* presented: its value at its node *)
  | None => nullfill Sc (snd f)              (* omitted: [] for null, the discriminant for a nullable union *)
  end.

Lemma map_seq_nth {A B} (l : list A) : forall (F : nat -> B) (G : A -> B),
  (forall i x, nth_error l i = Some x -> F i = G x) -> map F (seq 0 (length l)) = map G l.
Proof.
  induction l as [|a l IH]; intros F G H; cbn [length seq map]; auto.
  rewrite (H 0 a eq_refl). f_equal. rewrite <- seq_shift, map_map. apply IH.
  intros i x Hi. apply (H (S i) x Hi).
Qed.

Lemma hfill_field Sc slow fields ps i nm k :
  NoDup (map fst fields) -> forallb (okfield (enc_ser Sc slow) fields) ps = true ->
  nth_error fields i = Some (nm, k) ->
  hfill fields Sc (pb (enc_ser Sc slow) fields ps) i = field_bytes Sc slow ps (nm, k).
Proof.
  intros Hnd Hok Hi. unfold hfill, pb, gfill, field_bytes. rewrite Hi. cbn [fst snd].
  destruct (lookup nm ps) as [v|] eqn:El; auto.
  apply lookup_some_in in El. rewrite forallb_forall in Hok. specialize (Hok _ El).
  unfold okfield in Hok. cbn [fst snd] in Hok. rewrite (fi_unique fields Hnd i nm k Hi), Hi in Hok.
  destruct (enc_ser Sc slow k v); [reflexivity|discriminate].
Qed.

Definition outcome_eq (x y : sres sstate unit) : Prop :=
  let (r1, t1) := x in
  let (r2, t2) := y in
  (r1 = Ok tt /\ r2 = Ok tt /\ s_out t1 = s_out t2) \/ (r1 <> Ok tt /\ r2 <> Ok tt).

Lemma not_ok_false (r : result unit) : is_ok r = false -> r <> Ok tt.
Proof. intros H ->. discriminate. Qed.

(* the hypothesis "field keys resolvable" is not needed: an unresolvable key fails in every order *)
Theorem record_order_independent : forall Sc nm fields len1 len2 ps1 ps2 sname1 sname2 st,
  NoDup (map fst fields) -> NoDup (map fst ps1) -> Permutation ps1 ps2 ->
  pool_ok st -> s_budget st = None ->
  outcome_eq (ser Sc (FRecord nm fields) (SStruct sname1 len1 ps1) st)
             (ser Sc (FRecord nm fields) (SStruct sname2 len2 ps2) st).
Proof.
  intros Sc nm fields len1 len2 ps1 ps2 sname1 sname2 st Hndf Hnd1 Hperm Hpool Hbud.
  assert (Hnd2 : NoDup (map fst ps2)).
  { eapply Permutation_NoDup; [|exact Hnd1]. now apply Permutation_map. }
  assert (Hg : good_st (s_slow st) st) by (split; [|split]; auto).
  pose proof (machine_spec (at_key Sc) (enc_ser Sc (s_slow st)) (s_slow st) fields (s_out st)
                (at_key_pure Sc (s_slow st)) Sc Hndf) as Hspec.
  pose proof (Hspec ps1 st Hg Hnd1 eq_refl) as H1. pose proof (Hspec ps2 st Hg Hnd2 eq_refl) as H2.
  rewrite <- (record_spec_perm _ fields Sc ps1 ps2 Hnd1 Hperm) in H2.
  rewrite !ser_record_struct. unfold outcome_eq.
  destruct (record_spec (enc_ser Sc (s_slow st)) fields Sc ps1) as [w|].
  - destruct H1 as (t1 & -> & Ho1 & _), H2 as (t2 & -> & Ho2 & _). left. repeat split; congruence.
  - destruct (run_record (at_key Sc) fields Sc ps1 st) as [r1 t1],
             (run_record (at_key Sc) fields Sc ps2 st) as [r2 t2]. cbn [fst] in *.
    right. split; now apply not_ok_false.
Qed.

Theorem record_bytes_in_schema_order : forall Sc nm fields sname len ps st t,
  NoDup (map fst fields) -> NoDup (map fst ps) -> pool_ok st -> s_budget st = None ->
  ser Sc (FRecord nm fields) (SStruct sname len ps) st = (Ok tt, t) ->
  (forall p, In p ps -> In (fst p) (map fst fields)) /\
  (forall f, In f fields -> field_bytes Sc (s_slow st) ps f <> None) /\
  s_out t = s_out st ++ concat (map (fun f => odef (field_bytes Sc (s_slow st) ps f)) fields).
Proof.
  intros Sc nm fields sname len ps st t Hndf Hnd Hpool Hbud E.
  assert (Hg : good_st (s_slow st) st) by (split; [|split]; auto).
  pose proof (machine_spec (at_key Sc) (enc_ser Sc (s_slow st)) (s_slow st) fields (s_out st)
                (at_key_pure Sc (s_slow st)) Sc Hndf ps st Hg Hnd eq_refl) as H.
  rewrite ser_record_struct in E. rewrite E in H. unfold record_spec in H.
  destruct (forallb (okfield (enc_ser Sc (s_slow st)) fields) ps) eqn:Eok; [|discriminate].
  destruct (forallb _ (seq 0 (length fields))) eqn:Eall; [|discriminate].
  destruct H as (t' & [= <-] & Hout & _).
  assert (Hh : forall i f, nth_error fields i = Some f ->
            hfill fields Sc (pb (enc_ser Sc (s_slow st)) fields ps) i = field_bytes Sc (s_slow st) ps f).
  { intros i [n k] Hi. now apply hfill_field. }
  split; [|split].
  - intros [n v] Hin. rewrite forallb_forall in Eok. specialize (Eok _ Hin). unfold okfield in Eok.
    cbn [fst snd] in *. destruct (field_index fields n) as [i|] eqn:Efi; [|discriminate].
    apply field_index_some in Efi as (k & Efi). apply nth_error_In in Efi.
    apply (in_map fst) in Efi. exact Efi.
  - intros f Hin. apply In_nth_error in Hin as (i & Hi). rewrite <- (Hh i f Hi).
    rewrite forallb_forall in Eall. specialize (Eall i).
    destruct (hfill _ _ _ i); [discriminate|]. cbn in Eall.
    assert (Hlt : i < length fields) by (apply nth_error_Some; congruence).
    specialize (Eall ltac:(apply in_seq; lia)). discriminate.
  - rewrite Hout. do 2 f_equal. apply map_seq_nth. intros i f Hi. now rewrite (Hh i f Hi).
Qed.

(* conversely: when every presented name is a field and every field has bytes, the record serializes *)
Theorem record_struct_complete : forall Sc nm fields sname len ps st,
  NoDup (map fst fields) -> NoDup (map fst ps) -> pool_ok st -> s_budget st = None ->
  (forall p, In p ps -> In (fst p) (map fst fields)) ->
  (forall f, In f fields -> field_bytes Sc (s_slow st) ps f <> None) ->
  exists t, ser Sc (FRecord nm fields) (SStruct sname len ps) st = (Ok tt, t) /\
            s_out t = s_out st ++ concat (map (fun f => odef (field_bytes Sc (s_slow st) ps f)) fields).
Proof.
  intros Sc nm fields sname len ps st Hndf Hnd Hpool Hbud Hknown Hall.
  assert (Hg : good_st (s_slow st) st) by (split; [|split]; auto).
  pose proof (machine_spec (at_key Sc) (enc_ser Sc (s_slow st)) (s_slow st) fields (s_out st)
                (at_key_pure Sc (s_slow st)) Sc Hndf ps st Hg Hnd eq_refl) as H.
  rewrite ser_record_struct. unfold record_spec in H.
  assert (Eok : forallb (okfield (enc_ser Sc (s_slow st)) fields) ps = true).
  { apply forallb_forall. intros [n v] Hin. specialize (Hknown _ Hin). cbn [fst] in Hknown.
    apply in_map_iff in Hknown as ([n' k] & Hn & Hf). cbn in Hn. subst n'.
    pose proof Hf as Hf'. apply In_nth_error in Hf' as (i & Hi).
    unfold okfield. cbn [fst snd]. rewrite (fi_unique fields Hndf i n k Hi), Hi.
    specialize (Hall _ Hf). unfold field_bytes in Hall. cbn [fst snd] in Hall.
    rewrite (in_lookup n ps v Hnd Hin) in Hall. destruct (enc_ser Sc (s_slow st) k v); auto. }
  rewrite Eok in H.
  assert (Hh : forall i f, nth_error fields i = Some f ->
            hfill fields Sc (pb (enc_ser Sc (s_slow st)) fields ps) i = field_bytes Sc (s_slow st) ps f).
  { intros i [n k] Hi. now apply hfill_field. }
  assert (Eall : forallb (fun i => is_some (hfill fields Sc (pb (enc_ser Sc (s_slow st)) fields ps) i))
                   (seq 0 (length fields)) = true).
  { apply forallb_forall. intros i Hi. apply in_seq in Hi.
    destruct (nth_error fields i) as [f|] eqn:Ei; [|apply nth_error_None in Ei; lia].
    rewrite (Hh i f Ei). specialize (Hall f (nth_error_In _ _ Ei)).
    destruct (field_bytes Sc (s_slow st) ps f); auto. }
  rewrite Eall in H. destruct H as (t & E & Hout & _). exists t. split; auto.
  rewrite Hout. do 2 f_equal. apply map_seq_nth. intros i f Hi. now rewrite (Hh i f Hi).
Qed.

(* the same for the serialize_struct_variant presentation *)
Theorem record_order_independent_variant : forall Sc nm fields len1 len2 ps1 ps2 e1 i1 v1 e2 i2 v2 st,
  NoDup (map fst fields) -> NoDup (map fst ps1) -> Permutation ps1 ps2 ->
  pool_ok st -> s_budget st = None ->
  outcome_eq (ser Sc (FRecord nm fields) (SStructVariant e1 i1 v1 len1 ps1) st)
             (ser Sc (FRecord nm fields) (SStructVariant e2 i2 v2 len2 ps2) st).
Proof.
  intros Sc nm fields len1 len2 ps1 ps2 e1 i1 v1 e2 i2 v2 st Hndf Hnd1 Hperm Hpool Hbud.
  pose proof (record_order_independent Sc nm fields len1 len2 ps1 ps2 [] [] st Hndf Hnd1 Hperm Hpool Hbud) as H.
  now rewrite !ser_record_struct in H; rewrite !ser_record_struct_variant.
Qed.

(* the serialize_map presentation with serialize_entry(str, value) calls *)
Definition entries (ps : list (bytes * sval)) : list (option sval * option sval) :=
  map (fun p => (Some (SStr (fst p)), Some (snd p))) ps.

Lemma map_calls_entries serk serstr fields blk dur : forall ps rs st,
  map_calls serk serstr (RKRecord fields) rs blk dur None (entries ps) st =
  struct_fields serk (RKRecord fields) rs blk dur ps st.
Proof.
  induction ps as [|[nm v] ps IH]; intros rs st; [reflexivity|].
  cbn [entries map fst snd]. cbn [map_calls struct_fields]. unfold rmap, rbind.
  destruct (rec_field_idx fields rs nm) as [[idx k]| | | |]; try reflexivity.
  destruct (record_value serk fields rs idx k v st) as [[] st']; try reflexivity.
  apply IH.
Qed.

Lemma ser_record_map Sc nm fields len ps st :
  ser Sc (FRecord nm fields) (SMap len (entries ps)) st = run_record (at_key Sc) fields Sc ps st.
Proof.
  rewrite ser_SMap. cbn [via_union start_kind]. unfold run_record, sbind.
  destruct (record_new st) as [[] st']; try reflexivity.
  now rewrite map_calls_entries.
Qed.

Theorem record_order_independent_map : forall Sc nm fields len1 len2 ps1 ps2 sname st,
  NoDup (map fst fields) -> NoDup (map fst ps1) -> Permutation ps1 ps2 ->
  pool_ok st -> s_budget st = None ->
  outcome_eq (ser Sc (FRecord nm fields) (SStruct sname len1 ps1) st)
             (ser Sc (FRecord nm fields) (SMap len2 (entries ps2)) st).
Proof.
  intros Sc nm fields len1 len2 ps1 ps2 sname st Hndf Hnd1 Hperm Hpool Hbud.
  pose proof (record_order_independent Sc nm fields len1 len1 ps1 ps2 sname sname st Hndf Hnd1 Hperm Hpool Hbud) as H.
  now rewrite !ser_record_struct in H; rewrite ser_record_struct, ser_record_map.
Qed.

(* sanity: a record {a: int, b: string, c: [null, int]} presented in schema order, reversed, and
   with the nullable field omitted *)
Example order_example :
  let Sc := [FRecord (mkName [114%N] None) [([97%N], 1); ([98%N], 2); ([99%N], 3)];
             FInt; FString; FUnion [4; 1]; FNull] in
  let a := ([97%N], SInt true W32 7%Z) in
  let b := ([98%N], SStr [120%N; 121%N]) in
  let c := ([99%N], SSome (SInt true W32 (-1)%Z)) in
  to_datum Sc false (SStruct [] 3 [a; b; c]) = Ok [14; 4; 120; 121; 2; 1]%N /\
  to_datum Sc false (SStruct [] 3 [c; b; a]) = Ok [14; 4; 120; 121; 2; 1]%N /\
  to_datum Sc false (SMap None (entries [b; c; a])) = Ok [14; 4; 120; 121; 2; 1]%N /\
  to_datum Sc false (SStruct [] 2 [b; a]) = Ok [14; 4; 120; 121; 0]%N /\
  to_datum Sc false (SStruct [] 2 [c; a]) = Err EData.
Proof. vm_compute. repeat split. Qed.

Print Assumptions ser_pool_inv.
Print Assumptions ser_pool_indep.
Print Assumptions ser_pool_indep_budget.
Print Assumptions record_no_panic.
Print Assumptions machine_spec.
Print Assumptions record_order_independent.
Print Assumptions record_order_independent_variant.
Print Assumptions record_bytes_in_schema_order.
Print Assumptions record_struct_complete.
Print Assumptions record_order_independent_map.
