(** Proofs about the model of reader/decompression.rs (model/DecodeLoop.v).

    For EVERY streaming decoder meeting [stream_decoder_contract], every BufReader capacity >= 1, every
    chunking of the source and every read policy of the deserializer:

    [compressed_block_read_back]   a block holding the complete stream of the encodings of the count values:
                                   the values, the end-of-block check passes (also when nothing was ever
                                   read from the decoder: zero-byte datums; also when the decoder lags
                                   behind), the sync marker is found, the source is left behind it
    [count_lowered_detected]       count lowered: the first values, then Err (decompressed data left)
    [trailing_garbage_detected]    bytes behind the stream inside the declared size: Err
    [cut_stream_detected]          declared size too small: Err (given that the 16 bytes read as sync marker
                                   are not the marker); no byte is delivered that was not written
    [damaged_values_genuine]       in the last two cases every value yielded was written, in order (for value
                                   decoders whose success does not depend on bytes they did not read)
    [end_check_before_fix_refuted] the check of commit 8463ea9^ (Take limit only) rejects a valid block of
                                   zero-byte datums and accepts a lowered count -- concrete runs
    Instance with De.de as value decoder: [compressed_block_read_back_de]. Snappy blocks: [snappy_block_*].
    The small codec of DecodeLoop.v runs through all of it ([toy_*]). *)
From Coq Require Import NArith List Lia Bool Arith.
Import ListNotations.
Require Import Base Reader CodecLoop DecodeLoop CodecLoopProofs.
Local Open Scope nat_scope.
Arguments N.add : simpl never.
Arguments N.mul : simpl never.
Arguments N.div : simpl never.
Arguments N.modulo : simpl never.
Arguments Nat.min : simpl never.
Arguments Nat.mul : simpl never.

(* ------------------------------------------------------------------------------------------ *)
(** * Lists *)

Lemma prefix_firstn : forall (p x : bytes), is_prefix p x -> p = firstn (length p) x.
Proof.
  intros p x [r ->]. rewrite firstn_app, Nat.sub_diag, firstn_all. cbn [firstn]. now rewrite app_nil_r.
Qed.

Lemma prefix_skipn : forall (p x : bytes), is_prefix p x -> x = p ++ skipn (length p) x.
Proof.
  intros p x [r ->]. rewrite skipn_app, Nat.sub_diag, skipn_all. reflexivity.
Qed.

Lemma prefix_full : forall (p x : bytes), is_prefix p x -> length x <= length p -> p = x.
Proof.
  intros p x [r ->] H. rewrite app_length in H. destruct r; [now rewrite app_nil_r|cbn in H; lia].
Qed.

Lemma prefix_app_l : forall (p q x : bytes), is_prefix (p ++ q) x -> is_prefix p x.
Proof. intros p q x [r ->]. exists (q ++ r). now rewrite app_assoc. Qed.

Lemma prefix_refl : forall x : bytes, is_prefix x x.
Proof. intros x. exists []. now rewrite app_nil_r. Qed.

Lemma avail_eq : forall (src0 : bytes) lim0 cons, cons <= lim0 ->
  firstn (lim0 - cons) (skipn cons src0) = skipn cons (firstn lim0 src0).
Proof.
  intros src0 lim0 cons H. rewrite firstn_skipn_comm. replace (cons + (lim0 - cons)) with lim0 by lia. reflexivity.
Qed.

Lemma skipn_app_exact : forall (a b : bytes) n, n = length a -> skipn n (a ++ b) = b.
Proof. intros a b n ->. rewrite skipn_app, Nat.sub_diag, skipn_all. reflexivity. Qed.

Lemma firstn_app_exact : forall (a b : bytes) n, n = length a -> firstn n (a ++ b) = a.
Proof. intros a b n ->. rewrite firstn_app, Nat.sub_diag, firstn_all. cbn [firstn]. now rewrite app_nil_r. Qed.

Section Proofs.
Variable D : Type.
Variable dread : D -> bytes -> option chunkst -> nat -> dres * D.
Variable policy : nat -> nat -> option nat.
Variable V : Type.
Variable vdec : bytes -> result V * nat.

Notation dec_read := (dec_read D dread).
Notation br_read := (br_read D dread).
Notation br_demand := (br_demand D dread policy).
Notation drain := (drain D dread).
Notation lookahead := (lookahead D dread).
Notation block_value := (block_value D dread policy V vdec).
Notation block_values := (block_values D dread policy V vdec).
Notation block_end := (block_end D dread).
Notation block_run := (block_run D dread policy V vdec).
Notation dreach := (dreach D dread).
Notation contract := (stream_decoder_contract D dread).
Notation mkB := (mkB D).
Notation b_dec := (b_dec D).
Notation b_take := (b_take D).
Notation b_buf := (b_buf D).
Notation b_cap := (b_cap D).

(* ------------------------------------------------------------------------------------------ *)
(** * One decoder read, seen from a block whose Take was opened on [src0] with limit [lim0] *)
Section Run.
Variable src0 : bytes.
Variable lim0 : nat.
Variable d0 : D.
Notation a := (firstn lim0 src0).

(* the Take of a state in which the decoder has consumed [cons] bytes *)
Definition take_at (t : take) (cons : nat) : Prop :=
  cons <= length a /\ tk_src t = skipn cons src0 /\ tk_limit t = lim0 - cons.

Lemma take_at_avail : forall t cons, take_at t cons -> tk_avail t = skipn cons a.
Proof.
  intros t cons (Hc & Hs & Hl). unfold tk_avail. rewrite Hs, Hl. apply avail_eq.
  pose proof (firstn_le_length lim0 src0). rewrite firstn_length in Hc. lia.
Qed.

Lemma dec_read_cases : forall d cons out t want,
  dreach a d0 d cons out -> take_at t cons -> 1 <= want ->
  match dec_read d t want with
  | (None, _, _) => fst (dread d (skipn cons a) (tk_ch t) want) = DErr
  | (Some o, d', t') =>
      exists o0 k, dread d (skipn cons a) (tk_ch t) want = (DOut o0 k, d') /\ o = firstn want o0 /\
        dreach a d0 d' (cons + Nat.min k (length a - cons)) (out ++ o) /\
        take_at t' (cons + Nat.min k (length a - cons))
  end.
Proof.
  intros d cons out t want R T W. unfold DecodeLoop.dec_read. rewrite (take_at_avail _ _ T).
  destruct (dread d (skipn cons a) (tk_ch t) want) as [[|o0 k] d'] eqn:E; [reflexivity|].
  exists o0, k. split; [reflexivity|]. split; [reflexivity|].
  rewrite skipn_length.
  split; [exact (dreach_read D dread a d0 d cons out (tk_ch t) want o0 k d' R W E)|].
  destruct T as (Hc & Hs & Hl). unfold take_at, tk_consume. cbn [tk_src tk_limit].
  split; [lia|]. split; [rewrite Hs, skipn_add; reflexivity|lia].
Qed.

(** ** The block reader's invariant: [n] decompressed bytes have been handed to the deserializer *)
Definition binv (s : bstate D) (n : nat) : Prop :=
  exists cons out, dreach a d0 (b_dec s) cons out /\ take_at (b_take s) cons /\
                   length out = n + length (b_buf s) /\ b_buf s = skipn n out.

Lemma binv_open : forall ch cap, binv (mkB d0 (mkTk src0 lim0 ch) [] cap) 0.
Proof.
  intros ch cap. exists 0, []. split; [constructor|]. split; [|split; reflexivity].
  unfold take_at. cbn [tk_src tk_limit skipn DecodeLoop.b_take]. split; [lia|]. split; [reflexivity|lia].
Qed.

(* ------------------------------------------------------------------------------------------ *)
(** * The complete stream in the Take *)
Section Complete.
Variable z x : bytes.
Hypothesis Haz : a = z.
Hypothesis K : contract z x a d0.

Lemma reach_prefix : forall d cons out, dreach a d0 d cons out -> is_prefix out x.
Proof. intros. eapply (dc_prefix _ _ _ _ _ _ K); [left; rewrite Haz; apply prefix_refl|eassumption]. Qed.

(* a read on the complete stream: never Err; the output extends the data delivered so far *)
Lemma dec_read_complete : forall d cons out t want,
  dreach a d0 d cons out -> take_at t cons -> 1 <= want ->
  exists o d' t' cons',
    dec_read d t want = (Some o, d', t') /\ dreach a d0 d' cons' (out ++ o) /\ take_at t' cons' /\
    length o <= want /\ is_prefix (out ++ o) x /\
    (length out < length x -> o <> []) /\
    (o = [] -> length z <= cons').
Proof.
  intros d cons out t want R T W.
  pose proof (dec_read_cases d cons out t want R T W) as C.
  destruct (dec_read d t want) as [[[o|] d'] t'].
  - destruct C as (o0 & k & E & -> & R' & T').
    exists (firstn want o0), d', t', (cons + Nat.min k (length a - cons)).
    split; [reflexivity|]. split; [exact R'|]. split; [exact T'|].
    split; [rewrite firstn_length; lia|]. split; [exact (reach_prefix _ _ _ R')|].
    split.
    + intro Hl. exact (dc_progress _ _ _ _ _ _ K Haz d cons out (tk_ch t) want o0 k d' R W Hl E).
    + intro Ho. refine (dc_end _ _ _ _ _ _ K _ d cons out (tk_ch t) want o0 k d' R W E Ho).
      rewrite Haz. apply prefix_refl.
  - exfalso. exact (dc_no_error _ _ _ _ _ _ K Haz d cons out (tk_ch t) want R W C).
Qed.

(** ** Taking [need] bytes *)
Lemma demand_ok : forall fuel need s n,
  binv s n -> 1 <= b_cap s -> n + need <= length x ->
  2 * need + (match b_buf s with [] => 1 | _ => 0 end) < fuel ->
  exists s', br_demand fuel need s = (DemOk, s') /\ binv s' (n + need) /\ b_cap s' = b_cap s.
Proof.
  induction fuel as [|f IH]; intros need s n I Hcap Hn Hf; [lia|].
  cbn [DecodeLoop.br_demand].
  destruct need as [|need'].
  { exists s. rewrite Nat.add_0_r. auto. }
  remember (S need') as need eqn:En.
  destruct I as (cons & out & R & T & Hlen & Hbuf).
  destruct (b_buf s) as [|b0 buf'] eqn:Eb.
  - (* empty buffer *)
    cbn [length] in Hlen. rewrite Nat.add_0_r in Hlen.
    set (direct := match policy need (b_cap s) with
                   | Some r => if (b_cap s <=? r) && (r <=? need) then Some r else None
                   | None => None end).
    assert (Hd : forall r, direct = Some r -> b_cap s <= r /\ r <= need).
    { intros r. unfold direct. destruct (policy need (b_cap s)) as [r0|]; [|discriminate].
      destruct (b_cap s <=? r0) eqn:E1; destruct (r0 <=? need) eqn:E2; cbn [andb]; try discriminate.
      intros H. inversion H; subst. apply Nat.leb_le in E1. apply Nat.leb_le in E2. auto. }
    destruct direct as [r|] eqn:Edir.
    + destruct (Hd r eq_refl) as [Hr1 Hr2].
      destruct (dec_read_complete _ _ _ _ r R T ltac:(lia)) as (o & d' & t' & cons' & E & R' & T' & Ho & Hp & Hne & _).
      rewrite E. destruct o as [|o1 o'] eqn:Eo; [exfalso; apply Hne; [lia|reflexivity]|]. rewrite <- Eo in *.
      assert (Hon : 1 <= length o) by (rewrite Eo; cbn; lia).
      destruct (IH (need - length o) (mkB d' t' [] (b_cap s)) (n + length o)) as (s' & E' & I' & Hc').
      * exists cons', (out ++ o). split; [exact R'|]. split; [exact T'|]. cbn [DecodeLoop.b_buf length].
        split; [rewrite app_length; lia|]. symmetry. apply skipn_all2. rewrite app_length. lia.
      * exact Hcap.
      * lia.
      * cbn [DecodeLoop.b_buf]. lia.
      * exists s'. split; [exact E'|]. split; [|exact Hc'].
        replace (n + need) with (n + length o + (need - length o)) by lia. exact I'.
    + destruct (dec_read_complete _ _ _ _ (b_cap s) R T Hcap) as (o & d' & t' & cons' & E & R' & T' & Ho & Hp & Hne & _).
      rewrite E. destruct o as [|o1 o'] eqn:Eo; [exfalso; apply Hne; [lia|reflexivity]|]. rewrite <- Eo in *.
      destruct (IH need (mkB d' t' o (b_cap s)) n) as (s' & E' & I' & Hc').
      * exists cons', (out ++ o). split; [exact R'|]. split; [exact T'|]. cbn [DecodeLoop.b_buf].
        split; [rewrite app_length; lia|]. symmetry. apply skipn_app_exact. lia.
      * exact Hcap.
      * exact Hn.
      * cbn [DecodeLoop.b_buf]. rewrite Eo. lia.
      * exists s'. auto.
  - (* bytes in the buffer *)
    rewrite <- Eb in *.
    assert (Hb1 : 1 <= length (b_buf s)) by (rewrite Eb; cbn; lia).
    set (m := Nat.min need (length (b_buf s))).
    assert (Hm : 1 <= m /\ m <= need /\ m <= length (b_buf s)) by (unfold m; lia).
    destruct (IH (need - m) (mkB (b_dec s) (b_take s) (skipn m (b_buf s)) (b_cap s)) (n + m)) as (s' & E' & I' & Hc').
    + exists cons, out. cbn [DecodeLoop.b_dec DecodeLoop.b_take DecodeLoop.b_buf].
      split; [exact R|]. split; [exact T|]. rewrite skipn_length.
      split; [lia|]. rewrite Hbuf at 1. rewrite skipn_add. reflexivity.
    + exact Hcap.
    + lia.
    + cbn [DecodeLoop.b_buf]. destruct (skipn m (b_buf s)); lia.
    + exists s'. split; [exact E'|]. split; [|exact Hc'].
      replace (n + need) with (n + m + (need - m)) by lia. exact I'.
Qed.

(** ** What is still to come *)
Lemma drain_complete : forall fuel d cons out t want,
  dreach a d0 d cons out -> take_at t cons -> 1 <= want -> length x - length out < fuel ->
  drain fuel d t want = skipn (length out) x.
Proof.
  induction fuel as [|f IH]; intros d cons out t want R T W Hf; [lia|].
  cbn [DecodeLoop.drain].
  destruct (dec_read_complete _ _ _ _ want R T W) as (o & d' & t' & cons' & E & R' & T' & Ho & Hp & Hne & _).
  rewrite E. pose proof (reach_prefix _ _ _ R) as Hpo.
  destruct o as [|o1 o'] eqn:Eo.
  - destruct (Nat.lt_ge_cases (length out) (length x)) as [Hlt|Hge]; [exfalso; exact (Hne Hlt eq_refl)|].
    symmetry. apply skipn_all2. exact Hge.
  - rewrite <- Eo in *. rewrite (IH d' cons' (out ++ o) t' want R' T' W).
    + rewrite app_length. rewrite (prefix_skipn _ _ Hp) at 2.
      rewrite <- app_assoc, skipn_app_exact by reflexivity. rewrite app_length. reflexivity.
    + pose proof (prefix_length _ _ Hp) as L. rewrite app_length in *. rewrite Eo in *. cbn [length] in *. lia.
Qed.

Lemma lookahead_complete : forall fuel s n,
  binv s n -> 1 <= b_cap s -> length x < fuel -> lookahead fuel s = skipn n x.
Proof.
  intros fuel s n (cons & out & R & T & Hlen & Hbuf) Hcap Hf. unfold DecodeLoop.lookahead.
  rewrite (drain_complete fuel _ _ _ _ _ R T Hcap) by lia.
  pose proof (reach_prefix _ _ _ R) as Hp. rewrite Hbuf.
  assert (Hx : x = out ++ skipn (length out) x) by exact (prefix_skipn _ _ Hp).
  assert (Hn : n <= length out) by lia.
  set (r := skipn (length out) x) in *. rewrite Hx.
  rewrite skipn_app. replace (n - length out) with 0 by lia. reflexivity.
Qed.

(** ** The values *)
Variable Wv : Type.
Variable P : Wv -> Prop.
Variable enc1 : Wv -> bytes.
Variable val : Wv -> V.
Hypothesis Hv : vdec_ok V vdec Wv P enc1 val.
Notation encs := (flat_map enc1).

Lemma block_value_ok : forall fuel s n v more, P v ->
  binv s n -> 1 <= b_cap s -> length x < fuel -> skipn n x = enc1 v ++ more -> n <= length x ->
  exists s', block_value fuel s = (Some (val v), s') /\ binv s' (n + length (enc1 v)) /\ b_cap s' = b_cap s.
Proof.
  intros fuel s n v more Pv I Hcap Hf Hx Hn. unfold DecodeLoop.block_value.
  rewrite (lookahead_complete fuel s n I Hcap Hf), Hx, (Hv v more Pv).
  rewrite app_length. replace (length (enc1 v) + length more <? length (enc1 v)) with false by (symmetry; apply Nat.ltb_ge; lia).
  assert (Hl : n + length (enc1 v) <= length x).
  { pose proof (f_equal (@length _) Hx) as L. rewrite skipn_length, app_length in L. lia. }
  destruct (demand_ok (2 * length (enc1 v) + 2) (length (enc1 v)) s n I Hcap Hl) as (s' & E & I' & Hc).
  { destruct (b_buf s); lia. }
  rewrite E. exists s'. auto.
Qed.

Lemma block_values_ok : forall fuel vs s n more, Forall P vs ->
  binv s n -> 1 <= b_cap s -> length x < fuel -> skipn n x = encs vs ++ more -> n <= length x ->
  exists s', block_values fuel (length vs) s = (map val vs, Some s') /\ binv s' (n + length (encs vs)) /\ b_cap s' = b_cap s.
Proof.
  intros fuel vs. induction vs as [|v vs IH]; intros s n more HP I Hcap Hf Hx Hn.
  - exists s. cbn [length flat_map map DecodeLoop.block_values]. rewrite Nat.add_0_r. auto.
  - cbn [length flat_map map DecodeLoop.block_values]. cbn [flat_map] in Hx. rewrite <- app_assoc in Hx.
    pose proof (Forall_inv HP) as Pv. pose proof (Forall_inv_tail HP) as HP'.
    destruct (block_value_ok fuel s n v _ Pv I Hcap Hf Hx Hn) as (s1 & E1 & I1 & C1). rewrite E1.
    assert (Hl : n + length (enc1 v) <= length x).
    { pose proof (f_equal (@length _) Hx) as L. rewrite skipn_length, app_length in L. lia. }
    destruct (IH s1 (n + length (enc1 v)) more HP' I1) as (s2 & E2 & I2 & C2).
    + lia.
    + exact Hf.
    + rewrite <- skipn_add, Hx. apply skipn_app_exact. reflexivity.
    + exact Hl.
    + rewrite E2. exists s2. split; [reflexivity|]. split; [|lia].
      rewrite app_length. replace (n + (length (enc1 v) + length (encs vs))) with (n + length (enc1 v) + length (encs vs)) by lia.
      exact I2.
Qed.

(** ** The end-of-block check after all of the data has been handed out *)
Lemma end_ok : forall s, binv s (length x) -> 1 <= b_cap s -> lim0 <= length z ->
  exists s', block_end s = (EndOk, s') /\ tk_src (b_take s') = skipn (length z) src0 /\ b_buf s' = [].
Proof.
  intros s (cons & out & R & T & Hlen & Hbuf) Hcap Hlz.
  pose proof (reach_prefix _ _ _ R) as Hp. pose proof (prefix_length _ _ Hp) as L.
  assert (Hb : b_buf s = []) by (destruct (b_buf s); [reflexivity|cbn [length] in Hlen; lia]).
  assert (Hout : length out = length x) by (rewrite Hb in Hlen; cbn [length] in Hlen; lia).
  unfold DecodeLoop.block_end, DecodeLoop.br_read. rewrite Hb.
  assert (Hfin : forall want, 1 <= want ->
    exists d' t' cons', dec_read (b_dec s) (b_take s) want = (Some [], d', t') /\ take_at t' cons' /\ cons' = length z).
  { intros want W.
    destruct (dec_read_complete _ _ _ _ want R T W) as (o & d' & t' & cons' & E & R' & T' & Ho & Hp' & _ & Hend).
    assert (o = []).
    { pose proof (prefix_length _ _ Hp') as L'. rewrite app_length in L'. destruct o; [reflexivity|cbn [length] in L'; lia]. }
    subst o. exists d', t', cons'. split; [exact E|]. split; [exact T'|].
    pose proof (dc_trailing _ _ _ _ _ _ K ltac:(rewrite Haz; apply prefix_refl) _ _ _ R'). specialize (Hend eq_refl). lia. }
  assert (Hlim : forall t' cons', take_at t' cons' -> cons' = length z -> tk_limit t' = 0 /\ tk_src t' = skipn (length z) src0).
  { intros t' cons' (Hc & Hs & Hl) ->. split; [|exact Hs]. rewrite Hl.
    lia. }
  destruct (b_cap s <=? 1) eqn:Ec.
  - destruct (Hfin 1 (le_n 1)) as (d' & t' & cons' & E & T' & Hc). rewrite E.
    destruct (Hlim _ _ T' Hc) as [H0 Hs]. cbn [DecodeLoop.b_take]. rewrite H0. cbn [Nat.eqb].
    eexists. split; [reflexivity|]. split; [exact Hs|reflexivity].
  - destruct (Hfin (b_cap s) Hcap) as (d' & t' & cons' & E & T' & Hc). rewrite E. cbn [firstn skipn].
    destruct (Hlim _ _ T' Hc) as [H0 Hs]. cbn [DecodeLoop.b_take]. rewrite H0. cbn [Nat.eqb].
    eexists. split; [reflexivity|]. split; [exact Hs|reflexivity].
Qed.


(** ** A lowered count: data is left *)
Lemma end_leftover : forall s n, binv s n -> 1 <= b_cap s -> n < length x ->
  fst (block_end s) = EndLeftover.
Proof.
  intros s n (cons & out & R & T & Hlen & Hbuf) Hcap Hn.
  unfold DecodeLoop.block_end, DecodeLoop.br_read.
  destruct (b_buf s) as [|b0 buf'] eqn:Eb; [|reflexivity].
  cbn [length] in Hlen.
  destruct (b_cap s <=? 1).
  - destruct (dec_read_complete _ _ _ _ 1 R T (le_n 1)) as (o & d' & t' & cons' & E & _ & _ & _ & _ & Hne & _).
    rewrite E. destruct o; [exfalso; apply Hne; [lia|reflexivity]|reflexivity].
  - destruct (dec_read_complete _ _ _ _ (b_cap s) R T Hcap) as (o & d' & t' & cons' & E & _ & _ & _ & _ & Hne & _).
    rewrite E. destruct o; [exfalso; apply Hne; [lia|reflexivity]|reflexivity].
Qed.

End Complete.

(* ------------------------------------------------------------------------------------------ *)
(** * Whatever the Take holds: the decoder stays a reachable one, the Take is where the decoder left it *)
Definition winv (s : bstate D) : Prop :=
  1 <= b_cap s /\ exists cons out, dreach a d0 (b_dec s) cons out /\ take_at (b_take s) cons.

Lemma binv_winv : forall s n, binv s n -> 1 <= b_cap s -> winv s.
Proof. intros s n (cons & out & R & T & _) Hc. split; [exact Hc|]. exists cons, out. auto. Qed.

Lemma dec_read_winv : forall d cons out t want o d' t',
  dreach a d0 d cons out -> take_at t cons -> 1 <= want -> dec_read d t want = (Some o, d', t') ->
  exists cons', dreach a d0 d' cons' (out ++ o) /\ take_at t' cons'.
Proof.
  intros d cons out t want o d' t' R T W E. pose proof (dec_read_cases d cons out t want R T W) as C.
  rewrite E in C. destruct C as (o0 & k & _ & _ & R' & T'). eauto.
Qed.

Lemma demand_winv : forall fuel need s s', winv s -> br_demand fuel need s = (DemOk, s') -> winv s'.
Proof.
  induction fuel as [|f IH]; intros need s s' W E; [discriminate|].
  cbn [DecodeLoop.br_demand] in E. destruct need as [|need']; [inversion E; subst; exact W|].
  destruct W as (Hcap & cons & out & R & T).
  destruct (b_buf s) as [|b0 buf'] eqn:Eb.
  - destruct (policy (S need') (b_cap s)) as [r|].
    + destruct ((b_cap s <=? r) && (r <=? S need')) eqn:Ec.
      * apply andb_prop in Ec. destruct Ec as [E1 _]. apply Nat.leb_le in E1.
        destruct (dec_read (b_dec s) (b_take s) r) as [[[o|] d'] t'] eqn:Er; [|discriminate].
        destruct o as [|o1 o']; [discriminate|].
        assert (Hr : 1 <= r) by lia.
        destruct (dec_read_winv _ _ _ _ _ _ _ _ R T Hr Er) as (cons' & R' & T').
        apply IH in E; [exact E|]. split; [exact Hcap|]. exists cons', (out ++ o1 :: o'). auto.
      * destruct (dec_read (b_dec s) (b_take s) (b_cap s)) as [[[o|] d'] t'] eqn:Er; [|discriminate].
        destruct o as [|o1 o']; [discriminate|].
        destruct (dec_read_winv _ _ _ _ _ _ _ _ R T Hcap Er) as (cons' & R' & T').
        apply IH in E; [exact E|]. split; [exact Hcap|]. exists cons', (out ++ o1 :: o'). auto.
    + destruct (dec_read (b_dec s) (b_take s) (b_cap s)) as [[[o|] d'] t'] eqn:Er; [|discriminate].
      destruct o as [|o1 o']; [discriminate|].
      destruct (dec_read_winv _ _ _ _ _ _ _ _ R T Hcap Er) as (cons' & R' & T').
      apply IH in E; [exact E|]. split; [exact Hcap|]. exists cons', (out ++ o1 :: o'). auto.
  - apply IH in E; [exact E|]. split; [exact Hcap|]. exists cons, out. auto.
Qed.

Lemma values_winv : forall fuel count s ws s', winv s -> block_values fuel count s = (ws, Some s') -> winv s'.
Proof.
  intros fuel count. induction count as [|c IH]; intros s ws s' W E.
  - cbn in E. inversion E; subst. exact W.
  - cbn [DecodeLoop.block_values] in E. unfold DecodeLoop.block_value in E.
    destruct (vdec (lookahead fuel s)) as [[v| | | |] k].
    + destruct (length (lookahead fuel s) <? k); [discriminate|].
      destruct (br_demand (2 * k + 2) k s) as [[| | |] s1] eqn:Ed; try discriminate.
      destruct (block_values fuel c s1) as [vs r] eqn:Ev. inversion E; subst.
      exact (IH _ _ _ (demand_winv _ _ _ _ W Ed) Ev).
    + discriminate.
    + discriminate.
    + discriminate.
    + discriminate.
Qed.

(* when the end-of-block check passes, the Take limit is 0 and the Take is where the decoder left it *)
Lemma end_ok_inv : forall s s', winv s -> block_end s = (EndOk, s') ->
  exists cons out, dreach a d0 (b_dec s') cons out /\ take_at (b_take s') cons /\ tk_limit (b_take s') = 0.
Proof.
  intros s s' (Hcap & cons & out & R & T) E. unfold DecodeLoop.block_end, DecodeLoop.br_read in E.
  destruct (b_buf s) as [|b0 buf']; [|discriminate].
  assert (G : forall want o d' t', 1 <= want -> dec_read (b_dec s) (b_take s) want = (Some o, d', t') ->
              (if tk_limit t' =? 0 then (EndOk, mkB d' t' [] (b_cap s)) else (EndTakeLeft, mkB d' t' [] (b_cap s))) = (EndOk, s') ->
              exists cons out, dreach a d0 (b_dec s') cons out /\ take_at (b_take s') cons /\ tk_limit (b_take s') = 0).
  { intros want o d' t' W Er E1. destruct (dec_read_winv _ _ _ _ _ _ _ _ R T W Er) as (cons' & R' & T').
    destruct (tk_limit t' =? 0) eqn:El; [|discriminate]. inversion E1; subst. cbn [DecodeLoop.b_dec DecodeLoop.b_take].
    apply Nat.eqb_eq in El. eauto. }
  destruct (b_cap s <=? 1).
  - destruct (dec_read (b_dec s) (b_take s) 1) as [[[o|] d'] t'] eqn:Er; [|discriminate].
    destruct o as [|o1 o']; [|discriminate]. cbn [DecodeLoop.b_take] in E. exact (G 1 [] d' t' (le_n 1) Er E).
  - destruct (dec_read (b_dec s) (b_take s) (b_cap s)) as [[[o|] d'] t'] eqn:Er; [|discriminate].
    destruct o as [|o1 o']; [|discriminate]. cbn [firstn skipn DecodeLoop.b_take] in E. exact (G (b_cap s) [] d' t' Hcap Er E).
Qed.

(** ** Accounting without the complete stream: what a successful demand does *)
Lemma demand_acc : forall fuel need s s' n, binv s n -> 1 <= b_cap s ->
  br_demand fuel need s = (DemOk, s') -> binv s' (n + need) /\ b_cap s' = b_cap s.
Proof.
  induction fuel as [|f IH]; intros need s s' n I Hcap E; [discriminate|].
  cbn [DecodeLoop.br_demand] in E. destruct need as [|need'].
  { inversion E; subst. rewrite Nat.add_0_r. auto. }
  destruct I as (cons & out & R & T & Hlen & Hbuf).
  destruct (b_buf s) as [|b0 buf'] eqn:Eb.
  - cbn [length] in Hlen. rewrite Nat.add_0_r in Hlen.
    assert (G : forall want o d' t', 1 <= want -> dec_read (b_dec s) (b_take s) want = (Some o, d', t') ->
              binv (mkB d' t' [] (b_cap s)) (n + length o) /\ binv (mkB d' t' o (b_cap s)) n).
    { intros want o d' t' Hw Er. destruct (dec_read_winv _ _ _ _ _ _ _ _ R T Hw Er) as (cons' & R' & T'). split.
      - exists cons', (out ++ o). split; [exact R'|]. split; [exact T'|]. cbn [DecodeLoop.b_buf length].
        split; [rewrite app_length; lia|]. symmetry. apply skipn_all2. rewrite app_length. lia.
      - exists cons', (out ++ o). split; [exact R'|]. split; [exact T'|]. cbn [DecodeLoop.b_buf].
        split; [rewrite app_length; lia|]. symmetry. apply skipn_app_exact. lia. }
    assert (Hfill : forall o d' t' s1, dec_read (b_dec s) (b_take s) (b_cap s) = (Some o, d', t') ->
              br_demand f (S need') (mkB d' t' o (b_cap s)) = (DemOk, s1) -> binv s1 (n + S need') /\ b_cap s1 = b_cap s).
    { intros o d' t' s1 Er E'. destruct (G _ _ _ _ Hcap Er) as [_ I2]. exact (IH _ _ _ _ I2 Hcap E'). }
    destruct (policy (S need') (b_cap s)) as [r|].
    2:{ destruct (dec_read (b_dec s) (b_take s) (b_cap s)) as [[[o|] d'] t'] eqn:Er; [|discriminate].
        destruct o as [|o1 o']; [discriminate|]. exact (Hfill _ _ _ _ eq_refl E). }
    destruct ((b_cap s <=? r) && (r <=? S need')) eqn:Ec.
    2:{ destruct (dec_read (b_dec s) (b_take s) (b_cap s)) as [[[o|] d'] t'] eqn:Er; [|discriminate].
        destruct o as [|o1 o']; [discriminate|]. exact (Hfill _ _ _ _ eq_refl E). }
    apply andb_prop in Ec. destruct Ec as [E1 E2]. apply Nat.leb_le in E1. apply Nat.leb_le in E2.
    assert (Hr : 1 <= r) by lia.
    destruct (dec_read (b_dec s) (b_take s) r) as [[[o|] d'] t'] eqn:Er; [|discriminate].
    destruct o as [|o1 o'] eqn:Eo; [discriminate|]. rewrite <- Eo in *.
    destruct (G _ _ _ _ Hr Er) as [I1 _].
    assert (Lo : length o <= r).
    { unfold DecodeLoop.dec_read in Er. destruct (dread (b_dec s) (tk_avail (b_take s)) (tk_ch (b_take s)) r) as [[|o0 k0] dd]; [discriminate|].
      inversion Er; subst. rewrite firstn_length. lia. }
    destruct (IH _ _ _ _ I1 Hcap E) as [I' C']. split; [|exact C'].
    replace (n + S need') with (n + length o + (S need' - length o)) by lia. exact I'.
  - rewrite <- Eb in *.
    assert (Hb1 : 1 <= length (b_buf s)) by (rewrite Eb; cbn; lia).
    set (m := Nat.min (S need') (length (b_buf s))) in *.
    assert (Hm : 1 <= m /\ m <= S need' /\ m <= length (b_buf s)) by (unfold m; lia).
    destruct (IH (S need' - m) (mkB (b_dec s) (b_take s) (skipn m (b_buf s)) (b_cap s)) s' (n + m)) as [I' C'].
    + exists cons, out. cbn [DecodeLoop.b_dec DecodeLoop.b_take DecodeLoop.b_buf].
      split; [exact R|]. split; [exact T|]. rewrite skipn_length.
      split; [lia|]. rewrite Hbuf at 1. rewrite skipn_add. reflexivity.
    + exact Hcap.
    + exact E.
    + split; [|exact C']. replace (n + S need') with (n + m + (S need' - m)) by lia. exact I'.
Qed.

(* what is still to come is produced by a reachable decoder *)
Lemma drain_reach : forall fuel d cons out t want, dreach a d0 d cons out -> take_at t cons -> 1 <= want ->
  exists d' cons', dreach a d0 d' cons' (out ++ drain fuel d t want).
Proof.
  induction fuel as [|f IH]; intros d cons out t want R T Hw.
  - exists d, cons. cbn [DecodeLoop.drain]. rewrite app_nil_r. exact R.
  - cbn [DecodeLoop.drain]. destruct (dec_read d t want) as [[[o|] d'] t'] eqn:Er.
    + destruct (dec_read_winv _ _ _ _ _ _ _ _ R T Hw Er) as (cons' & R' & T').
      destruct o as [|o1 o']; [exists d, cons; rewrite app_nil_r; exact R|].
      destruct (IH d' cons' (out ++ o1 :: o') t' want R' T' Hw) as (d2 & c2 & R2).
      exists d2, c2. rewrite <- app_assoc in R2. exact R2.
    + exists d, cons. rewrite app_nil_r. exact R.
Qed.

Lemma prefix_skipn_mono : forall (p q : bytes) n, is_prefix p q -> n <= length p -> is_prefix (skipn n p) (skipn n q).
Proof.
  intros p q n [r ->] H. exists r. rewrite skipn_app. replace (n - length p) with 0 by lia. reflexivity.
Qed.

(** ** Damaged blocks: every value yielded was written, in order *)
Section Genuine.
Variable z x : bytes.
Hypothesis Hag : agree a z.
Hypothesis K : contract z x a d0.
Variable Wv : Type.
Variable P : Wv -> Prop.
Variable enc1 : Wv -> bytes.
Variable val : Wv -> V.
Hypothesis Hv : vdec_ok V vdec Wv P enc1 val.
Hypothesis Hdet : vdec_prefix_det V vdec.
Notation encs := (flat_map enc1).

Lemma lookahead_prefix : forall fuel s n, binv s n -> 1 <= b_cap s -> is_prefix (lookahead fuel s) (skipn n x).
Proof.
  intros fuel s n (cons & out & R & T & Hlen & Hbuf) Hcap. unfold DecodeLoop.lookahead.
  destruct (drain_reach fuel _ _ _ _ (b_cap s) R T Hcap) as (d' & c' & R').
  pose proof (dc_prefix _ _ _ _ _ _ K Hag _ _ _ R') as Pp.
  rewrite Hbuf. replace (skipn n out ++ drain fuel (b_dec s) (b_take s) (b_cap s))
    with (skipn n (out ++ drain fuel (b_dec s) (b_take s) (b_cap s))).
  - apply prefix_skipn_mono; [exact Pp|rewrite app_length; lia].
  - rewrite skipn_app. replace (n - length out) with 0 by lia. reflexivity.
Qed.

Lemma values_genuine : forall fuel count rest s n ws r,
  binv s n -> 1 <= b_cap s -> skipn n x = encs rest -> count <= length rest -> Forall P rest ->
  block_values fuel count s = (ws, r) -> exists i, ws = map val (firstn i rest).
Proof.
  intros fuel count. induction count as [|c IH]; intros rest s n ws r I Hcap Hx Hc HP E.
  - cbn in E. inversion E; subst. exists 0. reflexivity.
  - destruct rest as [|v rest']; [cbn [length] in Hc; lia|].
    cbn [DecodeLoop.block_values] in E. unfold DecodeLoop.block_value in E.
    pose proof (lookahead_prefix fuel s n I Hcap) as [ext Hla]. rewrite Hx in Hla. cbn [flat_map] in Hla.
    destruct (vdec (lookahead fuel s)) as [[w| | | |] k] eqn:Ev;
      try (inversion E; subst; exists 0; reflexivity).
    destruct (length (lookahead fuel s) <? k) eqn:El; [inversion E; subst; exists 0; reflexivity|].
    apply Nat.ltb_ge in El.
    pose proof (Hdet _ ext _ _ Ev El) as Ed. rewrite <- Hla, (Hv v _ (Forall_inv HP)) in Ed.
    inversion Ed; subst w k.
    destruct (br_demand (2 * length (enc1 v) + 2) (length (enc1 v)) s) as [[| | |] s1] eqn:Edm;
      try (inversion E; subst; exists 0; reflexivity).
    destruct (demand_acc _ _ _ _ _ I Hcap Edm) as [I1 C1].
    destruct (block_values fuel c s1) as [ws1 r1] eqn:Ebv. inversion E; subst.
    destruct (IH rest' s1 (n + length (enc1 v)) ws1 r I1) as [i Hi].
    + lia.
    + rewrite <- skipn_add, Hx. cbn [flat_map]. apply skipn_app_exact. reflexivity.
    + cbn [length] in Hc. lia.
    + exact (Forall_inv_tail HP).
    + exact Ebv.
    + exists (S i). cbn [firstn map]. rewrite Hi. reflexivity.
Qed.

End Genuine.

End Run.

(* ------------------------------------------------------------------------------------------ *)
(** * The theorems *)

Lemma dl_bytes_eqb_refl : forall b : bytes, bytes_eqb b b = true.
Proof.
  intros b. unfold bytes_eqb. rewrite Nat.eqb_refl. cbn [andb].
  induction b as [|y b IH]; [reflexivity|]. cbn [combine forallb fst snd]. rewrite N.eqb_refl. exact IH.
Qed.

Lemma dl_bytes_eqb_true : forall a b : bytes, bytes_eqb a b = true -> a = b.
Proof.
  intros a b H. unfold bytes_eqb in H. apply andb_prop in H. destruct H as [Hl Hf]. apply Nat.eqb_eq in Hl.
  revert b Hl Hf. induction a as [|y a IH]; intros [|y' b] Hl Hf; try discriminate; [reflexivity|].
  cbn [combine forallb fst snd] in Hf. apply andb_prop in Hf. destruct Hf as [H1 H2].
  apply N.eqb_eq in H1. subst y'. f_equal. apply IH; [cbn in Hl; lia|exact H2].
Qed.

Definition is_err (e : bend) : Prop := match e with BDone _ _ => False | _ => True end.

Lemma block_open_state : forall d0 src ch size cap s,
  block_open D d0 src ch size cap = Some s -> s = mkB d0 (mkTk src size ch) [] cap.
Proof.
  intros d0 src ch size cap s H. unfold block_open in H. destruct ch.
  - now inversion H.
  - destruct (length src <? size); [discriminate|now inversion H].
Qed.

Section Theorems.
Variable Wv : Type.
Variable P : Wv -> Prop.
Variable enc1 : Wv -> bytes.
Variable val : Wv -> V.
Hypothesis Hv : vdec_ok V vdec Wv P enc1 val.
Notation encs := (flat_map enc1).

(* a block as written: the complete stream of the encodings of the count values, then the sync marker *)
Theorem compressed_block_read_back : forall (z : bytes) (d0 : D) (vs : list Wv) sync rest ch cap fuel s,
  Forall P vs -> length sync = 16 -> contract z (encs vs) z d0 -> 1 <= cap -> length (encs vs) < fuel ->
  block_open D d0 (z ++ sync ++ rest) ch (length z) cap = Some s ->
  exists ch', block_run fuel (length vs) sync s = (map val vs, BDone rest ch').
Proof.
  intros z d0 vs sync rest ch cap fuel s HP Hs K Hcap Hf Ho.
  apply block_open_state in Ho. subst s.
  set (src0 := z ++ sync ++ rest).
  assert (Haz : firstn (length z) src0 = z) by (unfold src0; apply firstn_app_exact; reflexivity).
  rewrite <- Haz in K at 2.
  pose proof (binv_open src0 (length z) d0 ch cap) as I0.
  destruct (block_values_ok src0 (length z) d0 z (encs vs) Haz K Wv P enc1 val Hv fuel vs _ 0 [] HP I0 Hcap Hf) as (s1 & E1 & I1 & C1).
  { cbn [skipn]. now rewrite app_nil_r. }
  { lia. }
  unfold DecodeLoop.block_run. rewrite E1.
  destruct (end_ok src0 (length z) d0 z (encs vs) Haz K s1 I1) as (s2 & E2 & Hsrc & _).
  { rewrite C1. exact Hcap. }
  { lia. }
  rewrite E2. unfold sync_check. rewrite Hsrc. unfold src0. rewrite skipn_app_exact by reflexivity.
  rewrite app_length, Hs. replace (16 + length rest <? 16) with false by (symmetry; apply Nat.ltb_ge; lia).
  rewrite (firstn_app_exact sync rest 16) by (symmetry; exact Hs). rewrite dl_bytes_eqb_refl.
  rewrite (skipn_app_exact sync rest 16) by (symmetry; exact Hs). eexists. reflexivity.
Qed.

(* the object count lowered: the first values, then "decompressed data left in the block" *)
Theorem count_lowered_detected : forall (z : bytes) (d0 : D) (vs1 vs2 : list Wv) sync src ch cap fuel s,
  Forall P vs1 -> encs vs2 <> [] -> firstn (length z) src = z ->
  contract z (encs (vs1 ++ vs2)) z d0 -> 1 <= cap -> length (encs (vs1 ++ vs2)) < fuel ->
  block_open D d0 src ch (length z) cap = Some s ->
  block_run fuel (length vs1) sync s = (map val vs1, BEndErr EndLeftover).
Proof.
  intros z d0 vs1 vs2 sync src ch cap fuel s HP Hne Haz K Hcap Hf Ho.
  apply block_open_state in Ho. subst s.
  rewrite <- Haz in K at 2.
  pose proof (binv_open src (length z) d0 ch cap) as I0.
  assert (Hx : encs (vs1 ++ vs2) = encs vs1 ++ encs vs2) by apply flat_map_app.
  destruct (block_values_ok src (length z) d0 z _ Haz K Wv P enc1 val Hv fuel vs1 _ 0 (encs vs2) HP I0 Hcap Hf) as (s1 & E1 & I1 & C1).
  { cbn [skipn]. exact Hx. }
  { lia. }
  unfold DecodeLoop.block_run. rewrite E1.
  pose proof (end_leftover src (length z) d0 z _ Haz K s1 _ I1) as El.
  destruct (block_end s1) as [e s2]. cbn [fst] in El. rewrite El.
  - reflexivity.
  - rewrite C1. exact Hcap.
  - rewrite Hx, app_length. destruct (encs vs2); [contradiction|cbn [length]; lia].
Qed.

End Theorems.

(* bytes behind the end of the stream inside the declared size: an error, whatever the count *)
Theorem trailing_garbage_detected : forall (z x junk : bytes) (d0 : D) sync src ch cap fuel count s,
  junk <> [] -> firstn (length z + length junk) src = z ++ junk ->
  contract z x (z ++ junk) d0 -> 1 <= cap ->
  block_open D d0 src ch (length z + length junk) cap = Some s ->
  is_err (snd (block_run fuel count sync s)).
Proof.
  intros z x junk d0 sync src ch cap fuel count s Hj Ha K Hcap Ho.
  apply block_open_state in Ho. subst s. rewrite <- Ha in K.
  pose proof (binv_winv src _ d0 _ 0 (binv_open src (length z + length junk) d0 ch cap) Hcap) as W.
  unfold DecodeLoop.block_run.
  destruct (block_values fuel count _) as [ws [s1|]] eqn:Ev; [|exact I].
  pose proof (values_winv src _ d0 fuel count _ _ _ W Ev) as W1.
  destruct (block_end s1) as [[| | |] s2] eqn:Ee; try exact I.
  exfalso. destruct (end_ok_inv src _ d0 s1 s2 W1 Ee) as (cons & out & R & (Hc & Hs & Hl) & H0).
  assert (Hp : is_prefix z (firstn (length z + length junk) src)) by (rewrite Ha; exists junk; reflexivity).
  pose proof (dc_trailing _ _ _ _ _ _ K Hp _ _ _ R) as Ht.
  destruct junk; [contradiction|]. cbn [length] in *. lia.
Qed.

(* the declared size too small: the stream is cut. An error -- unless the 16 bytes found where the sync
   marker is expected are the marker *)
Theorem cut_stream_detected : forall (z x : bytes) (d0 : D) sync rest m ch cap fuel count s,
  m < length z -> contract z x (firstn m z) d0 -> 1 <= cap ->
  firstn 16 (skipn m (z ++ sync ++ rest)) <> sync ->
  block_open D d0 (z ++ sync ++ rest) ch m cap = Some s ->
  is_err (snd (block_run fuel count sync s)).
Proof.
  intros z x d0 sync rest m ch cap fuel count s Hm K Hcap Hsy Ho.
  apply block_open_state in Ho. subst s.
  set (src0 := z ++ sync ++ rest) in *.
  assert (Ha : firstn m src0 = firstn m z).
  { unfold src0. rewrite firstn_app. replace (m - length z) with 0 by lia. cbn [firstn]. now rewrite app_nil_r. }
  rewrite <- Ha in K.
  pose proof (binv_winv src0 _ d0 _ 0 (binv_open src0 m d0 ch cap) Hcap) as W.
  unfold DecodeLoop.block_run.
  destruct (block_values fuel count _) as [ws [s1|]] eqn:Ev; [|exact I].
  pose proof (values_winv src0 _ d0 fuel count _ _ _ W Ev) as W1.
  destruct (block_end s1) as [[| | |] s2] eqn:Ee; try exact I.
  destruct (end_ok_inv src0 _ d0 s1 s2 W1 Ee) as (cons & out & R & (Hc & Hs & Hl) & H0).
  assert (Hcm : cons = m).
  { rewrite Ha, firstn_length in Hc. lia. }
  cbn [snd]. unfold sync_check. rewrite Hs, Hcm.
  destruct (length (skipn m src0) <? 16); [exact I|].
  destruct (bytes_eqb (firstn 16 (skipn m src0)) sync) eqn:Eb; [|exact I].
  apply dl_bytes_eqb_true in Eb. contradiction.
Qed.

(* in both cases every decompressed byte handed to the deserializer is a byte of the written data at the
   same position: whatever the decoder has produced is a prefix of the data *)
Theorem damaged_output_genuine : forall (z x a : bytes) (d0 : D) d cons out,
  agree a z -> contract z x a d0 -> dreach a d0 d cons out -> is_prefix out x.
Proof. intros z x a d0 d cons out Hag K R. exact (dc_prefix _ _ _ _ _ _ K Hag _ _ _ R). Qed.

(* ... and for a value decoder whose success does not depend on bytes it did not read, every VALUE yielded by a
   block holding the stream cut short or followed by other bytes (or the stream itself) was written, in order *)
Theorem damaged_values_genuine :
  forall (Wv : Type) (P : Wv -> Prop) (enc1 : Wv -> bytes) (val : Wv -> V),
  vdec_ok V vdec Wv P enc1 val -> vdec_prefix_det V vdec ->
  forall (z : bytes) (d0 : D) (vs : list Wv) sync src size ch cap fuel count s,
  Forall P vs -> agree (firstn size src) z -> contract z (flat_map enc1 vs) (firstn size src) d0 ->
  1 <= cap -> count <= length vs ->
  block_open D d0 src ch size cap = Some s ->
  exists i, fst (block_run fuel count sync s) = map val (firstn i vs).
Proof.
  intros Wv P enc1 val Hv Hdet z d0 vs sync src size ch cap fuel count s HP Hag K Hcap Hc Ho.
  apply block_open_state in Ho. subst s.
  pose proof (binv_open src size d0 ch cap) as I0.
  unfold DecodeLoop.block_run.
  destruct (block_values fuel count _) as [ws r] eqn:Ev.
  destruct (values_genuine src size d0 z _ Hag K Wv P enc1 val Hv Hdet fuel count vs _ 0 ws r I0 Hcap eq_refl Hc HP Ev) as [i Hi].
  exists i. destruct r as [s1|]; [|exact Hi]. destruct (block_end s1) as [[| | |] s2]; exact Hi.
Qed.

End Proofs.

(* ------------------------------------------------------------------------------------------ *)
(** * Snappy blocks *)
Section SnappyProofs.
Variable raw_enc : bytes -> bytes.
Variable raw_dec : bytes -> option bytes.
Variable crc32 : bytes -> N.
Hypothesis Hraw : forall x, raw_dec (raw_enc x) = Some x.
Hypothesis Hcrc : forall x, (crc32 x < 4294967296)%N.
Variable V : Type.
Variable vdec : bytes -> result V * nat.
Variable Wv : Type.
Variable P : Wv -> Prop.
Variable enc1 : Wv -> bytes.
Variable val : Wv -> V.
Hypothesis Hv : vdec_ok V vdec Wv P enc1 val.
Notation encs := (flat_map enc1).

Lemma snappy_values_ok : forall vs more, Forall P vs ->
  snappy_values V vdec (length vs) (encs vs ++ more) = (map val vs, Some more).
Proof.
  induction vs as [|v vs IH]; intros more HP; [reflexivity|].
  cbn [length flat_map map snappy_values]. rewrite <- app_assoc, (Hv v _ (Forall_inv HP)).
  rewrite app_length. replace (length (enc1 v) + length (encs vs ++ more) <? length (enc1 v)) with false
    by (symmetry; apply Nat.ltb_ge; lia).
  rewrite skipn_app_exact by reflexivity. rewrite (IH more (Forall_inv_tail HP)). reflexivity.
Qed.

Lemma snappy_open_ok : forall x after,
  snappy_open raw_dec crc32 (snappy_encode raw_enc crc32 x ++ after) (length (snappy_encode raw_enc crc32 x)) = Some (x, after).
Proof.
  intros x after. unfold snappy_open. rewrite app_length.
  replace (length (snappy_encode raw_enc crc32 x) + length after <? length (snappy_encode raw_enc crc32 x)) with false
    by (symmetry; apply Nat.ltb_ge; lia).
  rewrite firstn_app_exact by reflexivity. rewrite (snappy_framing_roundtrip raw_enc raw_dec crc32 Hraw Hcrc x).
  rewrite skipn_app_exact by reflexivity. reflexivity.
Qed.

(* a snappy block as written reads back and is left at the source behind the sync marker *)
Theorem snappy_block_read_back : forall vs sync rest, Forall P vs -> length sync = 16 ->
  snappy_run raw_dec crc32 V vdec (length vs) sync
             (snappy_encode raw_enc crc32 (encs vs) ++ sync ++ rest) (length (snappy_encode raw_enc crc32 (encs vs)))
  = Some (map val vs, BDone rest None).
Proof.
  intros vs sync rest HP Hs. unfold snappy_run. rewrite snappy_open_ok.
  rewrite <- (app_nil_r (encs vs)) at 1. rewrite (snappy_values_ok vs [] HP).
  unfold sync_check. cbn [tk_src tk_ch tk_consume]. rewrite app_length, Hs.
  replace (16 + length rest <? 16) with false by (symmetry; apply Nat.ltb_ge; lia).
  rewrite (firstn_app_exact sync rest 16) by (symmetry; exact Hs). rewrite dl_bytes_eqb_refl.
  rewrite (skipn_app_exact sync rest 16) by (symmetry; exact Hs). reflexivity.
Qed.

(* the object count lowered: the first values, then "decompressed data left in the block" *)
Theorem snappy_count_lowered_detected : forall vs1 vs2 sync after, Forall P vs1 -> encs vs2 <> [] ->
  snappy_run raw_dec crc32 V vdec (length vs1) sync
             (snappy_encode raw_enc crc32 (encs (vs1 ++ vs2)) ++ after) (length (snappy_encode raw_enc crc32 (encs (vs1 ++ vs2))))
  = Some (map val vs1, BEndErr EndLeftover).
Proof.
  intros vs1 vs2 sync after HP Hne. unfold snappy_run. rewrite snappy_open_ok.
  rewrite flat_map_app, (snappy_values_ok vs1 (encs vs2) HP).
  destruct (encs vs2); [contradiction|reflexivity].
Qed.

(* a wrong CRC or a block shorter than the CRC: Err when the block is entered, nothing is yielded *)
Theorem snappy_block_bad_crc : forall x (t : bytes) after count sync, length t = 4 -> of_be32 t <> crc32 x ->
  snappy_run raw_dec crc32 V vdec count sync (raw_enc x ++ t ++ after) (length (raw_enc x ++ t)) = None.
Proof.
  intros x t after count sync Ht Hne. unfold snappy_run, snappy_open.
  rewrite app_assoc. rewrite app_length with (l := raw_enc x ++ t) (l' := after).
  replace (length (raw_enc x ++ t) + length after <? length (raw_enc x ++ t)) with false
    by (symmetry; apply Nat.ltb_ge; lia).
  rewrite firstn_app_exact by reflexivity.
  rewrite (snappy_crc_checked raw_enc raw_dec crc32 Hraw x t Ht Hne). reflexivity.
Qed.

Theorem snappy_block_short : forall src size count sync, size < 4 ->
  snappy_run raw_dec crc32 V vdec count sync src size = None.
Proof.
  intros src size count sync Hs. unfold snappy_run, snappy_open.
  destruct (length src <? size); [reflexivity|].
  rewrite snappy_short_block; [reflexivity|]. rewrite firstn_length. lia.
Qed.

End SnappyProofs.

(* ------------------------------------------------------------------------------------------ *)
(** * The small codec of DecodeLoop.v: concrete runs (vm_compute) *)

Definition toy_sync : bytes := repeat 9%N 16.
Definition toy_pol_buffered (need cap : nat) : option nat := None.
Definition toy_pol_direct (need cap : nat) : option nat := Some need.

Definition toy_run (x junk : bytes) (count size : nat) (ch : option chunkst) (cap : nat) pol : option (list N * bend) :=
  match block_open toyst TRun (toy_enc x ++ junk ++ toy_sync ++ [7%N]) ch size cap with
  | Some s => Some (block_run toyst toy_dread pol N byte_vdec 100 count toy_sync s)
  | None => None
  end.

Definition toy_zero_run (count : nat) (ch : option chunkst) (cap : nat) : option (list unit * bend) :=
  match block_open toyst TRun (toy_enc [] ++ toy_sync) ch 1 cap with
  | Some s => Some (block_run toyst toy_dread toy_pol_buffered unit unit_vdec 100 count toy_sync s)
  | None => None
  end.

Definition is_done {A} (r : option (list A * bend)) (vs : list A) (rest : bytes) : Prop :=
  match r with Some (ws, BDone r' _) => ws = vs /\ r' = rest | _ => False end.

(* read back: capacities 1, 2, 8; slice and 1- / 2-byte chunks; buffered and bypass reads; zero-byte datums *)
Theorem toy_read_back :
  let x := [5; 6; 7]%N in
  Forall (fun r => is_done r x [7%N])
    [toy_run x [] 3 7 None 1 toy_pol_buffered; toy_run x [] 3 7 None 2 toy_pol_buffered;
     toy_run x [] 3 7 None 8 toy_pol_buffered; toy_run x [] 3 7 None 1 toy_pol_direct;
     toy_run x [] 3 7 (Some (mkCh 1 [] 1)) 1 toy_pol_buffered; toy_run x [] 3 7 (Some (mkCh 1 [] 1)) 8 toy_pol_buffered;
     toy_run x [] 3 7 (Some (mkCh 2 [] 2)) 2 toy_pol_direct; toy_run x [] 3 7 (Some (mkCh 2 [3%N] 1)) 8 toy_pol_direct]
  /\ Forall (fun r => is_done r [tt; tt; tt] [])
    [toy_zero_run 3 None 1; toy_zero_run 3 None 8; toy_zero_run 3 (Some (mkCh 1 [] 1)) 1; toy_zero_run 3 (Some (mkCh 1 [] 1)) 8].
Proof. vm_compute. repeat constructor. Qed.

(* damage: count lowered, trailing byte inside the size, size one / two too small, count raised *)
Theorem toy_damage :
  let x := [5; 6; 7]%N in
  toy_run x [] 2 7 None 1 toy_pol_buffered = Some ([5; 6]%N, BEndErr EndLeftover) /\
  toy_run x [] 2 7 None 8 toy_pol_buffered = Some ([5; 6]%N, BEndErr EndLeftover) /\
  toy_run x [3%N] 3 8 None 8 toy_pol_buffered = Some (x, BEndErr EndTakeLeft) /\
  toy_run x [3%N] 3 8 (Some (mkCh 1 [] 1)) 1 toy_pol_buffered = Some (x, BEndErr EndTakeLeft) /\
  toy_run x [] 3 6 None 8 toy_pol_buffered = Some (x, BEndErr EndDecoderErr) /\
  toy_run x [] 3 5 None 8 toy_pol_buffered = Some ([5; 6]%N, BValueErr) /\
  toy_run x [] 4 7 None 8 toy_pol_buffered = Some (x, BValueErr).
Proof. vm_compute. repeat split. Qed.

(* the end-of-block check before commit 8463ea9 (only "Take limit = 0"):
   - a valid block of zero-byte datums is rejected: the decoder was never read, the Take limit is still the size;
   - a valid block read through a small buffer is rejected: the end marker has not been consumed when the last
     datum has been delivered (the decoder lags);
   - a lowered count is accepted when the decoder happened to consume everything.
   The check as it is now decides all three correctly. *)
Definition toy_state_after (x : bytes) (count : nat) (ch : option chunkst) (cap : nat) : option (bstate toyst) :=
  match block_open toyst TRun (toy_enc x ++ toy_sync) ch (length (toy_enc x)) cap with
  | Some s => snd (block_values toyst toy_dread toy_pol_buffered N byte_vdec 100 count s)
  | None => None
  end.

Theorem end_check_before_fix_refuted :
  (* zero-byte datums *)
  option_map (fun s => fst (block_end_before_fix toyst s)) (block_open toyst TRun (toy_enc [] ++ toy_sync) None 1 8) = Some EndTakeLeft /\
  option_map (fun s => fst (block_end toyst toy_dread s)) (block_open toyst TRun (toy_enc [] ++ toy_sync) None 1 8) = Some EndOk /\
  (* a lagging decoder *)
  option_map (fun s => fst (block_end_before_fix toyst s)) (toy_state_after [5; 6; 7]%N 3 None 1) = Some EndTakeLeft /\
  option_map (fun s => fst (block_end toyst toy_dread s)) (toy_state_after [5; 6; 7]%N 3 None 1) = Some EndOk /\
  (* a lowered count *)
  option_map (fun s => fst (block_end_before_fix toyst s)) (toy_state_after [5; 6; 7]%N 2 None 8) = Some EndOk /\
  option_map (fun s => fst (block_end toyst toy_dread s)) (toy_state_after [5; 6; 7]%N 2 None 8) = Some EndLeftover.
Proof. vm_compute. repeat split. Qed.

(* the replay instance: what the model's check asks of the decoder *)
Theorem replay_end_examples :
  replay_end 1 0 0 [Some (0, 0)] = (EndOk, [1], 0, 0) /\          (* capacity 1: a 1-byte read of the decoder *)
  replay_end 7 0 3 [Some (0, 3)] = (EndOk, [7], 0, 0) /\          (* capacity 7: a refill of 7; the read consumes the lagging 3 bytes *)
  replay_end 7 2 0 [] = (EndLeftover, [], 0, 0) /\                (* bytes buffered: no decoder read at all *)
  replay_end 7 0 5 [Some (0, 0)] = (EndTakeLeft, [7], 0, 5) /\
  replay_end 7 0 0 [Some (1, 0)] = (EndLeftover, [7], 0, 0) /\
  replay_end 1 0 0 [None] = (EndDecoderErr, [1], 0, 0).
Proof. vm_compute. repeat split. Qed.
