(** Facts about model/Derive.v (C20): every key that the derived node vector contains is in range
    (so the bounds check of freezing passes), for any definitions, oracle, type and fuel; the
    lookup-key comparison is equality; instantiation suffixes keep names apart; and the two ways in
    which "one definition per fullname" fails, with witnesses. *)
From Coq Require Import NArith List Lia Bool Arith.
Import ListNotations.
Require Import Base Schema Text Derive.
Arguments N.add : simpl never.
Arguments N.mul : simpl never.

(** * result plumbing *)
Lemma rbind_ok : forall A B (r : result A) (f : A -> result B) x,
  rbind r f = Ok x -> exists a, r = Ok a /\ f a = Ok x.
Proof. intros A B r f x H. destruct r; cbn in H; try discriminate. eauto. Qed.

(** * keys of a node, nodes whose keys are in range *)
Definition keys_of_m (n : mnode) : list nat :=
  match m_type n with
  | RArray k | RMap k => [k]
  | RUnion ks => ks
  | RRecord _ fs => map snd fs
  | _ => []
  end.
Definition node_ok (len : nat) (n : mnode) : Prop := forall k, In k (keys_of_m n) -> (k < len)%nat.
Definition nodes_ok (l : list mnode) : Prop := forall n, In n l -> node_ok (length l) n.

(* strict / weak invariant of the builder: registered indices below / at most the number of nodes *)
Definition built_lt (b : builder) : Prop := forall k i, In (k, i) (b_built b) -> (i < b_len b)%nat.
Definition built_le (b : builder) : Prop := forall k i, In (k, i) (b_built b) -> (i <= b_len b)%nat.
Definition P (b : builder) : Prop := nodes_ok (b_nodes b) /\ built_lt b.
Definition Q (b : builder) : Prop := nodes_ok (b_nodes b) /\ built_le b.

Lemma P_Q : forall b, P b -> Q b.
Proof. intros b [H1 H2]. split; [exact H1|]. intros k i H. apply H2 in H. lia. Qed.

Lemma assoc_lk_in : forall A (k : lk) (l : list (lk * A)) v, assoc_lk k l = Some v -> exists k', In (k', v) l.
Proof.
  induction l as [|[k' v'] t IH]; cbn; intros v H; [discriminate|].
  destruct (lk_eqb k k').
  - inversion H; subst. eexists; left; reflexivity.
  - destruct (IH _ H) as [k2 H2]. eexists; right; exact H2.
Qed.

Lemma set_nth_length : forall A i (x : A) l, length (set_nth i x l) = length l.
Proof. induction i; destruct l; cbn; auto. Qed.
Lemma set_nth_in : forall A i (x y : A) l, In y (set_nth i x l) -> y = x \/ In y l.
Proof.
  induction i; destruct l; cbn; intros H; auto.
  - destruct H; auto.
  - destruct H as [H|H]; auto. apply IHi in H. destruct H; auto.
Qed.

Lemma keyless_ok : forall len n, keys_of_m n = [] -> node_ok len n.
Proof. intros len n H k Hk. rewrite H in Hk. destruct Hk. Qed.

(* push of a node whose keys are below the new length *)
Lemma push_Q_P : forall n b, Q b -> node_ok (S (b_len b)) n -> P (push n b) /\ b_len (push n b) = S (b_len b).
Proof.
  intros n [nodes built] [Hn Hb] Hk. unfold P, Q, push, built_lt, built_le, nodes_ok in *. unfold b_len in *. cbn [b_nodes b_built] in *.
  assert (El : length (nodes ++ [n]) = S (length nodes)) by (rewrite app_length; cbn; lia).
  split; [split|exact El].
  - intros m Hm. rewrite El. apply in_app_or in Hm. destruct Hm as [Hm|[Hm|[]]].
    + intros k Hin. specialize (Hn m Hm k Hin). lia.
    + subst m. exact Hk.
  - intros k i Hi. rewrite El. specialize (Hb k i Hi). lia.
Qed.

Lemma set_node_P : forall i n b, P b -> node_ok (b_len b) n -> P (set_node i n b) /\ b_len (set_node i n b) = b_len b.
Proof.
  intros i n [nodes built] [Hn Hb] Hk. unfold P, set_node, built_lt, nodes_ok in *. unfold b_len in *. cbn [b_nodes b_built] in *.
  split; [split|apply set_nth_length].
  - intros m Hm. rewrite set_nth_length. apply set_nth_in in Hm. destruct Hm as [->|Hm]; [exact Hk|apply Hn; exact Hm].
  - intros k j Hj. rewrite set_nth_length. eapply Hb; exact Hj.
Qed.

Lemma node_ok_mono : forall a b n, (a <= b)%nat -> node_ok a n -> node_ok b n.
Proof. intros a b n H Hn k Hk. specialize (Hn k Hk). lia. Qed.

(** * the specification of append_schema, and what follows for the pieces built over it *)
Definition app_spec (app : rtype -> builder -> result builder) : Prop :=
  forall t b b', Q b -> app t b = Ok b' -> (b_len b < b_len b')%nat /\ P b'.

Section over_app.
  Variable app : rtype -> builder -> result builder.
  Variable lkf : rtype -> option lk.
  Hypothesis Happ : app_spec app.

  Lemma fob_spec : forall t b i b', P b -> find_or_build_with app lkf t b = Ok (i, b') ->
    (i < b_len b')%nat /\ (b_len b <= b_len b')%nat /\ P b'.
  Proof.
    intros t b i b' HP H. unfold find_or_build_with in H.
    destruct (lkf t) as [k|]; [|discriminate].
    destruct (assoc_lk k (b_built b)) as [j|] eqn:Ea.
    - inversion H; subst. destruct (assoc_lk_in _ _ _ _ Ea) as [k' Hin].
      destruct HP as [H1 H2]. split; [eapply H2; exact Hin|]. split; [lia|split; assumption].
    - apply rbind_ok in H. destruct H as [b2 [Hb2 H]].
      assert (HQ : Q (mkBuilder (b_nodes b) ((k, b_len b) :: b_built b))).
      { destruct HP as [H1 H2]. split; [exact H1|]. unfold built_lt, built_le in *. unfold b_len in *. cbn [b_nodes b_built].
        intros k0 i0 [Hi|Hi].
        - inversion Hi; subst. lia.
        - specialize (H2 _ _ Hi). lia. }
      destruct (Happ _ _ _ HQ Hb2) as [Hlen HP2]. unfold b_len in Hlen; cbn in Hlen.
      destruct (Nat.ltb (b_len b) (b_len b2)); [|discriminate]. inversion H; subst.
      unfold b_len. split; [lia|]. split; [lia|exact HP2].
  Qed.

  Lemma rename_keys : forall nm n l, keys_of_m (mkNode (rename nm (m_type n)) l) = keys_of_m n.
  Proof. intros nm [ty lg] l. destruct ty; reflexivity. Qed.

  (* a field reached with the strict invariant *)
  Lemma field_spec : forall h k args s b i b', P b -> field_inst app lkf h k args s b = Ok (i, b') ->
    (i < b_len b')%nat /\ (b_len b <= b_len b')%nat /\ P b'.
  Proof.
    intros h k args s b i b' HP H. unfold field_inst in H.
    destruct (sl_logical s) as [l|].
    - apply rbind_ok in H. destruct H as [b1 [Hb1 H]].
      destruct (Happ _ _ _ (P_Q _ HP) Hb1) as [Hlen HP1].
      destruct (nth_error (b_nodes b1) (b_len b)) as [nd|] eqn:En; [|discriminate]. inversion H; subst.
      assert (Hnd : node_ok (b_len b1) (mkNode (rename (owned_name h k) (m_type nd)) (Some l))).
      { intros k0 Hk0. rewrite rename_keys in Hk0. destruct HP1 as [H1 _]. apply (H1 nd (nth_error_In _ _ En)). exact Hk0. }
      destruct (set_node_P (b_len b) _ b1 HP1 Hnd) as [HP' Hl']. rewrite Hl'. split; [lia|]. split; [lia|exact HP'].
    - assert (Hpush : forall n nm, (b_len b < b_len (push (mkNode (RFixed nm n) None) b))%nat /\
                (b_len b <= b_len (push (mkNode (RFixed nm n) None) b))%nat /\ P (push (mkNode (RFixed nm n) None) b)).
      { intros n nm.
        destruct (push_Q_P (mkNode (RFixed nm n) None) b (P_Q _ HP) (keyless_ok (S (b_len b)) (mkNode (RFixed nm n) None) eq_refl)) as [HP' Hl'].
        rewrite Hl'. split; [lia|]. split; [lia|exact HP']. }
      destruct (peel (sl_type s)) eqn:Ep; destruct k;
        try (eapply fob_spec; [exact HP|exact H]);
        inversion H; subst; apply Hpush.
  Qed.

  (* the field of a newtype struct that is not forwarded, reached with the weak invariant *)
  Lemma newtype_field_spec : forall h args s b i b', Q b -> slot_direct s = false ->
    field_inst app lkf h FkNewtypeStruct args s b = Ok (i, b') ->
    (b_len b < b_len b')%nat /\ P b'.
  Proof.
    intros h args s b i b' HQ Hd H. unfold field_inst in H. unfold slot_direct in Hd.
    destruct (sl_logical s) as [l|].
    - apply rbind_ok in H. destruct H as [b1 [Hb1 H]].
      destruct (Happ _ _ _ HQ Hb1) as [Hlen HP1].
      destruct (nth_error (b_nodes b1) (b_len b)) as [nd|] eqn:En; [|discriminate]. inversion H; subst.
      assert (Hnd : node_ok (b_len b1) (mkNode (rename (owned_name h FkNewtypeStruct) (m_type nd)) (Some l))).
      { intros k0 Hk0. rewrite rename_keys in Hk0. destruct HP1 as [H1 _]. apply (H1 nd (nth_error_In _ _ En)). exact Hk0. }
      destruct (set_node_P (b_len b) _ b1 HP1 Hnd) as [HP' Hl']. rewrite Hl'. split; [lia|exact HP'].
    - destruct (peel (sl_type s)); try discriminate. inversion H; subst.
      destruct (push_Q_P (mkNode (RFixed (name_of_fqn (owned_name h FkNewtypeStruct)) n) None) b HQ (keyless_ok (S (b_len b)) (mkNode (RFixed (name_of_fqn (owned_name h FkNewtypeStruct)) n) None) eq_refl)) as [HP' Hl'].
      rewrite Hl'. split; [lia|exact HP'].
  Qed.

  Lemma fields_spec : forall h tn args fs b ks b', P b -> fields_inst app lkf h tn args fs b = Ok (ks, b') ->
    (b_len b <= b_len b')%nat /\ P b' /\ forall k, In k (map snd ks) -> (k < b_len b')%nat.
  Proof.
    induction fs as [|fd rest IH]; intros b ks b' HP H; cbn in H.
    - inversion H; subst. split; [lia|]. split; [exact HP|]. intros k [].
    - apply rbind_ok in H. destruct H as [[k1 b1] [H1 H]].
      apply rbind_ok in H. destruct H as [[ks2 b2] [H2 H]]. inversion H; subst.
      destruct (field_spec _ _ _ _ _ _ _ HP H1) as [Hk1 [Hl1 HP1]].
      destruct (IH _ _ _ HP1 H2) as [Hl2 [HP2 Hks]].
      split; [lia|]. split; [exact HP2|]. cbn. intros k [<-|Hk]; [lia|apply Hks; exact Hk].
  Qed.

  Lemma variants_spec : forall h vs b ks b', P b -> variants_inst app lkf h vs b = Ok (ks, b') ->
    (b_len b <= b_len b')%nat /\ P b' /\ forall k, In k ks -> (k < b_len b')%nat.
  Proof.
    induction vs as [|v rest IH]; intros b ks b' HP H; cbn in H.
    - inversion H; subst. split; [lia|]. split; [exact HP|]. intros k [].
    - apply rbind_ok in H. destruct H as [[k1 b1] [H1 H]].
      apply rbind_ok in H. destruct H as [[ks2 b2] [H2 H]]. inversion H; subst.
      assert (Hv : (k1 < b_len b1)%nat /\ (b_len b <= b_len b1)%nat /\ P b1).
      { destruct v; [eapply fob_spec|eapply field_spec]; eassumption. }
      destruct Hv as [Hk1 [Hl1 HP1]].
      destruct (IH _ _ _ HP1 H2) as [Hl2 [HP2 Hks]].
      split; [lia|]. split; [exact HP2|]. intros k [<-|Hk]; [lia|apply Hks; exact Hk].
  Qed.
End over_app.

Lemma reserve_P : forall b, Q b -> P (reserve b) /\ b_len (reserve b) = S (b_len b).
Proof. intros b HQ. apply push_Q_P; [exact HQ|apply keyless_ok; reflexivity]. Qed.

(* filling a reserved slot with a node whose keys were returned by find_or_build *)
Lemma fill_reserved : forall b b2 n, (b_len b < b_len b2)%nat -> P b2 -> node_ok (b_len b2) n ->
  (b_len b < b_len (set_node (b_len b) n b2))%nat /\ P (set_node (b_len b) n b2).
Proof.
  intros b b2 n Hl HP Hn. destruct (set_node_P (b_len b) n b2 HP Hn) as [HP' Hl']. rewrite Hl'. split; [exact Hl|exact HP'].
Qed.

Theorem append_spec : forall fuel ds o, app_spec (append fuel ds o).
Proof.
  induction fuel as [|f IH]; intros ds o t b b' HQ H; [discriminate|].
  specialize (IH ds o). cbn [append] in H.
  assert (Hprim : forall n, keys_of_m n = [] -> Ok (push n b) = Ok b' -> (b_len b < b_len b')%nat /\ P b').
  { intros n Hn E. inversion E; subst b'. destruct (push_Q_P n b HQ (keyless_ok (S (b_len b)) n Hn)) as [HP' Hl']. rewrite Hl'. split; [lia|exact HP']. }
  destruct t as [p| | |n|t'|t'|t'|t'|id args|i].
  - refine (Hprim _ _ H). destruct p; reflexivity.
  - refine (Hprim _ _ H). reflexivity.
  - refine (Hprim _ _ H). reflexivity.
  - refine (Hprim _ _ H). reflexivity.
  - (* Option *)
    destruct (reserve_P b HQ) as [HPr Hlr].
    apply rbind_ok in H. destruct H as [[k0 b1] [H0 H]].
    apply rbind_ok in H. destruct H as [[k1 b2] [H1 H]]. inversion H; subst.
    destruct (fob_spec _ _ IH _ _ _ _ HPr H0) as [Hk0 [Hl0 HP1]].
    destruct (fob_spec _ _ IH _ _ _ _ HP1 H1) as [Hk1 [Hl1 HP2]].
    apply fill_reserved; [lia|exact HP2|]. intros k [<-|[<-|[]]]; lia.
  - (* Vec *)
    destruct (reserve_P b HQ) as [HPr Hlr].
    apply rbind_ok in H. destruct H as [[k0 b1] [H0 H]]. inversion H; subst.
    destruct (fob_spec _ _ IH _ _ _ _ HPr H0) as [Hk0 [Hl0 HP1]].
    apply fill_reserved; [lia|exact HP1|]. intros k [<-|[]]; lia.
  - (* Map *)
    destruct (reserve_P b HQ) as [HPr Hlr].
    apply rbind_ok in H. destruct H as [[k0 b1] [H0 H]]. inversion H; subst.
    destruct (fob_spec _ _ IH _ _ _ _ HPr H0) as [Hk0 [Hl0 HP1]].
    apply fill_reserved; [lia|exact HP1|]. intros k [<-|[]]; lia.
  - (* pointer: forwarded *)
    eapply IH; eassumption.
  - (* named *)
    destruct (nth_error ds id) as [[h fs|h s|h syms|h vs]|]; [| | | |discriminate].
    + (* record *)
      destruct (reserve_P b HQ) as [HPr Hlr].
      apply rbind_ok in H. destruct H as [tn [_ H]].
      apply rbind_ok in H. destruct H as [[fields b1] [H1 H]]. inversion H; subst.
      destruct (fields_spec _ _ IH _ _ _ _ _ _ _ HPr H1) as [Hl1 [HP1 Hks]].
      apply fill_reserved; [lia|exact HP1|]. intros k Hk. apply Hks. exact Hk.
    + (* newtype struct *)
      destruct (slot_direct s) eqn:Ed.
      * eapply IH; eassumption.
      * apply rbind_ok in H. destruct H as [[k b1] [H1 H]].
        destruct (Nat.eqb (b_len b) k); [|discriminate]. inversion H; subst.
        eapply newtype_field_spec; eassumption.
    + (* unit enum *)
      refine (Hprim _ _ H). reflexivity.
    + (* union enum *)
      destruct (reserve_P b HQ) as [HPr Hlr].
      apply rbind_ok in H. destruct H as [[ks b1] [H1 H]]. inversion H; subst.
      destruct (variants_spec _ _ IH _ _ _ _ _ HPr H1) as [Hl1 [HP1 Hks]].
      apply fill_reserved; [lia|exact HP1|]. intros k Hk. apply Hks. exact Hk.
  - discriminate.
Qed.

Lemma empty_Q : Q empty_builder.
Proof. split; [intros n []|intros k i []]. Qed.
Lemma empty_P : P empty_builder.
Proof. split; [intros n []|intros k i []]. Qed.

(* a root built through find_or_build, over any append_schema that meets the specification *)
Lemma root_spec : forall app lkf t i b, app_spec app ->
  find_or_build_with app lkf t empty_builder = Ok (i, b) ->
  (0 < length (b_nodes b))%nat /\ nodes_ok (b_nodes b).
Proof.
  intros app lkf t i b Happ Hb.
  destruct (fob_spec app lkf Happ t empty_builder i b empty_P Hb) as [Hi [_ [Hn _]]]. unfold b_len in Hi.
  split; [lia|exact Hn].
Qed.

(** every key of the node vector of T::schema_mut() is in range, and the vector is not empty *)
Theorem derive_keys_in_range : forall fuel ds o t g, derive_schema fuel ds o t = Ok g ->
  (0 < length g)%nat /\ forall n, In n g -> forall k, In k (keys_of_m n) -> (k < length g)%nat.
Proof.
  intros fuel ds o t g. unfold derive_schema. generalize (lookup LKFUEL ds). intros lkf H.
  destruct (find_or_build_with (append fuel ds o) lkf t empty_builder) as [[i b]| | | |] eqn:E; cbn [rbind] in H; try discriminate.
  injection H as <-.
  destruct (root_spec _ _ _ _ _ (append_spec fuel ds o) E) as [Hl Hn].
  split; [exact Hl|]. intros n Hin k Hk. exact (Hn n Hin k Hk).
Qed.

(* the same for the way the root was built before the repair *)
Theorem derive_unregistered_keys_in_range : forall fuel ds o t g, derive_schema_unregistered fuel ds o t = Ok g ->
  (0 < length g)%nat /\ forall n, In n g -> forall k, In k (keys_of_m n) -> (k < length g)%nat.
Proof.
  intros fuel ds o t g H. unfold derive_schema_unregistered in H.
  destruct (append fuel ds o t empty_builder) as [b| | | |] eqn:E; cbn [rbind] in H; try discriminate.
  injection H as <-.
  destruct (append_spec fuel ds o t _ _ empty_Q E) as [Hl [Hn _]]. unfold b_len in Hl. cbn [b_nodes empty_builder length] in Hl.
  split; [lia|]. intros n Hin k Hk. exact (Hn n Hin k Hk).
Qed.

(** the bounds-checked conversion of freezing accepts such a vector *)
Lemma forallb_key_ok : forall len ks, (forall k, In k ks -> (k < len)%nat) -> forallb (key_ok len) ks = true.
Proof.
  intros len ks H. apply forallb_forall. intros k Hk. unfold key_ok. apply Nat.ltb_lt. apply H. exact Hk.
Qed.

Lemma freeze_node_ok : forall len n, node_ok len n -> exists f, freeze_node len n = Ok f.
Proof.
  intros len [ty lg] Hn. unfold node_ok, keys_of_m in Hn. cbn [m_type] in Hn.
  assert (Hplain : exists f, (match ty with
      | RNull => Ok FNull | RBoolean => Ok FBoolean | RInt => Ok FInt | RLong => Ok FLong
      | RFloat => Ok FFloat | RDouble => Ok FDouble | RBytes => Ok FBytes | RString => Ok FString
      | RArray k => if key_ok len k then Ok (FArray k) else Err EData
      | RMap k => if key_ok len k then Ok (FMap k) else Err EData
      | RUnion ks => if forallb (key_ok len) ks then Ok (FUnion ks) else Err EData
      | RRecord nm fs => if forallb (fun f => key_ok len (snd f)) fs then Ok (FRecord nm fs) else Err EData
      | REnum nm syms => Ok (FEnum nm syms)
      | RFixed nm size => Ok (FFixed nm size)
      end) = Ok f).
  { destruct ty; try (eexists; reflexivity).
    - unfold key_ok. assert (E : Nat.ltb items len = true) by (apply Nat.ltb_lt; apply Hn; left; reflexivity). rewrite E. eexists; reflexivity.
    - unfold key_ok. assert (E : Nat.ltb values len = true) by (apply Nat.ltb_lt; apply Hn; left; reflexivity). rewrite E. eexists; reflexivity.
    - rewrite (forallb_key_ok len variants Hn). eexists; reflexivity.
    - assert (E : forallb (fun f : bytes * nat => key_ok len (snd f)) fields = true).
      { apply forallb_forall. intros f Hf. unfold key_ok. apply Nat.ltb_lt. apply Hn. apply in_map. exact Hf. }
      rewrite E. eexists; reflexivity. }
  unfold freeze_node. cbn [m_logical m_type].
  destruct lg as [l|]; [|exact Hplain].
  destruct l; destruct ty; try exact Hplain; try (eexists; reflexivity).
  (* duration on a fixed: the size decides between FDuration and FFixed, both are Ok *)
  destruct size as [|p]; try (eexists; reflexivity).
  do 4 (destruct p; try (eexists; reflexivity)).
Qed.

Lemma freeze_nodes_ok : forall len ns, (forall n, In n ns -> node_ok len n) -> exists fs, freeze_nodes len ns = Ok fs.
Proof.
  induction ns as [|n t IH]; intros H; cbn [freeze_nodes]; [eexists; reflexivity|].
  destruct (freeze_node_ok len n (H n (or_introl eq_refl))) as [f Hf]. rewrite Hf. cbn [rbind].
  destruct (IH (fun m Hm => H m (or_intror Hm))) as [fs Hfs]. rewrite Hfs. cbn [rbind]. eexists; reflexivity.
Qed.

Theorem derive_freezes : forall fuel ds o t g, derive_schema fuel ds o t = Ok g ->
  exists fs, freeze_nodes (length g) g = Ok fs.
Proof.
  intros fuel ds o t g H. destruct (derive_keys_in_range _ _ _ _ _ H) as [_ Hk].
  apply freeze_nodes_ok. intros n Hn k Hkk. exact (Hk n Hn k Hkk).
Qed.

(** * the lookup-key comparison is equality *)
Section lk_ind.
  Variable Pr : lk -> Prop.
  Hypothesis Hprim : forall a, Pr (LkPrim a).
  Hypothesis Harr : forall n, Pr (LkArr n).
  Hypothesis Hopt : forall k, Pr k -> Pr (LkOption k).
  Hypothesis Hvec : forall k, Pr k -> Pr (LkVec k).
  Hypothesis Hmap : forall k, Pr k -> Pr (LkMap k).
  Hypothesis Hnamed : forall id args, Forall Pr args -> Pr (LkNamed id args).
  Fixpoint lk_ind' (k : lk) : Pr k :=
    match k with
    | LkPrim a => Hprim a
    | LkArr n => Harr n
    | LkOption k' => Hopt k' (lk_ind' k')
    | LkVec k' => Hvec k' (lk_ind' k')
    | LkMap k' => Hmap k' (lk_ind' k')
    | LkNamed id args =>
        Hnamed id args ((fix go (l : list lk) : Forall Pr l :=
                           match l with
                           | [] => Forall_nil Pr
                           | x :: t => Forall_cons x (lk_ind' x) (go t)
                           end) args)
    end.
End lk_ind.

Lemma aprim_eqb_eq : forall a b, aprim_eqb a b = true <-> a = b.
Proof. intros a b; split; [destruct a, b; cbn; intros H; try discriminate; reflexivity|intros ->; destruct b; reflexivity]. Qed.

Theorem lk_eqb_eq : forall a b, lk_eqb a b = true <-> a = b.
Proof.
  induction a as [x|n|k IH|k IH|k IH|id args IH] using lk_ind'; intros b; destruct b as [y|m|k'|k'|k'|id' args'];
    cbn [lk_eqb]; try (split; [discriminate|intros E; discriminate E]).
  - rewrite aprim_eqb_eq. split; [intros ->; reflexivity|intros E; inversion E; reflexivity].
  - rewrite N.eqb_eq. split; [intros ->; reflexivity|intros E; inversion E; reflexivity].
  - rewrite IH. split; [intros ->; reflexivity|intros E; inversion E; reflexivity].
  - rewrite IH. split; [intros ->; reflexivity|intros E; inversion E; reflexivity].
  - rewrite IH. split; [intros ->; reflexivity|intros E; inversion E; reflexivity].
  - rewrite andb_true_iff, Nat.eqb_eq.
    assert (Hl : forall ys, (fix go (xs ys : list lk) : bool :=
                 match xs, ys with
                 | [], [] => true
                 | x :: xs', y :: ys' => lk_eqb x y && go xs' ys'
                 | _, _ => false
                 end) args ys = true <-> args = ys).
    { induction IH as [|x xs Hx Hxs IHl]; intros ys; destruct ys as [|y ys]; try (split; [discriminate|intros E; discriminate E]).
      - split; reflexivity.
      - rewrite andb_true_iff, Hx, IHl. split; [intros [-> ->]; reflexivity|intros E; inversion E; split; reflexivity]. }
    rewrite Hl. split; [intros [-> ->]; reflexivity|intros E; inversion E; split; reflexivity].
Qed.

(** * names of generic instantiations: an injective oracle keeps them apart *)
Definition oracle_injective (o : oracle) : Prop :=
  forall k1 k2 s, assoc_lk k1 o = Some s -> assoc_lk k2 o = Some s -> k1 = k2.

Theorem suffix_injective : forall (o : oracle) h k1 k2 s1 s2, oracle_injective o ->
  assoc_lk k1 o = Some s1 -> assoc_lk k2 o = Some s2 -> k1 <> k2 ->
  type_name h ++ s1 <> type_name h ++ s2.
Proof.
  intros o h k1 k2 s1 s2 Hinj H1 H2 Hne E. apply app_inv_head in E. subst s2. apply Hne. eapply Hinj; eassumption.
Qed.

(** * one definition per fullname: where it fails *)
From Coq Require Import String.
(* struct Node { v: i32, next: Option<Box<Node>> } in module "probe" *)
Definition ex_node_defs : defs :=
  [DStruct (mkHeader (lit "probe") None (lit "Node") (lit "Node") 0)
     [mkField (lit "v") (mkSlot (TPrim PI32) None) false;
      mkField (lit "next") (mkSlot (TOption (TPtr (TNamed 0 []))) None) false]].

(* the root type is entered into already_built_types: the recursive reference goes back to node 0 *)
Lemma recursive_root_one_definition :
  exists g, derive_schema 20 ex_node_defs [] (TNamed 0 []) = Ok g /\ fullnames g = [lit "probe.Node"] /\
            nth_error g 2 = Some (mkNode (RUnion [3%nat; 0%nat]) None).
Proof. eexists. split; [vm_compute; reflexivity|]. split; vm_compute; reflexivity. Qed.
(* before the repair (root built by append_schema directly) the record was defined a second time *)
Lemma unregistered_root_duplicate :
  exists g, derive_schema_unregistered 20 ex_node_defs [] (TNamed 0 []) = Ok g /\
            fullnames g = [lit "probe.Node"; lit "probe.Node"] /\ no_dup_bytes (fullnames g) = false.
Proof. eexists. split; [vm_compute; reflexivity|]. split; vm_compute; reflexivity. Qed.

(* #[avro_schema(namespace = "x")] struct G<T> { t: T, #[avro_schema(logical_type = "duration")] d: [u8; 12] }
   struct Root { a: G<i32>, b: G<String> } *)
Definition ex_ns_defs : defs :=
  [DStruct (mkHeader (lit "probe") (Some (lit "x")) (lit "G") (lit "G") 1)
     [mkField (lit "t") (mkSlot (TParam 0) None) false;
      mkField (lit "d") (mkSlot (TByteArr 12) (Some LDuration)) false];
   DStruct (mkHeader (lit "probe") None (lit "Root") (lit "Root") 0)
     [mkField (lit "a") (mkSlot (TNamed 0 [TPrim PI32]) None) false;
      mkField (lit "b") (mkSlot (TNamed 0 [TString]) None) false]].
Definition ex_ns_oracle : oracle :=
  [(LkNamed 0 [LkPrim AInt; LkArr 12], lit "_0000000000000001");
   (LkNamed 0 [LkPrim AString; LkArr 12], lit "_0000000000000002")].

(* each instantiation names its owned fixed after its own (suffixed) name: one definition per fullname *)
Lemma namespace_generic_distinct :
  exists g, derive_schema 20 ex_ns_defs ex_ns_oracle (TNamed 1 []) = Ok g /\
            fullnames g = [lit "probe.Root"; lit "x.G_0000000000000001"; lit "x.G_0000000000000001.d";
                           lit "x.G_0000000000000002"; lit "x.G_0000000000000002.d"] /\
            no_dup_bytes (fullnames g) = true.
Proof. eexists. split; [vm_compute; reflexivity|]. split; vm_compute; reflexivity. Qed.
(* (before the repair e988ee7 both were called x.G.d: with a namespace override the name was built at compile time) *)
