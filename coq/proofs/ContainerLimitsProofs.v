(** The allocation cap ([rd_max_alloc], ReaderRead::max_alloc_size) in container files: it is handed over
    unchanged from block to block, it is enforced in every block, and it is a per-VALUE condition.

    Part A  request traces of reader computations: [Tr m rs l] -- l lists, in order, the [read_slice]
            requests (size, reader state at the request) made by the computation m started in rs.
            [tr_adv] (a traced computation only moves forward, keeps cap and mode, and so do all its
            requests), [tr_refused] (a refused request is the outcome: Err EData, standing at the request),
            [tr_with_cap] (when no request needs more than c, running with cap c changes nothing).
    Part B  the datum decoder: [de_trace_exists] (every run of [de] has a trace -- any schema, target,
            bytes), [de_adv_any] / [de_keeps_cap] (UNCONDITIONAL: de preserves rd_max_alloc and the reader
            mode, whatever the outcome), [de_refusal], [de_with_cap]; leaf instances
            [de_bytes_over_cap], [de_string_over_cap], [de_fixed_over_cap].
    Part C  INVARIANCE: [same_cfg], [cinv]; [enter_block_cfg], [cr_step_inv], [cr_inner_inv],
            [cr_next_inv], [cr_open_cfg], [container_cap_invariant], [cr_run_cap_invariant].
    Part D  ENFORCEMENT in the k-th block, for every k: [enforced_in_every_block].
    Part E  the cap condition is per value: [cr_run_with_cap], [container_cap_per_value],
            [container_cap_per_value_unbuffered], [container_small_cap_follows_slice].
    Part F  regression witnesses: the two seeded hand-over defects as variants of the model
            ([Witness.reset_accepts_over_cap], [Witness.ratchet_refuses_legal],
            [Witness.model_is_the_identity_variant], ...). *)
From Coq Require Import NArith ZArith List Lia Bool Arith.
From Coq Require Import ZifyN ZifyBool ZifyNat.
From Coq Require String.
Import ListNotations.
Require Import Base Kinds Schema Varint Utf8 Sval Ser Target Reader Text De VectoredWrite Container.
Require Import AvroValue Encoding Denote Wf FileSpec.
Require Import VarintProofs.
Require DeProofs ReaderProofs DeSafetyProofs GenConsts.
Require Import DeClosure.
Require Import ContainerReadProofs ContainerHeaderProofs ContainerChunkProofs.
Open Scope N_scope.
Notation length := List.length (only parsing).

Ltac Zify.zify_post_hook ::= Z.to_euclidean_division_equations.

Arguments N.add : simpl never.
Arguments N.sub : simpl never.
Arguments N.mul : simpl never.
Arguments N.div : simpl never.
Arguments N.modulo : simpl never.
Arguments N.pow : simpl never.
Arguments N.shiftl : simpl never.
Arguments N.shiftr : simpl never.
Arguments N.land : simpl never.
Arguments N.lor : simpl never.
Arguments N.ltb : simpl never.
Arguments N.leb : simpl never.
Arguments N.eqb : simpl never.
Arguments N.of_nat : simpl never.
Arguments N.to_nat : simpl never.
Arguments N.min : simpl never.
Arguments Z.of_nat : simpl never.
Arguments Z.of_N : simpl never.
Arguments Z.to_N : simpl never.
Arguments Z.ltb : simpl never.
Arguments Z.leb : simpl never.

Opaque FUEL_SINK.

Import ReaderProofs DeSafetyProofs.

(* ------------------------------------------------------------------------------------------ *)
(** * Part A. Request traces *)

(** a request: [read_slice n] called in reader state s *)
Definition req : Type := (N * rstate)%type.

(** [Tr m rs l]: the computation m, started in rs, makes exactly the [read_slice] requests l (in order).
    The rules follow the monadic structure: the six reader primitives, return, failure, and bind (the
    continuation runs only when the first part succeeded). *)
Inductive Tr : forall A : Type, RM A -> rstate -> list req -> Prop :=
  | tr_varint : forall t rs, Tr Z (read_varint t) rs []
  | tr_exact : forall n rs, Tr bytes (read_exact n) rs []
  | tr_slice : forall n rs, Tr (bytes * option N)%type (read_slice n) rs [(n, rs)]
  | tr_skip : forall n rs, Tr unit (skip_bytes n) rs []
  | tr_take_varint : forall l rs, Tr (Z * N)%type (take_varint l) rs []
  | tr_take_exact : forall l n rs, Tr (bytes * N)%type (take_exact l n) rs []
  | tr_ret : forall (A : Type) (a : A) rs, Tr A (sret a) rs []
  | tr_fail : forall (A : Type) (r : result A) rs, is_ok r = false -> Tr A (rfail r) rs []
  | tr_bind_ok : forall (A B : Type) (m : RM A) (k : A -> RM B) rs a rs' l1 l2,
      m rs = (Ok a, rs') -> Tr A m rs l1 -> Tr B (k a) rs' l2 -> Tr B (sbind m k) rs (l1 ++ l2)
  | tr_bind_stop : forall (A B : Type) (m : RM A) (k : A -> RM B) rs l1,
      is_ok (fst (m rs)) = false -> Tr A m rs l1 -> Tr B (sbind m k) rs l1.

(** the request needs no allocation: slice input (a borrow) or already in the BufRead's buffer *)
Definition free (n : N) (s : rstate) : Prop := rd_chunks s = None \/ n <= blen (buffer s).

(** the request is refused: reader input, not buffered, larger than the cap (C04_alloc_reader) *)
Definition refused (n : N) (s : rstate) : Prop :=
  rd_chunks s <> None /\ blen (buffer s) < n /\ rd_max_alloc s < n.

Lemma refused_not_free n s : refused n s -> ~ free n s.
Proof. intros (Hc & Hb & _) [H|H]; [contradiction|lia]. Qed.

(** the same reader with another allocation cap *)
Definition with_cap (c : N) (r : rstate) : rstate := mkRd (rd_inp r) (rd_pos r) (rd_chunks r) c.

Lemma with_cap_self r : with_cap (rd_max_alloc r) r = r.
Proof. destruct r; reflexivity. Qed.
Lemma with_cap_consume c k r : consume k (with_cap c r) = with_cap c (consume k r).
Proof. reflexivity. Qed.
Lemma with_cap_buffer c r : buffer (with_cap c r) = buffer r.
Proof. reflexivity. Qed.

Lemma sbind_stop {S A B} (m : S -> sres S A) (f : A -> S -> sres S B) st :
  is_ok (fst (m st)) = false ->
  snd (sbind m f st) = snd (m st) /\ is_ok (fst (sbind m f st)) = false /\
  forall e, fst (m st) = Err e -> fst (sbind m f st) = Err e.
Proof.
  unfold sbind. destruct (m st) as [[a|e|p| |] s']; cbn [fst snd is_ok]; intro H; try discriminate;
    repeat split; try reflexivity; intros e' E; try discriminate. inversion E; reflexivity.
Qed.

(** a traced computation only moves forward inside its input and keeps the allocation cap and the reader
    mode -- whatever its outcome --, and so does every state at which it makes a request *)
Lemma tr_adv : forall A (m : RM A) rs l, Tr A m rs l ->
  adv rs (snd (m rs)) /\ Forall (fun q : req => adv rs (snd q)) l.
Proof.
  intros A m rs l H. induction H.
  - split; [apply safe_read_varint|constructor].
  - split; [apply safe_read_exact|constructor].
  - split; [apply safe_read_slice|]. constructor; [apply adv_refl|constructor].
  - split; [apply safe_skip_bytes|constructor].
  - split; [apply safe_take_varint|constructor].
  - split; [apply safe_take_exact|constructor].
  - split; [apply adv_refl|constructor].
  - split; [apply adv_refl|constructor].
  - destruct IHTr1 as [A1 F1]. destruct IHTr2 as [A2 F2].
    rewrite H in A1. cbn [snd] in A1. rewrite (DeProofs.sbind_ok _ _ _ _ _ H). split.
    + eapply adv_trans; eauto.
    + apply Forall_app. split; [exact F1|]. eapply Forall_impl; [|exact F2].
      intros q Hq. eapply adv_trans; eauto.
  - destruct IHTr as [A1 F1]. destruct (sbind_stop m k rs H) as (E & _). rewrite E. split; assumption.
Qed.

Lemma adv_cap a b : adv a b -> rd_max_alloc b = rd_max_alloc a.
Proof. intros (p & _ & _ & H & _). exact H. Qed.
Lemma adv_mode a b : adv a b -> (rd_chunks a = None <-> rd_chunks b = None).
Proof. intros (p & _ & _ & _ & H). exact H. Qed.

(** ENFORCEMENT, computation level: if one of the requests of the run is refused, the run IS that
    refusal -- the result is Err EData and the reader stands at the request (nothing consumed for it,
    nothing allocated), however deep in the computation the request is made *)
Theorem tr_refused : forall A (m : RM A) rs l, Tr A m rs l ->
  forall n s, In (n, s) l -> refused n s -> m rs = (Err EData, s).
Proof.
  intros A m rs l H. induction H; intros n0 s Hin Hr; try (destruct Hin; fail).
  - destruct Hin as [E|[]]. inversion E; subst. destruct Hr as (Hc & Hb & Hm).
    destruct (rd_chunks s) as [c|] eqn:Ec; [|contradiction].
    apply (de_alloc_limit_chunked n0 s c); assumption.
  - apply in_app_or in Hin. destruct Hin as [Hin|Hin].
    + rewrite (IHTr1 _ _ Hin Hr) in H. discriminate.
    + rewrite (DeProofs.sbind_ok _ _ _ _ _ H). eapply IHTr2; eauto.
  - specialize (IHTr _ _ Hin Hr). unfold sbind. rewrite IHTr. reflexivity.
Qed.

(** the first five primitives never look at the cap *)
#[local] Transparent read_varint read_exact read_slice skip_bytes take_varint take_exact.
Lemma with_cap_varint c t r : read_varint t (with_cap c r) = (fst (read_varint t r), with_cap c (snd (read_varint t r))).
Proof.
  unfold read_varint. rewrite with_cap_buffer. change (rd_chunks (with_cap c r)) with (rd_chunks r).
  change (rd_inp (with_cap c r)) with (rd_inp r). destruct (rd_chunks r).
  - destruct (decode_var t (buffer r)) as [[v k]|]; [reflexivity|].
    destruct (decode_var t (gather (rd_inp r))) as [[v k]|]; reflexivity.
  - destruct (decode_var t (rd_inp r)) as [[v k]|]; reflexivity.
Qed.
Lemma with_cap_exact c n r : read_exact n (with_cap c r) = (fst (read_exact n r), with_cap c (snd (read_exact n r))).
Proof.
  unfold read_exact. change (rd_inp (with_cap c r)) with (rd_inp r).
  destruct (blen (rd_inp r) <? n); reflexivity.
Qed.
Lemma with_cap_skip c n r : skip_bytes n (with_cap c r) = (fst (skip_bytes n r), with_cap c (snd (skip_bytes n r))).
Proof.
  unfold skip_bytes. change (rd_inp (with_cap c r)) with (rd_inp r). change (rd_chunks (with_cap c r)) with (rd_chunks r).
  destruct (blen (rd_inp r) <? n); [|reflexivity]. destruct (rd_chunks r); reflexivity.
Qed.
Lemma with_cap_take_varint c l r :
  take_varint l (with_cap c r) = (fst (take_varint l r), with_cap c (snd (take_varint l r))).
Proof.
  unfold take_varint. change (rd_inp (with_cap c r)) with (rd_inp r).
  destruct (decode_i64 _) as [[v k]|]; reflexivity.
Qed.
Lemma with_cap_take_exact c l n r :
  take_exact l n (with_cap c r) = (fst (take_exact l n r), with_cap c (snd (take_exact l n r))).
Proof.
  unfold take_exact. change (rd_inp (with_cap c r)) with (rd_inp r).
  destruct (_ <? n); reflexivity.
Qed.
(** [read_slice] looks at the cap only for a request that is not free *)
Lemma with_cap_slice c n r : free n r \/ (n <= c /\ n <= rd_max_alloc r) ->
  read_slice n (with_cap c r) = (fst (read_slice n r), with_cap c (snd (read_slice n r))).
Proof.
  intro H. unfold read_slice. rewrite with_cap_buffer. change (rd_chunks (with_cap c r)) with (rd_chunks r).
  change (rd_inp (with_cap c r)) with (rd_inp r). change (rd_max_alloc (with_cap c r)) with c.
  change (rd_pos (with_cap c r)) with (rd_pos r).
  destruct (rd_chunks r) eqn:Ec.
  - destruct (N.leb_spec n (blen (buffer r))); [reflexivity|].
    destruct H as [[H|H]|[H1 H2]]; [congruence|lia|].
    destruct (N.ltb_spec c n); [lia|]. destruct (N.ltb_spec (rd_max_alloc r) n); [lia|].
    destruct (blen (rd_inp r) <? n); reflexivity.
  - destruct (blen (rd_inp r) <? n); reflexivity.
Qed.
#[local] Opaque read_varint read_exact read_slice skip_bytes take_varint take_exact.

(** THE CAP IS A PER-REQUEST CONDITION, computation level: if every request of the run is free or at most
    c (and was not refused by the cap the run was made with), the run with cap c is the same run: same
    result, same final reader up to the cap *)
Theorem tr_with_cap : forall A (m : RM A) r l, Tr A m r l -> forall c,
  (forall n s, In (n, s) l -> free n s \/ (n <= c /\ n <= rd_max_alloc r)) ->
  m (with_cap c r) = (fst (m r), with_cap c (snd (m r))).
Proof.
  intros A m r l H. induction H; intros c Hl.
  - apply with_cap_varint.
  - apply with_cap_exact.
  - apply with_cap_slice. apply Hl. left. reflexivity.
  - apply with_cap_skip.
  - apply with_cap_take_varint.
  - apply with_cap_take_exact.
  - reflexivity.
  - reflexivity.
  - pose proof (tr_adv _ _ _ _ H0) as [Ha _]. rewrite H in Ha. cbn [snd] in Ha. apply adv_cap in Ha.
    assert (E1 : m (with_cap c rs) = (Ok a, with_cap c rs')).
    { rewrite (IHTr1 c), H; [reflexivity|]. intros n s Hin. apply Hl, in_or_app. left. exact Hin. }
    rewrite (DeProofs.sbind_ok _ _ _ _ _ E1), (DeProofs.sbind_ok _ _ _ _ _ H).
    apply IHTr2. intros n s Hin. rewrite Ha. apply Hl, in_or_app. right. exact Hin.
  - specialize (IHTr c Hl). unfold sbind. rewrite IHTr.
    destruct (m rs) as [[a|e|p| |] s']; cbn [fst snd is_ok] in *; try discriminate; reflexivity.
Qed.

(** existence: the class of computations that have a trace from every state contains the primitives and
    is closed under bind / return / failure *)
Definition traced (A : Type) (m : RM A) : Prop := forall rs, exists l, Tr A m rs l.

Lemma traced_bind : forall (A B : Type) (m : RM A) (k : A -> RM B),
  traced A m -> (forall a, traced B (k a)) -> traced B (sbind m k).
Proof.
  intros A B m k Hm Hk rs. destruct (Hm rs) as [l1 T1].
  destruct (m rs) as [x rs'] eqn:E. destruct x as [a|e|p| |].
  - destruct (Hk a rs') as [l2 T2]. exists (l1 ++ l2). eapply tr_bind_ok; eauto.
  - exists l1. apply tr_bind_stop; [rewrite E; reflexivity|exact T1].
  - exists l1. apply tr_bind_stop; [rewrite E; reflexivity|exact T1].
  - exists l1. apply tr_bind_stop; [rewrite E; reflexivity|exact T1].
  - exists l1. apply tr_bind_stop; [rewrite E; reflexivity|exact T1].
Qed.

(* ------------------------------------------------------------------------------------------ *)
(** * Part B. The datum decoder *)

(** every run of [de] has a request trace: any schema (well-formed or not), node, target, flags, fuel,
    reader state *)
Theorem de_trace_exists : forall Sc cfg fuel n depth favor force t rs,
  exists l, Tr dval (de Sc cfg fuel n depth favor force t) rs l.
Proof.
  intros Sc cfg fuel n depth favor force t.
  apply (closure_de traced); clear.
  - exact traced_bind.
  - intros A a rs. exists []. constructor.
  - intros A r H rs. exists []. constructor. exact H.
  - intros t rs. exists []. constructor.
  - intros n rs. exists []. constructor.
  - intros n rs. exists [(n, rs)]. constructor.
  - intros n rs. exists []. constructor.
  - intros l rs. exists []. constructor.
  - intros l n rs. exists []. constructor.
Qed.

(** UNCONDITIONAL: whatever the schema, the target, the bytes and the outcome (value, error, panic, out
    of fuel), [de] hands back a reader that moved forward inside its input, with the SAME allocation cap
    and the same mode.  (DeSafetyProofs.de_consumes_prefix_adv proves this under the hypothesis that the
    schema's keys are in range, because it is a by-product of the no-panic proof.) *)
Theorem de_adv_any : forall Sc cfg fuel n depth favor force t rs,
  adv rs (snd (de Sc cfg fuel n depth favor force t rs)).
Proof.
  intros. destruct (de_trace_exists Sc cfg fuel n depth favor force t rs) as [l T].
  apply (tr_adv _ _ _ _ T).
Qed.

Theorem de_keeps_cap : forall Sc cfg fuel n depth favor force t rs,
  rd_max_alloc (snd (de Sc cfg fuel n depth favor force t rs)) = rd_max_alloc rs /\
  (rd_chunks rs = None <-> rd_chunks (snd (de Sc cfg fuel n depth favor force t rs)) = None).
Proof. intros. pose proof (de_adv_any Sc cfg fuel n depth favor force t rs) as H. split; [apply adv_cap|apply adv_mode]; exact H. Qed.

(** ENFORCEMENT, datum level: a datum that asks -- anywhere inside it -- for a length-delimited value
    larger than the cap that is not buffered fails with Err EData at that request; the states of all its
    requests carry the cap of the reader the datum was started with *)
Theorem de_refusal : forall Sc cfg fuel nd depth favor force t rs l n s,
  Tr dval (de Sc cfg fuel nd depth favor force t) rs l -> In (n, s) l ->
  rd_chunks rs <> None -> blen (buffer s) < n -> rd_max_alloc rs < n ->
  de Sc cfg fuel nd depth favor force t rs = (Err EData, s).
Proof.
  intros Sc cfg fuel nd depth favor force t rs l n s T Hin Hc Hb Hm.
  pose proof (tr_adv _ _ _ _ T) as [_ F]. rewrite Forall_forall in F. specialize (F _ Hin). cbn [snd] in F.
  eapply tr_refused; eauto. split; [|split].
  - intro E. apply Hc. apply (adv_mode _ _ F). exact E.
  - exact Hb.
  - rewrite (adv_cap _ _ F). exact Hm.
Qed.

(** the cap is per request, datum level *)
Theorem de_with_cap : forall Sc cfg fuel nd depth favor force t rs l c,
  Tr dval (de Sc cfg fuel nd depth favor force t) rs l ->
  (forall n s, In (n, s) l -> free n s \/ (n <= c /\ n <= rd_max_alloc rs)) ->
  de Sc cfg fuel nd depth favor force t (with_cap c rs)
  = (fst (de Sc cfg fuel nd depth favor force t rs), with_cap c (snd (de Sc cfg fuel nd depth favor force t rs))).
Proof. intros. eapply tr_with_cap; eauto. Qed.


(** ** leaf instances: the traces of a bytes / string / fixed datum *)
Lemma tr_then_ret : forall (A B : Type) (m : RM A) (g : A -> B) rs l,
  Tr A m rs l -> Tr B (sbind m (fun a => sret (g a))) rs l.
Proof.
  intros A B m g rs l T. destruct (m rs) as [x rs'] eqn:E. destruct x as [a|e|p| |].
  - rewrite <- (app_nil_r l). eapply tr_bind_ok; [exact E|exact T|constructor].
  - apply tr_bind_stop; [rewrite E; reflexivity|exact T].
  - apply tr_bind_stop; [rewrite E; reflexivity|exact T].
  - apply tr_bind_stop; [rewrite E; reflexivity|exact T].
  - apply tr_bind_stop; [rewrite E; reflexivity|exact T].
Qed.

Lemma tr_slice_then : forall (A : Type) n (k : bytes * option N -> RM A) rs,
  (forall r s, Tr A (k r) s []) -> Tr A (sbind (read_slice n) k) rs [(n, rs)].
Proof.
  intros A n k rs Hk. destruct (read_slice n rs) as [x rs'] eqn:E. destruct x as [a|e|p| |].
  - change [(n, rs)] with ([(n, rs)] ++ []). eapply tr_bind_ok; [exact E|constructor|apply Hk].
  - apply tr_bind_stop; [rewrite E; reflexivity|constructor].
  - apply tr_bind_stop; [rewrite E; reflexivity|constructor].
  - apply tr_bind_stop; [rewrite E; reflexivity|constructor].
  - apply tr_bind_stop; [rewrite E; reflexivity|constructor].
Qed.

Lemma tr_read_usize rs : Tr N read_usize rs [].
Proof.
  unfold read_usize. destruct (read_varint VI64 rs) as [x rs'] eqn:E. destruct x as [z|e|p| |].
  - change (@nil req) with (@nil req ++ []). eapply tr_bind_ok; [exact E|constructor|].
    destruct (z <? 0)%Z; constructor. reflexivity.
  - apply tr_bind_stop; [rewrite E; reflexivity|constructor].
  - apply tr_bind_stop; [rewrite E; reflexivity|constructor].
  - apply tr_bind_stop; [rewrite E; reflexivity|constructor].
  - apply tr_bind_stop; [rewrite E; reflexivity|constructor].
Qed.

Lemma tr_str_event r s : Tr dval (str_event r) s [].
Proof. unfold str_event. destruct (utf8_valid (fst r)); constructor. reflexivity. Qed.

Lemma tr_read_ld_bytes rs n rs1 : read_usize rs = (Ok n, rs1) -> Tr dval read_ld_bytes rs [(n, rs1)].
Proof.
  intro H. unfold read_ld_bytes. change [(n, rs1)] with ([] ++ [(n, rs1)]).
  eapply tr_bind_ok; [exact H|apply tr_read_usize|]. apply tr_slice_then. intros; constructor.
Qed.
Lemma tr_read_ld_str rs n rs1 : read_usize rs = (Ok n, rs1) -> Tr dval read_ld_str rs [(n, rs1)].
Proof.
  intro H. unfold read_ld_str. change [(n, rs1)] with ([] ++ [(n, rs1)]).
  eapply tr_bind_ok; [exact H|apply tr_read_usize|]. apply tr_slice_then. intros; apply tr_str_event.
Qed.

(** a bytes datum whose length prefix is n makes the single request n, behind the prefix *)
Lemma tr_de_bytes : forall Sc cfg f depth favor rs n rs1, read_usize rs = (Ok n, rs1) ->
  Tr dval (de Sc cfg (S f) FBytes depth favor false TAny) rs [(n, rs1)].
Proof.
  intros. rewrite de_unfold. unfold de_any. apply tr_then_ret with (g := leaf TAny). apply tr_read_ld_bytes. assumption.
Qed.
Lemma tr_de_string : forall Sc cfg f depth favor rs n rs1, read_usize rs = (Ok n, rs1) ->
  Tr dval (de Sc cfg (S f) FString depth favor false TAny) rs [(n, rs1)].
Proof.
  intros. rewrite de_unfold. unfold de_any. apply tr_then_ret with (g := leaf TAny). apply tr_read_ld_str. assumption.
Qed.
Lemma tr_de_fixed : forall Sc cfg f depth favor rs nm size,
  Tr dval (de Sc cfg (S f) (FFixed nm size) depth favor false TAny) rs [(size, rs)].
Proof. intros. rewrite de_unfold. unfold de_any. apply tr_slice_then. intros; constructor. Qed.

(** the datum-level allocation theorems for the three length-delimited leaves (C04_alloc_reader lifted
    through [de]): a chunked reader, a length larger than the cap and than what is buffered behind the
    length prefix *)
Theorem de_bytes_over_cap : forall Sc cfg f depth favor rs n rs1,
  read_usize rs = (Ok n, rs1) -> rd_chunks rs <> None -> blen (buffer rs1) < n -> rd_max_alloc rs < n ->
  de Sc cfg (S f) FBytes depth favor false TAny rs = (Err EData, rs1).
Proof. intros. eapply de_refusal; [apply tr_de_bytes; eassumption|left; reflexivity|assumption..]. Qed.
Theorem de_string_over_cap : forall Sc cfg f depth favor rs n rs1,
  read_usize rs = (Ok n, rs1) -> rd_chunks rs <> None -> blen (buffer rs1) < n -> rd_max_alloc rs < n ->
  de Sc cfg (S f) FString depth favor false TAny rs = (Err EData, rs1).
Proof. intros. eapply de_refusal; [apply tr_de_string; eassumption|left; reflexivity|assumption..]. Qed.
Theorem de_fixed_over_cap : forall Sc cfg f depth favor rs nm size,
  rd_chunks rs <> None -> blen (buffer rs) < size -> rd_max_alloc rs < size ->
  de Sc cfg (S f) (FFixed nm size) depth favor false TAny rs = (Err EData, rs).
Proof. intros. eapply de_refusal; [apply tr_de_fixed|left; reflexivity|assumption..]. Qed.

(* ------------------------------------------------------------------------------------------ *)
(** * Part C. INVARIANCE of the cap (and of the reader mode) along a container file *)

(** r has the configuration of r0: the same allocation cap -- not larger, not smaller -- and the same mode *)
Definition same_cfg (r0 r : rstate) : Prop :=
  rd_max_alloc r = rd_max_alloc r0 /\ (rd_chunks r0 = None <-> rd_chunks r = None).

Lemma same_cfg_refl r : same_cfg r r.
Proof. split; [reflexivity|tauto]. Qed.
Lemma same_cfg_trans a b c : same_cfg a b -> same_cfg b c -> same_cfg a c.
Proof. intros [H1 H2] [G1 G2]. split; [congruence|tauto]. Qed.
Lemma adv_same_cfg a b : adv a b -> same_cfg a b.
Proof. intro H. split; [apply adv_cap, H|apply adv_mode, H]. Qed.

(** the invariant on the state of the container reader: the reader it holds -- the outer reader between
    blocks, the block reader (Take) inside a block -- has the configuration of r0 *)
Definition cinv (r0 : rstate) (s : rdstate) : Prop :=
  match s with
  | RBroken => True
  | RNotInBlock outer => same_cfg r0 outer
  | RInBlock inner _ _ _ => same_cfg r0 inner
  end.

(** entering a block: the block reader gets the outer reader's cap and mode *)
Lemma enter_block_cfg : forall outer i a sh n,
  enter_block outer = Ok (i, a, sh, n) -> same_cfg outer i.
Proof.
  intros outer i a sh n H. unfold enter_block in H.
  pose proof (proj1 (safe_read_varint VI64 outer)) as A1.
  destruct (read_varint VI64 outer) as [x r1]. destruct x as [cnt| | | |]; try discriminate. cbn [snd] in A1.
  destruct (cnt <? 0)%Z; [discriminate|].
  pose proof (proj1 (safe_read_varint VI64 r1)) as A2.
  destruct (read_varint VI64 r1) as [y r2]. destruct y as [size| | | |]; try discriminate. cbn [snd] in A2.
  destruct (size <? 0)%Z; [discriminate|]. cbv zeta in H.
  pose proof (adv_same_cfg _ _ (adv_trans _ _ _ A1 A2)) as [C1 C2].
  destruct (rd_chunks r2) as [ch|] eqn:Ec.
  - inversion H; subst. split; cbn [rd_max_alloc rd_chunks]; [exact C1|]. rewrite C2. tauto.
  - destruct (_ <? _); [discriminate|]. inversion H; subst. split; cbn [rd_max_alloc rd_chunks]; [exact C1|tauto].
Qed.

Section Inv.
Variable Sc : fschema.
Variable cfg : dcfg.
Variable sync : bytes.
Variable t : dtarget.
Variable r0 : rstate.

Notation step := (cr_step Sc cfg sync t).
Notation inner := (cr_inner Sc cfg sync t).
Notation next := (cr_next Sc cfg sync t).
Notation run := (cr_run Sc cfg sync t).

(** one step of deserialize_next_inner (entering a block, decoding a datum, leaving a block through the
    sync marker -- the hand-over --, any failure) preserves the invariant *)
Lemma cr_step_inv : forall s, cinv r0 s ->
  match step s with Done _ s' => cinv r0 s' | Go s' => cinv r0 s' end.
Proof.
  intros s H. unfold cr_step. destruct s as [|outer|i after short n].
  - exact I.
  - destruct (rd_inp outer); [exact H|].
    destruct (enter_block outer) as [[[[i a] sh] n0]| | | |] eqn:E; try exact I.
    cbn [cinv] in *. eapply same_cfg_trans; [exact H|]. eapply enter_block_cfg; eauto.
  - cbn [cinv] in H. destruct (n =? 0).
    + destruct (negb (Nat.eqb (length (rd_inp i)) 0) || short); [exact I|]. cbv zeta.
      pose proof (proj1 (safe_read_exact 16 (mkRd after (rd_pos i) (rd_chunks i) (rd_max_alloc i)))) as A.
      destruct (read_exact 16 (mkRd after (rd_pos i) (rd_chunks i) (rd_max_alloc i))) as [x o'].
      cbn [snd] in A. destruct x as [m| | | |]; try exact I.
      destruct (bytes_eqb m sync); [|exact I]. cbn [cinv].
      eapply same_cfg_trans; [exact H|]. eapply same_cfg_trans; [|apply adv_same_cfg, A].
      split; cbn [rd_max_alloc rd_chunks]; [reflexivity|tauto].
    + destruct (fnode_at Sc 0) as [root|]; [|exact H].
      pose proof (de_adv_any Sc cfg FUEL_SINK root (c_depth cfg) false false t i) as A.
      destruct (de Sc cfg FUEL_SINK root (c_depth cfg) false false t i) as [x i']. cbn [snd] in A.
      assert (G : same_cfg r0 i') by (eapply same_cfg_trans; [exact H|apply adv_same_cfg, A]).
      destruct x; exact G.
Qed.

(** every state the reader goes through during one call -- in particular every block reader, also those of
    blocks that are entered and left within the call (empty blocks) *)
Fixpoint cr_visited (fuel : nat) (s : rdstate) : list rdstate :=
  match fuel with
  | O => [s]
  | S f => s :: match step s with Done _ s' => [s'] | Go s' => cr_visited f s' end
  end.

Lemma cr_visited_inv : forall fuel s, cinv r0 s -> Forall (cinv r0) (cr_visited fuel s).
Proof.
  induction fuel as [|f IH]; intros s H; cbn [cr_visited].
  - constructor; [exact H|constructor].
  - constructor; [exact H|]. pose proof (cr_step_inv s H) as G. destruct (step s) as [it s'|s'].
    + constructor; [exact G|constructor].
    + apply IH, G.
Qed.

Lemma cr_inner_inv : forall fuel s, cinv r0 s -> cinv r0 (snd (inner fuel s)).
Proof.
  induction fuel as [|f IH]; intros s H.
  - exact H.
  - rewrite cr_inner_S. pose proof (cr_step_inv s H) as G. destruct (step s) as [it s'|s'].
    + exact G.
    + apply IH, G.
Qed.

(** INVARIANCE, one call of deserialize_seed_next: any bytes, any outcome *)
Theorem cr_next_inv : forall st, cinv r0 (cr_state st) -> cinv r0 (cr_state (snd (next st))).
Proof.
  intros st H. rewrite cr_next_eq. destruct (cr_pretend_eof st); [exact H|].
  pose proof (cr_inner_inv 1000 (cr_state st) H) as G.
  destruct (inner 1000 (cr_state st)) as [it s']. exact G.
Qed.

(** the state after k calls *)
Fixpoint cr_after (k : nat) (st : crstate) : crstate :=
  match k with
  | O => st
  | S k' => cr_after k' (snd (next st))
  end.

Lemma cr_after_inv : forall k st, cinv r0 (cr_state st) -> cinv r0 (cr_state (cr_after k st)).
Proof. induction k as [|k IH]; intros st H; cbn [cr_after]; [exact H|]. apply IH, cr_next_inv, H. Qed.

(** [cr_run n] delivers, as its k-th item, what the (k+1)-th call returns in the state after k calls *)
Lemma cr_run_nth : forall n k st, (k < n)%nat ->
  nth_error (run n st) k = Some (fst (next (cr_after k st))).
Proof.
  induction n as [|n IH]; intros k st Hk; [lia|]. cbn [cr_run].
  destruct (next st) as [it st'] eqn:E. destruct k as [|k]; cbn [nth_error cr_after].
  - rewrite E. reflexivity.
  - rewrite E. cbn [snd]. apply IH. lia.
Qed.

End Inv.

(** opening the file (magic, metadata map, sync marker): the reader positioned at the first block has the
    configuration of the reader the file was opened with *)
Theorem cr_open_adv : forall r m sy r', cr_open r = Ok (m, sy, r') -> adv r r'.
Proof.
  intros r m sy r' H. unfold cr_open in H.
  pose proof (proj1 (safe_read_exact 4 r)) as A1.
  destruct (read_exact 4 r) as [x r1]. cbn [snd] in A1. destruct x as [magic| | | |]; try discriminate.
  destruct (negb (bytes_eqb magic HEADER_CONST)); [discriminate|].
  pose proof (de_adv_any META_SCHEMA (mkCfg 1000 64) (N.to_nat 100000) (FMap 1) 64 false false
                (TMap (THint HIdentifier) TAny) r1) as A2.
  destruct (de META_SCHEMA (mkCfg 1000 64) (N.to_nat 100000) (FMap 1) 64 false false
              (TMap (THint HIdentifier) TAny) r1) as [y r2]. cbn [snd] in A2.
  destruct y as [d| | | |]; try discriminate. destruct d; try discriminate.
  pose proof (proj1 (safe_read_exact 16 r2)) as A3.
  destruct (read_exact 16 r2) as [z r3]. cbn [snd] in A3. destruct z as [s| | | |]; try discriminate.
  inversion H; subst. eapply adv_trans; [exact A1|]. eapply adv_trans; eauto.
Qed.

Theorem cr_open_cfg : forall r m sy r', cr_open r = Ok (m, sy, r') -> same_cfg r r'.
Proof. intros. eapply adv_same_cfg, cr_open_adv; eauto. Qed.

(** INVARIANCE, whole file: open ANY bytes with a reader r (slice or chunked, any cap), then call
    deserialize_seed_next any number of times, with any schema, limits and target: the reader held by the
    container reader -- outer reader or block reader -- always has exactly the cap of r, and its mode *)
Theorem container_cap_invariant : forall Sc cfg t r m sy r' k,
  cr_open r = Ok (m, sy, r') ->
  cinv r (cr_state (cr_after Sc cfg sy t k (mkCR (RNotInBlock r') false))).
Proof.
  intros Sc cfg t r m sy r' k H. apply cr_after_inv. cbn [cr_state cinv]. eapply cr_open_cfg; eauto.
Qed.

(** ... and so has every state visited DURING the (k+1)-th call *)
Theorem container_cap_invariant_visited : forall Sc cfg t r m sy r' k,
  cr_open r = Ok (m, sy, r') ->
  Forall (cinv r) (cr_visited Sc cfg sy t 1000 (cr_state (cr_after Sc cfg sy t k (mkCR (RNotInBlock r') false)))).
Proof. intros. apply cr_visited_inv. eapply container_cap_invariant; eauto. Qed.

(** the instance for [cr_run n]: its k-th item is produced from a state that satisfies the invariant *)
Theorem cr_run_cap_invariant : forall Sc cfg t r m sy r' n k,
  cr_open r = Ok (m, sy, r') -> (k < n)%nat ->
  exists st, cinv r (cr_state st) /\
             nth_error (cr_run Sc cfg sy t n (mkCR (RNotInBlock r') false)) k = Some (fst (cr_next Sc cfg sy t st)) /\
             cinv r (cr_state (snd (cr_next Sc cfg sy t st))).
Proof.
  intros Sc cfg t r m sy r' n k H Hk.
  exists (cr_after Sc cfg sy t k (mkCR (RNotInBlock r') false)).
  pose proof (container_cap_invariant Sc cfg t r m sy r' k H) as G.
  split; [exact G|]. split; [apply cr_run_nth, Hk|apply cr_next_inv, G].
Qed.

(* ------------------------------------------------------------------------------------------ *)
(** * Part D. ENFORCEMENT in every block *)

Section Enforce.
Variable Sc : fschema.
Variable cfg : dcfg.
Variable sync : bytes.
Variable t : dtarget.

Notation step := (cr_step Sc cfg sync t).
Notation inner := (cr_inner Sc cfg sync t).
Notation next := (cr_next Sc cfg sync t).
Notation run := (cr_run Sc cfg sync t).
Notation after := (cr_after Sc cfg sync t).

(** the requests of one step: those of the datum it decodes (entering and leaving a block read varints
    and the sync marker: no length-delimited value) *)
Definition step_tr (s : rdstate) (l : list req) : Prop :=
  match s with
  | RInBlock i _ _ n =>
      if n =? 0 then l = []
      else match fnode_at Sc 0 with
           | None => l = []
           | Some root => Tr dval (de Sc cfg FUEL_SINK root (c_depth cfg) false false t) i l
           end
  | _ => l = []
  end.

(** the requests of one call of deserialize_next_inner: those of the datum it ends with *)
Fixpoint inner_tr (fuel : nat) (s : rdstate) (l : list req) : Prop :=
  match fuel with
  | O => l = []
  | S f => match step s with Done _ _ => step_tr s l | Go s' => inner_tr f s' l end
  end.

Definition next_tr (st : crstate) (l : list req) : Prop :=
  if cr_pretend_eof st then l = [] else inner_tr 1000 (cr_state st) l.

Fixpoint run_tr (n : nat) (st : crstate) (l : list req) : Prop :=
  match n with
  | O => l = []
  | S m => exists l1 l2, l = l1 ++ l2 /\ next_tr st l1 /\ run_tr m (snd (next st)) l2
  end.

Lemma step_tr_exists s : exists l, step_tr s l.
Proof.
  destruct s as [|o|i a sh n]; cbn [step_tr]; try (exists []; reflexivity).
  destruct (n =? 0); [exists []; reflexivity|]. destruct (fnode_at Sc 0); [|exists []; reflexivity].
  apply de_trace_exists.
Qed.
Lemma inner_tr_exists : forall fuel s, exists l, inner_tr fuel s l.
Proof.
  induction fuel as [|f IH]; intro s; cbn [inner_tr]; [exists []; reflexivity|].
  destruct (step s); [apply step_tr_exists|apply IH].
Qed.
Lemma next_tr_exists st : exists l, next_tr st l.
Proof. unfold next_tr. destruct (cr_pretend_eof st); [exists []; reflexivity|apply inner_tr_exists]. Qed.
Lemma run_tr_exists : forall n st, exists l, run_tr n st l.
Proof.
  induction n as [|n IH]; intro st; cbn [run_tr]; [exists []; reflexivity|].
  destruct (next_tr_exists st) as [l1 H1]. destruct (IH (snd (next st))) as [l2 H2].
  exists (l1 ++ l2), l1, l2. auto.
Qed.

Lemma inner_tr_done : forall f s l it s', step s = Done it s' -> step_tr s l -> inner_tr (S f) s l.
Proof. intros f s l it s' H T. cbn [inner_tr]. rewrite H. exact T. Qed.

Lemma inner_tr_go : forall f s l s', step s = Go s' -> inner_tr f s' l -> inner_tr (S f) s l.
Proof. intros f s l s' H T. cbn [inner_tr]. rewrite H. exact T. Qed.

Lemma step_in_block_done : forall i a sh n root, n <> 0 -> fnode_at Sc 0 = Some root ->
  exists it s', step (RInBlock i a sh n) = Done it s'.
Proof.
  intros i a sh n root Hn Hr. unfold cr_step. destruct (N.eqb_spec n 0); [contradiction|]. rewrite Hr.
  destruct (de Sc cfg FUEL_SINK root (c_depth cfg) false false t i) as [[d| | | |] i']; eauto.
Qed.

(** inside a block with data left, the requests of the call are those of the datum at the head *)
Lemma next_tr_in_block : forall st i a sh n root l,
  cr_pretend_eof st = false -> cr_state st = RInBlock i a sh n -> n <> 0 -> fnode_at Sc 0 = Some root ->
  Tr dval (de Sc cfg FUEL_SINK root (c_depth cfg) false false t) i l -> next_tr st l.
Proof.
  intros st i a sh n root l He Hs Hn Hr T. unfold next_tr. rewrite He, Hs.
  destruct (step_in_block_done i a sh n root Hn Hr) as (it & s' & E).
  change 1000%nat with (S 999). generalize 999%nat. intro f. eapply inner_tr_done; [exact E|].
  cbn [step_tr]. destruct (N.eqb_spec n 0); [contradiction|]. rewrite Hr. exact T.
Qed.

Variable r0 : rstate.

Lemma inner_refused : forall fuel s l n s1,
  cinv r0 s -> inner_tr fuel s l -> In (n, s1) l ->
  rd_chunks r0 <> None -> blen (buffer s1) < n -> rd_max_alloc r0 < n ->
  exists a sh nl, inner fuel s = (IErr EData, RInBlock s1 a sh nl).
Proof.
  induction fuel as [|f IH]; intros s l n s1 Hi Ht Hin Hc Hb Hm; cbn [inner_tr] in Ht.
  - subst l. destruct Hin.
  - rewrite cr_inner_S. pose proof (cr_step_inv Sc cfg sync t r0 s Hi) as G.
    destruct (step s) as [it s'|s'] eqn:Es.
    + destruct s as [|o|i a sh n0]; cbn [step_tr] in Ht; try (subst l; destruct Hin).
      unfold cr_step in Es. destruct (n0 =? 0); [subst l; destruct Hin|].
      destruct (fnode_at Sc 0) as [root|]; [|subst l; destruct Hin].
      cbn [cinv] in Hi. destruct Hi as [Hi1 Hi2].
      assert (E : de Sc cfg FUEL_SINK root (c_depth cfg) false false t i = (Err EData, s1)).
      { eapply de_refusal; eauto.
        - intro X. apply Hc, Hi2, X.
        - rewrite Hi1. exact Hm. }
      rewrite E in Es. inversion Es; subst. cbn [result_item]. eauto.
    + eapply IH; eauto.
Qed.

(** ENFORCEMENT, one call: in a state that satisfies the invariant for a chunked r0, if the datum this call
    decodes asks -- anywhere inside it -- for a length-delimited value of n bytes with n above the cap of
    r0 and above what is buffered at that moment, the call returns the error item: no value, no
    allocation.  The reader stands at the refused request and the error is recoverable (not EOF-latched) *)
Theorem cr_next_refused : forall st l n s1,
  cinv r0 (cr_state st) -> next_tr st l -> In (n, s1) l ->
  rd_chunks r0 <> None -> blen (buffer s1) < n -> rd_max_alloc r0 < n ->
  exists a sh nl, next st = (IErr EData, mkCR (RInBlock s1 a sh nl) false).
Proof.
  intros st l n s1 Hi Ht Hin Hc Hb Hm. unfold next_tr in Ht. rewrite cr_next_eq.
  destruct (cr_pretend_eof st); [subst l; destruct Hin|].
  destruct (inner_refused 1000 (cr_state st) l n s1 Hi Ht Hin Hc Hb Hm) as (a & sh & nl & E).
  rewrite E. exists a, sh, nl. reflexivity.
Qed.

End Enforce.

(** ENFORCEMENT IN EVERY BLOCK: a file (any bytes) opened with a chunked reader r; k calls later -- in
    whatever block the reader is by then, after whatever values and errors --, if the datum decoded by the
    next call asks for n bytes with n above the CONFIGURED cap [rd_max_alloc r] and above what is buffered,
    the call returns IErr EData (never a value, never an allocation), leaving the reader at the request *)
Theorem enforced_in_every_block : forall Sc cfg t r m sy r' k l n s,
  cr_open r = Ok (m, sy, r') -> rd_chunks r <> None ->
  next_tr Sc cfg sy t (cr_after Sc cfg sy t k (mkCR (RNotInBlock r') false)) l ->
  In (n, s) l -> blen (buffer s) < n -> rd_max_alloc r < n ->
  exists a sh nl,
    cr_next Sc cfg sy t (cr_after Sc cfg sy t k (mkCR (RNotInBlock r') false))
    = (IErr EData, mkCR (RInBlock s a sh nl) false).
Proof.
  intros Sc cfg t r m sy r' k l n s Ho Hc Ht Hin Hb Hm.
  eapply cr_next_refused; eauto. eapply container_cap_invariant; eauto.
Qed.

(** the same seen from [cr_run]: the k-th item is the error *)
Theorem enforced_in_every_block_run : forall Sc cfg t r m sy r' N k l n s,
  cr_open r = Ok (m, sy, r') -> rd_chunks r <> None -> (k < N)%nat ->
  next_tr Sc cfg sy t (cr_after Sc cfg sy t k (mkCR (RNotInBlock r') false)) l ->
  In (n, s) l -> blen (buffer s) < n -> rd_max_alloc r < n ->
  nth_error (cr_run Sc cfg sy t N (mkCR (RNotInBlock r') false)) k = Some (IErr EData).
Proof.
  intros Sc cfg t r m sy r' N k l n s Ho Hc Hk Ht Hin Hb Hm.
  rewrite (cr_run_nth Sc cfg sy t N k _ Hk).
  destruct (enforced_in_every_block Sc cfg t r m sy r' k l n s Ho Hc Ht Hin Hb Hm) as (a & sh & nl & E).
  rewrite E. reflexivity.
Qed.

(** a directly usable instance: the reader is inside a block (the k-th call finds data left), the schema is
    bytes, and the length prefix at the head of the block announces n bytes *)
Theorem enforced_bytes_in_every_block : forall cfg r m sy r' k i a sh nl n i1,
  let st := cr_after [FBytes] cfg sy TAny k (mkCR (RNotInBlock r') false) in
  cr_open r = Ok (m, sy, r') -> rd_chunks r <> None ->
  cr_pretend_eof st = false -> cr_state st = RInBlock i a sh nl -> nl <> 0 ->
  read_usize i = (Ok n, i1) -> blen (buffer i1) < n -> rd_max_alloc r < n ->
  cr_next [FBytes] cfg sy TAny st = (IErr EData, mkCR (RInBlock i1 a sh (nl - 1)) false).
Proof.
  intros cfg r m sy r' k i a sh nl n i1 st Ho Hc He Hs Hn Hu Hb Hm.
  assert (F : exists f, FUEL_SINK = S f).
  { Transparent FUEL_SINK. unfold FUEL_SINK. exists (pred (N.to_nat 100000)). lia. Opaque FUEL_SINK. }
  destruct F as [f Hf].
  assert (T : next_tr [FBytes] cfg sy TAny st [(n, i1)]).
  { eapply next_tr_in_block; eauto; [reflexivity|]. rewrite Hf. apply tr_de_bytes. exact Hu. }
  destruct (enforced_in_every_block [FBytes] cfg TAny r m sy r' k _ n i1 Ho Hc T (or_introl eq_refl) Hb Hm)
    as (a' & sh' & nl' & E).
  fold st in E. rewrite E.
  (* identify the leftovers of the block *)
  pose proof E as E2. rewrite cr_next_eq, He, Hs in E2. change 1000%nat with (S 999) in E2.
  rewrite cr_inner_S in E2. unfold cr_step in E2.
  destruct (N.eqb_spec nl 0); [contradiction|]. cbn [fnode_at nth_error] in E2.
  destruct (de [FBytes] cfg FUEL_SINK FBytes (c_depth cfg) false false TAny i) as [[d| | | |] i'];
    cbn [result_item] in E2; inversion E2; subst; reflexivity.
Qed.

(* ------------------------------------------------------------------------------------------ *)
(** * Part E. The cap is a condition on each VALUE, not on the file or on earlier blocks *)

Definition wc_state (c : N) (s : rdstate) : rdstate :=
  match s with
  | RBroken => RBroken
  | RNotInBlock o => RNotInBlock (with_cap c o)
  | RInBlock i a sh n => RInBlock (with_cap c i) a sh n
  end.
Definition wc_step (c : N) (x : step1) : step1 :=
  match x with Done it s' => Done it (wc_state c s') | Go s' => Go (wc_state c s') end.
Definition wc_cr (c : N) (st : crstate) : crstate := mkCR (wc_state c (cr_state st)) (cr_pretend_eof st).

(** every request fits: it needs no allocation, or it is at most c (and at most the cap C the traced run
    was made with: it was not refused there) *)
Definition fits_cap (c C : N) (l : list req) : Prop :=
  forall n s, In (n, s) l -> free n s \/ (n <= c /\ n <= C).

Lemma fits_cap_app c C l1 l2 : fits_cap c C (l1 ++ l2) <-> fits_cap c C l1 /\ fits_cap c C l2.
Proof.
  unfold fits_cap. split.
  - intro H. split; intros n s Hin; apply H, in_or_app; [left|right]; exact Hin.
  - intros [H1 H2] n s Hin. apply in_app_or in Hin. destruct Hin; [apply H1|apply H2]; assumption.
Qed.
Lemma fits_cap_nil c C : fits_cap c C [].
Proof. intros n s []. Qed.

Lemma enter_block_wc : forall c o,
  enter_block (with_cap c o) =
  match enter_block o with
  | Ok (i, a, sh, n) => Ok (with_cap c i, a, sh, n)
  | Err e => Err e | Panic p => Panic p | OutOfFuel => OutOfFuel | Unmodelled => Unmodelled
  end.
Proof.
  intros c o. unfold enter_block. rewrite with_cap_varint.
  destruct (read_varint VI64 o) as [x r1]. cbn [fst snd]. destruct x as [cnt| | | |]; try reflexivity.
  destruct (cnt <? 0)%Z; [reflexivity|]. rewrite with_cap_varint.
  destruct (read_varint VI64 r1) as [y r2]. cbn [fst snd]. destruct y as [size| | | |]; try reflexivity.
  destruct (size <? 0)%Z; [reflexivity|]. cbv zeta.
  change (rd_inp (with_cap c r2)) with (rd_inp r2). change (rd_chunks (with_cap c r2)) with (rd_chunks r2).
  change (rd_pos (with_cap c r2)) with (rd_pos r2). change (rd_max_alloc (with_cap c r2)) with c.
  destruct (rd_chunks r2); [reflexivity|]. destruct (_ <? _); reflexivity.
Qed.

Section PerValue.
Variable Sc : fschema.
Variable cfg : dcfg.
Variable sync : bytes.
Variable t : dtarget.
Variable r0 : rstate.
Variable c : N.

Notation step := (cr_step Sc cfg sync t).
Notation inner := (cr_inner Sc cfg sync t).
Notation next := (cr_next Sc cfg sync t).
Notation run := (cr_run Sc cfg sync t).

Lemma step_go_tr : forall s s', step s = Go s' -> step_tr Sc cfg t s [].
Proof.
  intros s s' H. destruct s as [|o|i a sh n]; cbn [step_tr]; try reflexivity.
  unfold cr_step in H. destruct (n =? 0); [reflexivity|].
  destruct (fnode_at Sc 0); [|reflexivity].
  destruct (de Sc cfg FUEL_SINK f (c_depth cfg) false false t i) as [[d| | | |] i']; discriminate.
Qed.

Lemma step_wc : forall s l, cinv r0 s -> step_tr Sc cfg t s l -> fits_cap c (rd_max_alloc r0) l ->
  step (wc_state c s) = wc_step c (step s).
Proof.
  intros s l Hi Ht Hl. destruct s as [|o|i a sh n]; [reflexivity| |].
  - cbn [wc_state]. unfold cr_step. change (rd_inp (with_cap c o)) with (rd_inp o).
    destruct (rd_inp o); [reflexivity|]. rewrite enter_block_wc.
    destruct (enter_block o) as [[[[i a] sh] n0]| | | |]; reflexivity.
  - cbn [wc_state step_tr cinv] in *. unfold cr_step.
    change (rd_inp (with_cap c i)) with (rd_inp i). change (rd_chunks (with_cap c i)) with (rd_chunks i).
    change (rd_pos (with_cap c i)) with (rd_pos i). change (rd_max_alloc (with_cap c i)) with c.
    destruct (n =? 0).
    + destruct (negb (Nat.eqb (length (rd_inp i)) 0) || sh); [reflexivity|]. cbv zeta.
      change (mkRd a (rd_pos i) (rd_chunks i) c) with (with_cap c (mkRd a (rd_pos i) (rd_chunks i) (rd_max_alloc i))).
      rewrite with_cap_exact.
      destruct (read_exact 16 (mkRd a (rd_pos i) (rd_chunks i) (rd_max_alloc i))) as [x o']. cbn [fst snd].
      destruct x as [m| | | |]; try reflexivity. destruct (bytes_eqb m sync); reflexivity.
    + destruct (fnode_at Sc 0) as [root|]; [|reflexivity].
      rewrite (de_with_cap Sc cfg FUEL_SINK root (c_depth cfg) false false t i l c Ht).
      * destruct (de Sc cfg FUEL_SINK root (c_depth cfg) false false t i) as [[d| | | |] i']; reflexivity.
      * destruct Hi as [Hi _]. rewrite Hi. exact Hl.
Qed.

Lemma inner_wc : forall fuel s l, cinv r0 s -> inner_tr Sc cfg sync t fuel s l -> fits_cap c (rd_max_alloc r0) l ->
  inner fuel (wc_state c s) = (fst (inner fuel s), wc_state c (snd (inner fuel s))).
Proof.
  induction fuel as [|f IH]; intros s l Hi Ht Hl; [reflexivity|].
  cbn [inner_tr] in Ht. rewrite !cr_inner_S.
  pose proof (cr_step_inv Sc cfg sync t r0 s Hi) as G.
  destruct (step s) as [it s'|s'] eqn:Es.
  - rewrite (step_wc s l Hi Ht Hl), Es. reflexivity.
  - rewrite (step_wc s [] Hi (step_go_tr s s' Es) (fits_cap_nil _ _)), Es. cbn [wc_step]. eapply IH; eauto.
Qed.

Lemma next_wc : forall st l, cinv r0 (cr_state st) -> next_tr Sc cfg sync t st l -> fits_cap c (rd_max_alloc r0) l ->
  next (wc_cr c st) = (fst (next st), wc_cr c (snd (next st))).
Proof.
  intros st l Hi Ht Hl. rewrite !cr_next_eq. unfold next_tr in Ht. cbn [wc_cr cr_pretend_eof cr_state].
  destruct (cr_pretend_eof st) eqn:E; [unfold wc_cr; cbn [fst snd]; rewrite E; reflexivity|].
  rewrite (inner_wc 1000 (cr_state st) l Hi Ht Hl).
  destruct (inner 1000 (cr_state st)) as [it s']. cbn [fst snd]. unfold wc_cr. cbn [cr_state cr_pretend_eof].
  f_equal. f_equal. destruct it; try reflexivity. destruct s'; reflexivity.
Qed.

(** a run whose requests all fit the cap c delivers the same items with the cap c *)
Theorem cr_run_with_cap : forall n st l,
  cinv r0 (cr_state st) -> run_tr Sc cfg sync t n st l -> fits_cap c (rd_max_alloc r0) l ->
  run n (wc_cr c st) = run n st.
Proof.
  induction n as [|n IH]; intros st l Hi Ht Hl; [reflexivity|].
  cbn [run_tr] in Ht. destruct Ht as (l1 & l2 & -> & T1 & T2). apply fits_cap_app in Hl. destruct Hl as [F1 F2].
  cbn [cr_run]. rewrite (next_wc st l1 Hi T1 F1).
  pose proof (cr_next_inv Sc cfg sync t r0 st Hi) as Hi'.
  destruct (next st) as [it st']. cbn [fst snd] in *. f_equal. eapply IH; eauto.
Qed.

End PerValue.

(** the requests of opening the file: those of the metadata map *)
Definition open_tr (r : rstate) (l : list req) : Prop :=
  match read_exact 4 r with
  | (Ok magic, r1) =>
      if negb (bytes_eqb magic HEADER_CONST) then l = []
      else Tr dval (de META_SCHEMA (mkCfg 1000 64) (N.to_nat 100000) (FMap 1) 64 false false
                       (TMap (THint HIdentifier) TAny)) r1 l
  | _ => l = []
  end.

Lemma open_tr_exists r : exists l, open_tr r l.
Proof.
  unfold open_tr. destruct (read_exact 4 r) as [[magic| | | |] r1]; try (exists []; reflexivity).
  destruct (negb (bytes_eqb magic HEADER_CONST)); [exists []; reflexivity|apply de_trace_exists].
Qed.

Lemma cr_open_with_cap : forall r c l m sy r',
  cr_open r = Ok (m, sy, r') -> open_tr r l -> fits_cap c (rd_max_alloc r) l ->
  cr_open (with_cap c r) = Ok (m, sy, with_cap c r').
Proof.
  intros r c l m sy r' H Ht Hl. unfold cr_open in *. unfold open_tr in Ht. rewrite with_cap_exact.
  pose proof (proj1 (safe_read_exact 4 r)) as A1.
  destruct (read_exact 4 r) as [x r1]. cbn [fst snd] in *. destruct x as [magic| | | |]; try discriminate.
  destruct (negb (bytes_eqb magic HEADER_CONST)); [discriminate|].
  rewrite (de_with_cap _ _ _ _ _ _ _ _ r1 l c Ht).
  - destruct (de META_SCHEMA (mkCfg 1000 64) (N.to_nat 100000) (FMap 1) 64 false false
                (TMap (THint HIdentifier) TAny) r1) as [y r2]. cbn [fst snd].
    destruct y as [d| | | |]; try discriminate. destruct d; try discriminate.
    rewrite with_cap_exact. destruct (read_exact 16 r2) as [z r3]. cbn [fst snd].
    destruct z as [s| | | |]; try discriminate. inversion H; subst. reflexivity.
  - rewrite (adv_cap _ _ A1). exact Hl.
Qed.

(** THE CAP IS PER VALUE, whole file: take the run of a reader r over a file (header, then n calls), with
    whatever cap r has.  If every length-delimited value that this run asks for either needs no allocation
    or is at most c bytes long, then the same reader with the cap c opens the file in the same way and
    delivers exactly the same n items.  Nothing is said about the length of the file, the sizes of the
    blocks, or the position of a value in the file: a value is never refused because of an EARLIER block *)
Theorem container_cap_per_value : forall Sc cfg t r c m sy r' n l0 l,
  cr_open r = Ok (m, sy, r') ->
  open_tr r l0 -> run_tr Sc cfg sy t n (mkCR (RNotInBlock r') false) l ->
  fits_cap c (rd_max_alloc r) (l0 ++ l) ->
  cr_open (with_cap c r) = Ok (m, sy, with_cap c r') /\
  cr_run Sc cfg sy t n (mkCR (RNotInBlock (with_cap c r')) false)
  = cr_run Sc cfg sy t n (mkCR (RNotInBlock r') false).
Proof.
  intros Sc cfg t r c m sy r' n l0 l Ho T0 T Hl. apply fits_cap_app in Hl. destruct Hl as [F0 F].
  split; [eapply cr_open_with_cap; eauto|].
  apply (cr_run_with_cap Sc cfg sy t r c n (mkCR (RNotInBlock r') false) l); auto.
  cbn [cr_state cinv]. eapply cr_open_cfg; eauto.
Qed.

(** the worst case "nothing is ever buffered": a cap that is at least every length prefix read by
    read_slice during the run (with a larger cap C) is enough -- for the chunked reader, any chunk plan *)
Theorem container_cap_per_value_unbuffered : forall Sc cfg t file plan c C m sy r' n l0 l,
  c <= C ->
  cr_open (chunked_reader file plan C) = Ok (m, sy, r') ->
  open_tr (chunked_reader file plan C) l0 -> run_tr Sc cfg sy t n (mkCR (RNotInBlock r') false) l ->
  (forall k s, In (k, s) (l0 ++ l) -> k <= c) ->
  cr_open (chunked_reader file plan c) = Ok (m, sy, with_cap c r') /\
  cr_run Sc cfg sy t n (mkCR (RNotInBlock (with_cap c r')) false)
  = cr_run Sc cfg sy t n (mkCR (RNotInBlock r') false).
Proof.
  intros Sc cfg t file plan c C m sy r' n l0 l Hc Ho T0 T Hl.
  change (chunked_reader file plan c) with (with_cap c (chunked_reader file plan C)).
  eapply container_cap_per_value; eauto.
  intros k s Hin. right. specialize (Hl k s Hin). cbn [chunked_reader rd_max_alloc]. lia.
Qed.

(** C11 with a small cap: whatever file the slice reader opens and reads values and the end of the file
    from, the chunked reader with ANY chunk plan and a cap c delivers the same values, provided c covers each
    single length-delimited value asked for -- the requests (l0 for the header, l for the n calls) being those
    of the reference run whose cap covers the file.  The cap need not cover the file, nor a block *)
Theorem container_small_cap_follows_slice : forall Sc cfg t file plan c m sy s' n ds k r' l0 l,
  schema_wf Sc = true ->
  cr_open (slice_reader file) = Ok (m, sy, s') ->
  cr_run Sc cfg sy t n (mkCR (RNotInBlock s') false) = map IValue ds ++ repeat IEof k ->
  let C := N.max c (N.of_nat (length file)) in
  cr_open (chunked_reader file plan C) = Ok (m, sy, r') ->
  open_tr (chunked_reader file plan C) l0 ->
  run_tr Sc cfg sy t n (mkCR (RNotInBlock r') false) l ->
  (forall q s, In (q, s) (l0 ++ l) -> free q s \/ q <= c) ->
  exists ds',
    cr_open (chunked_reader file plan c) = Ok (m, sy, with_cap c r') /\
    cr_run Sc cfg sy t n (mkCR (RNotInBlock (with_cap c r')) false) = map IValue ds' ++ repeat IEof k /\
    map erase_borrow ds' = map erase_borrow ds.
Proof.
  intros Sc cfg t file plan c m sy s' n ds k r' l0 l Hwf Ho R C Ho' T0 T Hreq.
  destruct (container_chunk_independent Sc cfg t file plan C m sy s' n ds k Hwf (N.le_max_r _ _) Ho R)
    as (r'' & ds' & Ho'' & R' & E).
  rewrite Ho' in Ho''. inversion Ho''; subst r''.
  destruct (container_cap_per_value Sc cfg t (chunked_reader file plan C) c m sy r' n l0 l Ho' T0 T) as [O2 R2].
  - intros q s Hin. destruct (Hreq q s Hin) as [H|H]; [left; exact H|right].
    cbn [chunked_reader rd_max_alloc]. unfold C. lia.
  - exists ds'. split; [exact O2|]. split; [rewrite R2; exact R'|exact E].
Qed.

(** the reference run always has such traces (so the theorems above are never vacuous) *)
Theorem reference_traces_exist : forall Sc cfg sy t r r' n,
  exists l0 l, open_tr r l0 /\ run_tr Sc cfg sy t n (mkCR (RNotInBlock r') false) l.
Proof.
  intros. destruct (open_tr_exists r) as [l0 T0].
  destruct (run_tr_exists Sc cfg sy t n (mkCR (RNotInBlock r') false)) as [l T]. eauto.
Qed.

(* ------------------------------------------------------------------------------------------ *)
(** * Part F. Regression witnesses: the two seeded hand-over defects *)

Module Witness.

(** the container reader with the two places where the cap is handed over made arguments:
    [capin cap size]: the cap given to the block reader when a block of [size] bytes is entered;
    [capout cap]: the cap given back to the outer reader when the block is left.
    Everything else is a copy of model/Container.v ([enter_block], [cr_inner], [cr_next], [cr_run]). *)
Section Variant.
Variable capin : N -> N -> N.
Variable capout : N -> N.
Variable Sc : fschema.
Variable cfg : dcfg.
Variable sync : bytes.
Variable t : dtarget.

Definition enter_block_g (outer : rstate) : result (rstate * bytes * bool * N) :=
  match read_varint VI64 outer with
  | (Ok cnt, r1) =>
      if (cnt <? 0)%Z then Err EData else
      match read_varint VI64 r1 with
      | (Ok size, r2) =>
          if (size <? 0)%Z then Err EData else
          let size := Z.to_N size in
          let have := blen (rd_inp r2) in
          match rd_chunks r2 with
          | None =>
              if have <? size then Err EData
              else Ok (mkRd (firstn (N.to_nat size) (rd_inp r2)) (rd_pos r2) None (capin (rd_max_alloc r2) size),
                       skipn (N.to_nat size) (rd_inp r2), false, Z.to_N cnt)
          | Some _ =>
              let take := N.min size have in
              Ok (mkRd (firstn (N.to_nat take) (rd_inp r2)) (rd_pos r2) (rd_chunks r2) (capin (rd_max_alloc r2) size),
                  skipn (N.to_nat take) (rd_inp r2), have <? size, Z.to_N cnt)
          end
      | (Err e, _) => Err e
      | (Panic p, _) => Panic p
      | (OutOfFuel, _) => OutOfFuel
      | (Unmodelled, _) => Unmodelled
      end
  | (Err e, _) => Err e
  | (Panic p, _) => Panic p
  | (OutOfFuel, _) => OutOfFuel
  | (Unmodelled, _) => Unmodelled
  end.

Fixpoint cr_inner_g (fuel : nat) (s : rdstate) : item * rdstate :=
  match fuel with
  | O => (IUnmodelled, s)
  | S f =>
      match s with
      | RBroken => (IErr EData, RBroken)
      | RNotInBlock outer =>
          match rd_inp outer with
          | [] => (IEof, s)
          | _ =>
              match enter_block_g outer with
              | Ok (inner, after, short, n) => cr_inner_g f (RInBlock inner after short n)
              | other => (result_item other, RBroken)
              end
          end
      | RInBlock inner after short n =>
          if n =? 0 then
            if negb (Nat.eqb (length (rd_inp inner)) 0) || short then (IErr EData, RBroken)
            else
              let outer := mkRd after (rd_pos inner) (rd_chunks inner) (capout (rd_max_alloc inner)) in
              match read_exact 16 outer with
              | (Ok m, outer') =>
                  if bytes_eqb m sync then cr_inner_g f (RNotInBlock outer') else (IErr EData, RBroken)
              | (r, _) => (result_item r, RBroken)
              end
          else
            match fnode_at Sc 0 with
            | None => (IPanic PIndex, s)
            | Some root =>
                match de Sc cfg FUEL_SINK root (c_depth cfg) false false t inner with
                | (Ok d, inner') => (IValue d, RInBlock inner' after short (n - 1))
                | (r, inner') => (result_item r, RInBlock inner' after short (n - 1))
                end
            end
      end
  end.

Definition cr_next_g (st : crstate) : item * crstate :=
  if cr_pretend_eof st then (IEof, st)
  else
    let (it, s') := cr_inner_g 1000 (cr_state st) in
    let unrecoverable :=
      match it with
      | IErr e => is_io e || match s' with RBroken => true | _ => false end
      | _ => false
      end in
    (it, mkCR s' unrecoverable).

Fixpoint cr_run_g (n : nat) (st : crstate) : list item :=
  match n with
  | O => []
  | S m => let (it, st') := cr_next_g st in it :: cr_run_g m st'
  end.

(** the caps of the outer readers seen between the calls of a run (None: inside a block / broken) *)
Definition outer_cap (st : crstate) : option N :=
  match cr_state st with RNotInBlock o => Some (rd_max_alloc o) | _ => None end.
Definition inner_cap (st : crstate) : option N :=
  match cr_state st with RInBlock i _ _ _ => Some (rd_max_alloc i) | _ => None end.
Fixpoint cr_caps_g (n : nat) (st : crstate) : list (option N * option N) :=
  match n with
  | O => [(outer_cap st, inner_cap st)]
  | S m => (outer_cap st, inner_cap st) :: cr_caps_g m (snd (cr_next_g st))
  end.

End Variant.

(** the model is the variant that hands the cap over unchanged *)
Definition keep_in (cap size : N) : N := cap.
Definition keep_out (cap : N) : N := cap.

Lemma enter_block_g_id : forall o, enter_block_g keep_in o = enter_block o.
Proof. reflexivity. Qed.

Theorem model_is_the_identity_variant : forall Sc cfg sync t fuel s,
  cr_inner_g keep_in keep_out Sc cfg sync t fuel s = cr_inner Sc cfg sync t fuel s.
Proof.
  intros Sc cfg sync t. induction fuel as [|f IH]; intro s; [reflexivity|].
  cbn [cr_inner_g cr_inner]. destruct s as [|o|i a sh n]; [reflexivity| |].
  - destruct (rd_inp o); [reflexivity|]. rewrite enter_block_g_id.
    destruct (enter_block o) as [[[[i a] sh] n0]| | | |]; first [reflexivity|apply IH].
  - destruct (n =? 0); [|reflexivity].
    destruct (negb (Nat.eqb (length (rd_inp i)) 0) || sh); [reflexivity|]. cbv zeta. unfold keep_out.
    destruct (read_exact 16 (mkRd a (rd_pos i) (rd_chunks i) (rd_max_alloc i))) as [[m| | | |] o']; try reflexivity;
    destruct (bytes_eqb m sync); first [reflexivity|apply IH].
Qed.

Theorem model_next_is_the_identity_variant : forall Sc cfg sync t st,
  cr_next_g keep_in keep_out Sc cfg sync t st = cr_next Sc cfg sync t st.
Proof. intros. unfold cr_next_g, cr_next. rewrite model_is_the_identity_variant. reflexivity. Qed.

Theorem model_run_is_the_identity_variant : forall Sc cfg sync t n st,
  cr_run_g keep_in keep_out Sc cfg sync t n st = cr_run Sc cfg sync t n st.
Proof.
  intros Sc cfg sync t. induction n as [|n IH]; intro st; [reflexivity|].
  cbn [cr_run_g cr_run]. rewrite model_next_is_the_identity_variant.
  destruct (cr_next Sc cfg sync t st) as [it st']. rewrite IH. reflexivity.
Qed.

(** defect 1: the cap is reset to the 512 MB default when a block is left *)
Definition reset_out (cap : N) : N := GenConsts.GEN_MAX_ALLOC_SIZE.
(** defect 2: the cap of a block reader is min(cap, block size), and is kept afterwards (a ratchet) *)
Definition ratchet_in (cap size : N) : N := N.min cap size.

(** a file with schema "bytes" and two blocks of one value each: 2 bytes, then 5 bytes (longer than the
    whole first block, whose data is 3 bytes) *)
Import String.
Definition wSync : bytes := [1;2;3;4;5;6;7;8;9;10;11;12;13;14;15;16].
Definition wJson : bytes := lit """bytes"""%string.
Definition wSc : fschema := [FBytes].
Definition wFile : bytes :=
  ref_write [(false, [(AVRO_SCHEMA_KEY, wJson)])] wSync [mkBlock 1 [4; 1; 2]; mkBlock 1 [10; 1; 2; 3; 4; 5]].

(** the BufRead hands out the header in one chunk and then single bytes: nothing of a value is buffered *)
Definition wPlan : list N := [42; 1].

Definition read_g capin capout (cap : N) (n : nat) : option (list item) :=
  match cr_open (chunked_reader wFile wPlan cap) with
  | Ok (_, sy, r) => Some (cr_run_g capin capout wSc cfg_default sy TAny n (mkCR (RNotInBlock r) false))
  | _ => None
  end.
Definition caps_g capin capout (cap : N) (n : nat) : option (list (option N * option N)) :=
  match cr_open (chunked_reader wFile wPlan cap) with
  | Ok (_, sy, r) => Some (cr_caps_g capin capout wSc cfg_default sy TAny n (mkCR (RNotInBlock r) false))
  | _ => None
  end.

Example witness_file : List.length wFile = 87%nat /\ firstn 4 wFile = HEADER_CONST.
Proof. vm_compute. split; reflexivity. Qed.

(** the model: cap 4 -- the 5-byte value of block 2 is refused (recoverably), the 2-byte value is read;
    cap 5 -- both values are read although the second is longer than the first block;
    the cap seen between and inside the blocks is the configured one throughout *)
Example model_enforces_in_block_2 :
  read_g keep_in keep_out 4 2 = Some [IValue (DBytes [1; 2]); IErr EData].
Proof. vm_compute. reflexivity. Qed.
Example model_accepts_legal_in_block_2 :
  read_g keep_in keep_out 5 3 = Some [IValue (DBytes [1; 2]); IValue (DBytes [1; 2; 3; 4; 5]); IEof].
Proof. vm_compute. reflexivity. Qed.
Example model_caps :
  caps_g keep_in keep_out 5 3
  = Some [(Some 5, None); (None, Some 5); (None, Some 5); (Some 5, None)].
Proof. vm_compute. reflexivity. Qed.

(** the hypothesis "not buffered" of the enforcement theorems is needed: when the BufRead hands out the whole
    file at once, the values are read out of its buffer -- nothing is allocated -- and even a cap of 0 lets
    both through (this is the crate's behaviour, de/read/mod.rs read_slice fast path) *)
Example buffered_over_cap_is_not_refused :
  match cr_open (chunked_reader wFile [] 0) with
  | Ok (_, sy, r) => Some (cr_run wSc cfg_default sy TAny 3 (mkCR (RNotInBlock r) false))
  | _ => None
  end = Some [IValue (DBytes [1; 2]); IValue (DBytes [1; 2; 3; 4; 5]); IEof].
Proof. vm_compute. reflexivity. Qed.

(** (a) the reset variant ACCEPTS the over-cap value in block 2 (cap 4, value of 5 bytes, one byte
    buffered): after block 1 the outer reader carries 512 MB *)
Example reset_accepts_over_cap :
  read_g keep_in reset_out 4 3 = Some [IValue (DBytes [1; 2]); IValue (DBytes [1; 2; 3; 4; 5]); IEof] /\
  caps_g keep_in reset_out 4 2 = Some [(Some 4, None); (None, Some 4); (None, Some 536870912)].
Proof. vm_compute. split; reflexivity. Qed.

(** (b) the ratchet variant REFUSES a legal value in block 2 (cap 5 -- or 1000 --, value of 5 bytes):
    block 1 holds 3 bytes, so from then on the cap is 3 *)
Example ratchet_refuses_legal :
  read_g ratchet_in keep_out 5 2 = Some [IValue (DBytes [1; 2]); IErr EData] /\
  read_g ratchet_in keep_out 1000 2 = Some [IValue (DBytes [1; 2]); IErr EData] /\
  caps_g ratchet_in keep_out 1000 2 = Some [(Some 1000, None); (None, Some 3); (None, Some 3)].
Proof. vm_compute. repeat split; reflexivity. Qed.

(** the invariant as a computed check on the caps seen along a run: every reader carries [cap] *)
Definition cap_ok (cap : N) (p : option N * option N) : bool :=
  match fst p with Some c => c =? cap | None => true end &&
  match snd p with Some c => c =? cap | None => true end.

(** for the model the check holds on every file, every cap and every run: it is [container_cap_invariant] *)
Theorem model_passes_the_check : forall Sc cfg sync t r0 n st,
  cinv r0 (cr_state st) ->
  forallb (cap_ok (rd_max_alloc r0)) (cr_caps_g keep_in keep_out Sc cfg sync t n st) = true.
Proof.
  intros Sc cfg sync t r0. induction n as [|n IH]; intros st H; cbn [cr_caps_g forallb].
  - rewrite andb_true_r. unfold cap_ok, outer_cap, inner_cap. cbn [fst snd].
    destruct (cr_state st) as [|o|i a sh nl]; cbn [cinv] in H; try reflexivity;
      destruct H as [H _]; rewrite H, N.eqb_refl; reflexivity.
  - apply andb_true_intro. split.
    + unfold cap_ok, outer_cap, inner_cap. cbn [fst snd].
      destruct (cr_state st) as [|o|i a sh nl]; cbn [cinv] in H; try reflexivity;
        destruct H as [H _]; rewrite H, N.eqb_refl; reflexivity.
    + apply IH. rewrite model_next_is_the_identity_variant. apply cr_next_inv, H.
Qed.

Theorem model_passes_the_check_file : forall Sc cfg t r m sy r' n,
  cr_open r = Ok (m, sy, r') ->
  forallb (cap_ok (rd_max_alloc r))
          (cr_caps_g keep_in keep_out Sc cfg sy t n (mkCR (RNotInBlock r') false)) = true.
Proof. intros. apply model_passes_the_check. cbn [cr_state cinv]. eapply cr_open_cfg; eauto. Qed.

(** ... and the two variants fail it on the witness file: the invariance theorem is what excludes them *)
Example variants_fail_the_check :
  option_map (forallb (cap_ok 4)) (caps_g keep_in keep_out 4 2) = Some true /\
  option_map (forallb (cap_ok 4)) (caps_g keep_in reset_out 4 2) = Some false /\
  option_map (forallb (cap_ok 1000)) (caps_g keep_in keep_out 1000 2) = Some true /\
  option_map (forallb (cap_ok 1000)) (caps_g ratchet_in keep_out 1000 2) = Some false.
Proof. vm_compute. repeat split; reflexivity. Qed.

(** the general theorem [enforced_in_every_block] applies to the witness file in block 2 (the call that
    leaves block 1 through the hand-over, enters block 2 and decodes its first datum): its hypotheses are
    met with the request (5, s), s the reader behind the length prefix with one byte buffered *)
Example enforcement_hypotheses_met_in_block_2 :
  exists m sy r' s,
    cr_open (chunked_reader wFile wPlan 4) = Ok (m, sy, r') /\
    rd_chunks (chunked_reader wFile wPlan 4) <> None /\
    next_tr wSc cfg_default sy TAny (cr_after wSc cfg_default sy TAny 1 (mkCR (RNotInBlock r') false)) [(5, s)] /\
    blen (buffer s) < 5 /\ rd_max_alloc (chunked_reader wFile wPlan 4) < 5.
Proof.
  assert (F : exists f, FUEL_SINK = S f).
  { Transparent FUEL_SINK. unfold FUEL_SINK. exists (pred (N.to_nat 100000)). lia. Opaque FUEL_SINK. }
  destruct F as [f Hf].
  eexists. eexists. eexists. eexists. split; [vm_compute; reflexivity|]. split; [discriminate|].
  split.
  - match goal with |- next_tr _ _ _ _ ?st _ => let v := eval vm_compute in st in change st with v end.
    unfold next_tr. cbn [cr_pretend_eof cr_state]. change 1000%nat with (S (S (S 997))).
    eapply inner_tr_go; [vm_compute; reflexivity|].
    eapply inner_tr_go; [vm_compute; reflexivity|].
    eapply inner_tr_done; [vm_compute; reflexivity|].
    unfold step_tr. change (1 =? 0) with false. cbv iota. change (fnode_at wSc 0) with (Some FBytes). cbv iota.
    rewrite Hf. apply tr_de_bytes. vm_compute. reflexivity.
  - split; vm_compute; reflexivity.
Qed.

Example enforcement_in_block_2_by_the_theorem :
  exists m sy r' s a sh nl,
    cr_open (chunked_reader wFile wPlan 4) = Ok (m, sy, r') /\
    cr_next wSc cfg_default sy TAny (cr_after wSc cfg_default sy TAny 1 (mkCR (RNotInBlock r') false))
    = (IErr EData, mkCR (RInBlock s a sh nl) false).
Proof.
  destruct enforcement_hypotheses_met_in_block_2 as (m & sy & r' & s & Ho & Hc & Ht & Hb & Hm).
  destruct (enforced_in_every_block wSc cfg_default TAny _ m sy r' 1 _ 5 s Ho Hc Ht (or_introl eq_refl) Hb Hm)
    as (a & sh & nl & E).
  exists m, sy, r', s, a, sh, nl. split; assumption.
Qed.

End Witness.

(* ------------------------------------------------------------------------------------------ *)
Print Assumptions de_trace_exists.
Print Assumptions de_adv_any.
Print Assumptions de_keeps_cap.
Print Assumptions tr_refused.
Print Assumptions tr_with_cap.
Print Assumptions de_refusal.
Print Assumptions de_with_cap.
Print Assumptions de_bytes_over_cap.
Print Assumptions de_string_over_cap.
Print Assumptions de_fixed_over_cap.
Print Assumptions cr_step_inv.
Print Assumptions cr_next_inv.
Print Assumptions cr_open_cfg.
Print Assumptions container_cap_invariant.
Print Assumptions container_cap_invariant_visited.
Print Assumptions cr_run_cap_invariant.
Print Assumptions cr_next_refused.
Print Assumptions enforced_in_every_block.
Print Assumptions enforced_in_every_block_run.
Print Assumptions enforced_bytes_in_every_block.
Print Assumptions cr_run_with_cap.
Print Assumptions container_cap_per_value.
Print Assumptions container_cap_per_value_unbuffered.
Print Assumptions container_small_cap_follows_slice.
Print Assumptions Witness.model_is_the_identity_variant.
Print Assumptions Witness.model_run_is_the_identity_variant.
Print Assumptions Witness.model_passes_the_check_file.
Print Assumptions Witness.model_enforces_in_block_2.
Print Assumptions Witness.model_accepts_legal_in_block_2.
Print Assumptions Witness.reset_accepts_over_cap.
Print Assumptions Witness.ratchet_refuses_legal.
Print Assumptions Witness.variants_fail_the_check.
Print Assumptions Witness.buffered_over_cap_is_not_refused.
Print Assumptions reference_traces_exist.
Print Assumptions Witness.enforcement_hypotheses_met_in_block_2.
Print Assumptions Witness.enforcement_in_block_2_by_the_theorem.
