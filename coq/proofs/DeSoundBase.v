(** Decoder soundness, part 1: vocabulary and primitive readers.

    - [rvarint], [rlong]: the RELAXED base-128 varint of the Avro specification: little-endian 7-bit
      groups, continuation bit on every byte but the last, at most 10 bytes, the value fits 64 bits;
      the shortest form is NOT required (the crate accepts over-long forms such as [128;0] for 0).
    - [dec_loop_rvarint], [decode_u64_rvarint], [decode_var_sound]: whatever the crate's decode_var
      accepts is such a relaxed varint of the value it returns.
    - [spec_le_le_val], [twos_repr_signed_be]: fixed-width little-endian / two's complement big-endian
      readings are inverted by the specification's writers.
    - [hoare]: "on Ok, the consumed prefix [pre] and the result satisfy Q", for arbitrary reader
      modes; lemmas for the primitive readers of model/Reader.v and the leaf readers of model/De.v. *)
From Coq Require Import NArith ZArith List Lia Bool.
From Coq Require Import ZifyN ZifyBool ZifyNat.
Require Import Base Kinds Schema Varint Utf8 Sval Target Reader Text De.
Require Import AvroValue Encoding Denote Wf VarintProofs DeProofs ReaderProofs.
Import ListNotations.
Open Scope N_scope.
Notation length := List.length (only parsing).

Ltac Zify.zify_post_hook ::= Z.to_euclidean_division_equations.

Arguments N.add : simpl never.
Arguments N.sub : simpl never.
Arguments N.mul : simpl never.
Arguments N.div : simpl never.
Arguments N.modulo : simpl never.
Arguments N.pow : simpl never.
Arguments N.shiftl : simpl never.
Arguments N.shiftr : simpl never.
Arguments N.land : simpl never.
Arguments N.lor : simpl never.
Arguments N.ltb : simpl never.
Arguments N.leb : simpl never.
Arguments N.eqb : simpl never.
Arguments N.of_nat : simpl never.
Arguments N.to_nat : simpl never.
Arguments N.min : simpl never.
Arguments Z.of_nat : simpl never.
Arguments Z.of_N : simpl never.
Arguments Z.to_N : simpl never.
Arguments Z.to_nat : simpl never.
Arguments Z.add : simpl never.
Arguments Z.sub : simpl never.
Arguments Z.mul : simpl never.
Arguments Z.pow : simpl never.
Arguments Z.ltb : simpl never.
Arguments Z.leb : simpl never.
Arguments Z.eqb : simpl never.
Arguments Z.opp : simpl never.
Arguments Z.abs : simpl never.
Arguments Z.modulo : simpl never.

(* ------------------------------------------------------------------ *)
(** * 1. Relaxed varints *)

(* value of a sequence of 7-bit groups, least significant first (continuation bits dropped) *)
Fixpoint groups_val (bs : bytes) : N :=
  match bs with
  | [] => 0
  | b :: r => b mod 128 + 128 * groups_val r
  end.

Definition is_nil {A} (l : list A) : bool := match l with [] => true | _ => false end.

(* shape of a varint whose first byte has index i (0-based): bytes with the continuation bit, then one
   without; at most 10 bytes, and the 10th carries only bit 63 *)
Fixpoint rvar_shape (i : N) (bs : bytes) : bool :=
  match bs with
  | [] => false
  | b :: r =>
      if i =? 9 then (b <? 2) && is_nil r
      else if b <? 128 then is_nil r
      else (b <? 256) && rvar_shape (i + 1) r
  end.

Definition rvarint (n : N) (bs : bytes) : Prop := rvar_shape 0 bs = true /\ groups_val bs = n.
(* zig-zag long *)
Definition rlong (z : Z) (bs : bytes) : Prop := rvarint (spec_zigzag z) bs.

Lemma bytes_okb_app a b : bytes_okb (a ++ b) = bytes_okb a && bytes_okb b.
Proof. unfold bytes_okb. apply forallb_app. Qed.

Lemma bytes_okb_Forall bs : bytes_okb bs = true <-> Forall (fun b => b < 256) bs.
Proof.
  unfold bytes_okb. rewrite forallb_forall, Forall_forall. unfold byte_ok.
  split; intros H x Hx; specialize (H x Hx); lia.
Qed.

Lemma bytes_okb_firstn k bs : bytes_okb bs = true -> bytes_okb (firstn k bs) = true.
Proof.
  intro H. rewrite <- (firstn_skipn k bs), bytes_okb_app in H.
  apply andb_prop in H. tauto.
Qed.

Lemma bytes_okb_skipn k bs : bytes_okb bs = true -> bytes_okb (skipn k bs) = true.
Proof.
  intro H. rewrite <- (firstn_skipn k bs), bytes_okb_app in H.
  apply andb_prop in H. tauto.
Qed.

Lemma dec_loop_rvarint : forall src acc i v k,
  bytes_okb src = true -> i <= 9 -> acc < 2 ^ (7 * i) ->
  dec_loop src acc (7 * i) = Some (v, k) ->
  rvar_shape i (firstn (N.to_nat (k - i)) src) = true /\
  v = acc + 2 ^ (7 * i) * groups_val (firstn (N.to_nat (k - i)) src).
Proof.
  induction src as [|b rest IH]; intros acc i v k Hok Hi Hacc H; [discriminate|].
  pose proof (dec_loop_consumed _ _ _ _ _ Hi H) as [Hk _].
  cbn [bytes_okb forallb] in Hok. apply andb_prop in Hok. destruct Hok as [Hb Hrest].
  unfold byte_ok in Hb. apply N.ltb_lt in Hb. fold (bytes_okb rest) in Hrest.
  cbn [dec_loop] in H.
  destruct (N.to_nat (k - i)) as [|m] eqn:Em; [lia|].
  cbn [firstn rvar_shape groups_val].
  assert (Hp : 0 < 2 ^ (7 * i)) by apply pow2_pos.
  assert (Hg : b mod 128 < 128) by apply mod128_lt.
  assert (Hsh : N.shiftl (N.land b 127) (7 * i) < 2 ^ 64 ->
                N.lor acc (N.shiftl (N.land b 127) (7 * i) mod Varint.W64) = acc + b mod 128 * 2 ^ (7 * i)).
  { intro Hlt. unfold Varint.W64. rewrite N.mod_small by exact Hlt.
    rewrite lor_add_disjoint by exact Hacc. rewrite land127. reflexivity. }
  destruct (N.ltb_spec 63 (7 * i + 7)) as [Hs|Hs].
  - assert (i = 9) by lia. subst i.
    destruct (N.ltb_spec b 2) as [Hb2|Hb2]; [|discriminate].
    inversion H; subst v k. clear H.
    assert (m = O) by (change ((7 * 9 + 7) / 7) with 10 in Em; lia). subst m.
    cbn [firstn is_nil groups_val]. rewrite N.eqb_refl. split; [reflexivity|].
    rewrite Hsh.
    + lia.
    + rewrite land127, N.shiftl_mul_pow2, N.mod_small by lia.
      change (2 ^ 64) with (2 * 2 ^ (7 * 9)). nia.
  - assert (Hi9 : i =? 9 = false) by (apply N.eqb_neq; lia). rewrite Hi9.
    assert (Hlt : N.shiftl (N.land b 127) (7 * i) < 2 ^ 64).
    { rewrite land127, N.shiftl_mul_pow2.
      assert (2 ^ (7 * i) <= 2 ^ 56) by (apply N.pow_le_mono_r; lia).
      change (2 ^ 64) with (256 * 2 ^ 56). nia. }
    specialize (Hsh Hlt). rewrite Hsh in H.
    rewrite land128_byte in H by exact Hb.
    destruct (N.ltb_spec b 128) as [Hb128|Hb128].
    + inversion H; subst v k. clear H. rewrite div7 in Em.
      assert (m = O) by lia. subst m. cbn [firstn is_nil groups_val]. split; [reflexivity|]. lia.
    + replace (7 * i + 7) with (7 * (i + 1)) in H by lia.
      assert (Hacc' : acc + b mod 128 * 2 ^ (7 * i) < 2 ^ (7 * (i + 1))).
      { replace (7 * (i + 1)) with (7 + 7 * i) by lia. rewrite N.pow_add_r.
        change (2 ^ 7) with 128. nia. }
      assert (Hi1 : i + 1 <= 9) by lia.
      pose proof (dec_loop_consumed _ _ _ _ _ Hi1 H) as [Hk' _].
      apply IH in H; [|exact Hrest|lia|exact Hacc'].
      replace (N.to_nat (k - (i + 1))) with m in H by lia.
      destruct H as [Hshape Hv]. split.
      * rewrite Hshape. apply N.ltb_lt in Hb. rewrite Hb. reflexivity.
      * rewrite Hv. replace (7 * (i + 1)) with (7 + 7 * i) by lia. rewrite N.pow_add_r.
        change (2 ^ 7) with 128. ring.
Qed.

Theorem decode_u64_rvarint : forall src v k,
  bytes_okb src = true -> decode_u64 src = Some (v, k) ->
  rvarint v (firstn (N.to_nat k) src).
Proof.
  intros src v k Hok H. unfold decode_u64 in H.
  pose proof (dec_loop_rvarint src 0 0 v k Hok ltac:(lia)) as L.
  change (7 * 0) with 0 in L. change (2 ^ 0) with 1 in L. rewrite N.sub_0_r in L.
  destruct (L ltac:(lia) H) as [Hs Hv]. split; [exact Hs|]. lia.
Qed.

(* a relaxed varint is at most 10 bytes and its value fits 64 bits *)
Lemma rvar_shape_len : forall bs i, i <= 9 -> rvar_shape i bs = true ->
  (1 <= length bs)%nat /\ N.of_nat (length bs) + i <= 10 /\ groups_val bs * 2 ^ (7 * i) < 2 ^ 64.
Proof.
  induction bs as [|b r IH]; intros i Hi H; [discriminate|].
  cbn [rvar_shape] in H. cbn [length groups_val].
  destruct (N.eqb_spec i 9) as [E|E].
  - subst i. apply andb_prop in H. destruct H as [Hb Hr]. apply N.ltb_lt in Hb.
    destruct r; [|discriminate]. cbn [length groups_val]. split; [lia|]. split; [lia|].
    rewrite N.mod_small by lia. change (2 ^ 64) with (2 * 2 ^ (7 * 9)). nia.
  - assert (H56 : 2 ^ (7 * i) <= 2 ^ 56) by (apply N.pow_le_mono_r; lia).
    destruct (N.ltb_spec b 128) as [Hb|Hb].
    + destruct r; [|discriminate]. cbn [length groups_val]. split; [lia|]. split; [lia|].
      rewrite N.mod_small by lia. change (2 ^ 64) with (256 * 2 ^ 56). nia.
    + apply andb_prop in H. destruct H as [_ Hr].
      destruct (IH (i + 1) ltac:(lia) Hr) as (L1 & L2 & L3).
      replace (7 * (i + 1)) with (7 + 7 * i) in L3 by lia. rewrite N.pow_add_r in L3.
      change (2 ^ 7) with 128 in L3. pose proof (mod128_lt b).
      split; [lia|]. split; [lia|].
      assert (E64 : 2 ^ 64 = 128 * 2 ^ (7 * i) * 2 ^ (57 - 7 * i)).
      { change 128 with (2 ^ 7). rewrite <- !N.pow_add_r. f_equal. lia. }
      set (X := 2 ^ (7 * i)) in *. set (Y := 2 ^ (57 - 7 * i)) in *.
      assert (HX : 0 < X) by apply pow2_pos.
      rewrite E64 in L3 |- *.
      assert (Hg : groups_val r < Y) by nia.
      nia.
Qed.

Lemma rvarint_len n bs : rvarint n bs -> (1 <= length bs <= 10)%nat /\ n < 2 ^ 64.
Proof.
  intros [Hs Hv]. destruct (rvar_shape_len bs 0 ltac:(lia) Hs) as (L1 & L2 & L3).
  change (2 ^ (7 * 0)) with 1 in L3. lia.
Qed.

Lemma rlong_range z bs : rlong z bs -> (I64_MIN <= z <= I64_MAX)%Z.
Proof.
  intro H. apply rvarint_len in H. destruct H as [_ H].
  unfold spec_zigzag in H. change (2 ^ 64) with 18446744073709551616 in H.
  unfold I64_MIN, I64_MAX. destruct (Z.leb_spec 0 z); lia.
Qed.

(* what decode_var returns: a relaxed varint prefix and the narrowing check *)
Theorem decode_var_sound : forall t src z k,
  bytes_okb src = true -> decode_var t src = Some (z, k) ->
  (N.to_nat k <= length src)%nat /\
  match t with
  | VI64 => rlong z (firstn (N.to_nat k) src)
  | VI32 => rlong z (firstn (N.to_nat k) src) /\ Zin I32_MIN I32_MAX z = true
  | VU64 => (0 <= z)%Z /\ rvarint (Z.to_N z) (firstn (N.to_nat k) src)
  | VU32 => (0 <= z < 2 ^ 32)%Z /\ rvarint (Z.to_N z) (firstn (N.to_nat k) src)
  end.
Proof.
  intros t src z k Hok H. unfold decode_var, decode_i64 in H.
  destruct (decode_u64 src) as [[n k']|] eqn:E; [|destruct t; discriminate].
  pose proof (decode_u64_consumed _ _ _ E) as [_ Hk].
  pose proof (decode_u64_rvarint _ _ _ Hok E) as R.
  assert (RL : rlong (unzigzag n) (firstn (N.to_nat k') src)).
  { unfold rlong. change (spec_zigzag (unzigzag n)) with (zigzag (unzigzag n)).
    rewrite zigzag_unzigzag. exact R. }
  destruct t.
  - destruct (Zin I32_MIN I32_MAX (unzigzag n)) eqn:Ez; [|discriminate].
    inversion H; subst. auto.
  - inversion H; subst. auto.
  - destruct (N.ltb_spec n (2 ^ 32)) as [Hn|Hn]; [|discriminate].
    inversion H; subst. rewrite N2Z.id. change (2 ^ 32) with 4294967296 in Hn.
    change (2 ^ 32)%Z with 4294967296%Z. split; [lia|]. split; [lia|exact R].
  - inversion H; subst. rewrite N2Z.id. split; [lia|]. split; [lia|exact R].
Qed.

(* ------------------------------------------------------------------ *)
(** * 2. Fixed-width integers *)

Lemma le_val_cons b r : le_val (b :: r) = b + 256 * le_val r.
Proof. reflexivity. Qed.

Lemma le_val_lt : forall l, bytes_okb l = true -> le_val l < 2 ^ (8 * N.of_nat (length l)).
Proof.
  induction l as [|b r IH]; intro H.
  - cbn. lia.
  - cbn [bytes_okb forallb] in H. apply andb_prop in H. destruct H as [Hb Hr].
    unfold byte_ok in Hb. apply N.ltb_lt in Hb. specialize (IH Hr).
    rewrite le_val_cons. cbn [length].
    replace (8 * N.of_nat (S (length r))) with (8 + 8 * N.of_nat (length r)) by lia.
    rewrite N.pow_add_r. change (2 ^ 8) with 256. nia.
Qed.

Lemma spec_le_cons k x : spec_le (S k) x = x mod 256 :: spec_le k (x / 256).
Proof.
  unfold spec_le. cbn [seq map]. f_equal.
  - change (2 ^ (8 * N.of_nat 0)) with 1. rewrite N.div_1_r. reflexivity.
  - rewrite <- seq_shift, map_map. apply map_ext. intro a.
    replace (8 * N.of_nat (S a)) with (8 + 8 * N.of_nat a) by lia.
    rewrite N.pow_add_r. change (2 ^ 8) with 256.
    rewrite N.div_div by (try apply N.pow_nonzero; lia). reflexivity.
Qed.

Theorem spec_le_le_val : forall l, bytes_okb l = true -> spec_le (length l) (le_val l) = l.
Proof.
  induction l as [|b r IH]; intro H; [reflexivity|].
  cbn [bytes_okb forallb] in H. apply andb_prop in H. destruct H as [Hb Hr].
  unfold byte_ok in Hb. apply N.ltb_lt in Hb.
  cbn [length]. rewrite spec_le_cons, le_val_cons.
  replace ((b + 256 * le_val r) mod 256) with b by lia.
  replace ((b + 256 * le_val r) / 256) with (le_val r) by lia.
  rewrite (IH Hr). reflexivity.
Qed.

Lemma le_val_app a b : le_val (a ++ b) = le_val a + 2 ^ (8 * N.of_nat (length a)) * le_val b.
Proof.
  induction a as [|x a IH].
  - cbn [app length]. change (2 ^ (8 * N.of_nat 0)) with 1. cbn [le_val fold_right]. lia.
  - cbn [app length]. rewrite !le_val_cons, IH.
    replace (8 * N.of_nat (S (length a))) with (8 + 8 * N.of_nat (length a)) by lia.
    rewrite N.pow_add_r. change (2 ^ 8) with 256. lia.
Qed.

(* raw is the big-endian two's complement representation of m on exactly its own length *)
Definition twos_repr (m : Z) (raw : bytes) : Prop :=
  fits_twos m (length raw) = true /\ raw = spec_twos_be (length raw) m.

Lemma bytes_okb_rev l : bytes_okb (rev l) = bytes_okb l.
Proof.
  induction l as [|a l IH]; [reflexivity|].
  cbn [rev]. rewrite bytes_okb_app, IH. cbn [bytes_okb forallb]. fold (bytes_okb l).
  rewrite andb_true_r. apply andb_comm.
Qed.

Theorem twos_repr_signed_be : forall raw, bytes_okb raw = true -> twos_repr (signed_be raw) raw.
Proof.
  intros raw Hok. destruct raw as [|b0 tl].
  - split; reflexivity.
  - set (raw := b0 :: tl) in *.
    assert (Hlen : length raw = S (length tl)) by reflexivity.
    set (k := length tl) in *.
    set (u := be_val raw).
    assert (Hu : u = le_val (rev raw)) by (unfold u; rewrite <- be_val_rev, rev_involutive; reflexivity).
    assert (Hb0 : b0 < 256).
    { unfold raw in Hok. cbn [bytes_okb forallb] in Hok. apply andb_prop in Hok.
      destruct Hok as [Hb _]. unfold byte_ok in Hb. lia. }
    assert (Htl : bytes_okb tl = true).
    { unfold raw in Hok. cbn [bytes_okb forallb] in Hok. apply andb_prop in Hok. tauto. }
    set (pN := 2 ^ (8 * N.of_nat k)).
    assert (HpN : 0 < pN) by apply pow2_pos.
    assert (Hsplit : u = le_val (rev tl) + pN * b0).
    { rewrite Hu. unfold raw. cbn [rev]. rewrite le_val_app, rev_length. fold k. fold pN.
      cbn [le_val fold_right]. lia. }
    assert (Hlo : le_val (rev tl) < pN).
    { pose proof (le_val_lt (rev tl)) as L. rewrite bytes_okb_rev, rev_length in L. exact (L Htl). }
    set (P := (2 ^ (8 * Z.of_nat k))%Z).
    assert (HP : Z.of_N pN = P).
    { unfold pN, P. rewrite pow2_N2Z. f_equal. lia. }
    assert (E1 : (2 ^ (8 * Z.of_nat (length raw)) = 256 * P)%Z).
    { rewrite Hlen. replace (8 * Z.of_nat (S k))%Z with (8 * Z.of_nat k + 8)%Z by lia.
      rewrite Z.pow_add_r by lia. change (2 ^ 8)%Z with 256%Z. unfold P. lia. }
    assert (E2 : (2 ^ (8 * Z.of_nat (length raw) - 1) = 128 * P)%Z).
    { rewrite Hlen. replace (8 * Z.of_nat (S k) - 1)%Z with (8 * Z.of_nat k + 7)%Z by lia.
      rewrite Z.pow_add_r by lia. change (2 ^ 7)%Z with 128%Z. unfold P. lia. }
    assert (Hm : signed_be raw = if b0 <? 128 then Z.of_N u else (Z.of_N u - 256 * P)%Z).
    { unfold raw at 1. rewrite signed_be_cons. fold raw. fold u. rewrite E1.
      rewrite land128_byte by exact Hb0. reflexivity. }
    assert (Hmod : (signed_be raw mod (256 * P))%Z = Z.of_N u).
    { rewrite Hm. destruct (N.ltb_spec b0 128).
      - apply Z.mod_small. nia.
      - rewrite <- (Z_mod_plus_full _ 1 (256 * P)).
        replace (Z.of_N u - 256 * P + 1 * (256 * P))%Z with (Z.of_N u) by lia.
        apply Z.mod_small. nia. }
    split.
    + unfold fits_twos. rewrite Hlen. cbn [Nat.eqb]. rewrite <- Hlen, E2, Hm.
      destruct (N.ltb_spec b0 128); apply andb_true_intro; split; apply Z.leb_le; nia.
    + unfold spec_twos_be. rewrite E1, Hmod, N2Z.id, Hu.
      rewrite <- (rev_length raw).
      rewrite spec_le_le_val by (rewrite bytes_okb_rev; exact Hok).
      rewrite rev_involutive. reflexivity.
Qed.

(* ------------------------------------------------------------------ *)
(** * 3. The Hoare predicate: result and consumed prefix on Ok *)

Definition okb (rs : rstate) : Prop := bytes_okb (rd_inp rs) = true.

Definition hoare {A} (m : RM A) (Q : A -> bytes -> Prop) : Prop :=
  forall rs a rs', okb rs -> m rs = (Ok a, rs') ->
    exists pre, rd_inp rs = pre ++ rd_inp rs' /\ Q a pre.

Lemma okb_split rs rs' pre : okb rs -> rd_inp rs = pre ++ rd_inp rs' ->
  bytes_okb pre = true /\ okb rs'.
Proof.
  unfold okb. intros H E. rewrite E, bytes_okb_app in H. apply andb_prop in H. exact H.
Qed.

Lemma hoare_bind {A B} (R : A -> bytes -> Prop) (Q : B -> bytes -> Prop) (m : RM A) (k : A -> RM B) :
  hoare m R ->
  (forall a p1, R a p1 -> bytes_okb p1 = true -> hoare (k a) (fun b p2 => Q b (p1 ++ p2))) ->
  hoare (sbind m k) Q.
Proof.
  intros Hm Hk rs b rs' Hok H. unfold sbind in H.
  destruct (m rs) as [x s1] eqn:Em. destruct x; try discriminate.
  destruct (Hm rs a s1 Hok Em) as (p1 & E1 & HR).
  destruct (okb_split _ _ _ Hok E1) as [Hp1 Hok1].
  destruct (Hk a p1 HR Hp1 s1 b rs' Hok1 H) as (p2 & E2 & HQ).
  exists (p1 ++ p2). split; [|exact HQ]. rewrite E1, E2, app_assoc. reflexivity.
Qed.

Lemma hoare_ret {A} (Q : A -> bytes -> Prop) a : Q a [] -> hoare (sret a) Q.
Proof.
  intros H rs a' rs' _ E. unfold sret in E. inversion E; subst. exists []. split; [reflexivity|exact H].
Qed.

Lemma hoare_fail {A} (Q : A -> bytes -> Prop) (x : result A) : is_ok x = false -> hoare (rfail x) Q.
Proof. intros H rs a rs' _ E. unfold rfail in E. inversion E; subst. discriminate. Qed.

Lemma hoare_weaken {A} (R Q : A -> bytes -> Prop) m :
  hoare m R -> (forall a p, R a p -> bytes_okb p = true -> Q a p) -> hoare m Q.
Proof.
  intros Hm HRQ rs a rs' Hok E. destruct (Hm rs a rs' Hok E) as (p & E1 & HR).
  exists p. split; [exact E1|]. apply HRQ; [exact HR|]. eapply okb_split; eauto.
Qed.


(* ------------------------------------------------------------------ *)
(** * 4. Primitive readers *)

Lemma consume_inp k rs : rd_inp (consume k rs) = skipn (N.to_nat k) (rd_inp rs).
Proof. reflexivity. Qed.

Lemma firstn_buffer k rs : (N.to_nat k <= length (buffer rs))%nat ->
  firstn (N.to_nat k) (buffer rs) = firstn (N.to_nat k) (rd_inp rs).
Proof.
  intro H. unfold buffer in *. destruct (rd_chunks rs); [|reflexivity].
  rewrite firstn_firstn. f_equal. rewrite firstn_length in H. lia.
Qed.

(* in every mode read_varint returns what decode_var says about the remaining input *)
Lemma read_varint_inv t rs z rs' : read_varint t rs = (Ok z, rs') ->
  exists k, decode_var t (rd_inp rs) = Some (z, k) /\ rd_inp rs' = skipn (N.to_nat k) (rd_inp rs).
Proof.
  unfold read_varint. intro H. destruct (rd_chunks rs) eqn:Ec.
  - destruct (decode_var t (buffer rs)) as [[v k]|] eqn:E.
    + inversion H; subst. exists k. split; [|apply consume_inp].
      unfold buffer in E. rewrite Ec in E. eapply decode_var_of_prefix. exact E.
    + destruct (decode_var t (gather (rd_inp rs))) as [[v k]|] eqn:E2; [|discriminate].
      inversion H; subst. rewrite decode_var_gather in E2.
      pose proof (decode_var_gather_len _ _ _ _ E2) as L.
      exists k. split; [exact E2|]. rewrite consume_inp, L. reflexivity.
  - destruct (decode_var t (rd_inp rs)) as [[v k]|] eqn:E; [|discriminate].
    inversion H; subst. exists k. split; [reflexivity|apply consume_inp].
Qed.

Definition varint_post (t : vty) (z : Z) (pre : bytes) : Prop :=
  match t with
  | VI64 => rlong z pre
  | VI32 => rlong z pre /\ Zin I32_MIN I32_MAX z = true
  | VU64 => (0 <= z)%Z /\ rvarint (Z.to_N z) pre
  | VU32 => (0 <= z < 2 ^ 32)%Z /\ rvarint (Z.to_N z) pre
  end.

Lemma hoare_read_varint t : hoare (read_varint t) (varint_post t).
Proof.
  intros rs z rs' Hok H. apply read_varint_inv in H. destruct H as (k & Hd & Hi).
  destruct (decode_var_sound t _ _ _ Hok Hd) as [Hk Hp].
  exists (firstn (N.to_nat k) (rd_inp rs)). split.
  - rewrite Hi, firstn_skipn. reflexivity.
  - destruct t; exact Hp.
Qed.

Lemma blen_firstn n (l : bytes) : n <= blen l -> blen (firstn (N.to_nat n) l) = n.
Proof. unfold blen. intro H. rewrite firstn_length. lia. Qed.

Lemma hoare_read_exact n : hoare (read_exact n) (fun bs pre => bs = pre /\ blen pre = n).
Proof.
  intros rs bs rs' Hok H. unfold read_exact in H.
  destruct (N.ltb_spec (blen (rd_inp rs)) n) as [Hl|Hl]; [discriminate|].
  inversion H; subst. exists (firstn (N.to_nat n) (rd_inp rs)). rewrite consume_inp, firstn_skipn.
  repeat split. apply blen_firstn. exact Hl.
Qed.

Lemma hoare_read_slice n : hoare (read_slice n) (fun r pre => fst r = pre /\ blen pre = n).
Proof.
  intros rs r rs' Hok H. unfold read_slice in H.
  assert (G : n <= blen (rd_inp rs) ->
              exists pre, rd_inp rs = pre ++ rd_inp (consume n rs) /\
                          firstn (N.to_nat n) (rd_inp rs) = pre /\ blen pre = n).
  { intro Hl. exists (firstn (N.to_nat n) (rd_inp rs)). rewrite consume_inp, firstn_skipn.
    repeat split. apply blen_firstn. exact Hl. }
  destruct (rd_chunks rs).
  - destruct (N.leb_spec n (blen (buffer rs))) as [Hb|Hb].
    + inversion H; subst. cbn [fst]. apply G. pose proof (buffer_len_le rs). lia.
    + destruct (rd_max_alloc rs <? n); [discriminate|].
      destruct (N.ltb_spec (blen (rd_inp rs)) n) as [Hl|Hl]; [discriminate|].
      inversion H; subst. cbn [fst]. apply G. exact Hl.
  - destruct (N.ltb_spec (blen (rd_inp rs)) n) as [Hl|Hl]; [discriminate|].
    inversion H; subst. cbn [fst]. apply G. exact Hl.
Qed.

(* the Take window of BigDecimal *)
Lemma hoare_take_varint limit :
  hoare (take_varint limit)
        (fun r pre => rlong (fst r) pre /\ blen pre <= limit /\ snd r = limit - blen pre).
Proof.
  intros rs r rs' Hok H. unfold take_varint in H.
  set (avail := firstn (N.to_nat (N.min limit (blen (rd_inp rs)))) (rd_inp rs)) in *.
  destruct (decode_i64 (gather avail)) as [[v k]|] eqn:E; [|discriminate].
  inversion H; subst. clear H. cbn [fst snd].
  change (decode_i64 (gather avail)) with (decode_var VI64 (gather avail)) in E.
  rewrite decode_var_gather in E.
  pose proof (decode_var_gather_len _ _ _ _ E) as L.
  assert (Hav : bytes_okb avail = true) by (apply bytes_okb_firstn; exact Hok).
  destruct (decode_var_sound VI64 _ _ _ Hav E) as [Hk Hp].
  assert (Hal : blen avail <= limit) by (unfold avail, blen; rewrite firstn_length; lia).
  assert (Hf : firstn (N.to_nat k) avail = firstn (N.to_nat k) (rd_inp rs)).
  { unfold avail. rewrite firstn_firstn. f_equal. unfold avail in Hk. rewrite firstn_length in Hk. lia. }
  exists (firstn (N.to_nat k) (rd_inp rs)). rewrite consume_inp, L, firstn_skipn.
  split; [reflexivity|]. rewrite <- Hf.
  assert (Hbl : blen (firstn (N.to_nat k) avail) = k) by (apply blen_firstn; unfold blen; lia).
  rewrite Hbl. split; [exact Hp|]. unfold blen in *. split; lia.
Qed.

Lemma hoare_take_exact limit n :
  hoare (take_exact limit n)
        (fun r pre => fst r = pre /\ blen pre = n /\ n <= limit /\ snd r = limit - n).
Proof.
  intros rs r rs' Hok H. unfold take_exact in H.
  set (avail := firstn (N.to_nat (N.min limit (blen (rd_inp rs)))) (rd_inp rs)) in *.
  destruct (N.ltb_spec (blen avail) n) as [Hl|Hl]; [discriminate|].
  inversion H; subst. clear H. cbn [fst snd].
  assert (Hal : blen avail <= limit /\ blen avail <= blen (rd_inp rs))
    by (unfold avail, blen; rewrite firstn_length; lia).
  assert (Hf : firstn (N.to_nat n) avail = firstn (N.to_nat n) (rd_inp rs)).
  { unfold avail. rewrite firstn_firstn. f_equal. unfold blen in *. lia. }
  exists (firstn (N.to_nat n) (rd_inp rs)). rewrite consume_inp, firstn_skipn.
  split; [reflexivity|]. rewrite Hf. repeat split; try lia. apply blen_firstn. lia.
Qed.

Lemma hoare_dec_depth d : hoare (dec_depth d) (fun d' pre => pre = [] /\ d = S d').
Proof. destruct d; [apply hoare_fail; reflexivity|apply hoare_ret; auto]. Qed.

Lemma hoare_node_at Sc k : hoare (node_at Sc k) (fun n pre => pre = [] /\ fnode_at Sc k = Some n).
Proof.
  unfold node_at. destruct (fnode_at Sc k); [apply hoare_ret; auto|apply hoare_fail; reflexivity].
Qed.

(* read_usize: a non-negative long *)
Lemma hoare_read_usize : hoare read_usize (fun l pre => rlong (Z.of_N l) pre).
Proof.
  unfold read_usize. eapply hoare_bind; [apply (hoare_read_varint VI64)|].
  intros z p1 Hz _. cbn [varint_post] in Hz.
  destruct (Z.ltb_spec z 0); [apply hoare_fail; reflexivity|].
  apply hoare_ret. rewrite app_nil_r, Z2N.id by lia. exact Hz.
Qed.

Lemma hoare_read_bool :
  hoare read_bool (fun e pre => exists b : bool, e = DBool b /\ pre = [if b then 1 else 0]).
Proof.
  unfold read_bool. eapply hoare_bind; [apply hoare_read_slice|].
  intros r p1 [Hr Hl] _. rewrite Hr.
  destruct p1 as [|[|[|[]|]] [|]]; try (apply hoare_fail; reflexivity).
  - apply hoare_ret. exists false. auto.
  - apply hoare_ret. exists true. auto.
Qed.

Lemma hoare_read_ld_bytes :
  hoare read_ld_bytes (fun e pre => exists bs bl, erase_borrow e = DBytes bs /\ pre = bl ++ bs /\
                                                  rlong (Z.of_nat (length bs)) bl).
Proof.
  unfold read_ld_bytes. eapply hoare_bind; [apply hoare_read_usize|].
  intros l p1 Hl _. eapply hoare_bind; [apply hoare_read_slice|].
  intros r p2 [Hr Hn] _. apply hoare_ret. exists p2, p1. rewrite app_nil_r.
  split; [|split; [reflexivity|]].
  - unfold bytes_event. rewrite Hr. destruct (snd r); reflexivity.
  - unfold blen in Hn. rewrite <- Hn, nat_N_Z in Hl. exact Hl.
Qed.

Lemma hoare_str_event r :
  hoare (str_event r) (fun e pre => pre = [] /\ erase_borrow e = DStr (fst r) /\ utf8_valid (fst r) = true).
Proof.
  unfold str_event. destruct (utf8_valid (fst r)); [|apply hoare_fail; reflexivity].
  apply hoare_ret. repeat split. destruct (snd r); reflexivity.
Qed.

Lemma hoare_read_ld_str :
  hoare read_ld_str (fun e pre => exists s bl, erase_borrow e = DStr s /\ pre = bl ++ s /\
                                               rlong (Z.of_nat (length s)) bl /\ utf8_valid s = true).
Proof.
  unfold read_ld_str. eapply hoare_bind; [apply hoare_read_usize|].
  intros l p1 Hl _. eapply hoare_bind; [apply hoare_read_slice|].
  intros r p2 [Hr Hn] _. eapply hoare_weaken; [apply hoare_str_event|].
  intros e p (Hp & He & Hu) _. subst p. exists p2, p1. rewrite app_nil_r, <- Hr.
  split; [exact He|]. split; [reflexivity|]. split; [|exact Hu].
  rewrite Hr. unfold blen in Hn. rewrite <- Hn, nat_N_Z in Hl. exact Hl.
Qed.
