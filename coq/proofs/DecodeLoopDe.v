(** The block reader of model/DecodeLoop.v with the crate's deserializer as value decoder:
    [de_vdec] = De.de in slice mode on the decompressed bytes still to come (the abstraction stated in
    DecodeLoop.v), events erased to the owned form. [compressed_block_read_back_de]: for every
    well-formed schema, every list of conforming values within the limits, every streaming decoder
    meeting the contract, every capacity >= 1, chunking and read policy, a compressed block as written
    yields exactly the values and is left behind its sync marker. *)
From Coq Require Import NArith ZArith List Lia Bool Arith.
Import ListNotations.
Require Import Base Schema Target Reader De Container AvroValue Encoding Denote Wf.
Require Import CodecLoop DecodeLoop DecodeLoopProofs ContainerReadProofs.

Definition de_vdec (Sc : fschema) (cfg : dcfg) (root : fnode) (p : bytes) : result dval * nat :=
  let (r, st) := de Sc cfg FUEL_SINK root (c_depth cfg) false false TAny (slice_reader p) in
  (rmap erase_borrow r, N.to_nat (rd_pos st)).

Lemma de_vdec_ok : forall Sc cfg root, schema_wf Sc = true ->
  vdec_ok dval (de_vdec Sc cfg root) avalue (value_ok Sc cfg root) (enc1 Sc root) (dval_any Sc root).
Proof.
  intros Sc cfg root Hwf v rest Hv. unfold de_vdec, slice_reader.
  destruct (de_value Sc cfg root Hwf v rest 0%N 0%N Hv) as (d & E & Ed). rewrite E.
  cbn [rmap rbind rd_pos]. rewrite Ed. f_equal. lia.
Qed.

Theorem compressed_block_read_back_de :
  forall (D : Type) (dread : D -> bytes -> option chunkst -> nat -> dres * D) (policy : nat -> nat -> option nat)
         Sc cfg root (z : bytes) (d0 : D) (vs : list avalue) sync rest ch cap fuel s,
  schema_wf Sc = true -> Forall (value_ok Sc cfg root) vs -> length sync = 16%nat ->
  stream_decoder_contract D dread z (encs Sc root vs) z d0 -> (1 <= cap)%nat -> (length (encs Sc root vs) < fuel)%nat ->
  block_open D d0 (z ++ sync ++ rest) ch (length z) cap = Some s ->
  exists ch', block_run D dread policy dval (de_vdec Sc cfg root) fuel (length vs) sync s
              = (map (dval_any Sc root) vs, BDone rest ch').
Proof.
  intros D dread policy Sc cfg root z d0 vs sync rest ch cap fuel s Hwf HP Hs K Hcap Hf Ho.
  exact (compressed_block_read_back D dread policy dval (de_vdec Sc cfg root) avalue (value_ok Sc cfg root)
           (enc1 Sc root) (dval_any Sc root) (de_vdec_ok Sc cfg root Hwf) z d0 vs sync rest ch cap fuel s HP Hs K Hcap Hf Ho).
Qed.

Theorem compressed_count_lowered_de :
  forall (D : Type) (dread : D -> bytes -> option chunkst -> nat -> dres * D) (policy : nat -> nat -> option nat)
         Sc cfg root (z : bytes) (d0 : D) (vs1 vs2 : list avalue) sync src ch cap fuel s,
  schema_wf Sc = true -> Forall (value_ok Sc cfg root) vs1 -> encs Sc root vs2 <> [] -> firstn (length z) src = z ->
  stream_decoder_contract D dread z (encs Sc root (vs1 ++ vs2)) z d0 -> (1 <= cap)%nat ->
  (length (encs Sc root (vs1 ++ vs2)) < fuel)%nat ->
  block_open D d0 src ch (length z) cap = Some s ->
  block_run D dread policy dval (de_vdec Sc cfg root) fuel (length vs1) sync s
    = (map (dval_any Sc root) vs1, BEndErr EndLeftover).
Proof.
  intros D dread policy Sc cfg root z d0 vs1 vs2 sync src ch cap fuel s Hwf HP Hne Haz K Hcap Hf Ho.
  exact (count_lowered_detected D dread policy dval (de_vdec Sc cfg root) avalue (value_ok Sc cfg root)
           (enc1 Sc root) (dval_any Sc root) (de_vdec_ok Sc cfg root Hwf) z d0 vs1 vs2 sync src ch cap fuel s HP Hne Haz K Hcap Hf Ho).
Qed.
