(** The container writer theorems with the two contracts of the value serializer discharged for
    the real [ser] (proofs/SerContractProofs.v). *)
From Coq Require Import List NArith.
Require Import Base Schema Sval Ser VectoredWrite Container ContainerProofs SerContractProofs.
Import ListNotations.

Theorem wrun_accounting_vec_real : forall enc Sc approx sync vectored ops hdr st blocks outs st',
  wrep enc sync hdr st blocks -> w_sched st = [] ->
  wrun enc Sc approx sync vectored st ops = (outs, st') ->
  Forall (fun r => fst r <> WRUnmodelled) outs ->
  ran enc Sc sync hdr st blocks ops outs st' /\ w_sched st' = [].
Proof.
  intros enc Sc approx sync vectored. apply wrun_accounting_vec. intros root v st0 r s'. apply ser_appends.
Qed.

Theorem wrun_accounting_all_ok_real : forall enc Sc approx sync vectored ops hdr st blocks outs st',
  wrep enc sync hdr st blocks ->
  wrun enc Sc approx sync vectored st ops = (outs, st') ->
  Forall (fun r => fst r = WROk) outs -> ran enc Sc sync hdr st blocks ops outs st'.
Proof.
  intros enc Sc approx sync vectored. apply wrun_accounting_all_ok. intros root v st0 r s'. apply ser_appends.
Qed.

Theorem wrun_no_block_panic_real : forall enc Sc approx sync vectored ops st,
  winv st ->
  ~ In (WRPanic PWriterBlockNotFlushed) (map fst (fst (wrun enc Sc approx sync vectored st ops))).
Proof.
  intros enc Sc approx sync vectored. apply wrun_no_block_panic. intros root v st0 s'. apply ser_no_block_panic.
Qed.
