(** C20, last clause -- decoder side: every valid encoding of a value conforming to the node that
    realises a type, read with the DERIVED Deserialize target of the type, is accepted, consumed exactly,
    and yields the callbacks [DA t] prescribes (induction over the encoded value, generic lemmas of DS2-DS7). *)
From Coq Require Import NArith ZArith List Lia Bool.
From Coq Require Import ZifyN ZifyBool ZifyNat.
Require Import Base Kinds Schema Varint Utf8 Sval Target Reader Text De.
Require Import AvroValue Encoding Denote Wf VarintProofs.
Require Import DeProofs.
Require Import DS1 DS2 DS3 DS4 DS5 DeSteps DS6 DS7.
Require Import Derive DeriveFitsDefs DeriveFitsRel.
Import ListNotations.
Open Scope N_scope.

Ltac Zify.zify_post_hook ::= Z.to_euclidean_division_equations.

Arguments N.add : simpl never.
Arguments N.sub : simpl never.
Arguments N.mul : simpl never.
Arguments N.div : simpl never.
Arguments N.modulo : simpl never.
Arguments N.pow : simpl never.
Arguments N.shiftl : simpl never.
Arguments N.shiftr : simpl never.
Arguments N.land : simpl never.
Arguments N.lor : simpl never.
Arguments N.ltb : simpl never.
Arguments N.leb : simpl never.
Arguments N.eqb : simpl never.
Arguments N.of_nat : simpl never.
Arguments N.to_nat : simpl never.
Arguments N.min : simpl never.
Arguments Z.of_nat : simpl never.
Arguments Z.of_N : simpl never.
Arguments Z.to_N : simpl never.
Arguments Z.add : simpl never.
Arguments Z.sub : simpl never.
Arguments Z.mul : simpl never.
Arguments Z.pow : simpl never.
Arguments Z.ltb : simpl never.
Arguments Z.leb : simpl never.
Arguments Z.eqb : simpl never.
Arguments Z.opp : simpl never.
Arguments Z.abs : simpl never.
Arguments Z.modulo : simpl never.

(* ------------------------------------------------------------------ *)
(** * the struct visitor over a record, with a relation indexed by the FIELD NAME (two fields may share
      a node and still have different Rust types: a newtype struct and its field) *)
Section StructN.
Variable Sc : fschema.
Variable cfg : dcfg.
Variable fs : list (bytes * dtarget).
Variable R : bytes -> nat -> evalue -> dval -> Prop.

Fixpoint struct_outN (fields : list (bytes * nat)) (es : list evalue) (l : list (bytes * dval)) : Prop :=
  match fields, es with
  | [], [] => l = []
  | (nm, k) :: fr, v :: vr =>
      if has_field nm fs then exists d l', l = (nm, d) :: l' /\ R nm k v d /\ struct_outN fr vr l'
      else struct_outN fr vr l
  | _, _ => False
  end.

Definition field_specN (d' : nat) (nm : bytes) (k : nat) (v : evalue) : Prop :=
  match find_field nm fs O with
  | Some (_, tf) => item_g Sc cfg tf (R nm k) k d' v
  | None => item_g Sc cfg TIgnored Rign k d' v
  end.

Lemma struct_loop_gN : forall es fields d' M seen,
  fields_P (field_specN d') fields es ->
  no_dup_seen fs fields seen ->
  Forall (fun e => (de_fuel e <= M)%nat) es ->
  forall fuel acc rest pos ma, (length es + 2 + M <= fuel)%nat ->
  exists l,
    struct_loop Sc cfg fuel (MSRecord fields d') fs seen acc
      (mkRd (enc_fields Sc fields es ++ rest) pos None ma)
    = (Ok (rev acc ++ l ++ missing_fields fs (seen_after fs fields seen)),
       mkRd rest (pos + N.of_nat (length (enc_fields Sc fields es))) None ma)
    /\ struct_outN fields es l.
Proof.
  induction es as [|v vr IH]; intros fields d' M seen Hok Hnd HM fuel acc rest pos ma Hfuel.
  - destruct fields as [|[nm k] fr]; [|destruct Hok].
    destruct fuel as [|f]; [lia|]. destruct f as [|f1]; [lia|].
    rewrite struct_loop_record_nil_eq.
    exists []. split; [|reflexivity].
    cbn [enc_fields app length seen_after]. unfold sret. f_equal. f_equal. lia.
  - destruct fields as [|[nm k] fr]; [destruct Hok|].
    cbn [fields_P] in Hok. destruct Hok as [Hv Hok].
    inversion HM as [|? ? HM1 HM2]; subst.
    cbn [length] in Hfuel.
    destruct fuel as [|f]; [lia|]. destruct f as [|f1]; [lia|].
    rewrite struct_loop_record_cons_eq.
    cbn [no_dup_seen seen_after struct_outN] in *. unfold field_specN in Hv.
    cbn [enc_fields]. rewrite <- app_assoc.
    destruct (find_field nm fs O) as [[i tf]|] eqn:E.
    + destruct (find_field_some _ _ _ _ _ E) as (Hhas & _). rewrite Hhas.
      destruct Hnd as [Hsn Hnd]. rewrite Hsn.
      destruct Hv as (n' & Hn & Hv).
      rewrite map_next_value_record_g_eq.
      unfold node_at. rewrite Hn, sbind_sret.
      unfold enc_at at 1. rewrite Hn.
      destruct (Hv f1 (enc_fields Sc fr vr ++ rest) pos ma ltac:(lia)) as (d & Hde & Hdv).
      rewrite sbind_assoc. rewrite (sbind_ok _ _ _ _ _ Hde). rewrite sbind_sret. cbn [fst snd].
      destruct (IH fr d' M (set_seen seen i) Hok Hnd HM2 (S f1) ((nm, d) :: acc) rest
                  (pos + N.of_nat (length (encode_e Sc n' v))) ma ltac:(lia)) as (l & Hl & Hout).
      exists ((nm, d) :: l). split.
      * rewrite Hl. cbn [rev]. rewrite <- !app_assoc. cbn [app]. f_equal. f_equal.
        unfold enc_at. rewrite Hn. rewrite app_length. lia.
      * exists d, l. repeat split; assumption.
    + assert (Hhas : has_field nm fs = false).
      { destruct (has_field nm fs) eqn:Hh; [|reflexivity]. exfalso.
        clear -E Hh. revert E. generalize O.
        induction fs as [|[f t] r IHr]; intros s E; [discriminate Hh|].
        cbn [has_field existsb fst] in Hh. cbn [find_field] in E.
        destruct (bytes_eqb f nm); [discriminate E|]. cbn [orb] in Hh. apply (IHr Hh (S s) E). }
      rewrite Hhas.
      destruct Hv as (n' & Hn & Hv).
      rewrite map_next_value_record_g_eq.
      unfold node_at. rewrite Hn, sbind_sret.
      unfold enc_at at 1. rewrite Hn.
      destruct (Hv f1 (enc_fields Sc fr vr ++ rest) pos ma ltac:(lia)) as (d & Hde & Hdv).
      rewrite sbind_assoc. rewrite (sbind_ok _ _ _ _ _ Hde). rewrite sbind_sret. cbn [fst snd].
      destruct (IH fr d' M seen Hok Hnd HM2 (S f1) acc rest
                  (pos + N.of_nat (length (encode_e Sc n' v))) ma ltac:(lia)) as (l & Hl & Hout).
      exists l. split; [|exact Hout].
      rewrite Hl. f_equal. f_equal.
      unfold enc_at. rewrite Hn. rewrite app_length. lia.
Qed.

Lemma de_struct_record_coreN : forall nm fields es sn d' favor fuel rest pos ma,
  adm Sc cfg (FRecord nm fields) (ERecord es) ->
  NoDup (map fst fields) ->
  fields_P (field_specN d') fields es ->
  (de_fuel (ERecord es) <= fuel)%nat ->
  exists l,
    de Sc cfg fuel (FRecord nm fields) (S d') favor false (TStruct sn fs)
      (mkRd (encode_e Sc (FRecord nm fields) (ERecord es) ++ rest) pos None ma)
    = (Ok (Target.DStruct (l ++ missing_fields fs (seen_after fs fields (repeat false (length fs))))),
       mkRd rest (pos + N.of_nat (length (encode_e Sc (FRecord nm fields) (ERecord es)))) None ma)
    /\ struct_outN fields es l.
Proof.
  intros nm fields es sn d' favor fuel rest pos ma Hadm Hnd Hspec Hfuel.
  destruct fuel as [|f]; [unfold de_fuel in Hfuel; lia|].
  destruct (record_pre Sc cfg _ _ _ _ _ Hadm Hfuel) as (dp & f1 & M & Hdp & -> & Hf1 & _ & HM).
  rewrite de_struct_eq. rewrite encode_record_eq.
  cbn [any_g dec_depth]. rewrite sbind_sret. rewrite map_visit_struct_eq.
  assert (Hnds : no_dup_seen fs fields (repeat false (length fs))).
  { apply no_dup_seen_intro; [exact Hnd|]. intros. apply nth_repeat_false. }
  destruct (struct_loop_gN es fields d' M _ Hspec Hnds HM f1 [] rest pos ma Hf1)
    as (l & Hl & Hout).
  rewrite (sbind_ok _ _ _ _ _ Hl). exists l. split; [reflexivity|exact Hout].
Qed.

End StructN.

(* ------------------------------------------------------------------ *)
(** * the callbacks prescribed by a type for an Avro value *)
Definition leaf_dval (a : avalue) : dval :=
  match a with
  | AvroValue.ANull => DUnit | ABool b => DBool b
  | AvroValue.AInt z => DInt true W32 z | AvroValue.ALong z => DInt true W64 z
  | AvroValue.AFloat b => DF32 b | AvroValue.ADouble b => DF64 b
  | AvroValue.ABytes b => DBytes b | AvroValue.AString s => DStr s
  | AFixed b => DBytes b
  | ABigDecimal m s => DStr (decimal_to_string m s)
  | _ => DMissing
  end.

Definition leaf_hint (lt : rtype) : hint :=
  match lt with TPrim p => prim_hint p | TString => HString | TBytes => HByteBuf | _ => HUnit end.

Section DA.
Variable ds : defs.

Fixpoint DA (t : rtype) (a : avalue) {struct a} : dval :=
  match peel t with
  | TPrim _ | TString | TBytes => leaf_dval a
  | TOption t' =>
      match a with
      | AUnion O _ => DNone
      | AUnion _ a' => DSome (DA t' a')
      | _ => DMissing
      end
  | TVec t' => match a with AArray l => DSeq (map (DA t') l) | _ => DMissing end
  | Derive.TMap t' =>
      match a with AMap kvs => DMap (map (fun kv => (DStr (fst kv), DA t' (snd kv))) kvs) | _ => DMissing end
  | TNamed id _ =>
      match nth_error ds id with
      | Some (Derive.DStruct h fs) =>
          match a with
          | ARecord l =>
              Target.DStruct
                ((fix go (fs : list field) (l : list avalue) {struct l} : list (bytes * dval) :=
                    match fs, l with
                    | fd :: fr, a' :: ar => (f_name fd, DA (ftype fd) a') :: go fr ar
                    | _, _ => []
                    end) fs l)
          | _ => DMissing
          end
      | Some (Derive.DNewtype h s) => Target.DNewtype (leaf_dval a)
      | Some (DUnitEnum h syms) =>
          match a with AEnum i => DEnum (fst (nth i syms ([], false))) DUnit | _ => DMissing end
      | Some (DUnionEnum h vs) =>
          match a with
          | AUnion i a' =>
              match nth_error vs i with
              | Some VUnit => DEnum NULLV DUnit
              | Some (VNewtype ident s) => DEnum ident (DA (sl_type s) a')
              | None => DMissing
              end
          | _ => DMissing
          end
      | None => DMissing
      end
  | _ => DMissing
  end.

Fixpoint DA_fields (fs : list field) (l : list avalue) {struct l} : list (bytes * dval) :=
  match fs, l with
  | fd :: fr, a' :: ar => (f_name fd, DA (ftype fd) a') :: DA_fields fr ar
  | _, _ => []
  end.

Lemma DA_leaf t a : leaf_type (peel t) = true -> DA t a = leaf_dval a.
Proof. intro H. destruct a; cbn [DA]; destruct (peel t); try discriminate H; reflexivity. Qed.

Lemma DA_newtype t a id ar h s :
  peel t = TNamed id ar -> nth_error ds id = Some (Derive.DNewtype h s) -> DA t a = Target.DNewtype (leaf_dval a).
Proof. intros Hp Hd. destruct a; cbn [DA]; rewrite Hp, Hd; reflexivity. Qed.

Lemma DA_vec t t' l : peel t = TVec t' -> DA t (AArray l) = DSeq (map (DA t') l).
Proof. intro Hp. cbn [DA]. rewrite Hp. reflexivity. Qed.

Lemma DA_map t t' kvs : peel t = Derive.TMap t' ->
  DA t (AMap kvs) = DMap (map (fun kv => (DStr (fst kv), DA t' (snd kv))) kvs).
Proof. intro Hp. cbn [DA]. rewrite Hp. reflexivity. Qed.

Lemma DA_struct t id ar h fs l :
  peel t = TNamed id ar -> nth_error ds id = Some (Derive.DStruct h fs) ->
  DA t (ARecord l) = Target.DStruct (DA_fields fs l).
Proof. intros Hp Hd. cbn [DA]. rewrite Hp, Hd. reflexivity. Qed.

Lemma DA_uenum t id ar h syms i :
  peel t = TNamed id ar -> nth_error ds id = Some (DUnitEnum h syms) ->
  DA t (AEnum i) = DEnum (fst (nth i syms ([], false))) DUnit.
Proof. intros Hp Hd. cbn [DA]. rewrite Hp, Hd. reflexivity. Qed.

Lemma DA_option_none t t' a : peel t = TOption t' -> DA t (AUnion 0 a) = DNone.
Proof. intro Hp. cbn [DA]. rewrite Hp. reflexivity. Qed.
Lemma DA_option_some t t' a : peel t = TOption t' -> DA t (AUnion 1 a) = DSome (DA t' a).
Proof. intro Hp. cbn [DA]. rewrite Hp. reflexivity. Qed.

Lemma DA_union t id ar h vs i a :
  peel t = TNamed id ar -> nth_error ds id = Some (DUnionEnum h vs) ->
  DA t (AUnion i a) = match nth_error vs i with
                      | Some VUnit => DEnum NULLV DUnit
                      | Some (VNewtype ident s) => DEnum ident (DA (sl_type s) a)
                      | None => DMissing
                      end.
Proof. intros Hp Hd. cbn [DA]. rewrite Hp, Hd. reflexivity. Qed.

(* targets *)
Lemma dtarget_leaf f t : leaf_type (peel t) = true -> dtarget_of (S f) ds t = THint (leaf_hint (peel t)).
Proof. intro H. cbn [dtarget_of]. destruct (peel t); try discriminate H; reflexivity. Qed.

Lemma dtarget_newtype f t id ar h s :
  peel t = TNamed id ar -> nth_error ds id = Some (Derive.DNewtype h s) ->
  dtarget_of (S f) ds t = TNewtypeStruct (h_ident h) (dtarget_of f ds (sl_type s)).
Proof. intros Hp Hd. cbn [dtarget_of]. rewrite Hp, Hd. reflexivity. Qed.
Lemma dtarget_option f t t' : peel t = TOption t' -> dtarget_of (S f) ds t = Target.TOption (dtarget_of f ds t').
Proof. intros Hp. cbn [dtarget_of]. rewrite Hp. reflexivity. Qed.
Lemma dtarget_vec f t t' : peel t = TVec t' -> dtarget_of (S f) ds t = TSeq (dtarget_of f ds t').
Proof. intros Hp. cbn [dtarget_of]. rewrite Hp. reflexivity. Qed.
Lemma dtarget_map f t t' : peel t = Derive.TMap t' ->
  dtarget_of (S f) ds t = Target.TMap (THint HString) (dtarget_of f ds t').
Proof. intros Hp. cbn [dtarget_of]. rewrite Hp. reflexivity. Qed.
Lemma dtarget_struct f t id ar h fs :
  peel t = TNamed id ar -> nth_error ds id = Some (Derive.DStruct h fs) ->
  dtarget_of (S f) ds t = TStruct (h_ident h) (map (fun fd => (f_name fd, dtarget_of f ds (ftype fd))) fs).
Proof. intros Hp Hd. cbn [dtarget_of]. rewrite Hp, Hd. reflexivity. Qed.
Lemma dtarget_uenum f t id ar h syms :
  peel t = TNamed id ar -> nth_error ds id = Some (DUnitEnum h syms) ->
  dtarget_of (S f) ds t = TEnum (h_ident h) (map (fun s => (fst s, TVUnit)) syms).
Proof. intros Hp Hd. cbn [dtarget_of]. rewrite Hp, Hd. reflexivity. Qed.
Definition vtarget (f : nat) (v : variant) : bytes * dtarget :=
  match v with
  | VUnit => (NULLV, TVUnit)
  | VNewtype ident s => (ident, TVNewtype (dtarget_of f ds (sl_type s)))
  end.
Lemma dtarget_union f t id ar h vs :
  peel t = TNamed id ar -> nth_error ds id = Some (DUnionEnum h vs) ->
  dtarget_of (S f) ds t = TEnum (h_ident h) (map (vtarget f) vs).
Proof. intros Hp Hd. cbn [dtarget_of]. rewrite Hp, Hd. reflexivity. Qed.

End DA.

Lemma leaf_dval_any Sc e lt : plain_leaf e = true -> leaf_type lt = true ->
  dval_any Sc (leaf_node lt) (erase e) = leaf_dval (erase e).
Proof.
  intros He Hl. destruct e; try discriminate He; try reflexivity.
  destruct lt; try discriminate Hl; [destruct p|..]; reflexivity.
Qed.

Lemma de_leaf_hint_eq Sc cfg fu lt depth : leaf_type lt = true ->
  de Sc cfg (S fu) (leaf_node lt) depth false false (THint (leaf_hint lt))
  = any_g Sc cfg (THint (leaf_hint lt)) fu (leaf_node lt) depth.
Proof. intro H. destruct lt; try discriminate H; [destruct p|..]; reflexivity. Qed.

Lemma de_newtype_eq Sc cfg f n depth favor nm t' :
  de Sc cfg (S f) n depth favor false (TNewtypeStruct nm t')
  = (do* d <- de Sc cfg f n depth favor false t'; sret (Target.DNewtype d)).
Proof. reflexivity. Qed.

Lemma leaf_node_plainnode lt : leaf_type lt = true -> plainnode (leaf_node lt) = true.
Proof. destruct lt; intro H; try discriminate H; try reflexivity. destruct p; reflexivity. Qed.

Lemma any_step_leaf_fuel Sc cfg f1 f2 n depth : plainnode n = true ->
  any_step Sc cfg f1 n depth = any_step Sc cfg f2 n depth.
Proof. destruct n; intro H; try discriminate H; reflexivity. Qed.

Lemma key_spec_string : key_spec (THint HString) Rkey_str.
Proof.
  intros key tail pos ma Hk Hu. eexists. split.
  - unfold keyrd. apply read_ld_str_app; assumption.
  - reflexivity.
Qed.

(* ------------------------------------------------------------------ *)
(** * the induction *)
Section Fits.
Variable ds : defs.
Variable Sc : fschema.
Variable cfg : dcfg.
Variable Rel : rtype -> nat -> Prop.
Hypothesis Hwf : schema_wf Sc = true.
Hypothesis Hds : defs_ok ds = true.
Hypothesis Hcl : closed ds Sc Rel.

Definition RD (t : rtype) (e : evalue) (d : dval) : Prop := erase_borrow d = DA ds t (erase e).

Definition fits_ok (e : evalue) : Prop :=
  forall t i n tf depth,
    Rel t i -> fnode_at Sc i = Some n ->
    adm Sc cfg n e -> (S (depth_cost e) < tf)%nat -> (tcost e <= depth)%nat ->
    node_g Sc cfg (dtarget_of tf ds t) (RD t) n depth e.

Lemma fits_item e t k dp f d' :
  fits_ok e -> Rel t k -> pre_at Sc cfg k dp e -> (S dp < f)%nat -> (tcost e <= d')%nat ->
  item_g Sc cfg (dtarget_of f ds t) (RD t) k d' e.
Proof.
  intros HP HR (n' & Hn & Hp) Hf Hd. exists n'. split; [exact Hn|].
  assert (Hdc : (S (depth_cost e) < f)%nat) by (destruct Hp as (_ & _ & _ & Hdp & _); lia).
  exact (HP t k n' f d' HR Hn (pre_adm _ _ _ _ _ Hp) Hdc Hd).
Qed.

Lemma case_fits_plain : forall e, plain_leaf e = true -> fits_ok e.
Proof.
  intros e Hpl t i n tf depth HR Hn Hadm Htf Hd fuel rest pos ma Hfuel.
  pose proof Hadm as (Hc & _).
  pose proof (conforms_plainnode Sc e n Hpl Hc) as Hpn.
  assert (Hpre : pre Sc cfg n depth e).
  { apply adm_pre; [exact Hadm|]. pose proof (depth_cost_le_tcost e). lia. }
  destruct tf as [|f]; [lia|]. destruct f as [|f']; [lia|].
  destruct fuel as [|fu]; [unfold de_fuel in Hfuel; lia|].
  destruct fu as [|fu]; [unfold de_fuel in Hfuel; lia|].
  destruct (de_any_gen Sc cfg e n depth Hpre (S (S fu)) false false rest pos ma Hfuel) as (d & Hde & Hdv).
  rewrite de_any_eq in Hde.
  destruct (tview_of ds Sc Rel Hds Hcl t i n HR Hn)
    as [Hl Hnn|id a h s Hp Hdf Hl Hnn|t' c0 c1 n1 Hp Hnn|t' c Hp Hnn|t' c Hp Hnn
        |id a h fs fields Hp Hdf Hnn|id a h syms Hp Hdf Hnn|id a h vs cs Hp Hdf Hnn];
    try (subst n; discriminate Hpn).
  - (* a primitive, a String, bytes *)
    subst n.
    pose proof (any_g_of_any_step Sc cfg (THint (leaf_hint (peel t))) (S fu) _ depth _ d _
                  (plainnode_leafnode _ Hpn) Hde) as Hg.
    exists d. split.
    + rewrite (dtarget_leaf ds (S f') t Hl). rewrite (de_leaf_hint_eq Sc cfg (S fu) _ depth Hl). exact Hg.
    + unfold RD. rewrite (DA_leaf ds t _ Hl). rewrite Hdv. apply leaf_dval_any; assumption.
  - (* a newtype struct over one *)
    subst n.
    rewrite (any_step_leaf_fuel Sc cfg (S fu) fu _ depth Hpn) in Hde.
    pose proof (any_g_of_any_step Sc cfg (THint (leaf_hint (peel (sl_type s)))) fu _ depth _ d _
                  (plainnode_leafnode _ Hpn) Hde) as Hg.
    exists (Target.DNewtype d). split.
    + rewrite (dtarget_newtype ds (S f') t id a h s Hp Hdf). rewrite (dtarget_leaf ds f' (sl_type s) Hl).
      rewrite de_newtype_eq. rewrite (de_leaf_hint_eq Sc cfg fu _ depth Hl).
      rewrite (sbind_ok _ _ _ _ _ Hg). reflexivity.
    + unfold RD. rewrite (DA_newtype ds t _ id a h s Hp Hdf). cbn [erase_borrow]. f_equal.
      rewrite Hdv. apply leaf_dval_any; assumption.
Qed.

Ltac views HR Hn :=
  destruct (tview_of ds Sc Rel Hds Hcl _ _ _ HR Hn)
    as [Hl Hnn|id a h s Hp Hdf Hl Hnn|t' c0 c1 n1 Hp Hnn Hc0 HR1 Hn1 Hbr|t' c Hp Hnn HR1|t' c Hp Hnn HR1
        |id a h fs fields Hp Hdf Hnn HF|id a h syms Hp Hdf Hnn|id a h vs cs Hp Hdf Hnn HF].

Definition simplenode (n : fnode) : bool :=
  match n with
  | FNull | FBoolean | FInt | FLong | FFloat | FDouble | FBytes | FString => true
  | _ => false
  end.
Lemma leaf_node_not n lt : leaf_type lt = true -> n = leaf_node lt -> simplenode n = true.
Proof. intros H ->. destruct lt; try discriminate H; try reflexivity. destruct p; reflexivity. Qed.

Lemma uenum_syms id h syms : nth_error ds id = Some (DUnitEnum h syms) -> NoDup (map fst syms).
Proof.
  intro H. apply (def_ok_at ds Hds) in H. cbn [def_ok] in H.
  apply andb_prop in H. destruct H as [_ H]. apply distinct_NoDup. exact H.
Qed.

Lemma case_fits_enum : forall i0, fits_ok (EEnum i0).
Proof.
  intros i0 t i n tf depth HR Hn Hadm Htf Hd fuel rest pos ma Hfuel.
  destruct tf as [|f]; [lia|].
  pose proof Hadm as (Hc & _ & _ & _ & Hf & _).
  views HR Hn; try (subst n; cbn [erase conforms] in Hc; discriminate Hc);
    try (pose proof (leaf_node_not _ _ Hl Hnn) as Hpn; destruct n; try discriminate Hpn;
         cbn [erase conforms] in Hc; discriminate Hc).
  subst n. cbn [erase conforms] in Hc. apply Nat.ltb_lt in Hc.
  cbn [counts_fit] in Hf. apply fits_longb_true in Hf.
  cbn [tcost] in Hd. destruct depth as [|d']; [lia|].
  unfold de_fuel in Hfuel. cbn [esize] in Hfuel.
  destruct fuel as [|fu]; [lia|]. destruct fu as [|fu']; [lia|].
  set (symbols := map fst syms) in *.
  destruct (nth_error symbols i0) as [s|] eqn:Hs; [|apply nth_error_None in Hs; lia].
  rewrite (dtarget_uenum ds f t id a h syms Hp Hdf), de_enum_enum_eq. cbn [dec_depth]. rewrite sbind_sret.
  rewrite de_ident_enum_eq. cbn [encode_e].
  rewrite sbind_assoc. rewrite (sbind_ok _ _ _ _ _ (read_usize_nat i0 rest pos ma Hf)).
  rewrite (nth_N_of_nat _ _ Hc), Hs. rewrite sbind_sret. cbv zeta. cbn [dval_bytes].
  assert (Hmf : map fst (map (fun s0 : bytes * bool => (fst s0, TVUnit)) syms) = symbols).
  { unfold symbols. rewrite map_map. reflexivity. }
  rewrite Hmf.
  rewrite (index_of_nodup symbols i0 s (uenum_syms id h syms Hdf) Hs).
  assert (Hv : nth_error (map (fun s0 : bytes * bool => (fst s0, TVUnit)) syms) i0 = Some (s, TVUnit)).
  { unfold symbols in Hs. rewrite nth_error_map in Hs. rewrite nth_error_map.
    destruct (nth_error syms i0) as [[s1 b1]|]; [|discriminate Hs]. cbn in Hs. inversion Hs; subst. reflexivity. }
  rewrite Hv.
  eexists. split; [reflexivity|].
  unfold RD. cbn [erase erase_borrow]. rewrite (DA_uenum ds t id a h syms i0 Hp Hdf).
  f_equal. unfold symbols in Hs. rewrite nth_error_map in Hs.
  destruct (nth_error syms i0) as [[s1 b1]|] eqn:E; [|discriminate Hs]. cbn in Hs. inversion Hs; subst.
  rewrite (nth_error_nth syms i0 ([], false) E). reflexivity.
Qed.

Lemma case_fits_duration : forall a b c, fits_ok (EDuration a b c).
Proof.
  intros a0 b0 c0' t i n tf depth HR Hn Hadm Htf Hd fuel rest pos ma Hfuel.
  pose proof Hadm as (Hc & _).
  views HR Hn; try (subst n; cbn [erase conforms] in Hc; discriminate Hc);
    try (pose proof (leaf_node_not _ _ Hl Hnn) as Hpn; destruct n; try discriminate Hpn;
         cbn [erase conforms] in Hc; discriminate Hc).
Qed.

Lemma case_fits_array : forall blocks,
  Forall (fun blk => Forall fits_ok (snd blk)) blocks -> fits_ok (EArray blocks).
Proof.
  intros blocks IH t i n tf depth HR Hn Hadm Htf Hd fuel rest pos ma Hfuel.
  destruct tf as [|f]; [lia|].
  pose proof Hadm as (Hc & _).
  views HR Hn; try (subst n; cbn [erase conforms] in Hc; discriminate Hc);
    try (pose proof (leaf_node_not _ _ Hl Hnn) as Hpn; destruct n; try discriminate Hpn;
         cbn [erase conforms] in Hc; discriminate Hc).
  subst n. rename c into k.
  destruct depth as [|d']; [cbn [tcost] in Hd; lia|].
  rewrite (dtarget_vec ds f t t' Hp).
  destruct (de_seq_array_g Sc cfg (dtarget_of f ds t') (RD t') k blocks d' false fuel rest pos ma Hadm)
    as (dl & Hde & HF2); [|exact Hfuel|].
  - intros blk it dp Hblk Hin Hdp Hpp.
    rewrite Forall_forall in IH. specialize (IH blk Hblk). rewrite Forall_forall in IH.
    apply (fits_item it t' k dp f d' (IH it Hin) HR1 Hpp); [lia|].
    apply (tcost_array_in blocks blk it d' Hblk Hin Hd).
  - exists (DSeq dl). split; [exact Hde|].
    unfold RD. cbn [erase erase_borrow]. rewrite (DA_vec ds t t' _ Hp). f_equal.
    rewrite flat_map_map_snd.
    rewrite (Forall2_map_eq (RD t') erase_borrow (fun e => DA ds t' (erase e)) _ _
               (fun a b H => H) HF2).
    rewrite map_map. reflexivity.
Qed.

Lemma case_fits_map : forall blocks,
  Forall (fun blk => Forall (fun kv => fits_ok (snd kv)) (snd blk)) blocks -> fits_ok (EMap blocks).
Proof.
  intros blocks IH t i n tf depth HR Hn Hadm Htf Hd fuel rest pos ma Hfuel.
  destruct tf as [|f]; [lia|].
  pose proof Hadm as (Hc & _).
  views HR Hn; try (subst n; cbn [erase conforms] in Hc; discriminate Hc);
    try (pose proof (leaf_node_not _ _ Hl Hnn) as Hpn; destruct n; try discriminate Hpn;
         cbn [erase conforms] in Hc; discriminate Hc).
  subst n. rename c into k.
  destruct depth as [|d']; [cbn [tcost] in Hd; lia|].
  rewrite (dtarget_map ds f t t' Hp).
  destruct (de_map_g Sc cfg (THint HString) (dtarget_of f ds t') Rkey_str (RD t') k blocks d' false fuel
              rest pos ma key_spec_string Hadm) as (kvs & Hde & HF2); [|exact Hfuel|].
  - intros blk kv dp Hblk Hin Hdp Hpp.
    rewrite Forall_forall in IH. specialize (IH blk Hblk). rewrite Forall_forall in IH.
    apply (fits_item (snd kv) t' k dp f d' (IH kv Hin) HR1 Hpp); [lia|].
    apply (tcost_map_in blocks blk kv d' Hblk Hin Hd).
  - exists (DMap kvs). split; [exact Hde|].
    unfold RD. cbn [erase erase_borrow]. rewrite (DA_map ds t t' _ Hp). f_equal.
    rewrite (flat_map_map_snd (fun kv : bytes * evalue => (fst kv, erase (snd kv)))).
    rewrite map_map. cbn [fst snd].
    apply (Forall2_map_eq (Rkv Rkey_str (RD t'))
             (fun kv : dval * dval => (erase_borrow (fst kv), erase_borrow (snd kv)))
             (fun kv : bytes * evalue => (DStr (fst kv), DA ds t' (erase (snd kv)))) _ _); [|exact HF2].
    intros a0 b0 [H1 H2]. unfold Rkey_str in H1. unfold RD in H2. rewrite H1, H2. reflexivity.
Qed.

(* records *)
Lemma nodup_map_inj {A B} (g : A -> B) : forall l x y,
  NoDup (map g l) -> In x l -> In y l -> g x = g y -> x = y.
Proof.
  induction l as [|a l IH]; intros x y Hnd Hx Hy E; [destruct Hx|].
  cbn [map] in Hnd. inversion Hnd as [|? ? Ha Hl]; subst.
  destruct Hx as [->|Hx]; destruct Hy as [->|Hy]; try reflexivity.
  - exfalso. apply Ha. rewrite E. apply in_map. exact Hy.
  - exfalso. apply Ha. rewrite <- E. apply in_map. exact Hx.
  - apply IH; assumption.
Qed.

Lemma struct_fields_ok id h fs : nth_error ds id = Some (Derive.DStruct h fs) -> NoDup (map f_name fs).
Proof.
  intro H. apply (def_ok_at ds Hds) in H. cbn [def_ok] in H.
  apply andb_prop in H. destruct H as [_ H]. apply distinct_NoDup. exact H.
Qed.

Lemma fields_names : forall fs fields, Forall2 (field_at Rel) fs fields -> map fst fields = map f_name fs.
Proof. induction 1 as [|fd fk fs fields [H1 _] _ IH]; [reflexivity|]. cbn [map]. rewrite H1, IH. reflexivity. Qed.

Lemma fields_in : forall fs fields nm k, Forall2 (field_at Rel) fs fields -> In (nm, k) fields ->
  exists fd, In fd fs /\ f_name fd = nm /\ Rel (ftype fd) k.
Proof.
  induction 1 as [|fd fk fs fields [H1 H2] _ IH]; intros Hin; [destruct Hin|].
  destruct Hin as [->|Hin].
  - exists fd. cbn [fst snd] in *. split; [left; reflexivity|]. split; [symmetry; exact H1|exact H2].
  - destruct (IH Hin) as (fd' & Ha & Hb & Hc). exists fd'. split; [right; exact Ha|]. split; assumption.
Qed.

Lemma struct_out_allN : forall (tfs : list (bytes * dtarget)) (fs0 fs : list field) fields es l,
  Forall2 (field_at Rel) fs0 fields ->
  (forall fd, In fd fs0 -> In fd fs) ->
  (forall nm k, In (nm, k) fields -> has_field nm tfs = true) ->
  struct_outN tfs (fun nm0 _ e d => forall fd, In fd fs -> f_name fd = nm0 -> RD (ftype fd) e d) fields es l ->
  map (fun kv : bytes * dval => (fst kv, erase_borrow (snd kv))) l = DA_fields ds fs0 (map erase es).
Proof.
  intros tfs fs0 fs fields es l HF. revert es l.
  induction HF as [|fd [nm k] fr fieldsr [H1 H2] _ IH]; intros es l Hsub Hhas H.
  - destruct es; cbn [struct_outN] in H; [subst l; reflexivity|destruct H].
  - destruct es as [|v vr]; cbn [struct_outN] in H; [destruct H|].
    rewrite (Hhas nm k (or_introl eq_refl)) in H. destruct H as (d & l' & -> & Hd & H).
    cbn [fst snd] in H1. cbn [map fst snd DA_fields].
    rewrite <- H1. f_equal.
    + f_equal. apply (Hd fd); [apply Hsub; left; reflexivity|symmetry; exact H1].
    + apply IH; [|intros nm' k' Hin; apply (Hhas nm' k'); right; exact Hin|exact H].
      intros fd' Hin. apply Hsub. right. exact Hin.
Qed.

Lemma case_fits_record : forall es, Forall fits_ok es -> fits_ok (ERecord es).
Proof.
  intros es IH t i n tf depth HR Hn Hadm Htf Hd fuel rest pos ma Hfuel.
  destruct tf as [|f]; [lia|].
  pose proof Hadm as (Hc & _).
  views HR Hn; try (subst n; cbn [erase conforms] in Hc; discriminate Hc);
    try (pose proof (leaf_node_not _ _ Hl Hnn) as Hpn; destruct n; try discriminate Hpn;
         cbn [erase conforms] in Hc; discriminate Hc).
  subst n. set (nm := name_of_fqn (Derive.type_name h)) in *.
  destruct depth as [|d']; [cbn [tcost] in Hd; lia|].
  pose proof (fields_names fs fields HF) as Hnames.
  pose proof (struct_fields_ok id h fs Hdf) as Hndf.
  assert (Hnd : NoDup (map fst fields)) by (rewrite Hnames; exact Hndf).
  rewrite (dtarget_struct ds f t id a h fs Hp Hdf).
  set (tfs := map (fun fd => (f_name fd, dtarget_of f ds (ftype fd))) fs).
  assert (Htn : map fst tfs = map f_name fs) by (unfold tfs; rewrite map_map; reflexivity).
  assert (Hnds : NoDup (map fst tfs)) by (rewrite Htn; exact Hndf).
  set (R := fun (nm0 : bytes) (_ : nat) (e : evalue) (d : dval) =>
              forall fd, In fd fs -> f_name fd = nm0 -> RD (ftype fd) e d).
  assert (Hspec : fields_P (field_specN Sc cfg tfs R d') fields es).
  { assert (Hfu : (de_fuel (ERecord es) <= S (de_fuel (ERecord es) - 1))%nat) by lia.
    destruct (DS3.record_pre Sc cfg _ _ _ _ _ Hadm Hfu) as (dp & f1 & M & Hdp & _ & _ & Hfl & _).
    revert Hfl. apply fields_P_impl_in. intros fnm k v Hink Hinv Hpp. unfold field_specN.
    destruct (fields_in fs fields fnm k HF Hink) as (fd & Hfd & Hfn & HRfd).
    assert (Hin : In (fnm, dtarget_of f ds (ftype fd)) tfs).
    { unfold tfs. apply in_map_iff. exists fd. split; [rewrite Hfn; reflexivity|exact Hfd]. }
    destruct (find_field_in tfs fnm _ Hnds Hin) as (j & Hj & _). rewrite Hj.
    rewrite Forall_forall in IH.
    assert (Hit : item_g Sc cfg (dtarget_of f ds (ftype fd)) (RD (ftype fd)) k d' v).
    { apply (fits_item v (ftype fd) k dp f d' (IH v Hinv) HRfd Hpp).
      - cbn [depth_cost] in Htf, Hdp. lia.
      - apply (tcost_record_in es v d' Hinv Hd). }
    destruct Hit as (n' & Hn' & Hg). exists n'. split; [exact Hn'|].
    intros fuel0 rest0 pos0 ma0 Hf0. destruct (Hg fuel0 rest0 pos0 ma0 Hf0) as (d & Hde & HRd).
    exists d. split; [exact Hde|].
    intros fd' Hin' Hnm'.
    assert (fd' = fd) by (apply (nodup_map_inj f_name fs fd' fd Hndf Hin' Hfd); congruence).
    subst fd'. exact HRd. }
  destruct (de_struct_record_coreN Sc cfg tfs R nm fields es (h_ident h) d' false fuel rest pos ma
              Hadm Hnd Hspec Hfuel) as (l & Hde & Hout).
  rewrite (nothing_missing tfs fields Hnds) in Hde by (rewrite Htn, Hnames; apply incl_refl).
  rewrite app_nil_r in Hde.
  exists (Target.DStruct l). split; [exact Hde|].
  unfold RD. cbn [erase erase_borrow]. rewrite (DA_struct ds t id a h fs _ Hp Hdf). f_equal.
  apply (struct_out_allN tfs fs fs fields es l HF (fun fd H => H)); [|exact Hout].
  intros fnm k Hink. unfold has_field. apply existsb_exists.
  destruct (fields_in fs fields fnm k HF Hink) as (fd & Hfd & Hfn & _).
  exists (fnm, dtarget_of f ds (ftype fd)). split.
  - unfold tfs. apply in_map_iff. exists fd. split; [rewrite Hfn; reflexivity|exact Hfd].
  - apply bytes_eqb_refl.
Qed.

(* unions: Option and enums-as-unions *)
Lemma variants_nth : forall vs cs i k, Forall2 (variant_at Sc Rel) vs cs -> nth_error cs i = Some k ->
  exists vv, nth_error vs i = Some vv /\ variant_at Sc Rel vv k.
Proof.
  intros vs cs i k HF. revert i.
  induction HF as [|v c vs cs Hv _ IH]; intros i Hk; [destruct i; discriminate Hk|].
  destruct i as [|i']; cbn [nth_error] in *.
  - inversion Hk; subst. exists v. split; [reflexivity|exact Hv].
  - apply IH. exact Hk.
Qed.

Lemma union_variants_ok id h vs : nth_error ds id = Some (DUnionEnum h vs) ->
  NoDup (map variant_name vs) /\
  forall ident s, In (VNewtype ident s) vs ->
    branch_ok ds (sl_type s) = true /\ tname TNFUEL ds (sl_type s) = Some ident.
Proof.
  intro H. apply (def_ok_at ds Hds) in H. cbn [def_ok] in H.
  apply andb_prop in H. destruct H as [H Hd]. apply andb_prop in H. destruct H as [_ Hall].
  split; [apply distinct_NoDup; exact Hd|].
  intros ident s Hin. rewrite forallb_forall in Hall. specialize (Hall _ Hin). cbn beta iota in Hall.
  apply andb_prop in Hall. destruct Hall as [Hall Hnm]. apply andb_prop in Hall. destruct Hall as [_ Hb].
  split; [exact Hb|].
  destruct (tname TNFUEL ds (sl_type s)) as [nm|]; [|discriminate Hnm].
  apply bytes_eqb_eq in Hnm. subst nm. reflexivity.
Qed.

Lemma vtarget_names f vs : map fst (map (vtarget ds f) vs) = map variant_name vs.
Proof. rewrite map_map. apply map_ext. intros [|ident s]; reflexivity. Qed.

Lemma case_fits_union : forall i0 v, fits_ok v -> fits_ok (EUnion i0 v).
Proof.
  intros i0 v IH t i n tf depth HR Hn Hadm Htf Hd fuel rest pos ma Hfuel.
  destruct tf as [|f]; [lia|].
  pose proof Hadm as (Hc & _).
  views HR Hn; try (subst n; cbn [erase conforms] in Hc; discriminate Hc);
    try (pose proof (leaf_node_not _ _ Hl Hnn) as Hpn; destruct n; try discriminate Hpn;
         cbn [erase conforms] in Hc; discriminate Hc).
  - (* Option *)
    subst n.
    destruct fuel as [|fu]; [unfold de_fuel in Hfuel; lia|].
    destruct (DS3.union_pre Sc cfg _ _ _ _ _ Hadm Hfuel)
      as (k & n' & dp & Hk & Hnk & Hdp & Hfi & Hi & Hpre' & Hfu & Henc).
    cbn [tcost] in Hd. destruct depth as [|d']; [lia|]. inversion Hdp; subst dp.
    cbn [depth_cost] in Htf.
    rewrite Henc, <- app_assoc.
    rewrite (dtarget_option ds f t t' Hp).
    rewrite (de_option_union_branch Sc cfg fu [c0; c1] (S d') (dtarget_of f ds t') i0 k n' _ pos ma Hfi Hi Hk Hnk).
    destruct i0 as [|[|i1]]; cbn [nth_error] in Hk; [| |destruct i1; discriminate Hk].
    + inversion Hk; subst k. rewrite Hc0 in Hnk. inversion Hnk; subst n'. cbn [is_fnull].
      destruct Hpre' as (Hc' & _).
      assert (Hv : encode_e Sc FNull v = []).
      { destruct v; cbn [erase conforms] in Hc'; try discriminate Hc'. reflexivity. }
      rewrite Hv. cbn [app]. exists DNone. split.
      * unfold sret; f_equal; try (f_equal; rewrite app_length; cbn [length]; lia).
      * unfold RD. cbn [erase erase_borrow]. rewrite (DA_option_none ds t t' _ Hp). reflexivity.
    + inversion Hk; subst k. rewrite Hn1 in Hnk. inversion Hnk; subst n'.
      destruct (branch_node ds Sc Rel Hcl t' c1 n1 HR1 Hn1 Hbr) as [Hnn1 Hnu].
      assert (Hnf : is_fnull n1 = false) by (destruct n1; try reflexivity; congruence).
      rewrite Hnf.
      assert (Hoth : other_is_null Sc [c0; c1] (N.of_nat 1) = true).
      { unfold other_is_null. rewrite Nat2N.id. cbn [length Nat.eqb Nat.sub nth_error andb]. rewrite Hc0. reflexivity. }
      rewrite Hoth. cbn [negb dec_depth]. rewrite sbind_sret.
      assert (HP : node_g Sc cfg (dtarget_of f ds t') (RD t') n1 d' v).
      { apply (IH t' c1 n1 f d' HR1 Hn1); [eapply pre_adm; exact Hpre'|lia|lia]. }
      destruct (HP fu rest (pos + N.of_nat (length (spec_long (Z.of_nat 1)))) ma ltac:(lia))
        as (d & Hde & HRd).
      rewrite (sbind_ok _ _ _ _ _ Hde). exists (DSome d). split.
      * unfold sret; f_equal; try (f_equal; rewrite app_length; cbn [length]; lia).
      * unfold RD. cbn [erase erase_borrow]. rewrite (DA_option_some ds t t' _ Hp). f_equal. exact HRd.
  - (* enum as union *)
    subst n.
    destruct fuel as [|fu]; [unfold de_fuel in Hfuel; lia|].
    destruct (DS3.union_pre Sc cfg _ _ _ _ _ Hadm Hfuel)
      as (k & n' & dp & Hk & Hnk & Hdp & Hfi & Hi & Hpre' & Hfu & Henc).
    cbn [tcost] in Hd. destruct depth as [|d']; [lia|]. inversion Hdp; subst dp.
    cbn [depth_cost] in Htf.
    rewrite Henc, <- app_assoc.
    rewrite (dtarget_union ds f t id a h vs Hp Hdf). rewrite de_enum_union_eq.
    rewrite (sbind_ok _ _ _ _ _ (read_usize_nat i0 _ pos ma Hfi)).
    rewrite (nth_N_of_nat _ _ Hi), Hk.
    cbn [dec_depth]. rewrite sbind_sret. unfold node_at. rewrite Hnk, sbind_sret.
    destruct fu as [|fu']; [lia|].
    rewrite enum_payload_S. unfold enum_payload_step.
    rewrite vtarget_names.
    destruct (variants_nth vs cs i0 k HF Hk) as (vv & Hvv & Hvat).
    destruct (union_variants_ok id h vs Hdf) as [Hndv Hvok].
    assert (Hnm : nth_error (map variant_name vs) i0 = Some (De.type_name n')).
    { rewrite (map_nth_error variant_name i0 vs Hvv). f_equal.
      destruct vv as [|ident s]; cbn [variant_at variant_name] in *.
      - rewrite Hvat in Hnk. inversion Hnk; subst n'. reflexivity.
      - destruct (Hvok ident s (nth_error_In _ _ Hvv)) as [_ Htn].
        symmetry. exact (tname_sound ds Sc Rel Hcl _ _ _ _ _ Hvat Hnk Htn). }
    rewrite (index_of_nodup _ i0 _ Hndv Hnm).
    rewrite (map_nth_error (vtarget ds f) i0 vs Hvv).
    unfold RD. cbn [erase]. rewrite (DA_union ds t id a h vs i0 _ Hp Hdf), Hvv.
    destruct vv as [|ident s]; cbn [vtarget variant_at] in *.
    + assert (Hpre2 : pre Sc cfg n' d' v).
      { apply adm_pre; [eapply pre_adm; exact Hpre'|]. pose proof (depth_cost_le_tcost v). lia. }
      pose proof (de_ignored_gen Sc cfg v n' d' Hpre2 fu' false false rest
                    (pos + N.of_nat (length (spec_long (Z.of_nat i0)))) ma ltac:(lia)) as Hig.
      unfold ign_post in Hig. rewrite (sbind_ok _ _ _ _ _ Hig).
      exists (DEnum NULLV DUnit). split; [|reflexivity].
      unfold sret; f_equal; try (f_equal; rewrite app_length; cbn [length]; lia).
    + assert (HP : node_g Sc cfg (dtarget_of f ds (sl_type s)) (RD (sl_type s)) n' d' v).
      { apply (IH (sl_type s) k n' f d' Hvat Hnk); [eapply pre_adm; exact Hpre'|lia|lia]. }
      destruct (HP fu' rest (pos + N.of_nat (length (spec_long (Z.of_nat i0)))) ma ltac:(lia))
        as (d & Hde & HRd).
      rewrite (sbind_ok _ _ _ _ _ Hde). exists (DEnum ident d). split.
      * unfold sret; f_equal; try (f_equal; rewrite app_length; cbn [length]; lia).
      * cbn [erase_borrow]. f_equal. exact HRd.
Qed.

Theorem fits_gen : forall e, fits_ok e.
Proof.
  induction e using evalue_ind'; try (apply case_fits_plain; reflexivity).
  - apply case_fits_array; assumption.
  - apply case_fits_map; assumption.
  - apply case_fits_union; assumption.
  - apply case_fits_record; assumption.
  - apply case_fits_enum.
  - apply case_fits_duration.
Qed.

End Fits.
