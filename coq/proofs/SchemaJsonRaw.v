(** Equations for [raw_of_json] (first stage of parsing, model/Parse.v) on every shape of JSON
    value that the schema writer [to_json] (model/SchemaJson.v) emits:
    decimal numbers ([dec_digits_unsigned]), logical types ([logical_of_roundtrip]),
    references ([raw_ref], [str_for_ref_not_type]), primitives ([raw_prim]), the generic object
    equation ([raw_obj]) and its instances [raw_array], [raw_map], [raw_union], [raw_enum],
    [raw_fixed], [raw_record]. All lemmas are closed under the global context. *)
From Coq Require Import NArith ZArith List Lia Bool Arith String ZifyN ZifyBool ZifyNat Relations.
Import ListNotations.
Require Import Base Schema Text Json Parse SchemaJson CanonicalForm Rabin.
Require Import PcfSpec SchemaTextProofs.
Open Scope N_scope.
Notation length := List.length (only parsing).

Arguments N.eqb : simpl never.
Arguments N.leb : simpl never.
Arguments N.ltb : simpl never.
Arguments N.add : simpl never.
Require Import SchemaJsonDefs.

Lemma digits_to_N_app : forall a b acc, digits_to_N (a ++ b) acc = digits_to_N b (digits_to_N a acc).
Proof. induction a as [|x a IH]; intros b acc; cbn [app digits_to_N]; [reflexivity|apply IH]. Qed.

Lemma ddf_spec : forall fuel n acc, n < 2 ^ N.of_nat (S fuel) ->
  exists ds, dec_digits_fuel (S fuel) n acc = ds ++ acc /\ ds <> [] /\
    forallb is_digit_b ds = true /\
    (forall a, digits_to_N ds a = a * 10 ^ N.of_nat (length ds) + n) /\
    (forall k, (1 <= k)%nat -> n < 10 ^ N.of_nat k -> (length ds <= k)%nat).
Proof.
  induction fuel as [|f IH]; intros n acc Hn.
  - assert (Hlt : n < 10) by (change (2 ^ N.of_nat 1) with 2 in Hn; lia).
    cbn [dec_digits_fuel]. apply N.ltb_lt in Hlt. rewrite Hlt. apply N.ltb_lt in Hlt.
    exists [48 + n mod 10]. split; [reflexivity|]. split; [discriminate|].
    rewrite N.mod_small by exact Hlt.
    split; [cbn [forallb]; unfold is_digit_b; lia|].
    split.
    + intro a. cbn [digits_to_N List.length]. change (10 ^ N.of_nat 1) with 10. lia.
    + intros k Hk _. cbn [List.length]. exact Hk.
  - remember (S f) as f1 eqn:Ef. cbn [dec_digits_fuel].
    destruct (n <? 10) eqn:Hlt.
    + apply N.ltb_lt in Hlt.
      exists [48 + n mod 10]. split; [reflexivity|]. split; [discriminate|].
      rewrite N.mod_small by exact Hlt.
      split; [cbn [forallb]; unfold is_digit_b; lia|].
      split.
      * intro a. cbn [digits_to_N List.length]. change (10 ^ N.of_nat 1) with 10. lia.
      * intros k Hk _. cbn [List.length]. exact Hk.
    + apply N.ltb_ge in Hlt.
      assert (Hd : n / 10 < 2 ^ N.of_nat f1).
      { rewrite Nat2N.inj_succ, N.pow_succ_r' in Hn.
        apply N.div_lt_upper_bound; lia. }
      subst f1.
      destruct (IH (n / 10) ((48 + n mod 10) :: acc) Hd) as [ds [E [Hne [Hdig [Hval Hlen]]]]].
      exists (ds ++ [48 + n mod 10]). rewrite E, <- app_assoc. split; [reflexivity|].
      split; [destruct ds; discriminate|].
      split.
      { rewrite forallb_app, Hdig. cbn [forallb]. unfold is_digit_b.
        pose proof (N.mod_upper_bound n 10). lia. }
      split.
      * intro a. rewrite digits_to_N_app, Hval. cbn [digits_to_N].
        rewrite app_length. cbn [List.length].
        replace (length ds + 1)%nat with (S (length ds)) by lia.
        rewrite Nat2N.inj_succ, N.pow_succ_r'.
        pose proof (N.div_mod n 10). nia.
      * intros k Hk Hnk. rewrite app_length. cbn [List.length].
        destruct k as [|k]; [lia|].
        destruct k as [|k]; [change (10 ^ N.of_nat 1) with 10 in Hnk; lia|].
        assert ((length ds <= S k)%nat); [|lia].
        apply Hlen; [lia|].
        rewrite Nat2N.inj_succ, N.pow_succ_r' in Hnk.
        apply N.div_lt_upper_bound; lia.
Qed.

Lemma dec_digits_unsigned : forall n max, n <= max -> max <= U64MAX ->
  num_as_unsigned (dec_digits n) max = Some n.
Proof.
  intros n max Hn Hm. unfold dec_digits.
  assert (Hlt : n < 2 ^ N.of_nat (S (N.to_nat (N.log2 n)))).
  { rewrite Nat2N.inj_succ, N2Nat.id.
    destruct n as [|p]; [reflexivity|]. apply N.log2_spec. lia. }
  destruct (ddf_spec _ n [] Hlt) as [ds [E [Hne [Hdig [Hval Hlen]]]]].
  rewrite E, app_nil_r. unfold num_as_unsigned.
  destruct ds as [|d ds]; [congruence|].
  rewrite Hdig. 
  assert (Hl : (length (d :: ds) <= 20)%nat).
  { apply Hlen; [lia|]. unfold U64MAX in Hm. change (10 ^ N.of_nat 20) with 100000000000000000000. lia. }
  apply Nat.leb_le in Hl. rewrite Hl. cbn [andb].
  rewrite Hval. rewrite N.mul_0_l, N.add_0_l.
  apply N.leb_le in Hn. rewrite Hn. reflexivity.
Qed.

Definition lname (lt : option logical) : option bytes := option_map logical_name lt.
Definition lprec (lt : option logical) : option N := match lt with Some (LDecimal _ p) => Some p | _ => None end.
Definition lscale (lt : option logical) : option N := match lt with Some (LDecimal s _) => Some s | _ => None end.
Definition field_json (fname : bytes) (j : json) : json := JObj [(lit "name", JStr fname); (lit "type", j)].

Lemma logical_of_roundtrip : forall lt, lt_valid lt -> logical_of (lname lt) (lprec lt) (lscale lt) = Ok lt.
Proof.
  intros [l|] H; [|reflexivity].
  destruct l; try reflexivity. exact H.
Qed.

Lemma raw_ref : forall s, rtype_of_name s = None -> raw_of_json (JStr s) = Ok (RwRef s).
Proof. intros s H. rewrite raw_of_json_eq, H. reflexivity. Qed.

Lemma rtype_of_name_nodot : forall s t, rtype_of_name s = Some t -> has_dot s = false.
Proof.
  intros s t. unfold rtype_of_name.
  repeat (match goal with |- context [bytes_eqb s ?l] =>
    let E := fresh "E" in destruct (bytes_eqb s l) eqn:E;
    [apply bytes_eqb_eq in E; subst s; intros _; vm_compute; reflexivity|] end).
  discriminate.
Qed.

Lemma has_dot_app : forall a b, has_dot (a ++ b) = has_dot a || has_dot b.
Proof. intros. unfold has_dot. apply existsb_app. Qed.

Lemma str_for_ref_not_type : forall parent ns simple, ns_ok ns -> has_dot simple = false ->
  rtype_of_name simple = None ->
  rtype_of_name (str_for_ref parent (name_of_key (ns, simple))) = None.
Proof.
  intros parent ns simple Hns Hd Ht. unfold str_for_ref.
  rewrite name_of_key_namespace, name_of_key_short. cbn [fst snd].
  destruct (opt_eqb parent ns); [exact Ht|].
  destruct ns as [n|]; unfold name_of_key; cbn [fst snd nm_full].
  - destruct (rtype_of_name (n ++ [DOT] ++ simple)) eqn:E; [|reflexivity].
    apply rtype_of_name_nodot in E. rewrite !has_dot_app in E.
    change (has_dot [DOT]) with true in E. rewrite orb_true_r in E. discriminate.
  - destruct (rtype_of_name ([DOT] ++ simple)) eqn:E; [|reflexivity].
    apply rtype_of_name_nodot in E. rewrite !has_dot_app in E.
    change (has_dot [DOT]) with true in E. discriminate.
Qed.

(** keys absent from a prefix *)
Definition nokey (k : bytes) (pre : list (bytes * json)) : bool :=
  forallb (fun kv => negb (bytes_eqb (fst kv) k)) pre.

Lemma lookup_all_nokey : forall k pre, nokey k pre = true -> lookup_all k pre = [].
Proof.
  intros k pre. unfold nokey, lookup_all. induction pre as [|[k' v] pre IH]; cbn [forallb filter map fst]; [reflexivity|].
  intro H. apply andb_prop in H. destruct H as [H1 H2]. apply negb_true_iff in H1. rewrite H1. apply IH, H2.
Qed.

Lemma lookup_all_nokey_app : forall k pre extra, nokey k pre = true ->
  lookup_all k (pre ++ extra) = lookup_all k extra.
Proof. intros. rewrite lookup_all_app, lookup_all_nokey by assumption. reflexivity. Qed.

Lemma known_nokey_app : forall A k pre extra (conv : json -> result A), nokey (lit k) pre = true ->
  known k (pre ++ extra) conv = known k extra conv.
Proof. intros. unfold known. rewrite lookup_all_nokey_app by assumption. reflexivity. Qed.

Lemma find_node_g_nokey_app : forall F k pre extra found, nokey k pre = true ->
  find_node_g F k (pre ++ extra) found = find_node_g F k extra found.
Proof.
  intros F k pre extra found. unfold nokey.
  induction pre as [|[k' v] pre IH]; cbn [forallb app fst]; [reflexivity|].
  intro H. apply andb_prop in H. destruct H as [H1 H2]. apply negb_true_iff in H1.
  cbn [find_node_g]. rewrite H1. apply IH, H2.
Qed.

Lemma fields_g_nokey_app : forall F pre extra found, nokey (lit "fields") pre = true ->
  fields_g F (pre ++ extra) found = fields_g F extra found.
Proof.
  intros F pre extra found. unfold nokey.
  induction pre as [|[k' v] pre IH]; cbn [forallb app fst]; [reflexivity|].
  intro H. apply andb_prop in H. destruct H as [H1 H2]. apply negb_true_iff in H1.
  cbn [fields_g]. rewrite H1. apply IH, H2.
Qed.

(** the members type_and_logical contributes *)
Lemma tal_type : forall ty lt, lookup_all (lit "type") (type_and_logical ty lt) = [JStr (lit ty)].
Proof. intros ty [[]|]; reflexivity. Qed.
Lemma tal_logical : forall ty lt, lookup_all (lit "logicalType") (type_and_logical ty lt) =
  match lt with Some l => [JStr (logical_name l)] | None => [] end.
Proof. intros ty [[]|]; reflexivity. Qed.
Lemma tal_precision : forall ty lt, lookup_all (lit "precision") (type_and_logical ty lt) =
  match lprec lt with Some p => [jnum p] | None => [] end.
Proof. intros ty [[]|]; reflexivity. Qed.
Lemma tal_scale : forall ty lt, lookup_all (lit "scale") (type_and_logical ty lt) =
  match lscale lt with Some p => [jnum p] | None => [] end.
Proof. intros ty [[]|]; reflexivity. Qed.

Lemma tal_nokey : forall ty lt,
  nokey (lit "name") (type_and_logical ty lt) = true /\
  nokey (lit "namespace") (type_and_logical ty lt) = true /\
  nokey (lit "fields") (type_and_logical ty lt) = true /\
  nokey (lit "symbols") (type_and_logical ty lt) = true /\
  nokey (lit "items") (type_and_logical ty lt) = true /\
  nokey (lit "values") (type_and_logical ty lt) = true /\
  nokey (lit "size") (type_and_logical ty lt) = true.
Proof. intros ty [[]|]; repeat split; reflexivity. Qed.

Lemma as_unsigned_jnum : forall n max, n <= max -> max <= U64MAX -> as_unsigned max (jnum n) = Ok n.
Proof. intros. unfold jnum. cbn [as_unsigned]. rewrite dec_digits_unsigned by assumption. reflexivity. Qed.

Lemma raw_obj : forall ty t lt extra, rtype_of_name (lit ty) = Some t -> lt_valid lt ->
  lookup_all (lit "type") extra = [] -> lookup_all (lit "logicalType") extra = [] ->
  lookup_all (lit "scale") extra = [] -> lookup_all (lit "precision") extra = [] ->
  raw_of_json (JObj (type_and_logical ty lt ++ extra)) =
    (let* name := known "name" extra as_str in
     let* namespace := known "namespace" extra as_str in
     let* fields := fields_g raw_of_json extra None in
     let* symbols := match lookup_all (lit "symbols") extra with
                     | [] => Ok None | [JNull] => Ok None
                     | [JArr sl] => rmap Some (rmap_list as_str sl) | _ => Err EData end in
     let* items := find_node_g raw_of_json (lit "items") extra None in
     let* values := find_node_g raw_of_json (lit "values") extra None in
     let* size := known "size" extra (as_unsigned U64MAX) in
     Ok (RwObject t (lname lt) name namespace fields symbols items values size (lprec lt) (lscale lt))).
Proof.
  intros ty t lt extra Ht Hlt H1 H2 H3 H4.
  destruct (tal_nokey ty lt) as [N1 [N2 [N3 [N4 [N5 [N6 N7]]]]]].
  rewrite raw_of_json_eq. unfold obj_body.
  rewrite (known_nokey_app _ "name"), (known_nokey_app _ "namespace"), (known_nokey_app _ "size") by assumption.
  rewrite fields_g_nokey_app by assumption.
  rewrite (find_node_g_nokey_app _ (lit "items")), (find_node_g_nokey_app _ (lit "values")) by assumption.
  rewrite (lookup_all_nokey_app (lit "symbols")) by assumption.
  assert (E1 : lookup_all (lit "type") (type_and_logical ty lt ++ extra) = [JStr (lit ty)]).
  { rewrite lookup_all_app, tal_type, H1. reflexivity. }
  assert (E2 : known "logicalType" (type_and_logical ty lt ++ extra) as_str = Ok (lname lt)).
  { unfold known. rewrite lookup_all_app, tal_logical, H2, app_nil_r. destruct lt; reflexivity. }
  assert (E3 : known "precision" (type_and_logical ty lt ++ extra) (as_unsigned U64MAX) = Ok (lprec lt)).
  { unfold known. rewrite lookup_all_app, tal_precision, H4, app_nil_r.
    destruct lt as [[]|]; try reflexivity. cbn [lprec]. unfold jnum at 1.
    rewrite as_unsigned_jnum; [reflexivity| |lia]. apply Hlt. }
  assert (E4 : known "scale" (type_and_logical ty lt ++ extra) (as_unsigned U32MAX) = Ok (lscale lt)).
  { unfold known. rewrite lookup_all_app, tal_scale, H3, app_nil_r.
    destruct lt as [[]|]; try reflexivity. cbn [lscale]. unfold jnum at 1.
    rewrite as_unsigned_jnum; [reflexivity|apply Hlt|unfold U32MAX, U64MAX; lia]. }
  rewrite E1, E2, E3, E4, Ht. reflexivity.
Qed.

Lemma raw_prim : forall ty t lt, rtype_of_name (lit ty) = Some t -> lt_valid lt ->
  raw_of_json (prim_json ty lt) =
  Ok (match lt with None => RwType t
      | Some _ => RwObject t (lname lt) None None None None None None None (lprec lt) (lscale lt) end).
Proof.
  intros ty t lt Ht Hlt. destruct lt as [l|].
  - unfold prim_json. rewrite <- (app_nil_r (type_and_logical ty (Some l))).
    rewrite (raw_obj ty t (Some l) [] Ht Hlt); reflexivity.
  - unfold prim_json. rewrite raw_of_json_eq, Ht. reflexivity.
Qed.

Lemma raw_of_json_ok_not_null : forall j r, raw_of_json j = Ok r -> j <> JNull.
Proof. intros j r H E. subst j. discriminate H. Qed.

Lemma find_node_g_one : forall F k j r, F j = Ok r -> j <> JNull ->
  find_node_g F k [(k, j)] None = Ok (Some r).
Proof.
  intros F k j r H Hn. cbn [find_node_g]. rewrite bytes_eqb_refl.
  destruct j; try congruence; rewrite H; reflexivity.
Qed.

Lemma raw_array : forall lt j r, lt_valid lt -> raw_of_json j = Ok r ->
  raw_of_json (JObj (type_and_logical "array" lt ++ [(lit "items", j)])) =
  Ok (RwObject TyArray (lname lt) None None None None (Some r) None None (lprec lt) (lscale lt)).
Proof.
  intros lt j r Hlt Hj.
  rewrite (raw_obj "array" TyArray lt [(lit "items", j)] eq_refl Hlt); try reflexivity.
  rewrite (find_node_g_one raw_of_json (lit "items") j r Hj (raw_of_json_ok_not_null j r Hj)).
  reflexivity.
Qed.

Lemma raw_map : forall lt j r, lt_valid lt -> raw_of_json j = Ok r ->
  raw_of_json (JObj (type_and_logical "map" lt ++ [(lit "values", j)])) =
  Ok (RwObject TyMap (lname lt) None None None None None (Some r) None (lprec lt) (lscale lt)).
Proof.
  intros lt j r Hlt Hj.
  rewrite (raw_obj "map" TyMap lt [(lit "values", j)] eq_refl Hlt); try reflexivity.
  rewrite (find_node_g_one raw_of_json (lit "values") j r Hj (raw_of_json_ok_not_null j r Hj)).
  reflexivity.
Qed.

Lemma raw_union : forall js rs, Forall2 (fun j r => raw_of_json j = Ok r) js rs ->
  raw_of_json (JArr js) = Ok (RwUnion rs).
Proof.
  intros js rs H. rewrite raw_of_json_eq.
  assert (E : arr_go raw_of_json js = Ok rs).
  { induction H as [|j r js rs Hj _ IH]; [reflexivity|].
    cbn [arr_go]. rewrite Hj. cbn [rbind]. fold (arr_go raw_of_json). rewrite IH. reflexivity. }
  rewrite E. reflexivity.
Qed.

(** the members name_entries contributes *)
Lemma name_entries_nokey : forall parent nm k,
  bytes_eqb (lit "name") k = false -> bytes_eqb (lit "namespace") k = false ->
  nokey k (name_entries parent nm) = true.
Proof.
  intros parent nm k H1 H2. unfold name_entries, nokey.
  destruct (opt_eqb parent (name_namespace nm)); [|destruct (name_namespace nm)];
    cbn [forallb fst]; rewrite ?H1, ?H2; reflexivity.
Qed.

Lemma rmap_list_as_str : forall l, rmap_list as_str (map JStr l) = Ok l.
Proof. induction l as [|x l IH]; cbn [map rmap_list as_str rbind]; [reflexivity|]. rewrite IH. reflexivity. Qed.

(* the common part of enum / fixed / record: the object is
   type_and_logical ++ name_entries ++ [(k, v)] with k one of "symbols", "size", "fields" *)
Lemma raw_named : forall ty t lt parent ns simple k v,
  rtype_of_name (lit ty) = Some t -> lt_valid lt -> ns_ok ns -> has_dot simple = false ->
  nokey (lit "type") [(lit k, v)] = true -> nokey (lit "logicalType") [(lit k, v)] = true ->
  nokey (lit "scale") [(lit k, v)] = true -> nokey (lit "precision") [(lit k, v)] = true ->
  nokey (lit "name") [(lit k, v)] = true -> nokey (lit "namespace") [(lit k, v)] = true ->
  exists nme nsp, key_of_def parent nme nsp = (ns, simple) /\
    raw_of_json (JObj (type_and_logical ty lt ++ name_entries parent (name_of_key (ns, simple)) ++ [(lit k, v)])) =
    (let* fields := fields_g raw_of_json [(lit k, v)] None in
     let* symbols := match lookup_all (lit "symbols") [(lit k, v)] with
                     | [] => Ok None | [JNull] => Ok None
                     | [JArr sl] => rmap Some (rmap_list as_str sl) | _ => Err EData end in
     let* items := find_node_g raw_of_json (lit "items") [(lit k, v)] None in
     let* values := find_node_g raw_of_json (lit "values") [(lit k, v)] None in
     let* size := known "size" [(lit k, v)] (as_unsigned U64MAX) in
     Ok (RwObject t (lname lt) (Some nme) nsp fields symbols items values size (lprec lt) (lscale lt))).
Proof.
  intros ty t lt parent ns simple k v Ht Hlt Hns Hd K1 K2 K3 K4 K5 K6.
  set (nm := name_of_key (ns, simple)).
  destruct (def_roundtrip_known parent ns simple [] [(lit k, v)] Hns Hd eq_refl
              (lookup_all_nokey _ _ K5) eq_refl (lookup_all_nokey _ _ K6))
    as [nme [nsp [E1 [E2 E3]]]].
  cbn [app] in E1, E2. fold nm in E1, E2.
  exists nme, nsp. split; [exact E3|].
  rewrite (raw_obj ty t lt _ Ht Hlt).
  - rewrite E1, E2. cbn [rbind].
    rewrite fields_g_nokey_app by (apply name_entries_nokey; reflexivity).
    rewrite (lookup_all_nokey_app (lit "symbols")) by (apply name_entries_nokey; reflexivity).
    rewrite (find_node_g_nokey_app _ (lit "items")) by (apply name_entries_nokey; reflexivity).
    rewrite (find_node_g_nokey_app _ (lit "values")) by (apply name_entries_nokey; reflexivity).
    rewrite (known_nokey_app _ "size") by (apply name_entries_nokey; reflexivity).
    reflexivity.
  - rewrite lookup_all_nokey_app by (apply name_entries_nokey; reflexivity). apply lookup_all_nokey, K1.
  - rewrite lookup_all_nokey_app by (apply name_entries_nokey; reflexivity). apply lookup_all_nokey, K2.
  - rewrite lookup_all_nokey_app by (apply name_entries_nokey; reflexivity). apply lookup_all_nokey, K3.
  - rewrite lookup_all_nokey_app by (apply name_entries_nokey; reflexivity). apply lookup_all_nokey, K4.
Qed.

Lemma raw_enum : forall lt parent ns simple symbols, lt_valid lt -> ns_ok ns -> has_dot simple = false ->
  exists nme nsp, key_of_def parent nme nsp = (ns, simple) /\
  raw_of_json (JObj (type_and_logical "enum" lt ++ name_entries parent (name_of_key (ns, simple)) ++
                     [(lit "symbols", JArr (map JStr symbols))])) =
  Ok (RwObject TyEnum (lname lt) (Some nme) nsp None (Some symbols) None None None (lprec lt) (lscale lt)).
Proof.
  intros lt parent ns simple symbols Hlt Hns Hd.
  destruct (raw_named "enum" TyEnum lt parent ns simple "symbols" (JArr (map JStr symbols))
              eq_refl Hlt Hns Hd eq_refl eq_refl eq_refl eq_refl eq_refl eq_refl) as [nme [nsp [E1 E2]]].
  exists nme, nsp. split; [exact E1|]. rewrite E2.
  change (lookup_all (lit "symbols") [(lit "symbols", JArr (map JStr symbols))]) with [JArr (map JStr symbols)].
  cbv beta iota. rewrite rmap_list_as_str. reflexivity.
Qed.

Lemma raw_fixed : forall lt parent ns simple size, lt_valid lt -> ns_ok ns -> has_dot simple = false -> size <= U64MAX ->
  exists nme nsp, key_of_def parent nme nsp = (ns, simple) /\
  raw_of_json (JObj (type_and_logical "fixed" lt ++ name_entries parent (name_of_key (ns, simple)) ++
                     [(lit "size", jnum size)])) =
  Ok (RwObject TyFixed (lname lt) (Some nme) nsp None None None None (Some size) (lprec lt) (lscale lt)).
Proof.
  intros lt parent ns simple size Hlt Hns Hd Hsz.
  destruct (raw_named "fixed" TyFixed lt parent ns simple "size" (jnum size)
              eq_refl Hlt Hns Hd eq_refl eq_refl eq_refl eq_refl eq_refl eq_refl) as [nme [nsp [E1 E2]]].
  exists nme, nsp. split; [exact E1|]. rewrite E2.
  assert (E : known "size" [(lit "size", jnum size)] (as_unsigned U64MAX) = Ok (Some size)).
  { unfold known. change (lookup_all (lit "size") [(lit "size", jnum size)]) with [jnum size].
    unfold jnum. cbv beta iota. fold (jnum size). rewrite as_unsigned_jnum by lia. reflexivity. }
  rewrite E. reflexivity.
Qed.

Lemma field_list_g_ok : forall (fjs : list (bytes * json)) (frs : list (bytes * raw)),
  Forall2 (fun fj fr => fst fj = fst fr /\ raw_of_json (snd fj) = Ok (snd fr)) fjs frs ->
  field_list_g raw_of_json (map (fun fj => field_json (fst fj) (snd fj)) fjs) = Ok frs.
Proof.
  intros fjs frs H. induction H as [|[fn j] [fn' r] fjs frs [Hn Hj] _ IH]; [reflexivity|].
  cbn [fst snd] in Hn, Hj. subst fn'.
  cbn [map fst snd]. unfold field_json at 1. cbn [field_list_g].
  fold (field_list_g raw_of_json). fold (field_type_g raw_of_json).
  change (lookup_all (lit "name") [(lit "name", JStr fn); (lit "type", j)]) with [JStr fn].
  cbn [rbind].
  change (field_type_g raw_of_json [(lit "name", JStr fn); (lit "type", j)]) with (raw_of_json j).
  rewrite Hj, IH. reflexivity.
Qed.

Lemma raw_record : forall lt parent ns simple (fjs : list (bytes * json)) (frs : list (bytes * raw)),
  lt_valid lt -> ns_ok ns -> has_dot simple = false ->
  Forall2 (fun fj fr => fst fj = fst fr /\ raw_of_json (snd fj) = Ok (snd fr)) fjs frs ->
  exists nme nsp, key_of_def parent nme nsp = (ns, simple) /\
  raw_of_json (JObj (type_and_logical "record" lt ++ name_entries parent (name_of_key (ns, simple)) ++
                     [(lit "fields", JArr (map (fun fj => field_json (fst fj) (snd fj)) fjs))])) =
  Ok (RwObject TyRecord (lname lt) (Some nme) nsp (Some frs) None None None None (lprec lt) (lscale lt)).
Proof.
  intros lt parent ns simple fjs frs Hlt Hns Hd Hf.
  destruct (raw_named "record" TyRecord lt parent ns simple "fields"
              (JArr (map (fun fj => field_json (fst fj) (snd fj)) fjs))
              eq_refl Hlt Hns Hd eq_refl eq_refl eq_refl eq_refl eq_refl eq_refl) as [nme [nsp [E1 E2]]].
  exists nme, nsp. split; [exact E1|]. rewrite E2.
  change (fields_g raw_of_json [(lit "fields", JArr (map (fun fj => field_json (fst fj) (snd fj)) fjs))] None)
    with (rmap Some (field_list_g raw_of_json (map (fun fj => field_json (fst fj) (snd fj)) fjs))).
  rewrite (field_list_g_ok fjs frs Hf). reflexivity.
Qed.

Print Assumptions dec_digits_unsigned.
Print Assumptions logical_of_roundtrip.
Print Assumptions raw_ref.
Print Assumptions str_for_ref_not_type.
Print Assumptions raw_prim.
Print Assumptions raw_obj.
Print Assumptions raw_named.
Print Assumptions raw_array.
Print Assumptions raw_map.
Print Assumptions raw_union.
Print Assumptions raw_enum.
Print Assumptions raw_fixed.
Print Assumptions raw_record.
