(** Unrepresentable values are rejected: the leaves of the serializer model. *)
From Coq Require Import List NArith ZArith Bool Lia.
Require Import Base Kinds Schema Varint Utf8 Sval Ser.
Import ListNotations.
Open Scope N_scope.

Lemma ser_int_at_leaf Sc n s w z st :
  (match n with FUnion _ => False | _ => True end) ->
  ser Sc n (SInt s w z) st = ser_int_leaf z n st.
Proof. intro H. destruct n; try contradiction; reflexivity. Qed.

Theorem int_out_of_range_rejected : forall Sc n s w z st,
  (n = FInt \/ n = FDate \/ n = FTimeMillis) -> Zin I32_MIN I32_MAX z = false ->
  ser Sc n (SInt s w z) st = (Err EData, st).
Proof.
  intros Sc n s w z st Hn Hz. rewrite ser_int_at_leaf by (destruct Hn as [->|[->| ->]]; exact I).
  destruct Hn as [->|[->| ->]]; cbn [ser_int_leaf]; rewrite Hz; reflexivity.
Qed.

Theorem long_out_of_range_rejected : forall Sc n s w z st,
  (n = FLong \/ n = FTimestampMillis \/ n = FTimestampMicros \/ n = FTimeMicros) -> Zin I64_MIN I64_MAX z = false ->
  ser Sc n (SInt s w z) st = (Err EData, st).
Proof.
  intros Sc n s w z st Hn Hz. rewrite ser_int_at_leaf by (destruct Hn as [->|[->|[->| ->]]]; exact I).
  destruct Hn as [->|[->|[->| ->]]]; cbn [ser_int_leaf]; rewrite Hz; reflexivity.
Qed.

Theorem enum_index_out_of_range_rejected : forall Sc nm syms s w z st,
  (z < 0 \/ Z.of_nat (length syms) <= z)%Z ->
  ser Sc (FEnum nm syms) (SInt s w z) st = (Err EData, st).
Proof.
  intros Sc nm syms s w z st Hz. rewrite ser_int_at_leaf by exact I. cbn [ser_int_leaf].
  destruct (Zin I64_MIN I64_MAX z); cbn [negb]; [|reflexivity].
  replace ((z <? 0)%Z || (Z.of_nat (length syms) <=? z)%Z) with true; [reflexivity|].
  symmetry. apply orb_true_iff. destruct Hz; [left; apply Z.ltb_lt | right; apply Z.leb_le]; assumption.
Qed.

Theorem enum_unknown_symbol_rejected : forall Sc nm syms s st,
  symbol_index syms s = None -> ser Sc (FEnum nm syms) (SStr s) st = (Err EData, st).
Proof. intros Sc nm syms s st H. cbn [ser via_union ser_str_leaf]. rewrite H. reflexivity. Qed.

Theorem fixed_wrong_length_rejected : forall Sc nm size b st,
  size <> N.of_nat (length b) -> ser Sc (FFixed nm size) (SBytes b) st = (Err EData, st).
Proof.
  intros Sc nm size b st H. cbn [ser via_union ser_bytes_leaf].
  destruct (N.eqb_spec size (N.of_nat (length b))); [contradiction|reflexivity].
Qed.

Theorem duration_wrong_length_rejected : forall Sc b st,
  length b <> 12%nat -> ser Sc FDuration (SBytes b) st = (Err EData, st).
Proof.
  intros Sc b st H. cbn [ser via_union ser_bytes_leaf].
  destruct (Nat.eqb_spec (length b) 12); [contradiction|reflexivity].
Qed.

Theorem string_invalid_utf8_rejected : forall Sc b st,
  utf8_valid b = false -> ser Sc FString (SBytes b) st = (Err EData, st).
Proof. intros Sc b st H. cbn [ser via_union ser_bytes_leaf]. rewrite H. reflexivity. Qed.

(* an integer presented to a fixed-size decimal that does not fit the size is rejected *)
Theorem int_decimal_fixed_no_fit_rejected : forall Sc p scale nm size s w z st,
  size <= 16 ->
  Zin I128_MIN I128_MAX z = true -> Zin I128_MIN I128_MAX (10 ^ Z.of_N scale)%Z = true ->
  Zin I128_MIN I128_MAX (z * 10 ^ Z.of_N scale)%Z = true ->
  (sign_ext_len 15 (be16 (z * 10 ^ Z.of_N scale)) < 16 - N.to_nat size)%nat ->
  ser Sc (FDecimal p scale (Some (nm, size))) (SInt s w z) st = (Err EData, st).
Proof.
  intros Sc p scale nm size s w z st Hs H1 H2 H3 Hfit.
  rewrite ser_int_at_leaf by exact I. cbn [ser_int_leaf]. unfold ser_int_decimal.
  rewrite H1, H2, H3. cbn [negb].
  destruct (N.ltb_spec 16 size); [lia|].
  destruct (Nat.ltb_spec (sign_ext_len 15 (be16 (z * 10 ^ Z.of_N scale))) (16 - N.to_nat size)); [reflexivity|lia].
Qed.

(* a Serialize impl that fails makes the call fail *)
Theorem sfail_rejected : forall Sc n st, ser Sc n SFail st = (Err EData, st).
Proof. intros. destruct n; reflexivity. Qed.
